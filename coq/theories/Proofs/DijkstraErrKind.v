(* Which `Err` can the per-source search return?  Only ContradictoryPaths
   (dijkstra.rs:452-455, the `vu_dist < u_dist` test on an already finalised
   neighbour — reachable only with a negative weight).  Every other non-Ok exit
   of [dijkstra] / [dijkstra_basic] / [run_from_index] is a Panic site (Vec index,
   i32 overflow) or the model's fuel; the index -> name conversions have no error
   exit either.  Hence [single_source] returns `Err k` only with k = NodeNotFound
   (source or target name absent) or k = ContradictoryPaths.  Stated for EVERY
   graph state (coherent or not) and every argument: after the up-front name checks of
   multi_source / all_pairs, every per-source error has the same kind — which is what
   makes "rayon's collect into Result returns the error of SOME failing item"
   unobservable (Proofs/ParFnsOk.v). *)
From Coq Require Import String List Bool ZArith QArith Arith.
From GV Require Import Base.Outcome Base.AMap Model.GState Model.Creation Model.Query Model.Dijkstra.
Import ListNotations.

(* [o] is not an `Err`, or it is `Err k0` *)
Definition err_only {X} (k0 : errkind) (o : outcome X) : Prop :=
  match o with Err k => k = k0 | _ => True end.

(* [o] is not an `Err` at all *)
Definition no_err {X} (o : outcome X) : Prop :=
  match o with Err _ => False | _ => True end.

Lemma no_err_only {X} k0 (o : outcome X) : no_err o -> err_only k0 o.
Proof. destruct o; cbn; auto; contradiction. Qed.

Lemma err_only_bind {X Y} k0 (o : outcome X) (f : X -> outcome Y) :
  err_only k0 o -> (forall x, o = Ok x -> err_only k0 (f x)) -> err_only k0 (bind o f).
Proof. intros Ho Hf. destruct o; cbn in *; auto. Qed.

Lemma no_err_bind {X Y} (o : outcome X) (f : X -> outcome Y) :
  no_err o -> (forall x, o = Ok x -> no_err (f x)) -> no_err (bind o f).
Proof. intros Ho Hf. destruct o; cbn in *; auto. Qed.

Lemma err_only_ofold {S X} k0 (f : S -> X -> outcome S) l :
  (forall s x, err_only k0 (f s x)) -> forall s, err_only k0 (ofold f l s).
Proof.
  intros Hf. induction l as [|x t IH]; intros s; cbn [ofold]; [exact I|].
  apply err_only_bind; [apply Hf | intros s' _; apply IH].
Qed.

Lemma no_err_ofold {S X} (f : S -> X -> outcome S) l :
  (forall s x, no_err (f s x)) -> forall s, no_err (ofold f l s).
Proof.
  intros Hf. induction l as [|x t IH]; intros s; cbn [ofold]; [exact I|].
  apply no_err_bind; [apply Hf | intros s' _; apply IH].
Qed.

Lemma no_err_omapM {X Y} (f : X -> outcome Y) l :
  (forall x, no_err (f x)) -> no_err (omapM f l).
Proof.
  intros Hf. induction l as [|x t IH]; cbn [omapM]; [exact I|].
  apply no_err_bind; [apply Hf|]. intros y _. apply no_err_bind; [exact IH|]. intros ys _. exact I.
Qed.

Lemma err_only_omapM {X Y} k0 (f : X -> outcome Y) l :
  (forall x, In x l -> err_only k0 (f x)) -> err_only k0 (omapM f l).
Proof.
  induction l as [|x t IH]; intros Hf; cbn [omapM]; [exact I|].
  apply err_only_bind; [apply Hf; left; reflexivity|]. intros y _.
  apply err_only_bind; [apply IH; intros x' Hx'; apply Hf; right; exact Hx'|]. intros ys _. exact I.
Qed.

Lemma no_err_unwrap_at {X} site (o : option X) : no_err (unwrap_at site o).
Proof. destruct o; exact I. Qed.

Lemma no_err_get_at {X} site (l : list X) i : no_err (get_at site l i).
Proof. apply no_err_unwrap_at. Qed.

Lemma no_err_set_at {X} site (l : list X) i x : no_err (set_at site l i x).
Proof. apply no_err_unwrap_at. Qed.

Lemma no_err_push s u vu : no_err (push_fringe_node s u vu).
Proof. unfold push_fringe_node. destruct (Z.ltb I32_MAX (d_count s + 1)); exact I. Qed.

(* dijkstra.rs:442-470: the one `return Err(ContradictoryPaths)` of the file *)
Lemma relax_err_kind weighted fo wp cutoff v d s a :
  err_only ContradictoryPaths (relax weighted fo wp cutoff v d s a).
Proof.
  unfold relax. destruct a as [u wt]. destruct (cost_of weighted wt) as [cost|]; [|exact I].
  destruct (cutoff_exceeded cutoff (d + cost)); [exact I|].
  apply err_only_bind; [apply no_err_only, no_err_get_at|]. intros du _.
  destruct du as [ud|].
  - destruct (Z.ltb (d + cost) ud); [reflexivity | exact I].
  - apply no_err_only. apply no_err_bind; [apply no_err_get_at|]. intros su _.
    destruct (lt_sentinel (d + cost) su).
    + apply no_err_bind; [apply no_err_set_at|]. intros sn _.
      apply no_err_bind; [apply no_err_push|]. intros s1 _. destruct wp; [|exact I].
      apply no_err_bind; [apply no_err_get_at|]. intros pv _.
      apply no_err_bind; [apply no_err_set_at|]. intros ps _. exact I.
    + destruct (negb fo && eq_sentinel (d + cost) su); [|exact I].
      apply no_err_bind; [apply no_err_push|]. intros s1 _. destruct wp; [|exact I].
      apply no_err_bind; [apply no_err_get_at|]. intros pv _.
      apply no_err_bind; [apply no_err_get_at|]. intros pu _.
      apply no_err_bind; [apply no_err_set_at|]. intros ps _. exact I.
Qed.

(* dijkstra.rs:510-523: the distance-only body has no error exit *)
Lemma relax_basic_no_err weighted d s a : no_err (relax_basic weighted d s a).
Proof.
  unfold relax_basic. destruct a as [u wt]. destruct (cost_of weighted wt) as [cost|]; [|exact I].
  apply no_err_bind; [apply no_err_get_at|]. intros su _.
  destruct (lt_sentinel (d + cost) su).
  - apply no_err_bind; [apply no_err_set_at|]. intros sn _. apply no_err_push.
  - destruct (eq_sentinel (d + cost) su); [apply no_err_push | exact I].
Qed.

Section ErrKind.
  Context {T A : Type}.
  Variable teqb : T -> T -> bool.
  Notation gstate := (gstate T A).

  Lemma dijkstra_loop_err_kind (g : gstate) weighted target cutoff fo wp : forall fuel s,
    err_only ContradictoryPaths (dijkstra_loop fuel g weighted target cutoff fo wp s).
  Proof.
    induction fuel as [|f IH]; intros s; cbn [dijkstra_loop]; [exact I|].
    destruct (heap_pop (d_fringe s)) as [[item rest]|]; [|exact I].
    apply err_only_bind; [apply no_err_only, no_err_get_at|]. intros dv _.
    destruct dv as [x|]; [apply IH|].
    apply err_only_bind; [apply no_err_only, no_err_set_at|]. intros dist' _.
    destruct (match target with Some t => Nat.eqb t (fr_index item) | None => false end); [exact I|].
    apply err_only_bind; [apply no_err_only; unfold get_successor_nodes_by_index; apply no_err_get_at|]. intros row _.
    apply err_only_bind; [apply err_only_ofold; intros s' a; apply relax_err_kind|]. intros s3 _. apply IH.
  Qed.

  Lemma basic_loop_no_err (g : gstate) weighted : forall fuel s, no_err (basic_loop fuel g weighted s).
  Proof.
    induction fuel as [|f IH]; intros s; cbn [basic_loop]; [exact I|].
    destruct (heap_pop (d_fringe s)) as [[item rest]|]; [|exact I].
    apply no_err_bind; [apply no_err_get_at|]. intros dv _.
    destruct dv as [x|]; [apply IH|].
    apply no_err_bind; [apply no_err_set_at|]. intros dist' _.
    apply no_err_bind; [unfold get_successor_nodes_by_index; apply no_err_get_at|]. intros row _.
    apply no_err_bind; [apply no_err_ofold; intros s' a; apply relax_basic_no_err|]. intros s3 _. apply IH.
  Qed.

  Lemma infos_from_no_err : forall dist k paths wp, no_err (infos_from k dist paths wp).
  Proof.
    induction dist as [|[v|] t IH]; intros k paths wp; cbn [infos_from]; [exact I| |apply IH].
    apply no_err_bind; [destruct wp; [apply no_err_get_at | exact I]|]. intros ps _.
    apply no_err_bind; [apply IH|]. intros r _. exact I.
  Qed.

  Lemma dijkstra_init_no_err (g : gstate) source wp : no_err (dijkstra_init g source wp).
  Proof.
    unfold dijkstra_init. apply no_err_bind; [destruct wp; [apply no_err_set_at | exact I]|]. intros paths _.
    apply no_err_bind; [apply no_err_set_at|]. intros seen _. exact I.
  Qed.

  Theorem dijkstra_err_kind (g : gstate) weighted source target cutoff fo wp :
    err_only ContradictoryPaths (dijkstra g weighted source target cutoff fo wp).
  Proof.
    unfold dijkstra. apply err_only_bind; [apply no_err_only, dijkstra_init_no_err|]. intros s0 _.
    apply err_only_bind; [apply dijkstra_loop_err_kind|]. intros s _.
    apply no_err_only. apply infos_from_no_err.
  Qed.

  Theorem dijkstra_basic_no_err (g : gstate) weighted source : no_err (dijkstra_basic g weighted source).
  Proof.
    unfold dijkstra_basic. apply no_err_bind; [apply dijkstra_init_no_err|]. intros s0 _.
    apply no_err_bind; [apply basic_loop_no_err|]. intros s _. apply infos_from_no_err.
  Qed.

  (* the per-source function of all three entry points *)
  Theorem run_from_index_err_kind (g : gstate) weighted source (target : option T) ti cutoff fo wp :
    err_only ContradictoryPaths (run_from_index g weighted source target ti cutoff fo wp).
  Proof.
    unfold run_from_index. destruct (can_use_basic target cutoff fo wp).
    - apply no_err_only, dijkstra_basic_no_err.
    - apply dijkstra_err_kind.
  Qed.

  Corollary run_from_index_err (g : gstate) weighted source (target : option T) ti cutoff fo wp k :
    run_from_index g weighted source target ti cutoff fo wp = Err k -> k = ContradictoryPaths.
  Proof. intros H. pose proof (run_from_index_err_kind g weighted source target ti cutoff fo wp) as E. rewrite H in E. exact E. Qed.

  Lemma name_of_index_no_err site (g : gstate) i : no_err (name_of_index site g i).
  Proof. unfold name_of_index. apply no_err_bind; [apply no_err_unwrap_at|]. intros n _. exact I. Qed.

  Lemma convert_no_err (g : gstate) r : no_err (convert_shortest_path_info_vec_to_t_map teqb g r).
  Proof.
    unfold convert_shortest_path_info_vec_to_t_map. apply no_err_ofold. intros m kv.
    apply no_err_bind; [apply name_of_index_no_err|]. intros k _.
    apply no_err_bind; [|intros v _; exact I].
    unfold convert_shortest_path_info_index_to_t. apply no_err_bind; [|intros ps _; exact I].
    apply no_err_omapM. intros p. apply no_err_omapM. intros j. apply name_of_index_no_err.
  Qed.

  (* single_source: NodeNotFound (an absent name) or ContradictoryPaths, nothing else *)
  Theorem single_source_err (g : gstate) weighted source target cutoff fo wp k :
    single_source teqb g weighted source target cutoff fo wp = Err k ->
    k = NodeNotFound \/ k = ContradictoryPaths.
  Proof.
    unfold single_source, get_node_index. intros H.
    destruct (lookup teqb source (nodes_map g)) as [si|]; cbn [bind] in H; [|inversion H; auto].
    destruct target as [t|].
    - destruct (lookup teqb t (nodes_map g)) as [ti|]; cbn [bind] in H; [|inversion H; auto].
      destruct (run_from_index g weighted si (Some t) (Some ti) cutoff fo wp) as [r| | |] eqn:E; cbn [bind] in H; try discriminate.
      + pose proof (convert_no_err g r) as N. rewrite H in N. contradiction.
      + inversion H; subst. right. eapply run_from_index_err; eauto.
    - cbn [bind] in H.
      destruct (run_from_index g weighted si None None cutoff fo wp) as [r| | |] eqn:E; cbn [bind] in H; try discriminate.
      + pose proof (convert_no_err g r) as N. rewrite H in N. contradiction.
      + inversion H; subst. right. eapply run_from_index_err; eauto.
  Qed.

  (* after the up-front name checks (the names are in nodes_map) only ContradictoryPaths is left *)
  Theorem single_source_err_present (g : gstate) weighted source target cutoff fo wp k si :
    lookup teqb source (nodes_map g) = Some si ->
    (forall t, target = Some t -> exists i, lookup teqb t (nodes_map g) = Some i) ->
    single_source teqb g weighted source target cutoff fo wp = Err k -> k = ContradictoryPaths.
  Proof.
    intros Hs Ht H. unfold single_source, get_node_index in H. rewrite Hs in H. cbn [bind] in H.
    destruct target as [t|].
    - destruct (Ht t eq_refl) as [ti Hti]. rewrite Hti in H. cbn [bind] in H.
      destruct (run_from_index g weighted si (Some t) (Some ti) cutoff fo wp) as [r| | |] eqn:E; cbn [bind] in H; try discriminate.
      + pose proof (convert_no_err g r) as N. rewrite H in N. contradiction.
      + inversion H; subst. eapply run_from_index_err; eauto.
    - cbn [bind] in H.
      destruct (run_from_index g weighted si None None cutoff fo wp) as [r| | |] eqn:E; cbn [bind] in H; try discriminate.
      + pose proof (convert_no_err g r) as N. rewrite H in N. contradiction.
      + inversion H; subst. eapply run_from_index_err; eauto.
  Qed.

  (* ---- the error channel of the two collecting entry points (every graph state, every argument) ---- *)
  Lemma has_node_no_err (g : gstate) x : no_err (has_node teqb g x).
  Proof.
    unfold has_node, get_node. destruct (contains_key teqb x (nodes_map g)); [|exact I].
    destruct (get_node_index teqb g x); exact I.
  Qed.

  Lemma has_nodes_no_err (g : gstate) xs : no_err (has_nodes teqb g xs).
  Proof.
    induction xs as [|x t IH]; cbn [has_nodes]; [exact I|].
    apply no_err_bind; [apply has_node_no_err|]. intros b _. destruct b; [exact IH | exact I].
  Qed.

  (* multi_source: NodeNotFound (up-front check, or — on an incoherent state only — a per-source lookup)
     or ContradictoryPaths (a per-source search) *)
  Theorem multi_source_err threads (g : gstate) weighted sources target cutoff fo wp k :
    multi_source teqb threads g weighted sources target cutoff fo wp = Err k ->
    k = NodeNotFound \/ k = ContradictoryPaths.
  Proof.
    unfold multi_source. intros H.
    pose proof (has_nodes_no_err g sources) as N1.
    destruct (has_nodes teqb g sources) as [b| | |]; cbn [bind] in H; try discriminate; [|contradiction].
    destruct (negb b); [inversion H; auto|].
    assert (N2 : no_err (match target with Some t => has_node teqb g t | None => Ok true end))
      by (destruct target; [apply has_node_no_err | exact I]).
    destruct (match target with Some t => has_node teqb g t | None => Ok true end) as [tb| | |]; cbn [bind] in H;
      try discriminate; [|contradiction].
    destruct (negb tb); [inversion H; auto|].
    match type of H with context [omapM ?f sources] => set (one := f) in H end.
    assert (Hom : omapM one sources = Err k).
    { destruct (parallel g threads); destruct (omapM one sources); cbn [bind] in H; try discriminate; exact H. }
    clear H. induction sources as [|s ss IH]; cbn [omapM] in Hom; [discriminate|].
    unfold one at 1 in Hom.
    destruct (single_source teqb g weighted s target cutoff fo wp) as [m|k'| |] eqn:E; cbn [bind] in Hom; try discriminate.
    - destruct (omapM one ss); cbn [bind] in Hom; try discriminate. apply IH. exact Hom.
    - inversion Hom; subst k'. eapply single_source_err; eauto.
  Qed.

  (* all_pairs: EdgeWeightNotSpecified (ensure_weighted), NodeNotFound (absent target) or
     ContradictoryPaths (a per-source search) *)
  Theorem all_pairs_err threads (g : gstate) weighted target cutoff fo wp k :
    all_pairs teqb threads g weighted target cutoff fo wp = Err k ->
    k = EdgeWeightNotSpecified \/ k = NodeNotFound \/ k = ContradictoryPaths.
  Proof.
    unfold all_pairs. intros H.
    destruct (if weighted then ensure_weighted g else Ok tt) as [u| | |] eqn:E1; cbn [bind] in H; try discriminate.
    2:{ inversion H; subst. destruct weighted; [|discriminate]. unfold ensure_weighted in E1.
        destruct (edges_have_weight g); inversion E1. auto. }
    destruct (match target with Some t => do _ <- get_node_index teqb g t; Ok tt | None => Ok tt end) as [u'| | |] eqn:E2;
      cbn [bind] in H; try discriminate.
    2:{ inversion H; subst. destruct target as [t|]; [|discriminate]. unfold get_node_index in E2.
        destruct (lookup teqb t (nodes_map g)); cbn in E2; inversion E2. auto. }
    right. right.
    assert (Hit : err_only ContradictoryPaths (all_pairs_iter teqb g weighted target cutoff fo wp)).
    { unfold all_pairs_iter. apply err_only_bind.
      - apply no_err_only. destruct target as [t|]; [|exact I]. apply no_err_bind; [|intros i _; exact I].
        unfold unwrap_result. destruct (get_node_index teqb g t); exact I.
      - intros ti _. apply err_only_omapM. intros i _.
        apply err_only_bind; [apply run_from_index_err_kind | intros r _; exact I]. }
    assert (Hall : err_only ContradictoryPaths (all_pairs teqb threads g weighted target cutoff fo wp)).
    { unfold all_pairs. rewrite E1, E2. cbn [bind]. apply err_only_bind.
      - destruct (parallel g threads); exact Hit.
      - intros vecs _. apply no_err_only. apply no_err_bind; [|intros l _; exact I].
        apply no_err_omapM. intros sv. apply no_err_bind; [apply name_of_index_no_err|]. intros nm _.
        apply no_err_bind; [apply convert_no_err | intros m _; exact I]. }
    unfold all_pairs in Hall. rewrite E1, E2 in Hall. cbn [bind] in Hall. rewrite H in Hall. exact Hall.
  Qed.
End ErrKind.
