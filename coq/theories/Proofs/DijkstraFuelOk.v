(* C06 / C05, deepening (round 2): the fuel [2 + nedges g + n] that the model passes to the heap
   loop of betweenness.rs / closeness.rs ([bloop]) is never exhausted, for every adjacency whose
   stored indexes are in range, every source and every tie choice of the heap (no hypothesis on
   the costs).  Measure: entries in the fringe + edges leaving nodes that are not finalised yet;
   every iteration pops one entry, and finalising v pushes at most |row v| entries while removing
   row v from the second summand. *)
From Coq Require Import List Bool ZArith Arith QArith Lia.
From GV Require Import Base.Outcome Model.GState Model.Cent Model.Brandes Model.Closeness.
From GV Require Import Proofs.CentBase Proofs.BrandesBfsOk Proofs.ClosenessBfsOk Proofs.DijkstraOk.
Import ListNotations.
Local Open Scope nat_scope.

Section Fuel.
  Variable g : qadj.
  Notation n := (length g).
  Hypothesis Hok : adj_ok n g = true.

  Definition rowlen (D : list (option Q)) (v : nat) : nat :=
    match get None D v with None => length (get [] g v) | Some _ => 0 end.
  Definition sum_rows (D : list (option Q)) (l : list nat) : nat :=
    fold_right (fun v k => rowlen D v + k) 0 l.
  Definition unfin (D : list (option Q)) : nat := sum_rows D (seq 0 n).
  Definition mu (s : bs) : nat := length (bfr s) + unfin (bD s).
  Definition fr_ok (s : bs) : Prop :=
    length (bD s) = n /\ forall d p v, In (d, p, v) (bfr s) -> v < n.

  Lemma sum_rows_upd_out D v d l : ~ In v l -> sum_rows (upd v (Some d) D) l = sum_rows D l.
  Proof.
    induction l as [|u l IH]; intros Hni; cbn [sum_rows fold_right]; [reflexivity|].
    fold (sum_rows (upd v (Some d) D) l). fold (sum_rows D l).
    rewrite IH by (intros H; apply Hni; right; exact H).
    unfold rowlen. rewrite get_upd_neq by (intros ->; apply Hni; left; reflexivity). reflexivity.
  Qed.

  Lemma sum_rows_upd_in D v d l : NoDup l -> In v l -> v < length D -> get None D v = None ->
    sum_rows (upd v (Some d) D) l + length (get [] g v) = sum_rows D l.
  Proof.
    induction l as [|u l IH]; intros Hnd Hin Hlt HN; [destruct Hin|].
    inversion Hnd as [|? ? Hni Hnd']; subst. cbn [sum_rows fold_right].
    fold (sum_rows (upd v (Some d) D) l). fold (sum_rows D l).
    destruct (Nat.eq_dec u v) as [->|Hne].
    - rewrite (sum_rows_upd_out D v d l Hni). unfold rowlen. rewrite get_upd_eq by exact Hlt. rewrite HN. lia.
    - destruct Hin as [Hin|Hin]; [congruence|]. rewrite <- (IH Hnd' Hin Hlt HN).
      unfold rowlen. rewrite get_upd_neq by congruence. lia.
  Qed.

  Lemma unfin_upd D v d : length D = n -> v < n -> get None D v = None ->
    unfin (upd v (Some d) D) + length (get [] g v) = unfin D.
  Proof.
    intros Hl Hv HN. unfold unfin. apply sum_rows_upd_in; [apply seq_NoDup|apply in_seq; lia|lia|exact HN].
  Qed.

  (* one relaxation: D unchanged, at most one push, of a node of the row *)
  Lemma brelax_facts v d s a :
    bD (brelax v d s a) = bD s /\
    (bfr (brelax v d s a) = bfr s \/ exists q, bfr (brelax v d s a) = bfr s ++ [(q, v, fst a)]).
  Proof.
    unfold brelax. destruct a as [w cost].
    destruct ((match get None (bD s) w with None => true | Some _ => false end) &&
              (match get None (bseen s) w with None => true | Some x => qlt (Qred (d + cost)) x end)).
    - cbn [bD bfr fst]. split; [reflexivity|]. right. eexists. reflexivity.
    - destruct (oqeqb (Qred (d + cost)) (get None (bseen s) w)); cbn [bD bfr]; split; auto.
  Qed.

  Lemma fold_relax_facts v d : forall row s,
    bD (fold_left (brelax v d) row s) = bD s /\
    length (bfr (fold_left (brelax v d) row s)) <= length (bfr s) + length row /\
    (forall q p u, In (q, p, u) (bfr (fold_left (brelax v d) row s)) ->
                   In (q, p, u) (bfr s) \/ In u (map fst row)).
  Proof.
    induction row as [|a row IH]; intros s; cbn [fold_left length map].
    - split; [reflexivity|]. split; [lia|]. auto.
    - destruct (IH (brelax v d s a)) as (HD & HL & HM). destruct (brelax_facts v d s a) as (HD1 & HF1).
      split; [rewrite HD; exact HD1|]. split.
      + destruct HF1 as [E|(q & E)]; rewrite E in HL; [lia|]. rewrite app_length in HL. cbn [length] in HL. lia.
      + intros q p u Hin. destruct (HM q p u Hin) as [H|H]; [|right; right; exact H].
        destruct HF1 as [E|(q' & E)]; rewrite E in H; [left; exact H|].
        apply in_app_or in H. destruct H as [H|[H|[]]]; [left; exact H|].
        inversion H. subst. right. left. reflexivity.
  Qed.

  Lemma row_range v u : In u (map fst (get [] g v)) -> u < n.
  Proof. intros H. apply (E_range g Hok v u). exact H. Qed.

  Lemma bloop_total lw : forall fuel s, fr_ok s -> mu s < fuel -> exists s', bloop fuel lw g s = Some s'.
  Proof.
    induction fuel as [|f IH]; intros s (HlD & Hfr) Hmu; [lia|]. cbn [bloop].
    destruct (bfr s) as [|x t] eqn:Efr; [eexists; reflexivity|].
    destruct (extract_min lw x t []) as [[[d pred] v] rest] eqn:Hex.
    destruct (extract_min_spec lw t x [] _ _ Hex ltac:(intros e [])) as (Hmem & _ & Hlen).
    rewrite app_nil_r in Hmem. cbn [length] in Hlen. rewrite Nat.add_0_r in Hlen.
    assert (Hsub : forall e, In e ((d, pred, v) :: rest) -> In e (x :: t)).
    { intros e He. apply Hmem. exact He. }
    assert (Hv : v < n) by (apply (Hfr d pred v); apply Hsub; left; reflexivity).
    unfold mu in Hmu. try rewrite Efr in Hmu. cbn [length] in Hmu.
    cbn [bD bseen bsig bP bS bfr].
    destruct (get None (bD s) v) as [q|] eqn:HDv.
    - apply IH.
      + split; [exact HlD|]. cbn [bfr]. intros d0 p0 u Hu. apply (Hfr d0 p0 u). apply Hsub. right. exact Hu.
      + unfold mu. cbn [bfr bD]. lia.
    - set (s2 := mkbs (upd v (Some d) (bD s)) (bseen s)
                      (upd v (Qred (get 0%Q (bsig s) v + get 0%Q (bsig s) pred)) (bsig s))
                      (bP s) (bS s ++ [v]) rest).
      destruct (fold_relax_facts v d (get [] g v) s2) as (HD & HL & HM).
      apply IH.
      + split.
        * rewrite HD. unfold s2. cbn [bD]. rewrite upd_length. exact HlD.
        * intros d0 p0 u Hu. destruct (HM d0 p0 u Hu) as [H|H].
          -- unfold s2 in H. cbn [bfr] in H. apply (Hfr d0 p0 u). apply Hsub. right. exact H.
          -- apply (row_range v u H).
      + unfold mu. rewrite HD. unfold s2 at 2. cbn [bD].
        pose proof (unfin_upd (bD s) v d HlD Hv HDv) as Hu.
        change (length (bfr s2)) with (length rest) in HL. lia.
  Qed.

  Lemma sum_nth_rows : forall (rows : list (list (nat * Q))),
    fold_right (fun v acc => length (nth v rows []) + acc) 0 (seq 0 (length rows)) = nedges rows.
  Proof.
    induction rows as [|r rows IH]; [reflexivity|].
    cbn [length seq fold_right nth]. change (nedges (r :: rows)) with (length r + nedges rows).
    f_equal. rewrite <- seq_shift.
    rewrite <- IH. clear IH. generalize (seq 0 (length rows)) as l.
    induction l as [|v l IHl]; [reflexivity|]. cbn [map fold_right nth]. rewrite IHl. reflexivity.
  Qed.

  Lemma unfin_init : unfin (repeat None n) = nedges g.
  Proof.
    unfold unfin, sum_rows. rewrite <- (sum_nth_rows g).
    generalize (seq 0 n) as l. induction l as [|v l IHl]; [reflexivity|]. cbn [fold_right]. rewrite IHl.
    f_equal. unfold rowlen.
    destruct (get_repeat _ (@None Q) n v None) as [H|H]; rewrite H; reflexivity.
  Qed.

  Theorem bdijkstra_total lw src : src < n -> exists s, bdijkstra lw g src = Some s.
  Proof.
    intros Hsrc. unfold bdijkstra. apply bloop_total.
    - split; [cbn [bD]; apply repeat_length|]. cbn [bfr]. intros d p v [H|[]]. inversion H. subst. exact Hsrc.
    - unfold mu. cbn [bfr bD length]. rewrite unfin_init. lia.
  Qed.

  Theorem sssp_weighted_total lw src : src < n -> exists sp, sssp_weighted lw g src = Some sp.
  Proof.
    intros Hsrc. unfold sssp_weighted. destruct (bdijkstra_total lw src Hsrc) as (s & ->). eexists. reflexivity.
  Qed.
End Fuel.

Section ModelFuel.
  Context {T A : Type}.

  (* the weighted per-node computation of the model never runs out of fuel *)
  Theorem weighted_model_no_fuel_exhaustion : forall lw wf (tg : gstate T A) (a : qadj) src,
    adj_ok (length a) a = true -> src < length a ->
    closeness_one lw true wf tg a (length a) src <> OutOfFuel.
  Proof.
    intros lw wf tg a src Hok Hsrc. unfold closeness_one. cbn [sssp].
    destruct (sssp_weighted_total a Hok lw src Hsrc) as [sp Hsp]. rewrite Hsp.
    destruct (get_node_centrality sp (length a) wf) as [cc| | |] eqn:Eg; cbn.
    - destruct (Query.get_node_by_index tg src); discriminate.
    - discriminate.
    - discriminate.
    - exfalso. unfold get_node_centrality in Eg.
      destruct (qlt 0 (Qred (Closeness.qsum (map snd sp))) && Nat.ltb 1 (length a)); [|discriminate].
      destruct (length sp); [discriminate|]. destruct wf; discriminate.
  Qed.
End ModelFuel.
