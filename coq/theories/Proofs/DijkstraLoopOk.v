(* Unbounded correctness of the transcribed search loops (Model/Dijkstra.v):
   whenever [dijkstra_basic], or [dijkstra] without target and cutoff, returns
   [Ok r] on a graph whose traversal costs are non-negative, [r] reports
   exactly the nodes reachable from the source, each with its shortest-path
   length.  The proof carries an invariant over the pop loop and the row fold
   (finalised values and tentative values are weights of walks; the fringe
   holds the tentative value of every un-finalised seen node; pops are
   monotone; every entry leaving a finalised node is feasible) and concludes
   with the certificate theorem [cert_is_dist] of ShortestPathOk.v — so the
   shortest distance itself never appears in the invariant. *)
From Coq Require Import String List Bool ZArith QArith Qround Arith Lia.
From GV Require Import Base.Outcome Base.AMap Model.GState Model.Creation Model.Query Model.Dijkstra.
From GV Require Import Spec.ShortestPathDef Spec.ShortestPathCheck Proofs.ShortestPathOk.
Import ListNotations.
Open Scope Z_scope.

(* ------------------------------------------------------------ lists *)
Lemma set_nth_length : forall X i (x : X) l l', set_nth i x l = Some l' -> length l' = length l.
Proof.
  intros X i x l. revert i. induction l as [|h t IH]; intros [|i] l' H; cbn in H; try discriminate.
  - inversion H. reflexivity.
  - destruct (set_nth i x t) eqn:E; [|discriminate]. inversion H. cbn. f_equal. eapply IH; eauto.
Qed.

Lemma set_nth_eq : forall X i (x : X) l l', set_nth i x l = Some l' -> nth_error l' i = Some x.
Proof.
  intros X i x l. revert i. induction l as [|h t IH]; intros [|i] l' H; cbn in H; try discriminate.
  - inversion H. reflexivity.
  - destruct (set_nth i x t) eqn:E; [|discriminate]. inversion H. cbn. eapply IH; eauto.
Qed.

Lemma set_nth_neq : forall X i (x : X) l l' j, set_nth i x l = Some l' -> j <> i ->
  nth_error l' j = nth_error l j.
Proof.
  intros X i x l. revert i. induction l as [|h t IH]; intros [|i] l' j H Hne; cbn in H; try discriminate.
  - inversion H. destruct j; [congruence|reflexivity].
  - destruct (set_nth i x t) eqn:E; [|discriminate]. inversion H. destruct j; [reflexivity|].
    cbn. eapply IH; eauto.
Qed.

Lemma get_at_ok : forall X site (l : list X) i x, get_at site l i = Ok x -> nth_error l i = Some x.
Proof. intros X site l i x H. unfold get_at, unwrap_at in H. destruct (nth_error l i); inversion H; reflexivity. Qed.

Lemma set_at_ok : forall X site (l : list X) i x l', set_at site l i x = Ok l' -> set_nth i x l = Some l'.
Proof. intros X site l i x l' H. unfold set_at, unwrap_at in H. destruct (set_nth i x l); inversion H; reflexivity. Qed.

Lemma bind_ok : forall X Y (o : outcome X) (f : X -> outcome Y) y,
  bind o f = Ok y -> exists x, o = Ok x /\ f x = Ok y.
Proof. intros X Y o f y H. destruct o; cbn in H; try discriminate. eauto. Qed.

(* ------------------------------------------------------------ the heap *)
Definition key (it : fringe_node) : Z := - fr_distance it.

Lemma fr_cmp_gt : forall x m, fr_cmp x m = Gt -> fr_distance m <= fr_distance x.
Proof.
  intros x m H. unfold fr_cmp in H.
  destruct (Z.ltb (fr_distance x) (fr_distance m)) eqn:E1; [discriminate|].
  apply Z.ltb_ge in E1. exact E1.
Qed.

Lemma fr_cmp_not_gt : forall x m, fr_cmp x m <> Gt -> fr_distance x <= fr_distance m.
Proof.
  intros x m H. unfold fr_cmp in H.
  destruct (Z.ltb (fr_distance x) (fr_distance m)) eqn:E1; [apply Z.ltb_lt in E1; lia|].
  destruct (Z.ltb (fr_distance m) (fr_distance x)) eqn:E2; [congruence|].
  apply Z.ltb_ge in E2. exact E2.
Qed.

Lemma heap_pop_spec : forall h m r, heap_pop h = Some (m, r) ->
  (forall y, In y h <-> y = m \/ In y r) /\ (forall y, In y h -> fr_distance y <= fr_distance m).
Proof.
  induction h as [|x t IH]; intros m r H; cbn [heap_pop] in H; [discriminate|].
  destruct (heap_pop t) as [[m' r']|] eqn:E.
  - destruct (IH _ _ eq_refl) as [Hin Hmax].
    destruct (fr_cmp x m') eqn:C; inversion H; subst.
    + split.
      * intros y. cbn [In]. rewrite Hin. clear. split; intros [H1|[H1|H1]]; auto.
      * intros y [<- | Hy]; [apply fr_cmp_not_gt; congruence | apply Hmax; exact Hy].
    + split.
      * intros y. cbn [In]. rewrite Hin. clear. split; intros [H1|[H1|H1]]; auto.
      * intros y [<- | Hy]; [apply fr_cmp_not_gt; congruence | apply Hmax; exact Hy].
    + split.
      * intros y. cbn [In]. clear. split; intros [H1|H1]; auto.
      * intros y [<- | Hy]; [lia|]. apply fr_cmp_gt in C. specialize (Hmax _ Hy). lia.
  - destruct t; [|cbn in E; destruct (heap_pop t) as [[? ?]|]; [destruct (fr_cmp f f0)|]; discriminate].
    inversion H; subst. split.
    + intros y. cbn [In]. split; intros [H1|[]]; auto.
    + intros y [<- | []]. lia.
Qed.

Lemma wedge_wgraph_of : forall (weighted : bool) (sv0 : list (list (nat * option Z))) v u c,
  wedge (wgraph_of weighted sv0) v u c <->
  exists row wt, nth_error sv0 v = Some row /\ In (u, wt) row /\
                 (if weighted then wt else Some 1) = Some c.
Proof.
  intros weighted sv0 v u c. unfold wedge, wgraph_of. rewrite nth_error_map. split.
  - intros [row' [Hn Hin]]. destruct (nth_error sv0 v) as [row|] eqn:E; cbn in Hn; [|discriminate].
    inversion Hn; subst row'. apply in_flat_map in Hin. destruct Hin as [[u' wt] [Hin Hc]].
    cbn [fst snd] in Hc. exists row, wt. split; [reflexivity|].
    destruct (if weighted then wt else Some 1) as [c'|]; [|destruct Hc].
    destruct Hc as [Hc | []]. inversion Hc; subst. auto.
  - intros [row [wt [Hn [Hin Hc]]]]. rewrite Hn. cbn. eexists. split; [reflexivity|].
    apply in_flat_map. exists (u, wt). split; [exact Hin|]. cbn [fst snd].
    rewrite Hc. left. reflexivity.
Qed.

Lemma push_ok : forall s u vu s1, push_fringe_node s u vu = Ok s1 ->
  d_dist s1 = d_dist s /\ d_seen s1 = d_seen s /\
  exists it, d_fringe s1 = it :: d_fringe s /\ fr_index it = u /\ key it = vu.
Proof.
  intros s u vu s1 H. unfold push_fringe_node in H.
  destruct (Z.ltb I32_MAX (d_count s + 1)); [discriminate|]. inversion H; subst. cbn.
  split; [reflexivity|]. split; [reflexivity|]. eexists. split; [reflexivity|]. cbn. unfold key. cbn. split; [reflexivity | lia].
Qed.


(* ------------------------------------------------------------ the invariant *)
Section Loop.
  Context {T A : Type}.
  Variable g : gstate T A.
  Variable weighted : bool.
  Variable src : nat.
  Variable cutoff : option Q.

  Let sv := successors_vec g.
  Let wg := wgraph_of weighted sv.
  Let n := number_of_nodes g.

  Hypothesis Hnn : nonneg wg.
  Hypothesis Hlen : length sv = n.

  Lemma wedge_wg : forall v u c, wedge wg v u c <->
    exists row wt, nth_error sv v = Some row /\ In (u, wt) row /\ cost_of weighted wt = Some c.
  Proof. intros v u c. apply (wedge_wgraph_of weighted sv v u c). Qed.

  Lemma wg_length : length wg = n.
  Proof. unfold wg, wgraph_of. rewrite map_length. exact Hlen. Qed.

  Definition vec := list (option Z).
  Definition fin (D : vec) (v : nat) (x : Z) : Prop := nth_error D v = Some (Some x).
  Definition unfin (D : vec) (v : nat) : Prop := nth_error D v = Some None.

  Record core (D S : vec) (F : list fringe_node) : Prop := {
    c_len_d : length D = n;
    c_len_s : length S = n;
    c_ach_d : forall v x, fin D v x -> exists p, walk wg src v p x;
    c_ach_s : forall u x, fin S u x -> exists p, walk wg src u p x;
    c_fr_sn : forall it, In it F -> exists x, fin S (fr_index it) x /\ x <= key it;
    c_sn_fr : forall u x, fin S u x -> unfin D u -> exists it, In it F /\ fr_index it = u /\ key it = x;
    c_mono : forall v x it, fin D v x -> In it F -> x <= key it;
    c_d_sn : forall v x, fin D v x -> exists y, fin S v y /\ y <= x;
    c_src : fin D src 0 \/ (unfin D src /\ fin S src 0);
    c_cut_d : forall v x, fin D v x -> cutoff_exceeded cutoff x = false;
    c_cut_s : forall u x, fin S u x -> cutoff_exceeded cutoff x = false
  }.

  Definition feas (P : nat -> nat -> Z -> Prop) (D S : vec) : Prop :=
    forall v dv u c, fin D v dv -> P v u c ->
      (exists du, fin D u du /\ du <= dv + c) \/
      (unfin D u /\ exists su, fin S u su /\ su <= dv + c) \/
      cutoff_exceeded cutoff (dv + c) = true.

  Lemma feas_weaken : forall (P Q : nat -> nat -> Z -> Prop) D S,
    (forall v u c, Q v u c -> P v u c) -> feas P D S -> feas Q D S.
  Proof. intros P Q D S H F v dv u c Hv Hq. apply (F v dv u c Hv). apply H. exact Hq. Qed.

  Lemma fin_fun : forall D v x y, fin D v x -> fin D v y -> x = y.
  Proof. unfold fin. intros D v x y H1 H2. congruence. Qed.

  Lemma fin_unfin : forall D v x, fin D v x -> unfin D v -> False.
  Proof. unfold fin, unfin. intros. congruence. Qed.

  Lemma ach_nonneg : forall v p x, walk wg src v p x -> 0 <= x.
  Proof. intros v p x H. eapply walk_nonneg; eauto. Qed.

  (* the state while the row of the just finalised node v (value k) is relaxed *)
  Definition mid (P : nat -> nat -> Z -> Prop) (k : Z) (v : nat) (D S : vec) (F : list fringe_node) : Prop :=
    core D S F /\ feas P D S /\ (forall v' x, fin D v' x -> x <= k) /\ fin D v k.

  Definition newedge (v u : nat) (c : Z) : nat -> nat -> Z -> Prop :=
    fun v' u' c' => v' = v /\ u' = u /\ c' = c.

  Lemma defined_in_D : forall D S F u x, core D S F -> fin S u x ->
    (exists du, fin D u du) \/ unfin D u.
  Proof.
    intros D S F u x C Hs. assert (Hlt : (u < length S)%nat).
    { apply nth_error_Some. unfold fin in Hs. rewrite Hs. discriminate. }
    rewrite (c_len_s _ _ _ C) in Hlt. rewrite <- (c_len_d _ _ _ C) in Hlt.
    apply nth_error_Some in Hlt. unfold fin, unfin.
    destruct (nth_error D u) as [[du|]|]; [left; eauto | right; reflexivity | congruence].
  Qed.

  (* nothing changes; the new entry is already feasible *)
  Lemma T_none : forall P k v D S F u c,
    mid P k v D S F ->
    ((exists du, fin D u du /\ du <= k + c) \/ (unfin D u /\ exists su, fin S u su /\ su <= k + c) \/
     cutoff_exceeded cutoff (k + c) = true) ->
    mid (fun v' u' c' => P v' u' c' \/ newedge v u c v' u' c') k v D S F.
  Proof.
    intros P k v D S F u c [C [Fe [Mx Fv]]] Hnew. split; [exact C|]. split; [|split; assumption].
    intros v' dv u' c' Hv' [Hp | [-> [-> ->]]]; [apply (Fe _ _ _ _ Hv' Hp)|].
    rewrite (fin_fun _ _ _ _ Hv' Fv). exact Hnew.
  Qed.

  (* an equal tentative value: one more fringe entry *)
  Lemma T_tie : forall P k v D S F u c it,
    mid P k v D S F -> 0 <= c ->
    fin S u (k + c) -> fr_index it = u -> key it = k + c ->
    mid (fun v' u' c' => P v' u' c' \/ newedge v u c v' u' c') k v D S (it :: F).
  Proof.
    intros P k v D S F u c it [C [Fe [Mx Fv]]] Hc Hs Hi Hk. split; [|split; [|split; assumption]].
    - destruct C. split; try assumption.
      + intros it' [<- | Hin]; [|apply c_fr_sn0; exact Hin]. exists (k + c). rewrite Hi. split; [exact Hs | lia].
      + intros u' x Hu' Hun. destruct (c_sn_fr0 _ _ Hu' Hun) as [it' [Hin H]]. exists it'. split; [right; exact Hin | exact H].
      + intros v' x it' Hv' [<- | Hin]; [|eapply c_mono0; eauto]. specialize (Mx _ _ Hv'). lia.
    - intros v' dv u' c' Hv' [Hp | [-> [-> ->]]]; [apply (Fe _ _ _ _ Hv' Hp)|].
      rewrite (fin_fun _ _ _ _ Hv' Fv).
      destruct (defined_in_D _ _ _ _ _ C Hs) as [[du Hdu] | Hun].
      + left. exists du. split; [exact Hdu|]. specialize (Mx _ _ Hdu). lia.
      + right. left. split; [exact Hun|]. exists (k + c). split; [exact Hs | lia].
  Qed.

  (* a strictly better tentative value for an un-finalised node *)
  Lemma T_improve : forall P k v D S F u c it S',
    mid P k v D S F -> 0 <= c -> wedge wg v u c ->
    unfin D u -> (forall x, fin S u x -> k + c < x) -> cutoff_exceeded cutoff (k + c) = false ->
    set_nth u (Some (k + c)) S = Some S' -> fr_index it = u -> key it = k + c ->
    mid (fun v' u' c' => P v' u' c' \/ newedge v u c v' u' c') k v D S' (it :: F).
  Proof.
    intros P k v D S F u c it S' [C [Fe [Mx Fv]]] Hc He Hun Hlt Hcut Hset Hi Hk.
    assert (Hsu : fin S' u (k + c)) by (eapply set_nth_eq; eauto).
    assert (Hso : forall j, j <> u -> nth_error S' j = nth_error S j) by (intros; eapply set_nth_neq; eauto).
    assert (Hk0 : 0 <= k).
    { destruct (c_ach_d _ _ _ C _ _ Fv) as [p Hp]. eapply ach_nonneg; eauto. }
    split; [|split; [|split; assumption]].
    - destruct C. split; try assumption.
      + rewrite (set_nth_length _ _ _ _ _ Hset). assumption.
      + intros u' x Hu'. destruct (Nat.eq_dec u' u) as [->|Hne].
        * rewrite (fin_fun _ _ _ _ Hu' Hsu). destruct (c_ach_d0 _ _ Fv) as [p Hp].
          exists (p ++ [u]). eapply walk_snoc; eauto.
        * apply c_ach_s0. unfold fin in *. rewrite <- Hso; assumption.
      + intros it' [<- | Hin].
        * exists (k + c). rewrite Hi. split; [exact Hsu | lia].
        * destruct (c_fr_sn0 _ Hin) as [x [Hx Hle]]. destruct (Nat.eq_dec (fr_index it') u) as [E|Hne].
          -- rewrite E in *. exists (k + c). split; [exact Hsu|]. specialize (Hlt _ Hx). lia.
          -- exists x. split; [|exact Hle]. unfold fin in *. rewrite Hso; assumption.
      + intros u' x Hu' Hun'. destruct (Nat.eq_dec u' u) as [->|Hne].
        * exists it. rewrite (fin_fun _ _ _ _ Hu' Hsu). auto with datatypes.
        * assert (Hx : fin S u' x) by (unfold fin in *; rewrite <- Hso; assumption).
          destruct (c_sn_fr0 _ _ Hx Hun') as [it' [Hin H]]. exists it'. split; [right; exact Hin | exact H].
      + intros v' x it' Hv' [<- | Hin]; [|eapply c_mono0; eauto]. specialize (Mx _ _ Hv'). lia.
      + intros v' x Hv'. assert (v' <> u) by (intros ->; eapply fin_unfin; eauto).
        destruct (c_d_sn0 _ _ Hv') as [y [Hy Hle]]. exists y. split; [|exact Hle].
        unfold fin in *. rewrite Hso; assumption.
      + destruct c_src0 as [H0 | [H0 H1]]; [left; exact H0|]. right. split; [exact H0|].
        assert (src <> u). { intros ->. specialize (Hlt _ H1). lia. }
        unfold fin in *. rewrite Hso; assumption.
      + intros u' x Hu'. destruct (Nat.eq_dec u' u) as [->|Hne].
        * rewrite (fin_fun _ _ _ _ Hu' Hsu). exact Hcut.
        * apply (c_cut_s0 u'). unfold fin in *. rewrite <- Hso; assumption.
    - intros v' dv u' c' Hv' [Hp | [-> [-> ->]]].
      + destruct (Fe _ _ _ _ Hv' Hp) as [H | [[Hun' [su [Hsu' Hle]]] | Hsk]]; [left; exact H| |right; right; exact Hsk].
        right. left. split; [exact Hun'|].
        destruct (Nat.eq_dec u' u) as [->|Hne].
        * exists (k + c). split; [exact Hsu|]. specialize (Hlt _ Hsu'). lia.
        * exists su. split; [|exact Hle]. unfold fin in *. rewrite Hso; assumption.
      + rewrite (fin_fun _ _ _ _ Hv' Fv). right. left. split; [exact Hun|]. exists (k + c). split; [exact Hsu | lia].
  Qed.

  Lemma mid_weaken : forall (P Q : nat -> nat -> Z -> Prop) k v D S F,
    (forall v' u c, Q v' u c -> P v' u c) -> mid P k v D S F -> mid Q k v D S F.
  Proof.
    intros P Q k v D S F H [C [Fe R]]. split; [exact C|]. split; [|exact R].
    eapply feas_weaken; eauto.
  Qed.

  Definition rowedge (v : nat) (a : adj) : nat -> nat -> Z -> Prop :=
    fun v' u' c' => v' = v /\ u' = fst a /\ cost_of weighted (snd a) = Some c'.

  Lemma fin_get : forall (D : vec) u o x, nth_error D u = Some o -> fin D u x -> o = Some x.
  Proof. unfold fin. intros. congruence. Qed.

  (* dijkstra.rs:442-470 without cutoff *)
  Lemma relax_step : forall fo wp P k v s a s' row,
    nth_error sv v = Some row -> In a row ->
    mid P k v (d_dist s) (d_seen s) (d_fringe s) ->
    relax weighted fo wp cutoff v k s a = Ok s' ->
    mid (fun v' u' c' => P v' u' c' \/ rowedge v a v' u' c') k v (d_dist s') (d_seen s') (d_fringe s').
  Proof.
    intros fo wp P k v s [u wt] s' row Hrow Hin M H. unfold relax in H.
    destruct (cost_of weighted wt) as [c|] eqn:Ec.
    2:{ inversion H; subst. eapply mid_weaken; [|exact M].
        intros v' u' c' [Hp | [_ [_ Hc]]]; [exact Hp|]. cbn in Hc. congruence. }
    assert (He : wedge wg v u c) by (apply wedge_wg; eauto).
    assert (Hc0 : 0 <= c) by (eapply Hnn; eauto).
    assert (W : forall D' S' F', mid (fun v' u' c' => P v' u' c' \/ newedge v u c v' u' c') k v D' S' F' ->
                 mid (fun v' u' c' => P v' u' c' \/ rowedge v (u, wt) v' u' c') k v D' S' F').
    { intros D' S' F'. apply mid_weaken. intros v' u' c' [Hp | [-> [Hu Hc]]]; [left; exact Hp|].
      right. cbn in Hu, Hc. subst. split; [reflexivity|]. split; [reflexivity|]. congruence. }
    destruct (cutoff_exceeded cutoff (k + c)) eqn:Ecut.
    { inversion H; subst s'. apply W. apply T_none; [exact M|]. right. right. exact Ecut. }
    apply bind_ok in H. destruct H as [du [Hdu H]]. apply get_at_ok in Hdu.
    destruct du as [ud|].
    - destruct (Z.ltb (k + c) ud) eqn:El; [discriminate|]. inversion H; subst s'. apply Z.ltb_ge in El.
      apply W. apply T_none; [exact M|]. left. exists ud. split; [exact Hdu | exact El].
    - apply bind_ok in H. destruct H as [su [Hsu H]]. apply get_at_ok in Hsu.
      destruct (lt_sentinel (k + c) su) eqn:Elt.
      + apply bind_ok in H. destruct H as [sn [Hsn H]]. apply set_at_ok in Hsn.
        apply bind_ok in H. destruct H as [s1 [Hpush H]]. apply push_ok in Hpush.
        cbn [with_seen_of d_dist d_seen d_fringe] in Hpush. destruct Hpush as [Hd1 [Hs1 [it [Hf1 [Hi Hk]]]]].
        assert (E : d_dist s' = d_dist s1 /\ d_seen s' = d_seen s1 /\ d_fringe s' = d_fringe s1).
        { destruct wp; [|inversion H; auto].
          apply bind_ok in H. destruct H as [pv [_ H]]. apply bind_ok in H. destruct H as [ps [_ H]].
          inversion H; subst s'. cbn. auto. }
        destruct E as [-> [-> ->]]. rewrite Hd1, Hs1, Hf1. apply W.
        eapply T_improve; eauto.
        intros x Hx. rewrite (fin_get _ _ _ _ Hsu Hx) in Elt. cbn in Elt. apply Z.ltb_lt. exact Elt.
      + destruct su as [x|]; [|cbn in Elt; discriminate]. cbn in Elt. apply Z.ltb_ge in Elt.
        destruct (negb fo && eq_sentinel (k + c) (Some x)) eqn:Eeq.
        * apply andb_true_iff in Eeq. destruct Eeq as [_ Eeq]. cbn in Eeq. apply Z.eqb_eq in Eeq. subst x.
          apply bind_ok in H. destruct H as [s1 [Hpush H]]. apply push_ok in Hpush.
          destruct Hpush as [Hd1 [Hs1 [it [Hf1 [Hi Hk]]]]].
          assert (E : d_dist s' = d_dist s1 /\ d_seen s' = d_seen s1 /\ d_fringe s' = d_fringe s1).
          { destruct wp; [|inversion H; auto].
            apply bind_ok in H. destruct H as [pv [_ H]]. apply bind_ok in H. destruct H as [pu [_ H]].
            apply bind_ok in H. destruct H as [ps [_ H]]. inversion H; subst s'. cbn. auto. }
          destruct E as [-> [-> ->]]. rewrite Hd1, Hs1, Hf1. apply W. eapply T_tie; eauto.
        * inversion H; subst s'. apply W. apply T_none; [exact M|]. right. left. split; [exact Hdu|].
          exists x. split; [exact Hsu | exact Elt].
  Qed.

  (* dijkstra.rs:510-523 *)
  Lemma relax_basic_step : forall P k v s a s' row,
    cutoff = None ->
    nth_error sv v = Some row -> In a row ->
    mid P k v (d_dist s) (d_seen s) (d_fringe s) ->
    relax_basic weighted k s a = Ok s' ->
    mid (fun v' u' c' => P v' u' c' \/ rowedge v a v' u' c') k v (d_dist s') (d_seen s') (d_fringe s').
  Proof.
    intros P k v s [u wt] s' row Hcn Hrow Hin M H. unfold relax_basic in H.
    assert (Hcut : forall x, cutoff_exceeded cutoff x = false) by (intros; rewrite Hcn; reflexivity).
    destruct (cost_of weighted wt) as [c|] eqn:Ec.
    2:{ inversion H; subst. eapply mid_weaken; [|exact M].
        intros v' u' c' [Hp | [_ [_ Hc]]]; [exact Hp|]. cbn in Hc. congruence. }
    assert (He : wedge wg v u c) by (apply wedge_wg; eauto).
    assert (Hc0 : 0 <= c) by (eapply Hnn; eauto).
    assert (W : forall D' S' F', mid (fun v' u' c' => P v' u' c' \/ newedge v u c v' u' c') k v D' S' F' ->
                 mid (fun v' u' c' => P v' u' c' \/ rowedge v (u, wt) v' u' c') k v D' S' F').
    { intros D' S' F'. apply mid_weaken. intros v' u' c' [Hp | [-> [Hu Hc]]]; [left; exact Hp|].
      right. cbn in Hu, Hc. subst. split; [reflexivity|]. split; [reflexivity|]. congruence. }
    apply bind_ok in H. destruct H as [su [Hsu H]]. apply get_at_ok in Hsu.
    destruct M as [C [Fe [Mx Fv]]].
    (* D[u] is defined *)
    assert (HD : (exists du, fin (d_dist s) u du) \/ unfin (d_dist s) u).
    { assert (Hlt : (u < length (d_seen s))%nat) by (apply nth_error_Some; rewrite Hsu; discriminate).
      rewrite (c_len_s _ _ _ C) in Hlt. rewrite <- (c_len_d _ _ _ C) in Hlt.
      apply nth_error_Some in Hlt. unfold fin, unfin.
      destruct (nth_error (d_dist s) u) as [[du|]|]; [left; eauto | right; reflexivity | congruence]. }
    assert (M : mid P k v (d_dist s) (d_seen s) (d_fringe s)) by (split; [exact C | split; [exact Fe | split; assumption]]).
    destruct (lt_sentinel (k + c) su) eqn:Elt.
    - assert (Hun : unfin (d_dist s) u).
      { destruct HD as [[du Hdu] | Hun]; [|exact Hun]. exfalso.
        destruct (c_d_sn _ _ _ C _ _ Hdu) as [y [Hy Hle]]. rewrite (fin_get _ _ _ _ Hsu Hy) in Elt.
        cbn in Elt. apply Z.ltb_lt in Elt. specialize (Mx _ _ Hdu). lia. }
      apply bind_ok in H. destruct H as [sn [Hsn H]]. apply set_at_ok in Hsn.
      apply push_ok in H. cbn [with_seen_of d_dist d_seen d_fringe] in H.
      destruct H as [-> [-> [it [-> [Hi Hk]]]]]. apply W. eapply T_improve; eauto.
      intros x Hx. rewrite (fin_get _ _ _ _ Hsu Hx) in Elt. cbn in Elt. apply Z.ltb_lt. exact Elt.
    - destruct su as [x|]; [|cbn in Elt; discriminate]. cbn in Elt. apply Z.ltb_ge in Elt.
      destruct (eq_sentinel (k + c) (Some x)) eqn:Eeq.
      + cbn in Eeq. apply Z.eqb_eq in Eeq. subst x. apply push_ok in H.
        destruct H as [-> [-> [it [-> [Hi Hk]]]]]. apply W. eapply T_tie; eauto.
      + inversion H; subst s'. apply W. apply T_none; [exact M|].
        destruct HD as [[du Hdu] | Hun].
        * left. exists du. split; [exact Hdu|]. specialize (Mx _ _ Hdu). lia.
        * right. left. split; [exact Hun|]. exists x. split; [exact Hsu | exact Elt].
  Qed.

  Notation dd3 P k v s := (mid P k v (d_dist s) (d_seen s) (d_fringe s)).

  Lemma fold_relax : forall (step : dstate -> adj -> outcome dstate) v k fullrow,
    (forall P s a s', In a fullrow -> dd3 P k v s -> step s a = Ok s' ->
                      dd3 (fun v' u' c' => P v' u' c' \/ rowedge v a v' u' c') k v s') ->
    forall row P s s', incl row fullrow -> dd3 P k v s -> ofold step row s = Ok s' ->
      dd3 (fun v' u' c' => P v' u' c' \/ exists a, In a row /\ rowedge v a v' u' c') k v s'.
  Proof.
    intros step v k fullrow Hstep. induction row as [|a t IH]; intros P s s' Hincl M H; cbn [ofold] in H.
    - inversion H; subst. eapply mid_weaken; [|exact M]. intros v' u c [Hp | [a [[] _]]]. exact Hp.
    - apply bind_ok in H. destruct H as [s1 [H1 H]].
      assert (M1 := Hstep P s a s1 (Hincl a (or_introl eq_refl)) M H1).
      assert (M2 := IH _ _ _ (fun x Hx => Hincl x (or_intror Hx)) M1 H).
      eapply mid_weaken; [|exact M2]. intros v' u c [Hp | [a' [[<- | Hin] Hr]]].
      + left. left. exact Hp.
      + left. right. exact Hr.
      + right. exists a'. auto.
  Qed.

  Definition inv (s : dstate) : Prop :=
    core (d_dist s) (d_seen s) (d_fringe s) /\ feas (wedge wg) (d_dist s) (d_seen s).

  Lemma pop_skip : forall s item rest x paths cnt,
    inv s -> heap_pop (d_fringe s) = Some (item, rest) -> fin (d_dist s) (fr_index item) x ->
    inv (mkd (d_dist s) (d_seen s) paths rest cnt).
  Proof.
    intros s item rest x paths cnt [C Fe] Hpop Hfin. destruct (heap_pop_spec _ _ _ Hpop) as [Hin _].
    split; [|exact Fe]. cbn. destruct C. split; try assumption.
    - intros it Hi. apply c_fr_sn0. apply Hin. right. exact Hi.
    - intros u y Hu Hun. destruct (c_sn_fr0 _ _ Hu Hun) as [it [Hi [Hidx Hk]]].
      apply Hin in Hi. destruct Hi as [E | Hi]; [|exists it; auto].
      exfalso. subst it. rewrite Hidx in Hfin. exact (fin_unfin _ _ _ Hfin Hun).
    - intros v y it Hv Hi. eapply c_mono0; eauto. apply Hin. right. exact Hi.
  Qed.

  Lemma pop_finalise : forall s item rest D',
    inv s -> heap_pop (d_fringe s) = Some (item, rest) -> unfin (d_dist s) (fr_index item) ->
    set_nth (fr_index item) (Some (key item)) (d_dist s) = Some D' ->
    mid (fun v' u c => wedge wg v' u c /\ v' <> fr_index item) (key item) (fr_index item) D' (d_seen s) rest.
  Proof.
    intros s item rest D' [C Fe] Hpop Hun Hset. destruct (heap_pop_spec _ _ _ Hpop) as [Hin Hmax].
    set (v := fr_index item) in *. set (k := key item) in *.
    assert (Hitem : In item (d_fringe s)) by (apply Hin; left; reflexivity).
    assert (HDv : fin D' v k) by (eapply set_nth_eq; eauto).
    assert (HDo : forall j, j <> v -> nth_error D' j = nth_error (d_dist s) j) by (intros; eapply set_nth_neq; eauto).
    (* the popped key is the tentative value of v *)
    assert (Hsk : fin (d_seen s) v k).
    { destruct (c_fr_sn _ _ _ C _ Hitem) as [x [Hx Hle]]. fold v in Hx. fold k in Hle.
      destruct (c_sn_fr _ _ _ C _ _ Hx Hun) as [it' [Hi' [Hidx Hk']]].
      specialize (Hmax _ Hi'). assert (E : x = k) by (unfold k, key in *; lia).
      rewrite <- E. exact Hx. }
    assert (Hold : forall v' x, fin D' v' x -> v' <> v -> fin (d_dist s) v' x).
    { intros v' x H Hne. unfold fin in *. rewrite <- HDo; assumption. }
    assert (Hmx : forall v' x, fin D' v' x -> x <= k).
    { intros v' x H. destruct (Nat.eq_dec v' v) as [->|Hne]; [rewrite (fin_fun _ _ _ _ H HDv); lia|].
      apply (c_mono _ _ _ C v' x item (Hold _ _ H Hne) Hitem). }
    split; [|split; [|split; assumption]].
    - destruct C. split; try assumption.
      + rewrite (set_nth_length _ _ _ _ _ Hset). assumption.
      + intros v' x H. destruct (Nat.eq_dec v' v) as [->|Hne]; [|apply c_ach_d0; apply Hold; assumption].
        rewrite (fin_fun _ _ _ _ H HDv). apply c_ach_s0. exact Hsk.
      + intros it Hi. apply c_fr_sn0. apply Hin. right. exact Hi.
      + intros u x Hu Hun'. assert (u <> v) by (intros ->; exact (fin_unfin _ _ _ HDv Hun')).
        assert (Hun0 : unfin (d_dist s) u) by (unfold unfin in *; rewrite <- HDo; assumption).
        destruct (c_sn_fr0 _ _ Hu Hun0) as [it [Hi [Hidx Hk']]].
        apply Hin in Hi. destruct Hi as [E | Hi]; [|exists it; auto]. exfalso. subst it. apply H. symmetry. exact Hidx.
      + intros v' x it H Hi. assert (Hi0 : In it (d_fringe s)) by (apply Hin; right; exact Hi).
        destruct (Nat.eq_dec v' v) as [->|Hne]; [|eapply c_mono0; eauto].
        rewrite (fin_fun _ _ _ _ H HDv). specialize (Hmax _ Hi0). unfold k, key. lia.
      + intros v' x H. destruct (Nat.eq_dec v' v) as [->|Hne]; [|apply c_d_sn0; apply Hold; assumption].
        rewrite (fin_fun _ _ _ _ H HDv). exists k. split; [exact Hsk | lia].
      + destruct c_src0 as [H0 | [H0 H1]].
        * left. destruct (Nat.eq_dec src v) as [E|Hne]; [rewrite E in H0; exfalso; exact (fin_unfin _ _ _ H0 Hun)|].
          unfold fin in *. rewrite HDo; assumption.
        * destruct (Nat.eq_dec src v) as [E|Hne].
          -- left. rewrite E in *. rewrite (fin_fun _ _ _ _ H1 Hsk). exact HDv.
          -- right. split; [|exact H1]. unfold unfin in *. rewrite HDo; assumption.
      + intros v' x H. destruct (Nat.eq_dec v' v) as [->|Hne]; [|apply (c_cut_d0 v'); apply Hold; assumption].
        rewrite (fin_fun _ _ _ _ H HDv). apply (c_cut_s0 v). exact Hsk.
    - intros v' dv u c H [He Hne]. destruct (Fe _ _ _ _ (Hold _ _ H Hne) He) as [[du [Hdu Hle]] | [[Hun' [su [Hsu Hle]]] | Hskp]];
        [| |right; right; exact Hskp].
      + left. exists du. split; [|exact Hle]. assert (u <> v) by (intros ->; exact (fin_unfin _ _ _ Hdu Hun)).
        unfold fin in *. rewrite HDo; assumption.
      + destruct (Nat.eq_dec u v) as [->|Hne'].
        * left. exists k. split; [exact HDv|]. rewrite (fin_fun _ _ _ _ Hsk Hsu). exact Hle.
        * right. left. split; [unfold unfin in *; rewrite HDo; assumption|]. eauto.
  Qed.

  Lemma after_row : forall v k row s,
    nth_error sv v = Some row ->
    dd3 (fun v' u' c' => (wedge wg v' u' c' /\ v' <> v) \/ exists a, In a row /\ rowedge v a v' u' c') k v s ->
    inv s.
  Proof.
    intros v k row s Hrow [C [Fe _]]. split; [exact C|]. eapply feas_weaken; [|exact Fe].
    intros v' u c He. destruct (Nat.eq_dec v' v) as [->|Hne]; [|left; auto].
    right. apply wedge_wg in He. destruct He as [row' [wt [Hr [Hin Hc]]]].
    rewrite Hrow in Hr. inversion Hr; subst row'. exists (u, wt). split; [exact Hin|].
    split; [reflexivity|]. split; [reflexivity | exact Hc].
  Qed.

  Lemma heap_pop_none : forall h, heap_pop h = None -> h = [].
  Proof.
    intros [|x t] H; [reflexivity|]. cbn in H. destruct (heap_pop t) as [[m r]|]; [destruct (fr_cmp x m)|]; discriminate.
  Qed.

  Lemma basic_loop_inv : forall fuel s s',
    cutoff = None ->
    inv s -> basic_loop fuel g weighted s = Ok s' -> inv s' /\ d_fringe s' = [].
  Proof.
    intros fuel s s' Hcn. revert s s'.
    induction fuel as [|f IH]; intros s s' I H; cbn [basic_loop] in H; [discriminate|].
    destruct (heap_pop (d_fringe s)) as [[item rest]|] eqn:Hpop.
    2:{ inversion H; subst. split; [exact I | apply heap_pop_none; exact Hpop]. }
    apply bind_ok in H. destruct H as [dv [Hdv H]]. apply get_at_ok in Hdv. cbn [d_dist] in Hdv.
    destruct dv as [x|].
    - eapply IH; [|exact H]. eapply pop_skip; eauto.
    - apply bind_ok in H. destruct H as [D' [HD' H]]. apply set_at_ok in HD'. cbn [d_dist] in HD'.
      apply bind_ok in H. destruct H as [row [Hrow H]]. apply get_at_ok in Hrow.
      apply bind_ok in H. destruct H as [s3 [Hfold H]].
      eapply IH; [|exact H].
      assert (M := pop_finalise _ _ _ _ I Hpop Hdv HD').
      eapply after_row; [exact Hrow|].
      eapply (fold_relax (relax_basic weighted (- fr_distance item)) (fr_index item) (key item) row);
        [| apply incl_refl | | exact Hfold].
      + intros P s0 a s0' Hin M0 Hs. eapply relax_basic_step; eauto.
      + cbn. exact M.
  Qed.

  (* the state in which the loop stops at the target t, just finalised with value k, its row not relaxed *)
  Definition broke (target : option nat) (s : dstate) : Prop :=
    exists t k, target = Some t /\
      mid (fun v' u c => wedge wg v' u c /\ v' <> t) k t (d_dist s) (d_seen s) (d_fringe s).

  Lemma dijkstra_loop_inv : forall target fo wp fuel s s',
    inv s -> dijkstra_loop fuel g weighted target cutoff fo wp s = Ok s' ->
    (inv s' /\ d_fringe s' = []) \/ broke target s'.
  Proof.
    intros target fo wp. induction fuel as [|f IH]; intros s s' I H; cbn [dijkstra_loop] in H; [discriminate|].
    destruct (heap_pop (d_fringe s)) as [[item rest]|] eqn:Hpop.
    2:{ inversion H; subst. left. split; [exact I | apply heap_pop_none; exact Hpop]. }
    apply bind_ok in H. destruct H as [dv [Hdv H]]. apply get_at_ok in Hdv. cbn [d_dist] in Hdv.
    destruct dv as [x|].
    - eapply IH; [|exact H]. eapply pop_skip; eauto.
    - apply bind_ok in H. destruct H as [D' [HD' H]]. apply set_at_ok in HD'. cbn [d_dist] in HD'.
      assert (M := pop_finalise _ _ _ _ I Hpop Hdv HD').
      destruct (match target with Some t => Nat.eqb t (fr_index item) | None => false end) eqn:Et.
      + inversion H; subst s'. right. destruct target as [t|]; [|discriminate]. apply Nat.eqb_eq in Et. subst t.
        exists (fr_index item), (key item). split; [reflexivity|]. cbn. exact M.
      + apply bind_ok in H. destruct H as [row [Hrow H]]. apply get_at_ok in Hrow.
        apply bind_ok in H. destruct H as [s3 [Hfold H]].
        eapply IH; [|exact H].
        eapply after_row; [exact Hrow|].
        eapply (fold_relax (relax weighted fo wp cutoff (fr_index item) (- fr_distance item)) (fr_index item) (key item) row);
          [| apply incl_refl | | exact Hfold].
        * intros P s0 a s0' Hin M0 Hs. eapply relax_step; eauto.
        * cbn. exact M.
  Qed.
End Loop.

(* ------------------------------------------------------------ initial state, result *)
Lemma nth_error_repeat_inv : forall X (a b : X) k i, nth_error (repeat a k) i = Some b -> b = a /\ (i < k)%nat.
Proof.
  intros X a b. induction k as [|k IH]; intros [|i] H; cbn in H; try discriminate.
  - inversion H. split; [reflexivity | lia].
  - destruct (IH _ H). split; [assumption | lia].
Qed.

Lemma nth_error_repeat : forall X (a : X) k i, (i < k)%nat -> nth_error (repeat a k) i = Some a.
Proof.
  intros X a. induction k as [|k IH]; intros [|i] H; cbn; try lia; [reflexivity|]. apply IH. lia.
Qed.

Lemma set_nth_lt : forall X i (x : X) l l', set_nth i x l = Some l' -> (i < length l)%nat.
Proof.
  intros X i x l. revert i. induction l as [|h t IH]; intros [|i] l' H; cbn in H; try discriminate; cbn; [lia|].
  destruct (set_nth i x t) eqn:E; [|discriminate]. specialize (IH _ _ E). lia.
Qed.

(* feasible potentials: a lower bound for every walk *)
Definition pot_feasible (g : wgraph) (pi : nat -> option Z) : Prop :=
  forall u v w a, wedge g u v w -> pi u = Some a -> exists b, pi v = Some b /\ b <= a + w.

Lemma pot_lower : forall g s pi, pot_feasible g pi -> pi s = Some 0 ->
  forall t p x, walk g s t p x -> exists b, pi t = Some b /\ b <= x.
Proof.
  intros g s pi Hf H0 t p x H. induction H as [Hs | u v w p x Hw [a [Ha Hle]] He].
  - exists 0. split; [exact H0 | lia].
  - destruct (Hf _ _ _ _ He Ha) as [b [Hb Hb2]]. exists b. split; [exact Hb | lia].
Qed.

Lemma pot_is_dist : forall g s pi, pot_feasible g pi -> pi s = Some 0 ->
  forall t p b, pi t = Some b -> walk g s t p b -> is_dist g s t b.
Proof.
  intros g s pi Hf H0 t p b Hb Hw. split; [exists p; exact Hw|].
  intros p' d' Hw'. destruct (pot_lower _ _ _ Hf H0 _ _ _ Hw') as [b' [Hb' Hle]]. congruence.
Qed.

(* the smallest integer beyond the cutoff *)
Definition cplus (cutoff : option Q) : option Z :=
  match cutoff with None => None | Some c => Some (Qfloor c + 1) end.

Lemma cplus_exceeded : forall cutoff x, cutoff_exceeded cutoff x = true ->
  exists cp, cplus cutoff = Some cp /\ cp <= x.
Proof.
  intros [c|] x H; cbn in H; [|discriminate]. exists (Qfloor c + 1). split; [reflexivity|].
  apply negb_true_iff in H. assert (Hn : ~ (inject_Z x <= c)%Q).
  { intros Hle. apply Qle_bool_iff in Hle. congruence. }
  apply Qnot_le_lt in Hn. assert (H1 := Qfloor_le c).
  assert (H2 : (inject_Z (Qfloor c) < inject_Z x)%Q) by (eapply Qle_lt_trans; eauto).
  rewrite <- Zlt_Qlt in H2. lia.
Qed.

Lemma cplus_within : forall cutoff x cp, cutoff_exceeded cutoff x = false -> cplus cutoff = Some cp -> x < cp.
Proof.
  intros [c|] x cp H Hc; cbn in H, Hc; [|discriminate]. inversion Hc; subst cp.
  apply negb_false_iff in H. apply Qle_bool_iff in H. assert (H1 := Qlt_floor c).
  assert (H2 : (inject_Z x < inject_Z (Qfloor c + 1))%Q) by (eapply Qle_lt_trans; eauto).
  rewrite <- Zlt_Qlt in H2. exact H2.
Qed.

Lemma exceeded_within : forall cutoff x, cutoff_exceeded cutoff x = false <-> within cutoff x.
Proof.
  intros [c|] x; cbn; [|split; auto]. rewrite negb_false_iff. apply Qle_bool_iff.
Qed.

Section Final.
  Context {T A : Type}.
  Variable g : gstate T A.
  Variable weighted : bool.
  Variable src : nat.
  Variable cutoff : option Q.
  Let wg := wgraph_of weighted (successors_vec g).
  Hypothesis Hnn : nonneg wg.
  Hypothesis Hlen : length (successors_vec g) = number_of_nodes g.
  Hypothesis Hc0 : cutoff_exceeded cutoff 0 = false.

  Lemma init_inv : forall wp s0, dijkstra_init g src wp = Ok s0 -> inv g weighted src cutoff s0.
  Proof.
    intros wp s0 H. unfold dijkstra_init in H. apply bind_ok in H. destruct H as [paths [_ H]].
    apply bind_ok in H. destruct H as [seen [Hseen H]]. apply set_at_ok in Hseen. inversion H; subst s0. clear H.
    set (n := number_of_nodes g) in *.
    assert (Hs : (src < n)%nat) by (apply set_nth_lt in Hseen; rewrite repeat_length in Hseen; exact Hseen).
    assert (HS0 : nth_error seen src = Some (Some 0)) by (eapply set_nth_eq; eauto).
    assert (HSo : forall j, j <> src -> nth_error seen j = nth_error (repeat None n) j) by (intros; eapply set_nth_neq; eauto).
    assert (HD : forall v x, ~ fin (repeat None n) v x).
    { intros v x H. unfold fin in H. apply nth_error_repeat_inv in H. destruct H; discriminate. }
    assert (HSs : forall u x, fin seen u x -> u = src /\ x = 0).
    { intros u x H. unfold fin in H. destruct (Nat.eq_dec u src) as [->|Hne].
      - rewrite HS0 in H. inversion H. auto.
      - rewrite HSo in H by assumption. apply nth_error_repeat_inv in H. destruct H; discriminate. }
    split; cbn [d_dist d_seen d_fringe].
    - split.
      + apply repeat_length.
      + rewrite (set_nth_length _ _ _ _ _ Hseen). apply repeat_length.
      + intros v x H. exfalso. eapply HD; eauto.
      + intros u x H. destruct (HSs _ _ H) as [-> ->]. exists [src]. constructor.
        unfold wg, wgraph_of. rewrite map_length. rewrite <- Hlen in Hs. exact Hs.
      + intros it [<- | []]. cbn. exists 0. split; [exact HS0 | unfold key; cbn; lia].
      + intros u x H _. destruct (HSs _ _ H) as [-> ->]. eexists. split; [left; reflexivity|]. cbn. auto.
      + intros v x it H. exfalso. eapply HD; eauto.
      + intros v x H. exfalso. eapply HD; eauto.
      + right. split; [|exact HS0]. unfold unfin. apply nth_error_repeat. exact Hs.
      + intros v x H. exfalso. eapply HD; eauto.
      + intros u x H. destruct (HSs _ _ H) as [-> ->]. exact Hc0.
    - intros v dv u c H. exfalso. eapply HD; eauto.
  Qed.

  (* the potential read off a final state: the finalised value, else [fill] *)
  Definition pot (D : vec) (fill : option Z) (u : nat) : option Z :=
    match nth_error D u with Some (Some x) => Some x | _ => fill end.

  Lemma pot_fin : forall D fill u x, fin D u x -> pot D fill u = Some x.
  Proof. intros D fill u x H. unfold pot. unfold fin in H. rewrite H. reflexivity. Qed.

  Lemma pot_cases : forall D fill u, (exists x, fin D u x /\ pot D fill u = Some x) \/
                                     ((forall x, ~ fin D u x) /\ pot D fill u = fill).
  Proof.
    intros D fill u. unfold pot, fin. destruct (nth_error D u) as [[x|]|].
    - left. eauto.
    - right. split; [intros x H; discriminate | reflexivity].
    - right. split; [intros x H; discriminate | reflexivity].
  Qed.

  (* final state reached with an empty fringe: unfinalised nodes are beyond the cutoff (or unreachable) *)
  Lemma empty_feasible : forall s, inv g weighted src cutoff s -> d_fringe s = [] ->
    pot_feasible wg (pot (d_dist s) (cplus cutoff)) /\ pot (d_dist s) (cplus cutoff) src = Some 0.
  Proof.
    intros s [C Fe] Hf. rewrite Hf in C. split.
    - intros v u c a He Hv. assert (Hc : 0 <= c) by (eapply Hnn; eauto).
      destruct (pot_cases (d_dist s) (cplus cutoff) v) as [[dv [Hdv Hpv]] | [Hnv Hpv]]; rewrite Hpv in Hv.
      + inversion Hv; subst a. destruct (Fe _ _ _ _ Hdv He) as [[du [Hdu Hle]] | [[Hun [su [Hsu _]]] | Hsk]].
        * exists du. split; [apply pot_fin; exact Hdu | exact Hle].
        * destruct (c_sn_fr _ _ _ _ _ _ _ C _ _ Hsu Hun) as [it [[] _]].
        * destruct (cplus_exceeded _ _ Hsk) as [cp [Hcp Hle]].
          destruct (pot_cases (d_dist s) (cplus cutoff) u) as [[du [Hdu Hpu]] | [_ Hpu]]; rewrite Hpu.
          -- exists du. split; [reflexivity|]. assert (H := cplus_within _ _ _ (c_cut_d _ _ _ _ _ _ _ C _ _ Hdu) Hcp). lia.
          -- exists cp. split; [exact Hcp | exact Hle].
      + destruct (pot_cases (d_dist s) (cplus cutoff) u) as [[du [Hdu Hpu]] | [_ Hpu]]; rewrite Hpu.
        * exists du. split; [reflexivity|]. assert (H := cplus_within _ _ _ (c_cut_d _ _ _ _ _ _ _ C _ _ Hdu) Hv). lia.
        * exists a. split; [exact Hv | lia].
    - destruct (c_src _ _ _ _ _ _ _ C) as [H | [Hun Hs]]; [apply pot_fin; exact H|].
      destruct (c_sn_fr _ _ _ _ _ _ _ C _ _ Hs Hun) as [it [[] _]].
  Qed.

  Lemma empty_fill_bound : forall s, inv g weighted src cutoff s ->
    forall u du f, fin (d_dist s) u du -> cplus cutoff = Some f -> du <= f.
  Proof.
    intros s [C _] u du f Hdu Hf. assert (H := cplus_within _ _ _ (c_cut_d _ _ _ _ _ _ _ C _ _ Hdu) Hf). lia.
  Qed.

  Definition fill_broke (k : Z) : option Z :=
    Some (match cplus cutoff with None => k | Some cp => Z.min k cp end).

  (* final state reached at the target *)
  Lemma broke_feasible : forall target s, broke g weighted src cutoff target s ->
    exists t k, target = Some t /\ fin (d_dist s) t k /\
      pot_feasible wg (pot (d_dist s) (fill_broke k)) /\ pot (d_dist s) (fill_broke k) src = Some 0.
  Proof.
    intros target s [t [k [Ht [C [Fe [Mx Ft]]]]]]. exists t, k. split; [exact Ht|]. split; [exact Ft|].
    set (f := match cplus cutoff with None => k | Some cp => Z.min k cp end).
    assert (Hfk : f <= k) by (unfold f; destruct (cplus cutoff); lia).
    assert (Hfc : forall cp, cplus cutoff = Some cp -> f <= cp) by (intros cp E; unfold f; rewrite E; lia).
    assert (Hfd : forall u du, fin (d_dist s) u du -> du <= f).
    { intros u du Hdu. assert (H1 := Mx _ _ Hdu). unfold f. destruct (cplus cutoff) as [cp|] eqn:E; [|exact H1].
      assert (H2 := cplus_within _ _ _ (c_cut_d _ _ _ _ _ _ _ C _ _ Hdu) E). lia. }
    assert (Hk0 : 0 <= k).
    { destruct (c_ach_d _ _ _ _ _ _ _ C _ _ Ft) as [p Hp]. eapply walk_nonneg; eauto. }
    split.
    - intros v u c a He Hv. assert (Hc : 0 <= c) by (eapply Hnn; eauto).
      unfold fill_broke in *. fold f in Hv |- *.
      destruct (pot_cases (d_dist s) (Some f) v) as [[dv [Hdv Hpv]] | [Hnv Hpv]]; rewrite Hpv in Hv; inversion Hv; subst a.
      + destruct (pot_cases (d_dist s) (Some f) u) as [[du [Hdu Hpu]] | [Hnu Hpu]]; rewrite Hpu.
        * exists du. split; [reflexivity|]. destruct (Nat.eq_dec v t) as [->|Hne].
          -- rewrite (fin_fun _ _ _ _ Hdv Ft). specialize (Mx _ _ Hdu). lia.
          -- destruct (Fe _ _ _ _ Hdv (conj He Hne)) as [[du' [Hdu' Hle]] | [[Hun _] | Hsk]].
             ++ rewrite (fin_fun _ _ _ _ Hdu Hdu'). exact Hle.
             ++ exfalso. exact (fin_unfin _ _ _ Hdu Hun).
             ++ destruct (cplus_exceeded _ _ Hsk) as [cp [Hcp Hle]].
                assert (H := cplus_within _ _ _ (c_cut_d _ _ _ _ _ _ _ C _ _ Hdu) Hcp). lia.
        * exists f. split; [reflexivity|]. destruct (Nat.eq_dec v t) as [->|Hne].
          -- rewrite (fin_fun _ _ _ _ Hdv Ft). lia.
          -- destruct (Fe _ _ _ _ Hdv (conj He Hne)) as [[du' [Hdu' _]] | [[Hun [su [Hsu Hle]]] | Hsk]].
             ++ exfalso. eapply Hnu; eauto.
             ++ destruct (c_sn_fr _ _ _ _ _ _ _ C _ _ Hsu Hun) as [it [Hit [_ Hkey]]].
                assert (H := c_mono _ _ _ _ _ _ _ C _ _ _ Ft Hit). lia.
             ++ destruct (cplus_exceeded _ _ Hsk) as [cp [Hcp Hle]]. specialize (Hfc _ Hcp). lia.
      + destruct (pot_cases (d_dist s) (Some f) u) as [[du [Hdu Hpu]] | [Hnu Hpu]]; rewrite Hpu.
        * exists du. split; [reflexivity|]. specialize (Hfd _ _ Hdu). lia.
        * exists f. split; [reflexivity | lia].
    - unfold fill_broke. fold f. destruct (c_src _ _ _ _ _ _ _ C) as [H | [Hun Hs]]; [apply pot_fin; exact H|].
      destruct (c_sn_fr _ _ _ _ _ _ _ C _ _ Hs Hun) as [it [Hit [_ Hkey]]].
      assert (H := c_mono _ _ _ _ _ _ _ C _ _ _ Ft Hit). assert (k = 0) by lia. subst k.
      assert (f = 0).
      { unfold f. destruct (cplus cutoff) as [cp|] eqn:E; [|reflexivity].
        assert (H2 := cplus_within _ _ _ Hc0 E). lia. }
      destruct (pot_cases (d_dist s) (Some f) src) as [[x [Hx _]] | [_ Hp]].
      * exfalso. exact (fin_unfin _ _ _ Hx Hun).
      * rewrite Hp. congruence.
  Qed.

  Lemma infos_from_spec : forall D k paths wp r, infos_from k D paths wp = Ok r ->
    (forall t i, In (t, i) r -> (k <= t)%nat /\ nth_error D (t - k) = Some (Some (sp_distance i))) /\
    (forall j x, nth_error D j = Some (Some x) -> exists i, In ((k + j)%nat, i) r /\ sp_distance i = x) /\
    NoDup (map fst r) /\ (forall t, In t (map fst r) -> (k <= t)%nat).
  Proof.
    induction D as [|[v|] D IH]; intros k paths wp r H; cbn [infos_from] in H.
    - inversion H; subst. split; [intros t i []|]. split; [intros [|j] x Hj; discriminate|].
      split; [constructor | intros t []].
    - apply bind_ok in H. destruct H as [ps [_ H]]. apply bind_ok in H. destruct H as [r' [Hr' H]].
      inversion H; subst r. destruct (IH _ _ _ _ Hr') as [H1 [H2 [H3 H4]]]. split; [|split; [|split]].
      + intros t i [E | Hin].
        * inversion E; subst. split; [lia|]. rewrite Nat.sub_diag. reflexivity.
        * destruct (H1 _ _ Hin) as [Hle Hn]. split; [lia|]. replace (t - k)%nat with (S (t - S k)) by lia. exact Hn.
      + intros [|j] x Hj; cbn in Hj.
        * inversion Hj; subst. eexists. split; [left; rewrite Nat.add_0_r; reflexivity | reflexivity].
        * destruct (H2 _ _ Hj) as [i [Hin Hx]]. exists i. split; [|exact Hx]. right.
          replace (k + S j)%nat with (S k + j)%nat by lia. exact Hin.
      + cbn. constructor; [|exact H3]. intros Hin. specialize (H4 _ Hin). lia.
      + intros t [E | Hin]; [cbn in E; lia|]. specialize (H4 _ Hin). lia.
    - destruct (IH _ _ _ _ H) as [H1 [H2 [H3 H4]]]. split; [|split; [|split]].
      + intros t i Hin. destruct (H1 _ _ Hin) as [Hle Hn]. split; [lia|].
        replace (t - k)%nat with (S (t - S k)) by lia. exact Hn.
      + intros [|j] x Hj; cbn in Hj; [discriminate|]. destruct (H2 _ _ Hj) as [i [Hin Hx]]. exists i.
        split; [|exact Hx]. replace (k + S j)%nat with (S k + j)%nat by lia. exact Hin.
      + exact H3.
      + intros t Hin. specialize (H4 _ Hin). lia.
  Qed.

  Lemma broke_fill_bound : forall t k s,
    mid g weighted src cutoff (fun v' u c => wedge wg v' u c /\ v' <> t) k t (d_dist s) (d_seen s) (d_fringe s) ->
    forall u du f, fin (d_dist s) u du -> fill_broke k = Some f -> du <= f.
  Proof.
    intros t k s [C [_ [Mx _]]] u du f Hdu Hf. unfold fill_broke in Hf. inversion Hf; subst f. clear Hf.
    assert (H1 := Mx _ _ Hdu). destruct (cplus cutoff) as [cp|] eqn:E; [|exact H1].
    assert (H2 := cplus_within _ _ _ (c_cut_d _ _ _ _ _ _ _ C _ _ Hdu) E). lia.
  Qed.

  (* the distance half of the per-call statement [result_ok] *)
  Definition distances_ok (target : option nat) (r : list (nat * spinfo nat)) : Prop :=
    NoDup (map fst r) /\
    (forall t i, In (t, i) r -> is_dist wg src t (sp_distance i) /\ within cutoff (sp_distance i)) /\
    match target with
    | None => forall t x, is_dist wg src t x -> within cutoff x -> exists i, In (t, i) r
    | Some tg => forall x, is_dist wg src tg x -> within cutoff x -> exists i, In (tg, i) r
    end.

  Lemma final_distances : forall target s paths wp r,
    (inv g weighted src cutoff s /\ d_fringe s = []) \/ broke g weighted src cutoff target s ->
    get_shortest_path_infos (d_dist s) paths wp = Ok r -> distances_ok target r.
  Proof.
    intros target s paths wp r Hfin H. unfold get_shortest_path_infos in H.
    destruct (infos_from_spec _ _ _ _ _ H) as [H1 [H2 [H3 _]]].
    assert (Hrep : forall t x, fin (d_dist s) t x -> exists i, In (t, i) r).
    { intros t x Ht. destruct (H2 _ _ Ht) as [i [Hin _]]. exists i. exact Hin. }
    assert (Core : exists fill,
               core g weighted src cutoff (d_dist s) (d_seen s) (d_fringe s) /\
               pot_feasible wg (pot (d_dist s) fill) /\ pot (d_dist s) fill src = Some 0 /\
               ((fill = cplus cutoff) \/ (exists t k, target = Some t /\ fin (d_dist s) t k))).
    { destruct Hfin as [[I Hf] | B].
      - destruct (empty_feasible _ I Hf) as [Hp H0]. exists (cplus cutoff). destruct I as [C _]. auto.
      - destruct (broke_feasible _ _ B) as [t [k [Ht [Ft [Hp H0]]]]]. exists (fill_broke k).
        destruct B as [t' [k' [_ [C _]]]]. split; [exact C|]. split; [exact Hp|]. split; [exact H0|].
        right. exists t, k. auto. }
    destruct Core as [fill [C [Hp [H0 Hfill]]]].
    split; [exact H3|]. split.
    - intros t i Hin. destruct (H1 _ _ Hin) as [_ Hn]. rewrite Nat.sub_0_r in Hn.
      destruct (c_ach_d _ _ _ _ _ _ _ C _ _ Hn) as [p Hw]. split.
      + eapply pot_is_dist; eauto. apply pot_fin. exact Hn.
      + apply exceeded_within. apply (c_cut_d _ _ _ _ _ _ _ C _ _ Hn).
    - assert (Hcomp : fill = cplus cutoff -> forall t x, is_dist wg src t x -> within cutoff x -> exists i, In (t, i) r).
      { intros -> t x [[p Hw] _] Hwi. destruct (pot_lower _ _ _ Hp H0 _ _ _ Hw) as [b [Hb Hle]].
        destruct (pot_cases (d_dist s) (cplus cutoff) t) as [[y [Hy _]] | [_ Hpt]]; [eapply Hrep; eauto|].
        rewrite Hpt in Hb. apply exceeded_within in Hwi. assert (Hlt := cplus_within _ _ _ Hwi Hb). lia. }
      destruct target as [tg|].
      + intros x Hx Hwi. destruct Hfill as [E | [t [k [Ht Ft]]]]; [eapply Hcomp; eauto|].
        inversion Ht; subst tg. eapply Hrep; eauto.
      + intros t x Hx Hwi. destruct Hfill as [E | [t' [k [Ht _]]]]; [eapply Hcomp; eauto | discriminate].
  Qed.

  Theorem dijkstra_distances : forall target fo wp r,
    dijkstra g weighted src target cutoff fo wp = Ok r -> distances_ok target r.
  Proof.
    intros target fo wp r H. unfold dijkstra in H. apply bind_ok in H. destruct H as [s0 [H0 H]].
    apply bind_ok in H. destruct H as [s [Hl H]].
    eapply final_distances; [|exact H].
    eapply dijkstra_loop_inv; [exact Hnn | exact Hlen | eapply init_inv; exact H0 | exact Hl].
  Qed.

  Theorem dijkstra_basic_distances : forall r,
    cutoff = None -> dijkstra_basic g weighted src = Ok r -> distances_ok None r.
  Proof.
    intros r Hcn H. unfold dijkstra_basic in H. apply bind_ok in H. destruct H as [s0 [H0 H]].
    apply bind_ok in H. destruct H as [s [Hl H]].
    eapply final_distances; [|exact H]. left.
    eapply basic_loop_inv; [exact Hnn | exact Hlen | exact Hcn | eapply init_inv; exact H0 | exact Hl].
  Qed.
End Final.
