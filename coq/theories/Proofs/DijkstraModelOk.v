(* What is proved about the transcribed algorithm itself (Model/Dijkstra.v),
   assembled from DijkstraLoopOk.v (distances, by loop invariant + feasible
   potentials) and DijkstraPathsOk.v (paths, by loop invariant):

   for every graph state, every source index, every combination of options,
   non-negative traversal costs and a non-negative cutoff, an [Ok] answer of
   [dijkstra] satisfies [result_sound] — the whole per-call statement of
   C04/C08 except "the path list enumerates ALL shortest paths, each once",
   which is checked per generated case by the verified [check_result].
   Corollaries: the option laws of C08 between two runs of the model. *)
From Coq Require Import String List Bool ZArith QArith Arith Lia.
From GV Require Import Base.Outcome Base.AMap Model.GState Model.Creation Model.Query Model.Dijkstra.
From GV Require Import Spec.ShortestPathDef Spec.ShortestPathCheck Spec.DijkstraWF Proofs.ShortestPathOk.
From GV Require Import Proofs.DijkstraLoopOk Proofs.DijkstraPathsOk Proofs.DijkstraCompleteOk.
From GV Require Import Proofs.DijkstraNoErrOk Proofs.DijkstraTotalOk.
Import ListNotations.
Open Scope Z_scope.

Definition answer_of (r : list (nat * spinfo nat)) : answer :=
  map (fun ki => (fst ki, (sp_distance (snd ki), sp_paths (snd ki)))) r.

Lemma answer_of_keys : forall r, map fst (answer_of r) = map fst r.
Proof. intros r. unfold answer_of. rewrite map_map. reflexivity. Qed.

Lemma in_answer_of : forall r v x ps, In (v, (x, ps)) (answer_of r) ->
  exists i, In (v, i) r /\ sp_distance i = x /\ sp_paths i = ps.
Proof.
  intros r v x ps H. unfold answer_of in H. apply in_map_iff in H. destruct H as [[v' i] [E Hin]].
  cbn in E. inversion E; subst. exists i. auto.
Qed.

Section Model.
  Context {T A : Type}.
  Variable g : gstate T A.
  Variable weighted : bool.
  Variable src : nat.
  Let wg := wgraph_of weighted (successors_vec g).
  Hypothesis Hnn : nonneg wg.
  Hypothesis Hlen : length (successors_vec g) = number_of_nodes g.

  Lemma distances_ok_reported : forall cutoff target r,
    distances_ok g weighted src cutoff target r ->
    match target with
    | None => forall v x, is_dist wg src v x -> within cutoff x -> In v (map fst r)
    | Some t => forall x, is_dist wg src t x -> within cutoff x -> In t (map fst r)
    end.
  Proof.
    intros cutoff target r [_ [_ H]]. destruct target as [t|].
    - intros x Hx Hw. destruct (H _ Hx Hw) as [i Hi]. apply in_map_iff. exists (t, i). auto.
    - intros v x Hx Hw. destruct (H _ _ Hx Hw) as [i Hi]. apply in_map_iff. exists (v, i). auto.
  Qed.

  Theorem model_dijkstra_sound : forall target cutoff fo wp r,
    cutoff_exceeded cutoff 0 = false ->
    dijkstra g weighted src target cutoff fo wp = Ok r ->
    result_sound wg src target cutoff fo wp (answer_of r).
  Proof.
    intros target cutoff fo wp r Hc0 H.
    assert (D := dijkstra_distances g weighted src cutoff Hnn Hlen Hc0 _ _ _ _ H).
    assert (P := dijkstra_paths_sound g weighted src Hlen _ _ _ _ _ H).
    split; [rewrite answer_of_keys; destruct D as [H1 _]; exact H1|]. split.
    - intros [v [x ps]] Hin. apply in_answer_of in Hin. destruct Hin as [i [Hin [<- <-]]].
      destruct D as [_ [D2 _]]. destruct (D2 _ _ Hin) as [Hd Hw]. destruct (P _ _ Hin) as [_ [Pw [Pn Po]]].
      cbn. split; [exact Hd|]. split; [exact Hw|]. split; [exact Pn|]. intros Hwp. split.
      + intros p Hp. exists (sp_distance i). split; [exact Hd | apply Pw; exact Hp].
      + intros Hfo. apply Po; assumption.
    - rewrite answer_of_keys. apply distances_ok_reported. exact D.
  Qed.

  (* the complete per-call statement, given one adjacency entry per neighbour *)
  Theorem model_dijkstra_ok : forall target cutoff fo wp r,
    (forall v row, nth_error (successors_vec g) v = Some row -> NoDup (map fst row)) ->
    cutoff_exceeded cutoff 0 = false ->
    dijkstra g weighted src target cutoff fo wp = Ok r ->
    result_ok wg src target cutoff fo wp (answer_of r).
  Proof.
    intros target cutoff fo wp r Hrows Hc0 H.
    destruct (model_dijkstra_sound _ _ _ _ _ Hc0 H) as [S1 [S2 S3]].
    split; [exact S1|]. split; [|exact S3].
    intros [v [x ps]] Hin. specialize (S2 _ Hin). cbn in S2 |- *.
    destruct S2 as [Hd [Hw [Hn Hp]]]. split; [exact Hd|]. split; [exact Hw|]. split; [exact Hn|].
    intros Hwp. destruct (Hp Hwp) as [Hs Ho]. split; [exact Hs|]. split; [exact Ho|].
    intros Hfo Hpos. subst fo wp. apply in_answer_of in Hin. destruct Hin as [i [Hin [_ <-]]].
    eapply (dijkstra_paths_complete g weighted src cutoff Hpos Hlen Hrows Hc0); eauto.
  Qed.

  Theorem model_dijkstra_basic_sound : forall r,
    dijkstra_basic g weighted src = Ok r ->
    distances_ok g weighted src None None r /\ forall t i, In (t, i) r -> sp_paths i = [].
  Proof.
    intros r H. split.
    - eapply dijkstra_basic_distances; eauto.
    - intros t i Hin. unfold dijkstra_basic in H. apply bind_ok in H. destruct H as [s0 [_ H]].
      apply bind_ok in H. destruct H as [s [_ H]]. unfold get_shortest_path_infos in H.
      destruct (infos_from_paths g Hlen _ _ _ _ _ H _ _ Hin) as [_ [_ Hp]]. exact Hp.
  Qed.

  (* ---- C08 between two answers of the model ---- *)
  Lemma restricted_vs_unrestricted : forall cutoff target r r0,
    distances_ok g weighted src cutoff target r ->
    distances_ok g weighted src None None r0 ->
    (forall t i, In (t, i) r ->
       exists i0, In (t, i0) r0 /\ sp_distance i0 = sp_distance i /\ within cutoff (sp_distance i)) /\
    (forall t i0, In (t, i0) r0 -> within cutoff (sp_distance i0) ->
       (target = None \/ target = Some t) ->
       exists i, In (t, i) r /\ sp_distance i = sp_distance i0).
  Proof.
    intros cutoff target r r0 [_ [D2 D3]] [_ [E2 E3]]. split.
    - intros t i Hin. destruct (D2 _ _ Hin) as [Hd Hw]. destruct (E3 _ _ Hd I) as [i0 Hi0].
      exists i0. split; [exact Hi0|]. split; [|exact Hw].
      destruct (E2 _ _ Hi0) as [Hd0 _]. eapply is_dist_unique; eauto.
    - intros t i0 Hin0 Hw Ht. destruct (E2 _ _ Hin0) as [Hd0 _].
      assert (Hex : exists i, In (t, i) r).
      { destruct Ht as [-> | ->]; eapply D3; eauto. }
      destruct Hex as [i Hi]. exists i. split; [exact Hi|]. destruct (D2 _ _ Hi) as [Hd _].
      eapply is_dist_unique; eauto.
  Qed.

  (* the distance-only fast path and the full algorithm report the same nodes and distances *)
  Theorem model_fast_path_agrees : forall fo wp rb r,
    dijkstra_basic g weighted src = Ok rb ->
    dijkstra g weighted src None None fo wp = Ok r ->
    forall t x, (exists i, In (t, i) rb /\ sp_distance i = x) <-> (exists i, In (t, i) r /\ sp_distance i = x).
  Proof.
    intros fo wp rb r Hb H t x.
    assert (Db : distances_ok g weighted src None None rb) by (eapply dijkstra_basic_distances; eauto).
    assert (D : distances_ok g weighted src None None r) by (eapply dijkstra_distances; eauto).
    destruct (restricted_vs_unrestricted _ _ _ _ Db D) as [A1 _].
    destruct (restricted_vs_unrestricted _ _ _ _ D Db) as [B1 _].
    split; intros [i [Hin Hx]].
    - destruct (A1 _ _ Hin) as [i0 [Hi0 [He _]]]. exists i0. split; [exact Hi0 | congruence].
    - destruct (B1 _ _ Hin) as [i0 [Hi0 [He _]]]. exists i0. split; [exact Hi0 | congruence].
  Qed.

  (* a cutoff (no target) keeps exactly the entries with distance <= cutoff, unchanged;
     with a target the target's entry is kept (when within the cutoff) and every
     reported entry is an entry of the unrestricted answer *)
  Theorem model_options_restrict : forall target cutoff fo wp fo0 wp0 r r0,
    cutoff_exceeded cutoff 0 = false ->
    dijkstra g weighted src target cutoff fo wp = Ok r ->
    dijkstra g weighted src None None fo0 wp0 = Ok r0 ->
    (forall t i, In (t, i) r ->
       exists i0, In (t, i0) r0 /\ sp_distance i0 = sp_distance i /\ within cutoff (sp_distance i)) /\
    (forall t i0, In (t, i0) r0 -> within cutoff (sp_distance i0) ->
       (target = None \/ target = Some t) ->
       exists i, In (t, i) r /\ sp_distance i = sp_distance i0).
  Proof.
    intros target cutoff fo wp fo0 wp0 r r0 Hc0 H H0.
    eapply restricted_vs_unrestricted.
    - eapply dijkstra_distances; eauto.
    - eapply dijkstra_distances; eauto.
  Qed.
End Model.

(* ---- total correctness on a well-formed adjacency ---- *)
Record wf_adj {T A : Type} (g : gstate T A) : Prop := {
  wf_len : length (successors_vec g) = number_of_nodes g;
  wf_range : forall v row u wt, nth_error (successors_vec g) v = Some row -> In (u, wt) row ->
                                (u < number_of_nodes g)%nat;
  wf_rows : forall v row, nth_error (successors_vec g) v = Some row -> NoDup (map fst row);
  wf_small : Z.of_nat (number_of_entries g) < I32_MAX
}.

Theorem model_dijkstra_total : forall (T A : Type) (g : gstate T A) weighted src target cutoff fo wp,
  wf_adj g -> nonneg (wgraph_of weighted (successors_vec g)) ->
  cutoff_exceeded cutoff 0 = false -> (src < number_of_nodes g)%nat ->
  exists r, dijkstra g weighted src target cutoff fo wp = Ok r /\
            result_ok (wgraph_of weighted (successors_vec g)) src target cutoff fo wp (answer_of r).
Proof.
  intros T A g weighted src target cutoff fo wp [Hlen Hrange Hrows Hsmall] Hnn Hc0 Hs.
  assert (F := dijkstra_fine g weighted Hlen Hrange Hsmall wp src target cutoff fo Hs).
  destruct (dijkstra g weighted src target cutoff fo wp) as [r|e| |] eqn:E; cbn in F; try contradiction.
  - exists r. split; [reflexivity|]. eapply model_dijkstra_ok; eauto.
  - exfalso. eapply (dijkstra_no_err g weighted src cutoff Hnn Hlen Hc0); eauto.
Qed.

Theorem model_dijkstra_basic_total : forall (T A : Type) (g : gstate T A) weighted src,
  wf_adj g -> nonneg (wgraph_of weighted (successors_vec g)) -> (src < number_of_nodes g)%nat ->
  exists r, dijkstra_basic g weighted src = Ok r /\
            distances_ok g weighted src None None r /\ forall t i, In (t, i) r -> sp_paths i = [].
Proof.
  intros T A g weighted src [Hlen Hrange Hrows Hsmall] Hnn Hs.
  assert (F := dijkstra_basic_fine g weighted Hlen Hrange Hsmall src Hs).
  destruct (dijkstra_basic g weighted src) as [r|e| |] eqn:E; cbn in F; try contradiction.
  - exists r. split; [reflexivity|]. eapply model_dijkstra_basic_sound; eauto.
  - exfalso. eapply (dijkstra_basic_no_err g weighted src); eauto.
Qed.

Lemma wf_adj_b_sound : forall (T A : Type) (g : gstate T A), wf_adj_b g = true -> wf_adj g.
Proof.
  intros T A g H. unfold wf_adj_b in H. apply andb_true_iff in H. destruct H as [H Hs].
  apply andb_true_iff in H. destruct H as [Hl Hr]. apply Nat.eqb_eq in Hl. apply Z.ltb_lt in Hs.
  rewrite forallb_forall in Hr. split; [exact Hl | | | exact Hs].
  - intros v row u wt Hn Hin. apply nth_error_In in Hn. specialize (Hr _ Hn).
    apply andb_true_iff in Hr. destruct Hr as [Hr _]. rewrite forallb_forall in Hr.
    specialize (Hr _ Hin). cbn in Hr. apply Nat.ltb_lt. exact Hr.
  - intros v row Hn. apply nth_error_In in Hn. specialize (Hr _ Hn).
    apply andb_true_iff in Hr. destruct Hr as [_ Hr]. apply nodup_nb_NoDup. exact Hr.
Qed.

(* ---- the hypotheses are satisfiable: a concrete graph built by the transcribed constructor ---- *)
Definition ex_specs : specs := mkspecs false DKeepLast MCreate false true SDrop.
Definition ex_state : outcome (gstate Z Z) :=
  new_from_nodes_and_edges Z.eqb Z.ltb [mknode 5 None; mknode 3 None]
    [mkedge 5 3 (Some 1) None; mkedge 3 7 (Some 2) None; mkedge 5 7 (Some 3) None;
     mkedge 7 1 (Some 1) None; mkedge 7 7 (Some 0) None] ex_specs.

Example model_hypotheses_nonvacuous :
  match ex_state with
  | Ok g =>
    nonneg_b (wgraph_of true (successors_vec g)) = true /\
    wf_adj_b g = true /\
    (exists r, dijkstra g true 0 (Some 3%nat) (Some (5 # 2)%Q) false true = Ok r /\ length r = 2%nat) /\
    (exists r, dijkstra_basic g true 0 = Ok r /\ length r = 4%nat)
  | _ => False
  end.
Proof.
  vm_compute. split; [reflexivity|]. split; [reflexivity|]. split; eexists; split; reflexivity.
Qed.

(* the hypothesis "non-negative costs" is needed: with a negative cost the model
   does return ContradictoryPaths *)
Definition ex_neg : outcome (gstate Z Z) :=
  new_from_nodes_and_edges Z.eqb Z.ltb []
    [mkedge 1 2 (Some 1) None; mkedge 1 3 (Some 2) None; mkedge 3 2 (Some (-5)) None]
    (mkspecs true DKeepLast MCreate false true SDrop).
Example contradictory_paths_reachable :
  match ex_neg with
  | Ok g => dijkstra g true 0 None None false true = Err ContradictoryPaths
  | _ => False
  end.
Proof. vm_compute. reflexivity. Qed.

(* the per-graph flag of the Run module implies the hypotheses of the theorems *)
Lemma search_hypotheses_sound : forall (T A : Type) (g : gstate T A) weighted,
  search_hypotheses_b g weighted = true ->
  wf_adj g /\ nonneg (wgraph_of weighted (successors_vec g)).
Proof.
  intros T A g weighted H. unfold search_hypotheses_b in H. apply andb_true_iff in H. destruct H as [H1 H2].
  split; [apply wf_adj_b_sound; exact H1 | apply nonneg_b_nonneg; exact H2].
Qed.
