(* single_source at the level of node names: on a well-formed graph state the
   call returns Ok and its map is the name-translation of an index-level answer
   that satisfies the per-call statement [result_ok]. *)
From Coq Require Import String List Bool ZArith QArith Arith Lia.
From GV Require Import Base.Outcome Base.AMap Model.GState Model.Creation Model.Query Model.Dijkstra.
From GV Require Import Spec.ShortestPathDef Spec.ShortestPathCheck Spec.DijkstraWF Proofs.ShortestPathOk.
From GV Require Import Proofs.DijkstraLoopOk Proofs.DijkstraModelOk.
Import ListNotations.
Open Scope Z_scope.

Section AList.
  Context {K V : Type}.
  Variable keqb : K -> K -> bool.
  Hypothesis keqb_spec : forall a b, keqb a b = true <-> a = b.

  Lemma keqb_refl : forall a, keqb a a = true.
  Proof. intros a. apply keqb_spec. reflexivity. Qed.

  Lemma alookup_insert_same : forall k (v : V) m, lookup keqb k (insert keqb k v m) = Some v.
  Proof.
    intros k v. induction m as [|[k' v'] m IH]; cbn.
    - rewrite keqb_refl. reflexivity.
    - destruct (keqb k k') eqn:E; cbn; rewrite E; [reflexivity | exact IH].
  Qed.

  Lemma alookup_insert_other : forall k k' (v : V) m, k' <> k ->
    lookup keqb k' (insert keqb k v m) = lookup keqb k' m.
  Proof.
    intros k k' v. induction m as [|[k0 v0] m IH]; intros Hne; cbn.
    - destruct (keqb k' k) eqn:E; [apply keqb_spec in E; contradiction | reflexivity].
    - destruct (keqb k k0) eqn:E; cbn.
      + apply keqb_spec in E. subst k0. destruct (keqb k' k) eqn:E'; [apply keqb_spec in E'; contradiction | reflexivity].
      + destruct (keqb k' k0); [reflexivity | apply IH; exact Hne].
  Qed.
End AList.

Section Names.
  Context {T A : Type}.
  Variable teqb : T -> T -> bool.
  Hypothesis teqb_spec : forall a b, teqb a b = true <-> a = b.
  Variable g : gstate T A.
  Variable weighted : bool.
  Let wg := wgraph_of weighted (successors_vec g).
  Let n := number_of_nodes g.

  Definition name (i : nat) : option T :=
    match get_node_by_index g i with Some nd => Some (nname nd) | None => None end.

  Lemma name_of_index_name : forall site i x, name_of_index site g i = Ok x <-> name i = Some x.
  Proof.
    intros site i x. unfold name_of_index, name, unwrap_at. destruct (get_node_by_index g i); cbn; split; intros H;
      inversion H; reflexivity.
  Qed.

  (* the name indexes are coherent: nodes_map and nodes_map_rev are inverse on 0..n-1 *)
  Record names_wf : Prop := {
    nw_map : forall x i, lookup teqb x (nodes_map g) = Some i -> (i < n)%nat /\ name i = Some x;
    nw_rev : forall i, (i < n)%nat -> exists x, name i = Some x /\ lookup teqb x (nodes_map g) = Some i
  }.

  Lemma name_inj : names_wf -> forall i j x, (i < n)%nat -> (j < n)%nat -> name i = Some x -> name j = Some x -> i = j.
  Proof.
    intros W i j x Hi Hj Ni Nj. destruct (nw_rev W _ Hi) as [xi [Nxi Li]]. destruct (nw_rev W _ Hj) as [xj [Nxj Lj]].
    assert (xi = x) by congruence. assert (xj = x) by congruence. subst. congruence.
  Qed.

  Definition tr_info (i : spinfo nat) (i' : spinfo T) : Prop :=
    sp_distance i' = sp_distance i /\
    Forall2 (fun p p' => Forall2 (fun k x => name k = Some x) p p') (sp_paths i) (sp_paths i').

  Lemma omapM_names : forall site p p', omapM (name_of_index site g) p = Ok p' ->
    Forall2 (fun k x => name k = Some x) p p'.
  Proof.
    intros site. induction p as [|k p IH]; intros p' H; cbn [omapM] in H.
    - inversion H. constructor.
    - apply bind_ok in H. destruct H as [x [Hx H]]. apply bind_ok in H. destruct H as [xs [Hxs H]].
      inversion H; subst. constructor; [apply (name_of_index_name site); exact Hx | apply IH; exact Hxs].
  Qed.

  Lemma convert_info_tr : forall i i', convert_shortest_path_info_index_to_t g i = Ok i' -> tr_info i i'.
  Proof.
    intros i i' H. unfold convert_shortest_path_info_index_to_t in H. apply bind_ok in H.
    destruct H as [ps [Hps H]]. inversion H; subst i'. clear H. split; [reflexivity|]. cbn.
    revert ps Hps. generalize (sp_paths i). induction l as [|p l IH]; intros ps Hps; cbn [omapM] in Hps.
    - inversion Hps. constructor.
    - apply bind_ok in Hps. destruct Hps as [p' [Hp' Hps]]. apply bind_ok in Hps. destruct Hps as [ps' [Hps' Hps]].
      inversion Hps; subst. constructor; [eapply omapM_names; eauto | apply IH; exact Hps'].
  Qed.

  Notation conv_step := (fun m kv =>
             do k <- name_of_index "dijkstra.rs:694" g (fst kv);
             do v <- convert_shortest_path_info_index_to_t g (snd kv);
             Ok (insert teqb k v m)).

  Lemma conv_fold : forall l acc m,
    NoDup (map fst l) ->
    (forall k k' x, In k (map fst l) -> In k' (map fst l) -> name k = Some x -> name k' = Some x -> k = k') ->
    ofold conv_step l acc = Ok m ->
    (forall k i, In (k, i) l -> exists x i', name k = Some x /\ tr_info i i' /\ lookup teqb x m = Some i') /\
    (forall x, (forall k, In k (map fst l) -> name k <> Some x) -> lookup teqb x m = lookup teqb x acc) /\
    (forall x i', lookup teqb x m = Some i' ->
       lookup teqb x acc = Some i' \/ exists k i, In (k, i) l /\ name k = Some x /\ tr_info i i').
  Proof.
    induction l as [|[k i] l IH]; intros acc m Hnd Hinj H; cbn [ofold] in H.
    - inversion H; subst. split; [intros k i []|]. split; [reflexivity | auto].
    - apply bind_ok in H. destruct H as [acc1 [H1 H]]. cbn [fst snd] in H1.
      apply bind_ok in H1. destruct H1 as [x [Hx H1]]. apply bind_ok in H1. destruct H1 as [i' [Hi' H1]].
      inversion H1; subst acc1. apply (name_of_index_name "dijkstra.rs:694") in Hx. apply convert_info_tr in Hi'.
      cbn [map fst] in Hnd. inversion Hnd as [|? ? Hnk Hnd']; subst.
      assert (Hinj' : forall k1 k2 y, In k1 (map fst l) -> In k2 (map fst l) -> name k1 = Some y -> name k2 = Some y -> k1 = k2).
      { intros k1 k2 y H1' H2'. apply Hinj; right; assumption. }
      destruct (IH _ _ Hnd' Hinj' H) as [A1 [A2 A3]].
      assert (Hfresh : forall k', In k' (map fst l) -> name k' <> Some x).
      { intros k' Hk' Hn. assert (k' = k) by (eapply Hinj; [right; exact Hk' | left; reflexivity | exact Hn | exact Hx]).
        subst k'. contradiction. }
      split; [|split].
      + intros k0 i0 [E | Hin].
        * inversion E; subst k0 i0. exists x, i'. split; [exact Hx|]. split; [exact Hi'|].
          rewrite (A2 x Hfresh). apply alookup_insert_same. exact teqb_spec.
        * apply A1. exact Hin.
      + intros y Hy. rewrite (A2 y); [|intros k' Hk'; apply Hy; right; exact Hk'].
        apply alookup_insert_other; [exact teqb_spec|]. intros ->. apply (Hy k); [left; reflexivity | exact Hx].
      + intros y j Hl. destruct (A3 _ _ Hl) as [Hacc | [k0 [i0 [Hin R]]]].
        * destruct (teqb y x) eqn:E.
          -- apply teqb_spec in E. subst y. rewrite alookup_insert_same in Hacc by exact teqb_spec.
             inversion Hacc; subst j. right. exists k, i. split; [left; reflexivity | auto].
          -- left. rewrite alookup_insert_other in Hacc; [exact Hacc | exact teqb_spec|].
             intros ->. rewrite (proj2 (teqb_spec x x) eq_refl) in E. discriminate.
        * right. exists k0, i0. split; [right; exact Hin | exact R].
  Qed.

  Hypothesis Hwf : wf_adj g.
  Hypothesis Hnames : names_wf.
  Hypothesis Hnn : nonneg wg.

  Lemma wedge_target_lt : forall u v w, wedge wg u v w -> (v < n)%nat.
  Proof.
    intros u v w He. apply (wedge_wgraph_of weighted (successors_vec g) u v w) in He.
    destruct He as [row [wt [Hrow [Hin _]]]]. eapply (wf_range g Hwf); eauto.
  Qed.

  Lemma wg_len : length wg = n.
  Proof. unfold wg, wgraph_of. rewrite map_length. apply (wf_len g Hwf). Qed.

  Lemma walk_nodes_lt : forall s t p x, walk wg s t p x -> forall j, In j p -> (j < n)%nat.
  Proof.
    intros s t p x Hw. induction Hw as [Hs | u v w p d Hw IH He]; intros j Hj.
    - destruct Hj as [<- | []]. rewrite <- wg_len. exact Hs.
    - apply in_app_iff in Hj. destruct Hj as [Hj | [<- | []]]; [apply IH; exact Hj | eapply wedge_target_lt; eauto].
  Qed.

  Lemma walk_end_lt : forall s t p x, walk wg s t p x -> (t < n)%nat.
  Proof.
    intros s t p x Hw. inversion Hw; subst; [rewrite <- wg_len; assumption | eapply wedge_target_lt; eauto].
  Qed.

  (* the per-source function at a valid index: Ok, and the per-call statement *)
  Lemma run_from_index_ok : forall si (target : option T) ti cutoff fo wp,
    (si < n)%nat -> (target = None <-> ti = None) -> cutoff_exceeded cutoff 0 = false ->
    exists r, run_from_index g weighted si target ti cutoff fo wp = Ok r /\
              result_ok wg si ti cutoff fo wp (answer_of r) /\
              forall k i, In (k, i) r -> (k < n)%nat.
  Proof.
    intros si target ti cutoff fo wp Hsi Hti Hc0. unfold run_from_index.
    assert (Hkeys : forall (r : list (nat * spinfo nat)) tg c,
               distances_ok g weighted si c tg r -> forall k i, In (k, i) r -> (k < n)%nat).
    { intros r tg c [_ [D2 _]] k i Hin. destruct (D2 _ _ Hin) as [[[p Hw] _] _]. eapply walk_end_lt; eauto. }
    destruct (can_use_basic target cutoff fo wp) eqn:Eb.
    - unfold can_use_basic in Eb. destruct target; [discriminate|]. destruct cutoff; [discriminate|].
      apply andb_true_iff in Eb. destruct Eb as [Efo Ewp]. apply negb_true_iff in Efo. apply negb_true_iff in Ewp.
      subst fo wp. assert (ti = None) by (apply Hti; reflexivity). subst ti.
      destruct (model_dijkstra_basic_total T A g weighted si Hwf Hnn Hsi) as [r [Hr [D Hp]]].
      exists r. split; [exact Hr|]. split; [|eapply Hkeys; eauto].
      destruct D as [D1 [D2 D3]]. split; [rewrite answer_of_keys; exact D1|]. split.
      + intros [v [x ps]] Hin. apply in_answer_of in Hin. destruct Hin as [i [Hin [<- <-]]].
        destruct (D2 _ _ Hin) as [Hd Hw]. cbn. split; [exact Hd|]. split; [exact Hw|].
        split; [intros _; eapply Hp; eauto | discriminate].
      + rewrite answer_of_keys. intros v x Hx Hw. destruct (D3 _ _ Hx Hw) as [i Hi].
        apply in_map_iff. exists (v, i). auto.
    - destruct (model_dijkstra_total T A g weighted si ti cutoff fo wp Hwf Hnn Hc0 Hsi) as [r [Hr Hok]].
      exists r. split; [exact Hr|]. split; [exact Hok|].
      assert (D := dijkstra_distances g weighted si cutoff Hnn (wf_len g Hwf) Hc0 _ _ _ _ Hr).
      eapply Hkeys; eauto.
  Qed.

  (* single_source on names *)
  Theorem single_source_names_ok : forall source target cutoff fo wp si,
    lookup teqb source (nodes_map g) = Some si ->
    (forall t, target = Some t -> exists i, lookup teqb t (nodes_map g) = Some i) ->
    cutoff_exceeded cutoff 0 = false ->
    exists m ti r,
      single_source teqb g weighted source target cutoff fo wp = Ok m /\
      match target with Some t => exists i, lookup teqb t (nodes_map g) = Some i /\ ti = Some i | None => ti = None end /\
      result_ok wg si ti cutoff fo wp (answer_of r) /\
      (forall k i, In (k, i) r -> exists x i', name k = Some x /\ tr_info i i' /\ lookup teqb x m = Some i') /\
      (forall x i', lookup teqb x m = Some i' -> exists k i, In (k, i) r /\ name k = Some x /\ tr_info i i').
  Proof.
    intros source target cutoff fo wp si Hs Ht Hc0. unfold single_source, get_node_index. rewrite Hs. cbn [bind].
    destruct (nw_map Hnames _ _ Hs) as [Hsi _].
    assert (Hti : exists ti,
               (match target with
                | Some t => do i <- match lookup teqb t (nodes_map g) with Some i => Ok i | None => Err NodeNotFound end; Ok (Some i)
                | None => Ok None
                end) = Ok ti /\
               match target with Some t => exists i, lookup teqb t (nodes_map g) = Some i /\ ti = Some i | None => ti = None end).
    { destruct target as [t|]; [|eauto]. destruct (Ht t eq_refl) as [i Hi]. rewrite Hi. cbn. eauto. }
    destruct Hti as [ti [Hti1 Hti2]]. rewrite Hti1. cbn [bind].
    assert (Hnone : target = None <-> ti = None).
    { destruct target as [t|]; [destruct Hti2 as [i [_ ->]]; split; discriminate | subst ti; tauto]. }
    destruct (run_from_index_ok si target ti cutoff fo wp Hsi Hnone Hc0) as [r [Hr [Hok Hkeys]]].
    rewrite Hr. cbn [bind].
    (* the conversion succeeds: every key and every path node is a valid index *)
    assert (Hconv : exists m, convert_shortest_path_info_vec_to_t_map teqb g r = Ok m).
    { unfold convert_shortest_path_info_vec_to_t_map.
      assert (Hpaths : forall k i p j, In (k, i) r -> In p (sp_paths i) -> In j p -> (j < n)%nat).
      { intros k i p j Hin Hp Hj. destruct Hok as [_ [He _]].
        assert (Hin' : In (k, (sp_distance i, sp_paths i)) (answer_of r)).
        { unfold answer_of. apply in_map_iff. exists (k, i). auto. }
        specialize (He _ Hin'). cbn in He. destruct He as [_ [_ [Hn Hw]]].
        destruct wp; [|rewrite (Hn eq_refl) in Hp; destruct Hp].
        destruct (Hw eq_refl) as [Hsp _]. destruct (Hsp _ Hp) as [x [_ Hwalk]].
        eapply walk_nodes_lt; eauto. }
      clear Hr Hok. generalize (@nil (T * spinfo T)). induction r as [|[k i] r IH]; intros acc; cbn [ofold]; [eauto|].
      cbn [fst snd]. destruct (nw_rev Hnames k (Hkeys k i (or_introl eq_refl))) as [x [Hx _]].
      rewrite (proj2 (name_of_index_name "dijkstra.rs:694" k x) Hx). cbn [bind].
      assert (Hci : exists i', convert_shortest_path_info_index_to_t g i = Ok i').
      { unfold convert_shortest_path_info_index_to_t.
        assert (Hps : exists ps, omapM (omapM (name_of_index "dijkstra.rs:671" g)) (sp_paths i) = Ok ps).
        { assert (Hall : forall p j, In p (sp_paths i) -> In j p -> (j < n)%nat) by (intros p j; eapply Hpaths; left; reflexivity).
          revert Hall. generalize (sp_paths i). induction l as [|p l IHl]; intros Hall; cbn [omapM]; [eauto|].
          assert (Hp : exists p', omapM (name_of_index "dijkstra.rs:671" g) p = Ok p').
          { assert (Hp0 : forall j, In j p -> (j < n)%nat) by (intros j Hj; eapply Hall; [left; reflexivity | exact Hj]).
            clear - Hp0 Hnames. induction p as [|j p IHp]; cbn [omapM]; [eauto|].
            destruct (nw_rev Hnames j (Hp0 j (or_introl eq_refl))) as [y [Hy _]].
            rewrite (proj2 (name_of_index_name "dijkstra.rs:671" j y) Hy). cbn [bind].
            destruct IHp as [p' Hp']; [intros j' Hj'; apply Hp0; right; exact Hj'|]. rewrite Hp'. cbn. eauto. }
          destruct Hp as [p' Hp']. rewrite Hp'. cbn [bind].
          destruct IHl as [ps Hps]; [intros q j Hq Hj; eapply Hall; [right; exact Hq | exact Hj]|]. rewrite Hps. cbn. eauto. }
        destruct Hps as [ps ->]. cbn. eauto. }
      destruct Hci as [i' ->]. cbn [bind]. apply IH.
      - intros k0 i0 Hin. eapply Hkeys. right. exact Hin.
      - intros k0 i0 p j Hin. eapply Hpaths. right. exact Hin. }
    destruct Hconv as [m Hm]. exists m, ti, r. split; [exact Hm|]. split; [exact Hti2|]. split; [exact Hok|].
    unfold convert_shortest_path_info_vec_to_t_map in Hm.
    assert (Hnd : NoDup (map fst r)) by (destruct Hok as [H1 _]; rewrite answer_of_keys in H1; exact H1).
    assert (Hinj : forall k k' x, In k (map fst r) -> In k' (map fst r) -> name k = Some x -> name k' = Some x -> k = k').
    { intros k k' x Hk Hk' Nk Nk'. apply in_map_iff in Hk. destruct Hk as [[k0 i0] [E0 Hin0]]. cbn in E0. subst k0.
      apply in_map_iff in Hk'. destruct Hk' as [[k1 i1] [E1 Hin1]]. cbn in E1. subst k1.
      eapply (name_inj Hnames); eauto. }
    destruct (conv_fold r [] m Hnd Hinj Hm) as [A1 [_ A3]]. split; [exact A1|].
    intros x i' Hl. destruct (A3 _ _ Hl) as [Hacc | H]; [discriminate | exact H].
  Qed.
End Names.

Section NamesB.
  Context {T A : Type}.
  Variable teqb : T -> T -> bool.
  Hypothesis teqb_spec : forall a b, teqb a b = true <-> a = b.

  Lemma lookup_In : forall (x : T) (i : nat) m, lookup teqb x m = Some i -> In (x, i) m.
  Proof.
    intros x i. induction m as [|[x' i'] m IH]; cbn; intros H; [discriminate|].
    destruct (teqb x x') eqn:E.
    - apply teqb_spec in E. inversion H; subst. left. reflexivity.
    - right. apply IH. exact H.
  Qed.

  Lemma names_wf_b_sound : forall (g : gstate T A), names_wf_b teqb g = true -> names_wf teqb g.
  Proof.
    intros g H. unfold names_wf_b in H. apply andb_true_iff in H. destruct H as [H1 H2].
    rewrite forallb_forall in H1. rewrite forallb_forall in H2. split.
    - intros x i Hl. apply lookup_In in Hl. specialize (H1 _ Hl). cbn [fst snd] in H1.
      apply andb_true_iff in H1. destruct H1 as [Hlt Hn]. apply Nat.ltb_lt in Hlt. split; [exact Hlt|].
      unfold name. unfold node_name_at in Hn. destruct (get_node_by_index g i); [|discriminate].
      apply teqb_spec in Hn. congruence.
    - intros i Hi. assert (Hin : In i (seq 0 (number_of_nodes g))) by (apply in_seq; lia).
      specialize (H2 _ Hin). unfold name. unfold node_name_at in H2. destruct (get_node_by_index g i) as [nd|]; [|discriminate].
      exists (nname nd). split; [reflexivity|]. destruct (lookup teqb (nname nd) (nodes_map g)) as [j|]; [|discriminate].
      apply Nat.eqb_eq in H2. subst. reflexivity.
  Qed.
End NamesB.

(* the hypotheses are satisfiable, and the theorem is not vacuous on the example graph *)
Example names_hypotheses_nonvacuous :
  match ex_state with
  | Ok g => names_wf_b Z.eqb g = true /\ wf_adj_b g = true /\
            lookup Z.eqb 5 (nodes_map g) = Some 0%nat /\
            (exists m, single_source Z.eqb g true 5 (Some 1) (Some (9 # 2)%Q) false true = Ok m /\ length m = 4%nat)
  | _ => False
  end.
Proof. vm_compute. repeat split; try reflexivity. eexists. split; reflexivity. Qed.
