(* With non-negative traversal costs the transcribed [dijkstra] /
   [dijkstra_basic] never return an [Err] (in particular never
   ContradictoryPaths): the only [Err] of the loop is raised when a finalised
   node could be improved, which the monotone-pop invariant excludes. *)
From Coq Require Import String List Bool ZArith QArith Qround Arith Lia.
From GV Require Import Base.Outcome Base.AMap Model.GState Model.Creation Model.Query Model.Dijkstra.
From GV Require Import Spec.ShortestPathDef Spec.ShortestPathCheck Proofs.ShortestPathOk Proofs.DijkstraLoopOk.
Import ListNotations.
Open Scope Z_scope.

Lemma bind_err : forall X Y (o : outcome X) (f : X -> outcome Y) e,
  bind o f = Err e -> o = Err e \/ exists x, o = Ok x /\ f x = Err e.
Proof. intros X Y o f e H. destruct o; cbn in H; try discriminate; [right; eauto | left; congruence]. Qed.

Lemma get_at_not_err : forall X site (l : list X) i e, get_at site l i <> Err e.
Proof. intros X site l i e. unfold get_at, unwrap_at. destruct (nth_error l i); discriminate. Qed.

Lemma set_at_not_err : forall X site (l : list X) i x e, set_at site l i x <> Err e.
Proof. intros X site l i x e. unfold set_at, unwrap_at. destruct (set_nth i x l); discriminate. Qed.

Lemma push_not_err : forall s u vu e, push_fringe_node s u vu <> Err e.
Proof. intros s u vu e. unfold push_fringe_node. destruct (Z.ltb I32_MAX (d_count s + 1)); discriminate. Qed.

Ltac no_err H :=
  repeat match type of H with
  | bind (get_at _ _ _) _ = Err _ =>
      apply bind_err in H; destruct H as [H | [? [_ H]]]; [exfalso; exact (get_at_not_err _ _ _ _ _ H)|]
  | bind (set_at _ _ _ _) _ = Err _ =>
      apply bind_err in H; destruct H as [H | [? [_ H]]]; [exfalso; exact (set_at_not_err _ _ _ _ _ _ H)|]
  | bind (push_fringe_node _ _ _) _ = Err _ =>
      apply bind_err in H; destruct H as [H | [? [_ H]]]; [exfalso; exact (push_not_err _ _ _ _ H)|]
  | Ok _ = Err _ => discriminate H
  | (if ?b then _ else _) = Err _ => destruct b
  end.

Section NoErr.
  Context {T A : Type}.
  Variable g : gstate T A.
  Variable weighted : bool.
  Variable src : nat.
  Variable cutoff : option Q.
  Let sv := successors_vec g.
  Let wg := wgraph_of weighted sv.
  Hypothesis Hnn : nonneg wg.
  Hypothesis Hlen : length sv = number_of_nodes g.

  Notation mid := (mid g weighted src cutoff).

  Lemma relax_no_err : forall fo wp P k v s a row e,
    nth_error sv v = Some row -> In a row ->
    mid P k v (d_dist s) (d_seen s) (d_fringe s) ->
    relax weighted fo wp cutoff v k s a = Err e -> False.
  Proof.
    intros fo wp P k v s [u wt] row e Hrow Hin [C [Fe [Mx Fv]]] H. unfold relax in H.
    destruct (cost_of weighted wt) as [c|] eqn:Ec; [|discriminate].
    assert (He : wedge wg v u c).
    { apply (wedge_wgraph_of weighted sv v u c). exists row, wt. auto. }
    assert (Hc0 : 0 <= c) by (eapply Hnn; eauto).
    destruct (cutoff_exceeded cutoff (k + c)); [discriminate|].
    apply bind_err in H. destruct H as [H | [du [Hdu H]]]; [exact (get_at_not_err _ _ _ _ _ H)|].
    apply get_at_ok in Hdu. destruct du as [ud|].
    - destruct (Z.ltb (k + c) ud) eqn:El; [|discriminate]. apply Z.ltb_lt in El. specialize (Mx _ _ Hdu). lia.
    - apply bind_err in H. destruct H as [H | [su [_ H]]]; [exact (get_at_not_err _ _ _ _ _ H)|].
      destruct (lt_sentinel (k + c) su).
      + no_err H.
      + destruct (negb fo && eq_sentinel (k + c) su); [|discriminate]. no_err H.
  Qed.

  Lemma relax_basic_no_err : forall k s a e, relax_basic weighted k s a = Err e -> False.
  Proof.
    intros k s [u wt] e H. unfold relax_basic in H. destruct (cost_of weighted wt); [|discriminate].
    apply bind_err in H. destruct H as [H | [su [_ H]]]; [exact (get_at_not_err _ _ _ _ _ H)|].
    destruct (lt_sentinel _ su).
    - apply bind_err in H. destruct H as [H | [sn [_ H]]]; [exact (set_at_not_err _ _ _ _ _ _ H)|].
      exact (push_not_err _ _ _ _ H).
    - destruct (eq_sentinel _ su); [exact (push_not_err _ _ _ _ H) | discriminate].
  Qed.

  Lemma fold_no_err : forall fo wp v k fullrow,
    nth_error sv v = Some fullrow ->
    forall row P s e, incl row fullrow -> mid P k v (d_dist s) (d_seen s) (d_fringe s) ->
      ofold (relax weighted fo wp cutoff v k) row s = Err e -> False.
  Proof.
    intros fo wp v k fullrow Hrow. induction row as [|a t IH]; intros P s e Hincl M H; cbn [ofold] in H; [discriminate|].
    apply bind_err in H. destruct H as [H | [s1 [H1 H]]].
    - eapply relax_no_err; eauto. apply Hincl. left. reflexivity.
    - eapply IH; [| |exact H].
      + intros x Hx. apply Hincl. right. exact Hx.
      + eapply (relax_step g weighted src cutoff Hnn Hlen); eauto. apply Hincl. left. reflexivity.
  Qed.

  Lemma fold_basic_no_err : forall k row s e, ofold (relax_basic weighted k) row s = Err e -> False.
  Proof.
    intros k. induction row as [|a t IH]; intros s e H; cbn [ofold] in H; [discriminate|].
    apply bind_err in H. destruct H as [H | [s1 [_ H]]]; [eapply relax_basic_no_err; eauto | eapply IH; eauto].
  Qed.

  Lemma dijkstra_loop_no_err : forall target fo wp fuel s e,
    inv g weighted src cutoff s ->
    dijkstra_loop fuel g weighted target cutoff fo wp s = Err e -> False.
  Proof.
    intros target fo wp. induction fuel as [|f IH]; intros s e I H; cbn [dijkstra_loop] in H; [discriminate|].
    destruct (heap_pop (d_fringe s)) as [[item rest]|] eqn:Hpop; [|discriminate].
    apply bind_err in H. destruct H as [H | [dv [Hdv H]]]; [exact (get_at_not_err _ _ _ _ _ H)|].
    apply get_at_ok in Hdv. cbn [d_dist] in Hdv. destruct dv as [x|].
    - eapply IH; [|exact H]. eapply pop_skip; eauto.
    - apply bind_err in H. destruct H as [H | [D' [HD' H]]]; [exact (set_at_not_err _ _ _ _ _ _ H)|].
      apply set_at_ok in HD'. cbn [d_dist] in HD'.
      assert (M := pop_finalise g weighted src cutoff Hlen _ _ _ _ I Hpop Hdv HD').
      destruct (match target with Some t => Nat.eqb t (fr_index item) | None => false end); [discriminate|].
      apply bind_err in H. destruct H as [H | [row [Hrow H]]]; [exact (get_at_not_err _ _ _ _ _ H)|].
      apply get_at_ok in Hrow.
      apply bind_err in H. destruct H as [H | [s3 [Hfold H]]].
      + eapply (fold_no_err fo wp (fr_index item) (- fr_distance item) row Hrow row); [apply incl_refl | | exact H].
        cbn. exact M.
      + eapply IH; [|exact H]. eapply after_row; [exact Hrow|].
        eapply (fold_relax g weighted src cutoff (relax weighted fo wp cutoff (fr_index item) (- fr_distance item))
                  (fr_index item) (key item) row); [| apply incl_refl | | exact Hfold].
        * intros P s0 a s0' Hin M0 Hs. eapply (relax_step g weighted src cutoff Hnn Hlen); eauto.
        * cbn. exact M.
  Qed.

  Lemma basic_loop_no_err : forall fuel s e, basic_loop fuel g weighted s = Err e -> False.
  Proof.
    induction fuel as [|f IH]; intros s e H; cbn [basic_loop] in H; [discriminate|].
    destruct (heap_pop (d_fringe s)) as [[item rest]|]; [|discriminate].
    apply bind_err in H. destruct H as [H | [dv [_ H]]]; [exact (get_at_not_err _ _ _ _ _ H)|].
    destruct dv as [x|]; [eapply IH; eauto|].
    apply bind_err in H. destruct H as [H | [D' [_ H]]]; [exact (set_at_not_err _ _ _ _ _ _ H)|].
    apply bind_err in H. destruct H as [H | [row [_ H]]]; [exact (get_at_not_err _ _ _ _ _ H)|].
    apply bind_err in H. destruct H as [H | [s3 [_ H]]]; [eapply fold_basic_no_err; eauto | eapply IH; eauto].
  Qed.

  Lemma infos_from_no_err : forall D k paths wp e, infos_from k D paths wp <> Err e.
  Proof.
    induction D as [|[v|] D IH]; intros k paths wp e H; cbn [infos_from] in H; [discriminate| |eapply IH; eauto].
    apply bind_err in H. destruct H as [H | [ps [_ H]]].
    - destruct wp; [exact (get_at_not_err _ _ _ _ _ H) | discriminate].
    - apply bind_err in H. destruct H as [H | [r [_ H]]]; [eapply IH; eauto | discriminate].
  Qed.

  Lemma init_no_err : forall wp e, dijkstra_init g src wp <> Err e.
  Proof.
    intros wp e H. unfold dijkstra_init in H.
    apply bind_err in H. destruct H as [H | [paths [_ H]]].
    - destruct wp; [exact (set_at_not_err _ _ _ _ _ _ H) | discriminate].
    - apply bind_err in H. destruct H as [H | [seen [_ H]]]; [exact (set_at_not_err _ _ _ _ _ _ H) | discriminate].
  Qed.

  Hypothesis Hc0 : cutoff_exceeded cutoff 0 = false.

  Theorem dijkstra_no_err : forall target fo wp e,
    dijkstra g weighted src target cutoff fo wp <> Err e.
  Proof.
    intros target fo wp e H. unfold dijkstra in H.
    apply bind_err in H. destruct H as [H | [s0 [H0 H]]]; [exact (init_no_err _ _ H)|].
    apply bind_err in H. destruct H as [H | [s [_ H]]].
    - eapply dijkstra_loop_no_err; [|exact H]. eapply init_inv; eauto.
    - exact (infos_from_no_err _ _ _ _ _ H).
  Qed.

  Theorem dijkstra_basic_no_err : forall e, dijkstra_basic g weighted src <> Err e.
  Proof.
    intros e H. unfold dijkstra_basic in H.
    apply bind_err in H. destruct H as [H | [s0 [_ H]]]; [exact (init_no_err _ _ H)|].
    apply bind_err in H. destruct H as [H | [s [_ H]]]; [eapply basic_loop_no_err; eauto|].
    exact (infos_from_no_err _ _ _ _ _ H).
  Qed.
End NoErr.
