(* The weighted single-source search shared by closeness.rs:133-181 and
   betweenness.rs:138-192 (a BinaryHeap of FringeNode ordered by distance only,
   lazy deletion, `seen` / `D` vectors), by loop invariant: for every adjacency
   with positive integer costs, every source and EVERY tie choice of the heap,
   the vector D it returns holds the true shortest distances. *)
From Coq Require Import List Bool ZArith Arith QArith Lia Lqa.
From GV Require Import Base.Outcome Model.GState Model.Cent Model.Brandes Model.Closeness Spec.ClosenessDef.
From GV Require Import Proofs.CentBase Proofs.ClosenessOk Proofs.ClosenessBfsOk Proofs.BrandesBfsOk.
Import ListNotations.
Open Scope list_scope.

(* ------------------------------------------------------------------ integer-valued rationals *)
Lemma Qred_inject_add : forall a b, Qred (inject_Z a + inject_Z b) = inject_Z (a + b).
Proof.
  intros a b. rewrite <- (Qred_inject_Z (a + b)). apply Qred_complete. rewrite inject_Z_plus. reflexivity.
Qed.

Lemma qlt_inject : forall a b, qlt (inject_Z a) (inject_Z b) = Z.ltb a b.
Proof.
  intros a b. unfold qlt, Qcompare, inject_Z. cbn [Qnum Qden]. repeat rewrite Z.mul_1_r.
  unfold Z.ltb. destruct (a ?= b)%Z; reflexivity.
Qed.

Lemma qeqb_inject : forall a b, qeqb (inject_Z a) (inject_Z b) = true <-> a = b.
Proof.
  intros a b. unfold qeqb. rewrite Qeq_bool_iff. apply inject_Z_injective.
Qed.

Definition fkey (e : fitem) : Q := fst (fst e).

(* ------------------------------------------------------------------ BinaryHeap::pop as modelled *)
Lemma extract_min_spec : forall lw rest best acc b rest',
  extract_min lw best rest acc = (b, rest') ->
  (forall e, In e acc -> fkey best <= fkey e) ->
  (forall e, In e (b :: rest') <-> In e (best :: rest ++ acc)) /\
  (forall e, In e rest' -> fkey b <= fkey e) /\
  length rest' = (length rest + length acc)%nat.
Proof.
  intros lw. induction rest as [|x t IH]; intros best acc b rest' H Hacc; cbn [extract_min] in H.
  - inversion H. subst. split; [|split].
    + intros e. cbn [app In]. rewrite <- (in_rev acc e). tauto.
    + intros e He. apply in_rev in He. apply Hacc. exact He.
    + rewrite rev_length. reflexivity.
  - destruct (if lw then negb (qlt (fst (fst best)) (fst (fst x))) else qlt (fst (fst x)) (fst (fst best))) eqn:Ec.
    + assert (Hle : fkey x <= fkey best).
      { unfold fkey. destruct lw.
        - apply negb_true_iff in Ec. apply Qnot_lt_le. intro X. apply qlt_true in X. congruence.
        - apply qlt_true in Ec. apply Qlt_le_weak. exact Ec. }
      destruct (IH x (best :: acc) b rest' H) as [H1 [H2 H3]].
      { intros e [He|He]; [subst; exact Hle | apply Qle_trans with (fkey best); [exact Hle | apply Hacc; exact He]]. }
      split; [|split; [exact H2|]].
      * intros e. rewrite H1. cbn [In app]. repeat rewrite in_app_iff. cbn [In]. tauto.
      * rewrite H3. cbn [length]. lia.
    + assert (Hle : fkey best <= fkey x).
      { unfold fkey. destruct lw.
        - apply negb_false_iff in Ec. apply qlt_true in Ec. apply Qlt_le_weak. exact Ec.
        - apply Qnot_lt_le. intro X. apply qlt_true in X. congruence. }
      destruct (IH best (x :: acc) b rest' H) as [H1 [H2 H3]].
      { intros e [He|He]; [subst; exact Hle | apply Hacc; exact He]. }
      split; [|split; [exact H2|]].
      * intros e. rewrite H1. cbn [In app]. repeat rewrite in_app_iff. cbn [In]. tauto.
      * rewrite H3. cbn [length]. lia.
Qed.

Section Dijkstra.
  Variable g : qadj.
  Variable src : nat.
  Notation n := (length g).
  Hypothesis Hok : adj_ok n g = true.
  Hypothesis Hsrc : (src < n)%nat.
  (* positive integer costs *)
  Hypothesis Hcost : forall v e, In e (get [] g v) -> exists c, snd e = inject_Z c /\ (0 < c)%Z.

  Definition DD (s : bs) (w : nat) : option Q := get None (bD s) w.
  Definition SE (s : bs) (w : nat) : option Q := get None (bseen s) w.

  Record K (s : bs) (R pending : list (nat * nat * Z)) (m : Z) : Prop := mkK {
    k_len : length (bD s) = n /\ length (bseen s) = n;
    k_src : SE s src = Some 0;
    k_int : forall w q, SE s w = Some q -> exists z, q = inject_Z z /\ (0 <= z)%Z;
    k_Dseen : forall w q, DD s w = Some q -> SE s w = Some q;
    k_fr : forall d p v, In (d, p, v) (bfr s) ->
           (v < n)%nat /\ exists z z', d = inject_Z z /\ SE s v = Some (inject_Z z') /\ (z' <= z)%Z;
    k_fresh : forall v q, DD s v = None -> SE s v = Some q -> exists p, In (q, p, v) (bfr s);
    k_tight : forall w x, SE s w = Some (inject_Z x) -> w <> src ->
              exists v c dv, DD s v = Some (inject_Z dv) /\ In (w, inject_Z c) (get [] g v) /\ (dv + c = x)%Z;
    k_R : forall v w c, In (v, w, c) R ->
          exists dv x, DD s v = Some (inject_Z dv) /\ SE s w = Some (inject_Z x) /\ (x <= dv + c)%Z;
    k_cover : forall v w c, DD s v <> None -> In (w, inject_Z c) (get [] g v) ->
              In (v, w, c) R \/ In (v, w, c) pending;
    k_pend : forall v w c, In (v, w, c) pending ->
             DD s v = Some (inject_Z m) /\ In (w, inject_Z c) (get [] g v);
    k_fin_le : forall v dv, DD s v = Some (inject_Z dv) -> (dv <= m)%Z;
    k_fr_ge : forall d p v z, In (d, p, v) (bfr s) -> d = inject_Z z -> (m <= z)%Z
  }.

  Lemma get_some_range : forall (X : Type) (l : list (option X)) w q, get None l w = Some q -> (w < length l)%nat.
  Proof.
    intros X l w q H. destruct (Nat.lt_ge_cases w (length l)) as [L|G]; [exact L|].
    unfold get in H. rewrite nth_overflow in H by exact G. discriminate.
  Qed.

  (* ---------------------------------------------------------------- initial state *)
  Definition init_b : bs :=
    mkbs (repeat None n) (upd src (Some 0) (repeat None n)) (upd src 1 (repeat 0 n)) (repeat [] n) [] [(0, src, src)].

  Lemma K_init : K init_b [] [] 0.
  Proof.
    assert (HSE : forall w, SE init_b w = if Nat.eqb w src then Some 0 else None).
    { intros w. unfold SE, init_b. cbn [bseen]. destruct (Nat.eqb w src) eqn:E0.
      - apply Nat.eqb_eq in E0. subst. apply get_upd_eq. rewrite repeat_length. exact Hsrc.
      - apply Nat.eqb_neq in E0. rewrite get_upd_neq by congruence.
        destruct (get_repeat _ (@None Q) n w None) as [H|H]; exact H. }
    assert (HDD : forall w, DD init_b w = None).
    { intros w. unfold DD, init_b. cbn [bD]. destruct (get_repeat _ (@None Q) n w None) as [H|H]; exact H. }
    constructor.
    - unfold init_b. cbn [bD bseen]. rewrite upd_length. repeat rewrite repeat_length. auto.
    - rewrite HSE, Nat.eqb_refl. reflexivity.
    - intros w q H. rewrite HSE in H. destruct (Nat.eqb w src); [|discriminate]. inversion H. exists 0%Z. split; [reflexivity | lia].
    - intros w q H. rewrite HDD in H. discriminate.
    - intros d p v H. unfold init_b in H. cbn [bfr] in H. destruct H as [H|[]]. inversion H. subst.
      split; [exact Hsrc|]. exists 0%Z, 0%Z. rewrite HSE, Nat.eqb_refl. split; [reflexivity|]. split; [reflexivity | lia].
    - intros v q _ H. rewrite HSE in H. destruct (Nat.eqb v src) eqn:E0; [|discriminate]. apply Nat.eqb_eq in E0. subst.
      inversion H. subst. exists src. unfold init_b. cbn [bfr]. left. reflexivity.
    - intros w x H Hne. rewrite HSE in H. replace (Nat.eqb w src) with false in H by (symmetry; apply Nat.eqb_neq; exact Hne). discriminate.
    - intros v w c [].
    - intros v w c H. rewrite HDD in H. congruence.
    - intros v w c [].
    - intros v dv H. rewrite HDD in H. discriminate.
    - intros d p v z H Ed. unfold init_b in H. cbn [bfr] in H. destruct H as [H|[]].
      assert (Hd : d = 0) by (inversion H; reflexivity). rewrite Hd in Ed.
      change 0 with (inject_Z 0) in Ed. apply inject_Z_inj in Ed. lia.
  Qed.

  (* ---------------------------------------------------------------- one relaxed edge *)
  Lemma pend_facts : forall s R pend m v w c, K s R ((v, w, c) :: pend) m ->
    DD s v = Some (inject_Z m) /\ In (w, inject_Z c) (get [] g v) /\ (0 < c)%Z /\ (w < n)%nat /\ (0 <= m)%Z.
  Proof.
    intros s R pend m v w c HK. destruct (k_pend _ _ _ _ HK v w c (or_introl eq_refl)) as [Hv Hin].
    split; [exact Hv|]. split; [exact Hin|].
    destruct (Hcost v _ Hin) as [c' [Ec Hc]]. cbn [snd] in Ec. apply inject_Z_inj in Ec. subst c'.
    split; [exact Hc|]. split.
    - apply (E_range g Hok v w). unfold E. apply in_map_iff. exists (w, inject_Z c). auto.
    - destruct (k_int _ _ _ _ HK v _ (k_Dseen _ _ _ _ HK v _ Hv)) as [z [Ez Hz]]. apply inject_Z_inj in Ez. lia.
  Qed.

  Lemma K_unch : forall s s' R pend m v w c,
    K s R ((v, w, c) :: pend) m ->
    bD s' = bD s -> bseen s' = bseen s -> bfr s' = bfr s ->
    (exists x, SE s w = Some (inject_Z x) /\ (x <= m + c)%Z) ->
    K s' ((v, w, c) :: R) pend m.
  Proof.
    intros s s' R pend m v w c HK ED ES EF [x [Hx Hle]].
    destruct (pend_facts _ _ _ _ _ _ _ HK) as [Hv [Hin [Hc [Hwn Hm]]]].
    assert (EDD : forall u, DD s' u = DD s u) by (intro u; unfold DD; rewrite ED; reflexivity).
    assert (ESE : forall u, SE s' u = SE s u) by (intro u; unfold SE; rewrite ES; reflexivity).
    constructor; try rewrite ED; try rewrite ES; try rewrite EF.
    - exact (k_len _ _ _ _ HK).
    - rewrite ESE. exact (k_src _ _ _ _ HK).
    - intros u q. rewrite ESE. apply (k_int _ _ _ _ HK).
    - intros u q. rewrite EDD, ESE. apply (k_Dseen _ _ _ _ HK).
    - intros d p u Hu. destruct (k_fr _ _ _ _ HK d p u Hu) as [A [z [z' B]]]. split; [exact A|]. exists z, z'. rewrite ESE. exact B.
    - intros u q. rewrite EDD, ESE. apply (k_fresh _ _ _ _ HK).
    - intros u y. rewrite ESE. intros A B. destruct (k_tight _ _ _ _ HK u y A B) as [a [b [dv C]]]. exists a, b, dv. rewrite EDD. exact C.
    - intros a b e [H|H].
      + inversion H; subst a b e. exists m, x. rewrite EDD, ESE. auto.
      + destruct (k_R _ _ _ _ HK a b e H) as [dv [y C]]. exists dv, y. rewrite EDD, ESE. exact C.
    - intros a b e. rewrite EDD. intros A B. destruct (k_cover _ _ _ _ HK a b e A B) as [X|[X|X]].
      + left. right. exact X.
      + left. left. exact X.
      + right. exact X.
    - intros a b e H. rewrite EDD. apply (k_pend _ _ _ _ HK). right. exact H.
    - intros u dv. rewrite EDD. apply (k_fin_le _ _ _ _ HK).
    - exact (k_fr_ge _ _ _ _ HK).
  Qed.

  Lemma K_upd : forall s s' R pend m v w c,
    K s R ((v, w, c) :: pend) m ->
    DD s w = None ->
    (SE s w = None \/ exists xz, SE s w = Some (inject_Z xz) /\ (m + c < xz)%Z) ->
    bD s' = bD s -> bseen s' = upd w (Some (inject_Z (m + c))) (bseen s) ->
    bfr s' = bfr s ++ [(inject_Z (m + c), v, w)] ->
    K s' ((v, w, c) :: R) pend m.
  Proof.
    intros s s' R pend m v w c HK HDw Hcond ED ES EF.
    destruct (pend_facts _ _ _ _ _ _ _ HK) as [Hv [Hin [Hc [Hwn Hm]]]].
    destruct (k_len _ _ _ _ HK) as [HlD HlS].
    assert (EDD : forall u, DD s' u = DD s u) by (intro u; unfold DD; rewrite ED; reflexivity).
    assert (ESw : SE s' w = Some (inject_Z (m + c))) by (unfold SE; rewrite ES; apply get_upd_eq; lia).
    assert (ESE : forall u, u <> w -> SE s' u = SE s u) by (intros u Hu; unfold SE; rewrite ES; apply get_upd_neq; congruence).
    assert (Hwsrc : w <> src).
    { intro X. subst w. rewrite (k_src _ _ _ _ HK) in Hcond. destruct Hcond as [X|[xz [X Y]]]; [discriminate|].
      change 0 with (inject_Z 0) in X. inversion X as [E0]. lia. }
    constructor.
    - rewrite ED, ES, upd_length. auto.
    - rewrite ESE by congruence. exact (k_src _ _ _ _ HK).
    - intros u q H. destruct (Nat.eq_dec u w) as [E0|E0].
      + subst u. rewrite ESw in H. inversion H. exists (m + c)%Z. split; [reflexivity | lia].
      + rewrite ESE in H by exact E0. apply (k_int _ _ _ _ HK u q H).
    - intros u q H. rewrite EDD in H. assert (u <> w) by (intro X; subst; congruence).
      rewrite ESE by assumption. apply (k_Dseen _ _ _ _ HK u q H).
    - intros d p u Hu. rewrite EF in Hu. apply in_app_or in Hu. destruct Hu as [Hu|[Hu|[]]].
      + destruct (k_fr _ _ _ _ HK d p u Hu) as [A [z [z' [B [C E0]]]]]. split; [exact A|].
        destruct (Nat.eq_dec u w) as [E1|E1].
        * subst u. exists z, (m + c)%Z. split; [exact B|]. split; [exact ESw|].
          destruct Hcond as [X|[xz [X Y]]]; [congruence|]. rewrite X in C. inversion C as [E2]. lia.
        * exists z, z'. rewrite ESE by exact E1. auto.
      + inversion Hu. subst d p u. split; [exact Hwn|]. exists (m + c)%Z, (m + c)%Z. split; [reflexivity|]. split; [exact ESw | lia].
    - intros u q HD HS. rewrite EDD in HD. rewrite EF. destruct (Nat.eq_dec u w) as [E0|E0].
      + subst u. rewrite ESw in HS. inversion HS. exists v. apply in_or_app. right. left. reflexivity.
      + rewrite ESE in HS by exact E0. destruct (k_fresh _ _ _ _ HK u q HD HS) as [p Hp]. exists p. apply in_or_app. left. exact Hp.
    - intros u y HS Hne. destruct (Nat.eq_dec u w) as [E0|E0].
      + subst u. rewrite ESw in HS. inversion HS as [E1]. subst y.
        exists v, c, m. rewrite EDD. auto.
      + rewrite ESE in HS by exact E0. destruct (k_tight _ _ _ _ HK u y HS Hne) as [a [b [dv C]]]. exists a, b, dv. rewrite EDD. exact C.
    - intros a b e [H|H].
      + inversion H; subst a b e. exists m, (m + c)%Z. rewrite EDD. split; [exact Hv|]. split; [exact ESw | lia].
      + destruct (k_R _ _ _ _ HK a b e H) as [dv [y [A [B C]]]]. destruct (Nat.eq_dec b w) as [E0|E0].
        * subst b. exists dv, (m + c)%Z. rewrite EDD. split; [exact A|]. split; [exact ESw|].
          destruct Hcond as [X|[xz [X Y]]]; [congruence|]. rewrite X in B. inversion B as [E2]. lia.
        * exists dv, y. rewrite EDD, ESE by exact E0. auto.
    - intros a b e. rewrite EDD. intros A B. destruct (k_cover _ _ _ _ HK a b e A B) as [X|[X|X]].
      + left. right. exact X.
      + left. left. exact X.
      + right. exact X.
    - intros a b e H. rewrite EDD. apply (k_pend _ _ _ _ HK). right. exact H.
    - intros u dv. rewrite EDD. apply (k_fin_le _ _ _ _ HK).
    - intros d p u z Hu Ed. rewrite EF in Hu. apply in_app_or in Hu. destruct Hu as [Hu|[Hu|[]]].
      + apply (k_fr_ge _ _ _ _ HK d p u z Hu Ed).
      + assert (Hd : d = inject_Z (m + c)) by (inversion Hu; reflexivity). rewrite Hd in Ed. apply inject_Z_inj in Ed. lia.
  Qed.

  Lemma K_relax : forall s R pend m v w c,
    K s R ((v, w, c) :: pend) m ->
    K (brelax v (inject_Z m) s (w, inject_Z c)) ((v, w, c) :: R) pend m.
  Proof.
    intros s R pend m v w c HK.
    destruct (pend_facts _ _ _ _ _ _ _ HK) as [Hv [Hin [Hc [Hwn Hm]]]].
    unfold brelax. rewrite Qred_inject_add.
    destruct (get None (bD s) w) as [dq|] eqn:HDw.
    - (* w already finalised: nothing but sigma/P can change *)
      pose proof (k_Dseen _ _ _ _ HK w dq HDw) as HSw. unfold SE in HSw. rewrite HSw. cbn [andb].
      destruct (k_int _ _ _ _ HK w dq HSw) as [xz [Ex Hx]]. subst dq.
      assert (Hle : (xz <= m + c)%Z) by (pose proof (k_fin_le _ _ _ _ HK w xz HDw); lia).
      destruct (oqeqb (inject_Z (m + c)) (Some (inject_Z xz)));
        (eapply K_unch; [exact HK | reflexivity | reflexivity | reflexivity | exists xz; split; [exact HSw | exact Hle]]).
    - destruct (get None (bseen s) w) as [x|] eqn:HSw.
      + destruct (k_int _ _ _ _ HK w x HSw) as [xz [Ex Hx]]. subst x. cbn [andb]. rewrite qlt_inject.
        destruct (Z.ltb (m + c) xz) eqn:Elt.
        * apply Z.ltb_lt in Elt. eapply K_upd; [exact HK | exact HDw | right; exists xz; split; [exact HSw | exact Elt] | reflexivity | reflexivity | reflexivity].
        * apply Z.ltb_ge in Elt.
          destruct (oqeqb (inject_Z (m + c)) (Some (inject_Z xz)));
            (eapply K_unch; [exact HK | reflexivity | reflexivity | reflexivity | exists xz; split; [exact HSw | exact Elt]]).
      + cbn [andb]. eapply K_upd; [exact HK | exact HDw | left; exact HSw | reflexivity | reflexivity | reflexivity].
  Qed.

  (* ---------------------------------------------------------------- a whole row *)
  Definition pend_of (v : nat) (row : list (nat * Q)) : list (nat * nat * Z) :=
    map (fun e => (v, fst e, Qnum (snd e))) row.

  Lemma cost_canon : forall v e, In e (get [] g v) -> e = (fst e, inject_Z (Qnum (snd e))).
  Proof.
    intros v [w c] H. destruct (Hcost v _ H) as [z [Ez _]]. cbn [fst snd] in *. subst c. reflexivity.
  Qed.

  Lemma K_row : forall todo s R m v,
    (forall e, In e todo -> In e (get [] g v)) ->
    K s R (pend_of v todo) m ->
    exists R', K (fold_left (brelax v (inject_Z m)) todo s) R' [] m.
  Proof.
    induction todo as [|e t IH]; intros s R m v Hsub HK; cbn [fold_left pend_of map] in *.
    - exists R. exact HK.
    - destruct e as [w cost]. destruct (Hcost v _ (Hsub _ (or_introl eq_refl))) as [c [Ec _]]. cbn [snd] in Ec. subst cost.
      cbn [fst snd Qnum inject_Z] in HK.
      apply (IH _ ((v, w, c) :: R) m v).
      + intros e' He'. apply Hsub. right. exact He'.
      + apply K_relax. exact HK.
  Qed.

  (* ---------------------------------------------------------------- pop *)
  Lemma K_skip : forall s R m lw x t d pred v rest,
    K s R [] m -> bfr s = x :: t -> extract_min lw x t [] = ((d, pred, v), rest) -> DD s v <> None ->
    K (mkbs (bD s) (bseen s) (bsig s) (bP s) (bS s) rest) R [] m.
  Proof.
    intros s R m lw x t d pred v rest HK Hfr Hex Hv.
    destruct (extract_min_spec lw t x [] _ _ Hex ltac:(intros e [])) as [Hmem [_ _]].
    assert (Hsub : forall e, In e rest -> In e (bfr s)).
    { intros e He. rewrite Hfr. assert (X : In e (x :: t ++ [])) by (apply Hmem; right; exact He). rewrite app_nil_r in X. exact X. }
    constructor; cbn [bD bseen bfr]; try (unfold DD, SE; cbn [bD bseen]).
    - exact (k_len _ _ _ _ HK).
    - exact (k_src _ _ _ _ HK).
    - exact (k_int _ _ _ _ HK).
    - exact (k_Dseen _ _ _ _ HK).
    - intros d0 p0 u Hu. apply (k_fr _ _ _ _ HK d0 p0 u (Hsub _ Hu)).
    - intros u q HD HS. destruct (k_fresh _ _ _ _ HK u q HD HS) as [p Hp].
      rewrite Hfr in Hp. assert (X : In (q, p, u) ((d, pred, v) :: rest)) by (apply Hmem; rewrite app_nil_r; exact Hp).
      destruct X as [X|X]; [|exists p; exact X]. inversion X. subst. unfold DD in *. cbn [bD] in *. congruence.
    - exact (k_tight _ _ _ _ HK).
    - exact (k_R _ _ _ _ HK).
    - exact (k_cover _ _ _ _ HK).
    - intros a b e [].
    - exact (k_fin_le _ _ _ _ HK).
    - intros d0 p0 u z Hu. apply (k_fr_ge _ _ _ _ HK d0 p0 u z (Hsub _ Hu)).
  Qed.

  Lemma K_final : forall s R m lw x t d pred v rest sg' P' S',
    K s R [] m -> bfr s = x :: t -> extract_min lw x t [] = ((d, pred, v), rest) -> DD s v = None ->
    exists z, d = inject_Z z /\
      K (mkbs (upd v (Some d) (bD s)) (bseen s) sg' P' S' rest) R (pend_of v (get [] g v)) z.
  Proof.
    intros s R m lw x t d pred v rest sg' P' S' HK Hfr Hex Hv.
    destruct (extract_min_spec lw t x [] _ _ Hex ltac:(intros e [])) as [Hmem [Hmin _]].
    assert (Hb : In (d, pred, v) (bfr s)).
    { rewrite Hfr. assert (X : In (d, pred, v) (x :: t ++ [])) by (apply Hmem; left; reflexivity). rewrite app_nil_r in X. exact X. }
    assert (Hsub : forall e, In e rest -> In e (bfr s)).
    { intros e He. rewrite Hfr. assert (X : In e (x :: t ++ [])) by (apply Hmem; right; exact He). rewrite app_nil_r in X. exact X. }
    destruct (k_fr _ _ _ _ HK d pred v Hb) as [Hvn [z [z' [Ed [HSv Hle]]]]].
    destruct (k_len _ _ _ _ HK) as [HlD HlS].
    (* the popped key is the current seen value of v *)
    assert (Ezz : z' = z).
    { destruct (k_fresh _ _ _ _ HK v _ Hv HSv) as [p Hp]. rewrite Hfr in Hp.
      assert (X : In (inject_Z z', p, v) ((d, pred, v) :: rest)) by (apply Hmem; rewrite app_nil_r; exact Hp).
      destruct X as [X|X].
      - inversion X as [[E0 E1]]. rewrite Ed in E0. apply inject_Z_inj in E0. lia.
      - pose proof (Hmin _ X) as Y. unfold fkey in Y. cbn [fst] in Y. rewrite Ed in Y. rewrite <- Zle_Qle in Y. lia. }
    subst z'. exists z. split; [exact Ed|].
    assert (Hmz : (m <= z)%Z) by (apply (k_fr_ge _ _ _ _ HK d pred v z Hb Ed)).
    set (s' := mkbs (upd v (Some d) (bD s)) (bseen s) sg' P' S' rest).
    assert (EDv : DD s' v = Some d) by (unfold DD, s'; cbn [bD]; apply get_upd_eq; lia).
    assert (EDD : forall u, u <> v -> DD s' u = DD s u) by (intros u Hu; unfold DD, s'; cbn [bD]; apply get_upd_neq; congruence).
    assert (ESE : forall u, SE s' u = SE s u) by reflexivity.
    assert (Hsome : forall u q, DD s u = Some q -> u <> v) by (intros u q H X; subst; congruence).
    constructor.
    - unfold s'. cbn [bD bseen]. rewrite upd_length. auto.
    - exact (k_src _ _ _ _ HK).
    - exact (k_int _ _ _ _ HK).
    - intros u q H. rewrite ESE. destruct (Nat.eq_dec u v) as [E0|E0].
      + subst u. rewrite EDv in H. inversion H. subst q. rewrite Ed. exact HSv.
      + rewrite EDD in H by exact E0. apply (k_Dseen _ _ _ _ HK u q H).
    - intros d0 p0 u Hu. apply (k_fr _ _ _ _ HK d0 p0 u (Hsub _ Hu)).
    - intros u q HD HS. destruct (Nat.eq_dec u v) as [E0|E0]; [subst; congruence|].
      rewrite EDD in HD by exact E0. destruct (k_fresh _ _ _ _ HK u q HD HS) as [p Hp].
      rewrite Hfr in Hp. assert (X : In (q, p, u) ((d, pred, v) :: rest)) by (apply Hmem; rewrite app_nil_r; exact Hp).
      destruct X as [X|X]; [inversion X; congruence | exists p; exact X].
    - intros u y HS Hne. destruct (k_tight _ _ _ _ HK u y HS Hne) as [a [b [dv [A B]]]]. exists a, b, dv.
      rewrite EDD by (eapply Hsome; eauto). auto.
    - intros a b e H. destruct (k_R _ _ _ _ HK a b e H) as [dv [y [A B]]]. exists dv, y.
      rewrite EDD by (eapply Hsome; eauto). auto.
    - intros a b e HD Hin. destruct (Nat.eq_dec a v) as [E0|E0].
      + subst a. right. unfold pend_of. apply in_map_iff. exists (b, inject_Z e). split; [reflexivity | exact Hin].
      + rewrite EDD in HD by exact E0. destruct (k_cover _ _ _ _ HK a b e HD Hin) as [X|[]]. left. exact X.
    - intros a b e H. unfold pend_of in H. apply in_map_iff in H. destruct H as [e0 [E0 He0]]. inversion E0. subst a b e.
      split; [rewrite EDv, Ed; reflexivity|]. rewrite <- (cost_canon v e0 He0). exact He0.
    - intros u dv H. destruct (Nat.eq_dec u v) as [E0|E0].
      + subst u. rewrite EDv, Ed in H. inversion H as [E1]. lia.
      + rewrite EDD in H by exact E0. pose proof (k_fin_le _ _ _ _ HK u dv H). lia.
    - intros d0 p0 u z0 Hu Ed0. pose proof (Hmin _ Hu) as Y. unfold fkey in Y. cbn [fst] in Y.
      rewrite Ed, Ed0 in Y. rewrite <- Zle_Qle in Y. exact Y.
  Qed.

  (* ---------------------------------------------------------------- the loop *)
  Lemma K_loop : forall fuel lw s R m s',
    K s R [] m -> bloop fuel lw g s = Some s' -> exists R' m', K s' R' [] m' /\ bfr s' = [].
  Proof.
    induction fuel as [|f IH]; intros lw s R m s' HK H; cbn [bloop] in H; [discriminate|].
    destruct (bfr s) as [|x t] eqn:Hfr.
    - inversion H. subst. exists R, m. auto.
    - destruct (extract_min lw x t []) as [[[d pred] v] rest] eqn:Hex.
      cbn [bD bseen bsig bP bS bfr] in H. change (get None (bD s) v) with (DD s v) in H.
      destruct (DD s v) as [q|] eqn:Hv.
      + eapply IH; [|exact H]. eapply K_skip; eauto. congruence.
      + destruct (K_final s R m lw x t d pred v rest
                   (upd v (Qred (get 0 (bsig s) v + get 0 (bsig s) pred)) (bsig s)) (bP s) (bS s ++ [v])
                   HK Hfr Hex Hv) as [z [Ed HK1]].
        rewrite Ed in H.
        destruct (K_row (get [] g v) _ R z v ltac:(auto) HK1) as [R' HK2].
        eapply IH; [exact HK2|]. rewrite <- Ed. rewrite <- Ed in H. exact H.
  Qed.

  Theorem bdijkstra_K : forall lw s, bdijkstra lw g src = Some s -> exists R m, K s R [] m /\ bfr s = [].
  Proof. intros lw s H. unfold bdijkstra in H. eapply K_loop; [apply K_init | exact H]. Qed.

  (* ---------------------------------------------------------------- D holds the shortest distances *)
  Definition zof (a : qadj) : zadj := map (map (fun e => (fst e, Qnum (snd e)))) a.
  Definition dz (s : bs) : list (option Z) := map (option_map Qnum) (bD s).

  Lemma oget_dz : forall s w, oget (dz s) w = option_map Qnum (DD s w).
  Proof.
    intros s w. unfold oget, dz, DD, get. change (@None Z) with (option_map Qnum (@None Q)). apply map_nth.
  Qed.

  Lemma in_zrow_zof : forall v w c, In (w, c) (zrow (zof g) v) <-> In (w, inject_Z c) (get [] g v).
  Proof.
    intros v w c. unfold zrow, zof, get.
    change (@nil (nat * Z)) with (map (fun e : nat * Q => (fst e, Qnum (snd e))) []). rewrite map_nth.
    rewrite in_map_iff. split.
    - intros [e [Ee He]]. inversion Ee. subst. rewrite <- (cost_canon v e He). exact He.
    - intros H. exists (w, inject_Z c). split; [reflexivity | exact H].
  Qed.

  Theorem dijkstra_distances : forall lw s, bdijkstra lw g src = Some s ->
    (forall w, dist_spec (zof g) src w (oget (dz s) w)) /\
    oget (dz s) src = Some 0%Z /\
    (forall w x, oget (dz s) w = Some x -> w <> src -> (0 < x)%Z) /\
    (forall w q, DD s w = Some q -> q = inject_Z (Qnum q)).
  Proof.
    intros lw s H. destruct (bdijkstra_K lw s H) as [R [m [HK Hfr]]].
    assert (Hfin : forall w q, SE s w = Some q -> DD s w = Some q).
    { intros w q HS. destruct (DD s w) as [q'|] eqn:HD.
      - rewrite (k_Dseen _ _ _ _ HK w q' HD) in HS. exact HS.
      - destruct (k_fresh _ _ _ _ HK w q HD HS) as [p Hp]. rewrite Hfr in Hp. destruct Hp. }
    assert (Hcanon : forall w q, DD s w = Some q -> exists z, q = inject_Z z /\ (0 <= z)%Z).
    { intros w q HD. apply (k_int _ _ _ _ HK w q). apply (k_Dseen _ _ _ _ HK). exact HD. }
    assert (Fsrc : oget (dz s) src = Some 0%Z).
    { rewrite oget_dz. rewrite (Hfin src 0 (k_src _ _ _ _ HK)). reflexivity. }
    assert (Frel : forall v w c dv, In (w, c) (zrow (zof g) v) -> oget (dz s) v = Some dv ->
              (0 < c)%Z /\ exists dw, oget (dz s) w = Some dw /\ (dw <= dv + c)%Z).
    { intros v w c dv Hin Hv. apply in_zrow_zof in Hin.
      destruct (Hcost v _ Hin) as [c' [Ec Hc]]. cbn [snd] in Ec. apply inject_Z_inj in Ec. subst c'. split; [exact Hc|].
      rewrite oget_dz in Hv. destruct (DD s v) as [q|] eqn:HD; [|discriminate]. cbn in Hv. inversion Hv. subst dv.
      destruct (k_cover _ _ _ _ HK v w c ltac:(congruence) Hin) as [X|[]].
      destruct (k_R _ _ _ _ HK v w c X) as [dv' [x [A [B C]]]].
      rewrite HD in A. inversion A. subst q. cbn [Qnum inject_Z].
      exists x. rewrite oget_dz, (Hfin w _ B). cbn. split; [reflexivity | exact C]. }
    assert (Ftight : forall w dw, oget (dz s) w = Some dw ->
              (0 <= dw)%Z /\ (w = src \/ exists v dv c, oget (dz s) v = Some dv /\ In (w, c) (zrow (zof g) v) /\ (dv + c = dw)%Z)).
    { intros w dw Hw. rewrite oget_dz in Hw. destruct (DD s w) as [q|] eqn:HD; [|discriminate]. cbn in Hw. inversion Hw. subst dw.
      destruct (Hcanon w q HD) as [z [Ez Hz]]. subst q. cbn [Qnum inject_Z]. split; [exact Hz|].
      destruct (Nat.eq_dec w src) as [E0|E0]; [left; exact E0|]. right.
      destruct (k_tight _ _ _ _ HK w z (k_Dseen _ _ _ _ HK w _ HD) E0) as [v [c [dv [A [B C]]]]].
      exists v, dv, c. rewrite oget_dz, A. cbn. split; [reflexivity|]. split; [apply in_zrow_zof; exact B | exact C]. }
    split; [exact (df_sound (zof g) src (dz s) Fsrc Frel Ftight)|]. split; [exact Fsrc|]. split.
    - exact (df_positive (zof g) src (dz s) Frel Ftight).
    - intros w q HD. destruct (Hcanon w q HD) as [z [Ez _]]. subst q. reflexivity.
  Qed.
End Dijkstra.

(* ------------------------------------------------------------------ weighted closeness *)
Lemma qsum_cons : forall x l, qsum (x :: l) == x + qsum l.
Proof. intros. unfold qsum. cbn [fold_left]. rewrite qsum_from. ring. Qed.

Lemma enum_props : forall Dl i,
  (forall q, In (Some q) Dl -> q = inject_Z (Qnum q)) ->
  count_some (map (option_map Qnum) Dl) = length (enum_some i Dl) /\
  qsum (map snd (enum_some i Dl)) == inject_Z (sum_some (map (option_map Qnum) Dl)).
Proof.
  induction Dl as [|o t IH]; intros i Hq; cbn [map enum_some].
  - split; reflexivity.
  - destruct (IH (S i) (fun q H => Hq q (or_intror H))) as [H1 H2].
    rewrite count_some_cons, sum_some_cons. destruct o as [q|]; cbn [option_map enum_some map length snd].
    + split; [rewrite H1; reflexivity|]. rewrite qsum_cons, H2, inject_Z_plus.
      rewrite (Hq q (or_introl eq_refl)) at 1. reflexivity.
    + split; [exact H1 | exact H2].
Qed.

Section WeightedCloseness.
  Variable g : qadj.
  Variable src : nat.
  Hypothesis Hok : adj_ok (length g) g = true.
  Hypothesis Hsrc : (src < length g)%nat.
  Hypothesis Hcost : forall v e, In e (get [] g v) -> exists c, snd e = inject_Z c /\ (0 < c)%Z.

  (* the weighted search returns exactly the reachable nodes with their shortest distances *)
  Theorem sssp_weighted_distances : forall lw sp, sssp_weighted lw g src = Some sp ->
    forall w z, In (w, inject_Z z) sp <-> is_dist (zof g) src w z.
  Proof.
    intros lw sp H. unfold sssp_weighted in H. destruct (bdijkstra lw g src) as [s|] eqn:Es; [|discriminate].
    inversion H. subst sp. clear H.
    destruct (dijkstra_distances g src Hok Hsrc Hcost lw s Es) as [Hdist [_ [_ Hcanon]]].
    assert (Henum : forall Dl i w q, In (w, q) (enum_some i Dl) <-> (i <= w)%nat /\ nth (w - i) Dl None = Some q).
    { induction Dl as [|o t IH]; intros i w q; cbn [enum_some].
      - split; [intros [] | intros [_ X]; destruct (w - i)%nat; discriminate].
      - destruct o as [q0|].
        + cbn [In]. rewrite IH. split.
          * intros [X|[X Y]].
            -- inversion X. subst. split; [lia|]. rewrite Nat.sub_diag. reflexivity.
            -- split; [lia|]. replace (w - i)%nat with (S (w - S i)) by lia. exact Y.
          * intros [X Y]. destruct (Nat.eq_dec w i) as [E0|E0].
            -- subst. rewrite Nat.sub_diag in Y. cbn in Y. inversion Y. left. reflexivity.
            -- right. split; [lia|]. replace (w - i)%nat with (S (w - S i)) in Y by lia. exact Y.
        + rewrite IH. split.
          * intros [X Y]. split; [lia|]. replace (w - i)%nat with (S (w - S i)) by lia. exact Y.
          * intros [X Y]. destruct (Nat.eq_dec w i) as [E0|E0].
            -- subst. rewrite Nat.sub_diag in Y. cbn in Y. discriminate.
            -- split; [lia|]. replace (w - i)%nat with (S (w - S i)) in Y by lia. exact Y. }
    intros w z. rewrite Henum. rewrite Nat.sub_0_r. fold (get None (bD s) w). fold (DD s w). split.
    - intros [_ X]. pose proof (Hdist w) as Y. rewrite oget_dz, X in Y. exact Y.
    - intros [Hw Hmin]. split; [lia|]. pose proof (Hdist w) as Y. rewrite oget_dz in Y.
      destruct (DD s w) as [q|] eqn:HD; cbn in Y.
      + destruct Y as [Hw' Hmin']. rewrite (Hcanon w q HD). f_equal. f_equal.
        pose proof (Hmin _ Hw'). pose proof (Hmin' _ Hw). lia.
      + exfalso. apply Y. exists z. exact Hw.
  Qed.

  Theorem weighted_closeness : forall lw sp (a0 : zadj) wf,
    sssp_weighted lw g src = Some sp ->
    transposed a0 (zof g) -> length a0 = length g ->
    exists cc, get_node_centrality sp (length g) wf = Ok cc /\ is_closeness a0 src wf cc.
  Proof.
    intros lw sp a0 wf H Ht Hlen. unfold sssp_weighted in H. destruct (bdijkstra lw g src) as [s|] eqn:Es; [|discriminate].
    inversion H. subst sp. clear H.
    destruct (dijkstra_distances g src Hok Hsrc Hcost lw s Es) as [Hdist [Fsrc [Hpos Hcanon]]].
    destruct (bdijkstra_K g src Hok Hsrc Hcost lw s Es) as [R [m [HK _]]].
    destruct (k_len _ _ _ _ _ _ HK) as [HlD _].
    assert (Hq : forall q, In (Some q) (bD s) -> q = inject_Z (Qnum q)).
    { intros q Hin. apply (In_nth _ _ None) in Hin. destruct Hin as [w [_ Hw]]. apply (Hcanon w q). exact Hw. }
    destruct (enum_props (bD s) 0 Hq) as [Hc Hsum]. fold (dz s) in Hc, Hsum.
    destruct (formula_stage_gen (enum_some 0 (bD s)) (length g) wf (dz s) src Hc Hsum Fsrc Hpos) as [cc [Hcc Hval]].
    exists cc. split; [exact Hcc|]. exists (dz s). split; [unfold dz; rewrite map_length; lia|]. split.
    - intros v _. apply dist_spec_transposed with (b := zof g); auto.
    - rewrite Hlen. exact Hval.
  Qed.
End WeightedCloseness.

(* the model's per-node value in weighted mode, for every tie choice of the heap *)
Section ModelWeighted.
  Context {T A : Type}.

  Theorem weighted_model_value : forall lw wf (tg : gstate T A) (a : qadj) (a0 : zadj) src nm cc,
    adj_ok (length a) a = true -> (src < length a)%nat ->
    (forall v e, In e (get [] a v) -> exists c, snd e = inject_Z c /\ (0 < c)%Z) ->
    closeness_one lw true wf tg a (length a) src = Ok (nm, cc) ->
    transposed a0 (zof a) -> length a0 = length a ->
    is_closeness a0 src wf cc.
  Proof.
    intros lw wf tg a a0 src nm cc Hok Hsrc Hcost H Ht Hlen.
    destruct (closeness_one_inv _ _ _ _ _ _ _ _ _ H) as [sp [Hsp Hcc]]. cbn [sssp] in Hsp.
    destruct (weighted_closeness a src Hok Hsrc Hcost lw sp a0 wf Hsp Ht Hlen) as [cc' [Hcc' Hcl]].
    rewrite Hcc in Hcc'. inversion Hcc'. subst. exact Hcl.
  Qed.
End ModelWeighted.

(* the integer view of the adjacency used by the checkers is the one of these theorems *)
Lemma zof_conv_row : forall r r' zr, conv_row true r = Some r' -> zconv_row true r = Some zr ->
  map (fun e => (fst e, Qnum (snd e))) r' = zr /\ forall e, In e r' -> exists c, snd e = inject_Z c /\ In (fst e, c) zr.
Proof.
  induction r as [|a t IH]; intros r' zr H1 H2; cbn in H1, H2.
  - inversion H1; inversion H2. subst. split; [reflexivity | intros e []].
  - unfold conv_entry in H1. unfold zconv_entry in H2. destruct (snd a) as [z|]; [|discriminate].
    destruct (conv_row true t) as [t'|] eqn:E1; [|discriminate]. destruct (zconv_row true t) as [zt|] eqn:E2; [|discriminate].
    inversion H1; inversion H2. subst. destruct (IH t' zt eq_refl eq_refl) as [A B]. split.
    + cbn. rewrite A. reflexivity.
    + intros e [He|He]; [subst e; exists z; split; [reflexivity | left; reflexivity]|].
      destruct (B e He) as [c [C1 C2]]. exists c. split; [exact C1 | right; exact C2].
Qed.

Lemma zof_conv_adj : forall sv a za, conv_adj true sv = Some a -> zconv_adj true sv = Some za -> zof a = za.
Proof.
  induction sv as [|r t IH]; intros a za H1 H2; cbn in H1, H2.
  - inversion H1; inversion H2. reflexivity.
  - destruct (conv_row true r) as [r'|] eqn:E1; [|discriminate]. destruct (conv_adj true t) as [t'|] eqn:E2; [|discriminate].
    destruct (zconv_row true r) as [zr|] eqn:E3; [|discriminate]. destruct (zconv_adj true t) as [zt|] eqn:E4; [|discriminate].
    inversion H1; inversion H2. subst. unfold zof. cbn [map]. destruct (zof_conv_row r r' zr E1 E3) as [A _]. rewrite A.
    f_equal. apply IH; reflexivity.
Qed.

(* ------------------------------------------------------------------ non-vacuity of the hypotheses *)
(* 0 -> 1 (cost 1), 0 -> 2 (cost 3), 1 -> 2 (cost 1): the cheaper two-edge route wins *)
Example ex_w : qadj := [[(1%nat, inject_Z 1); (2%nat, inject_Z 3)]; [(2%nat, inject_Z 1)]; []].
Example ex_w_hyps :
  adj_ok (length ex_w) ex_w = true /\
  (forall v e, In e (get [] ex_w v) -> exists c, snd e = inject_Z c /\ (0 < c)%Z) /\
  sssp_weighted false ex_w 0 = Some [(0%nat, 0); (1%nat, 1); (2%nat, 2)] /\
  sssp_weighted true ex_w 0 = Some [(0%nat, 0); (1%nat, 1); (2%nat, 2)].
Proof.
  split; [reflexivity|]. split; [|split; vm_compute; reflexivity].
  intros v e H. unfold ex_w, get in H.
  destruct v as [|[|[|v]]]; cbn in H.
  - destruct H as [H|[H|[]]]; subst e; [exists 1%Z | exists 3%Z]; split; [reflexivity | lia | reflexivity | lia].
  - destruct H as [H|[]]; subst e. exists 1%Z. split; [reflexivity | lia].
  - destruct H.
  - destruct v; destruct H.
Qed.
