(* Soundness of everything the transcribed [dijkstra] returns, for EVERY
   combination of options (target, cutoff, first_only, with_paths) and every
   weight sign: each reported distance is the weight of a walk from the source,
   and each returned path is a walk from the source to the reported node
   whose weight is the reported distance (so it starts at the source, ends at
   the node and follows adjacency entries).  Invariant over the pop loop and
   the row fold: tentative values are walk weights; a finalised value equals
   the tentative value; the fringe holds the tentative value of every
   un-finalised seen node; every path stored for u is a walk of weight seen[u]. *)
From Coq Require Import String List Bool ZArith QArith Arith Lia.
From GV Require Import Base.Outcome Base.AMap Model.GState Model.Creation Model.Query Model.Dijkstra.
From GV Require Import Spec.ShortestPathDef Spec.ShortestPathCheck Proofs.ShortestPathOk Proofs.DijkstraLoopOk.
Import ListNotations.
Open Scope Z_scope.

Section Paths.
  Context {T A : Type}.
  Variable g : gstate T A.
  Variable weighted : bool.
  Variable src : nat.
  Variable wp : bool.
  Variable fo : bool.

  Let sv := successors_vec g.
  Let wg := wgraph_of weighted sv.

  Definition pths := list (list (list nat)).

  Record pinv (D S : vec) (Ps : pths) (F : list fringe_node) : Prop := {
    p_ach_s : forall u x, fin S u x -> exists p, walk wg src u p x;
    p_d_s : forall u x, fin D u x -> fin S u x;
    p_fr_sn : forall it, In it F -> exists x, fin S (fr_index it) x /\ x <= key it;
    p_sn_fr : forall u x, fin S u x -> unfin D u -> exists it, In it F /\ fr_index it = u /\ key it = x;
    p_paths : wp = true -> forall u ps p, nth_error Ps u = Some ps -> In p ps ->
                                         exists x, fin S u x /\ walk wg src u p x;
    p_one : fo = true -> wp = true -> forall u ps x, nth_error Ps u = Some ps -> fin S u x -> length ps = 1%nat
  }.

  Notation pinv_s s := (pinv (d_dist s) (d_seen s) (d_paths s) (d_fringe s)).

  Lemma wedge_row : forall v row u wt c,
    nth_error sv v = Some row -> In (u, wt) row -> cost_of weighted wt = Some c -> wedge wg v u c.
  Proof.
    intros v row u wt c Hr Hin Hc. apply (wedge_wgraph_of weighted sv v u c). exists row, wt. auto.
  Qed.

  Lemma push_paths : forall s u vu s1, push_fringe_node s u vu = Ok s1 -> d_paths s1 = d_paths s.
  Proof.
    intros s u vu s1 H. unfold push_fringe_node in H.
    destruct (Z.ltb I32_MAX (d_count s + 1)); [discriminate|]. inversion H; subst. reflexivity.
  Qed.

  (* a strictly better tentative value for the un-finalised u, reached from the finalised v *)
  Lemma P_improve : forall D S Ps F v u k c it S' Ps',
    pinv D S Ps F -> fin D v k -> unfin D u -> wedge wg v u c ->
    (forall x, fin S u x -> k + c < x) ->
    set_nth u (Some (k + c)) S = Some S' -> fr_index it = u -> key it = k + c ->
    (wp = true -> exists pv, nth_error Ps v = Some pv /\
                             set_nth u (map (fun p => p ++ [u]) pv) Ps = Some Ps') ->
    pinv D S' Ps' (it :: F).
  Proof.
    intros D S Ps F v u k c it S' Ps' I Fv Hun He Hlt Hset Hi Hk Hps.
    assert (Hvk : fin S v k) by (apply (p_d_s _ _ _ _ I); exact Fv).
    assert (Hvu : v <> u) by (intros ->; exact (fin_unfin _ _ _ Fv Hun)).
    destruct (p_ach_s _ _ _ _ I _ _ Hvk) as [pk Hpk].
    assert (Hsu : fin S' u (k + c)) by (eapply set_nth_eq; eauto).
    assert (Hso : forall j, j <> u -> nth_error S' j = nth_error S j) by (intros; eapply set_nth_neq; eauto).
    destruct I. split.
    - intros u' x Hu'. destruct (Nat.eq_dec u' u) as [->|Hne].
      + rewrite (fin_fun _ _ _ _ Hu' Hsu). exists (pk ++ [u]). eapply walk_snoc; eauto.
      + apply p_ach_s0. unfold fin in *. rewrite <- Hso; assumption.
    - intros u' x Hu'. assert (u' <> u) by (intros ->; exact (fin_unfin _ _ _ Hu' Hun)).
      specialize (p_d_s0 _ _ Hu'). unfold fin in *. rewrite Hso; assumption.
    - intros it' [<- | Hin].
      + exists (k + c). rewrite Hi. split; [exact Hsu | lia].
      + destruct (p_fr_sn0 _ Hin) as [x [Hx Hle]]. destruct (Nat.eq_dec (fr_index it') u) as [E|Hne].
        * rewrite E in *. exists (k + c). split; [exact Hsu|]. specialize (Hlt _ Hx). lia.
        * exists x. split; [|exact Hle]. unfold fin in *. rewrite Hso; assumption.
    - intros u' x Hu' Hun'. destruct (Nat.eq_dec u' u) as [->|Hne].
      + exists it. rewrite (fin_fun _ _ _ _ Hu' Hsu). auto with datatypes.
      + assert (Hx : fin S u' x) by (unfold fin in *; rewrite <- Hso; assumption).
        destruct (p_sn_fr0 _ _ Hx Hun') as [it' [Hin H]]. exists it'. split; [right; exact Hin | exact H].
    - intros Hwp u' ps p Hn Hp. destruct (Hps Hwp) as [pv [Hpv Hset']].
      destruct (Nat.eq_dec u' u) as [->|Hne].
      + rewrite (set_nth_eq _ _ _ _ _ Hset') in Hn. inversion Hn; subst ps.
        apply in_map_iff in Hp. destruct Hp as [q [<- Hq]].
        destruct (p_paths0 Hwp _ _ _ Hpv Hq) as [x [Hx Hw]]. rewrite (fin_fun _ _ _ _ Hx Hvk) in Hw.
        exists (k + c). split; [exact Hsu|]. eapply walk_snoc; eauto.
      + rewrite (set_nth_neq _ _ _ _ _ _ Hset' Hne) in Hn.
        destruct (p_paths0 Hwp _ _ _ Hn Hp) as [x [Hx Hw]]. exists x. split; [|exact Hw].
        unfold fin in *. rewrite Hso; assumption.
    - intros Hfo Hwp u' ps x Hn Hx. destruct (Hps Hwp) as [pv [Hpv Hset']].
      destruct (Nat.eq_dec u' u) as [->|Hne].
      + rewrite (set_nth_eq _ _ _ _ _ Hset') in Hn. inversion Hn; subst ps. rewrite map_length.
        eapply p_one0; eauto.
      + rewrite (set_nth_neq _ _ _ _ _ _ Hset' Hne) in Hn. eapply p_one0; eauto.
        unfold fin in *. rewrite <- Hso; eassumption.
  Qed.

  (* an equal tentative value: one more fringe entry, the paths through v appended *)
  Lemma P_tie : forall D S Ps F v u k c it Ps',
    pinv D S Ps F -> fin D v k -> wedge wg v u c ->
    fin S u (k + c) -> fr_index it = u -> key it = k + c ->
    (wp = true -> exists pv pu, nth_error Ps v = Some pv /\ nth_error Ps u = Some pu /\
                                set_nth u (pu ++ map (fun p => p ++ [u]) pv) Ps = Some Ps') ->
    (wp = false -> Ps' = Ps) -> fo = false ->
    pinv D S Ps' (it :: F).
  Proof.
    intros D S Ps F v u k c it Ps' I Fv He Hs Hi Hk Hps Hnps Hfo.
    assert (Hvk : fin S v k) by (apply (p_d_s _ _ _ _ I); exact Fv).
    destruct I. split; try assumption.
    - intros it' [<- | Hin]; [|apply p_fr_sn0; exact Hin]. exists (k + c). rewrite Hi. split; [exact Hs | lia].
    - intros u' x Hu' Hun'. destruct (p_sn_fr0 _ _ Hu' Hun') as [it' [Hin H]]. exists it'. split; [right; exact Hin | exact H].
    - intros Hwp u' ps p Hn Hp. destruct (Hps Hwp) as [pv [pu [Hpv [Hpu Hset']]]].
      destruct (Nat.eq_dec u' u) as [->|Hne].
      + rewrite (set_nth_eq _ _ _ _ _ Hset') in Hn. inversion Hn; subst ps.
        apply in_app_iff in Hp. destruct Hp as [Hp | Hp]; [eapply p_paths0; eauto|].
        apply in_map_iff in Hp. destruct Hp as [q [<- Hq]].
        destruct (p_paths0 Hwp _ _ _ Hpv Hq) as [x [Hx Hw]]. rewrite (fin_fun _ _ _ _ Hx Hvk) in Hw.
        exists (k + c). split; [exact Hs|]. eapply walk_snoc; eauto.
      + rewrite (set_nth_neq _ _ _ _ _ _ Hset' Hne) in Hn. eapply p_paths0; eauto.
    - intros Hfo'. congruence.
  Qed.

  Lemma pinv_paths_irrelevant : forall D S Ps Ps' F, wp = false -> pinv D S Ps F -> pinv D S Ps' F.
  Proof. intros D S Ps Ps' F Hwp I. destruct I. split; try assumption; intros; congruence. Qed.

  (* one adjacency entry of the just finalised node v (dist[v] = k) *)
  Lemma relax_pstep : forall cutoff v k s a s' row,
    nth_error sv v = Some row -> In a row ->
    pinv_s s -> fin (d_dist s) v k ->
    relax weighted fo wp cutoff v k s a = Ok s' ->
    pinv_s s' /\ d_dist s' = d_dist s.
  Proof.
    intros cutoff v k s [u wt] s' row Hrow Hin I Fv H. unfold relax in H.
    destruct (cost_of weighted wt) as [c|] eqn:Ec; [|inversion H; subst; auto].
    assert (He : wedge wg v u c) by (eapply wedge_row; eauto).
    destruct (cutoff_exceeded cutoff (k + c)); [inversion H; subst; auto|].
    apply bind_ok in H. destruct H as [du [Hdu H]]. apply get_at_ok in Hdu.
    destruct du as [ud|].
    { destruct (Z.ltb (k + c) ud); [discriminate|]. inversion H; subst. auto. }
    apply bind_ok in H. destruct H as [su [Hsu H]]. apply get_at_ok in Hsu.
    destruct (lt_sentinel (k + c) su) eqn:Elt.
    - apply bind_ok in H. destruct H as [sn [Hsn H]]. apply set_at_ok in Hsn.
      apply bind_ok in H. destruct H as [s1 [Hpush H]]. assert (Hp1 := push_paths _ _ _ _ Hpush).
      apply push_ok in Hpush.
      cbn [with_seen_of d_dist d_seen d_fringe d_paths] in Hpush, Hp1. destruct Hpush as [Hd1 [Hs1 [it [Hf1 [Hi Hk]]]]].
      assert (Hlt : forall x, fin (d_seen s) u x -> k + c < x).
      { intros x Hx. rewrite (fin_get _ _ _ _ Hsu Hx) in Elt. cbn in Elt. apply Z.ltb_lt. exact Elt. }
      destruct wp eqn:Ewp.
      + apply bind_ok in H. destruct H as [pv [Hpv H]]. apply get_at_ok in Hpv.
        apply bind_ok in H. destruct H as [ps [Hps H]]. apply set_at_ok in Hps.
        inversion H; subst s'. cbn [with_paths_of d_dist d_seen d_fringe d_paths].
        rewrite Hd1, Hs1, Hf1. split; [|reflexivity]. rewrite Hp1 in Hpv, Hps.
        eapply P_improve; eauto.
      + inversion H; subst s'. rewrite Hd1, Hs1, Hf1, Hp1. split; [|reflexivity].
        eapply P_improve; eauto. intros; congruence.
    - destruct su as [x|]; [|cbn in Elt; discriminate]. cbn in Elt. apply Z.ltb_ge in Elt.
      destruct (negb fo && eq_sentinel (k + c) (Some x)) eqn:Eeq; [|inversion H; subst; auto].
      apply andb_true_iff in Eeq. destruct Eeq as [Efo Eeq]. apply negb_true_iff in Efo.
      cbn in Eeq. apply Z.eqb_eq in Eeq. subst x.
      apply bind_ok in H. destruct H as [s1 [Hpush H]]. assert (Hp1 := push_paths _ _ _ _ Hpush).
      apply push_ok in Hpush. destruct Hpush as [Hd1 [Hs1 [it [Hf1 [Hi Hk]]]]].
      destruct wp eqn:Ewp.
      + apply bind_ok in H. destruct H as [pv [Hpv H]]. apply get_at_ok in Hpv.
        apply bind_ok in H. destruct H as [pu [Hpu H]]. apply get_at_ok in Hpu.
        apply bind_ok in H. destruct H as [ps [Hps H]]. apply set_at_ok in Hps.
        inversion H; subst s'. cbn [with_paths_of d_dist d_seen d_fringe d_paths].
        rewrite Hd1, Hs1, Hf1. split; [|reflexivity]. rewrite Hp1 in Hpv, Hpu, Hps.
        eapply P_tie; eauto. intros; congruence.
      + inversion H; subst s'. rewrite Hd1, Hs1, Hf1, Hp1. split; [|reflexivity].
        eapply P_tie; eauto. intros; congruence.
  Qed.

  Lemma fold_relax_p : forall cutoff v k fullrow,
    nth_error sv v = Some fullrow ->
    forall row s s', incl row fullrow -> pinv_s s -> fin (d_dist s) v k ->
      ofold (relax weighted fo wp cutoff v k) row s = Ok s' -> pinv_s s'.
  Proof.
    intros cutoff v k fullrow Hrow. induction row as [|a t IH]; intros s s' Hincl I Fv H; cbn [ofold] in H.
    - inversion H; subst. exact I.
    - apply bind_ok in H. destruct H as [s1 [H1 H]].
      destruct (relax_pstep _ _ _ _ _ _ _ Hrow (Hincl a (or_introl eq_refl)) I Fv H1) as [I1 Hd].
      eapply IH; [| exact I1 | rewrite Hd; exact Fv | exact H]. intros x Hx. apply Hincl. right. exact Hx.
  Qed.

  Lemma ppop_skip : forall s item rest x,
    pinv_s s -> heap_pop (d_fringe s) = Some (item, rest) -> fin (d_dist s) (fr_index item) x ->
    pinv (d_dist s) (d_seen s) (d_paths s) rest.
  Proof.
    intros s item rest x I Hpop Hfin. destruct (heap_pop_spec _ _ _ Hpop) as [Hin _].
    destruct I. split; try assumption.
    - intros it Hi. apply p_fr_sn0. apply Hin. right. exact Hi.
    - intros u y Hu Hun. destruct (p_sn_fr0 _ _ Hu Hun) as [it [Hi [Hidx Hk]]].
      apply Hin in Hi. destruct Hi as [E | Hi]; [|exists it; auto].
      exfalso. subst it. rewrite Hidx in Hfin. exact (fin_unfin _ _ _ Hfin Hun).
  Qed.

  Lemma ppop_finalise : forall s item rest D',
    pinv_s s -> heap_pop (d_fringe s) = Some (item, rest) -> unfin (d_dist s) (fr_index item) ->
    set_nth (fr_index item) (Some (key item)) (d_dist s) = Some D' ->
    pinv D' (d_seen s) (d_paths s) rest /\ fin D' (fr_index item) (key item).
  Proof.
    intros s item rest D' I Hpop Hun Hset. destruct (heap_pop_spec _ _ _ Hpop) as [Hin Hmax].
    set (v := fr_index item) in *. set (k := key item) in *.
    assert (Hitem : In item (d_fringe s)) by (apply Hin; left; reflexivity).
    assert (HDv : fin D' v k) by (eapply set_nth_eq; eauto).
    assert (HDo : forall j, j <> v -> nth_error D' j = nth_error (d_dist s) j) by (intros; eapply set_nth_neq; eauto).
    assert (Hsk : fin (d_seen s) v k).
    { destruct (p_fr_sn _ _ _ _ I _ Hitem) as [x [Hx Hle]]. fold v in Hx. fold k in Hle.
      destruct (p_sn_fr _ _ _ _ I _ _ Hx Hun) as [it' [Hi' [Hidx Hk']]].
      specialize (Hmax _ Hi'). assert (E : x = k) by (unfold k, key in *; lia).
      rewrite <- E. exact Hx. }
    split; [|exact HDv]. destruct I. split; try assumption.
    - intros u x H. destruct (Nat.eq_dec u v) as [->|Hne]; [rewrite (fin_fun _ _ _ _ H HDv); exact Hsk|].
      apply p_d_s0. unfold fin in *. rewrite <- HDo; assumption.
    - intros it Hi. apply p_fr_sn0. apply Hin. right. exact Hi.
    - intros u x Hu Hun'. assert (u <> v) by (intros ->; exact (fin_unfin _ _ _ HDv Hun')).
      assert (Hun0 : unfin (d_dist s) u) by (unfold unfin in *; rewrite <- HDo; assumption).
      destruct (p_sn_fr0 _ _ Hu Hun0) as [it [Hi [Hidx Hk']]].
      apply Hin in Hi. destruct Hi as [E | Hi]; [|exists it; auto]. exfalso. subst it. apply H. symmetry. exact Hidx.
  Qed.

  Lemma dijkstra_loop_pinv : forall target cutoff fuel s s',
    pinv_s s -> dijkstra_loop fuel g weighted target cutoff fo wp s = Ok s' -> pinv_s s'.
  Proof.
    intros target cutoff. induction fuel as [|f IH]; intros s s' I H; cbn [dijkstra_loop] in H; [discriminate|].
    destruct (heap_pop (d_fringe s)) as [[item rest]|] eqn:Hpop; [|inversion H; subst; exact I].
    apply bind_ok in H. destruct H as [dv [Hdv H]]. apply get_at_ok in Hdv. cbn [d_dist] in Hdv.
    destruct dv as [x|].
    - eapply IH; [|exact H]. cbn. eapply ppop_skip; eauto.
    - apply bind_ok in H. destruct H as [D' [HD' H]]. apply set_at_ok in HD'. cbn [d_dist] in HD'.
      destruct (ppop_finalise _ _ _ _ I Hpop Hdv HD') as [I2 Fv].
      destruct (match target with Some t => Nat.eqb t (fr_index item) | None => false end).
      + inversion H; subst s'. cbn. exact I2.
      + apply bind_ok in H. destruct H as [row [Hrow H]]. apply get_at_ok in Hrow.
        apply bind_ok in H. destruct H as [s3 [Hfold H]].
        eapply IH; [|exact H].
        eapply (fold_relax_p cutoff (fr_index item) (- fr_distance item) row Hrow row); [apply incl_refl | | | exact Hfold].
        * cbn. exact I2.
        * cbn. exact Fv.
  Qed.
End Paths.

Section PathsFinal.
  Context {T A : Type}.
  Variable g : gstate T A.
  Variable weighted : bool.
  Variable src : nat.
  Let wg := wgraph_of weighted (successors_vec g).
  Hypothesis Hlen : length (successors_vec g) = number_of_nodes g.

  Lemma init_pinv : forall wp fo s0, dijkstra_init g src wp = Ok s0 ->
    pinv g weighted src wp fo (d_dist s0) (d_seen s0) (d_paths s0) (d_fringe s0).
  Proof.
    intros wp fo s0 H. unfold dijkstra_init in H. apply bind_ok in H. destruct H as [paths [Hpaths H]].
    apply bind_ok in H. destruct H as [seen [Hseen H]]. apply set_at_ok in Hseen. inversion H; subst s0. clear H.
    set (n := number_of_nodes g) in *.
    assert (Hs : (src < n)%nat) by (apply set_nth_lt in Hseen; rewrite repeat_length in Hseen; exact Hseen).
    assert (HS0 : nth_error seen src = Some (Some 0)) by (eapply set_nth_eq; eauto).
    assert (HSo : forall j, j <> src -> nth_error seen j = nth_error (repeat None n) j) by (intros; eapply set_nth_neq; eauto).
    assert (HD : forall v x, ~ fin (repeat None n) v x).
    { intros v x H. unfold fin in H. apply nth_error_repeat_inv in H. destruct H; discriminate. }
    assert (HSs : forall u x, fin seen u x -> u = src /\ x = 0).
    { intros u x H. unfold fin in H. destruct (Nat.eq_dec u src) as [->|Hne].
      - rewrite HS0 in H. inversion H. auto.
      - rewrite HSo in H by assumption. apply nth_error_repeat_inv in H. destruct H; discriminate. }
    assert (Hw0 : walk wg src src [src] 0).
    { constructor. unfold wg, wgraph_of. rewrite map_length. rewrite <- Hlen in Hs. exact Hs. }
    cbn [d_dist d_seen d_fringe d_paths]. split.
    - intros u x H. destruct (HSs _ _ H) as [-> ->]. exists [src]. exact Hw0.
    - intros u x H. exfalso. eapply HD; eauto.
    - intros it [<- | []]. cbn. exists 0. split; [exact HS0 | unfold key; cbn; lia].
    - intros u x H _. destruct (HSs _ _ H) as [-> ->]. eexists. split; [left; reflexivity|]. cbn. auto.
    - intros -> u ps p Hn Hp. apply set_at_ok in Hpaths.
      destruct (Nat.eq_dec u src) as [->|Hne].
      + rewrite (set_nth_eq _ _ _ _ _ Hpaths) in Hn. inversion Hn; subst ps. destruct Hp as [<- | []].
        exists 0. split; [exact HS0 | exact Hw0].
      + rewrite (set_nth_neq _ _ _ _ _ _ Hpaths Hne) in Hn. apply nth_error_repeat_inv in Hn.
        destruct Hn as [-> _]. destruct Hp.
    - intros _ -> u ps x Hn Hx. apply set_at_ok in Hpaths. destruct (HSs _ _ Hx) as [-> _].
      rewrite (set_nth_eq _ _ _ _ _ Hpaths) in Hn. inversion Hn. reflexivity.
  Qed.

  Lemma infos_from_paths : forall D k paths wp r, infos_from k D paths wp = Ok r ->
    forall t i, In (t, i) r ->
      (k <= t)%nat /\ nth_error D (t - k) = Some (Some (sp_distance i)) /\
      (if wp then nth_error paths t = Some (sp_paths i) else sp_paths i = []).
  Proof.
    induction D as [|[v|] D IH]; intros k paths wp r H t i Hin; cbn [infos_from] in H.
    - inversion H; subst. destruct Hin.
    - apply bind_ok in H. destruct H as [ps [Hps H]]. apply bind_ok in H. destruct H as [r' [Hr' H]].
      inversion H; subst r. destruct Hin as [E | Hin].
      + inversion E; subst. split; [lia|]. rewrite Nat.sub_diag. split; [reflexivity|]. cbn.
        destruct wp; [apply get_at_ok in Hps; exact Hps | inversion Hps; reflexivity].
      + destruct (IH _ _ _ _ Hr' _ _ Hin) as [Hle [Hn Hp]]. split; [lia|]. split; [|exact Hp].
        replace (t - k)%nat with (S (t - S k)) by lia. exact Hn.
    - destruct (IH _ _ _ _ H _ _ Hin) as [Hle [Hn Hp]]. split; [lia|]. split; [|exact Hp].
      replace (t - k)%nat with (S (t - S k)) by lia. exact Hn.
  Qed.

  (* every reported distance and every returned path is real, whatever the options *)
  Theorem dijkstra_paths_sound : forall target cutoff fo wp r,
    dijkstra g weighted src target cutoff fo wp = Ok r ->
    forall t i, In (t, i) r ->
      (exists p, walk wg src t p (sp_distance i)) /\
      (forall p, In p (sp_paths i) -> walk wg src t p (sp_distance i)) /\
      (wp = false -> sp_paths i = []) /\
      (wp = true -> fo = true -> length (sp_paths i) = 1%nat).
  Proof.
    intros target cutoff fo wp r H t i Hin. unfold dijkstra in H.
    apply bind_ok in H. destruct H as [s0 [H0 H]]. apply bind_ok in H. destruct H as [s [Hl H]].
    assert (I := dijkstra_loop_pinv g weighted src wp fo target cutoff _ _ _ (init_pinv _ _ _ H0) Hl).
    unfold get_shortest_path_infos in H. destruct (infos_from_paths _ _ _ _ _ H _ _ Hin) as [_ [Hn Hp]].
    rewrite Nat.sub_0_r in Hn. assert (Hs := p_d_s _ _ _ _ _ _ _ _ _ I _ _ Hn).
    split; [apply (p_ach_s _ _ _ _ _ _ _ _ _ I _ _ Hs)|]. split; [|split].
    - intros p Hpin. destruct wp; [|rewrite Hp in Hpin; destruct Hpin].
      destruct (p_paths _ _ _ _ _ _ _ _ _ I eq_refl _ _ _ Hp Hpin) as [x [Hx Hw]].
      rewrite (fin_fun _ _ _ _ Hx Hs) in Hw. exact Hw.
    - intros ->. exact Hp.
    - intros -> ->. eapply (p_one _ _ _ _ _ _ _ _ _ I eq_refl eq_refl); eauto.
  Qed.
End PathsFinal.
