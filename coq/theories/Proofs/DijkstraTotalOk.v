(* The transcribed [dijkstra] / [dijkstra_basic] never panic and never exhaust
   their fuel on a well-formed adjacency (one row per node, every neighbour
   index in range, fewer than 2^31 - 1 entries): every Vec index is in range,
   the i32 counter does not overflow, and the fuel 2 + #entries + |V| covers
   every pop (potential: |fringe| + entries of the rows not yet relaxed). *)
From Coq Require Import String List Bool ZArith QArith Arith Lia.
From GV Require Import Base.Outcome Base.AMap Model.GState Model.Creation Model.Query Model.Dijkstra.
From GV Require Import Proofs.DijkstraLoopOk.
Import ListNotations.
Open Scope Z_scope.

Definition fine {X} (o : outcome X) : Prop :=
  match o with Ok _ | Err _ => True | Panic _ | OutOfFuel => False end.

Lemma fine_bind : forall X Y (o : outcome X) (f : X -> outcome Y),
  fine o -> (forall x, o = Ok x -> fine (f x)) -> fine (bind o f).
Proof. intros X Y o f Ho Hf. destruct o; cbn in *; auto; contradiction. Qed.

Lemma set_nth_some : forall X i (x : X) l, (i < length l)%nat -> exists l', set_nth i x l = Some l'.
Proof.
  intros X i x l. revert i. induction l as [|h t IH]; intros [|i] H; cbn in *; try lia; [eauto|].
  destruct (IH i) as [t' Ht]; [lia|]. rewrite Ht. eauto.
Qed.

Lemma get_at_fine : forall X site (l : list X) i, (i < length l)%nat -> exists x, get_at site l i = Ok x.
Proof.
  intros X site l i H. unfold get_at, unwrap_at. apply nth_error_Some in H.
  destruct (nth_error l i); [eauto | congruence].
Qed.

Lemma set_at_fine : forall X site (l : list X) i x, (i < length l)%nat -> exists l', set_at site l i x = Ok l'.
Proof.
  intros X site l i x H. unfold set_at, unwrap_at. destruct (set_nth_some _ i x l H) as [l' ->]. eauto.
Qed.

(* entries of the rows whose node is not finalised *)
Fixpoint pend (D : list (option Z)) (rows : list (list adj)) : nat :=
  match D, rows with
  | d :: D', r :: rows' => (match d with None => length r | Some _ => 0%nat end + pend D' rows')%nat
  | _, _ => 0%nat
  end.

Lemma pend_set : forall D rows v k D' row,
  set_nth v (Some k) D = Some D' -> nth_error D v = Some None -> nth_error rows v = Some row ->
  (pend D' rows + length row = pend D rows)%nat.
Proof.
  induction D as [|d D IH]; intros rows [|v] k D' row Hs Hn Hr; cbn in Hs; try discriminate.
  - inversion Hs; subst. cbn in Hn. inversion Hn; subst. destruct rows as [|r rows]; cbn in Hr; [discriminate|].
    inversion Hr; subst. cbn. lia.
  - destruct (set_nth v (Some k) D) as [D1|] eqn:E; [|discriminate]. inversion Hs; subst.
    destruct rows as [|r rows]; cbn in Hr; [discriminate|]. cbn in Hn. cbn.
    specialize (IH _ _ _ _ _ E Hn Hr). lia.
Qed.

Lemma fold_sum_shift : forall (rows : list (list adj)) a,
  fold_left (fun a row => (a + length row)%nat) rows a = (a + fold_left (fun a row => (a + length row)%nat) rows 0)%nat.
Proof.
  induction rows as [|r rows IH]; intros a; cbn; [lia|]. rewrite IH. rewrite (IH (length r)). lia.
Qed.

Lemma pend_init : forall rows, pend (repeat None (length rows)) rows = fold_left (fun a row => (a + length row)%nat) rows 0%nat.
Proof.
  induction rows as [|r rows IH]; cbn; [reflexivity|]. rewrite IH. rewrite (fold_sum_shift rows (length r)). reflexivity.
Qed.

Section Total.
  Context {T A : Type}.
  Variable g : gstate T A.
  Variable weighted : bool.
  Let sv := successors_vec g.
  Let n := number_of_nodes g.

  Hypothesis Hlen : length sv = n.
  Hypothesis Hrange : forall v row u wt, nth_error sv v = Some row -> In (u, wt) row -> (u < n)%nat.
  Hypothesis Hsmall : Z.of_nat (number_of_entries g) < I32_MAX.

  Variable wp : bool.

  Record shape (s : dstate) : Prop := {
    sh_d : length (d_dist s) = n;
    sh_s : length (d_seen s) = n;
    sh_p : wp = true -> length (d_paths s) = n;
    sh_f : forall it, In it (d_fringe s) -> (fr_index it < n)%nat;
    sh_c : 0 <= d_count s
  }.

  (* budget: the counter plus what may still be pushed stays below the number of entries *)
  Definition budget (s : dstate) (todo : nat) : Prop :=
    d_count s + Z.of_nat todo + Z.of_nat (pend (d_dist s) sv) <= Z.of_nat (number_of_entries g).

  Lemma push_fine : forall s u vu, shape s -> (u < n)%nat -> d_count s + 1 <= I32_MAX ->
    exists s1, push_fringe_node s u vu = Ok s1 /\ shape s1 /\
               d_dist s1 = d_dist s /\ d_seen s1 = d_seen s /\ d_paths s1 = d_paths s /\
               length (d_fringe s1) = S (length (d_fringe s)) /\ d_count s1 = d_count s + 1.
  Proof.
    intros s u vu Sh Hu Hc. unfold push_fringe_node.
    destruct (Z.ltb I32_MAX (d_count s + 1)) eqn:E; [apply Z.ltb_lt in E; lia|].
    eexists. split; [reflexivity|]. destruct Sh. split; [|cbn; auto].
    split; cbn; try assumption; [|lia]. intros it [<- | Hin]; [exact Hu | auto].
  Qed.

  (* one relaxation: Ok or Err, the fringe and the counter grow by at most one *)
  Lemma relax_fine : forall fo cutoff v k s a,
    shape s -> (v < n)%nat -> (fst a < n)%nat -> d_count s + 1 <= I32_MAX ->
    fine (relax weighted fo wp cutoff v k s a) /\
    forall s', relax weighted fo wp cutoff v k s a = Ok s' ->
      shape s' /\ d_dist s' = d_dist s /\
      (length (d_fringe s') <= S (length (d_fringe s)))%nat /\
      d_count s <= d_count s' <= d_count s + 1.
  Proof.
    intros fo cutoff v k s [u wt] Sh Hv Hu Hc. cbn [fst] in Hu. unfold relax.
    assert (Same : shape s /\ d_dist s = d_dist s /\ (length (d_fringe s) <= S (length (d_fringe s)))%nat /\
                   d_count s <= d_count s <= d_count s + 1) by (split; [exact Sh | split; [reflexivity | lia]]).
    destruct (cost_of weighted wt) as [c|]; [|split; [exact I | intros s' E; inversion E; subst; exact Same]].
    destruct (cutoff_exceeded cutoff (k + c)); [split; [exact I | intros s' E; inversion E; subst; exact Same]|].
    destruct (get_at_fine _ "dijkstra.rs:452" (d_dist s) u) as [du Hdu]; [rewrite (sh_d _ Sh); exact Hu|].
    rewrite Hdu. cbn [bind]. destruct du as [ud|].
    { destruct (Z.ltb (k + c) ud); [split; [exact I | intros s' E; discriminate]|].
      split; [exact I | intros s' E; inversion E; subst; exact Same]. }
    destruct (get_at_fine _ "dijkstra.rs:457" (d_seen s) u) as [su Hsu]; [rewrite (sh_s _ Sh); exact Hu|].
    rewrite Hsu. cbn [bind].
    (* the paths part after a push *)
    assert (Tail : forall s1 (mk : list (list nat) -> list (list nat) -> list (list nat)) (two : bool) (st1 st2 st3 : string),
               shape s1 -> d_dist s1 = d_dist s ->
               length (d_fringe s1) = S (length (d_fringe s)) -> d_count s1 = d_count s + 1 ->
               let o := (if wp then
                           do pv <- get_at st1 (d_paths s1) v;
                           do pu <- (if two then get_at st2 (d_paths s1) u else Ok []);
                           do ps <- set_at st3 (d_paths s1) u (mk pu pv);
                           Ok (with_paths_of s1 ps)
                         else Ok s1) in
               fine o /\ forall s', o = Ok s' ->
                 shape s' /\ d_dist s' = d_dist s /\ (length (d_fringe s') <= S (length (d_fringe s)))%nat /\
                 d_count s <= d_count s' <= d_count s + 1).
    { intros s1 mk two st1 st2 st3 Sh1 Hd1 Hf1 Hc1. cbn zeta. destruct wp eqn:Ewp.
      - destruct (get_at_fine _ st1 (d_paths s1) v) as [pv Hpv]; [rewrite (sh_p _ Sh1 Ewp); exact Hv|].
        rewrite Hpv. cbn [bind].
        assert (Hpu : exists pu, (if two then get_at st2 (d_paths s1) u else Ok []) = Ok pu).
        { destruct two; [|eauto]. apply get_at_fine. rewrite (sh_p _ Sh1 Ewp). exact Hu. }
        destruct Hpu as [pu Hpu]. rewrite Hpu. cbn [bind].
        destruct (set_at_fine _ st3 (d_paths s1) u (mk pu pv)) as [ps Hps]; [rewrite (sh_p _ Sh1 Ewp); exact Hu|].
        rewrite Hps. cbn [bind]. split; [exact I|]. intros s' E. inversion E; subst s'. cbn.
        split; [|split; [exact Hd1 | split; [lia | lia]]]. destruct Sh1. split; cbn; try assumption.
        intros _. apply set_at_ok in Hps. rewrite (set_nth_length _ _ _ _ _ Hps). auto.
      - split; [exact I|]. intros s' E. inversion E; subst s'. split; [exact Sh1 | split; [exact Hd1 | split; lia]]. }
    destruct (lt_sentinel (k + c) su).
    - destruct (set_at_fine _ "dijkstra.rs:458" (d_seen s) u (Some (k + c))) as [sn Hsn]; [rewrite (sh_s _ Sh); exact Hu|].
      rewrite Hsn. cbn [bind].
      assert (Sh0 : shape (with_seen_of s sn)).
      { destruct Sh. split; cbn; try assumption. apply set_at_ok in Hsn. rewrite (set_nth_length _ _ _ _ _ Hsn). exact sh_s0. }
      destruct (push_fine (with_seen_of s sn) u (k + c) Sh0 Hu Hc) as [s1 [Hp [Sh1 [Hd1 [_ [_ [Hf1 Hc1]]]]]]].
      rewrite Hp. cbn [bind].
      exact (Tail s1 (fun _ pv => map (fun p => p ++ [u]) pv) false "dijkstra.rs:461" "" "dijkstra.rs:463" Sh1 Hd1 Hf1 Hc1).
    - destruct (negb fo && eq_sentinel (k + c) su); [|split; [exact I | intros s' E; inversion E; subst; exact Same]].
      destruct (push_fine s u (k + c) Sh Hu Hc) as [s1 [Hp [Sh1 [Hd1 [_ [_ [Hf1 Hc1]]]]]]].
      rewrite Hp. cbn [bind].
      exact (Tail s1 (fun pu pv => pu ++ map (fun p => p ++ [u]) pv) true "dijkstra.rs:563" "dijkstra.rs:572" "dijkstra.rs:572" Sh1 Hd1 Hf1 Hc1).
  Qed.

  Lemma budget_push : forall s todo, budget s (S todo) -> d_count s + 1 <= I32_MAX.
  Proof. intros s todo B. unfold budget in B. lia. Qed.

  Lemma fold_fine : forall fo cutoff v k row s,
    shape s -> (v < n)%nat -> (forall a, In a row -> (fst a < n)%nat) -> budget s (length row) ->
    fine (ofold (relax weighted fo wp cutoff v k) row s) /\
    forall s', ofold (relax weighted fo wp cutoff v k) row s = Ok s' ->
      shape s' /\ d_dist s' = d_dist s /\
      (length (d_fringe s') <= length (d_fringe s) + length row)%nat /\ budget s' 0.
  Proof.
    intros fo cutoff v k. induction row as [|a t IH]; intros s Sh Hv Hr B; cbn [ofold].
    - split; [exact I|]. intros s' E. inversion E; subst. split; [exact Sh|]. split; [reflexivity|]. split; [lia | exact B].
    - cbn [length] in B.
      destruct (relax_fine fo cutoff v k s a Sh Hv (Hr a (or_introl eq_refl)) (budget_push _ _ B)) as [F1 R1].
      destruct (relax weighted fo wp cutoff v k s a) as [s1| | |] eqn:E1; cbn [bind]; cbn in F1; try contradiction.
      + destruct (R1 s1 eq_refl) as [Sh1 [Hd1 [Hf1 Hc1]]].
        assert (B1 : budget s1 (length t)). { unfold budget in *. rewrite Hd1. lia. }
        destruct (IH s1 Sh1 Hv (fun x Hx => Hr x (or_intror Hx)) B1) as [F2 R2]. split; [exact F2|].
        intros s' E. destruct (R2 s' E) as [Sh' [Hd' [Hf' B']]]. split; [exact Sh'|].
        split; [congruence|]. split; [cbn [length]; lia | exact B'].
      + split; [exact I|]. intros s' E. discriminate.
  Qed.

  Lemma heap_pop_length : forall h m r, heap_pop h = Some (m, r) -> length h = S (length r).
  Proof.
    induction h as [|x t IH]; intros m r H; cbn [heap_pop] in H; [discriminate|].
    destruct (heap_pop t) as [[m' r']|] eqn:E.
    - specialize (IH _ _ eq_refl). destruct (fr_cmp x m'); inversion H; subst; cbn; lia.
    - destruct t; [inversion H; reflexivity|]. cbn in E. destruct (heap_pop t) as [[? ?]|]; [destruct (fr_cmp f f0)|]; discriminate.
  Qed.

  Lemma loop_fine : forall target cutoff fo fuel s,
    shape s -> budget s 0 -> (length (d_fringe s) + pend (d_dist s) sv < fuel)%nat ->
    fine (dijkstra_loop fuel g weighted target cutoff fo wp s) /\
    forall s', dijkstra_loop fuel g weighted target cutoff fo wp s = Ok s' -> shape s'.
  Proof.
    intros target cutoff fo. induction fuel as [|f IH]; intros s Sh B Hm; [lia|]. cbn [dijkstra_loop].
    destruct (heap_pop (d_fringe s)) as [[item rest]|] eqn:Hpop.
    2:{ split; [exact I|]. intros s' E. inversion E; subst. exact Sh. }
    destruct (heap_pop_spec _ _ _ Hpop) as [Hin _]. assert (Hl := heap_pop_length _ _ _ Hpop).
    assert (Hv : (fr_index item < n)%nat) by (apply (sh_f _ Sh); apply Hin; left; reflexivity).
    assert (Sh1 : shape (mkd (d_dist s) (d_seen s) (d_paths s) rest (d_count s))).
    { destruct Sh. split; cbn; try assumption. intros it Hi. apply sh_f0. apply Hin. right. exact Hi. }
    destruct (get_at_fine _ "dijkstra.rs:435" (d_dist s) (fr_index item)) as [dv Hdv]; [rewrite (sh_d _ Sh); exact Hv|].
    cbn [d_dist]. rewrite Hdv. cbn [bind]. destruct dv as [x|].
    - apply IH; [exact Sh1 | exact B | cbn; lia].
    - destruct (set_at_fine _ "dijkstra.rs:438" (d_dist s) (fr_index item) (Some (- fr_distance item))) as [D' HD'];
        [rewrite (sh_d _ Sh); exact Hv|].
      rewrite HD'. cbn [bind]. cbn [d_seen d_paths d_count].
      set (s2 := mkd D' (d_seen s) (d_paths s) rest (d_count s)).
      assert (HD'' := set_at_ok _ _ _ _ _ _ HD').
      assert (Sh2 : shape s2).
      { destruct Sh1. split; cbn in *; try assumption. rewrite (set_nth_length _ _ _ _ _ HD''). assumption. }
      destruct (match target with Some t => Nat.eqb t (fr_index item) | None => false end).
      { split; [exact I|]. intros s' E. inversion E; subst. exact Sh2. }
      unfold get_successor_nodes_by_index.
      destruct (get_at_fine _ "query.rs:912" (successors_vec g) (fr_index item)) as [row Hrow]; [fold sv; rewrite Hlen; exact Hv|].
      rewrite Hrow. cbn [bind]. apply get_at_ok in Hrow. apply get_at_ok in Hdv.
      assert (Hp := pend_set _ sv _ _ _ _ HD'' Hdv Hrow).
      assert (B2 : budget s2 (length row)). { unfold budget in *. cbn. lia. }
      destruct (fold_fine fo cutoff (fr_index item) (- fr_distance item) row s2 Sh2 Hv) as [F3 R3].
      { intros [u wt] Ha. cbn. eapply Hrange; eauto. }
      { exact B2. }
      destruct (ofold (relax weighted fo wp cutoff (fr_index item) (- fr_distance item)) row s2) as [s3| | |] eqn:E3;
        cbn [bind]; cbn in F3; try contradiction.
      + destruct (R3 s3 eq_refl) as [Sh3 [Hd3 [Hf3 B3]]]. apply IH; [exact Sh3 | exact B3|].
        rewrite Hd3. unfold s2 in *. cbn [d_dist d_fringe] in *. clear - Hm Hl Hp Hf3. lia.
      + split; [exact I|]. intros s' E. discriminate.
  Qed.

  Lemma infos_from_fine : forall D k paths, (wp = true -> (k + length D <= length paths)%nat) ->
    fine (infos_from k D paths wp).
  Proof.
    induction D as [|[v|] D IH]; intros k paths H; cbn [infos_from]; [exact I| |].
    - assert (Hps : exists ps, (if wp then get_at "dijkstra.rs:644" paths k else Ok []) = Ok ps).
      { destruct wp eqn:E; [|eauto]. apply get_at_fine. specialize (H eq_refl). cbn in H. lia. }
      destruct Hps as [ps ->]. cbn [bind]. apply fine_bind.
      + apply IH. intros E. specialize (H E). cbn in H. lia.
      + intros r _. exact I.
    - apply IH. intros E. specialize (H E). cbn in H. lia.
  Qed.

  Theorem dijkstra_fine : forall src target cutoff fo, (src < n)%nat ->
    fine (dijkstra g weighted src target cutoff fo wp).
  Proof.
    intros src target cutoff fo Hs. unfold dijkstra, dijkstra_init. fold n.
    assert (Hps : exists paths, (if wp then set_at "dijkstra.rs:418" (repeat [] n) src [[src]] else Ok []) = Ok paths /\
                                (wp = true -> length paths = n)).
    { destruct wp eqn:E.
      - destruct (set_at_fine _ "dijkstra.rs:418" (repeat (@nil (list nat)) n) src [[src]]) as [ps Hps]; [rewrite repeat_length; exact Hs|].
        exists ps. split; [exact Hps|]. intros _. apply set_at_ok in Hps. rewrite (set_nth_length _ _ _ _ _ Hps). apply repeat_length.
      - exists []. split; [reflexivity | discriminate]. }
    destruct Hps as [paths [-> Hpl]]. cbn [bind].
    destruct (set_at_fine _ "dijkstra.rs:425" (repeat (@None Z) n) src (Some 0)) as [seen Hseen]; [rewrite repeat_length; exact Hs|].
    rewrite Hseen. cbn [bind]. apply set_at_ok in Hseen.
    set (s0 := mkd (repeat None n) seen paths [mkfr src 0 0] 0).
    assert (Sh0 : shape s0).
    { split; cbn; [apply repeat_length | rewrite (set_nth_length _ _ _ _ _ Hseen); apply repeat_length | exact Hpl | | lia].
      intros it [<- | []]. exact Hs. }
    assert (Hp0 : pend (repeat None n) sv = number_of_entries g).
    { rewrite <- Hlen. rewrite pend_init. reflexivity. }
    assert (B0 : budget s0 0) by (unfold budget; cbn; rewrite Hp0; lia).
    destruct (loop_fine target cutoff fo (dijkstra_fuel g) s0 Sh0 B0) as [F1 R1].
    { cbn. rewrite Hp0. unfold dijkstra_fuel. lia. }
    destruct (dijkstra_loop (dijkstra_fuel g) g weighted target cutoff fo wp s0) as [s| | |] eqn:E; cbn [bind]; cbn in F1;
      try contradiction; [|exact I].
    specialize (R1 s eq_refl). unfold get_shortest_path_infos. apply infos_from_fine.
    intros Ewp. rewrite (sh_d _ R1). rewrite (sh_p _ R1 Ewp). lia.
  Qed.

  (* ---- the distance-only fast path ---- *)
  Lemma relax_basic_fine : forall k s a,
    shape s -> (fst a < n)%nat -> d_count s + 1 <= I32_MAX ->
    fine (relax_basic weighted k s a) /\
    forall s', relax_basic weighted k s a = Ok s' ->
      shape s' /\ d_dist s' = d_dist s /\
      (length (d_fringe s') <= S (length (d_fringe s)))%nat /\
      d_count s <= d_count s' <= d_count s + 1.
  Proof.
    intros k s [u wt] Sh Hu Hc. cbn [fst] in Hu. unfold relax_basic.
    assert (Same : shape s /\ d_dist s = d_dist s /\ (length (d_fringe s) <= S (length (d_fringe s)))%nat /\
                   d_count s <= d_count s <= d_count s + 1) by (split; [exact Sh | split; [reflexivity | lia]]).
    destruct (cost_of weighted wt) as [c|]; [|split; [exact I | intros s' E; inversion E; subst; exact Same]].
    destruct (get_at_fine _ "dijkstra.rs:517" (d_seen s) u) as [su Hsu]; [rewrite (sh_s _ Sh); exact Hu|].
    rewrite Hsu. cbn [bind]. destruct (lt_sentinel (k + c) su).
    - destruct (set_at_fine _ "dijkstra.rs:518" (d_seen s) u (Some (k + c))) as [sn Hsn]; [rewrite (sh_s _ Sh); exact Hu|].
      rewrite Hsn. cbn [bind].
      assert (Sh0 : shape (with_seen_of s sn)).
      { destruct Sh. split; cbn; try assumption. apply set_at_ok in Hsn. rewrite (set_nth_length _ _ _ _ _ Hsn). exact sh_s0. }
      destruct (push_fine (with_seen_of s sn) u (k + c) Sh0 Hu Hc) as [s1 [Hp [Sh1 [Hd1 [_ [_ [Hf1 Hc1]]]]]]].
      rewrite Hp. split; [exact I|]. intros s' E. inversion E; subst s'. cbn in *.
      split; [exact Sh1|]. split; [exact Hd1|]. split; lia.
    - destruct (eq_sentinel (k + c) su); [|split; [exact I | intros s' E; inversion E; subst; exact Same]].
      destruct (push_fine s u (k + c) Sh Hu Hc) as [s1 [Hp [Sh1 [Hd1 [_ [_ [Hf1 Hc1]]]]]]].
      rewrite Hp. split; [exact I|]. intros s' E. inversion E; subst s'.
      split; [exact Sh1|]. split; [exact Hd1|]. split; lia.
  Qed.

  Lemma fold_basic_fine : forall k row s,
    shape s -> (forall a, In a row -> (fst a < n)%nat) -> budget s (length row) ->
    fine (ofold (relax_basic weighted k) row s) /\
    forall s', ofold (relax_basic weighted k) row s = Ok s' ->
      shape s' /\ d_dist s' = d_dist s /\
      (length (d_fringe s') <= length (d_fringe s) + length row)%nat /\ budget s' 0.
  Proof.
    intros k. induction row as [|a t IH]; intros s Sh Hr B; cbn [ofold].
    - split; [exact I|]. intros s' E. inversion E; subst. split; [exact Sh|]. split; [reflexivity|]. split; [lia | exact B].
    - cbn [length] in B.
      destruct (relax_basic_fine k s a Sh (Hr a (or_introl eq_refl)) (budget_push _ _ B)) as [F1 R1].
      destruct (relax_basic weighted k s a) as [s1| | |] eqn:E1; cbn [bind]; cbn in F1; try contradiction.
      + destruct (R1 s1 eq_refl) as [Sh1 [Hd1 [Hf1 Hc1]]].
        assert (B1 : budget s1 (length t)). { unfold budget in *. rewrite Hd1. lia. }
        destruct (IH s1 Sh1 (fun x Hx => Hr x (or_intror Hx)) B1) as [F2 R2]. split; [exact F2|].
        intros s' E. destruct (R2 s' E) as [Sh' [Hd' [Hf' B']]]. split; [exact Sh'|].
        split; [congruence|]. split; [cbn [length]; lia | exact B'].
      + split; [exact I|]. intros s' E. discriminate.
  Qed.

  Lemma basic_loop_fine : forall fuel s,
    shape s -> budget s 0 -> (length (d_fringe s) + pend (d_dist s) sv < fuel)%nat ->
    fine (basic_loop fuel g weighted s) /\
    forall s', basic_loop fuel g weighted s = Ok s' -> shape s'.
  Proof.
    induction fuel as [|f IH]; intros s Sh B Hm; [lia|]. cbn [basic_loop].
    destruct (heap_pop (d_fringe s)) as [[item rest]|] eqn:Hpop.
    2:{ split; [exact I|]. intros s' E. inversion E; subst. exact Sh. }
    destruct (heap_pop_spec _ _ _ Hpop) as [Hin _]. assert (Hl := heap_pop_length _ _ _ Hpop).
    assert (Hv : (fr_index item < n)%nat) by (apply (sh_f _ Sh); apply Hin; left; reflexivity).
    assert (Sh1 : shape (mkd (d_dist s) (d_seen s) (d_paths s) rest (d_count s))).
    { destruct Sh. split; cbn; try assumption. intros it Hi. apply sh_f0. apply Hin. right. exact Hi. }
    destruct (get_at_fine _ "dijkstra.rs:506" (d_dist s) (fr_index item)) as [dv Hdv]; [rewrite (sh_d _ Sh); exact Hv|].
    cbn [d_dist]. rewrite Hdv. cbn [bind]. destruct dv as [x|].
    - apply IH; [exact Sh1 | exact B | cbn; lia].
    - destruct (set_at_fine _ "dijkstra.rs:509" (d_dist s) (fr_index item) (Some (- fr_distance item))) as [D' HD'];
        [rewrite (sh_d _ Sh); exact Hv|].
      rewrite HD'. cbn [bind]. cbn [d_seen d_paths d_count].
      set (s2 := mkd D' (d_seen s) (d_paths s) rest (d_count s)).
      assert (HD'' := set_at_ok _ _ _ _ _ _ HD').
      assert (Sh2 : shape s2).
      { destruct Sh1. split; cbn in *; try assumption. rewrite (set_nth_length _ _ _ _ _ HD''). assumption. }
      unfold get_successor_nodes_by_index.
      destruct (get_at_fine _ "query.rs:912" (successors_vec g) (fr_index item)) as [row Hrow]; [fold sv; rewrite Hlen; exact Hv|].
      rewrite Hrow. cbn [bind]. apply get_at_ok in Hrow. apply get_at_ok in Hdv.
      assert (Hp := pend_set _ sv _ _ _ _ HD'' Hdv Hrow).
      assert (B2 : budget s2 (length row)). { unfold budget in *. cbn. lia. }
      destruct (fold_basic_fine (- fr_distance item) row s2 Sh2) as [F3 R3].
      { intros [u wt] Ha. cbn. eapply Hrange; eauto. }
      { exact B2. }
      destruct (ofold (relax_basic weighted (- fr_distance item)) row s2) as [s3| | |] eqn:E3;
        cbn [bind]; cbn in F3; try contradiction.
      + destruct (R3 s3 eq_refl) as [Sh3 [Hd3 [Hf3 B3]]]. apply IH; [exact Sh3 | exact B3|].
        rewrite Hd3. unfold s2 in *. cbn [d_dist d_fringe] in *. clear - Hm Hl Hp Hf3. lia.
      + split; [exact I|]. intros s' E. discriminate.
  Qed.
End Total.

Section TotalBasic.
  Context {T A : Type}.
  Variable g : gstate T A.
  Variable weighted : bool.
  Hypothesis Hlen : length (successors_vec g) = number_of_nodes g.
  Hypothesis Hrange : forall v row u wt, nth_error (successors_vec g) v = Some row -> In (u, wt) row ->
                                         (u < number_of_nodes g)%nat.
  Hypothesis Hsmall : Z.of_nat (number_of_entries g) < I32_MAX.

  Theorem dijkstra_basic_fine : forall src, (src < number_of_nodes g)%nat -> fine (dijkstra_basic g weighted src).
  Proof.
    intros src Hs. unfold dijkstra_basic, dijkstra_init. set (n := number_of_nodes g) in *.
    destruct (set_at_fine _ "dijkstra.rs:418" (repeat (@nil (list nat)) n) src [[src]]) as [paths Hps]; [rewrite repeat_length; exact Hs|].
    rewrite Hps. cbn [bind].
    destruct (set_at_fine _ "dijkstra.rs:425" (repeat (@None Z) n) src (Some 0)) as [seen Hseen]; [rewrite repeat_length; exact Hs|].
    rewrite Hseen. cbn [bind]. apply set_at_ok in Hseen. apply set_at_ok in Hps.
    set (s0 := mkd (repeat None n) seen paths [mkfr src 0 0] 0).
    assert (Sh0 : shape g true s0).
    { split; cbn; [apply repeat_length | rewrite (set_nth_length _ _ _ _ _ Hseen); apply repeat_length | | | lia].
      - intros _. rewrite (set_nth_length _ _ _ _ _ Hps). apply repeat_length.
      - intros it [<- | []]. exact Hs. }
    assert (Hp0 : pend (repeat None n) (successors_vec g) = number_of_entries g).
    { rewrite <- Hlen. rewrite pend_init. reflexivity. }
    assert (B0 : budget g s0 0) by (unfold budget; cbn; rewrite Hp0; lia).
    destruct (basic_loop_fine g weighted Hlen Hrange Hsmall true (dijkstra_fuel g) s0 Sh0 B0) as [F1 R1].
    { cbn. rewrite Hp0. unfold dijkstra_fuel. fold n. lia. }
    destruct (basic_loop (dijkstra_fuel g) g weighted s0) as [s| | |] eqn:E; cbn [bind]; cbn in F1;
      try contradiction; [|exact I].
    unfold get_shortest_path_infos. eapply infos_from_fine; eauto. intros Ewp. discriminate.
  Qed.
End TotalBasic.
