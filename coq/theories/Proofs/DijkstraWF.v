(* Link between the graph-structure core and the shortest-path package:

   1. the structural hypotheses of the Dijkstra theorems ([wf_adj], [names_wf]) follow
      from the coherence invariant [WF] (Proofs/WFDefs.v), which holds in every state
      reachable by any history of mutations (Proofs/HistoryOk.v).  The one clause [WF]
      cannot give is the size bound "fewer than 2^31-1 adjacency entries" (the i32
      counter of dijkstra.rs): it stays a hypothesis, [small_adj]; it holds for every
      graph of at most 46340 nodes ([small_adj_of_nodes]).
   2. the traversal graph [wgraph_of weighted (successors_vec g)] the search reads has
      exactly the arcs of the EDGE STORE: i -> j with cost c iff an edge is stored
      between the i-th and the j-th node (either orientation when undirected) and c is
      the weight the adjacency keeps for that pair ([adjw]: the weight of the single
      stored edge, the running minimum on a multi-edge graph; 1 in hop-count mode).
      Non-negativity / positivity of the costs follow from the same property of the
      stored edge weights.
   3. [result_ok] over the adjacency list = [a_result_ok] over the edge-store arcs. *)
From Coq Require Import String List Bool ZArith QArith Arith Lia.
From GV Require Import Base.Outcome Base.AMap Model.GState Model.Creation Model.Query Model.Dijkstra.
From GV Require Import Spec.AGraph Spec.History Spec.ShortestPathDef Spec.ShortestPathCheck Spec.ShortestPathRel Spec.EdgeStoreGraph.
From GV Require Import Proofs.AMapOk Proofs.WFDefs Proofs.WFNode Proofs.WFAdj Proofs.WFEdge Proofs.HistoryOk
     Proofs.AdjOk Proofs.QueryOk.
From GV Require Import Proofs.ShortestPathOk Proofs.DijkstraLoopOk Proofs.DijkstraPathsOk Proofs.DijkstraTotalOk
     Proofs.DijkstraNoErrOk Proofs.DijkstraModelOk Proofs.DijkstraNamesOk Proofs.DijkstraEntryOk Proofs.InvolvingOk
     Proofs.DijkstraErrKind.
Import ListNotations.

(* ------------------------------------------------------------------ adjacency-list spec = relational spec *)
Section RelEquiv.
  Variable wg : wgraph.
  Variable arc : nat -> nat -> Z -> Prop.
  Variable n : nat.
  Hypothesis Harc : forall u v w, wedge wg u v w <-> arc u v w.
  Hypothesis Hn : length wg = n.

  Lemma walk_awalk : forall s t p d, walk wg s t p d <-> awalk arc n s t p d.
  Proof.
    intros s t p d. split; intros H.
    - induction H as [Hs | u v w p d Hw IH He].
      + apply awalk_nil. rewrite <- Hn. exact Hs.
      + eapply awalk_snoc; [exact IH | apply Harc; exact He].
    - induction H as [Hs | u v w p d Hw IH He].
      + apply walk_nil. rewrite Hn. exact Hs.
      + eapply walk_snoc; [exact IH | apply Harc; exact He].
  Qed.

  Lemma is_dist_rel : forall s t d, is_dist wg s t d <-> a_is_dist arc n s t d.
  Proof.
    intros s t d. unfold is_dist, a_is_dist. split; intros [[p Hp] Hmin]; split.
    - exists p. apply walk_awalk. exact Hp.
    - intros q d' Hq. apply (Hmin q). apply walk_awalk. exact Hq.
    - exists p. apply walk_awalk. exact Hp.
    - intros q d' Hq. apply (Hmin q). apply walk_awalk. exact Hq.
  Qed.

  Lemma SP_rel : forall s t p, SP wg s t p <-> a_SP arc n s t p.
  Proof.
    intros s t p. unfold SP, a_SP. split; intros [d [Hd Hw]]; exists d; split;
      try (apply is_dist_rel; exact Hd); apply walk_awalk; exact Hw.
  Qed.

  Lemma positive_rel : positive wg <-> a_positive arc.
  Proof.
    unfold positive, a_positive. split; intros H u v w He; apply (H u v w); apply Harc; exact He.
  Qed.

  Lemma nonneg_rel : nonneg wg <-> a_nonneg arc.
  Proof.
    unfold nonneg, a_nonneg. split; intros H u v w He; apply (H u v w); apply Harc; exact He.
  Qed.

  Lemma entry_ok_rel : forall s c fo wp e, entry_ok wg s c fo wp e <-> a_entry_ok arc n s c fo wp e.
  Proof.
    intros s c fo wp [v [x ps]]. unfold entry_ok, a_entry_ok.
    pose proof (is_dist_rel s v x) as Hd. pose proof positive_rel as Hp.
    assert (Hs : forall p, SP wg s v p <-> a_SP arc n s v p) by (intros p; apply SP_rel).
    split; intros [H1 [H2 [H3 H4]]]; (split; [apply Hd; exact H1|]); (split; [exact H2|]); (split; [exact H3|]);
      intros Ewp; destruct (H4 Ewp) as [A1 [A2 A3]]; (split; [|split; [exact A2|]]).
    - intros p Hin. apply Hs. apply A1. exact Hin.
    - intros Efo Hpos. destruct (A3 Efo (proj2 Hp Hpos)) as [B1 B2]. split; [exact B1|].
      intros p Hsp. apply B2. apply Hs. exact Hsp.
    - intros p Hin. apply Hs. apply A1. exact Hin.
    - intros Efo Hpos. destruct (A3 Efo (proj1 Hp Hpos)) as [B1 B2]. split; [exact B1|].
      intros p Hsp. apply B2. apply Hs. exact Hsp.
  Qed.

  Theorem result_ok_rel : forall s t c fo wp r, result_ok wg s t c fo wp r <-> a_result_ok arc n s t c fo wp r.
  Proof.
    intros s t c fo wp r. unfold result_ok, a_result_ok.
    split; intros [H1 [H2 H3]]; (split; [exact H1|]); split.
    - intros e He. apply entry_ok_rel. apply H2. exact He.
    - destruct t as [t|]; [intros x Hx | intros v x Hx]; apply H3; apply is_dist_rel; exact Hx.
    - intros e He. apply entry_ok_rel. apply H2. exact He.
    - destruct t as [t|]; [intros x Hx | intros v x Hx]; apply H3; apply is_dist_rel; exact Hx.
  Qed.
End RelEquiv.

(* ------------------------------------------------------------------ WF gives the structural hypotheses *)
Section DijkstraWF.
  Context {T A : Type}.
  Variable teqb : T -> T -> bool.
  Variable tltb : T -> T -> bool.
  Hypothesis teqb_spec : forall x y, teqb x y = true <-> x = y.
  Hypothesis tltb_asym : forall x y, tltb x y = true -> tltb y x = false.
  Hypothesis tltb_total : forall x y, tltb x y = false -> tltb y x = false -> x = y.

  Notation node := (node T A).
  Notation edge := (edge T A).
  Notation gstate := (gstate T A).
  Notation WF := (@WF T A teqb tltb).
  Notation names := (@names T A).
  Notation name_at := (@name_at T A).
  Notation nn := (@nn T A).
  Notation group := (@group T A teqb).
  Notation grp_of := (@grp_of T A teqb tltb).
  Notation cn := (cn tltb).
  Notation pspec := (peqb_spec teqb teqb_spec).
  Notation stored_between := (stored_between teqb tltb).
  Notation between := (@between T A teqb).
  Notation edge_arc := (@edge_arc T A teqb).

  Lemma nn_number_of_nodes (g : gstate) : nn g = number_of_nodes g.
  Proof. unfold WFDefs.nn, WFDefs.names, number_of_nodes. apply map_length. Qed.

  Lemma name_at_lt_n (g : gstate) i x : name_at g i = Some x -> (i < number_of_nodes g)%nat.
  Proof. intros H. rewrite <- nn_number_of_nodes. eapply name_at_lt. exact H. Qed.

  Lemma name_at_some (g : gstate) i : (i < number_of_nodes g)%nat -> exists x, name_at g i = Some x.
  Proof.
    intros H. rewrite <- nn_number_of_nodes in H. unfold WFDefs.nn in H. apply nth_error_Some in H.
    unfold WFDefs.name_at. destruct (nth_error (names g) i) as [x|]; [eauto | congruence].
  Qed.

  Lemma name_at_In (g : gstate) x : In x (names g) <-> exists i, name_at g i = Some x.
  Proof.
    split.
    - intros H. apply In_nth_error in H. exact H.
    - intros [i H]. eapply nth_error_In. exact H.
  Qed.

  Lemma grp_of_lt (g : gstate) i j l : grp_of g i j = Some l ->
    (i < number_of_nodes g)%nat /\ (j < number_of_nodes g)%nat.
  Proof.
    unfold WFDefs.grp_of. intros H.
    destruct (name_at g i) as [x|] eqn:Ex; [|discriminate]. destruct (name_at g j) as [y|] eqn:Ey; [|discriminate].
    split; eapply name_at_lt_n; eauto.
  Qed.

  Theorem WF_wf_adj (g : gstate) : WF g -> small_adj g -> wf_adj g.
  Proof.
    intros W Hsmall. destruct (wf_sv _ _ _ W) as [Hlen Hrows]. split.
    - rewrite Hlen. apply nn_number_of_nodes.
    - intros v row u wt Hrow Hin. destruct (Hrows v row Hrow) as [_ Hmem].
      apply Hmem in Hin. destruct Hin as [l [Hl _]]. apply grp_of_lt in Hl. apply Hl.
    - intros v row Hrow. destruct (Hrows v row Hrow) as [Hnd _]. exact Hnd.
    - exact Hsmall.
  Qed.

  (* every row has at most one entry per node, so there are at most n^2 entries *)
  Lemma entries_le (rows : list (list adj)) n :
    (forall row, In row rows -> NoDup (map fst row) /\ forall a, In a row -> (fst a < n)%nat) ->
    (fold_left (fun a row => (a + length row)%nat) rows 0 <= length rows * n)%nat.
  Proof.
    assert (Hgen : forall rows acc,
               (forall row, In row rows -> (length row <= n)%nat) ->
               (fold_left (fun a (row : list adj) => (a + length row)%nat) rows acc <= acc + length rows * n)%nat).
    { induction rows0 as [|r rs IH]; intros acc Hall; cbn [fold_left length]; [lia|].
      specialize (IH (acc + length r)%nat (fun row Hr => Hall row (or_intror Hr))).
      pose proof (Hall r (or_introl eq_refl)). lia. }
    intros Hall. apply (Hgen rows 0%nat). intros row Hr. destruct (Hall row Hr) as [Hnd Hlt].
    rewrite <- (map_length fst row). rewrite <- (seq_length n 0).
    apply NoDup_incl_length; [exact Hnd|]. intros k Hk. apply in_map_iff in Hk. destruct Hk as [a [<- Ha]].
    apply in_seq. specialize (Hlt a Ha). lia.
  Qed.

  Theorem small_adj_of_nodes (g : gstate) : WF g -> (Z.of_nat (number_of_nodes g) <= 46340)%Z -> small_adj g.
  Proof.
    intros W Hn. unfold small_adj, number_of_entries. destruct (wf_sv _ _ _ W) as [Hlen Hrows].
    assert (H : (fold_left (fun a (row : list adj) => (a + length row)%nat) (successors_vec g) 0
                 <= length (successors_vec g) * number_of_nodes g)%nat).
    { apply entries_le. intros row Hr. apply In_nth_error in Hr. destruct Hr as [i Hi].
      destruct (Hrows i row Hi) as [Hnd Hmem]. split; [exact Hnd|]. intros [u wt] Ha.
      apply Hmem in Ha. destruct Ha as [l [Hl _]]. apply grp_of_lt in Hl. apply Hl. }
    rewrite Hlen, nn_number_of_nodes in H. apply Nat2Z.inj_le in H. rewrite Nat2Z.inj_mul in H.
    unfold I32_MAX.
    assert (Z.of_nat (number_of_nodes g) * Z.of_nat (number_of_nodes g) <= 46340 * 46340)%Z
      by (apply Z.mul_le_mono_nonneg; lia).
    lia.
  Qed.

  Lemma name_name_at (g : gstate) i : WF g -> name g i = name_at g i.
  Proof.
    intros W. unfold name, get_node_by_index. rewrite (wf_nrev _ _ _ W).
    unfold WFDefs.name_at, WFDefs.names. rewrite nth_error_map.
    destruct (nth_error (nodes_vec g) i); reflexivity.
  Qed.

  Theorem WF_names_wf (g : gstate) : WF g -> names_wf teqb g.
  Proof.
    intros W. split.
    - intros x i Hl. apply (wf_nmap _ _ _ W) in Hl. split; [eapply name_at_lt_n; exact Hl|].
      rewrite (name_name_at g i W). exact Hl.
    - intros i Hi. destruct (name_at_some g i Hi) as [x Hx]. exists x.
      split; [rewrite (name_name_at g i W); exact Hx | apply (wf_nmap _ _ _ W); exact Hx].
  Qed.

  Lemma lookup_name_at (g : gstate) x i : WF g -> lookup teqb x (nodes_map g) = Some i <-> name_at g i = Some x.
  Proof. intros W. apply (wf_nmap _ _ _ W). Qed.

  Lemma lookup_names (g : gstate) x : WF g -> In x (names g) -> exists i, lookup teqb x (nodes_map g) = Some i.
  Proof.
    intros W H. apply name_at_In in H. destruct H as [i Hi]. exists i. apply (wf_nmap _ _ _ W). exact Hi.
  Qed.

  Lemma lookup_absent (g : gstate) x : WF g -> ~ In x (names g) -> lookup teqb x (nodes_map g) = None.
  Proof.
    intros W H. destruct (lookup teqb x (nodes_map g)) as [i|] eqn:E; [|reflexivity].
    exfalso. apply H. apply name_at_In. exists i. apply (wf_nmap _ _ _ W). exact E.
  Qed.

  (* ---------------------------------------------------------------- the arcs of the traversal graph *)

  (* in terms of the invariant's own vocabulary: the stored group between two node indexes *)
  Definition store_arc (g : gstate) (weighted : bool) (i j : nat) (c : Z) : Prop :=
    exists l, grp_of g i j = Some l /\ cost_of weighted (adjw (sp g) l) = Some c.

  Theorem wedge_store_arc (g : gstate) weighted i j c :
    WF g -> wedge (wgraph_of weighted (successors_vec g)) i j c <-> store_arc g weighted i j c.
  Proof.
    intros W. destruct (wf_sv _ _ _ W) as [Hlen Hrows].
    rewrite (wedge_wgraph_of weighted (successors_vec g) i j c). unfold store_arc, cost_of. split.
    - intros [row [wt [Hrow [Hin Hc]]]]. destruct (Hrows i row Hrow) as [_ Hmem].
      apply Hmem in Hin. destruct Hin as [l [Hl ->]]. exists l. split; [exact Hl | exact Hc].
    - intros [l [Hl Hc]]. destruct (grp_of_lt g i j l Hl) as [Hi _].
      rewrite <- nn_number_of_nodes, <- Hlen in Hi. apply nth_error_Some in Hi.
      destruct (nth_error (successors_vec g) i) as [row|] eqn:Hrow; [|congruence].
      exists row, (adjw (sp g) l). split; [exact Hrow|]. split; [|exact Hc].
      destruct (Hrows i row Hrow) as [_ Hmem]. apply Hmem. exists l. auto.
  Qed.

  Lemma in_all_edges (g : gstate) e :
    WF g -> In e (get_all_edges g) -> exists l, group g (eu e, ev e) = Some l /\ In e l.
  Proof.
    intros W H. unfold get_all_edges in H. apply in_flat_map in H. destruct H as [[k l] [Hkl He]].
    cbn [snd] in He. exists l. split; [|exact He].
    rewrite (group_edge_key teqb tltb teqb_spec g k l e W Hkl He).
    apply (AMapOk.In_lookup (peqb teqb) pspec); [apply (wf_ekeys _ _ _ W) | exact Hkl].
  Qed.

  Lemma group_in_all_edges (g : gstate) k l e : group g k = Some l -> In e l -> In e (get_all_edges g).
  Proof.
    intros Hl He. unfold get_all_edges. apply in_flat_map. exists (k, l). split; [|exact He].
    apply (AMapOk.lookup_In (peqb teqb) pspec). exact Hl.
  Qed.

  Theorem between_stored (g : gstate) x y : WF g -> between g x y = stored_between g x y.
  Proof.
    intros W. unfold between, AdjOk.stored_between. apply filter_ext_in. intros e He.
    change (In e (get_all_edges g)) in He.
    destruct (in_all_edges g e W He) as [l [Hl _]].
    destruct (wf_egroup _ _ _ W _ _ Hl) as (_ & _ & _ & _ & Hcan & _). cbn [fst snd] in Hcan.
    unfold keyb. destruct (directed (sp g)) eqn:Hd.
    - rewrite (cn_directed tltb _ _ _ Hd). cbn [negb andb]. apply orb_false_r.
    - specialize (Hcan eq_refl). cbn [negb andb]. unfold WFDefs.cn. rewrite Hd. cbn [negb andb].
      destruct (tltb y x) eqn:Eyx.
      + destruct (peqb teqb (eu e, ev e) (x, y)) eqn:E1; [|reflexivity].
        apply pspec in E1. inversion E1; subst. congruence.
      + destruct (peqb teqb (eu e, ev e) (y, x)) eqn:E2; [|apply orb_false_r].
        apply pspec in E2. inversion E2; subst. rewrite (tltb_total _ _ Hcan Eyx).
        rewrite (proj2 (pspec _ _) eq_refl). reflexivity.
  Qed.

  Theorem store_arc_edge_arc (g : gstate) weighted i j c :
    WF g -> store_arc g weighted i j c <-> edge_arc g weighted i j c.
  Proof.
    intros W. unfold store_arc, edge_arc, WFDefs.grp_of. split.
    - intros [l [Hl Hc]]. destruct (name_at g i) as [x|]; [|discriminate]. destruct (name_at g j) as [y|]; [|discriminate].
      exists x, y. split; [reflexivity|]. split; [reflexivity|].
      rewrite (between_stored g x y W), (stored_between_group teqb tltb teqb_spec g x y W), Hl.
      destruct (wf_egroup _ _ _ W _ _ Hl) as (Hne & _). split; assumption.
    - intros [x [y [Hx [Hy [Hne Hc]]]]]. rewrite Hx, Hy.
      rewrite (between_stored g x y W), (stored_between_group teqb tltb teqb_spec g x y W) in Hne, Hc.
      destruct (group g (cn (sp g) x y)) as [l|]; [|congruence]. exists l. split; [reflexivity | exact Hc].
  Qed.

  (* the traversal graph read by the search = the arcs of the edge store *)
  Theorem traversal_graph_is_edge_store (g : gstate) weighted :
    WF g ->
    length (wgraph_of weighted (successors_vec g)) = number_of_nodes g /\
    forall i j c, wedge (wgraph_of weighted (successors_vec g)) i j c <-> edge_arc g weighted i j c.
  Proof.
    intros W. split.
    - unfold wgraph_of. rewrite map_length. destruct (wf_sv _ _ _ W) as [Hlen _]. exact (eq_trans Hlen (nn_number_of_nodes g)).
    - intros i j c. rewrite (wedge_store_arc g weighted i j c W). apply store_arc_edge_arc. exact W.
  Qed.

  Lemma between_sym (g : gstate) x y : WF g -> directed (sp g) = false -> between g x y = between g y x.
  Proof.
    intros W Hd. rewrite !(between_stored _ _ _ W).
    apply (stored_between_sym teqb tltb tltb_asym tltb_total g x y Hd).
  Qed.

  Theorem edge_arc_symmetric (g : gstate) weighted i j c :
    WF g -> directed (sp g) = false -> edge_arc g weighted i j c -> edge_arc g weighted j i c.
  Proof.
    intros W Hd [x [y [Hx [Hy [Hne Hc]]]]]. exists y, x. rewrite (between_sym g y x W Hd). auto.
  Qed.

  (* ---- what the cost is ---- *)
  Lemma run_min_in (l : list edge) z : run_min l = Some z -> exists e, In e l /\ ew e = Some z.
  Proof.
    destruct l as [|h t]; [discriminate|]. cbn [run_min].
    assert (Hgen : forall (t : list edge) (acc : weight) z,
               fold_left (fun (a : weight) (x : edge) => if wlt (ew x) a then ew x else a) t acc = Some z ->
               acc = Some z \/ exists e, In e t /\ ew e = Some z).
    { induction t0 as [|e0 t0 IH]; intros acc z0 H; cbn [fold_left] in H; [left; exact H|].
      destruct (IH _ _ H) as [Hacc | [e [He Hz]]].
      - destruct (wlt (ew e0) acc); [right; exists e0; split; [left; reflexivity | exact Hacc] | left; exact Hacc].
      - right. exists e. split; [right; exact He | exact Hz]. }
    intros H. destruct (Hgen _ _ _ H) as [Hh | [e [He Hz]]].
    - exists h. split; [left; reflexivity | exact Hh].
    - exists e. split; [right; exact He | exact Hz].
  Qed.

  Lemma adjw_in s (l : list edge) z : adjw s l = Some z -> exists e, In e l /\ ew e = Some z.
  Proof.
    unfold adjw. destruct (multi s); [apply run_min_in|].
    destruct l as [|e t]; [discriminate|]. intros H. exists e. split; [left; reflexivity | exact H].
  Qed.

  Lemma in_between (g : gstate) x y e : In e (between g x y) -> In e (get_all_edges g).
  Proof. unfold between. intros H. apply filter_In in H. apply H. Qed.

  (* hop-count mode: every arc costs 1 *)
  Lemma edge_arc_hop (g : gstate) i j c : edge_arc g false i j c -> c = 1%Z.
  Proof. intros [x [y [_ [_ [_ Hc]]]]]. cbn in Hc. congruence. Qed.

  (* weighted mode: the cost is the weight of one of the stored edges of the pair ... *)
  Lemma edge_arc_weight_in (g : gstate) i j c :
    edge_arc g true i j c ->
    exists x y e, name_at g i = Some x /\ name_at g j = Some y /\ In e (between g x y) /\ ew e = Some c.
  Proof.
    intros [x [y [Hx [Hy [_ Hc]]]]]. cbn [cost_of] in Hc. apply adjw_in in Hc. destruct Hc as [e [He Hw]].
    exists x, y, e. auto.
  Qed.

  (* ... and, when all stored edges of the pair carry a real weight, the smallest of them *)
  Theorem edge_arc_min_weight (g : gstate) i j x y :
    WF g -> name_at g i = Some x -> name_at g j = Some y -> between g x y <> [] ->
    (forall e, In e (between g x y) -> exists z, ew e = Some z) ->
    exists c, edge_arc g true i j c /\
              (exists e, In e (between g x y) /\ ew e = Some c) /\
              (forall e z, In e (between g x y) -> ew e = Some z -> (c <= z)%Z) /\
              forall c', edge_arc g true i j c' -> c' = c.
  Proof.
    intros W Hx Hy Hne Hall. rewrite (between_stored g x y W) in *.
    destruct (adjw_is_minimum teqb tltb teqb_spec g x y W Hne Hall) as [z [Hz [Hin Hmin]]].
    exists z. split; [|split; [exact Hin|split; [exact Hmin|]]].
    - exists x, y. rewrite (between_stored g x y W). auto.
    - intros c' [x' [y' [Hx' [Hy' [_ Hc']]]]]. rewrite Hx in Hx'. rewrite Hy in Hy'.
      inversion Hx'; inversion Hy'; subst x' y'. rewrite (between_stored g x y W) in Hc'.
      cbn [cost_of] in Hc'. congruence.
  Qed.

  (* ---- the sign of the costs from the sign of the stored weights ---- *)
  Lemma edge_arc_nonneg (g : gstate) weighted :
    (weighted = true -> weights_nonneg g) -> a_nonneg (edge_arc g weighted).
  Proof.
    intros H i j c Ha. destruct weighted.
    - destruct (edge_arc_weight_in g i j c Ha) as [x [y [e [_ [_ [He Hw]]]]]].
      apply (H eq_refl e c); [eapply in_between; exact He | exact Hw].
    - rewrite (edge_arc_hop g i j c Ha). lia.
  Qed.

  Lemma edge_arc_positive (g : gstate) weighted :
    (weighted = true -> weights_positive g) -> a_positive (edge_arc g weighted).
  Proof.
    intros H i j c Ha. destruct weighted.
    - destruct (edge_arc_weight_in g i j c Ha) as [x [y [e [_ [_ [He Hw]]]]]].
      apply (H eq_refl e c); [eapply in_between; exact He | exact Hw].
    - rewrite (edge_arc_hop g i j c Ha). lia.
  Qed.

  Theorem WF_nonneg (g : gstate) weighted :
    WF g -> (weighted = true -> weights_nonneg g) -> nonneg (wgraph_of weighted (successors_vec g)).
  Proof.
    intros W H. destruct (traversal_graph_is_edge_store g weighted W) as [Hn Harc].
    apply (nonneg_rel _ _ Harc). apply edge_arc_nonneg. exact H.
  Qed.

  Theorem WF_positive (g : gstate) weighted :
    WF g -> (weighted = true -> weights_positive g) -> positive (wgraph_of weighted (successors_vec g)).
  Proof.
    intros W H. destruct (traversal_graph_is_edge_store g weighted W) as [Hn Harc].
    apply (positive_rel _ _ Harc). apply edge_arc_positive. exact H.
  Qed.

  (* the per-call statement over the adjacency list = over the arcs of the edge store *)
  Theorem result_ok_edge_store (g : gstate) weighted s t c fo wp r :
    WF g ->
    result_ok (wgraph_of weighted (successors_vec g)) s t c fo wp r <->
    a_result_ok (edge_arc g weighted) (number_of_nodes g) s t c fo wp r.
  Proof.
    intros W. destruct (traversal_graph_is_edge_store g weighted W) as [Hn Harc].
    apply result_ok_rel; assumption.
  Qed.

  (* ================================================================ end-to-end: every WF graph *)
  Notation n_of := number_of_nodes.

  Lemma Forall2_imp {X Y} (R1 R2 : X -> Y -> Prop) :
    (forall a b, R1 a b -> R2 a b) -> forall l l', Forall2 R1 l l' -> Forall2 R2 l l'.
  Proof. intros H l l' F. induction F; constructor; auto. Qed.

  Lemma Forall2_len {X Y} (R : X -> Y -> Prop) l l' : Forall2 R l l' -> length l = length l'.
  Proof. intros F. induction F; cbn; congruence. Qed.

  Lemma Forall2_in_l {X Y} (R : X -> Y -> Prop) l l' x :
    Forall2 R l l' -> In x l -> exists y, In y l' /\ R x y.
  Proof.
    intros F. induction F as [|a b l l' Hab F IH]; intros Hin; [destruct Hin|].
    destruct Hin as [<- | Hin]; [exists b; split; [left; reflexivity | exact Hab]|].
    destruct (IH Hin) as [y [Hy Hr]]. exists y. split; [right; exact Hy | exact Hr].
  Qed.

  Lemma Forall2_in_r {X Y} (R : X -> Y -> Prop) l l' y :
    Forall2 R l l' -> In y l' -> exists x, In x l /\ R x y.
  Proof.
    intros F. induction F as [|a b l l' Hab F IH]; intros Hin; [destruct Hin|].
    destruct Hin as [<- | Hin]; [exists a; split; [left; reflexivity | exact Hab]|].
    destruct (IH Hin) as [x [Hx Hr]]. exists x. split; [right; exact Hx | exact Hr].
  Qed.

  Lemma tr_info_names (g : gstate) i i' : WF g -> tr_info g i i' <-> info_names g i i'.
  Proof.
    intros W. unfold tr_info, info_names, names_of. split; intros [H1 H2]; (split; [exact H1|]);
      (eapply Forall2_imp; [|exact H2]); intros p p' Hp; (eapply Forall2_imp; [|exact Hp]); intros k x Hk; cbn beta in *.
    - rewrite <- (name_name_at g k W). exact Hk.
    - rewrite (name_name_at g k W). exact Hk.
  Qed.

  (* the hypotheses of the package-A theorems, from WF + the two premises of the property *)
  Lemma wf_search_hypotheses (g : gstate) weighted :
    WF g -> small_adj g -> (weighted = true -> weights_nonneg g) ->
    wf_adj g /\ names_wf teqb g /\ nonneg (wgraph_of weighted (successors_vec g)).
  Proof.
    intros W Hs Hw. split; [apply WF_wf_adj; assumption|]. split; [apply WF_names_wf; exact W|].
    apply WF_nonneg; assumption.
  Qed.

  (* ---- index level ---- *)
  Theorem wf_dijkstra_total (g : gstate) weighted src target cutoff fo wp :
    WF g -> small_adj g -> (weighted = true -> weights_nonneg g) ->
    cutoff_exceeded cutoff 0 = false -> (src < n_of g)%nat ->
    exists r, dijkstra g weighted src target cutoff fo wp = Ok r /\
              a_result_ok (edge_arc g weighted) (n_of g) src target cutoff fo wp (answer_of r).
  Proof.
    intros W Hs Hw Hc Hsrc. destruct (wf_search_hypotheses g weighted W Hs Hw) as [Ha [_ Hnn]].
    destruct (model_dijkstra_total T A g weighted src target cutoff fo wp Ha Hnn Hc Hsrc) as [r [Hr Hok]].
    exists r. split; [exact Hr|]. apply (result_ok_edge_store g weighted _ _ _ _ _ _ W). exact Hok.
  Qed.

  (* the per-source function all three entry points call (fast path or full algorithm) *)
  Theorem wf_run_from_index (g : gstate) weighted si (target : option T) ti cutoff fo wp :
    WF g -> small_adj g -> (weighted = true -> weights_nonneg g) ->
    (si < n_of g)%nat -> (target = None <-> ti = None) -> cutoff_exceeded cutoff 0 = false ->
    exists r, run_from_index g weighted si target ti cutoff fo wp = Ok r /\
              a_result_ok (edge_arc g weighted) (n_of g) si ti cutoff fo wp (answer_of r) /\
              forall k i, In (k, i) r -> (k < n_of g)%nat.
  Proof.
    intros W Hs Hw Hsi Hti Hc. destruct (wf_search_hypotheses g weighted W Hs Hw) as [Ha [_ Hnn]].
    destruct (run_from_index_ok g weighted Ha Hnn si target ti cutoff fo wp Hsi Hti Hc) as [r [Hr [Hok Hk]]].
    exists r. split; [exact Hr|]. split; [|exact Hk]. apply (result_ok_edge_store g weighted _ _ _ _ _ _ W). exact Hok.
  Qed.

  (* ---- single_source on node names ---- *)
  Theorem wf_single_source (g : gstate) weighted source target cutoff fo wp si :
    WF g -> small_adj g -> (weighted = true -> weights_nonneg g) ->
    name_at g si = Some source ->
    (forall t, target = Some t -> In t (names g)) ->
    cutoff_exceeded cutoff 0 = false ->
    exists m ti r,
      single_source teqb g weighted source target cutoff fo wp = Ok m /\
      match target with Some t => exists i, name_at g i = Some t /\ ti = Some i | None => ti = None end /\
      a_result_ok (edge_arc g weighted) (n_of g) si ti cutoff fo wp (answer_of r) /\
      (forall k i, In (k, i) r -> exists x i', name_at g k = Some x /\ info_names g i i' /\ lookup teqb x m = Some i') /\
      (forall x i', lookup teqb x m = Some i' -> exists k i, In (k, i) r /\ name_at g k = Some x /\ info_names g i i').
  Proof.
    intros W Hs Hw Hsrc Ht Hc. destruct (wf_search_hypotheses g weighted W Hs Hw) as [Ha [Hnm Hnn]].
    assert (Hl : lookup teqb source (nodes_map g) = Some si) by (apply (lookup_name_at g source si W); exact Hsrc).
    assert (Ht' : forall t, target = Some t -> exists i, lookup teqb t (nodes_map g) = Some i).
    { intros t E. apply (lookup_names g t W). apply Ht. exact E. }
    destruct (single_source_names_ok teqb teqb_spec g weighted Ha Hnm Hnn source target cutoff fo wp si Hl Ht' Hc)
      as [m [ti [r [Hm [Hti [Hok [A1 A2]]]]]]].
    exists m, ti, r. split; [exact Hm|]. split; [|split; [|split]].
    - destruct target as [t|]; [|exact Hti]. destruct Hti as [i [Hi ->]]. exists i.
      split; [apply (lookup_name_at g t i W); exact Hi | reflexivity].
    - apply (result_ok_edge_store g weighted _ _ _ _ _ _ W). exact Hok.
    - intros k i Hin. destruct (A1 k i Hin) as [x [i' [Hx [Htr Hlk]]]]. exists x, i'.
      split; [rewrite <- (name_name_at g k W); exact Hx|]. split; [apply (tr_info_names g i i' W); exact Htr | exact Hlk].
    - intros x i' Hlk. destruct (A2 x i' Hlk) as [k [i [Hin [Hx Htr]]]]. exists k, i.
      split; [exact Hin|]. split; [rewrite <- (name_name_at g k W); exact Hx | apply (tr_info_names g i i' W); exact Htr].
  Qed.

  (* ---- the same, read entirely on node names and the edge store ---- *)
  Lemma a_is_dist_unique (arc : nat -> nat -> Z -> Prop) n s t a b :
    a_is_dist arc n s t a -> a_is_dist arc n s t b -> a = b.
  Proof. intros [[p Hp] Ha] [[q Hq] Hb]. pose proof (Ha _ _ Hq). pose proof (Hb _ _ Hp). lia. Qed.

  Lemma name_at_inj (g : gstate) i j x : WF g -> name_at g i = Some x -> name_at g j = Some x -> i = j.
  Proof.
    intros W Hi Hj. pose proof (wf_nodup _ _ _ W) as Hnd. rewrite NoDup_nth_error in Hnd.
    unfold WFDefs.name_at in *. apply Hnd; [apply nth_error_Some; congruence | congruence].
  Qed.

  Theorem wf_single_source_answer (g : gstate) weighted source target cutoff fo wp si :
    WF g -> small_adj g -> (weighted = true -> weights_nonneg g) ->
    name_at g si = Some source ->
    (forall t, target = Some t -> In t (names g)) ->
    cutoff_exceeded cutoff 0 = false ->
    exists m,
      single_source teqb g weighted source target cutoff fo wp = Ok m /\
      (* every reported name is a node, reported with its exact distance and shortest paths *)
      (forall y info, lookup teqb y m = Some info ->
         exists j, name_at g j = Some y /\
           a_is_dist (edge_arc g weighted) (n_of g) si j (sp_distance info) /\
           within cutoff (sp_distance info) /\
           (wp = false -> sp_paths info = []) /\
           (forall p', In p' (sp_paths info) ->
              exists p, names_of g p p' /\ a_SP (edge_arc g weighted) (n_of g) si j p) /\
           (wp = true -> fo = true -> length (sp_paths info) = 1%nat) /\
           (wp = true -> fo = false -> a_positive (edge_arc g weighted) ->
              forall p, a_SP (edge_arc g weighted) (n_of g) si j p ->
                        exists p', In p' (sp_paths info) /\ names_of g p p')) /\
      (* every node within the cutoff (the target, when one is given) is reported *)
      (forall j y d, name_at g j = Some y ->
         a_is_dist (edge_arc g weighted) (n_of g) si j d -> within cutoff d ->
         (target = None \/ target = Some y) ->
         exists info, lookup teqb y m = Some info /\ sp_distance info = d).
  Proof.
    intros W Hs Hw Hsrc Ht Hc.
    destruct (wf_single_source g weighted source target cutoff fo wp si W Hs Hw Hsrc Ht Hc)
      as [m [ti [r [Hm [Hti [[Hnd [Hent Hrep]] [A1 A2]]]]]]].
    exists m. split; [exact Hm|]. split.
    - intros y info Hl. destruct (A2 y info Hl) as [k [i [Hin [Hk [Hdist Hpaths]]]]]. exists k. split; [exact Hk|].
      assert (Hin' : In (k, (sp_distance i, sp_paths i)) (answer_of r)).
      { unfold answer_of. apply in_map_iff. exists (k, i). auto. }
      specialize (Hent _ Hin'). cbn in Hent. destruct Hent as [Hd [Hwi [Hnp Hwp]]].
      rewrite Hdist. split; [exact Hd|]. split; [exact Hwi|]. split; [|split; [|split]].
      + intros Ewp. rewrite (Hnp Ewp) in Hpaths. inversion Hpaths. reflexivity.
      + intros p' Hp'. destruct (Forall2_in_r _ _ _ _ Hpaths Hp') as [p [Hp Hnames]]. exists p. split; [exact Hnames|].
        destruct wp; [|rewrite (Hnp eq_refl) in Hp; destruct Hp]. destruct (Hwp eq_refl) as [Hsp _]. apply Hsp. exact Hp.
      + intros Ewp Efo. destruct (Hwp Ewp) as [_ [Hone _]]. rewrite <- (Forall2_len _ _ _ Hpaths). apply Hone. exact Efo.
      + intros Ewp Efo Hpos p Hp. destruct (Hwp Ewp) as [_ [_ Hall]]. destruct (Hall Efo Hpos) as [_ Hcomp].
        destruct (Forall2_in_l _ _ _ _ Hpaths (Hcomp p Hp)) as [p' [Hp' Hnames]]. exists p'. auto.
    - intros j y d Hj Hd Hwi Htgt.
      assert (Hkey : In j (map fst (answer_of r))).
      { destruct Htgt as [-> | ->].
        - subst ti. eapply Hrep; eauto.
        - destruct Hti as [i0 [Hi0 ->]]. assert (i0 = j) by (eapply name_at_inj; eauto). subst i0. eapply Hrep; eauto. }
      rewrite answer_of_keys in Hkey. apply in_map_iff in Hkey. destruct Hkey as [[j' i] [E Hin]]. cbn in E. subst j'.
      destruct (A1 j i Hin) as [x [i' [Hx [[Hdist _] Hl]]]]. assert (x = y) by congruence. subst x.
      exists i'. split; [exact Hl|]. rewrite Hdist.
      assert (Hin' : In (j, (sp_distance i, sp_paths i)) (answer_of r)).
      { unfold answer_of. apply in_map_iff. exists (j, i). auto. }
      specialize (Hent _ Hin'). cbn in Hent. destruct Hent as [Hd' _]. eapply a_is_dist_unique; eauto.
  Qed.

  (* ---- collection into a map keyed by source name ---- *)
  Lemma collect_map_spec {V} (l : list (T * V)) :
    (forall s m m', In (s, m) l -> In (s, m') l -> m = m') ->
    forall s m, lookup teqb s (collect_map teqb l) = Some m <-> In (s, m) l.
  Proof.
    unfold collect_map. induction l as [|[k v] l IH] using rev_ind; intros Hf s m.
    - cbn. split; [discriminate | intros []].
    - rewrite fold_left_app. cbn [fold_left fst snd]. rewrite (AMapOk.lookup_insert teqb teqb_spec).
      assert (Hf' : forall s m m', In (s, m) l -> In (s, m') l -> m = m').
      { intros s0 m0 m0' H1 H2. apply (Hf s0); apply in_or_app; left; assumption. }
      destruct (teqb s k) eqn:E.
      + apply teqb_spec in E. subst k. split.
        * intros H. inversion H; subst. apply in_or_app. right. left. reflexivity.
        * intros Hin. f_equal. apply (Hf s); [apply in_or_app; right; left; reflexivity | exact Hin].
      + rewrite (IH Hf'). rewrite in_app_iff. split; [auto|]. intros [H|[H|[]]]; [exact H|].
        inversion H; subst. rewrite (proj2 (teqb_spec s s) eq_refl) in E. discriminate.
  Qed.

  Lemma in_names_iff (g : gstate) x : in_names teqb g x = true <-> In x (names g).
  Proof.
    unfold in_names, WFDefs.names. rewrite existsb_exists, in_map_iff.
    split; intros [nd [H1 H2]]; exists nd; [split; [apply teqb_spec; exact H2 | exact H1] | split; [exact H2 | apply teqb_spec; exact H1]].
  Qed.

  (* a list of per-key answers [l] related to a list of keys [ks] by "the entry's name
     is the key's name and its value is single_source of that name" collects into the map
     name |-> single_source name *)
  Lemma collect_single_source {K} (g : gstate) weighted target cutoff fo wp (key : K -> T -> Prop)
        (ks : list K) (l : list (T * list (T * spinfo T))) :
    (forall k a b, key k a -> key k b -> a = b) ->
    Forall2 (fun k sm => key k (fst sm) /\ single_source teqb g weighted (fst sm) target cutoff fo wp = Ok (snd sm)) ks l ->
    forall s m, lookup teqb s (collect_map teqb l) = Some m <->
                (exists k, In k ks /\ key k s) /\ single_source teqb g weighted s target cutoff fo wp = Ok m.
  Proof.
    intros Hfun F s m. rewrite collect_map_spec.
    - split.
      + intros Hin. destruct (Forall2_in_r _ _ _ _ F Hin) as [k [Hk [Hkey Hss]]]. cbn [fst snd] in *.
        split; [exists k; auto | exact Hss].
      + intros [[k [Hk Hkey]] Hss]. destruct (Forall2_in_l _ _ _ _ F Hk) as [[s' m'] [Hin [Hkey' Hss']]].
        cbn [fst snd] in *. assert (s' = s) by (eapply Hfun; eauto). subst s'.
        assert (m' = m) by congruence. subst m'. exact Hin.
    - intros s0 m0 m0' H1 H2.
      destruct (Forall2_in_r _ _ _ _ F H1) as [k1 [_ [_ Hs1]]]. destruct (Forall2_in_r _ _ _ _ F H2) as [k2 [_ [_ Hs2]]].
      cbn [fst snd] in *. congruence.
  Qed.

  (* ---- multi_source ---- *)
  Theorem wf_multi_source threads (g : gstate) weighted sources target cutoff fo wp :
    WF g -> small_adj g -> (weighted = true -> weights_nonneg g) ->
    (forall s, In s sources -> In s (names g)) ->
    (forall t, target = Some t -> In t (names g)) ->
    cutoff_exceeded cutoff 0 = false ->
    exists mm,
      multi_source teqb threads g weighted sources target cutoff fo wp = Ok mm /\
      forall s m, lookup teqb s mm = Some m <->
                  In s sources /\ single_source teqb g weighted s target cutoff fo wp = Ok m.
  Proof.
    intros W Hs Hw Hsrc Ht Hc. unfold multi_source.
    rewrite (has_nodes_spec teqb tltb teqb_spec g sources W).
    assert (Hall : forallb (in_names teqb g) sources = true).
    { apply forallb_forall. intros x Hx. apply in_names_iff. apply Hsrc. exact Hx. }
    rewrite Hall. cbn [bind negb].
    assert (Htb : match target with Some t => has_node teqb g t | None => Ok true end = Ok true).
    { destruct target as [t|]; [|reflexivity]. rewrite (has_node_spec teqb tltb teqb_spec g t W). f_equal.
      apply (in_names_iff g t). apply Ht. reflexivity. }
    rewrite Htb. cbn [bind negb].
    match goal with |- context [omapM ?f sources] => set (one := f) end.
    assert (Hl : exists l, omapM one sources = Ok l /\
                 Forall2 (fun k sm => k = fst sm /\ single_source teqb g weighted (fst sm) target cutoff fo wp = Ok (snd sm)) sources l).
    { clear Hall. induction sources as [|s ss IH]; [exists []; split; [reflexivity | constructor]|].
      destruct IH as [l [Hl F]]; [intros x Hx; apply Hsrc; right; exact Hx|].
      assert (Hsn : In s (names g)) by (apply Hsrc; left; reflexivity). apply name_at_In in Hsn. destruct Hsn as [si Hsi].
      destruct (wf_single_source g weighted s target cutoff fo wp si W Hs Hw Hsi Ht Hc) as [m [_ [_ [Hm _]]]].
      exists ((s, m) :: l). split; [|constructor; [split; [reflexivity | exact Hm] | exact F]].
      cbn [omapM]. unfold one at 1. rewrite Hm. cbn [unwrap_result bind]. rewrite Hl. reflexivity. }
    destruct Hl as [l [Hl F]].
    assert (Hif : (if parallel g threads then omapM one sources else omapM one sources) = Ok l)
      by (destruct (parallel g threads); exact Hl).
    rewrite Hif. cbn [bind]. exists (collect_map teqb l). split; [reflexivity|]. intros s m.
    rewrite (collect_single_source g weighted target cutoff fo wp (fun k x => k = x) sources l); [| |exact F].
    - split; [intros [[k [Hk ->]] H]; auto | intros [H1 H2]; split; [exists s; auto | exact H2]].
    - intros k a b -> ->. reflexivity.
  Qed.

  (* ---- all_pairs ---- *)
  Lemma per_index_single_source (g : gstate) weighted (target : option T) ti cutoff fo wp i :
    WF g -> small_adj g -> (weighted = true -> weights_nonneg g) ->
    match target with Some t => exists j, lookup teqb t (nodes_map g) = Some j /\ ti = Some j | None => ti = None end ->
    cutoff_exceeded cutoff 0 = false -> (i < n_of g)%nat ->
    exists x r m, name_at g i = Some x /\
      run_from_index g weighted i target ti cutoff fo wp = Ok r /\
      convert_shortest_path_info_vec_to_t_map teqb g r = Ok m /\
      single_source teqb g weighted x target cutoff fo wp = Ok m.
  Proof.
    intros W Hs Hw Hti Hc Hi. destruct (name_at_some g i Hi) as [x Hx].
    assert (Ht : forall t, target = Some t -> In t (names g)).
    { intros t ->. destruct Hti as [j [Hj _]]. apply name_at_In. exists j. apply (lookup_name_at g t j W). exact Hj. }
    destruct (wf_single_source g weighted x target cutoff fo wp i W Hs Hw Hx Ht Hc) as [m [_ [_ [Hm _]]]].
    destruct (single_source_unfold teqb g weighted x target cutoff fo wp m Hm) as [si [ti' [r [Hsi [Hti' [Hr Hcv]]]]]].
    assert (si = i).
    { unfold get_node_index in Hsi. rewrite (proj2 (lookup_name_at g x i W) Hx) in Hsi. inversion Hsi. reflexivity. }
    subst si.
    assert (ti' = ti).
    { destruct target as [t|]; [|congruence]. destruct Hti as [j [Hj ->]]. destruct Hti' as [j' [Hj' ->]].
      unfold get_node_index in Hj'. rewrite Hj in Hj'. inversion Hj'. reflexivity. }
    subst ti'. exists x, r, m. auto.
  Qed.

  Theorem wf_all_pairs threads (g : gstate) weighted target cutoff fo wp :
    WF g -> small_adj g -> (weighted = true -> weights_nonneg g) ->
    (weighted = true -> edges_have_weight g = true) ->
    (forall t, target = Some t -> In t (names g)) ->
    cutoff_exceeded cutoff 0 = false ->
    exists mm,
      all_pairs teqb threads g weighted target cutoff fo wp = Ok mm /\
      forall s m, lookup teqb s mm = Some m <->
                  In s (names g) /\ single_source teqb g weighted s target cutoff fo wp = Ok m.
  Proof.
    intros W Hs Hw Hew Ht Hc. unfold all_pairs.
    assert (H1 : (if weighted then ensure_weighted g else Ok tt) = Ok tt).
    { destruct weighted; [|reflexivity]. unfold ensure_weighted. rewrite (Hew eq_refl). reflexivity. }
    rewrite H1. cbn [bind].
    assert (Hti : exists ti, match target with
                             | Some t => exists j, lookup teqb t (nodes_map g) = Some j /\ ti = Some j
                             | None => ti = None end).
    { destruct target as [t|]; [|exists None; reflexivity]. destruct (lookup_names g t W (Ht t eq_refl)) as [j Hj].
      exists (Some j), j. auto. }
    destruct Hti as [ti Hti].
    assert (H2 : match target with Some t => do _ <- get_node_index teqb g t; Ok tt | None => Ok tt end = Ok tt).
    { destruct target as [t|]; [|reflexivity]. destruct Hti as [j [Hj _]]. unfold get_node_index. rewrite Hj. reflexivity. }
    rewrite H2. cbn [bind].
    assert (H3 : match target with
                 | Some t => do i <- unwrap_result "dijkstra.rs:153" (get_node_index teqb g t); Ok (Some i)
                 | None => Ok None end = Ok ti).
    { destruct target as [t|]; [|congruence]. destruct Hti as [j [Hj ->]]. unfold get_node_index. rewrite Hj. reflexivity. }
    unfold all_pairs_iter. rewrite H3. cbn [bind].
    match goal with |- context [omapM ?f (seq 0 (n_of g))] => set (F1 := f) end.
    set (F2 := fun sv : nat * list (nat * spinfo nat) =>
                 do source_name <- name_of_index "dijkstra.rs:132" g (fst sv);
                 do m <- convert_shortest_path_info_vec_to_t_map teqb g (snd sv);
                 Ok (source_name, m)).
    assert (Hl : forall ks, (forall k, In k ks -> (k < n_of g)%nat) ->
              exists vecs l, omapM F1 ks = Ok vecs /\ omapM F2 vecs = Ok l /\
                Forall2 (fun k sm => name_at g k = Some (fst sm) /\
                                     single_source teqb g weighted (fst sm) target cutoff fo wp = Ok (snd sm)) ks l).
    { induction ks as [|k ks IH]; intros Hks; [exists [], []; split; [reflexivity|]; split; [reflexivity | constructor]|].
      destruct IH as [vecs [l [Hv [Hl F]]]]; [intros k' Hk'; apply Hks; right; exact Hk'|].
      destruct (per_index_single_source g weighted target ti cutoff fo wp k W Hs Hw Hti Hc (Hks k (or_introl eq_refl)))
        as [x [r [m [Hx [Hr [Hcv Hm]]]]]].
      exists ((k, r) :: vecs), ((x, m) :: l). split; [|split].
      - cbn [omapM]. unfold F1 at 1. rewrite Hr. cbn [unwrap_result bind]. rewrite Hv. reflexivity.
      - cbn [omapM]. unfold F2 at 1. cbn [fst snd].
        rewrite (proj2 (name_of_index_name g "dijkstra.rs:132" k x)) by (rewrite (name_name_at g k W); exact Hx).
        cbn [bind]. rewrite Hcv. cbn [bind]. rewrite Hl. reflexivity.
      - constructor; [split; [exact Hx | exact Hm] | exact F]. }
    destruct (Hl (seq 0 (n_of g))) as [vecs [l [Hv [Hll F]]]]; [intros k Hk; apply in_seq in Hk; lia|].
    assert (Hif : (if parallel g threads then omapM F1 (seq 0 (n_of g)) else omapM F1 (seq 0 (n_of g))) = Ok vecs)
      by (destruct (parallel g threads); exact Hv).
    rewrite Hif. cbn [bind]. rewrite Hll. cbn [bind]. exists (collect_map teqb l). split; [reflexivity|]. intros s m.
    rewrite (collect_single_source g weighted target cutoff fo wp (fun k x => name_at g k = Some x) (seq 0 (n_of g)) l); [| |exact F].
    - split; intros [H H']; (split; [|exact H']).
      + destruct H as [k [_ Hk]]. apply name_at_In. exists k. exact Hk.
      + apply name_at_In in H. destruct H as [k Hk]. exists k. split; [|exact Hk].
        apply in_seq. pose proof (name_at_lt_n g k s Hk). lia.
    - intros k a b Ha Hb. congruence.
  Qed.

  Lemma all_pairs_unweighted_store threads (g : gstate) target cutoff fo wp :
    edges_have_weight g = false ->
    all_pairs teqb threads g true target cutoff fo wp = Err EdgeWeightNotSpecified.
  Proof. intros H. unfold all_pairs, ensure_weighted. rewrite H. reflexivity. Qed.

  (* ---- get_all_shortest_paths_involving ---- *)
  Theorem wf_involving threads (g : gstate) (x : T) weighted :
    WF g -> small_adj g -> (weighted = true -> weights_nonneg g) ->
    (weighted = true -> edges_have_weight g = true) ->
    exists pairs l,
      all_pairs teqb threads g weighted None None false true = Ok pairs /\
      get_all_shortest_paths_involving teqb threads g x weighted = Ok l /\
      forall spi, In spi l <->
        (exists s t, exists m, In (s, m) pairs /\ In (t, spi) m) /\
        exists p, In p (sp_paths spi) /\ inside x p.
  Proof.
    intros W Hs Hw Hew.
    destruct (wf_all_pairs threads g weighted None None false true W Hs Hw Hew) as [pairs [Hp _]];
      [discriminate | reflexivity|].
    assert (Hi : exists l, get_all_shortest_paths_involving teqb threads g x weighted = Ok l).
    { unfold get_all_shortest_paths_involving. rewrite Hp. eauto. }
    destruct Hi as [l Hl]. exists pairs, l. split; [exact Hp|]. split; [exact Hl|].
    apply (involving_spec teqb teqb_spec threads g x weighted l pairs Hp Hl).
  Qed.

  (* ================================================================ totality (C20): no Panic, no OutOfFuel *)

  (* index level, ANY weights (an Err ContradictoryPaths is a legal outcome with negative weights) *)
  Theorem wf_dijkstra_fine (g : gstate) weighted src target cutoff fo wp :
    WF g -> small_adj g -> (src < n_of g)%nat -> fine (dijkstra g weighted src target cutoff fo wp).
  Proof.
    intros W Hs Hsrc. pose proof (WF_wf_adj g W Hs) as Ha.
    apply (dijkstra_fine g weighted (wf_len g Ha) (wf_range g Ha) (wf_small g Ha) wp src target cutoff fo Hsrc).
  Qed.

  Theorem wf_dijkstra_basic_fine (g : gstate) weighted src :
    WF g -> small_adj g -> (src < n_of g)%nat -> fine (dijkstra_basic g weighted src).
  Proof.
    intros W Hs Hsrc. pose proof (WF_wf_adj g W Hs) as Ha.
    apply (dijkstra_basic_fine g weighted (wf_len g Ha) (wf_range g Ha) (wf_small g Ha) src Hsrc).
  Qed.

  Theorem wf_run_from_index_fine (g : gstate) weighted si (target : option T) ti cutoff fo wp :
    WF g -> small_adj g -> (si < n_of g)%nat -> fine (run_from_index g weighted si target ti cutoff fo wp).
  Proof.
    intros W Hs Hsi. unfold run_from_index. destruct (can_use_basic target cutoff fo wp);
      [apply wf_dijkstra_basic_fine | apply wf_dijkstra_fine]; assumption.
  Qed.

  (* every index an Ok answer mentions is a node index — whatever the weights *)
  Lemma dijkstra_basic_indexes (g : gstate) weighted src r :
    wf_adj g -> dijkstra_basic g weighted src = Ok r ->
    forall k i, In (k, i) r -> (k < n_of g)%nat /\ sp_paths i = [].
  Proof.
    intros Ha H k i Hin. pose proof (wf_len g Ha) as Hlen.
    unfold dijkstra_basic in H. apply bind_ok in H. destruct H as [s0 [H0 H]].
    apply bind_ok in H. destruct H as [s [Hloop H]]. unfold get_shortest_path_infos in H.
    destruct (infos_from_paths g Hlen _ _ _ _ _ H _ _ Hin) as [_ [Hn Hp]]. split; [|exact Hp].
    rewrite Nat.sub_0_r in Hn.
    assert (Hk : (k < length (d_dist s))%nat) by (apply nth_error_Some; congruence).
    unfold dijkstra_init in H0. apply bind_ok in H0. destruct H0 as [paths [Hps H0]].
    apply bind_ok in H0. destruct H0 as [seen [Hseen H0]]. inversion H0; subst s0. clear H0.
    apply set_at_ok in Hseen. apply set_at_ok in Hps.
    assert (Hsrc : (src < n_of g)%nat).
    { pose proof Hseen as Hlt. apply set_nth_lt in Hlt. rewrite repeat_length in Hlt. exact Hlt. }
    assert (Hsl : length seen = n_of g).
    { pose proof Hseen as Hl'. apply set_nth_length in Hl'. rewrite repeat_length in Hl'. exact Hl'. }
    assert (Hpl : length paths = n_of g).
    { pose proof Hps as Hl'. apply set_nth_length in Hl'. rewrite repeat_length in Hl'. exact Hl'. }
    set (s0 := mkd (repeat None (n_of g)) seen paths [mkfr src 0 0] 0) in *.
    assert (Sh0 : shape g true s0).
    { split; cbn; [apply repeat_length | exact Hsl | intros _; exact Hpl | | lia].
      intros it [<- | []]. exact Hsrc. }
    assert (Hp0 : pend (repeat None (n_of g)) (successors_vec g) = number_of_entries g).
    { rewrite <- Hlen. rewrite pend_init. reflexivity. }
    assert (B0 : budget g s0 0) by (unfold budget; cbn; rewrite Hp0; lia).
    destruct (basic_loop_fine g weighted Hlen (wf_range g Ha) (wf_small g Ha) true (dijkstra_fuel g) s0 Sh0 B0) as [_ R1].
    { cbn. rewrite Hp0. unfold dijkstra_fuel. lia. }
    rewrite <- (sh_d _ _ _ (R1 s Hloop)). exact Hk.
  Qed.

  Lemma run_from_index_indexes (g : gstate) weighted si (target : option T) ti cutoff fo wp r :
    wf_adj g -> run_from_index g weighted si target ti cutoff fo wp = Ok r ->
    forall k i, In (k, i) r ->
      (k < n_of g)%nat /\ forall p j, In p (sp_paths i) -> In j p -> (j < n_of g)%nat.
  Proof.
    intros Ha H k i Hin. unfold run_from_index in H. destruct (can_use_basic target cutoff fo wp).
    - destruct (dijkstra_basic_indexes g weighted si r Ha H k i Hin) as [Hk Hp]. split; [exact Hk|].
      intros p j Hpin. rewrite Hp in Hpin. destruct Hpin.
    - destruct (dijkstra_paths_sound g weighted si (wf_len g Ha) _ _ _ _ _ H k i Hin) as [[p0 Hw0] [Hps _]].
      split; [eapply (walk_end_lt g weighted Ha); exact Hw0|].
      intros p j Hp Hj. eapply (walk_nodes_lt g weighted Ha); [apply Hps; exact Hp | exact Hj].
  Qed.

  Lemma omapM_total {X Y} (f : X -> outcome Y) l :
    (forall x, In x l -> exists y, f x = Ok y) -> exists ys, omapM f l = Ok ys.
  Proof.
    induction l as [|x l IH]; intros H; cbn [omapM]; [eauto|].
    destruct (H x (or_introl eq_refl)) as [y Hy]. rewrite Hy. cbn [bind].
    destruct IH as [ys Hys]; [intros x' Hx'; apply H; right; exact Hx'|]. rewrite Hys. cbn [bind]. eauto.
  Qed.

  Lemma name_of_index_total (g : gstate) site j :
    names_wf teqb g -> (j < n_of g)%nat -> exists y, name_of_index site g j = Ok y.
  Proof.
    intros Hnm Hj. destruct (nw_rev teqb g Hnm j Hj) as [y [Hy _]]. exists y. apply (name_of_index_name g site j y). exact Hy.
  Qed.

  (* the index -> name conversion never panics on such an answer *)
  Lemma convert_total (g : gstate) r :
    names_wf teqb g ->
    (forall k i, In (k, i) r -> (k < n_of g)%nat /\ forall p j, In p (sp_paths i) -> In j p -> (j < n_of g)%nat) ->
    exists m, convert_shortest_path_info_vec_to_t_map teqb g r = Ok m.
  Proof.
    intros Hnm. unfold convert_shortest_path_info_vec_to_t_map. generalize (@nil (T * spinfo T)).
    induction r as [|[k i] r IH]; intros acc Hall; cbn [ofold]; [eauto|]. cbn [fst snd].
    destruct (Hall k i (or_introl eq_refl)) as [Hk Hp].
    destruct (name_of_index_total g "dijkstra.rs:694" k Hnm Hk) as [x ->]. cbn [bind].
    assert (Hci : exists i', convert_shortest_path_info_index_to_t g i = Ok i').
    { unfold convert_shortest_path_info_index_to_t.
      destruct (omapM_total (omapM (name_of_index "dijkstra.rs:671" g)) (sp_paths i)) as [ps ->]; [|cbn; eauto].
      intros p Hpin. apply omapM_total. intros j Hj. apply name_of_index_total; [exact Hnm | eapply Hp; eauto]. }
    destruct Hci as [i' ->]. cbn [bind]. apply IH. intros k0 i0 Hin. apply Hall. right. exact Hin.
  Qed.

  Lemma run_from_index_fine_adj (g : gstate) weighted si (target : option T) ti cutoff fo wp :
    wf_adj g -> (si < n_of g)%nat -> fine (run_from_index g weighted si target ti cutoff fo wp).
  Proof.
    intros Ha Hsi. unfold run_from_index. destruct (can_use_basic target cutoff fo wp).
    - apply (dijkstra_basic_fine g weighted (wf_len g Ha) (wf_range g Ha) (wf_small g Ha) si Hsi).
    - apply (dijkstra_fine g weighted (wf_len g Ha) (wf_range g Ha) (wf_small g Ha) wp si ti cutoff fo Hsi).
  Qed.

  (* single_source: ANY weights, ANY names (absent: Err NodeNotFound), ANY cutoff — from the two
     structural facts alone *)
  Theorem single_source_fine_adj (g : gstate) weighted source target cutoff fo wp :
    wf_adj g -> names_wf teqb g -> fine (single_source teqb g weighted source target cutoff fo wp).
  Proof.
    intros Ha Hnm.
    unfold single_source. apply fine_bind.
    - unfold get_node_index. destruct (lookup teqb source (nodes_map g)); exact I.
    - intros si Hsi. apply fine_bind.
      + destruct target as [t|]; [|exact I]. unfold get_node_index. destruct (lookup teqb t (nodes_map g)); exact I.
      + intros ti _. assert (Hlt : (si < n_of g)%nat).
        { unfold get_node_index in Hsi. destruct (lookup teqb source (nodes_map g)) as [j|] eqn:E; [|discriminate].
          inversion Hsi; subst j. apply (nw_map teqb g Hnm _ _ E). }
        apply fine_bind; [apply run_from_index_fine_adj; assumption|].
        intros r Hr. destruct (convert_total g r Hnm (run_from_index_indexes g weighted si target ti cutoff fo wp r Ha Hr)) as [m ->].
        exact I.
  Qed.

  Theorem wf_single_source_fine (g : gstate) weighted source target cutoff fo wp :
    WF g -> small_adj g -> fine (single_source teqb g weighted source target cutoff fo wp).
  Proof. intros W Hs. apply single_source_fine_adj; [apply WF_wf_adj; assumption | apply WF_names_wf; exact W]. Qed.

  (* the per-source call on names that are present, ANY weights: a value, or Err ContradictoryPaths —
     the only error left after the up-front name checks of multi_source / all_pairs *)
  Theorem single_source_present_cases (g : gstate) weighted source target cutoff fo wp :
    wf_adj g -> names_wf teqb g ->
    (exists si, lookup teqb source (nodes_map g) = Some si) ->
    (forall t, target = Some t -> exists i, lookup teqb t (nodes_map g) = Some i) ->
    (exists m, single_source teqb g weighted source target cutoff fo wp = Ok m) \/
    single_source teqb g weighted source target cutoff fo wp = Err ContradictoryPaths.
  Proof.
    intros Ha Hnm [si Hsi] Ht. pose proof (single_source_fine_adj g weighted source target cutoff fo wp Ha Hnm) as F.
    destruct (single_source teqb g weighted source target cutoff fo wp) as [m|k| |] eqn:E; cbn in F; try contradiction.
    - left. eauto.
    - right. f_equal. eapply (single_source_err_present teqb); eauto.
  Qed.

  (* multi_source / all_pairs collect the per-source `Result`s and propagate the error with `?`
     (repair of F22; they used to `.unwrap()` it), get_all_shortest_paths_involving maps an `Err` of
     all_pairs to the empty vector: totality for ANY weights, ANY names, ANY cutoff.  With a negative
     weight the outcome may be Err ContradictoryPaths ([negative_weights_err]) — never a panic. *)
  Lemma fine_omapM {X Y} (f : X -> outcome Y) l : (forall x, In x l -> fine (f x)) -> fine (omapM f l).
  Proof.
    induction l as [|x l IH]; intros H; cbn [omapM]; [exact I|].
    apply fine_bind; [apply H; left; reflexivity|]. intros y _.
    apply fine_bind; [apply IH; intros x' Hx'; apply H; right; exact Hx'|]. intros ys _. exact I.
  Qed.

  Theorem wf_multi_source_fine threads (g : gstate) weighted sources target cutoff fo wp :
    WF g -> small_adj g -> fine (multi_source teqb threads g weighted sources target cutoff fo wp).
  Proof.
    intros W Hs. unfold multi_source. rewrite (has_nodes_spec teqb tltb teqb_spec g sources W). cbn [bind].
    destruct (forallb (in_names teqb g) sources); cbn [negb]; [|exact I].
    apply fine_bind.
    - destruct target as [t|]; [|exact I]. rewrite (has_node_spec teqb tltb teqb_spec g t W). exact I.
    - intros tb _. destruct (negb tb); [exact I|].
      apply fine_bind; [|intros l _; exact I].
      assert (F : forall one : T -> outcome (T * list (T * spinfo T)),
                 (forall s, fine (one s)) -> fine (if parallel g threads then omapM one sources else omapM one sources)).
      { intros one H. destruct (parallel g threads); apply fine_omapM; intros s _; apply H. }
      apply F. intros s. apply fine_bind; [apply wf_single_source_fine; assumption | intros m _; exact I].
  Qed.

  Theorem wf_all_pairs_fine threads (g : gstate) weighted target cutoff fo wp :
    WF g -> small_adj g -> fine (all_pairs teqb threads g weighted target cutoff fo wp).
  Proof.
    intros W Hs. pose proof (WF_wf_adj g W Hs) as Ha. pose proof (WF_names_wf g W) as Hnm.
    unfold all_pairs. apply fine_bind.
    { destruct weighted; [|exact I]. unfold ensure_weighted. destruct (edges_have_weight g); exact I. }
    intros _u _. 
    assert (Hcore : forall ti,
              match target with
              | Some t => exists j, lookup teqb t (nodes_map g) = Some j /\ ti = Some j
              | None => ti = None end ->
              fine (do vecs <- (if parallel g threads
                                then all_pairs_iter teqb g weighted target cutoff fo wp
                                else all_pairs_iter teqb g weighted target cutoff fo wp);
                    do l <- omapM (fun sv => do source_name <- name_of_index "dijkstra.rs:132" g (fst sv);
                                             do m <- convert_shortest_path_info_vec_to_t_map teqb g (snd sv);
                                             Ok (source_name, m)) vecs;
                    Ok (collect_map teqb l))).
    { intros ti Hti.
      assert (Hif : (if parallel g threads
                     then all_pairs_iter teqb g weighted target cutoff fo wp
                     else all_pairs_iter teqb g weighted target cutoff fo wp) =
                    all_pairs_iter teqb g weighted target cutoff fo wp) by (destruct (parallel g threads); reflexivity).
      rewrite Hif. unfold all_pairs_iter.
      assert (H3 : match target with
                   | Some t => do i <- unwrap_result "dijkstra.rs:153" (get_node_index teqb g t); Ok (Some i)
                   | None => Ok None end = Ok ti).
      { destruct target as [t|]; [|congruence]. destruct Hti as [j [Hj ->]]. unfold get_node_index. rewrite Hj. reflexivity. }
      rewrite H3. cbn [bind].
      match goal with |- context [omapM ?f (seq 0 (n_of g))] => set (F1 := f) end.
      apply fine_bind.
      - apply fine_omapM. intros k Hk. apply in_seq in Hk. unfold F1.
        apply fine_bind; [apply run_from_index_fine_adj; [exact Ha | lia] | intros r _; exact I].
      - intros vecs Hv. apply fine_bind; [|intros l _; exact I].
        apply fine_omapM. intros [k r] Hin. cbn [fst snd].
        destruct (Forall2_in_r _ _ _ _ (omapM_ok _ _ F1 _ _ Hv) Hin) as [k' [Hk' Hone]].
        apply in_seq in Hk'. unfold F1 in Hone. apply bind_ok in Hone. destruct Hone as [r' [Hr' E]].
        inversion E; subst k' r'. clear E.
        destruct (name_of_index_total g "dijkstra.rs:132" k Hnm ltac:(lia)) as [x ->]. cbn [bind].
        destruct (convert_total g r Hnm (run_from_index_indexes g weighted k target ti cutoff fo wp r Ha Hr')) as [m ->].
        exact I. }
    destruct target as [t|].
    - unfold get_node_index. destruct (lookup teqb t (nodes_map g)) as [j|] eqn:E; cbn [bind]; [|exact I].
      apply (Hcore (Some j)). exists j. auto.
    - cbn [bind]. apply (Hcore None). reflexivity.
  Qed.

  (* no error channel (returns a Vec): `match all_pairs(..) { Err(_) => vec![], Ok(pairs) => .. }` —
     an Err of all_pairs (EdgeWeightNotSpecified, ContradictoryPaths) becomes the empty vector *)
  Theorem wf_involving_fine threads (g : gstate) (x : T) weighted :
    WF g -> small_adj g ->
    exists l, get_all_shortest_paths_involving teqb threads g x weighted = Ok l.
  Proof.
    intros W Hs. pose proof (wf_all_pairs_fine threads g weighted None None false true W Hs) as F.
    unfold get_all_shortest_paths_involving.
    destruct (all_pairs teqb threads g weighted None None false true); cbn in F; try contradiction; eauto.
  Qed.

  Lemma involving_of_err threads (g : gstate) (x : T) weighted k :
    all_pairs teqb threads g weighted None None false true = Err k ->
    get_all_shortest_paths_involving teqb threads g x weighted = Ok [].
  Proof. intros H. unfold get_all_shortest_paths_involving. rewrite H. reflexivity. Qed.

  (* ================================================================ the entry points agree, ANY weights
     (C08 including the Err case): on a WF graph, with names that exist, multi_source / all_pairs return
     EITHER the map of the per-source answers (every per-source call returned Ok) OR
     Err ContradictoryPaths, and then some per-source call returns exactly that error; nothing else. *)
  Theorem wf_multi_source_any threads (g : gstate) weighted sources target cutoff fo wp :
    WF g -> small_adj g ->
    (forall s, In s sources -> In s (names g)) ->
    (forall t, target = Some t -> In t (names g)) ->
    (exists mm,
       multi_source teqb threads g weighted sources target cutoff fo wp = Ok mm /\
       (forall s, In s sources -> exists m, single_source teqb g weighted s target cutoff fo wp = Ok m) /\
       forall s m, lookup teqb s mm = Some m <->
                   In s sources /\ single_source teqb g weighted s target cutoff fo wp = Ok m) \/
    (multi_source teqb threads g weighted sources target cutoff fo wp = Err ContradictoryPaths /\
     exists s, In s sources /\ single_source teqb g weighted s target cutoff fo wp = Err ContradictoryPaths).
  Proof.
    intros W Hs Hsrc Ht. pose proof (WF_wf_adj g W Hs) as Ha. pose proof (WF_names_wf g W) as Hnm.
    assert (Ht' : forall t, target = Some t -> exists i, lookup teqb t (nodes_map g) = Some i).
    { intros t E. apply (lookup_names g t W). apply Ht. exact E. }
    unfold multi_source.
    rewrite (has_nodes_spec teqb tltb teqb_spec g sources W).
    assert (Hall : forallb (in_names teqb g) sources = true).
    { apply forallb_forall. intros x Hx. apply in_names_iff. apply Hsrc. exact Hx. }
    rewrite Hall. cbn [bind negb].
    assert (Htb : match target with Some t => has_node teqb g t | None => Ok true end = Ok true).
    { destruct target as [t|]; [|reflexivity]. rewrite (has_node_spec teqb tltb teqb_spec g t W). f_equal.
      apply (in_names_iff g t). apply Ht. reflexivity. }
    rewrite Htb. cbn [bind negb].
    match goal with |- context [omapM ?f sources] => set (one := f) end.
    assert (Hl : (exists l, omapM one sources = Ok l /\
                   Forall2 (fun k sm => k = fst sm /\ single_source teqb g weighted (fst sm) target cutoff fo wp = Ok (snd sm)) sources l) \/
                 (omapM one sources = Err ContradictoryPaths /\
                  exists s, In s sources /\ single_source teqb g weighted s target cutoff fo wp = Err ContradictoryPaths)).
    { clear Hall. induction sources as [|s ss IH]; [left; exists []; split; [reflexivity | constructor]|].
      assert (Hsl : exists si, lookup teqb s (nodes_map g) = Some si)
        by (apply (lookup_names g s W); apply Hsrc; left; reflexivity).
      cbn [omapM]. unfold one at 1 3.
      destruct (single_source_present_cases g weighted s target cutoff fo wp Ha Hnm Hsl Ht') as [[m Hm] | He].
      - rewrite Hm. cbn [bind].
        destruct IH as [[l [Hl F]] | [He [s' [Hs' He']]]]; [intros x Hx; apply Hsrc; right; exact Hx | |].
        + left. exists ((s, m) :: l). rewrite Hl. split; [reflexivity|]. constructor; [split; [reflexivity | exact Hm] | exact F].
        + right. rewrite He. split; [reflexivity|]. exists s'. split; [right; exact Hs' | exact He'].
      - right. rewrite He. split; [reflexivity|]. exists s. split; [left; reflexivity | exact He]. }
    assert (Hif : (if parallel g threads then omapM one sources else omapM one sources) = omapM one sources)
      by (destruct (parallel g threads); reflexivity).
    rewrite Hif. destruct Hl as [[l [Hl F]] | [He Hw]].
    - left. rewrite Hl. cbn [bind]. exists (collect_map teqb l). split; [reflexivity|]. split.
      + intros s Hin. destruct (Forall2_in_l _ _ _ _ F Hin) as [[s' m] [_ [E Hm]]]. cbn [fst snd] in *. subst s'. eauto.
      + intros s m.
        rewrite (collect_single_source g weighted target cutoff fo wp (fun k x => k = x) sources l); [| |exact F].
        * split; [intros [[k [Hk ->]] H]; auto | intros [H1 H2]; split; [exists s; auto | exact H2]].
        * intros k a b -> ->. reflexivity.
    - right. rewrite He. split; [reflexivity | exact Hw].
  Qed.

  Lemma per_index_any (g : gstate) weighted (target : option T) ti cutoff fo wp i :
    WF g -> small_adj g ->
    match target with Some t => exists j, lookup teqb t (nodes_map g) = Some j /\ ti = Some j | None => ti = None end ->
    (i < n_of g)%nat ->
    exists x, name_at g i = Some x /\
      ((exists r m, run_from_index g weighted i target ti cutoff fo wp = Ok r /\
                    convert_shortest_path_info_vec_to_t_map teqb g r = Ok m /\
                    single_source teqb g weighted x target cutoff fo wp = Ok m) \/
       (run_from_index g weighted i target ti cutoff fo wp = Err ContradictoryPaths /\
        single_source teqb g weighted x target cutoff fo wp = Err ContradictoryPaths)).
  Proof.
    intros W Hs Hti Hi. pose proof (WF_wf_adj g W Hs) as Ha. pose proof (WF_names_wf g W) as Hnm.
    destruct (name_at_some g i Hi) as [x Hx]. exists x. split; [exact Hx|].
    pose proof (proj2 (lookup_name_at g x i W) Hx) as Hl.
    assert (Hss : single_source teqb g weighted x target cutoff fo wp =
                  do r <- run_from_index g weighted i target ti cutoff fo wp;
                  convert_shortest_path_info_vec_to_t_map teqb g r).
    { unfold single_source, get_node_index. rewrite Hl. cbn [bind].
      destruct target as [t|]; [destruct Hti as [j [Hj ->]]; rewrite Hj | subst ti]; reflexivity. }
    pose proof (run_from_index_fine_adj g weighted i target ti cutoff fo wp Ha Hi) as F.
    destruct (run_from_index g weighted i target ti cutoff fo wp) as [r|k| |] eqn:E; cbn in F; try contradiction.
    - left. destruct (convert_total g r Hnm (run_from_index_indexes g weighted i target ti cutoff fo wp r Ha E)) as [m Hm].
      exists r, m. split; [reflexivity|]. split; [exact Hm|]. rewrite Hss. cbn [bind]. exact Hm.
    - right. assert (k = ContradictoryPaths) by (eapply run_from_index_err; eauto). subst k.
      split; [reflexivity|]. rewrite Hss. reflexivity.
  Qed.

  Theorem wf_all_pairs_any threads (g : gstate) weighted target cutoff fo wp :
    WF g -> small_adj g ->
    (weighted = true -> edges_have_weight g = true) ->
    (forall t, target = Some t -> In t (names g)) ->
    (exists mm,
       all_pairs teqb threads g weighted target cutoff fo wp = Ok mm /\
       (forall s, In s (names g) -> exists m, single_source teqb g weighted s target cutoff fo wp = Ok m) /\
       forall s m, lookup teqb s mm = Some m <->
                   In s (names g) /\ single_source teqb g weighted s target cutoff fo wp = Ok m) \/
    (all_pairs teqb threads g weighted target cutoff fo wp = Err ContradictoryPaths /\
     exists s, In s (names g) /\ single_source teqb g weighted s target cutoff fo wp = Err ContradictoryPaths).
  Proof.
    intros W Hs Hew Ht. pose proof (WF_names_wf g W) as Hnm. unfold all_pairs.
    assert (H1 : (if weighted then ensure_weighted g else Ok tt) = Ok tt).
    { destruct weighted; [|reflexivity]. unfold ensure_weighted. rewrite (Hew eq_refl). reflexivity. }
    rewrite H1. cbn [bind].
    assert (Hti : exists ti, match target with
                             | Some t => exists j, lookup teqb t (nodes_map g) = Some j /\ ti = Some j
                             | None => ti = None end).
    { destruct target as [t|]; [|exists None; reflexivity]. destruct (lookup_names g t W (Ht t eq_refl)) as [j Hj].
      exists (Some j), j. auto. }
    destruct Hti as [ti Hti].
    assert (H2 : match target with Some t => do _ <- get_node_index teqb g t; Ok tt | None => Ok tt end = Ok tt).
    { destruct target as [t|]; [|reflexivity]. destruct Hti as [j [Hj _]]. unfold get_node_index. rewrite Hj. reflexivity. }
    rewrite H2. cbn [bind].
    assert (H3 : match target with
                 | Some t => do i <- unwrap_result "dijkstra.rs:153" (get_node_index teqb g t); Ok (Some i)
                 | None => Ok None end = Ok ti).
    { destruct target as [t|]; [|congruence]. destruct Hti as [j [Hj ->]]. unfold get_node_index. rewrite Hj. reflexivity. }
    unfold all_pairs_iter. rewrite H3. cbn [bind].
    match goal with |- context [omapM ?f (seq 0 (n_of g))] => set (F1 := f) end.
    set (F2 := fun sv : nat * list (nat * spinfo nat) =>
                 do source_name <- name_of_index "dijkstra.rs:132" g (fst sv);
                 do m <- convert_shortest_path_info_vec_to_t_map teqb g (snd sv);
                 Ok (source_name, m)).
    assert (Hl : forall ks, (forall k, In k ks -> (k < n_of g)%nat) ->
              (exists vecs l, omapM F1 ks = Ok vecs /\ omapM F2 vecs = Ok l /\
                Forall2 (fun k sm => name_at g k = Some (fst sm) /\
                                     single_source teqb g weighted (fst sm) target cutoff fo wp = Ok (snd sm)) ks l) \/
              (omapM F1 ks = Err ContradictoryPaths /\
               exists k x, In k ks /\ name_at g k = Some x /\
                           single_source teqb g weighted x target cutoff fo wp = Err ContradictoryPaths)).
    { induction ks as [|k ks IH]; intros Hks; [left; exists [], []; split; [reflexivity|]; split; [reflexivity | constructor]|].
      destruct (per_index_any g weighted target ti cutoff fo wp k W Hs Hti (Hks k (or_introl eq_refl)))
        as [x [Hx [[r [m [Hr [Hcv Hm]]]] | [Hr He]]]].
      - destruct IH as [[vecs [l [Hv [Hl F]]]] | [Hv [k' [x' [Hk' [Hx' He']]]]]]; [intros k' Hk'; apply Hks; right; exact Hk' | |].
        + left. exists ((k, r) :: vecs), ((x, m) :: l). split; [|split].
          * cbn [omapM]. unfold F1 at 1. rewrite Hr. cbn [bind]. rewrite Hv. reflexivity.
          * cbn [omapM]. unfold F2 at 1. cbn [fst snd].
            rewrite (proj2 (name_of_index_name g "dijkstra.rs:132" k x)) by (rewrite (name_name_at g k W); exact Hx).
            cbn [bind]. rewrite Hcv. cbn [bind]. rewrite Hl. reflexivity.
          * constructor; [split; [exact Hx | exact Hm] | exact F].
        + right. split.
          * cbn [omapM]. unfold F1 at 1. rewrite Hr. cbn [bind]. rewrite Hv. reflexivity.
          * exists k', x'. split; [right; exact Hk' | auto].
      - right. split.
        + cbn [omapM]. unfold F1 at 1. rewrite Hr. reflexivity.
        + exists k, x. split; [left; reflexivity | auto]. }
    assert (Hif : forall Z0 (a : outcome Z0), (if parallel g threads then a else a) = a)
      by (intros Z0 a; destruct (parallel g threads); reflexivity).
    rewrite Hif.
    destruct (Hl (seq 0 (n_of g))) as [[vecs [l [Hv [Hll F]]]] | [Hv [k [x [Hk [Hx He]]]]]]; [intros k Hk; apply in_seq in Hk; lia | |].
    - left. rewrite Hv. cbn [bind]. fold F2. rewrite Hll. cbn [bind]. exists (collect_map teqb l). split; [reflexivity|].
      assert (Hchar : forall s m, lookup teqb s (collect_map teqb l) = Some m <->
                        In s (names g) /\ single_source teqb g weighted s target cutoff fo wp = Ok m).
      { intros s m.
        rewrite (collect_single_source g weighted target cutoff fo wp (fun k x => name_at g k = Some x) (seq 0 (n_of g)) l); [| |exact F].
        - split; intros [H H']; (split; [|exact H']).
          + destruct H as [k [_ Hk]]. apply name_at_In. exists k. exact Hk.
          + apply name_at_In in H. destruct H as [k Hk]. exists k. split; [|exact Hk].
            apply in_seq. pose proof (name_at_lt_n g k s Hk). lia.
        - intros k a b Ha' Hb. congruence. }
      split; [|exact Hchar].
      intros s Hin. apply name_at_In in Hin. destruct Hin as [k Hk].
      assert (Hkin : In k (seq 0 (n_of g))) by (apply in_seq; pose proof (name_at_lt_n g k s Hk); lia).
      destruct (Forall2_in_l _ _ _ _ F Hkin) as [[s' m] [_ [Hs' Hm]]]. cbn [fst snd] in *.
      assert (s' = s) by congruence. subst s'. eauto.
    - right. rewrite Hv. split; [reflexivity|]. exists x. split; [apply name_at_In; exists k; exact Hx | exact He].
  Qed.

  (* ---- executable forms of the two premises, for concrete graphs ---- *)
  Lemma weights_nonneg_b_sound (g : gstate) : weights_nonneg_b g = true -> weights_nonneg g.
  Proof.
    unfold weights_nonneg_b, weights_nonneg. rewrite forallb_forall. intros H e z He Hz.
    specialize (H e He). rewrite Hz in H. apply Z.leb_le. exact H.
  Qed.
End DijkstraWF.

