(* Non-vacuity of the end-to-end shortest-path theorems (Proofs/DijkstraWF.v) on a graph
   built by a history, and what the entry points do on a graph with a negative weight
   (the Err of the per-source search is propagated, never unwrapped: F22). *)
From Coq Require Import String List Bool ZArith QArith Arith Lia.
From GV Require Import Base.Outcome Base.AMap Model.GState Model.Creation Model.Query Model.Dijkstra.
From GV Require Import Spec.History Spec.EdgeStoreGraph Proofs.WFDefs Proofs.HistoryOk Proofs.DijkstraModelOk Proofs.DijkstraWF.
Import ListNotations.
Open Scope string_scope.

(* ------------------------------------------------------------------ non-vacuity *)
Lemma Zeqb_spec : forall x y : Z, Z.eqb x y = true <-> x = y.
Proof. exact Z.eqb_eq. Qed.
Lemma Zltb_asym : forall x y : Z, Z.ltb x y = true -> Z.ltb y x = false.
Proof. intros x y H. apply Z.ltb_lt in H. apply Z.ltb_ge. lia. Qed.
Lemma Zltb_total : forall x y : Z, Z.ltb x y = false -> Z.ltb y x = false -> x = y.
Proof. intros x y H1 H2. apply Z.ltb_ge in H1. apply Z.ltb_ge in H2. lia. Qed.

(* the example graph of DijkstraModelOk.v ([ex_state]: built by the transcribed
   constructor, i.e. by a history of add_node / add_edge calls) meets every hypothesis of
   the end-to-end theorems: it is WF because it is reachable, it is small, its stored
   weights are non-negative and all present, and the entry points return answers on it *)
Definition ex_g : gstate Z Z := match ex_state with Ok g => g | _ => new ex_specs end.

Lemma ex_g_built :
  new_from_nodes_and_edges Z.eqb Z.ltb [mknode 5 None; mknode 3 None]
    [mkedge 5 3 (Some 1) None; mkedge 3 7 (Some 2) None; mkedge 5 7 (Some 3) None;
     mkedge 7 1 (Some 1) None; mkedge 7 7 (Some 0) None] ex_specs = Ok ex_g.
Proof. vm_compute. reflexivity. Qed.

Lemma ex_g_reachable : reachable Z.eqb Z.ltb ex_specs ex_g.
Proof. exact (new_from_reachable Z.eqb Z.ltb Zeqb_spec _ _ _ _ ex_g_built). Qed.

Lemma ex_g_WF : WF Z.eqb Z.ltb ex_g.
Proof. exact (WF_reachable Z.eqb Z.ltb Zeqb_spec Zltb_asym Zltb_total _ _ ex_g_reachable). Qed.

Example reachable_hypotheses_nonvacuous :
  reachable Z.eqb Z.ltb ex_specs ex_g /\ WF Z.eqb Z.ltb ex_g /\
  small_adj ex_g /\ weights_nonneg ex_g /\ edges_have_weight ex_g = true /\
  name_at ex_g 0 = Some 5%Z /\ In 1%Z (names ex_g) /\
  (exists m, single_source Z.eqb ex_g true 5%Z (Some 1%Z) (Some (9 # 2)%Q) false true = Ok m /\ length m = 4%nat) /\
  (exists mm, multi_source Z.eqb 1 ex_g true [3%Z; 5%Z] None None false true = Ok mm /\ length mm = 2%nat) /\
  (exists mm, all_pairs Z.eqb 1 ex_g true None None false true = Ok mm /\ length mm = 4%nat).
Proof.
  split; [exact ex_g_reachable|]. split; [exact ex_g_WF|].
  split; [vm_compute; reflexivity|]. split; [apply weights_nonneg_b_sound; vm_compute; reflexivity|].
  split; [vm_compute; reflexivity|]. split; [vm_compute; reflexivity|]. split; [vm_compute; tauto|].
  split; [|split]; vm_compute; eexists; split; reflexivity.
Qed.

(* a negative weight (F22's graph: directed 1->2 (1), 1->3 (2), 3->2 (-5), weighted): the per-source
   search from 1 returns ContradictoryPaths; single_source, multi_source and all_pairs all return it
   through their error channel (before the repair of F22 the last two panicked: `.unwrap()` of the
   per-source Result at dijkstra.rs:376 / :172); get_all_shortest_paths_involving, which has no error
   channel, maps the Err of all_pairs to the empty vector.  The graph is reachable, hence WF, and small:
   the totality theorems apply to it non-vacuously with a weight that is not "valid". *)
Definition ex_neg_g : gstate Z Z :=
  match ex_neg with Ok g => g | _ => new (mkspecs true DKeepLast MCreate false true SDrop) end.

Lemma ex_neg_built : ex_neg = Ok ex_neg_g.
Proof. vm_compute. reflexivity. Qed.

Lemma ex_neg_WF : WF Z.eqb Z.ltb ex_neg_g.
Proof.
  exact (WF_reachable Z.eqb Z.ltb Zeqb_spec Zltb_asym Zltb_total _ _
           (new_from_reachable Z.eqb Z.ltb Zeqb_spec _ _ _ _ ex_neg_built)).
Qed.

Example negative_weights_err :
  match ex_neg with
  | Ok g =>
    WF Z.eqb Z.ltb g /\ small_adj g /\ ~ weights_nonneg g /\
    single_source Z.eqb g true 1%Z None None false true = Err ContradictoryPaths /\
    multi_source Z.eqb 1 g true [1%Z] None None false true = Err ContradictoryPaths /\
    multi_source Z.eqb 1 g true [2%Z; 1%Z; 3%Z] None None false true = Err ContradictoryPaths /\
    all_pairs Z.eqb 1 g true None None false true = Err ContradictoryPaths /\
    get_all_shortest_paths_involving Z.eqb 1 g 3%Z true = Ok [] /\
    (* hop count ignores the weights: every entry point answers *)
    (exists mm, all_pairs Z.eqb 1 g false None None false true = Ok mm /\ length mm = 3%nat)
  | _ => False
  end.
Proof.
  rewrite ex_neg_built. split; [exact ex_neg_WF|]. split; [vm_compute; reflexivity|]. split.
  { intros H. assert (C : (0 <= -5)%Z); [|lia].
    apply (H (mkedge 3%Z 2%Z (Some (-5)%Z) None) (-5)%Z); [vm_compute; tauto | reflexivity]. }
  vm_compute. repeat split. eexists. split; reflexivity.
Qed.
