(* Non-vacuity of the end-to-end shortest-path theorems (Proofs/DijkstraWF.v) on a graph
   built by a history, and the reason why multi_source / all_pairs need non-negative
   weights for totality. *)
From Coq Require Import String List Bool ZArith QArith Arith Lia.
From GV Require Import Base.Outcome Base.AMap Model.GState Model.Creation Model.Query Model.Dijkstra.
From GV Require Import Spec.History Spec.EdgeStoreGraph Proofs.WFDefs Proofs.HistoryOk Proofs.DijkstraModelOk Proofs.DijkstraWF.
Import ListNotations.
Open Scope string_scope.

(* ------------------------------------------------------------------ non-vacuity *)
Lemma Zeqb_spec : forall x y : Z, Z.eqb x y = true <-> x = y.
Proof. exact Z.eqb_eq. Qed.
Lemma Zltb_asym : forall x y : Z, Z.ltb x y = true -> Z.ltb y x = false.
Proof. intros x y H. apply Z.ltb_lt in H. apply Z.ltb_ge. lia. Qed.
Lemma Zltb_total : forall x y : Z, Z.ltb x y = false -> Z.ltb y x = false -> x = y.
Proof. intros x y H1 H2. apply Z.ltb_ge in H1. apply Z.ltb_ge in H2. lia. Qed.

(* the example graph of DijkstraModelOk.v ([ex_state]: built by the transcribed
   constructor, i.e. by a history of add_node / add_edge calls) meets every hypothesis of
   the end-to-end theorems: it is WF because it is reachable, it is small, its stored
   weights are non-negative and all present, and the entry points return answers on it *)
Definition ex_g : gstate Z Z := match ex_state with Ok g => g | _ => new ex_specs end.

Lemma ex_g_built :
  new_from_nodes_and_edges Z.eqb Z.ltb [mknode 5 None; mknode 3 None]
    [mkedge 5 3 (Some 1) None; mkedge 3 7 (Some 2) None; mkedge 5 7 (Some 3) None;
     mkedge 7 1 (Some 1) None; mkedge 7 7 (Some 0) None] ex_specs = Ok ex_g.
Proof. vm_compute. reflexivity. Qed.

Lemma ex_g_reachable : reachable Z.eqb Z.ltb ex_specs ex_g.
Proof. exact (new_from_reachable Z.eqb Z.ltb Zeqb_spec _ _ _ _ ex_g_built). Qed.

Lemma ex_g_WF : WF Z.eqb Z.ltb ex_g.
Proof. exact (WF_reachable Z.eqb Z.ltb Zeqb_spec Zltb_asym Zltb_total _ _ ex_g_reachable). Qed.

Example reachable_hypotheses_nonvacuous :
  reachable Z.eqb Z.ltb ex_specs ex_g /\ WF Z.eqb Z.ltb ex_g /\
  small_adj ex_g /\ weights_nonneg ex_g /\ edges_have_weight ex_g = true /\
  name_at ex_g 0 = Some 5%Z /\ In 1%Z (names ex_g) /\
  (exists m, single_source Z.eqb ex_g true 5%Z (Some 1%Z) (Some (9 # 2)%Q) false true = Ok m /\ length m = 4%nat) /\
  (exists mm, multi_source Z.eqb 1 ex_g true [3%Z; 5%Z] None None false true = Ok mm /\ length mm = 2%nat) /\
  (exists mm, all_pairs Z.eqb 1 ex_g true None None false true = Ok mm /\ length mm = 4%nat).
Proof.
  split; [exact ex_g_reachable|]. split; [exact ex_g_WF|].
  split; [vm_compute; reflexivity|]. split; [apply weights_nonneg_b_sound; vm_compute; reflexivity|].
  split; [vm_compute; reflexivity|]. split; [vm_compute; reflexivity|]. split; [vm_compute; tauto|].
  split; [|split]; vm_compute; eexists; split; reflexivity.
Qed.

(* why multi_source / all_pairs need non-negative weights for totality: they unwrap the
   per-source Result, so the ContradictoryPaths of a negative-weight graph is a panic
   there, while single_source returns it as an Err *)
Example negative_weights_panic :
  match ex_neg with
  | Ok g =>
    single_source Z.eqb g true 1%Z None None false true = Err ContradictoryPaths /\
    multi_source Z.eqb 1 g true [1%Z] None None false true = Panic "dijkstra.rs:376" /\
    all_pairs Z.eqb 1 g true None None false true = Panic "dijkstra.rs:172"
  | _ => False
  end.
Proof. vm_compute. repeat split. Qed.
