(* The "Consequently ..." clause of property C03: weighted distances and centralities
   reported for a graph are functions of the node list, the directed flag and the
   multiset of stored edges (get_all_edges) alone — whatever sequence of insertions,
   ignored duplicates or replacements, under whatever duplicate policy, produced it.

   Distances (single_source, C04) and betweenness (C05, Proofs/BrandesWF.v) are stated in
   two forms: for two coherent states with the same node list and the same edge-store
   arcs ([edge_arc], extensionally), and — through [edge_arc_edge_multiset] — for two
   coherent states with the same node list, the same kind and [get_all_edges] equal up to
   permutation.  Closeness (C06) is stated in the second form (its end-to-end theorem is
   over the adjacency [edge_zadj] read off get_all_edges, which lists every parallel edge).

   With a target, `single_source` also reports the nodes it happened to finalise before
   the target; WHICH ones depends on the pop order among equal distances, hence on the
   order of the adjacency rows, hence on the history.  What is a function of the edge
   store is: every distance reported (clause a), and the whole map when there is no
   target / the target's entry when there is one (clause b). *)
From Coq Require Import String List Bool ZArith QArith Arith Lia Permutation.
From GV Require Import Base.Outcome Base.AMap Model.GState Model.Creation Model.Query Model.Derived Model.Cent
     Model.Brandes Model.Closeness Model.Dijkstra.
From GV Require Import Spec.AGraph Spec.History Spec.ShortestPathDef Spec.ShortestPathRel Spec.EdgeStoreGraph
     Spec.EdgeStoreAdj Spec.ClosenessDef.
From GV Require Import Proofs.AMapOk Proofs.WFDefs Proofs.HistoryOk Proofs.AdjOk Proofs.ClosenessStateOk
     Proofs.DijkstraWF Proofs.BrandesWF.
Import ListNotations.
Open Scope list_scope.

(* ------------------------------------------------------------------ the relational spec sees the arcs extensionally *)
Section ArcExt.
  Variables arc arc' : nat -> nat -> Z -> Prop.
  Variable n : nat.
  Hypothesis Hext : forall u v w, arc u v w <-> arc' u v w.

  Lemma awalk_ext s t p d : awalk arc n s t p d -> awalk arc' n s t p d.
  Proof.
    intros H. induction H as [Hs | u v w p d Hw IH He]; [apply awalk_nil; exact Hs|].
    eapply awalk_snoc; [exact IH | apply Hext; exact He].
  Qed.
End ArcExt.

Lemma a_is_dist_ext (arc arc' : nat -> nat -> Z -> Prop) n :
  (forall u v w, arc u v w <-> arc' u v w) ->
  forall s t d, a_is_dist arc n s t d -> a_is_dist arc' n s t d.
Proof.
  intros Hext s t d [[p Hp] Hmin]. split.
  - exists p. apply (awalk_ext arc arc' n Hext). exact Hp.
  - intros q d' Hq. apply (Hmin q). apply (awalk_ext arc' arc n); [|exact Hq]. intros u v w. symmetry. apply Hext.
Qed.

(* ------------------------------------------------------------------ closeness: uniqueness of the defined value *)
Lemma dist_spec_det (a : zadj) s t o o' : dist_spec a s t o -> dist_spec a s t o' -> o = o'.
Proof.
  destruct o as [x|], o' as [y|]; cbn [dist_spec]; intros H H'.
  - destruct H as [Hx Hmx]. destruct H' as [Hy Hmy]. pose proof (Hmx y Hy). pose proof (Hmy x Hx). f_equal. lia.
  - destruct H as [Hx _]. exfalso. apply H'. exists x. exact Hx.
  - destruct H' as [Hy _]. exfalso. apply H. exists y. exact Hy.
  - reflexivity.
Qed.

Lemma is_closeness_unique (a : zadj) u wf c c' : is_closeness a u wf c -> is_closeness a u wf c' -> (c == c')%Q.
Proof.
  intros [dv [Hl [Hd Hv]]] [dv' [Hl' [Hd' Hv']]].
  assert (E : dv = dv').
  { apply (nth_ext dv dv' None None); [congruence|]. intros v Hlt. rewrite Hl in Hlt.
    apply (dist_spec_det a v u); [apply Hd | apply Hd']; exact Hlt. }
  subst dv'. rewrite Hv, Hv'. reflexivity.
Qed.

Lemma same_entries_refines (a a' : zadj) :
  length a = length a' -> (forall v e, In e (zrow a v) <-> In e (zrow a' v)) -> refines a a'.
Proof.
  intros Hl H. split; [exact Hl|]. split.
  - intros v w c Hin. apply H. exact Hin.
  - intros v w c Hin. exists c. split; [apply H; exact Hin | lia].
Qed.

Lemma Forall2_nth {X Y} (R : X -> Y -> Prop) : forall l l', length l = length l' ->
  (forall i x y, nth_error l i = Some x -> nth_error l' i = Some y -> R x y) -> Forall2 R l l'.
Proof.
  induction l as [|x l IH]; intros [|y l'] Hl H; cbn in Hl; try lia; constructor.
  - apply (H 0%nat); reflexivity.
  - apply IH; [lia|]. intros i x' y' Hx Hy. apply (H (S i)); assumption.
Qed.

Section EdgeStoreOnly.
  Context {T A : Type}.
  Variable teqb : T -> T -> bool.
  Variable tltb : T -> T -> bool.
  Hypothesis teqb_spec : forall x y, teqb x y = true <-> x = y.
  Hypothesis tltb_asym : forall x y, tltb x y = true -> tltb y x = false.
  Hypothesis tltb_total : forall x y, tltb x y = false -> tltb y x = false -> x = y.

  Notation edge := (edge T A).
  Notation gstate := (gstate T A).
  Notation WF := (@WF T A teqb tltb).
  Notation names := (@names T A).
  Notation name_at := (@name_at T A).
  Notation edge_arc := (@edge_arc T A teqb).
  Notation n_of := number_of_nodes.

  Lemma n_of_names (g1 g2 : gstate) : names g1 = names g2 -> n_of g1 = n_of g2.
  Proof. intros H. rewrite <- !nn_number_of_nodes. unfold WFDefs.nn. rewrite H. reflexivity. Qed.

  (* ================================================================ distances (C04) *)
  (* one direction: whatever g1 reports for y, g2 reports with the same distance, provided y
     is a name g2 must report (no target, or y is the target) *)
  Lemma distances_transfer (g1 g2 : gstate) weighted source target cutoff fo wp si m1 m2 :
    WF g1 -> WF g2 -> small_adj g1 -> small_adj g2 ->
    (weighted = true -> weights_nonneg g1) -> (weighted = true -> weights_nonneg g2) ->
    names g1 = names g2 ->
    (forall i j c, edge_arc g1 weighted i j c <-> edge_arc g2 weighted i j c) ->
    name_at g1 si = Some source -> (forall t, target = Some t -> In t (names g1)) ->
    cutoff_exceeded cutoff 0 = false ->
    single_source teqb g1 weighted source target cutoff fo wp = Ok m1 ->
    single_source teqb g2 weighted source target cutoff fo wp = Ok m2 ->
    (forall y i1 i2, lookup teqb y m1 = Some i1 -> lookup teqb y m2 = Some i2 -> sp_distance i1 = sp_distance i2) /\
    (forall y i1, lookup teqb y m1 = Some i1 -> (target = None \/ target = Some y) ->
                  exists i2, lookup teqb y m2 = Some i2 /\ sp_distance i2 = sp_distance i1).
  Proof.
    intros W1 W2 S1 S2 N1 N2 Hn Harc Hsrc Ht Hc E1 E2.
    assert (Hsrc2 : name_at g2 si = Some source) by (rewrite <- (name_at_names g1 g2 si Hn); exact Hsrc).
    assert (Ht2 : forall t, target = Some t -> In t (names g2)) by (intros t Et; rewrite <- Hn; apply Ht; exact Et).
    destruct (wf_single_source_answer teqb tltb teqb_spec tltb_total g1 weighted source target cutoff fo wp si W1 S1 N1 Hsrc Ht Hc)
      as [m1' [E1' [Snd1 _]]].
    destruct (wf_single_source_answer teqb tltb teqb_spec tltb_total g2 weighted source target cutoff fo wp si W2 S2 N2 Hsrc2 Ht2 Hc)
      as [m2' [E2' [Snd2 Cmp2]]].
    assert (m1' = m1) by congruence. assert (m2' = m2) by congruence. subst m1' m2'.
    pose proof (n_of_names g1 g2 Hn) as Hnn.
    split.
    - intros y i1 i2 L1 L2. destruct (Snd1 y i1 L1) as [j1 [Hj1 [D1 _]]]. destruct (Snd2 y i2 L2) as [j2 [Hj2 [D2 _]]].
      rewrite (name_at_names g1 g2 j1 Hn) in Hj1.
      assert (j1 = j2) by (eapply (name_at_inj teqb tltb); eauto). subst j2.
      apply (a_is_dist_ext _ _ (n_of g1) Harc) in D1. rewrite Hnn in D1.
      eapply a_is_dist_unique; eauto.
    - intros y i1 L1 Hty. destruct (Snd1 y i1 L1) as [j1 [Hj1 [D1 [Wi _]]]].
      rewrite (name_at_names g1 g2 j1 Hn) in Hj1.
      apply (a_is_dist_ext _ _ (n_of g1) Harc) in D1. rewrite Hnn in D1.
      exact (Cmp2 j1 y (sp_distance i1) Hj1 D1 Wi Hty).
  Qed.

  Theorem distances_arcs_only (g1 g2 : gstate) weighted source target cutoff fo wp si :
    WF g1 -> WF g2 -> small_adj g1 -> small_adj g2 ->
    (weighted = true -> weights_nonneg g1) -> (weighted = true -> weights_nonneg g2) ->
    names g1 = names g2 ->
    (forall i j c, edge_arc g1 weighted i j c <-> edge_arc g2 weighted i j c) ->
    name_at g1 si = Some source -> (forall t, target = Some t -> In t (names g1)) ->
    cutoff_exceeded cutoff 0 = false ->
    exists m1 m2,
      single_source teqb g1 weighted source target cutoff fo wp = Ok m1 /\
      single_source teqb g2 weighted source target cutoff fo wp = Ok m2 /\
      (forall y i1 i2, lookup teqb y m1 = Some i1 -> lookup teqb y m2 = Some i2 -> sp_distance i1 = sp_distance i2) /\
      (forall y, target = None \/ target = Some y ->
                 option_map sp_distance (lookup teqb y m1) = option_map sp_distance (lookup teqb y m2)).
  Proof.
    intros W1 W2 S1 S2 N1 N2 Hn Harc Hsrc Ht Hc.
    assert (Hsrc2 : name_at g2 si = Some source) by (rewrite <- (name_at_names g1 g2 si Hn); exact Hsrc).
    assert (Ht2 : forall t, target = Some t -> In t (names g2)) by (intros t Et; rewrite <- Hn; apply Ht; exact Et).
    assert (Harc' : forall i j c, edge_arc g2 weighted i j c <-> edge_arc g1 weighted i j c) by (intros; symmetry; apply Harc).
    destruct (wf_single_source_answer teqb tltb teqb_spec tltb_total g1 weighted source target cutoff fo wp si W1 S1 N1 Hsrc Ht Hc)
      as [m1 [E1 _]].
    destruct (wf_single_source_answer teqb tltb teqb_spec tltb_total g2 weighted source target cutoff fo wp si W2 S2 N2 Hsrc2 Ht2 Hc)
      as [m2 [E2 _]].
    destruct (distances_transfer g1 g2 weighted source target cutoff fo wp si m1 m2 W1 W2 S1 S2 N1 N2 Hn Harc Hsrc Ht Hc E1 E2)
      as [A12 B12].
    destruct (distances_transfer g2 g1 weighted source target cutoff fo wp si m2 m1 W2 W1 S2 S1 N2 N1 (eq_sym Hn) Harc' Hsrc2 Ht2 Hc E2 E1)
      as [_ B21].
    exists m1, m2. split; [exact E1|]. split; [exact E2|]. split; [exact A12|].
    intros y Hty. destruct (lookup teqb y m1) as [i1|] eqn:L1.
    - destruct (B12 y i1 L1 Hty) as [i2 [L2 Hd]]. rewrite L2. cbn. f_equal. symmetry. exact Hd.
    - destruct (lookup teqb y m2) as [i2|] eqn:L2; [|reflexivity].
      destruct (B21 y i2 L2 Hty) as [i1 [L1' _]]. congruence.
  Qed.

  Lemma weights_nonneg_perm (g1 g2 : gstate) :
    Permutation (get_all_edges g1) (get_all_edges g2) -> weights_nonneg g1 -> weights_nonneg g2.
  Proof. intros HP H e z He Hz. apply (H e z); [|exact Hz]. apply (Permutation_in _ (Permutation_sym HP)). exact He. Qed.

  Theorem distances_edge_multiset (g1 g2 : gstate) weighted source target cutoff fo wp si :
    WF g1 -> WF g2 -> small_adj g1 -> small_adj g2 ->
    (weighted = true -> weights_nonneg g1 /\ weights_real g1) ->
    names g1 = names g2 -> directed (sp g1) = directed (sp g2) ->
    Permutation (get_all_edges g1) (get_all_edges g2) ->
    name_at g1 si = Some source -> (forall t, target = Some t -> In t (names g1)) ->
    cutoff_exceeded cutoff 0 = false ->
    exists m1 m2,
      single_source teqb g1 weighted source target cutoff fo wp = Ok m1 /\
      single_source teqb g2 weighted source target cutoff fo wp = Ok m2 /\
      (forall y i1 i2, lookup teqb y m1 = Some i1 -> lookup teqb y m2 = Some i2 -> sp_distance i1 = sp_distance i2) /\
      (forall y, target = None \/ target = Some y ->
                 option_map sp_distance (lookup teqb y m1) = option_map sp_distance (lookup teqb y m2)).
  Proof.
    intros W1 W2 S1 S2 Hw Hn Hd HP Hsrc Ht Hc.
    apply (distances_arcs_only g1 g2 weighted source target cutoff fo wp si); try assumption.
    - intros E. apply (Hw E).
    - intros E. apply (weights_nonneg_perm g1 g2 HP). apply (Hw E).
    - apply (edge_arc_edge_multiset teqb tltb teqb_spec tltb_total); try assumption. intros E. apply (Hw E).
  Qed.

  (* ================================================================ closeness (C06) *)
  Notation edge_zadj := (@edge_zadj T A teqb).

  Lemma edge_zadj_same (g1 g2 : gstate) weighted :
    WF g1 -> WF g2 -> names g1 = names g2 -> directed (sp g1) = directed (sp g2) ->
    (forall e, In e (get_all_edges g1) -> In e (get_all_edges g2)) ->
    forall i e, In e (zrow (edge_zadj weighted g1) i) -> In e (zrow (edge_zadj weighted g2) i).
  Proof.
    intros W1 W2 Hn Hd Hsub i [j c] Hin.
    apply (in_edge_zadj teqb teqb_spec weighted g1 i j c (wf_nodup _ _ _ W1)) in Hin.
    apply (in_edge_zadj teqb teqb_spec weighted g2 i j c (wf_nodup _ _ _ W2)).
    destruct Hin as [x [y [e [Hx [Hy [He [Hc Hcase]]]]]]]. exists x, y, e.
    rewrite <- (name_at_names g1 g2 i Hn), <- (name_at_names g1 g2 j Hn), <- Hd. auto.
  Qed.

  Theorem closeness_edge_multiset (g1 g2 : gstate) lw1 lw2 weighted wf m1 m2 :
    WF g1 -> WF g2 -> (weighted = true -> positive_weights g1) ->
    names g1 = names g2 -> directed (sp g1) = directed (sp g2) ->
    Permutation (get_all_edges g1) (get_all_edges g2) ->
    closeness_centrality teqb tltb lw1 g1 weighted wf = Ok m1 ->
    closeness_centrality teqb tltb lw2 g2 weighted wf = Ok m2 ->
    map fst m1 = map fst m2 /\ Forall2 Qeq (map snd m1) (map snd m2).
  Proof.
    intros W1 W2 P1 Hn Hd HP E1 E2.
    assert (P2 : weighted = true -> positive_weights g2).
    { intros Hw e He. apply (P1 Hw). apply (Permutation_in _ (Permutation_sym HP)). exact He. }
    destruct (closeness_centrality_spec teqb tltb teqb_spec tltb_asym tltb_total g1 lw1 weighted wf W1 P1) as [m1' [E1' [K1 C1]]].
    destruct (closeness_centrality_spec teqb tltb teqb_spec tltb_asym tltb_total g2 lw2 weighted wf W2 P2) as [m2' [E2' [K2 C2]]].
    assert (m1' = m1) by congruence. assert (m2' = m2) by congruence. subst m1' m2'.
    assert (Hk : map fst m1 = map fst m2).
    { rewrite K1, K2. exact Hn. }
    split; [exact Hk|].
    assert (Hlen : length m1 = length m2) by (rewrite <- (map_length fst m1), <- (map_length fst m2), Hk; reflexivity).
    assert (R : refines (edge_zadj weighted g1) (edge_zadj weighted g2)).
    { apply same_entries_refines.
      - rewrite !(edge_zadj_length teqb). exact (n_of_names g1 g2 Hn).
      - intros v e. split; apply edge_zadj_same; auto; intros e0 He0;
          [apply (Permutation_in _ HP) | apply (Permutation_in _ (Permutation_sym HP))]; exact He0. }
    apply Forall2_nth; [rewrite !map_length; exact Hlen|].
    intros i c1 c2 H1 H2. rewrite nth_error_map in H1, H2.
    destruct (nth_error m1 i) as [[x1 c1']|] eqn:N1; [|discriminate].
    destruct (nth_error m2 i) as [[x2 c2']|] eqn:N2; [|discriminate].
    cbn in H1, H2. inversion H1. inversion H2. subst c1' c2'.
    apply (is_closeness_unique (edge_zadj weighted g2) i wf).
    - apply (is_closeness_refines _ _ i wf c1 R). exact (C1 i x1 c1 N1).
    - exact (C2 i x2 c2 N2).
  Qed.
  (* ================================================================ for reachable graphs, possibly under different GraphSpecs *)
  Notation reachable := (reachable teqb tltb).

  Lemma reachable_pair (s1 s2 : specs) (g1 g2 : gstate) :
    reachable s1 g1 -> reachable s2 g2 -> directed s1 = directed s2 ->
    WF g1 /\ WF g2 /\ directed (sp g1) = directed (sp g2).
  Proof.
    intros R1 R2 Hd.
    rewrite (reachable_sp teqb tltb teqb_spec tltb_asym tltb_total s1 g1 R1),
            (reachable_sp teqb tltb teqb_spec tltb_asym tltb_total s2 g2 R2).
    split; [exact (WF_reachable teqb tltb teqb_spec tltb_asym tltb_total s1 g1 R1)|].
    split; [exact (WF_reachable teqb tltb teqb_spec tltb_asym tltb_total s2 g2 R2) | exact Hd].
  Qed.

  Theorem distances_edge_store_only (s1 s2 : specs) (g1 g2 : gstate) weighted source target cutoff fo wp si :
    reachable s1 g1 -> reachable s2 g2 -> directed s1 = directed s2 ->
    names g1 = names g2 -> Permutation (get_all_edges g1) (get_all_edges g2) ->
    small_adj g1 -> small_adj g2 ->
    (weighted = true -> weights_nonneg g1 /\ weights_real g1) ->
    name_at g1 si = Some source -> (forall t, target = Some t -> In t (names g1)) ->
    cutoff_exceeded cutoff 0 = false ->
    exists m1 m2,
      single_source teqb g1 weighted source target cutoff fo wp = Ok m1 /\
      single_source teqb g2 weighted source target cutoff fo wp = Ok m2 /\
      (forall y i1 i2, lookup teqb y m1 = Some i1 -> lookup teqb y m2 = Some i2 -> sp_distance i1 = sp_distance i2) /\
      (forall y, target = None \/ target = Some y ->
                 option_map sp_distance (lookup teqb y m1) = option_map sp_distance (lookup teqb y m2)).
  Proof.
    intros R1 R2 Hd Hn HP S1 S2 Hw Hsrc Ht Hc. destruct (reachable_pair s1 s2 g1 g2 R1 R2 Hd) as [W1 [W2 Hd']].
    apply (distances_edge_multiset g1 g2 weighted source target cutoff fo wp si); assumption.
  Qed.

  Theorem closeness_edge_store_only (s1 s2 : specs) (g1 g2 : gstate) lw1 lw2 weighted wf :
    reachable s1 g1 -> reachable s2 g2 -> directed s1 = directed s2 ->
    names g1 = names g2 -> Permutation (get_all_edges g1) (get_all_edges g2) ->
    (weighted = true -> positive_weights g1) ->
    exists m1 m2,
      closeness_centrality teqb tltb lw1 g1 weighted wf = Ok m1 /\
      closeness_centrality teqb tltb lw2 g2 weighted wf = Ok m2 /\
      map fst m1 = map fst m2 /\ Forall2 Qeq (map snd m1) (map snd m2).
  Proof.
    intros R1 R2 Hd Hn HP P1. destruct (reachable_pair s1 s2 g1 g2 R1 R2 Hd) as [W1 [W2 Hd']].
    assert (P2 : weighted = true -> positive_weights g2).
    { intros Hw e He. apply (P1 Hw). apply (Permutation_in _ (Permutation_sym HP)). exact He. }
    destruct (closeness_centrality_spec teqb tltb teqb_spec tltb_asym tltb_total g1 lw1 weighted wf W1 P1) as [m1 [E1 _]].
    destruct (closeness_centrality_spec teqb tltb teqb_spec tltb_asym tltb_total g2 lw2 weighted wf W2 P2) as [m2 [E2 _]].
    exists m1, m2. split; [exact E1|]. split; [exact E2|].
    exact (closeness_edge_multiset g1 g2 lw1 lw2 weighted wf m1 m2 W1 W2 P1 Hn Hd' HP E1 E2).
  Qed.

  Theorem betweenness_edge_store_only (s1 s2 : specs) (g1 g2 : gstate) lw1 lw2 weighted normalized :
    reachable s1 g1 -> reachable s2 g2 -> directed s1 = directed s2 ->
    names g1 = names g2 -> Permutation (get_all_edges g1) (get_all_edges g2) ->
    (weighted = true -> weights_real_positive g1) ->
    exists m1 m2,
      betweenness_centrality lw1 g1 weighted normalized = Ok m1 /\
      betweenness_centrality lw2 g2 weighted normalized = Ok m2 /\
      map fst m1 = map fst m2 /\ Forall2 Qeq (map snd m1) (map snd m2).
  Proof.
    intros R1 R2 Hd Hn HP P1. destruct (reachable_pair s1 s2 g1 g2 R1 R2 Hd) as [W1 [W2 Hd']].
    assert (P2 : weighted = true -> weights_real_positive g2).
    { intros Hw. apply (weights_real_positive_perm g1 g2 HP). apply P1. exact Hw. }
    destruct (betweenness_WF teqb tltb teqb_spec tltb_total g1 lw1 weighted normalized W1 P1) as [m1 [_ [E1 _]]].
    destruct (betweenness_WF teqb tltb teqb_spec tltb_total g2 lw2 weighted normalized W2 P2) as [m2 [_ [E2 _]]].
    exists m1, m2. split; [exact E1|]. split; [exact E2|].
    exact (betweenness_edge_multiset teqb tltb teqb_spec tltb_total g1 g2 lw1 lw2 weighted normalized m1 m2 W1 W2 P1 Hn Hd' HP E1 E2).
  Qed.
End EdgeStoreOnly.
