(* C18 (b): the explicit next-step bound, at Coq's reals.

   Let M = I + A^T with A read off the edge store (Proofs/EigenMatrix.v), N the node names,
   n = |N|, Wtot = SUM_{u,v} A[u][v], and let x be returned by eigenvector_centrality on a
   coherent graph with stored weights >= 0.  Then
   * [ev_residual_bound]   (lambda, x) is an approximate eigenpair:
        SUM_v | (M x)[v] - lambda * x[v] |  <  (1 + Wtot) * n * tol,   lambda = ||M xlast||_2 > 0;
   * [ev_next_step_bound]  one further pass of the very loop, x |-> normalise (M x), measures an
        L1 change  <  (n + 1) * (1 + Wtot) * n * tol.
   The constant is cruder than the oracle's 2 sqrt(n) ||M||_F but explicit, and the proof needs
   neither Cauchy-Schwarz nor Minkowski: | ||Mx||_2 - lambda | <= ||Mx - lambda x||_1 follows
   from b^2 - a^2 = SUM (w-u)(w+u) with 0 <= w <= b, 0 <= u <= a entrywise. *)
From Coq Require Import String List Bool ZArith Arith QArith Reals Lra Lia Permutation.
From GV Require Import Base.Outcome Base.AMap Model.GState Model.Creation Model.Query Model.Eigen
     Spec.AGraph Spec.History.
From GV Require Import Proofs.AMapOk Proofs.WFDefs Proofs.WFNode Proofs.HistoryOk Proofs.AdjOk
     Proofs.EigenOk Proofs.EigenReal Proofs.EigenMatrix Proofs.EigenWF.
Import ListNotations.
Open Scope R_scope.

Definition SumLawsR : SumLaws NumR.
Proof. apply (mkSumLaws NumR); cbn; intros; ring. Defined.

(* ---------------------------------------------------------------- finite sums of reals *)
Section Rsum.
  Context {X : Type}.
  Definition Rsum (f : X -> R) (l : list X) : R := fold_right (fun k a => f k + a) 0 l.

  Lemma Rsum_cons f k l : Rsum f (k :: l) = f k + Rsum f l.
  Proof. reflexivity. Qed.

  Lemma Rsum_ext_in f h l : (forall k, In k l -> f k = h k) -> Rsum f l = Rsum h l.
  Proof.
    induction l as [|k t IH]; intros H; [reflexivity|]. rewrite !Rsum_cons.
    rewrite (H k (or_introl eq_refl)), IH; [reflexivity|]. intros j Hj. apply H. right. exact Hj.
  Qed.

  Lemma Rsum_le f h l : (forall k, In k l -> f k <= h k) -> Rsum f l <= Rsum h l.
  Proof.
    induction l as [|k t IH]; intros H; [cbn; lra|]. rewrite !Rsum_cons.
    pose proof (H k (or_introl eq_refl)). assert (Rsum f t <= Rsum h t) by (apply IH; intros j Hj; apply H; right; exact Hj). lra.
  Qed.

  Lemma Rsum_nonneg f l : (forall k, In k l -> 0 <= f k) -> 0 <= Rsum f l.
  Proof.
    induction l as [|k t IH]; intros H; [cbn; lra|]. rewrite Rsum_cons.
    pose proof (H k (or_introl eq_refl)). assert (0 <= Rsum f t) by (apply IH; intros j Hj; apply H; right; exact Hj). lra.
  Qed.

  Lemma Rsum_plus f h l : Rsum (fun k => f k + h k) l = Rsum f l + Rsum h l.
  Proof. induction l as [|k t IH]; [cbn; lra|]. rewrite !Rsum_cons, IH. lra. Qed.

  Lemma Rsum_minus f h l : Rsum (fun k => f k - h k) l = Rsum f l - Rsum h l.
  Proof. induction l as [|k t IH]; [cbn; lra|]. rewrite !Rsum_cons, IH. lra. Qed.

  Lemma Rsum_scal c f l : Rsum (fun k => c * f k) l = c * Rsum f l.
  Proof. induction l as [|k t IH]; [cbn; lra|]. rewrite !Rsum_cons, IH. lra. Qed.

  Lemma Rsum_const c l : Rsum (fun _ => c) l = INR (length l) * c.
  Proof.
    induction l as [|k t IH]; [cbn; lra|]. rewrite Rsum_cons, IH.
    change (length (k :: t)) with (S (length t)). rewrite S_INR. lra.
  Qed.

  Lemma Rsum_abs f l : Rabs (Rsum f l) <= Rsum (fun k => Rabs (f k)) l.
  Proof.
    induction l as [|k t IH]; [cbn; rewrite Rabs_R0; lra|]. rewrite !Rsum_cons.
    pose proof (Rabs_triang (f k) (Rsum f t)). lra.
  Qed.

  Lemma Rsum_In_le f l k : (forall j, In j l -> 0 <= f j) -> In k l -> f k <= Rsum f l.
  Proof.
    induction l as [|h t IH]; intros Hnn Hin; [destruct Hin|]. rewrite Rsum_cons.
    assert (Ht : 0 <= Rsum f t) by (apply Rsum_nonneg; intros j Hj; apply Hnn; right; exact Hj).
    pose proof (Hnn h (or_introl eq_refl)).
    destruct Hin as [->|Hin]; [lra|].
    assert (f k <= Rsum f t) by (apply IH; [intros j Hj; apply Hnn; right; exact Hj|exact Hin]). lra.
  Qed.

  Lemma Rsum_map {Y} (p : Y -> X) f (l : list Y) : Rsum f (map p l) = @fold_right R Y (fun k a => f (p k) + a) 0 l.
  Proof. induction l as [|k t IH]; [reflexivity|]. cbn [map]. rewrite Rsum_cons, IH. reflexivity. Qed.
End Rsum.

Lemma nsum_Rsum {X} (f : X -> R) (l : list X) : nsum NumR (map f l) = Rsum f l.
Proof. induction l as [|k t IH]; [reflexivity|]. cbn [map]. rewrite nsum_cons, IH. reflexivity. Qed.

Lemma sumsq_fold (l : list R) : forall acc,
  fold_left (fun a v => a + v * v) l acc = acc + Rsum (fun v => v * v) l.
Proof.
  induction l as [|v t IH]; intros acc; cbn [fold_left]; [cbn; lra|]. rewrite IH, Rsum_cons. lra.
Qed.

Section Bound.
  Context {T A : Type}.
  Variable teqb : T -> T -> bool.
  Variable tltb : T -> T -> bool.
  Hypothesis teqb_spec : forall x y, teqb x y = true <-> x = y.
  Hypothesis tltb_asym : forall x y, tltb x y = true -> tltb y x = false.
  Hypothesis tltb_total : forall x y, tltb x y = false -> tltb y x = false -> x = y.

  Notation gstate := (gstate T A).
  Notation WF := (@WF T A teqb tltb).
  Notation names := (@names T A).
  Notation xmap := (@xmap T NumR).
  Notation xat := (xat teqb NumR).
  Notation matvec := (matvec teqb tltb NumR).
  Notation aent := (aent teqb tltb NumR).

  (* ---------------------------------------------------------------- a vector as a function on its keys *)
  Lemma xat_head k (a : R) (t : xmap) : xat ((k, a) :: t) k = a.
  Proof. unfold EigenMatrix.xat. cbn [lookup]. rewrite (keqb_refl teqb teqb_spec). reflexivity. Qed.

  Lemma xat_tail k (a : R) (t : xmap) j : j <> k -> xat ((k, a) :: t) j = xat t j.
  Proof. intros H. unfold EigenMatrix.xat. cbn [lookup]. rewrite (keqb_neq teqb teqb_spec j k H). reflexivity. Qed.

  Lemma xmap_as_keys : forall x : xmap, NoDup (keys x) -> x = map (fun k => (k, xat x k)) (keys x).
  Proof.
    induction x as [|[k a] t IH]; intros Hnd; [reflexivity|].
    unfold keys in *. cbn [map fst] in *. inversion Hnd as [|? ? Hni Hnd']; subst.
    rewrite xat_head. f_equal. rewrite (IH Hnd') at 1. apply map_ext_in.
    intros j Hj. rewrite xat_tail; [reflexivity|]. intro E. subst j. contradiction.
  Qed.

  Lemma values_as_keys (x : xmap) : NoDup (keys x) -> values x = map (xat x) (keys x).
  Proof. intros H. rewrite (xmap_as_keys x H) at 1. unfold values. rewrite map_map. reflexivity. Qed.

  Lemma sumsq_Rsum (x : xmap) : NoDup (keys x) -> sumsq NumR (values x) = Rsum (fun k => xat x k * xat x k) (keys x).
  Proof.
    intros H. rewrite (values_as_keys x H). unfold sumsq. cbn [nadd nmul n0 NumR].
    rewrite sumsq_fold, Rplus_0_l. rewrite Rsum_map. reflexivity.
  Qed.

  Lemma l1_change_fold (xlast : xmap) : forall (x : xmap) (a y : R),
    ofold (fun a kv => match lookup teqb (fst kv) xlast with
                       | None => Panic "eigenvector.rs:73 xlast.get unwrap"
                       | Some l => Ok (nadd NumR a (nabs NumR (nsub NumR (snd kv) l)))
                       end) x a = Ok y ->
    y = a + Rsum (fun kv => Rabs (snd kv - xat xlast (fst kv))) x.
  Proof.
    induction x as [|[k v] t IH]; intros a y H; cbn [ofold] in H.
    - inversion H. cbn. lra.
    - cbn [fst snd] in H. unfold EigenMatrix.xat at 1. rewrite Rsum_cons. cbn [fst snd].
      destruct (lookup teqb k xlast) as [l|] eqn:E; cbn in H; [|discriminate].
      apply IH in H. rewrite H. unfold EigenMatrix.xat. lra.
  Qed.

  Lemma l1_change_Rsum (x xlast : xmap) y : NoDup (keys x) ->
    l1_change teqb NumR x xlast = Ok y -> y = Rsum (fun k => Rabs (xat x k - xat xlast k)) (keys x).
  Proof.
    intros Hnd H. unfold l1_change in H. apply l1_change_fold in H. cbn [n0 NumR] in H. rewrite H, Rplus_0_l.
    rewrite (xmap_as_keys x Hnd) at 1. rewrite Rsum_map. reflexivity.
  Qed.

  (* l1_change does not panic when every key of x is a key of xlast *)
  Lemma l1_change_total (xlast : xmap) : forall (x : xmap) (a : R),
    (forall k, In k (keys x) -> In k (keys xlast)) ->
    exists y, ofold (fun a kv => match lookup teqb (fst kv) xlast with
                       | None => Panic "eigenvector.rs:73 xlast.get unwrap"
                       | Some l => Ok (nadd NumR a (nabs NumR (nsub NumR (snd kv) l)))
                       end) x a = Ok y.
  Proof.
    induction x as [|[k v] t IH]; intros a Hk; cbn [ofold]; [eauto|]. cbn [fst snd].
    destruct (lookup teqb k xlast) as [l|] eqn:E.
    - cbn. apply IH. intros j Hj. apply Hk. right. exact Hj.
    - exfalso. apply (lookup_None_keys teqb teqb_spec) in E. apply E. apply Hk. left. reflexivity.
  Qed.

  Lemma xat_map (f : T -> R -> R) (x : xmap) k : In k (keys x) ->
    xat (map (fun kv => (fst kv, f (fst kv) (snd kv))) x) k = f k (xat x k).
  Proof. exact (xat_map_snd teqb teqb_spec NumR f x k). Qed.

  Lemma xat_normalise (x : xmap) k : In k (keys x) -> xat (normalise NumR x) k = xat x k / norm_of NumR x.
  Proof. intros H. unfold normalise. apply (xat_map (fun _ a => ndiv NumR a (norm_of NumR x)) x k H). Qed.

  (* ---------------------------------------------------------------- the operator M = I + A^T on functions *)
  Section Op.
    Variable g : gstate.
    Variable weighted : bool.
    Hypothesis W : WF g.
    Hypothesis Hm : multi (sp g) = false.
    Hypothesis Hw : forall e, In e (get_all_edges g) -> wnn e = true.

    Let N := names g.
    Let Aq (u v : T) : R := aent g weighted u v.
    Definition Wtot : R := Rsum (fun v => Rsum (fun u => aent g weighted u v) (names g)) (names g).
    Definition Mop (f : T -> R) (v : T) : R := f v + Rsum (fun u => f u * aent g weighted u v) (names g).

    Lemma aent_nonneg u v : 0 <= aent g weighted u v.
    Proof.
      unfold EigenMatrix.aent, aco.
      destruct (stored_between teqb tltb g u v) as [|e t] eqn:E; [cbn; lra|].
      assert (Hin : In e (get_all_edges g)).
      { assert (H : In e (stored_between teqb tltb g u v)) by (rewrite E; left; reflexivity).
        unfold stored_between in H. apply filter_In in H. apply H. }
      apply (edge_w_nn NumR LawsR weighted e (Hw e Hin)).
    Qed.

    Lemma Wtot_nonneg : 0 <= Wtot.
    Proof. unfold Wtot. apply Rsum_nonneg. intros v _. apply Rsum_nonneg. intros u _. apply aent_nonneg. Qed.

    Lemma xat_matvec (x : xmap) k : In k (keys x) -> xat (matvec g weighted x) k = Mop (xat x) k.
    Proof.
      intros H.
      transitivity ((fun k a => nadd NumR a (col_sum teqb tltb NumR g weighted x k)) k (xat x k)).
      - exact (xat_map_snd teqb teqb_spec NumR (fun k a => nadd NumR a (col_sum teqb tltb NumR g weighted x k)) x k H).
      - cbv beta. unfold Mop. apply (f_equal (Rplus (xat x k))). unfold col_sum.
        exact (nsum_Rsum (fun u => xat x u * aent g weighted u k) (names g)).
    Qed.

    (* M is monotone on non-negative vectors: (M f)[v] >= f[v] *)
    Lemma Mop_ge (f : T -> R) v : (forall u, 0 <= f u) -> f v <= Mop f v.
    Proof.
      intros Hf. unfold Mop.
      assert (0 <= Rsum (fun u => f u * aent g weighted u v) (names g)).
      { apply Rsum_nonneg. intros u _. apply Rmult_le_pos; [apply Hf|apply aent_nonneg]. }
      lra.
    Qed.

    (* ||M f - M h||_1 <= (1 + Wtot) ||f - h||_1 *)
    Lemma Mop_lipschitz (f h : T -> R) :
      Rsum (fun v => Rabs (Mop f v - Mop h v)) (names g) <=
      (1 + Wtot) * Rsum (fun k => Rabs (f k - h k)) (names g).
    Proof.
      set (delta := Rsum (fun k => Rabs (f k - h k)) (names g)).
      assert (Hd : forall u, In u (names g) -> Rabs (f u - h u) <= delta).
      { intros u Hu. apply (Rsum_In_le (fun k => Rabs (f k - h k)) (names g) u); [|exact Hu].
        intros j _. apply Rabs_pos. }
      assert (Hstep : forall v, Rabs (Mop f v - Mop h v) <=
                                Rabs (f v - h v) + delta * Rsum (fun u => aent g weighted u v) (names g)).
      { intros v. unfold Mop.
        replace (f v + Rsum (fun u => f u * aent g weighted u v) (names g) -
                 (h v + Rsum (fun u => h u * aent g weighted u v) (names g)))
          with ((f v - h v) + Rsum (fun u => (f u - h u) * aent g weighted u v) (names g)).
        2:{ rewrite <- (Rsum_ext_in (fun u => f u * aent g weighted u v - h u * aent g weighted u v)
                                     (fun u => (f u - h u) * aent g weighted u v)) by (intros; ring).
            rewrite Rsum_minus. ring. }
        eapply Rle_trans; [apply Rabs_triang|]. apply Rplus_le_compat_l.
        eapply Rle_trans; [apply Rsum_abs|]. rewrite <- Rsum_scal. apply Rsum_le.
        intros u Hu. rewrite Rabs_mult, (Rabs_pos_eq (aent g weighted u v)) by apply aent_nonneg.
        apply Rmult_le_compat_r; [apply aent_nonneg|apply Hd; exact Hu]. }
      eapply Rle_trans; [apply Rsum_le; intros v _; apply Hstep|].
      rewrite Rsum_plus, Rsum_scal. fold delta. unfold Wtot. lra.
    Qed.

    (* ---------------------------------------------------------------- the returned vector *)
    Section Returned.
      Variables (x xlast : xmap) (y : R).
      Hypothesis Hkl : keys xlast = names g.
      Hypothesis Hx : x = normalise NumR (matvec g weighted xlast).
      Hypothesis Hy : l1_change teqb NumR x xlast = Ok y.
      Hypothesis Hnn : Forall (fun kv => 0 <= snd kv) x.
      Hypothesis Hunit : sumsq NumR (values x) = 1.

      Let lam := norm_of NumR (matvec g weighted xlast).

      Lemma names_nodup : NoDup (names g).
      Proof. apply (wf_nodup _ _ _ W). Qed.

      Lemma keys_matvec (z : xmap) : keys (matvec g weighted z) = keys z.
      Proof. unfold EigenMatrix.matvec, keys. rewrite map_map. reflexivity. Qed.

      Lemma keys_x : keys x = names g.
      Proof. rewrite Hx, normalise_keys, keys_matvec. exact Hkl. Qed.

      Lemma xat_nonneg k : 0 <= xat x k.
      Proof.
        unfold EigenMatrix.xat. destruct (lookup teqb k x) as [a|] eqn:E; [|cbn; lra].
        apply (lookup_Forall teqb (fun a => 0 <= a) x k a Hnn E).
      Qed.

      Lemma lam_pos : 0 < lam.
      Proof.
        unfold lam. cbv zeta. unfold norm_of. cbn [neqb nsqrt n0 n1 NumR].
        destruct (Req_EM_T (sqrt (sumsq NumR (values (matvec g weighted xlast)))) 0) as [E|E]; [lra|].
        pose proof (sqrt_pos (sumsq NumR (values (matvec g weighted xlast)))). lra.
      Qed.

      (* lambda * x = M xlast, entrywise *)
      Lemma lam_x k : In k (names g) -> lam * xat x k = Mop (xat xlast) k.
      Proof.
        intros Hk. rewrite Hx, xat_normalise by (rewrite keys_matvec, Hkl; exact Hk).
        rewrite xat_matvec by (rewrite Hkl; exact Hk). fold lam. pose proof lam_pos. field. lra.
      Qed.

      Lemma y_is_l1 : y = Rsum (fun k => Rabs (xat x k - xat xlast k)) (names g).
      Proof. rewrite <- keys_x. apply l1_change_Rsum; [rewrite keys_x; exact names_nodup|exact Hy]. Qed.

      (* the eigen-residual: ||M x - lambda x||_1 <= (1 + Wtot) ||x - xlast||_1 *)
      Lemma residual_le :
        Rsum (fun v => Rabs (Mop (xat x) v - lam * xat x v)) (names g) <= (1 + Wtot) * y.
      Proof.
        rewrite y_is_l1. eapply Rle_trans; [|apply Mop_lipschitz].
        right. apply Rsum_ext_in. intros v Hv. rewrite (lam_x v Hv). reflexivity.
      Qed.

      Lemma unit_Rsum : Rsum (fun k => xat x k * xat x k) (names g) = 1.
      Proof. rewrite <- keys_x, <- sumsq_Rsum; [exact Hunit|rewrite keys_x; exact names_nodup]. Qed.

      Lemma xat_le_1 k : xat x k <= 1.
      Proof.
        destruct (in_dec (keqb_dec teqb teqb_spec) k (names g)) as [Hin|Hout].
        - pose proof (Rsum_In_le (fun k => xat x k * xat x k) (names g) k
                        (fun j _ => Rle_0_sqr (xat x j)) Hin) as H.
          rewrite unit_Rsum in H. cbv beta in H. pose proof (xat_nonneg k). nra.
        - unfold EigenMatrix.xat. destruct (lookup teqb k x) as [r|] eqn:E; [|cbn; lra].
          exfalso. apply Hout. rewrite <- keys_x. apply (lookup_Some_keys teqb teqb_spec k r x E).
      Qed.

      (* the next pass: u = M x, a = ||u||_2 >= 1 *)
      Let u (k : T) : R := Mop (xat x) k.
      Let a := norm_of NumR (matvec g weighted x).

      Lemma u_ge k : xat x k <= u k.
      Proof. apply Mop_ge. exact xat_nonneg. Qed.

      Lemma sumsq_u : sumsq NumR (values (matvec g weighted x)) = Rsum (fun k => u k * u k) (names g).
      Proof.
        rewrite sumsq_Rsum by (rewrite keys_matvec, keys_x; exact names_nodup).
        rewrite keys_matvec, keys_x. apply Rsum_ext_in. intros k Hk.
        rewrite xat_matvec by (rewrite keys_x; exact Hk). reflexivity.
      Qed.

      Lemma sumsq_u_ge_1 : 1 <= Rsum (fun k => u k * u k) (names g).
      Proof.
        rewrite <- unit_Rsum. apply Rsum_le. intros k _.
        pose proof (u_ge k). pose proof (xat_nonneg k). nra.
      Qed.

      Lemma a_sq : a * a = Rsum (fun k => u k * u k) (names g) /\ 1 <= a.
      Proof.
        unfold a. cbv zeta. unfold norm_of. cbn [neqb nsqrt n0 n1 NumR]. rewrite sumsq_u.
        pose proof sumsq_u_ge_1 as H1.
        assert (Hs : 1 <= sqrt (Rsum (fun k => u k * u k) (names g))).
        { rewrite <- sqrt_1. apply sqrt_le_1_alt. exact H1. }
        destruct (Req_EM_T (sqrt (Rsum (fun k => u k * u k) (names g))) 0) as [E|E]; [lra|].
        split; [apply sqrt_sqrt; lra|exact Hs].
      Qed.

      (* w = lambda x = M xlast, b = lambda = ||w||_2 *)
      Lemma lam_sq : lam * lam = Rsum (fun k => (lam * xat x k) * (lam * xat x k)) (names g).
      Proof.
        rewrite (Rsum_ext_in _ (fun k => (lam * lam) * (xat x k * xat x k))) by (intros; ring).
        rewrite Rsum_scal, unit_Rsum. ring.
      Qed.

      Let rho := Rsum (fun v => Rabs (u v - lam * xat x v)) (names g).

      Lemma entry_le_norm (f : T -> R) (c : R) k :
        (forall j, 0 <= f j) -> 0 < c -> c * c = Rsum (fun j => f j * f j) (names g) -> In k (names g) -> f k <= c.
      Proof.
        intros Hf Hc Hcc Hk.
        pose proof (Rsum_In_le (fun j => f j * f j) (names g) k (fun j _ => Rle_0_sqr (f j)) Hk) as H.
        cbv beta in H. rewrite <- Hcc in H. pose proof (Hf k). nra.
      Qed.

      (* | ||u||_2 - lambda | <= ||u - lambda x||_1, without Cauchy-Schwarz *)
      Lemma norm_gap : Rabs (lam - a) <= rho.
      Proof.
        destruct a_sq as (Ha2 & Ha1). pose proof lam_pos as Hl. pose proof lam_sq as Hl2.
        assert (Hdiff : (lam - a) * (lam + a) =
                        Rsum (fun k => (lam * xat x k - u k) * (lam * xat x k + u k)) (names g)).
        { rewrite (Rsum_ext_in _ (fun k => (lam * xat x k) * (lam * xat x k) - u k * u k)) by (intros; ring).
          rewrite Rsum_minus, <- Hl2, <- Ha2. ring. }
        assert (Hbound : Rabs ((lam - a) * (lam + a)) <= rho * (lam + a)).
        { rewrite Hdiff. eapply Rle_trans; [apply Rsum_abs|]. unfold rho. rewrite Rmult_comm, <- Rsum_scal.
          apply Rsum_le. intros k Hk. rewrite Rabs_mult.
          assert (Hw1 : 0 <= lam * xat x k) by (apply Rmult_le_pos; [lra|apply xat_nonneg]).
          assert (Hu1 : 0 <= u k) by (pose proof (u_ge k); pose proof (xat_nonneg k); lra).
          assert (Hw2 : lam * xat x k <= lam).
          { apply (entry_le_norm (fun j => lam * xat x j) lam k); [|exact Hl|exact Hl2|exact Hk].
            intros j. apply Rmult_le_pos; [lra|apply xat_nonneg]. }
          assert (Hu2 : u k <= a).
          { apply (entry_le_norm u a k); [|lra|exact Ha2|exact Hk].
            intros j. pose proof (u_ge j). pose proof (xat_nonneg j). lra. }
          rewrite (Rabs_pos_eq (lam * xat x k + u k)) by lra.
          rewrite (Rabs_minus_sym (lam * xat x k) (u k)).
          rewrite (Rmult_comm (lam + a)).
          apply Rmult_le_compat_l; [apply Rabs_pos|lra]. }
        rewrite Rabs_mult, (Rabs_pos_eq (lam + a)) in Hbound by lra.
        apply (Rmult_le_reg_r (lam + a)); [lra|exact Hbound].
      Qed.

      (* ||u/a - x||_1 <= (n + 1) rho *)
      Lemma next_step_le :
        Rsum (fun k => Rabs (u k / a - xat x k)) (names g) <= (INR (length (names g)) + 1) * rho.
      Proof.
        destruct a_sq as (Ha2 & Ha1). pose proof lam_pos as Hl. pose proof norm_gap as Hg.
        assert (Hrho : 0 <= rho) by (unfold rho; apply Rsum_nonneg; intros; apply Rabs_pos).
        assert (Hk : forall k, Rabs (u k / a - xat x k) <= Rabs (u k - lam * xat x k) + rho).
        { intros k.
          replace (u k / a - xat x k) with ((u k - lam * xat x k) / a + xat x k * ((lam - a) / a)) by (field; lra).
          eapply Rle_trans; [apply Rabs_triang|].
          assert (H1 : Rabs ((u k - lam * xat x k) / a) <= Rabs (u k - lam * xat x k)).
          { unfold Rdiv. rewrite Rabs_mult, (Rabs_pos_eq (/ a)) by (left; apply Rinv_0_lt_compat; lra).
            pose proof (Rabs_pos (u k - lam * xat x k)).
            assert (/ a <= 1) by (rewrite <- Rinv_1; apply Rinv_le_contravar; lra). nra. }
          assert (H2 : Rabs (xat x k * ((lam - a) / a)) <= rho).
          { rewrite Rabs_mult, (Rabs_pos_eq (xat x k)) by apply xat_nonneg.
            unfold Rdiv. rewrite Rabs_mult, (Rabs_pos_eq (/ a)) by (left; apply Rinv_0_lt_compat; lra).
            pose proof (xat_nonneg k). pose proof (xat_le_1 k). pose proof (Rabs_pos (lam - a)).
            assert (0 < / a <= 1) by (split; [apply Rinv_0_lt_compat; lra|rewrite <- Rinv_1; apply Rinv_le_contravar; lra]).
            assert (Rabs (lam - a) * / a <= rho) by nra. nra. }
          lra. }
        eapply Rle_trans; [apply Rsum_le; intros k _; apply Hk|].
        rewrite Rsum_plus, Rsum_const. fold rho. lra.
      Qed.

      Lemma next_step_bound_core :
        Rsum (fun k => Rabs (u k / a - xat x k)) (names g) <= (INR (length (names g)) + 1) * ((1 + Wtot) * y).
      Proof.
        eapply Rle_trans; [apply next_step_le|]. apply Rmult_le_compat_l.
        - pose proof (pos_INR (length (names g))). lra.
        - exact residual_le.
      Qed.

      (* the next pass of the loop itself *)
      Lemma next_step_model :
        exists x2 y2, step teqb NumR g weighted x = Ok (x2, y2) /\
                      x2 = normalise NumR (matvec g weighted x) /\
                      y2 = Rsum (fun k => Rabs (u k / a - xat x k)) (names g).
      Proof.
        assert (Hndx : NoDup (keys x)) by (rewrite keys_x; exact names_nodup).
        assert (Hkx : forall k, In k (keys x) <-> In k (names g)) by (intros k; rewrite keys_x; reflexivity).
        unfold step.
        rewrite (spread_is_matvec teqb tltb teqb_spec tltb_asym tltb_total NumR SumLawsR g weighted W Hm x Hndx Hkx).
        cbn [bind]. set (x2 := normalise NumR (matvec g weighted x)).
        assert (Hk2 : keys x2 = names g) by (unfold x2; rewrite normalise_keys, keys_matvec; exact keys_x).
        destruct (l1_change_total x x2 (n0 NumR)) as (y2 & Hy2).
        { intros k Hk. rewrite keys_x. rewrite Hk2 in Hk. exact Hk. }
        fold (l1_change teqb NumR x2 x) in Hy2. rewrite Hy2. cbn [bind].
        exists x2, y2. split; [reflexivity|]. split; [reflexivity|].
        rewrite (l1_change_Rsum x2 x y2) by (rewrite ?Hk2; try exact names_nodup; exact Hy2).
        rewrite Hk2. apply Rsum_ext_in. intros k Hk. unfold x2.
        rewrite xat_normalise by (rewrite keys_matvec, keys_x; exact Hk).
        rewrite xat_matvec by (rewrite keys_x; exact Hk). reflexivity.
      Qed.
    End Returned.
  End Op.

  (* ---------------------------------------------------------------- the entry point *)
  Section Top.
    Variable g : gstate.
    Variables (weighted : bool) (max_iter : option nat) (tol : option Q).
    Hypothesis W : WF g.
    Hypothesis Hw : forall e, In e (get_all_edges g) -> wnn e = true.
    Let thr := threshold NumR g (match tol with Some q => nofQ NumR q | None => nofQ NumR (1 # 1000000) end).

    Lemma ev_returned_facts x :
      eigenvector_centrality teqb NumR g weighted max_iter tol = Ok x ->
      multi (sp g) = false /\
      exists xlast y, keys xlast = names g /\ x = normalise NumR (matvec g weighted xlast) /\
                      l1_change teqb NumR x xlast = Ok y /\ y < thr /\
                      Forall (fun kv => 0 <= snd kv) x /\ sumsq NumR (values x) = 1.
    Proof.
      intros H. pose proof (ev_ok_single teqb NumR g weighted max_iter tol x H) as Hm. split; [exact Hm|].
      destruct (ev_approx_eigenvector teqb tltb teqb_spec tltb_asym tltb_total NumR g weighted max_iter tol W SumLawsR x H)
        as (xlast & y & Hk & Hx & He & Hy & Ht).
      destruct (ev_result_WF teqb tltb teqb_spec NumR g weighted max_iter tol W LawsR Hw x H) as (_ & Hnn & Hu).
      exists xlast, y. split; [exact Hk|]. split; [rewrite <- He; exact Hx|]. split; [exact Hy|].
      split; [|split; [exact Hnn|exact Hu]].
      cbn [nltb NumR] in Ht. fold thr in Ht. destruct (Rlt_dec y thr) as [Hlt|]; [exact Hlt|discriminate].
    Qed.

    (* (lambda, x) is an approximate eigenpair of M = I + A^T, in L1, with an explicit constant *)
    Theorem ev_residual_bound : forall x,
      eigenvector_centrality teqb NumR g weighted max_iter tol = Ok x ->
      exists lam, 0 < lam /\
        Rsum (fun v => Rabs (Mop g weighted (xat x) v - lam * xat x v)) (names g) < (1 + Wtot g weighted) * thr.
    Proof.
      intros x H. destruct (ev_returned_facts x H) as (Hm & xlast & y & Hk & Hx & Hy & Ht & Hnn & Hu).
      exists (norm_of NumR (matvec g weighted xlast)).
      pose proof (lam_pos g weighted xlast) as Hl.
      pose proof (residual_le g weighted W Hw x xlast y Hk Hx Hy) as Hr.
      pose proof (Wtot_nonneg g weighted Hw) as Hwt.
      split; [exact Hl|]. eapply Rle_lt_trans; [exact Hr|]. apply Rmult_lt_compat_l; lra.
    Qed.

    (* one further pass x |-> normalise (x + A^T x) of the loop moves x, in L1, by less than
       (n + 1) (1 + Wtot) * n * tol *)
    Theorem ev_next_step_bound : forall x,
      eigenvector_centrality teqb NumR g weighted max_iter tol = Ok x ->
      exists x2 y2, step teqb NumR g weighted x = Ok (x2, y2) /\
                    x2 = normalise NumR (matvec g weighted x) /\
                    y2 < (INR (length (names g)) + 1) * (1 + Wtot g weighted) * thr.
    Proof.
      intros x H. destruct (ev_returned_facts x H) as (Hm & xlast & y & Hk & Hx & Hy & Ht & Hnn & Hu).
      destruct (next_step_model g weighted W Hm x xlast Hk Hx) as (x2 & y2 & Hs & Hx2 & Hy2).
      exists x2, y2. split; [exact Hs|]. split; [exact Hx2|].
      pose proof (next_step_bound_core g weighted W Hw x xlast y Hk Hx Hy Hnn Hu) as Hb.
      rewrite Hy2. pose proof (Wtot_nonneg g weighted Hw) as Hwt.
      pose proof (pos_INR (length (names g))) as Hn.
      eapply Rle_lt_trans; [exact Hb|]. rewrite Rmult_assoc.
      apply Rmult_lt_compat_l; [lra|]. apply Rmult_lt_compat_l; lra.
    Qed.
  End Top.
End Bound.
