(* C18: non-vacuity of the deepened theorems at Coq's reals on a concrete graph built by a
   history of mutations: undirected, weighted, three nodes, edges {0,1} w=1, {2,1} w=4 (given
   against the storage orientation) and the self-loop {2,2} w=4.  Then
   (I + A^T) (1/3,1/3,1/3) = (2/3, 6/3, 9/3) has Euclidean norm 11/3 (2^2+6^2+9^2 = 11^2), the
   first pass returns (2/11, 6/11, 9/11) and its L1 change 28/33 is below 3 * (1/3). *)
From Coq Require Import List ZArith QArith Reals Lra Lia.
From GV Require Import Base.Outcome Base.AMap Model.GState Model.Creation Model.Query Model.Eigen Spec.History.
From GV Require Import Proofs.WFDefs Proofs.HistoryOk Proofs.EigenOk Proofs.EigenReal Proofs.EigenMatrix Proofs.EigenWF Proofs.EigenBound.
Import ListNotations.
Open Scope R_scope.

Lemma Zeqb_spec : forall x y, Z.eqb x y = true <-> x = y.
Proof. apply Z.eqb_eq. Qed.
Lemma Zltb_asym : forall x y, Z.ltb x y = true -> Z.ltb y x = false.
Proof. intros x y H. apply Z.ltb_lt in H. apply Z.ltb_ge. lia. Qed.
Lemma Zltb_total : forall x y, Z.ltb x y = false -> Z.ltb y x = false -> x = y.
Proof. intros x y H1 H2. apply Z.ltb_ge in H1. apply Z.ltb_ge in H2. lia. Qed.

Definition ex_sp3 := mkspecs false DErr MCreate false true SErr.
Definition ex_g3 : gstate Z Z :=
  run_muts Z.eqb Z.ltb (new ex_sp3)
    [MutNodes [mknode 0%Z None; mknode 1%Z None; mknode 2%Z None];
     MutEdges [mkedge 0%Z 1%Z (Some 1%Z) None; mkedge 2%Z 1%Z (Some 4%Z) None; mkedge 2%Z 2%Z (Some 4%Z) None]].

Lemma ex_g3_reachable : reachable Z.eqb Z.ltb ex_sp3 ex_g3.
Proof. eexists. reflexivity. Qed.

Lemma ex_g3_WF : WF Z.eqb Z.ltb ex_g3.
Proof. apply (WF_reachable Z.eqb Z.ltb Zeqb_spec Zltb_asym Zltb_total ex_sp3). exact ex_g3_reachable. Qed.

Lemma ex_g3_store :
  get_all_edges ex_g3 = [mkedge 0%Z 1%Z (Some 1%Z) None; mkedge 1%Z 2%Z (Some 4%Z) None; mkedge 2%Z 2%Z (Some 4%Z) None]
  /\ names ex_g3 = [0%Z; 1%Z; 2%Z] /\ multi (sp ex_g3) = false /\ directed (sp ex_g3) = false.
Proof. repeat split. Qed.

Lemma ex_g3_weights : forall e, In e (get_all_edges ex_g3) -> wnn e = true.
Proof. intros e H. destruct ex_g3_store as (Hs & _). rewrite Hs in H. cbn in H. intuition (subst; reflexivity). Qed.

Example ex_g3_result :
  eigenvector_centrality Z.eqb NumR ex_g3 true (Some 1%nat) (Some (1 # 3)%Q)
  = Ok [(0%Z, 2/11); (1%Z, 6/11); (2%Z, 9/11)].
Proof.
  cbv -[Rplus Rmult Rdiv Rminus Rabs sqrt Rlt_dec Req_EM_T IZR R0 R1].
  repeat match goal with |- context [sqrt ?a] =>
    progress replace a with ((11/3)*(11/3)) by field end.
  rewrite sqrt_square by lra.
  destruct (Req_EM_T (11/3) 0) as [E|E]; [exfalso; lra|].
  unfold Rabs. repeat (destruct Rcase_abs; try (exfalso; lra)).
  destruct Rlt_dec as [E2|E2]; [|exfalso; lra].
  apply f_equal. repeat (apply f_equal2; [apply f_equal; field|]). reflexivity.
Qed.

(* the matrix of the example, read off the edge store: symmetric, the self-loop once *)
Example ex_g3_matrix :
  map (fun u => map (fun v => aent Z.eqb Z.ltb NumR ex_g3 true u v) [0%Z; 1%Z; 2%Z]) [0%Z; 1%Z; 2%Z]
  = [[0; 1; 0]; [1; 0; 4]; [0; 4; 4]].
Proof. reflexivity. Qed.

(* the constant of the next-step bound on this graph: Wtot = 14, so L = (3 + 1) * (1 + 14) = 60 *)
Example ex_g3_Wtot : Wtot Z.eqb Z.ltb ex_g3 true = 14.
Proof. unfold Wtot. cbv -[Rplus IZR]. ring. Qed.

(* every hypothesis of the deepened C18 theorems holds of this graph and run *)
Example ex_g3_nonvacuous :
  exists x, eigenvector_centrality Z.eqb NumR ex_g3 true (Some 1%nat) (Some (1 # 3)%Q) = Ok x /\
            reachable Z.eqb Z.ltb ex_sp3 ex_g3 /\ WF Z.eqb Z.ltb ex_g3 /\ multi (sp ex_g3) = false /\
            (forall e, In e (get_all_edges ex_g3) -> wnn e = true) /\
            length (nodes_vec ex_g3) = 3%nat /\ length (get_all_edges ex_g3) = 3%nat.
Proof.
  eexists. split; [exact ex_g3_result|]. split; [exact ex_g3_reachable|]. split; [exact ex_g3_WF|].
  split; [reflexivity|]. split; [exact ex_g3_weights|]. split; reflexivity.
Qed.
