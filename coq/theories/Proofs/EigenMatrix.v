(* C18, deepening: the accumulation loop of eigenvector_centrality
   ([spread] = `for n in xlast.keys() { for nbr in successors_or_neighbors(n)
   { x[nbr] += xlast[n] * w(get_edge(n, nbr)) } }`) computes, on every coherent
   ([WF]) single-edge graph, exactly  x + A^T x  with A read off the EDGE STORE
   ([get_all_edges]): no panic, same keys, and for every node v

     x1[v] = xlast[v] + SUM over the stored edges e that point into v
                         (either end when undirected; a self-loop once)
                        of xlast[other end of e] * w(e)

   Three forms are proved:
   * [spread_node_form]   — no number law at all: the sum in the order of
                            xlast's keys (left fold);
   * [spread_matrix_form] — node-indexed matrix form  xlast[v] + SUM_u xlast[u]*A[u][v]
                            over [names g], A[u][v] = weight of the stored edge
                            between u and v, 0 if none ([SumLaws]: + commutative,
                            associative, a+0 = a, a*0 = 0);
   * [spread_edge_form]   — the sum over [get_all_edges g] itself ([SumLaws]).
   The number structure is the generic [Num]; only the four [SumLaws] are used. *)
From Coq Require Import String List Bool ZArith Arith QArith Lia Permutation.
From GV Require Import Base.Outcome Base.AMap Model.GState Model.Creation Model.Query Model.Eigen
     Spec.AGraph Spec.History.
From GV Require Import Proofs.AMapOk Proofs.WFDefs Proofs.WFNode Proofs.WFAdj Proofs.WFEdge Proofs.Refine
     Proofs.HistoryOk Proofs.AdjOk Proofs.QueryOk Proofs.DerivedContent Proofs.EigenOk.
Import ListNotations.
Open Scope list_scope.

(* the laws of + and * needed to write the update as a sum that does not depend on
   the order in which the hash map is walked *)
Record SumLaws (F : Num) := mkSumLaws {
  add_comm : forall a b, nadd F a b = nadd F b a;
  add_assoc : forall a b c, nadd F (nadd F a b) c = nadd F a (nadd F b c);
  add_0_r : forall a, nadd F a (n0 F) = a;
  mul_0_r : forall a, nmul F a (n0 F) = n0 F
}.

Section Sum.
  Variable F : Num.
  Notation R := (num F).

  (* SUM of a list, right fold from 0 *)
  Definition nsum (l : list R) : R := fold_right (nadd F) (n0 F) l.

  Variable SL : SumLaws F.

  Lemma nsum_cons a l : nsum (a :: l) = nadd F a (nsum l).
  Proof. reflexivity. Qed.

  Lemma nsum_app l1 l2 : nsum (l1 ++ l2) = nadd F (nsum l1) (nsum l2).
  Proof.
    induction l1 as [|a t IH]; cbn [app].
    - change (nsum []) with (n0 F). rewrite (add_comm F SL). symmetry. apply (add_0_r F SL).
    - rewrite !nsum_cons, IH. symmetry. apply (add_assoc F SL).
  Qed.

  Lemma nsum_perm l1 l2 : Permutation l1 l2 -> nsum l1 = nsum l2.
  Proof.
    induction 1 as [|a l l' _ IH|a b l|l l' l'' _ IH1 _ IH2].
    - reflexivity.
    - rewrite !nsum_cons, IH. reflexivity.
    - rewrite !nsum_cons. rewrite <- !(add_assoc F SL). rewrite (add_comm F SL b a). reflexivity.
    - congruence.
  Qed.

  (* a left fold that adds one term per element = start + SUM of the terms *)
  Lemma fold_left_nsum {X} (f : X -> R) (l : list X) : forall a,
    fold_left (fun acc u => nadd F acc (f u)) l a = nadd F a (nsum (map f l)).
  Proof.
    induction l as [|u t IH]; intros a; cbn [fold_left map].
    - symmetry. apply (add_0_r F SL).
    - rewrite IH, nsum_cons. apply (add_assoc F SL).
  Qed.
End Sum.

Section EigenMatrix.
  Context {T A : Type}.
  Variable teqb : T -> T -> bool.
  Variable tltb : T -> T -> bool.
  Hypothesis teqb_spec : forall x y, teqb x y = true <-> x = y.
  Hypothesis tltb_asym : forall x y, tltb x y = true -> tltb y x = false.
  Hypothesis tltb_total : forall x y, tltb x y = false -> tltb y x = false -> x = y.
  Variable F : Num.

  Notation node := (node T A).
  Notation edge := (edge T A).
  Notation gstate := (gstate T A).
  Notation WF := (@WF T A teqb tltb).
  Notation names := (@names T A).
  Notation group := (@group T A teqb).
  Notation cn := (cn tltb).
  Notation pspec := (peqb_spec teqb teqb_spec).
  Notation stored_between := (stored_between teqb tltb).
  Notation R := (num F).
  Notation xmap := (@xmap T F).

  (* ---------------------------------------------------------------- the matrix, from the edge store *)
  (* the entry of A for the ordered pair (u, v): the weight (1 when unweighted or NaN) of the
     stored edge between u and v — [stored_between] is a filter of [get_all_edges], in storage
     orientation when the graph is undirected —, None when there is none *)
  Definition aco (g : gstate) (weighted : bool) (u v : T) : option R :=
    match stored_between g u v with [] => None | e :: _ => Some (edge_w F weighted e) end.
  Definition aent (g : gstate) (weighted : bool) (u v : T) : R :=
    match aco g weighted u v with Some w => w | None => n0 F end.
  (* the entry of a vector, 0 outside its keys *)
  Definition xat (x : xmap) (u : T) : R := match lookup teqb u x with Some a => a | None => n0 F end.

  Lemma aent_sym (g : gstate) weighted u v : directed (sp g) = false -> aent g weighted u v = aent g weighted v u.
  Proof.
    intros Hd. unfold aent, aco. rewrite (stored_between_sym teqb tltb tltb_asym tltb_total g u v Hd). reflexivity.
  Qed.

  (* on a single-edge graph there is at most one stored edge per pair *)
  Lemma stored_single (g : gstate) u v :
    WF g -> multi (sp g) = false -> stored_between g u v = [] \/ exists e, stored_between g u v = [e].
  Proof.
    intros W Hm. rewrite (stored_between_group teqb tltb teqb_spec g u v W).
    destruct (group g (cn (sp g) u v)) as [l|] eqn:E; [|left; reflexivity].
    destruct (wf_egroup _ _ _ W _ _ E) as (_ & _ & _ & _ & _ & Hlen & _). specialize (Hlen Hm).
    destruct l as [|e [|e2 t]]; cbn in Hlen; try lia. right. exists e. reflexivity.
  Qed.

  Lemma aent_from_store (g : gstate) weighted u v :
    WF g -> multi (sp g) = false ->
    (stored_between g u v = [] /\ aent g weighted u v = n0 F) \/
    (exists e, stored_between g u v = [e] /\ aent g weighted u v = edge_w F weighted e).
  Proof.
    intros W Hm. unfold aent, aco.
    destruct (stored_single g u v W Hm) as [E|(e & E)]; rewrite E; [left|right; exists e]; auto.
  Qed.

  Lemma stored_names (g : gstate) u v :
    WF g -> stored_between g u v <> [] -> In u (names g) /\ In v (names g).
  Proof.
    intros W Hne. rewrite (stored_between_group teqb tltb teqb_spec g u v W) in Hne.
    destruct (group g (cn (sp g) u v)) as [l|] eqn:E; [|congruence].
    destruct (wf_egroup _ _ _ W _ _ E) as (_ & _ & Hf & Hs & _).
    destruct (cn_cases tltb (sp g) u v) as [Hc|Hc]; rewrite Hc in Hf, Hs; cbn in Hf, Hs; auto.
  Qed.

  Lemma in_names_existsb (g : gstate) x :
    In x (names g) -> existsb (fun n : node => teqb (nname n) x) (nodes_vec g) = true.
  Proof.
    intros H. unfold WFDefs.names in H. apply in_map_iff in H. destruct H as (n & En & Hn).
    apply existsb_exists. exists n. split; [exact Hn|]. apply teqb_spec. exact En.
  Qed.

  (* ---------------------------------------------------------------- the two queries of the loop *)
  Lemma succ_or_nbrs_spec (g : gstate) x :
    WF g -> In x (names g) ->
    exists l, get_successors_or_neighbors teqb g x = Ok l /\ NoDup (map nname l) /\
              forall y, In y (map nname l) <-> stored_between g x y <> [].
  Proof.
    intros W Hx. unfold get_successors_or_neighbors.
    assert (Hsb : forall y, stored_between g x y <> [] <-> group g (cn (sp g) x y) <> None).
    { intros y. rewrite (stored_between_group teqb tltb teqb_spec g x y W).
      destruct (group g (cn (sp g) x y)) as [l|] eqn:E.
      - destruct (wf_egroup _ _ _ W _ _ E) as (Hne & _). split; [discriminate|intros _; exact Hne].
      - split; congruence. }
    destruct (directed (sp g)) eqn:Hd.
    - destruct (get_successor_nodes_spec teqb tltb g x W Hd Hx) as (l & Hl & Hnd & Hmem).
      rewrite Hl. exists l. split; [reflexivity|]. split; [exact Hnd|].
      intros y. rewrite Hmem, Hsb, (cn_directed tltb _ _ _ Hd). reflexivity.
    - destruct (get_neighbor_nodes_spec teqb tltb g x W Hx) as (l & Hl & Hnd & Hmem).
      rewrite Hl. exists l. split; [reflexivity|]. split; [exact Hnd|].
      intros y. rewrite Hmem, Hsb. split.
      + intros (_ & [H|(Hc & _)]); [exact H|congruence].
      + intros H. split; [|left; exact H].
        apply Hsb in H. apply (stored_names g x y W H).
  Qed.

  Lemma get_edge_stored (g : gstate) x y :
    WF g -> multi (sp g) = false -> stored_between g x y <> [] ->
    exists e t, stored_between g x y = e :: t /\ get_edge teqb g x y = Ok e.
  Proof.
    intros W Hm Hne. destruct (stored_names g x y W Hne) as (Hx & Hy).
    rewrite (get_edge_spec teqb tltb teqb_spec tltb_asym tltb_total g x y W), Hm.
    rewrite (in_names_existsb g x Hx), (in_names_existsb g y Hy). cbn [negb orb].
    destruct (stored_between g x y) as [|e t]; [congruence|]. exists e, t. auto.
  Qed.

  (* ---------------------------------------------------------------- the inner loop *)
  Section Inner.
    Variable g : gstate.
    Variable weighted : bool.
    Hypothesis W : WF g.
    Hypothesis Hm : multi (sp g) = false.
    Variable xlast : xmap.
    Variable n : T.
    Variable xn : R.
    Hypothesis Hxn : lookup teqb n xlast = Some xn.

    Let body := (fun (x : xmap) (nbr : node) =>
             match get_edge teqb g n (nname nbr) with
             | Ok e =>
               match lookup teqb n xlast with
               | None => Panic "eigenvector.rs:61 xlast.get unwrap"
               | Some xn => add_to teqb F x (nname nbr) (nmul F xn (edge_w F weighted e))
               end
             | Err _ => Panic "eigenvector.rs:56 get_edge unwrap"
             | Panic s => Panic s
             | OutOfFuel => OutOfFuel
             end).

    (* what one visit of n does to the entry of v *)
    Definition bump (v : T) (old : option R) : option R :=
      match aco g weighted n v, old with
      | Some w, Some o => Some (nadd F o (nmul F xn w))
      | _, _ => old
      end.

    Lemma inner_fold : forall (l : list node) (x : xmap),
      NoDup (map nname l) ->
      (forall y, In y (map nname l) -> stored_between g n y <> []) ->
      (forall y, In y (names g) -> In y (keys x)) ->
      exists x', ofold body l x = Ok x' /\ keys x' = keys x /\
                 forall v, lookup teqb v x' =
                           if existsb (teqb v) (map nname l) then bump v (lookup teqb v x) else lookup teqb v x.
    Proof.
      induction l as [|nbr t IH]; intros x Hnd Hst Hk.
      - exists x. cbn. auto.
      - cbn [map] in Hnd, Hst. inversion Hnd as [|? ? Hni Hnd']; subst.
        assert (Hy : stored_between g n (nname nbr) <> []) by (apply Hst; left; reflexivity).
        destruct (get_edge_stored g n (nname nbr) W Hm Hy) as (e & t' & Es & Ee).
        destruct (stored_names g n (nname nbr) W Hy) as (_ & Hyn).
        assert (Hin : In (nname nbr) (keys x)) by (apply Hk; exact Hyn).
        destruct (lookup teqb (nname nbr) x) as [old|] eqn:Eo;
          [|exfalso; apply (lookup_None_keys teqb teqb_spec) in Eo; contradiction].
        set (x2 := insert teqb (nname nbr) (nadd F old (nmul F xn (edge_w F weighted e))) x).
        assert (Hk2 : keys x2 = keys x) by (apply (keys_insert_present teqb x _ _ old Eo)).
        destruct (IH x2 Hnd' (fun y Hy' => Hst y (or_intror Hy'))) as (x' & Hf & Hk' & Hl).
        { intros y Hy'. rewrite Hk2. apply Hk. exact Hy'. }
        exists x'. split; [|split].
        + cbn [ofold]. unfold body at 1. rewrite Ee, Hxn. unfold add_to. rewrite Eo. cbn. exact Hf.
        + rewrite Hk'. exact Hk2.
        + intros v. rewrite Hl. cbn [map existsb].
          destruct (teqb v (nname nbr)) eqn:Ev.
          * apply teqb_spec in Ev. subst v. cbn [orb].
            assert (Hnot : existsb (teqb (nname nbr)) (map nname t) = false).
            { destruct (existsb (teqb (nname nbr)) (map nname t)) eqn:Ex; [|reflexivity]. exfalso.
              apply existsb_exists in Ex. destruct Ex as (z & Hz & Ez). apply teqb_spec in Ez. subst z. contradiction. }
            rewrite Hnot. unfold x2. rewrite (lookup_insert_eq teqb teqb_spec).
            unfold bump, aco. rewrite Es, Eo. reflexivity.
          * cbn [orb]. unfold x2.
            rewrite (lookup_insert_neq teqb teqb_spec) by (intro X; subst v; rewrite (keqb_refl teqb teqb_spec) in Ev; discriminate).
            reflexivity.
    Qed.

    Lemma push_node_spec (x : xmap) :
      In n (names g) ->
      (forall y, In y (names g) -> In y (keys x)) ->
      exists x', push_node teqb F g weighted xlast x n = Ok x' /\ keys x' = keys x /\
                 forall v, lookup teqb v x' = bump v (lookup teqb v x).
    Proof.
      intros Hn Hk. unfold push_node.
      destruct (succ_or_nbrs_spec g n W Hn) as (l & Hl & Hnd & Hmem). rewrite Hl. cbn.
      destruct (inner_fold l x Hnd (fun y Hy => proj1 (Hmem y) Hy) Hk) as (x' & Hf & Hk' & Hlk).
      exists x'. split; [exact Hf|]. split; [exact Hk'|].
      intros v. rewrite Hlk. destruct (existsb (teqb v) (map nname l)) eqn:Ex; [reflexivity|].
      (* v is not a neighbour: no stored edge, the entry of A is absent *)
      assert (Hnone : stored_between g n v = []).
      { destruct (stored_between g n v) as [|e t] eqn:E; [reflexivity|]. exfalso.
        assert (Hv : In v (map nname l)) by (apply Hmem; rewrite E; discriminate).
        assert (existsb (teqb v) (map nname l) = true).
        { apply existsb_exists. exists v. split; [exact Hv|]. apply teqb_spec. reflexivity. }
        congruence. }
      unfold bump, aco. rewrite Hnone. reflexivity.
    Qed.
  End Inner.

  (* ---------------------------------------------------------------- the outer loop, no number law *)
  Definition acc_step (g : gstate) (weighted : bool) (xlast : xmap) (v : T) (acc : R) (u : T) : R :=
    match aco g weighted u v, lookup teqb u xlast with
    | Some w, Some xu => nadd F acc (nmul F xu w)
    | _, _ => acc
    end.

  Section Outer.
    Variable g : gstate.
    Variable weighted : bool.
    Hypothesis W : WF g.
    Hypothesis Hm : multi (sp g) = false.
    Variable xlast : xmap.
    Hypothesis Hkeys : forall k, In k (keys xlast) <-> In k (names g).

    Lemma outer_fold : forall (ks : list T) (x : xmap),
      (forall k, In k ks -> In k (keys xlast)) ->
      (forall y, In y (names g) -> In y (keys x)) ->
      exists x', ofold (push_node teqb F g weighted xlast) ks x = Ok x' /\ keys x' = keys x /\
                 forall v, lookup teqb v x' = option_map (fun a => fold_left (acc_step g weighted xlast v) ks a) (lookup teqb v x).
    Proof.
      induction ks as [|n t IH]; intros x Hks Hk.
      - exists x. cbn. split; [reflexivity|]. split; [reflexivity|]. intros v. destruct (lookup teqb v x); reflexivity.
      - assert (Hn : In n (keys xlast)) by (apply Hks; left; reflexivity).
        destruct (lookup teqb n xlast) as [xn|] eqn:Exn;
          [|exfalso; apply (lookup_None_keys teqb teqb_spec) in Exn; contradiction].
        destruct (push_node_spec g weighted W Hm xlast n xn Exn x (proj1 (Hkeys n) Hn) Hk) as (x1 & H1 & Hk1 & Hl1).
        destruct (IH x1 (fun k Hk' => Hks k (or_intror Hk'))) as (x' & Hf & Hk' & Hl').
        { intros y Hy. rewrite Hk1. apply Hk. exact Hy. }
        exists x'. split; [cbn [ofold]; rewrite H1; cbn; exact Hf|]. split; [congruence|].
        intros v. rewrite Hl', Hl1. unfold bump.
        destruct (lookup teqb v x) as [a|]; [|destruct (aco g weighted n v); reflexivity].
        assert (Hst : acc_step g weighted xlast v a n =
                      match aco g weighted n v with Some w => nadd F a (nmul F xn w) | None => a end).
        { unfold acc_step. rewrite Exn. reflexivity. }
        cbn [fold_left option_map]. rewrite Hst.
        destruct (aco g weighted n v); reflexivity.
    Qed.

    (* form 1: no law of arithmetic; the terms are added in the order of xlast's keys *)
    Theorem spread_node_form :
      exists x1, spread teqb F g weighted xlast = Ok x1 /\ keys x1 = keys xlast /\
                 forall v, lookup teqb v x1 =
                           option_map (fun a => fold_left (acc_step g weighted xlast v) (keys xlast) a) (lookup teqb v xlast).
    Proof.
      unfold spread. apply outer_fold.
      - intros k Hk. exact Hk.
      - intros y Hy. apply Hkeys. exact Hy.
    Qed.
  End Outer.

  (* ---------------------------------------------------------------- the edge store, entering a node *)
  (* the stored edges that contribute to the entry of v: those pointing at v and, on an
     undirected graph, also those stored with v first; a self-loop (v, v) is listed once *)
  Definition into (g : gstate) (v : T) : list edge :=
    filter (fun e => teqb (ev e) v || (negb (directed (sp g)) && teqb (eu e) v)) (get_all_edges g).
  (* the end of e that is not v (v itself for a self-loop) *)
  Definition other (v : T) (e : edge) : T := if teqb (ev e) v then eu e else ev e.

  Lemma stored_key (g : gstate) u v e : In e (stored_between g u v) -> In e (get_all_edges g) /\ (eu e, ev e) = cn (sp g) u v.
  Proof.
    unfold AdjOk.stored_between. intros H. apply filter_In in H. destruct H as (Hin & Hk).
    split; [exact Hin|]. unfold keyb in Hk. apply pspec in Hk. exact Hk.
  Qed.

  Lemma stored_other (g : gstate) u v e : In e (stored_between g u v) -> other v e = u.
  Proof.
    intros H. destruct (stored_key g u v e H) as (_ & Hk). unfold other.
    destruct (cn_cases tltb (sp g) u v) as [Hc|Hc]; rewrite Hc in Hk; inversion Hk; subst.
    - rewrite (keqb_refl teqb teqb_spec). reflexivity.
    - destruct (teqb (ev e) (eu e)) eqn:E; [|reflexivity]. apply teqb_spec in E. congruence.
  Qed.

  Lemma key_canon (g : gstate) e : WF g -> In e (get_all_edges g) -> cn (sp g) (eu e) (ev e) = (eu e, ev e).
  Proof.
    intros W He. apply (in_all_edges teqb tltb teqb_spec g e W) in He. destruct He as (l & Hl & _).
    destruct (wf_egroup _ _ _ W _ _ Hl) as (_ & _ & _ & _ & Hord & _). cbn [fst snd] in Hord.
    unfold WFDefs.cn. destruct (directed (sp g)); [reflexivity|]. rewrite (Hord eq_refl). reflexivity.
  Qed.

  Lemma into_iff (g : gstate) v e :
    WF g -> (In e (into g v) <-> exists u, In u (names g) /\ In e (stored_between g u v)).
  Proof.
    intros W. unfold into. rewrite filter_In. split.
    - intros (Hin & Hb).
      assert (Hends : In (eu e) (names g) /\ In (ev e) (names g)).
      { pose proof (proj1 (in_all_edges teqb tltb teqb_spec g e W) Hin) as (l & Hl & _).
        destruct (wf_egroup _ _ _ W _ _ Hl) as (_ & _ & Hf & Hs & _). auto. }
      destruct Hends as (Hu & Hv).
      apply orb_true_iff in Hb. destruct Hb as [Hb|Hb].
      + apply teqb_spec in Hb. exists (eu e). split; [exact Hu|]. unfold AdjOk.stored_between.
        apply filter_In. split; [exact Hin|]. unfold keyb. apply pspec. rewrite <- Hb. symmetry. apply key_canon; assumption.
      + apply andb_true_iff in Hb. destruct Hb as (Hd & Hb). apply negb_true_iff in Hd. apply teqb_spec in Hb.
        exists (ev e). split; [exact Hv|]. unfold AdjOk.stored_between.
        apply filter_In. split; [exact Hin|]. unfold keyb. apply pspec. rewrite <- Hb.
        rewrite (cn_sym tltb tltb_asym tltb_total _ _ _ Hd). symmetry. apply key_canon; assumption.
    - intros (u & _ & H). destruct (stored_key g u v e H) as (Hin & Hk). split; [exact Hin|].
      destruct (directed (sp g)) eqn:Hd.
      + rewrite (cn_directed tltb _ _ _ Hd) in Hk. inversion Hk. rewrite (keqb_refl teqb teqb_spec). reflexivity.
      + destruct (cn_cases tltb (sp g) u v) as [Hc|Hc]; rewrite Hc in Hk; inversion Hk.
        * rewrite (keqb_refl teqb teqb_spec). reflexivity.
        * rewrite (keqb_refl teqb teqb_spec). cbn. apply orb_true_r.
  Qed.

  Lemma all_edges_nodup (g : gstate) : WF g -> multi (sp g) = false -> NoDup (get_all_edges g).
  Proof.
    intros W Hm. apply (NoDup_map_inv (@ekey T A)).
    unfold get_all_edges. rewrite (single_keys teqb tltb teqb_spec g W Hm). apply (wf_ekeys _ _ _ W).
  Qed.

  Lemma NoDup_flat_map {X Y} (S : X -> list Y) (ks : list X) :
    NoDup ks -> (forall u, NoDup (S u)) -> (forall u u' e, In e (S u) -> In e (S u') -> u = u') ->
    NoDup (flat_map S ks).
  Proof.
    intros Hnd HS Hdis. induction Hnd as [|u t Hni Hnd IH]; cbn; [constructor|].
    apply NoDup_app_intro; [apply HS|exact IH|].
    intros e H1 H2. apply in_flat_map in H2. destruct H2 as (u' & Hu' & H2).
    rewrite (Hdis u u' e H1 H2) in Hni. contradiction.
  Qed.

  Lemma into_perm (g : gstate) v (ks : list T) :
    WF g -> multi (sp g) = false -> NoDup ks -> (forall k, In k ks <-> In k (names g)) ->
    Permutation (flat_map (fun u => stored_between g u v) ks) (into g v).
  Proof.
    intros W Hm Hnd Hks. apply NoDup_Permutation.
    - apply NoDup_flat_map; [exact Hnd| |].
      + intros u. unfold AdjOk.stored_between. apply NoDup_filter. apply (all_edges_nodup g W Hm).
      + intros u u' e H1 H2. rewrite <- (stored_other g u v e H1). apply (stored_other g u' v e H2).
    - unfold into. apply NoDup_filter. apply (all_edges_nodup g W Hm).
    - intros e. rewrite (into_iff g v e W), in_flat_map. split; intros (u & Hu & H); exists u; (split; [apply Hks; exact Hu|exact H]).
  Qed.

  (* ---------------------------------------------------------------- forms 2 and 3 *)
  Section Forms.
    Variable SL : SumLaws F.
    Variable g : gstate.
    Variable weighted : bool.
    Hypothesis W : WF g.
    Hypothesis Hm : multi (sp g) = false.

    (* ((I + A^T) x)[v] - x[v], node-indexed: SUM over all node names u of x[u] * A[u][v] *)
    Definition col_sum (x : xmap) (v : T) : R :=
      nsum F (map (fun u => nmul F (xat x u) (aent g weighted u v)) (names g)).
    (* the same, as a sum over the edge store *)
    Definition edge_sum (x : xmap) (v : T) : R :=
      nsum F (map (fun e => nmul F (xat x (other v e)) (edge_w F weighted e)) (into g v)).

    (* (I + A^T) x as a vector with the keys of x *)
    Definition matvec (x : xmap) : xmap := map (fun kv => (fst kv, nadd F (snd kv) (col_sum x (fst kv)))) x.
    Definition matvec_e (x : xmap) : xmap := map (fun kv => (fst kv, nadd F (snd kv) (edge_sum x (fst kv)))) x.

    Variable xlast : xmap.
    Hypothesis Hnd : NoDup (keys xlast).
    Hypothesis Hkeys : forall k, In k (keys xlast) <-> In k (names g).

    Lemma acc_fold_sum (v : T) : forall (ks : list T) (a : R),
      (forall k, In k ks -> In k (keys xlast)) ->
      fold_left (acc_step g weighted xlast v) ks a =
      nadd F a (nsum F (map (fun u => nmul F (xat xlast u) (aent g weighted u v)) ks)).
    Proof.
      induction ks as [|u t IH]; intros a Hks; cbn [fold_left map].
      - symmetry. apply (add_0_r F SL).
      - rewrite IH by (intros k Hk; apply Hks; right; exact Hk). rewrite nsum_cons, <- (add_assoc F SL). f_equal.
        assert (Hu : In u (keys xlast)) by (apply Hks; left; reflexivity).
        unfold acc_step, xat, aent.
        destruct (lookup teqb u xlast) as [xu|] eqn:E;
          [|exfalso; apply (lookup_None_keys teqb teqb_spec) in E; contradiction].
        destruct (aco g weighted u v); [reflexivity|].
        rewrite (mul_0_r F SL), (add_0_r F SL). reflexivity.
    Qed.

    Lemma keys_perm : Permutation (keys xlast) (names g).
    Proof. apply NoDup_Permutation; [exact Hnd|apply (wf_nodup _ _ _ W)|exact Hkeys]. Qed.

    (* form 2: x1[v] = xlast[v] + SUM_{u in names g} xlast[u] * A[u][v] *)
    Theorem spread_matrix_form :
      exists x1, spread teqb F g weighted xlast = Ok x1 /\ keys x1 = keys xlast /\
                 forall v xv, lookup teqb v xlast = Some xv ->
                              lookup teqb v x1 = Some (nadd F xv (col_sum xlast v)).
    Proof.
      destruct (spread_node_form g weighted W Hm xlast Hkeys) as (x1 & Hs & Hk & Hl).
      exists x1. split; [exact Hs|]. split; [exact Hk|]. intros v xv Hv. rewrite Hl, Hv. cbn [option_map].
      rewrite acc_fold_sum by (intros k Hk'; exact Hk'). unfold col_sum. f_equal. f_equal.
      apply (nsum_perm F SL). apply Permutation_map. exact keys_perm.
    Qed.

    (* the node-indexed sum is the sum over the edge store *)
    Lemma col_sum_edge_sum (v : T) : col_sum xlast v = edge_sum xlast v.
    Proof.
      unfold col_sum, edge_sum.
      rewrite <- (nsum_perm F SL _ _ (Permutation_map _ keys_perm)).
      rewrite <- (nsum_perm F SL _ _ (Permutation_map _ (into_perm g v (keys xlast) W Hm Hnd Hkeys))).
      generalize (keys xlast) as ks. induction ks as [|u t IH]; [reflexivity|].
      cbn [map flat_map]. rewrite map_app, (nsum_app F SL), nsum_cons, IH. f_equal.
      unfold aent, aco.
      destruct (stored_single g u v W Hm) as [E|(e & E)].
      - rewrite E. cbn [map]. apply (mul_0_r F SL).
      - pose proof (stored_other g u v e) as Ho. rewrite E in *. cbn [map]. rewrite (Ho (or_introl eq_refl)).
        unfold nsum. cbn [fold_right]. symmetry. apply (add_0_r F SL).
    Qed.

    (* form 3: x1[v] = xlast[v] + SUM over the stored edges into v of xlast[other end] * w(e) *)
    Theorem spread_edge_form :
      exists x1, spread teqb F g weighted xlast = Ok x1 /\ keys x1 = keys xlast /\
                 forall v xv, lookup teqb v xlast = Some xv ->
                              lookup teqb v x1 = Some (nadd F xv (edge_sum xlast v)).
    Proof.
      destruct spread_matrix_form as (x1 & Hs & Hk & Hl). exists x1. split; [exact Hs|]. split; [exact Hk|].
      intros v xv Hv. rewrite <- col_sum_edge_sum. apply Hl. exact Hv.
    Qed.

    (* two maps with the same duplicate-free keys and the same lookups are equal *)
    Lemma xmap_ext : forall (a b : xmap), keys a = keys b -> NoDup (keys a) ->
      (forall v, lookup teqb v a = lookup teqb v b) -> a = b.
    Proof.
      induction a as [|[k va] ta IH]; intros [|[k' vb] tb] Hk Hn Hl; try discriminate Hk; [reflexivity|].
      unfold keys in Hk, Hn. cbn [map fst] in Hk, Hn. injection Hk as Hk1 Hk2. subst k'.
      inversion Hn as [|? ? Hni Hn']; subst.
      pose proof (Hl k) as Hlk. cbn in Hlk. rewrite (keqb_refl teqb teqb_spec) in Hlk. inversion Hlk; subst vb.
      f_equal. apply IH; [exact Hk2|exact Hn'|].
      intros v. specialize (Hl v). cbn in Hl. destruct (teqb v k) eqn:E; [|exact Hl].
      apply teqb_spec in E. subst v.
      assert (Hnone : forall m : xmap, ~ In k (map fst m) -> lookup teqb k m = None)
        by (intros m Hm'; apply (lookup_None_keys teqb teqb_spec); exact Hm').
      rewrite (Hnone ta Hni). rewrite (Hnone tb) by (rewrite <- Hk2; exact Hni). reflexivity.
    Qed.

    Lemma lookup_map_snd (f : T -> R -> R) : forall (x : xmap) v,
      lookup teqb v (map (fun kv => (fst kv, f (fst kv) (snd kv))) x) =
      match lookup teqb v x with Some a => Some (f v a) | None => None end.
    Proof.
      induction x as [|[k a] t IH]; intros v; cbn; [reflexivity|].
      destruct (teqb v k) eqn:E; [|apply IH]. apply teqb_spec in E. subst. reflexivity.
    Qed.

    Lemma xat_map_snd (f : T -> R -> R) (x : xmap) k : In k (keys x) ->
      xat (map (fun kv => (fst kv, f (fst kv) (snd kv))) x) k = f k (xat x k).
    Proof.
      intros Hin. unfold xat. rewrite lookup_map_snd.
      destruct (lookup teqb k x) eqn:E; [reflexivity|].
      apply (lookup_None_keys teqb teqb_spec) in E. contradiction.
    Qed.

    (* the crisp statement: the accumulation loop IS (I + A^T), in either form *)
    Theorem spread_is_matvec : spread teqb F g weighted xlast = Ok (matvec xlast).
    Proof.
      destruct spread_matrix_form as (x1 & Hs & Hk & Hl). rewrite Hs. f_equal.
      assert (Hkm : keys (matvec xlast) = keys xlast) by (unfold matvec, keys; rewrite map_map; reflexivity).
      apply xmap_ext; [congruence|rewrite Hk; exact Hnd|].
      intros v. unfold matvec. rewrite (lookup_map_snd (fun k a => nadd F a (col_sum xlast k))).
      destruct (lookup teqb v xlast) as [xv|] eqn:E; [apply Hl; exact E|].
      apply (lookup_None_keys teqb teqb_spec). rewrite Hk. apply (lookup_None_keys teqb teqb_spec). exact E.
    Qed.

    Lemma matvec_edge : matvec xlast = matvec_e xlast.
    Proof. unfold matvec, matvec_e. apply map_ext. intros kv. rewrite col_sum_edge_sum. reflexivity. Qed.

    Theorem spread_is_matvec_e : spread teqb F g weighted xlast = Ok (matvec_e xlast).
    Proof. rewrite <- matvec_edge. exact spread_is_matvec. Qed.
  End Forms.
End EigenMatrix.
