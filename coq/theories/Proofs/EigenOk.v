(* C18: theorems about the power-iteration model of Model/Eigen.v for ANY
   number structure satisfying the ordered-field-with-square-root laws [Laws]
   (so nothing here depends on floating point or on the axioms of Coq's reals);
   Proofs/EigenReal.v instantiates the laws with R to show they are satisfiable. *)
From Coq Require Import String List Bool ZArith Arith QArith Lia.
From GV Require Import Base.Outcome Base.AMap Model.GState Model.Creation Model.Query Model.Eigen.
Import ListNotations.
Open Scope list_scope.

Record Laws (F : Num) := mkLaws {
  nn : num F -> Prop;                  (* 0 <= x *)
  pos : num F -> Prop;                 (* 0 <  x *)
  pos_nn : forall a, pos a -> nn a;
  nn_0 : nn (n0 F);
  pos_1 : pos (n1 F);
  nn_add : forall a b, nn a -> nn b -> nn (nadd F a b);
  pos_add : forall a b, pos a -> nn b -> pos (nadd F a b);
  pos_add_r : forall a b, nn a -> pos b -> pos (nadd F a b);
  nn_mul : forall a b, nn a -> nn b -> nn (nmul F a b);
  pos_mul : forall a b, pos a -> pos b -> pos (nmul F a b);
  nn_div : forall a b, nn a -> pos b -> nn (ndiv F a b);
  pos_div : forall a b, pos a -> pos b -> pos (ndiv F a b);
  nn_sqrt : forall a, nn a -> nn (nsqrt F a);
  pos_sqrt : forall a, pos a -> pos (nsqrt F a);
  pos_neq0 : forall a, pos a -> neqb F a (n0 F) = false;
  nn_neq0_pos : forall a, nn a -> neqb F a (n0 F) = false -> pos a;
  nn_ofZ : forall z, (0 <= z)%Z -> nn (nofZ F z);
  pos_ofZ : forall z, (0 < z)%Z -> pos (nofZ F z);
  sqrt_sq : forall a, nn a -> nmul F (nsqrt F a) (nsqrt F a) = a;
  div_self : forall a, pos a -> ndiv F a a = n1 F;
  div_add : forall a b c, nadd F (ndiv F a c) (ndiv F b c) = ndiv F (nadd F a b) c;
  div_sq : forall a c, pos c -> nmul F (ndiv F a c) (ndiv F a c) = ndiv F (nmul F a a) (nmul F c c);
  zero_div : forall c, ndiv F (n0 F) c = n0 F;
  lt_empty : forall t, nltb F (n0 F) (nmul F (nofZ F 0) t) = false
}.

(* ------------------------------------------------------------------ association lists *)
Section AL.
  Context {K V : Type}.
  Variable keqb : K -> K -> bool.

  Lemma lookup_Forall : forall (P : V -> Prop) (m : list (K * V)) k v,
    Forall (fun kv => P (snd kv)) m -> lookup keqb k m = Some v -> P v.
  Proof.
    induction m as [|[k' v'] t IH]; intros k v HF H; cbn in H; [discriminate|].
    inversion HF; subst. destruct (keqb k k'); [inversion H; subst; assumption | eapply IH; eauto].
  Qed.

  Lemma insert_Forall : forall (P : V -> Prop) (m : list (K * V)) k v,
    Forall (fun kv => P (snd kv)) m -> P v -> Forall (fun kv => P (snd kv)) (insert keqb k v m).
  Proof.
    induction m as [|[k' v'] t IH]; intros k v HF Hv; cbn.
    - constructor; [exact Hv | constructor].
    - inversion HF; subst. destruct (keqb k k'); constructor; auto.
  Qed.

  Lemma keys_insert_present : forall (m : list (K * V)) k v o,
    lookup keqb k m = Some o -> keys (insert keqb k v m) = keys m.
  Proof.
    induction m as [|[k' v'] t IH]; intros k v o H; cbn in *; [discriminate|].
    destruct (keqb k k'); cbn; [reflexivity|]. f_equal. eapply IH. exact H.
  Qed.

  Lemma insert_absent : forall (m : list (K * V)) k v,
    lookup keqb k m = None -> insert keqb k v m = m ++ [(k, v)].
  Proof.
    induction m as [|[k' v'] t IH]; intros k v H; cbn in *; [reflexivity|].
    destruct (keqb k k'); [discriminate|]. f_equal. apply IH. exact H.
  Qed.
End AL.

Lemma ofold_inv : forall (S X : Type) (f : S -> X -> outcome S) (I : S -> Prop),
  (forall s x s', I s -> f s x = Ok s' -> I s') ->
  forall l s s', I s -> ofold f l s = Ok s' -> I s'.
Proof.
  intros S X f I Hstep. induction l as [|x t IH]; intros s s' Hs H; cbn in H.
  - inversion H. subst. exact Hs.
  - destruct (f s x) as [s1| | |] eqn:E; cbn in H; try discriminate.
    eapply IH; [|exact H]. eapply Hstep; eauto.
Qed.

Lemma ofold_not_err : forall (S X : Type) (f : S -> X -> outcome S),
  (forall s x k, f s x <> Err k) -> forall l s k, ofold f l s <> Err k.
Proof.
  intros S X f Hf. induction l as [|x t IH]; intros s k; cbn; [discriminate|].
  destruct (f s x) as [s1|k1| |] eqn:E; cbn; try discriminate.
  - apply IH.
  - exfalso. eapply Hf. exact E.
Qed.

Section Eigen.
  Context {T A : Type}.
  Variable teqb : T -> T -> bool.
  Variable F : Num.
  Variable L : Laws F.
  Notation gstate := (gstate T A).
  Notation R := (num F).
  Notation xmap := (@xmap T F).
  Notation nn := (nn F L).
  Notation pos := (pos F L).

  Definition all_nn (x : xmap) : Prop := Forall (fun kv => nn (snd kv)) x.
  Definition all_pos (x : xmap) : Prop := Forall (fun kv => pos (snd kv)) x.

  Lemma all_pos_nn : forall x, all_pos x -> all_nn x.
  Proof. intros x H. eapply Forall_impl; [|exact H]. intros kv. apply pos_nn. Qed.

  (* every stored weight is >= 0 (NaN counts as 1 in the algorithm) *)
  Definition wnn (e : edge T A) : bool := match ew e with Some z => Z.leb 0 z | None => true end.
  Definition weights_nonneg (g : gstate) : bool :=
    forallb (fun row => forallb (fun cell => forallb wnn (snd cell)) (snd row)) (edges_map g).

  Lemma lookup_In : forall (X : Type) (m : list (nat * X)) k v, lookup Nat.eqb k m = Some v -> exists k', In (k', v) m.
  Proof.
    induction m as [|[k' v'] t IH]; intros k v H; cbn in H; [discriminate|].
    destruct (Nat.eqb k k').
    - inversion H. subst. exists k'. left. reflexivity.
    - destruct (IH _ _ H) as [k'' Hin]. exists k''. right. exact Hin.
  Qed.

  Lemma get_edge_wnn : forall g u v e, weights_nonneg g = true -> get_edge teqb g u v = Ok e -> wnn e = true.
  Proof.
    intros g u v e Hw H. unfold get_edge in H.
    destruct (multi (sp g)); try discriminate.
    destruct (negb (contains_key teqb u (nodes_map g)) || negb (contains_key teqb v (nodes_map g))); try discriminate.
    destruct (get_node_index teqb g u) as [ui| | |]; try discriminate.
    destruct (get_node_index teqb g v) as [vi| | |]; try discriminate.
    unfold get_edge_by_indexes in H.
    destruct (if negb (directed (sp g)) && Nat.ltb vi ui then (vi, ui) else (ui, vi)) as [ou ov].
    destruct (lookup Nat.eqb ou (edges_map g)) as [m|] eqn:E1; try discriminate.
    destruct (lookup Nat.eqb ov m) as [[|e0 es]|] eqn:E2; try discriminate.
    inversion H. subst e0.
    destruct (lookup_In _ _ _ _ E1) as [k1 H1]. destruct (lookup_In _ _ _ _ E2) as [k2 H2].
    unfold weights_nonneg in Hw. rewrite forallb_forall in Hw. specialize (Hw _ H1). cbn [snd] in Hw.
    rewrite forallb_forall in Hw. specialize (Hw _ H2). cbn [snd] in Hw.
    cbn in Hw. apply andb_true_iff in Hw. destruct Hw as [Hw _]. exact Hw.
  Qed.

  Lemma edge_w_nn : forall weighted e, wnn e = true -> nn (edge_w F weighted e).
  Proof.
    intros weighted e H. unfold edge_w. destruct (negb weighted); [apply pos_nn, pos_1|].
    unfold wnn in H. destruct (ew e) as [z|]; [|apply pos_nn, pos_1].
    apply nn_ofZ. apply Z.leb_le. exact H.
  Qed.

  (* ---------------------------------------------------------------- x + A^T x keeps signs and keys *)
  Section Spread.
    Variable g : gstate.
    Variable weighted : bool.
    Hypothesis Hw : weights_nonneg g = true.
    Variable P : R -> Prop.                       (* nn or pos *)
    Hypothesis P_add : forall a b, P a -> nn b -> P (nadd F a b).
    Variable xlast : xmap.
    Hypothesis Hlast : all_nn xlast.

    Definition good (K : list T) (x : xmap) : Prop := Forall (fun kv => P (snd kv)) x /\ keys x = K.

    Lemma add_to_good : forall K x k v x', good K x -> nn v -> add_to teqb F x k v = Ok x' -> good K x'.
    Proof.
      intros K x k v x' [HP HK] Hv H. unfold add_to in H.
      destruct (lookup teqb k x) as [old|] eqn:E; try discriminate. inversion H. subst x'. split.
      - apply insert_Forall; [exact HP|]. apply P_add; [|exact Hv]. eapply (lookup_Forall teqb P); eauto.
      - rewrite (keys_insert_present teqb x k _ old E). exact HK.
    Qed.

    Lemma push_node_good : forall K x n x', good K x -> push_node teqb F g weighted xlast x n = Ok x' -> good K x'.
    Proof.
      intros K x n x' Hg H. unfold push_node in H.
      destruct (get_successors_or_neighbors teqb g n) as [nbrs| | |]; cbn in H; try discriminate.
      eapply (ofold_inv _ _ _ (good K)); [|exact Hg|exact H].
      intros s nbr s' Hs Hf. cbn beta in Hf.
      destruct (get_edge teqb g n (nname nbr)) as [e| | |] eqn:Ee; try discriminate.
      destruct (lookup teqb n xlast) as [xn|] eqn:El; try discriminate.
      eapply add_to_good; [exact Hs| |exact Hf].
      apply nn_mul.
      - eapply (lookup_Forall teqb nn); eauto.
      - apply edge_w_nn. eapply get_edge_wnn; eauto.
    Qed.

    Lemma spread_good : forall x1, Forall (fun kv => P (snd kv)) xlast ->
      spread teqb F g weighted xlast = Ok x1 -> good (keys xlast) x1.
    Proof.
      intros x1 HP H. unfold spread in H.
      eapply (ofold_inv _ _ _ (good (keys xlast))); [|split; [exact HP|reflexivity]|exact H].
      intros s n s' Hs Hf. eapply push_node_good; eauto.
    Qed.
  End Spread.

  (* ---------------------------------------------------------------- normalisation *)
  Lemma sumsq_from_nn : forall l acc, nn acc -> Forall nn l ->
    nn (fold_left (fun a v => nadd F a (nmul F v v)) l acc).
  Proof.
    induction l as [|v t IH]; intros acc Ha Hl; cbn; [exact Ha|].
    inversion Hl; subst. apply IH; [|assumption]. apply nn_add; [exact Ha | apply nn_mul; assumption].
  Qed.

  Lemma sumsq_from_pos : forall l acc, pos acc -> Forall nn l ->
    pos (fold_left (fun a v => nadd F a (nmul F v v)) l acc).
  Proof.
    induction l as [|v t IH]; intros acc Ha Hl; cbn; [exact Ha|].
    inversion Hl; subst. apply IH; [|assumption]. apply pos_add; [exact Ha | apply nn_mul; assumption].
  Qed.

  Lemma values_Forall : forall (P : R -> Prop) (x : xmap), Forall (fun kv => P (snd kv)) x -> Forall P (values x).
  Proof. intros P x H. unfold values. induction H; cbn; constructor; auto. Qed.

  Lemma sumsq_nn : forall x, all_nn x -> nn (sumsq F (values x)).
  Proof. intros x H. unfold sumsq. apply sumsq_from_nn; [apply nn_0 | apply values_Forall; exact H]. Qed.

  Lemma sumsq_pos : forall x, all_pos x -> x <> [] -> pos (sumsq F (values x)).
  Proof.
    intros x H Hne. destruct x as [|[k v] t]; [congruence|]. inversion H; subst. cbn in *.
    unfold sumsq. cbn. apply sumsq_from_pos.
    - apply pos_add_r; [apply nn_0 | apply pos_mul; assumption].
    - apply values_Forall. eapply Forall_impl; [|eassumption]. intros kv. apply pos_nn.
  Qed.

  Lemma norm_pos : forall x, all_nn x -> pos (norm_of F x).
  Proof.
    intros x H. unfold norm_of.
    destruct (neqb F (nsqrt F (sumsq F (values x))) (n0 F)) eqn:E; [apply pos_1|].
    apply nn_neq0_pos; [|exact E]. apply nn_sqrt. apply sumsq_nn. exact H.
  Qed.

  Lemma norm_is_sqrt : forall x, all_pos x -> x <> [] -> norm_of F x = nsqrt F (sumsq F (values x)).
  Proof.
    intros x H Hne. unfold norm_of.
    rewrite (pos_neq0 F L); [reflexivity|]. apply pos_sqrt. apply sumsq_pos; assumption.
  Qed.

  Lemma normalise_keys : forall x : xmap, keys (normalise F x) = keys x.
  Proof. intros x. unfold normalise, keys. rewrite map_map. cbn. reflexivity. Qed.

  Lemma normalise_nn : forall x, all_nn x -> all_nn (normalise F x).
  Proof.
    intros x H. unfold normalise, all_nn. apply Forall_map. eapply Forall_impl; [|exact H].
    intros kv Hkv. cbn. apply nn_div; [exact Hkv | apply norm_pos; exact H].
  Qed.

  Lemma normalise_pos : forall x, all_pos x -> all_pos (normalise F x).
  Proof.
    intros x H. unfold normalise, all_pos. apply Forall_map. eapply Forall_impl; [|exact H].
    intros kv Hkv. cbn. apply pos_div; [exact Hkv | apply norm_pos; apply all_pos_nn; exact H].
  Qed.

  (* sum of squares of the scaled vector = (sum of squares) / c^2 *)
  Lemma sumsq_scaled : forall c l acc, pos c ->
    fold_left (fun a v => nadd F a (nmul F v v)) (map (fun v => ndiv F v c) l) (ndiv F acc (nmul F c c)) =
    ndiv F (fold_left (fun a v => nadd F a (nmul F v v)) l acc) (nmul F c c).
  Proof.
    intros c. induction l as [|v t IH]; intros acc Hc; cbn; [reflexivity|].
    rewrite (div_sq F L) by exact Hc. rewrite (div_add F L). apply IH. exact Hc.
  Qed.

  Theorem normalise_unit : forall x, all_pos x -> x <> [] -> sumsq F (values (normalise F x)) = n1 F.
  Proof.
    intros x H Hne.
    assert (Hv : values (normalise F x) = map (fun v => ndiv F v (norm_of F x)) (values x)).
    { unfold normalise, values. repeat rewrite map_map. reflexivity. }
    rewrite Hv. unfold sumsq.
    assert (Hc : pos (norm_of F x)) by (apply norm_pos, all_pos_nn; exact H).
    rewrite <- (zero_div F L (nmul F (norm_of F x) (norm_of F x))) at 1.
    rewrite sumsq_scaled by exact Hc.
    rewrite (norm_is_sqrt x H Hne).
    rewrite (sqrt_sq F L) by (apply sumsq_nn, all_pos_nn; exact H).
    apply (div_self F L). apply sumsq_pos; assumption.
  Qed.

  (* ---------------------------------------------------------------- one pass of the loop *)
  Section Step.
    Variable g : gstate.
    Variable weighted : bool.
    Hypothesis Hw : weights_nonneg g = true.

    Lemma step_inv : forall xlast x y,
      step teqb F g weighted xlast = Ok (x, y) ->
      exists x1, spread teqb F g weighted xlast = Ok x1 /\ x = normalise F x1 /\
                 l1_change teqb F x xlast = Ok y.
    Proof.
      intros xlast x y H. unfold step in H.
      destruct (spread teqb F g weighted xlast) as [x1| | |]; cbn in H; try discriminate.
      destruct (l1_change teqb F (normalise F x1) xlast) as [y'| | |] eqn:E; cbn in H; try discriminate.
      inversion H. subst. exists x1. repeat split. exact E.
    Qed.

    Lemma step_nn : forall xlast x y, all_nn xlast ->
      step teqb F g weighted xlast = Ok (x, y) -> all_nn x /\ keys x = keys xlast.
    Proof.
      intros xlast x y Hl H. destruct (step_inv _ _ _ H) as [x1 [Hs [Hx _]]]. subst x.
      destruct (spread_good g weighted Hw nn (nn_add F L) xlast Hl x1 Hl Hs) as [H1 H2].
      split; [apply normalise_nn; exact H1 | rewrite normalise_keys; exact H2].
    Qed.

    Lemma step_pos : forall xlast x y, all_pos xlast ->
      step teqb F g weighted xlast = Ok (x, y) -> all_pos x /\ keys x = keys xlast.
    Proof.
      intros xlast x y Hl H. destruct (step_inv _ _ _ H) as [x1 [Hs [Hx _]]]. subst x.
      destruct (spread_good g weighted Hw pos (pos_add F L) xlast (all_pos_nn _ Hl) x1 Hl Hs) as [H1 H2].
      split; [apply normalise_pos; exact H1 | rewrite normalise_keys; exact H2].
    Qed.

    Lemma step_unit : forall xlast x y, all_pos xlast -> xlast <> [] ->
      step teqb F g weighted xlast = Ok (x, y) -> sumsq F (values x) = n1 F.
    Proof.
      intros xlast x y Hl Hne H. destruct (step_inv _ _ _ H) as [x1 [Hs [Hx _]]]. subst x.
      destruct (spread_good g weighted Hw pos (pos_add F L) xlast (all_pos_nn _ Hl) x1 Hl Hs) as [H1 H2].
      apply normalise_unit; [exact H1|]. intro X. subst x1. cbn in H2. destruct xlast; [congruence|discriminate].
    Qed.

    (* ---------------------------------------------------------------- the loop *)
    (* Ok is returned only from a pass whose L1 test succeeded, and the vector
       returned is normalise (xlast + A^T xlast) for the xlast of that pass *)
    Theorem iterate_ok_inv : forall fuel thr x0 x,
      iterate teqb F fuel g weighted thr x0 = Ok x ->
      exists xlast x1 y,
        spread teqb F g weighted xlast = Ok x1 /\ x = normalise F x1 /\
        l1_change teqb F x xlast = Ok y /\ nltb F y thr = true.
    Proof.
      induction fuel as [|f IH]; intros thr x0 x H; cbn in H; [discriminate|].
      destruct (step teqb F g weighted x0) as [[x' y]| | |] eqn:E; cbn in H; try discriminate.
      destruct (nltb F y thr) eqn:Et.
      - inversion H. subst x'. destruct (step_inv _ _ _ E) as [x1 [Hs [Hx Hy]]].
        exists x0, x1, y. auto.
      - eapply IH. exact H.
    Qed.

    Theorem iterate_nn : forall fuel thr x0 x, all_nn x0 ->
      iterate teqb F fuel g weighted thr x0 = Ok x -> all_nn x /\ keys x = keys x0.
    Proof.
      induction fuel as [|f IH]; intros thr x0 x H0 H; cbn in H; [discriminate|].
      destruct (step teqb F g weighted x0) as [[x' y]| | |] eqn:E; cbn in H; try discriminate.
      destruct (step_nn _ _ _ H0 E) as [H1 H2].
      destruct (nltb F y thr).
      - inversion H. subst x'. auto.
      - destruct (IH _ _ _ H1 H) as [H3 H4]. split; [exact H3 | congruence].
    Qed.

    Theorem iterate_unit : forall fuel thr x0 x, all_pos x0 -> x0 <> [] ->
      iterate teqb F fuel g weighted thr x0 = Ok x -> sumsq F (values x) = n1 F.
    Proof.
      induction fuel as [|f IH]; intros thr x0 x H0 Hne H; cbn in H; [discriminate|].
      destruct (step teqb F g weighted x0) as [[x' y]| | |] eqn:E; cbn in H; try discriminate.
      destruct (nltb F y thr).
      - inversion H. subst x'. eapply step_unit; eauto.
      - destruct (step_pos _ _ _ H0 E) as [H1 H2]. eapply IH; [exact H1| |exact H].
        intro X. subst x'. cbn in H2. destruct x0; [congruence|discriminate].
    Qed.
  End Step.

  (* the loop body never produces an Error value (only Ok or a panic) ... *)
  Lemma step_not_err : forall (g : gstate) weighted x k, step teqb F g weighted x <> Err k.
  Proof.
    intros g weighted x k. unfold step.
    destruct (spread teqb F g weighted x) as [x1|k1| |] eqn:E; cbn; try discriminate.
    - destruct (l1_change teqb F (normalise F x1) x) as [y|k2| |] eqn:E2; cbn; try discriminate.
      exfalso. revert E2. unfold l1_change. apply ofold_not_err.
      intros s kv k0. destruct (lookup teqb (fst kv) x); discriminate.
    - exfalso. revert E. unfold spread. apply ofold_not_err.
      intros s n k0. unfold push_node.
      destruct (get_successors_or_neighbors teqb g n) as [nbrs|k3| |] eqn:E3; cbn; try discriminate.
      + apply ofold_not_err. intros s1 nbr k4.
        destruct (get_edge teqb g n (nname nbr)); try discriminate.
        destruct (lookup teqb n x); try discriminate.
        unfold add_to. destruct (lookup teqb (nname nbr) s1); discriminate.
      + exfalso. revert E3. unfold get_successors_or_neighbors.
        destruct (if directed (sp g) then get_successor_nodes teqb g n else get_neighbor_nodes teqb g n); discriminate.
  Qed.

  (* ... so the only Error the loop can return is the one of its last line *)
  Theorem iterate_err_kind : forall fuel (g : gstate) weighted thr x k,
    iterate teqb F fuel g weighted thr x = Err k -> k = PowerIterationFailedConvergence.
  Proof.
    induction fuel as [|f IH]; intros g weighted thr x k H; cbn in H.
    - inversion H. reflexivity.
    - destruct (step teqb F g weighted x) as [[x' y]|k1| |] eqn:E; cbn in H; try discriminate.
      + destruct (nltb F y thr); [discriminate|]. eapply IH. exact H.
      + exfalso. eapply step_not_err. exact E.
  Qed.

  (* when no pass within max_iter meets the tolerance the result is the error, never a vector *)
  Theorem iterate_exhausted : forall fuel (g : gstate) weighted thr x,
    (forall y, In y (trace teqb F fuel g weighted thr x) -> nltb F y thr = false) ->
    forall r, iterate teqb F fuel g weighted thr x = Ok r -> False.
  Proof.
    induction fuel as [|f IH]; intros g weighted thr x Hall r H; cbn in H; [discriminate|].
    cbn in Hall.
    destruct (step teqb F g weighted x) as [[x' y]| | |] eqn:E; cbn in H; try discriminate.
    cbn [snd fst] in Hall.
    destruct (nltb F y thr) eqn:Et.
    - specialize (Hall y (or_introl eq_refl)). congruence.
    - eapply IH; [|exact H]. intros y' Hin. apply Hall. right. exact Hin.
  Qed.

  (* ---------------------------------------------------------------- the entry point *)
  Lemma insert_nonempty : forall (m : xmap) k v, insert teqb k v m <> [].
  Proof. intros [|[k' v'] t] k v; cbn; [discriminate|]. destruct (teqb k k'); discriminate. Qed.

  Lemma init_fold_Forall : forall (P : R -> Prop) c (l : list (node T A)) (m : xmap),
    P c -> Forall (fun kv => P (snd kv)) m ->
    Forall (fun kv => P (snd kv)) (fold_left (fun m n => insert teqb (nname n) c m) l m).
  Proof.
    intros P c. induction l as [|n t IH]; intros m Hc Hm; cbn; [exact Hm|].
    apply IH; [exact Hc|]. apply insert_Forall; assumption.
  Qed.

  Lemma init_fold_nonempty : forall c (l : list (node T A)) (m : xmap),
    m <> [] -> fold_left (fun m n => insert teqb (nname n) c m) l m <> [].
  Proof.
    intros c. induction l as [|n t IH]; intros m Hm; cbn; [exact Hm|]. apply IH. apply insert_nonempty.
  Qed.

  Lemma init_pos : forall g : gstate, nodes_vec g <> [] -> all_pos (init_x teqb F g) /\ init_x teqb F g <> [].
  Proof.
    intros g Hne. unfold init_x, get_all_nodes.
    assert (Hc : pos (ndiv F (n1 F) (nofZ F (Z.of_nat (length (nodes_vec g)))))).
    { apply pos_div; [apply pos_1|]. apply pos_ofZ. destruct (nodes_vec g); [congruence|]. cbn [length]. lia. }
    split.
    - apply init_fold_Forall; [exact Hc | constructor].
    - destruct (nodes_vec g) as [|n t]; [congruence|]. cbn [fold_left]. apply init_fold_nonempty.
      apply insert_nonempty.
  Qed.

  (* the empty graph: every pass sees L1 change 0 against the threshold 0*tol, so the loop runs out *)
  Lemma iterate_empty : forall fuel (g : gstate) weighted t r,
    iterate teqb F fuel g weighted (nmul F (nofZ F 0) t) [] = Ok r -> False.
  Proof.
    induction fuel as [|f IH]; intros g weighted t r H; cbn in H; [discriminate|].
    rewrite (lt_empty F L) in H. eapply IH. exact H.
  Qed.

  (* with distinct node names the initial map has exactly the node names as keys, in order *)
  Section InitKeys.
    Hypothesis teqb_spec : forall x y, teqb x y = true <-> x = y.

    Lemma lookup_absent : forall (m : xmap) k, ~ In k (keys m) -> lookup teqb k m = None.
    Proof.
      induction m as [|[k' v'] t IH]; intros k Hn; cbn; [reflexivity|].
      destruct (teqb k k') eqn:E.
      - apply teqb_spec in E. subst. exfalso. apply Hn. left. reflexivity.
      - apply IH. intro X. apply Hn. right. exact X.
    Qed.

    Lemma init_fold_keys : forall c (l : list (node T A)) (m : xmap),
      NoDup (keys m ++ map nname l) ->
      keys (fold_left (fun m n => insert teqb (nname n) c m) l m) = keys m ++ map nname l.
    Proof.
      intros c. induction l as [|n t IH]; intros m Hnd; cbn [fold_left map].
      - rewrite app_nil_r. reflexivity.
      - assert (Hn : ~ In (nname n) (keys m)).
        { intro X. apply NoDup_remove_2 in Hnd. apply Hnd. apply in_or_app. left. exact X. }
        rewrite (insert_absent teqb m _ c (lookup_absent m _ Hn)).
        rewrite IH.
        + unfold keys. rewrite map_app. cbn. rewrite <- app_assoc. reflexivity.
        + unfold keys. rewrite map_app. cbn. rewrite <- app_assoc. cbn.
          exact Hnd.
    Qed.

    Theorem init_keys : forall g : gstate, NoDup (map nname (nodes_vec g)) ->
      keys (init_x teqb F g) = map nname (nodes_vec g).
    Proof. intros g H. unfold init_x, get_all_nodes. rewrite init_fold_keys; [reflexivity | exact H]. Qed.
  End InitKeys.

  Section Top.
    Variable g : gstate.
    Variables (weighted : bool) (max_iter : option nat) (tol : option Q).

    Theorem ev_multi_refused : multi (sp g) = true ->
      eigenvector_centrality teqb F g weighted max_iter tol = Err WrongMethod.
    Proof. intros H. unfold eigenvector_centrality. rewrite H. reflexivity. Qed.

    Theorem ev_err_kinds : forall k,
      eigenvector_centrality teqb F g weighted max_iter tol = Err k ->
      (multi (sp g) = true /\ k = WrongMethod) \/
      (multi (sp g) = false /\ k = PowerIterationFailedConvergence).
    Proof.
      intros k H. unfold eigenvector_centrality in H. destruct (multi (sp g)).
      - left. inversion H. auto.
      - right. split; [reflexivity|]. eapply iterate_err_kind. exact H.
    Qed.

    Theorem ev_entries : forall x,
      eigenvector_centrality teqb F g weighted max_iter tol = Ok x ->
      weights_nonneg g = true -> keys x = keys (init_x teqb F g).
    Proof.
      intros x H Hw. unfold eigenvector_centrality in H. destruct (multi (sp g)); [discriminate|].
      destruct (nodes_vec g) as [|n0' t] eqn:En.
      - exfalso. unfold init_x, threshold, get_all_nodes in H. rewrite En in H. cbn in H.
        eapply iterate_empty. exact H.
      - assert (Hne : nodes_vec g <> []) by (rewrite En; discriminate).
        destruct (init_pos g Hne) as [Hp _].
        eapply iterate_nn; [exact Hw | apply all_pos_nn; exact Hp | exact H].
    Qed.

    Theorem ev_nonneg : forall x,
      eigenvector_centrality teqb F g weighted max_iter tol = Ok x ->
      weights_nonneg g = true -> all_nn x.
    Proof.
      intros x H Hw. unfold eigenvector_centrality in H. destruct (multi (sp g)); [discriminate|].
      destruct (nodes_vec g) as [|n0' t] eqn:En.
      - exfalso. unfold init_x, threshold, get_all_nodes in H. rewrite En in H. cbn in H.
        eapply iterate_empty. exact H.
      - assert (Hne : nodes_vec g <> []) by (rewrite En; discriminate).
        destruct (init_pos g Hne) as [Hp _].
        eapply iterate_nn; [exact Hw | apply all_pos_nn; exact Hp | exact H].
    Qed.

    Theorem ev_unit_norm : forall x,
      eigenvector_centrality teqb F g weighted max_iter tol = Ok x ->
      weights_nonneg g = true -> sumsq F (values x) = n1 F.
    Proof.
      intros x H Hw. unfold eigenvector_centrality in H. destruct (multi (sp g)); [discriminate|].
      destruct (nodes_vec g) as [|n0' t] eqn:En.
      - exfalso. unfold init_x, threshold, get_all_nodes in H. rewrite En in H. cbn in H.
        eapply iterate_empty. exact H.
      - assert (Hne : nodes_vec g <> []) by (rewrite En; discriminate).
        destruct (init_pos g Hne) as [Hp Hn].
        eapply iterate_unit; [exact Hw | exact Hp | exact Hn | exact H].
    Qed.

    Theorem ev_approx_fixed_point : forall x,
      eigenvector_centrality teqb F g weighted max_iter tol = Ok x ->
      exists xlast x1 y,
        spread teqb F g weighted xlast = Ok x1 /\ x = normalise F x1 /\
        l1_change teqb F x xlast = Ok y /\
        nltb F y (threshold F g (match tol with Some q => nofQ F q | None => nofQ F (1 # 1000000) end)) = true.
    Proof.
      intros x H. unfold eigenvector_centrality in H. destruct (multi (sp g)); [discriminate|].
      eapply iterate_ok_inv. exact H.
    Qed.
  End Top.
End Eigen.
