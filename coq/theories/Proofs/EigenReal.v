(* The number laws of Proofs/EigenOk.v are satisfiable: Coq's real numbers with
   Rsqrt-based [sqrt] are an instance.  (Only this file depends on the axioms of
   the standard library's Reals; the theorems of EigenOk.v are closed.) *)
From Coq Require Import List ZArith QArith Reals Lra.
From GV Require Import Base.Outcome Base.AMap Model.GState Model.Creation Model.Query Model.Eigen Proofs.EigenOk.
Import ListNotations.
Open Scope R_scope.

Definition NumR : Num :=
  mkNum R 0 1 Rplus Rminus Rmult Rdiv Rabs sqrt
        (fun a b => if Rlt_dec a b then true else false)
        (fun a b => if Req_EM_T a b then true else false)
        IZR.

Definition LawsR : Laws NumR.
Proof.
  apply (mkLaws NumR (fun a => 0 <= a) (fun a => 0 < a)); cbn; intros.
  - lra.
  - lra.
  - lra.
  - lra.
  - lra.
  - lra.
  - apply Rmult_le_pos; assumption.
  - apply Rmult_lt_0_compat; assumption.
  - unfold Rdiv. apply Rmult_le_pos; [assumption|]. left. apply Rinv_0_lt_compat. assumption.
  - apply Rdiv_lt_0_compat; assumption.
  - apply sqrt_pos.
  - apply sqrt_lt_R0. assumption.
  - destruct (Req_EM_T a 0); [lra | reflexivity].
  - destruct (Req_EM_T a 0); [discriminate | lra].
  - apply IZR_le. assumption.
  - apply IZR_lt. assumption.
  - apply sqrt_sqrt. assumption.
  - field. lra.
  - unfold Rdiv. ring.
  - field. lra.
  - unfold Rdiv. ring.
  - destruct (Rlt_dec 0 (0 * t)); [lra | reflexivity].
Defined.

(* the hypotheses of the C18 theorems are satisfiable at this instance: the one-node graph converges in one pass *)
Definition ex_sp := mkspecs true DErr MCreate false true SErr.
Definition ex_g1 : gstate Z Z :=
  match new_from_nodes_and_edges Z.eqb Z.ltb [mknode 7%Z None] [] ex_sp with Ok g => g | _ => new ex_sp end.

Example ex_real_ok :
  exists x, eigenvector_centrality Z.eqb NumR ex_g1 false (Some 1%nat) (Some (1 # 100)%Q) = Ok x /\
            weights_nonneg ex_g1 = true.
Proof.
  eexists. split; [|reflexivity].
  cbv -[Rplus Rmult Rdiv Rminus Rabs sqrt Rlt_dec Req_EM_T IZR R0 R1].
  replace (0 + 1 / 1 * (1 / 1))%R with 1%R by field.
  rewrite sqrt_1.
  destruct (Req_EM_T 1 0) as [E|E]; [exfalso; lra|].
  replace (1 / 1 / 1 - 1 / 1)%R with 0%R by field.
  rewrite Rabs_R0.
  destruct (Rlt_dec (0 + 0) (1 * (1 / 100))) as [E2|E2]; [reflexivity | exfalso; lra].
Qed.
