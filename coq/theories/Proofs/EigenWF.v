(* C18, deepening: the structural hypotheses of the C18 theorems follow from the
   coherence invariant [WF] (which holds in every reachable state) and a premise
   over the public edge list [get_all_edges]; the returned vector is a fixed
   point up to the tolerance of  x |-> normalise ((I + A^T) x)  with A read off
   the edge store (Proofs/EigenMatrix.v). *)
From Coq Require Import String List Bool ZArith Arith QArith Lia Permutation.
From GV Require Import Base.Outcome Base.AMap Model.GState Model.Creation Model.Query Model.Eigen
     Spec.AGraph Spec.History.
From GV Require Import Proofs.AMapOk Proofs.WFDefs Proofs.WFNode Proofs.WFAdj Proofs.WFEdge Proofs.Refine
     Proofs.HistoryOk Proofs.AdjOk Proofs.QueryOk Proofs.EigenOk Proofs.EigenMatrix.
Import ListNotations.
Open Scope list_scope.

Section EigenWF.
  Context {T A : Type}.
  Variable teqb : T -> T -> bool.
  Variable tltb : T -> T -> bool.
  Hypothesis teqb_spec : forall x y, teqb x y = true <-> x = y.
  Hypothesis tltb_asym : forall x y, tltb x y = true -> tltb y x = false.
  Hypothesis tltb_total : forall x y, tltb x y = false -> tltb y x = false -> x = y.
  Variable F : Num.

  Notation node := (node T A).
  Notation edge := (edge T A).
  Notation gstate := (gstate T A).
  Notation WF := (@WF T A teqb tltb).
  Notation names := (@names T A).
  Notation group := (@group T A teqb).
  Notation cn := (cn tltb).
  Notation pspec := (peqb_spec teqb teqb_spec).
  Notation R := (num F).
  Notation xmap := (@xmap T F).
  Notation matvec := (matvec teqb tltb F).
  Notation matvec_e := (matvec_e teqb F).

  (* ---------------------------------------------------------------- "stored weights >= 0" on the edge list *)
  (* [weights_nonneg] reads the private index-keyed store [edges_map]; under WF it follows from
     the same condition on the public edge list *)
  Lemma weights_nonneg_of_store (g : gstate) :
    WF g -> (forall e, In e (get_all_edges g) -> wnn e = true) -> weights_nonneg g = true.
  Proof.
    intros W Hall. unfold weights_nonneg.
    apply forallb_forall. intros [i m] Him. cbn [snd].
    apply forallb_forall. intros [j l] Hjl. cbn [snd].
    apply forallb_forall. intros e He.
    destruct (wf_emkeys _ _ _ W) as (Hnd1 & Hnd2).
    pose proof (In_lookup Nat.eqb Nat.eqb_eq _ _ _ Hnd1 Him) as Hli.
    pose proof (In_lookup Nat.eqb Nat.eqb_eq _ _ _ (Hnd2 i m Hli) Hjl) as Hlj.
    pose proof (wf_emap _ _ _ W i j) as Hem. unfold WFDefs.group_idx in Hem. rewrite Hli, Hlj in Hem.
    destruct (directed (sp g) || Nat.leb i j); [|discriminate].
    unfold WFDefs.grp_of in Hem.
    destruct (name_at g i) as [x|]; [|discriminate]. destruct (name_at g j) as [y|]; [|discriminate].
    symmetry in Hem. apply Hall. unfold get_all_edges. apply in_flat_map.
    exists (cn (sp g) x y, l). split; [|exact He].
    apply (AMapOk.lookup_In (peqb teqb) pspec). exact Hem.
  Qed.

  (* ---------------------------------------------------------------- keys = node names *)
  Lemma init_keys_WF (g : gstate) : WF g -> keys (init_x teqb F g) = names g.
  Proof. intros W. apply (init_keys teqb F teqb_spec). apply (wf_nodup _ _ _ W). Qed.

  (* the loop keeps the key list, with no hypothesis on signs: every xlast it sees is indexed by
     the node names in node order, and the pass that returns used such an xlast *)
  Lemma iterate_ok_inv_keys (g : gstate) weighted :
    WF g -> multi (sp g) = false ->
    forall fuel thr x0 x, keys x0 = names g ->
    iterate teqb F fuel g weighted thr x0 = Ok x ->
    exists xlast x1 y,
      keys xlast = names g /\
      spread teqb F g weighted xlast = Ok x1 /\ x = normalise F x1 /\
      l1_change teqb F x xlast = Ok y /\ nltb F y thr = true.
  Proof.
    intros W Hm. induction fuel as [|f IH]; intros thr x0 x Hk H; cbn in H; [discriminate|].
    destruct (step teqb F g weighted x0) as [[x' y]| | |] eqn:E; cbn in H; try discriminate.
    destruct (step_inv teqb F g weighted x0 x' y E) as (x1 & Hs & Hx & Hy).
    destruct (nltb F y thr) eqn:Et.
    - inversion H. subst x. subst x'. exists x0, x1, y. auto.
    - apply (IH thr x' x); [|exact H].
      assert (Hkeys : forall k, In k (keys x0) <-> In k (names g)) by (intros k; rewrite Hk; reflexivity).
      destruct (spread_node_form teqb tltb teqb_spec tltb_asym tltb_total F g weighted W Hm x0 Hkeys)
        as (x1' & Hs' & Hk1 & _).
      rewrite Hs in Hs'. inversion Hs'. subst x1'. rewrite Hx, normalise_keys, Hk1. exact Hk.
  Qed.

  Section Top.
    Variable g : gstate.
    Variables (weighted : bool) (max_iter : option nat) (tol : option Q).
    Hypothesis W : WF g.
    Let thr := threshold F g (match tol with Some q => nofQ F q | None => nofQ F (1 # 1000000) end).

    Lemma ev_ok_single x : eigenvector_centrality teqb F g weighted max_iter tol = Ok x -> multi (sp g) = false.
    Proof. unfold eigenvector_centrality. destruct (multi (sp g)); [discriminate|reflexivity]. Qed.

    (* the returned vector is normalise ((I + A^T) xlast), A from the edge store, for an xlast over
       the node names with ||x - xlast||_1 < n*tol *)
    Theorem ev_approx_eigenvector (SL : SumLaws F) : forall x,
      eigenvector_centrality teqb F g weighted max_iter tol = Ok x ->
      exists xlast y,
        keys xlast = names g /\
        x = normalise F (matvec_e g weighted xlast) /\
        matvec_e g weighted xlast = matvec g weighted xlast /\
        l1_change teqb F x xlast = Ok y /\ nltb F y thr = true.
    Proof.
      intros x H. pose proof (ev_ok_single x H) as Hm.
      unfold eigenvector_centrality in H. rewrite Hm in H.
      destruct (iterate_ok_inv_keys g weighted W Hm _ _ _ _ (init_keys_WF g W) H) as (xlast & x1 & y & Hk & Hs & Hx & Hy & Ht).
      assert (Hnd : NoDup (keys xlast)) by (rewrite Hk; apply (wf_nodup _ _ _ W)).
      assert (Hkeys : forall k, In k (keys xlast) <-> In k (names g)) by (intros k; rewrite Hk; reflexivity).
      rewrite (spread_is_matvec_e teqb tltb teqb_spec tltb_asym tltb_total F SL g weighted W Hm xlast Hnd Hkeys) in Hs.
      inversion Hs. subst x1. exists xlast, y. split; [exact Hk|]. split; [exact Hx|]. split; [|auto].
      symmetry. apply (matvec_edge teqb tltb teqb_spec tltb_asym tltb_total F SL g weighted W Hm xlast Hnd Hkeys).
    Qed.

    (* the existing result theorems with their hypotheses discharged from WF and the edge list *)
    Variable L : Laws F.
    Hypothesis Hw : forall e, In e (get_all_edges g) -> wnn e = true.

    Theorem ev_result_WF : forall x,
      eigenvector_centrality teqb F g weighted max_iter tol = Ok x ->
      keys x = names g /\ Forall (fun kv => nn F L (snd kv)) x /\ sumsq F (values x) = n1 F.
    Proof.
      intros x H. pose proof (weights_nonneg_of_store g W Hw) as Hwn. split; [|split].
      - rewrite (ev_entries teqb F L g weighted max_iter tol x H Hwn). apply init_keys_WF. exact W.
      - apply (ev_nonneg teqb F L g weighted max_iter tol x H Hwn).
      - apply (ev_unit_norm teqb F L g weighted max_iter tol x H Hwn).
    Qed.
  End Top.

  (* ---------------------------------------------------------------- every reachable graph *)
  Theorem ev_result_reachable (L : Laws F) s (g : gstate) weighted max_iter tol x :
    reachable teqb tltb s g ->
    (forall e, In e (get_all_edges g) -> wnn e = true) ->
    eigenvector_centrality teqb F g weighted max_iter tol = Ok x ->
    keys x = names g /\ Forall (fun kv => nn F L (snd kv)) x /\ sumsq F (values x) = n1 F.
  Proof.
    intros Hr Hw H. apply (ev_result_WF g weighted max_iter tol
      (WF_reachable teqb tltb teqb_spec tltb_asym tltb_total s g Hr) L Hw x H).
  Qed.

  Theorem ev_approx_eigenvector_reachable (SL : SumLaws F) s (g : gstate) weighted max_iter tol x :
    reachable teqb tltb s g ->
    eigenvector_centrality teqb F g weighted max_iter tol = Ok x ->
    exists xlast y,
      keys xlast = names g /\
      x = normalise F (matvec_e g weighted xlast) /\
      matvec_e g weighted xlast = matvec g weighted xlast /\
      l1_change teqb F x xlast = Ok y /\
      nltb F y (threshold F g (match tol with Some q => nofQ F q | None => nofQ F (1 # 1000000) end)) = true.
  Proof.
    intros Hr H. apply (ev_approx_eigenvector g weighted max_iter tol
      (WF_reachable teqb tltb teqb_spec tltb_asym tltb_total s g Hr) SL x H).
  Qed.

  Theorem ev_result_new_from (L : Laws F) ns es s (g : gstate) weighted max_iter tol x :
    new_from_nodes_and_edges teqb tltb ns es s = Ok g ->
    (forall e, In e (get_all_edges g) -> wnn e = true) ->
    eigenvector_centrality teqb F g weighted max_iter tol = Ok x ->
    keys x = names g /\ Forall (fun kv => nn F L (snd kv)) x /\ sumsq F (values x) = n1 F.
  Proof.
    intros Hn. apply (ev_result_reachable L s g). apply (new_from_reachable teqb tltb teqb_spec ns es s g Hn).
  Qed.
End EigenWF.
