(* The "Consequently ..." clause of property C03 for the OTHER entry points of dijkstra.rs:
   `all_pairs`, `multi_source` and `get_all_shortest_paths_involving`.

   Composition of
     - Proofs/EdgeStoreOnly.v, Proofs/PathsStoreOnly.v: what `single_source` reports (distances;
       with first_only = false, with_paths = true and positive weights the path SETS) is a
       function of the node list, the kind and the multiset of stored edges, and
     - Proofs/DijkstraWF.v [wf_all_pairs], [wf_multi_source] (C08_reachable_all_pairs /
       C08_reachable_multi_source; their per-source shape is C08_model_*_per_source): on every
       coherent graph the map returned by all_pairs / multi_source has exactly the node names /
       the listed sources as keys, the value at s being THE answer of single_source from s —
       whatever the thread count,
     - Proofs/ParFnsOk.v: the serial arm, the rayon arm under any complete schedule (with
       rayon::join's panic rule or under the pessimistic rule) return what the model with a
       thread count returns.

   The premises that the C08 theorems add to those of the single-source theorems:
     - multi_source: the listed sources are node names (an absent one is Err NodeNotFound on both
       graphs, nothing to compare);
     - all_pairs in weighted mode: every stored edge carries a weight (else
       Err EdgeWeightNotSpecified) — implied by the single-source premise "every stored weight is
       a (positive) real", so nothing is added;
     - no size threshold: the theorems hold for every thread count on either side, i.e. for both
       values of `number_of_nodes() > 20 && current_num_threads() > 1`.

   get_all_shortest_paths_involving(x) returns the all-pairs entries (distance, path list) that
   have a path with x strictly inside, WITHOUT their (source, target) keys and in the iteration
   order of the two hash maps: the two result lists are equal up to order and up to the order
   of each path list ([involving_edge_store_only]: a permutation of one is entrywise similar to
   the other; the entry of a pair (s, t) is kept on one graph iff it is kept on the other). *)
From Coq Require Import String List Bool ZArith QArith Arith Lia Permutation.
From GV Require Import Base.Outcome Base.AMap Model.GState Model.Creation Model.Query Model.Dijkstra Model.Par Model.ParFns.
From GV Require Import Spec.History Spec.ShortestPathDef Spec.ShortestPathRel Spec.EdgeStoreGraph Spec.EdgeStoreAdj.
From GV Require Import Proofs.AMapOk Proofs.WFDefs Proofs.HistoryOk Proofs.DijkstraLoopOk Proofs.DijkstraModelOk Proofs.DijkstraEntryOk Proofs.InvolvingOk.
From GV Require Import Proofs.DijkstraWF Proofs.BrandesWF Proofs.EdgeStoreOnly Proofs.PathsStoreOnly Proofs.ParFnsOk.
Import ListNotations.
Open Scope list_scope.

(* ------------------------------------------------------------------ lists up to order and up to a relation *)
Section PermSim.
  Context {X : Type}.
  Variable R : X -> X -> Prop.

  (* some permutation of [l2] is related to [l1] entry by entry *)
  Definition perm_sim (l1 l2 : list X) : Prop := exists l2', Permutation l2 l2' /\ Forall2 R l1 l2'.

  Lemma perm_sim_nil : perm_sim [] [].
  Proof. exists []. split; [apply Permutation_refl | constructor]. Qed.

  Lemma perm_sim_app a1 a2 b1 b2 : perm_sim a1 a2 -> perm_sim b1 b2 -> perm_sim (a1 ++ b1) (a2 ++ b2).
  Proof.
    intros [a' [Pa Fa]] [b' [Pb Fb]]. exists (a' ++ b'). split; [apply Permutation_app; assumption|].
    apply Forall2_app; assumption.
  Qed.

  Lemma perm_sim_perm_r l1 l2 l2' : Permutation l2 l2' -> perm_sim l1 l2' -> perm_sim l1 l2.
  Proof. intros P [l [Pl F]]. exists l. split; [eapply Permutation_trans; eauto | exact F]. Qed.

  Lemma perm_sim_length l1 l2 : perm_sim l1 l2 -> length l1 = length l2.
  Proof.
    intros [l [P F]]. rewrite (Permutation_length P). clear P. induction F; cbn; congruence.
  Qed.

  Lemma perm_sim_in_l l1 l2 a : perm_sim l1 l2 -> In a l1 -> exists b, In b l2 /\ R a b.
  Proof.
    intros [l [P F]] Ha. induction F as [|x y l1 l' Hxy F IH] in l2, P, Ha |- *; [destruct Ha|].
    destruct Ha as [<- | Ha].
    - exists y. split; [apply (Permutation_in _ (Permutation_sym P)); left; reflexivity | exact Hxy].
    - destruct (IH l' (Permutation_refl _) Ha) as [b [Hb Hr]]. exists b. split; [|exact Hr].
      apply (Permutation_in _ (Permutation_sym P)). right. exact Hb.
  Qed.

  Lemma perm_sim_in_r l1 l2 b : perm_sim l1 l2 -> In b l2 -> exists a, In a l1 /\ R a b.
  Proof.
    intros [l [P F]] Hb. apply (Permutation_in _ P) in Hb. clear P.
    induction F as [|x y l1 l' Hxy F IH]; [destruct Hb|].
    destruct Hb as [<- | Hb]; [exists x; split; [left; reflexivity | exact Hxy]|].
    destruct (IH Hb) as [a [Ha Hr]]. exists a. split; [right; exact Ha | exact Hr].
  Qed.

  Lemma Permutation_filter_local (P : X -> bool) l l' : Permutation l l' -> Permutation (filter P l) (filter P l').
  Proof.
    intros H. induction H as [|x l l' H IH|x y l|l l' l'' H1 IH1 H2 IH2]; cbn [filter].
    - constructor.
    - destruct (P x); [constructor; exact IH | exact IH].
    - destruct (P x), (P y); try apply Permutation_refl. apply perm_swap.
    - eapply Permutation_trans; eauto.
  Qed.

  Lemma perm_sim_filter (P : X -> bool) l1 l2 :
    (forall a b, R a b -> P a = P b) -> perm_sim l1 l2 -> perm_sim (filter P l1) (filter P l2).
  Proof.
    intros HP [l [Pl F]]. exists (filter P l). split; [apply Permutation_filter_local; exact Pl|]. clear Pl.
    induction F as [|x y l1 l' Hxy F IH]; cbn [filter]; [constructor|].
    rewrite (HP x y Hxy). destruct (P y); [constructor; assumption | exact IH].
  Qed.
End PermSim.

Lemma perm_sim_flat_map {X Y} (R : Y -> Y -> Prop) (f : X -> list Y) (l1 l2 : list X) :
  Forall2 (fun a b => perm_sim R (f a) (f b)) l1 l2 -> perm_sim R (flat_map f l1) (flat_map f l2).
Proof.
  intros F. induction F as [|a b l1 l2 Hab F IH]; cbn [flat_map]; [apply perm_sim_nil | apply perm_sim_app; assumption].
Qed.

Lemma Forall2_map_both {X Y X' Y'} (R : X' -> Y' -> Prop) (f : X -> X') (g : Y -> Y') l l' :
  Forall2 (fun a b => R (f a) (g b)) l l' -> Forall2 R (map f l) (map g l').
Proof. intros F. induction F; cbn [map]; constructor; assumption. Qed.

(* two association lists with duplicate-free keys, the same key set and related values:
   some permutation of the second lists the same keys in the order of the first, with related values *)
Lemma assoc_perm_sim {K V} (R : V -> V -> Prop) (m1 m2 : list (K * V)) :
  NoDup (map fst m1) -> NoDup (map fst m2) ->
  (forall k, In k (map fst m1) <-> In k (map fst m2)) ->
  (forall k v1 v2, In (k, v1) m1 -> In (k, v2) m2 -> R v1 v2) ->
  perm_sim (fun a b => fst a = fst b /\ R (snd a) (snd b)) m1 m2.
Proof.
  revert m2. induction m1 as [|[k v1] m1 IH]; intros m2 N1 N2 Hk Hv.
  - destruct m2 as [|[k2 v2] m2]; [apply perm_sim_nil|]. exfalso. apply (proj2 (Hk k2)). left. reflexivity.
  - cbn [map fst] in N1, Hk. inversion N1 as [|k0 t0 Hnotin N1']; subst.
    assert (Hin : In k (map fst m2)) by (apply Hk; left; reflexivity).
    apply in_map_iff in Hin. destruct Hin as [[k' v2] [E Hin]]. cbn in E. subst k'.
    apply in_split in Hin. destruct Hin as [pre [post ->]].
    assert (N2' : NoDup (map fst (pre ++ post))).
    { rewrite map_app in N2 |- *. cbn [map fst] in N2. apply NoDup_remove_1 in N2. exact N2. }
    assert (Hk2 : ~ In k (map fst (pre ++ post))).
    { rewrite map_app in N2 |- *. cbn [map fst] in N2. apply NoDup_remove_2 in N2. exact N2. }
    assert (IH' : perm_sim (fun a b => fst a = fst b /\ R (snd a) (snd b)) m1 (pre ++ post)).
    { apply IH; [exact N1' | exact N2' | |].
      - intros k0. split.
        + intros H0. assert (H1 : In k0 (map fst (pre ++ (k, v2) :: post))) by (apply Hk; right; exact H0).
          rewrite map_app, in_app_iff in H1 |- *. cbn [map fst In] in H1.
          destruct H1 as [H1 | [H1 | H1]]; [left; exact H1 | subst k0; contradiction | right; exact H1].
        + intros H0. assert (H1 : In k0 (map fst (pre ++ (k, v2) :: post))).
          { rewrite map_app, in_app_iff in H0 |- *. cbn [map fst In]. tauto. }
          apply Hk in H1. destruct H1 as [H1 | H1]; [subst k0; contradiction | exact H1].
      - intros k0 a b Ha Hb. apply (Hv k0); [right; exact Ha|].
        rewrite in_app_iff in Hb |- *. cbn [In]. tauto. }
    destruct IH' as [l [Pl Fl]]. exists ((k, v2) :: l). split.
    + eapply Permutation_trans; [apply Permutation_sym; apply Permutation_middle|]. constructor. exact Pl.
    + constructor; [|exact Fl]. cbn [fst snd]. split; [reflexivity|].
      apply (Hv k); [left; reflexivity | apply in_or_app; right; left; reflexivity].
Qed.

(* the arm of `match parallel` is run under a complete schedule (Serial: nothing to schedule) *)
Definition arm_schedule (n : nat) (a : arm) : Prop :=
  match a with
  | Serial => True
  | Rayon pi | RayonAbort pi => schedule n pi
  end.

Section EntryStoreOnly.
  Context {T A : Type}.
  Variable teqb : T -> T -> bool.
  Variable tltb : T -> T -> bool.
  Hypothesis teqb_spec : forall x y, teqb x y = true <-> x = y.
  Hypothesis tltb_asym : forall x y, tltb x y = true -> tltb y x = false.
  Hypothesis tltb_total : forall x y, tltb x y = false -> tltb y x = false -> x = y.

  Notation edge := (edge T A).
  Notation gstate := (gstate T A).
  Notation WF := (@WF T A teqb tltb).
  Notation names := (@names T A).
  Notation name_at := (@name_at T A).
  Notation edge_arc := (@edge_arc T A teqb).
  Notation n_of := number_of_nodes.
  Notation reachable := (reachable teqb tltb).
  Notation tmap := (list (T * spinfo T)).

  (* ------------------------------------------------------------------ what is compared per source *)
  Definition same_distances (target : option T) (m1 m2 : tmap) : Prop :=
    (forall y i1 i2, lookup teqb y m1 = Some i1 -> lookup teqb y m2 = Some i2 -> sp_distance i1 = sp_distance i2) /\
    (forall y, target = None \/ target = Some y ->
               option_map sp_distance (lookup teqb y m1) = option_map sp_distance (lookup teqb y m2)).

  Definition same_paths (target : option T) (m1 m2 : tmap) : Prop :=
    (forall y, target = None \/ target = Some y ->
               option_map sp_distance (lookup teqb y m1) = option_map sp_distance (lookup teqb y m2)) /\
    (forall y i1 i2, lookup teqb y m1 = Some i1 -> lookup teqb y m2 = Some i2 ->
       sp_distance i1 = sp_distance i2 /\
       NoDup (sp_paths i1) /\ NoDup (sp_paths i2) /\
       (forall p, In p (sp_paths i1) <-> In p (sp_paths i2)) /\
       Permutation (sp_paths i1) (sp_paths i2)).

  Definition same_first_path (g1 : gstate) (weighted : bool) (target : option T) (si : nat) (m1 m2 : tmap) : Prop :=
    (forall y, target = None \/ target = Some y ->
               option_map sp_distance (lookup teqb y m1) = option_map sp_distance (lookup teqb y m2)) /\
    (forall y i1 i2, lookup teqb y m1 = Some i1 -> lookup teqb y m2 = Some i2 ->
       sp_distance i1 = sp_distance i2 /\
       exists j p1 p2 q1 q2,
         name_at g1 j = Some y /\ sp_paths i1 = [p1] /\ sp_paths i2 = [p2] /\
         names_of g1 q1 p1 /\ a_SP (edge_arc g1 weighted) (n_of g1) si j q1 /\
         names_of g1 q2 p2 /\ a_SP (edge_arc g1 weighted) (n_of g1) si j q2).

  (* ------------------------------------------------------------------ premises *)
  Lemma edges_have_weight_of_real (g : gstate) : weights_real g -> edges_have_weight g = true.
  Proof.
    intros H. unfold edges_have_weight. apply forallb_forall. intros e He. destruct (H e He) as [z ->]. reflexivity.
  Qed.

  Lemma weights_real_perm (g1 g2 : gstate) :
    Permutation (get_all_edges g1) (get_all_edges g2) -> weights_real g1 -> weights_real g2.
  Proof. intros HP H e He. apply H. apply (Permutation_in _ (Permutation_sym HP)). exact He. Qed.

  (* ------------------------------------------------------------------ lifting a per-source statement *)
  Lemma all_pairs_lift (g1 g2 : gstate) weighted target cutoff fo wp threads1 threads2
        (P : T -> nat -> tmap -> tmap -> Prop) :
    WF g1 -> WF g2 -> small_adj g1 -> small_adj g2 ->
    (weighted = true -> weights_nonneg g1) -> (weighted = true -> weights_nonneg g2) ->
    (weighted = true -> edges_have_weight g1 = true) -> (weighted = true -> edges_have_weight g2 = true) ->
    names g1 = names g2 ->
    (forall t, target = Some t -> In t (names g1)) ->
    cutoff_exceeded cutoff 0 = false ->
    (forall source si, name_at g1 si = Some source ->
       exists m1 m2, single_source teqb g1 weighted source target cutoff fo wp = Ok m1 /\
                     single_source teqb g2 weighted source target cutoff fo wp = Ok m2 /\
                     P source si m1 m2) ->
    exists mm1 mm2,
      all_pairs teqb threads1 g1 weighted target cutoff fo wp = Ok mm1 /\
      all_pairs teqb threads2 g2 weighted target cutoff fo wp = Ok mm2 /\
      (forall s, In s (names g1) <-> exists m, lookup teqb s mm1 = Some m) /\
      (forall s, In s (names g1) <-> exists m, lookup teqb s mm2 = Some m) /\
      (forall s m1 m2, lookup teqb s mm1 = Some m1 -> lookup teqb s mm2 = Some m2 ->
         exists si, name_at g1 si = Some s /\ P s si m1 m2).
  Proof.
    intros W1 W2 S1 S2 N1 N2 H1 H2 Hn Ht Hc Hper.
    assert (Ht2 : forall t, target = Some t -> In t (names g2)) by (intros t Et; rewrite <- Hn; apply Ht; exact Et).
    destruct (wf_all_pairs teqb tltb teqb_spec tltb_total threads1 g1 weighted target cutoff fo wp W1 S1 N1 H1 Ht Hc) as [mm1 [E1 L1]].
    destruct (wf_all_pairs teqb tltb teqb_spec tltb_total threads2 g2 weighted target cutoff fo wp W2 S2 N2 H2 Ht2 Hc) as [mm2 [E2 L2]].
    exists mm1, mm2. split; [exact E1|]. split; [exact E2|].
    assert (Hkey : forall s, In s (names g1) ->
              (exists m, lookup teqb s mm1 = Some m) /\ (exists m, lookup teqb s mm2 = Some m)).
    { intros s Hs. pose proof Hs as Hs'. apply name_at_In in Hs'. destruct Hs' as [si Hsi].
      destruct (Hper s si Hsi) as [m1 [m2 [A1 [A2 _]]]]. split.
      - exists m1. apply L1. split; [exact Hs | exact A1].
      - exists m2. apply L2. split; [rewrite <- Hn; exact Hs | exact A2]. }
    split; [|split].
    - intros s. split; [intros Hs; apply (Hkey s Hs) | intros [m Hm]; apply (proj1 (L1 s m) Hm)].
    - intros s. split; [intros Hs; apply (Hkey s Hs) | intros [m Hm]; rewrite Hn; apply (proj1 (L2 s m) Hm)].
    - intros s m1 m2 Hm1 Hm2. apply L1 in Hm1. apply L2 in Hm2. destruct Hm1 as [Hs A1]. destruct Hm2 as [_ A2].
      apply name_at_In in Hs. destruct Hs as [si Hsi]. exists si. split; [exact Hsi|].
      destruct (Hper s si Hsi) as [m1' [m2' [A1' [A2' HP]]]].
      assert (m1' = m1) by congruence. assert (m2' = m2) by congruence. subst m1' m2'. exact HP.
  Qed.

  Lemma multi_source_lift (g1 g2 : gstate) weighted sources target cutoff fo wp threads1 threads2
        (P : T -> nat -> tmap -> tmap -> Prop) :
    WF g1 -> WF g2 -> small_adj g1 -> small_adj g2 ->
    (weighted = true -> weights_nonneg g1) -> (weighted = true -> weights_nonneg g2) ->
    names g1 = names g2 ->
    (forall s, In s sources -> In s (names g1)) ->
    (forall t, target = Some t -> In t (names g1)) ->
    cutoff_exceeded cutoff 0 = false ->
    (forall source si, name_at g1 si = Some source ->
       exists m1 m2, single_source teqb g1 weighted source target cutoff fo wp = Ok m1 /\
                     single_source teqb g2 weighted source target cutoff fo wp = Ok m2 /\
                     P source si m1 m2) ->
    exists mm1 mm2,
      multi_source teqb threads1 g1 weighted sources target cutoff fo wp = Ok mm1 /\
      multi_source teqb threads2 g2 weighted sources target cutoff fo wp = Ok mm2 /\
      (forall s, In s sources <-> exists m, lookup teqb s mm1 = Some m) /\
      (forall s, In s sources <-> exists m, lookup teqb s mm2 = Some m) /\
      (forall s m1 m2, lookup teqb s mm1 = Some m1 -> lookup teqb s mm2 = Some m2 ->
         exists si, name_at g1 si = Some s /\ P s si m1 m2).
  Proof.
    intros W1 W2 S1 S2 N1 N2 Hn Hsrc Ht Hc Hper.
    assert (Ht2 : forall t, target = Some t -> In t (names g2)) by (intros t Et; rewrite <- Hn; apply Ht; exact Et).
    assert (Hsrc2 : forall s, In s sources -> In s (names g2)) by (intros s Hs; rewrite <- Hn; apply Hsrc; exact Hs).
    destruct (wf_multi_source teqb tltb teqb_spec tltb_total threads1 g1 weighted sources target cutoff fo wp W1 S1 N1 Hsrc Ht Hc)
      as [mm1 [E1 L1]].
    destruct (wf_multi_source teqb tltb teqb_spec tltb_total threads2 g2 weighted sources target cutoff fo wp W2 S2 N2 Hsrc2 Ht2 Hc)
      as [mm2 [E2 L2]].
    exists mm1, mm2. split; [exact E1|]. split; [exact E2|].
    assert (Hkey : forall s, In s sources ->
              (exists m, lookup teqb s mm1 = Some m) /\ (exists m, lookup teqb s mm2 = Some m)).
    { intros s Hs. pose proof (Hsrc s Hs) as Hs'. apply name_at_In in Hs'. destruct Hs' as [si Hsi].
      destruct (Hper s si Hsi) as [m1 [m2 [A1 [A2 _]]]]. split.
      - exists m1. apply L1. split; [exact Hs | exact A1].
      - exists m2. apply L2. split; [exact Hs | exact A2]. }
    split; [|split].
    - intros s. split; [intros Hs; apply (Hkey s Hs) | intros [m Hm]; apply (proj1 (L1 s m) Hm)].
    - intros s. split; [intros Hs; apply (Hkey s Hs) | intros [m Hm]; apply (proj1 (L2 s m) Hm)].
    - intros s m1 m2 Hm1 Hm2. apply L1 in Hm1. apply L2 in Hm2. destruct Hm1 as [Hs A1]. destruct Hm2 as [_ A2].
      apply Hsrc in Hs. apply name_at_In in Hs. destruct Hs as [si Hsi]. exists si. split; [exact Hsi|].
      destruct (Hper s si Hsi) as [m1' [m2' [A1' [A2' HP]]]].
      assert (m1' = m1) by congruence. assert (m2' = m2) by congruence. subst m1' m2'. exact HP.
  Qed.

  (* ------------------------------------------------------------------ the premises of the lifting lemmas
     from those of the single-source theorems *)
  Lemma store_only_premises (s1 s2 : specs) (g1 g2 : gstate) (weighted : bool) :
    reachable s1 g1 -> reachable s2 g2 -> directed s1 = directed s2 ->
    Permutation (get_all_edges g1) (get_all_edges g2) ->
    (weighted = true -> weights_nonneg g1 /\ weights_real g1) ->
    WF g1 /\ WF g2 /\
    (weighted = true -> weights_nonneg g1) /\ (weighted = true -> weights_nonneg g2) /\
    (weighted = true -> edges_have_weight g1 = true) /\ (weighted = true -> edges_have_weight g2 = true).
  Proof.
    intros R1 R2 Hd HP Hw.
    destruct (reachable_pair teqb tltb teqb_spec tltb_asym tltb_total s1 s2 g1 g2 R1 R2 Hd) as [W1 [W2 _]].
    split; [exact W1|]. split; [exact W2|]. split; [intros E; apply (Hw E)|].
    split; [intros E; apply (weights_nonneg_perm g1 g2 HP); apply (Hw E)|].
    split; intros E; apply edges_have_weight_of_real; [apply (Hw E) | apply (weights_real_perm g1 g2 HP); apply (Hw E)].
  Qed.

  Lemma nonneg_real_of_real_positive (g : gstate) (weighted : bool) :
    (weighted = true -> weights_real_positive g) -> weighted = true -> weights_nonneg g /\ weights_real g.
  Proof.
    intros H E. split; [apply nonneg_of_positive; apply positive_of_real_positive; apply (H E) | apply real_of_positive; apply (H E)].
  Qed.

  (* ================================================================ all_pairs *)
  (* distances, any first_only / with_paths *)
  Theorem all_pairs_distances_edge_store_only (s1 s2 : specs) (g1 g2 : gstate) weighted target cutoff fo wp threads1 threads2 :
    reachable s1 g1 -> reachable s2 g2 -> directed s1 = directed s2 ->
    names g1 = names g2 -> Permutation (get_all_edges g1) (get_all_edges g2) ->
    small_adj g1 -> small_adj g2 ->
    (weighted = true -> weights_nonneg g1 /\ weights_real g1) ->
    (forall t, target = Some t -> In t (names g1)) ->
    cutoff_exceeded cutoff 0 = false ->
    exists mm1 mm2,
      all_pairs teqb threads1 g1 weighted target cutoff fo wp = Ok mm1 /\
      all_pairs teqb threads2 g2 weighted target cutoff fo wp = Ok mm2 /\
      (forall s, In s (names g1) <-> exists m, lookup teqb s mm1 = Some m) /\
      (forall s, In s (names g1) <-> exists m, lookup teqb s mm2 = Some m) /\
      (forall s m1 m2, lookup teqb s mm1 = Some m1 -> lookup teqb s mm2 = Some m2 -> same_distances target m1 m2).
  Proof.
    intros R1 R2 Hd Hn HP S1 S2 Hw Ht Hc.
    destruct (store_only_premises s1 s2 g1 g2 weighted R1 R2 Hd HP Hw) as [W1 [W2 [N1 [N2 [H1 H2]]]]].
    destruct (all_pairs_lift g1 g2 weighted target cutoff fo wp threads1 threads2 (fun _ _ m1 m2 => same_distances target m1 m2)
                W1 W2 S1 S2 N1 N2 H1 H2 Hn Ht Hc) as [mm1 [mm2 [E1 [E2 [K1 [K2 Hper]]]]]].
    { intros source si Hsi.
      destruct (distances_edge_store_only teqb tltb teqb_spec tltb_asym tltb_total s1 s2 g1 g2 weighted source target cutoff fo wp si
                  R1 R2 Hd Hn HP S1 S2 Hw Hsi Ht Hc) as [m1 [m2 [A1 [A2 [D1 D2]]]]].
      exists m1, m2. split; [exact A1|]. split; [exact A2|]. split; [exact D1 | exact D2]. }
    exists mm1, mm2. split; [exact E1|]. split; [exact E2|]. split; [exact K1|]. split; [exact K2|].
    intros s m1 m2 L1 L2. destruct (Hper s m1 m2 L1 L2) as [_ [_ H]]. exact H.
  Qed.

  (* all shortest paths (first_only = false, with_paths = true), positive weights *)
  Theorem all_pairs_paths_edge_store_only (s1 s2 : specs) (g1 g2 : gstate) weighted target cutoff threads1 threads2 :
    reachable s1 g1 -> reachable s2 g2 -> directed s1 = directed s2 ->
    names g1 = names g2 -> Permutation (get_all_edges g1) (get_all_edges g2) ->
    small_adj g1 -> small_adj g2 ->
    (weighted = true -> weights_real_positive g1) ->
    (forall t, target = Some t -> In t (names g1)) ->
    cutoff_exceeded cutoff 0 = false ->
    exists mm1 mm2,
      all_pairs teqb threads1 g1 weighted target cutoff false true = Ok mm1 /\
      all_pairs teqb threads2 g2 weighted target cutoff false true = Ok mm2 /\
      (forall s, In s (names g1) <-> exists m, lookup teqb s mm1 = Some m) /\
      (forall s, In s (names g1) <-> exists m, lookup teqb s mm2 = Some m) /\
      (forall s m1 m2, lookup teqb s mm1 = Some m1 -> lookup teqb s mm2 = Some m2 -> same_paths target m1 m2).
  Proof.
    intros R1 R2 Hd Hn HP S1 S2 Hw Ht Hc.
    destruct (store_only_premises s1 s2 g1 g2 weighted R1 R2 Hd HP (nonneg_real_of_real_positive g1 weighted Hw))
      as [W1 [W2 [N1 [N2 [H1 H2]]]]].
    destruct (all_pairs_lift g1 g2 weighted target cutoff false true threads1 threads2 (fun _ _ m1 m2 => same_paths target m1 m2)
                W1 W2 S1 S2 N1 N2 H1 H2 Hn Ht Hc) as [mm1 [mm2 [E1 [E2 [K1 [K2 Hper]]]]]].
    { intros source si Hsi.
      destruct (paths_edge_store_only teqb tltb teqb_spec tltb_asym tltb_total s1 s2 g1 g2 weighted source target cutoff si
                  R1 R2 Hd Hn HP S1 S2 Hw Hsi Ht Hc) as [m1 [m2 [A1 [A2 [D1 D2]]]]].
      exists m1, m2. split; [exact A1|]. split; [exact A2|]. split; [exact D1 | exact D2]. }
    exists mm1, mm2. split; [exact E1|]. split; [exact E2|]. split; [exact K1|]. split; [exact K2|].
    intros s m1 m2 L1 L2. destruct (Hper s m1 m2 L1 L2) as [_ [_ H]]. exact H.
  Qed.

  (* first_only = true, with_paths = true, non-negative weights *)
  Theorem all_pairs_first_path_edge_store_only (s1 s2 : specs) (g1 g2 : gstate) weighted target cutoff threads1 threads2 :
    reachable s1 g1 -> reachable s2 g2 -> directed s1 = directed s2 ->
    names g1 = names g2 -> Permutation (get_all_edges g1) (get_all_edges g2) ->
    small_adj g1 -> small_adj g2 ->
    (weighted = true -> weights_nonneg g1 /\ weights_real g1) ->
    (forall t, target = Some t -> In t (names g1)) ->
    cutoff_exceeded cutoff 0 = false ->
    exists mm1 mm2,
      all_pairs teqb threads1 g1 weighted target cutoff true true = Ok mm1 /\
      all_pairs teqb threads2 g2 weighted target cutoff true true = Ok mm2 /\
      (forall s, In s (names g1) <-> exists m, lookup teqb s mm1 = Some m) /\
      (forall s, In s (names g1) <-> exists m, lookup teqb s mm2 = Some m) /\
      (forall s m1 m2, lookup teqb s mm1 = Some m1 -> lookup teqb s mm2 = Some m2 ->
         exists si, name_at g1 si = Some s /\ same_first_path g1 weighted target si m1 m2).
  Proof.
    intros R1 R2 Hd Hn HP S1 S2 Hw Ht Hc.
    destruct (store_only_premises s1 s2 g1 g2 weighted R1 R2 Hd HP Hw) as [W1 [W2 [N1 [N2 [H1 H2]]]]].
    apply (all_pairs_lift g1 g2 weighted target cutoff true true threads1 threads2
             (fun _ si m1 m2 => same_first_path g1 weighted target si m1 m2) W1 W2 S1 S2 N1 N2 H1 H2 Hn Ht Hc).
    intros source si Hsi.
    destruct (first_path_edge_store_only teqb tltb teqb_spec tltb_asym tltb_total s1 s2 g1 g2 weighted source target cutoff si
                R1 R2 Hd Hn HP S1 S2 Hw Hsi Ht Hc) as [m1 [m2 [A1 [A2 [D1 D2]]]]].
    exists m1, m2. split; [exact A1|]. split; [exact A2|]. split; [exact D1 | exact D2].
  Qed.

  (* ================================================================ multi_source *)
  Theorem multi_source_distances_edge_store_only (s1 s2 : specs) (g1 g2 : gstate) weighted sources target cutoff fo wp
          threads1 threads2 :
    reachable s1 g1 -> reachable s2 g2 -> directed s1 = directed s2 ->
    names g1 = names g2 -> Permutation (get_all_edges g1) (get_all_edges g2) ->
    small_adj g1 -> small_adj g2 ->
    (weighted = true -> weights_nonneg g1 /\ weights_real g1) ->
    (forall s, In s sources -> In s (names g1)) ->
    (forall t, target = Some t -> In t (names g1)) ->
    cutoff_exceeded cutoff 0 = false ->
    exists mm1 mm2,
      multi_source teqb threads1 g1 weighted sources target cutoff fo wp = Ok mm1 /\
      multi_source teqb threads2 g2 weighted sources target cutoff fo wp = Ok mm2 /\
      (forall s, In s sources <-> exists m, lookup teqb s mm1 = Some m) /\
      (forall s, In s sources <-> exists m, lookup teqb s mm2 = Some m) /\
      (forall s m1 m2, lookup teqb s mm1 = Some m1 -> lookup teqb s mm2 = Some m2 -> same_distances target m1 m2).
  Proof.
    intros R1 R2 Hd Hn HP S1 S2 Hw Hsrc Ht Hc.
    destruct (store_only_premises s1 s2 g1 g2 weighted R1 R2 Hd HP Hw) as [W1 [W2 [N1 [N2 _]]]].
    destruct (multi_source_lift g1 g2 weighted sources target cutoff fo wp threads1 threads2
                (fun _ _ m1 m2 => same_distances target m1 m2)
                W1 W2 S1 S2 N1 N2 Hn Hsrc Ht Hc) as [mm1 [mm2 [E1 [E2 [K1 [K2 Hper]]]]]].
    { intros source si Hsi.
      destruct (distances_edge_store_only teqb tltb teqb_spec tltb_asym tltb_total s1 s2 g1 g2 weighted source target cutoff fo wp si
                  R1 R2 Hd Hn HP S1 S2 Hw Hsi Ht Hc) as [m1 [m2 [A1 [A2 [D1 D2]]]]].
      exists m1, m2. split; [exact A1|]. split; [exact A2|]. split; [exact D1 | exact D2]. }
    exists mm1, mm2. split; [exact E1|]. split; [exact E2|]. split; [exact K1|]. split; [exact K2|].
    intros s m1 m2 L1 L2. destruct (Hper s m1 m2 L1 L2) as [_ [_ H]]. exact H.
  Qed.

  Theorem multi_source_paths_edge_store_only (s1 s2 : specs) (g1 g2 : gstate) weighted sources target cutoff threads1 threads2 :
    reachable s1 g1 -> reachable s2 g2 -> directed s1 = directed s2 ->
    names g1 = names g2 -> Permutation (get_all_edges g1) (get_all_edges g2) ->
    small_adj g1 -> small_adj g2 ->
    (weighted = true -> weights_real_positive g1) ->
    (forall s, In s sources -> In s (names g1)) ->
    (forall t, target = Some t -> In t (names g1)) ->
    cutoff_exceeded cutoff 0 = false ->
    exists mm1 mm2,
      multi_source teqb threads1 g1 weighted sources target cutoff false true = Ok mm1 /\
      multi_source teqb threads2 g2 weighted sources target cutoff false true = Ok mm2 /\
      (forall s, In s sources <-> exists m, lookup teqb s mm1 = Some m) /\
      (forall s, In s sources <-> exists m, lookup teqb s mm2 = Some m) /\
      (forall s m1 m2, lookup teqb s mm1 = Some m1 -> lookup teqb s mm2 = Some m2 -> same_paths target m1 m2).
  Proof.
    intros R1 R2 Hd Hn HP S1 S2 Hw Hsrc Ht Hc.
    destruct (store_only_premises s1 s2 g1 g2 weighted R1 R2 Hd HP (nonneg_real_of_real_positive g1 weighted Hw))
      as [W1 [W2 [N1 [N2 _]]]].
    destruct (multi_source_lift g1 g2 weighted sources target cutoff false true threads1 threads2
                (fun _ _ m1 m2 => same_paths target m1 m2)
                W1 W2 S1 S2 N1 N2 Hn Hsrc Ht Hc) as [mm1 [mm2 [E1 [E2 [K1 [K2 Hper]]]]]].
    { intros source si Hsi.
      destruct (paths_edge_store_only teqb tltb teqb_spec tltb_asym tltb_total s1 s2 g1 g2 weighted source target cutoff si
                  R1 R2 Hd Hn HP S1 S2 Hw Hsi Ht Hc) as [m1 [m2 [A1 [A2 [D1 D2]]]]].
      exists m1, m2. split; [exact A1|]. split; [exact A2|]. split; [exact D1 | exact D2]. }
    exists mm1, mm2. split; [exact E1|]. split; [exact E2|]. split; [exact K1|]. split; [exact K2|].
    intros s m1 m2 L1 L2. destruct (Hper s m1 m2 L1 L2) as [_ [_ H]]. exact H.
  Qed.

  Theorem multi_source_first_path_edge_store_only (s1 s2 : specs) (g1 g2 : gstate) weighted sources target cutoff
          threads1 threads2 :
    reachable s1 g1 -> reachable s2 g2 -> directed s1 = directed s2 ->
    names g1 = names g2 -> Permutation (get_all_edges g1) (get_all_edges g2) ->
    small_adj g1 -> small_adj g2 ->
    (weighted = true -> weights_nonneg g1 /\ weights_real g1) ->
    (forall s, In s sources -> In s (names g1)) ->
    (forall t, target = Some t -> In t (names g1)) ->
    cutoff_exceeded cutoff 0 = false ->
    exists mm1 mm2,
      multi_source teqb threads1 g1 weighted sources target cutoff true true = Ok mm1 /\
      multi_source teqb threads2 g2 weighted sources target cutoff true true = Ok mm2 /\
      (forall s, In s sources <-> exists m, lookup teqb s mm1 = Some m) /\
      (forall s, In s sources <-> exists m, lookup teqb s mm2 = Some m) /\
      (forall s m1 m2, lookup teqb s mm1 = Some m1 -> lookup teqb s mm2 = Some m2 ->
         exists si, name_at g1 si = Some s /\ same_first_path g1 weighted target si m1 m2).
  Proof.
    intros R1 R2 Hd Hn HP S1 S2 Hw Hsrc Ht Hc.
    destruct (store_only_premises s1 s2 g1 g2 weighted R1 R2 Hd HP Hw) as [W1 [W2 [N1 [N2 _]]]].
    apply (multi_source_lift g1 g2 weighted sources target cutoff true true threads1 threads2
             (fun _ si m1 m2 => same_first_path g1 weighted target si m1 m2) W1 W2 S1 S2 N1 N2 Hn Hsrc Ht Hc).
    intros source si Hsi.
    destruct (first_path_edge_store_only teqb tltb teqb_spec tltb_asym tltb_total s1 s2 g1 g2 weighted source target cutoff si
                R1 R2 Hd Hn HP S1 S2 Hw Hsi Ht Hc) as [m1 [m2 [A1 [A2 [D1 D2]]]]].
    exists m1, m2. split; [exact A1|]. split; [exact A2|]. split; [exact D1 | exact D2].
  Qed.

  (* ================================================================ every arm, every complete schedule *)
  (* on a coherent graph the arm — serial, rayon under a complete schedule with join's panic rule,
     rayon under the pessimistic rule — returns what the model with a thread count returns *)
  Lemma all_pairs_arm_is_model (a : arm) threads (g : gstate) weighted target cutoff fo wp :
    WF g -> small_adj g -> arm_schedule (n_of g) a ->
    all_pairs_arm teqb a g weighted target cutoff fo wp = all_pairs teqb threads g weighted target cutoff fo wp.
  Proof.
    intros W S Ha. pose proof (WF_wf_adj teqb tltb g W S) as Hadj.
    rewrite <- (all_pairs_serial_is_model teqb threads). destruct a as [|pi|pi]; cbn [arm_schedule] in Ha.
    - reflexivity.
    - apply all_pairs_parallel_eq_serial; assumption.
    - apply all_pairs_abort_eq_serial; assumption.
  Qed.

  Lemma multi_source_arm_is_model (a : arm) threads (g : gstate) weighted sources target cutoff fo wp :
    WF g -> small_adj g -> arm_schedule (length sources) a ->
    multi_source_arm teqb a g weighted sources target cutoff fo wp =
    multi_source teqb threads g weighted sources target cutoff fo wp.
  Proof.
    intros W S Ha. pose proof (WF_wf_adj teqb tltb g W S) as Hadj. pose proof (WF_names_wf teqb tltb g W) as Hnm.
    rewrite <- (multi_source_serial_is_model teqb threads). destruct a as [|pi|pi]; cbn [arm_schedule] in Ha.
    - reflexivity.
    - apply multi_source_parallel_eq_serial_wf; assumption.
    - apply multi_source_abort_eq_serial_wf; assumption.
  Qed.

  Lemma involving_arm_is_model (a : arm) threads (g : gstate) x weighted :
    WF g -> small_adj g -> arm_schedule (n_of g) a ->
    get_all_shortest_paths_involving_arm teqb a g x weighted = get_all_shortest_paths_involving teqb threads g x weighted.
  Proof.
    intros W S Ha. unfold get_all_shortest_paths_involving_arm, get_all_shortest_paths_involving.
    rewrite (all_pairs_arm_is_model a threads g weighted None None false true W S Ha). reflexivity.
  Qed.

  (* the `_sched` functions (arm chosen like the Rust code from the node count and the thread count) are
     the `_arm` functions at [arm_of]; a complete schedule makes that arm scheduled *)
  Lemma arm_schedule_arm_of (g : gstate) threads pi n : schedule n pi -> arm_schedule n (arm_of g threads pi).
  Proof. intros H. unfold arm_of. destruct (parallel g threads); [exact H | exact I]. Qed.

  Lemma sched_functions_are_arms (g : gstate) threads pi :
    (forall n, schedule n pi -> arm_schedule n (arm_of g threads pi)) /\
    (forall weighted target cutoff fo wp,
       all_pairs_sched teqb threads pi g weighted target cutoff fo wp =
       all_pairs_arm teqb (arm_of g threads pi) g weighted target cutoff fo wp) /\
    (forall weighted sources target cutoff fo wp,
       multi_source_sched teqb threads pi g weighted sources target cutoff fo wp =
       multi_source_arm teqb (arm_of g threads pi) g weighted sources target cutoff fo wp) /\
    (forall x weighted,
       get_all_shortest_paths_involving_sched teqb threads pi g x weighted =
       get_all_shortest_paths_involving_arm teqb (arm_of g threads pi) g x weighted).
  Proof.
    split; [intros n H; apply arm_schedule_arm_of; exact H|]. split; [reflexivity|]. split; reflexivity.
  Qed.

  Theorem all_pairs_arm_paths_edge_store_only (s1 s2 : specs) (g1 g2 : gstate) weighted target cutoff (a1 a2 : arm) :
    reachable s1 g1 -> reachable s2 g2 -> directed s1 = directed s2 ->
    names g1 = names g2 -> Permutation (get_all_edges g1) (get_all_edges g2) ->
    small_adj g1 -> small_adj g2 ->
    (weighted = true -> weights_real_positive g1) ->
    (forall t, target = Some t -> In t (names g1)) ->
    cutoff_exceeded cutoff 0 = false ->
    arm_schedule (n_of g1) a1 -> arm_schedule (n_of g2) a2 ->
    exists mm1 mm2,
      all_pairs_arm teqb a1 g1 weighted target cutoff false true = Ok mm1 /\
      all_pairs_arm teqb a2 g2 weighted target cutoff false true = Ok mm2 /\
      (forall s, In s (names g1) <-> exists m, lookup teqb s mm1 = Some m) /\
      (forall s, In s (names g1) <-> exists m, lookup teqb s mm2 = Some m) /\
      (forall s m1 m2, lookup teqb s mm1 = Some m1 -> lookup teqb s mm2 = Some m2 -> same_paths target m1 m2).
  Proof.
    intros R1 R2 Hd Hn HP S1 S2 Hw Ht Hc A1 A2.
    destruct (reachable_pair teqb tltb teqb_spec tltb_asym tltb_total s1 s2 g1 g2 R1 R2 Hd) as [W1 [W2 _]].
    rewrite (all_pairs_arm_is_model a1 1 g1 weighted target cutoff false true W1 S1 A1).
    rewrite (all_pairs_arm_is_model a2 1 g2 weighted target cutoff false true W2 S2 A2).
    exact (all_pairs_paths_edge_store_only s1 s2 g1 g2 weighted target cutoff 1 1 R1 R2 Hd Hn HP S1 S2 Hw Ht Hc).
  Qed.

  Theorem multi_source_arm_paths_edge_store_only (s1 s2 : specs) (g1 g2 : gstate) weighted sources target cutoff (a1 a2 : arm) :
    reachable s1 g1 -> reachable s2 g2 -> directed s1 = directed s2 ->
    names g1 = names g2 -> Permutation (get_all_edges g1) (get_all_edges g2) ->
    small_adj g1 -> small_adj g2 ->
    (weighted = true -> weights_real_positive g1) ->
    (forall s, In s sources -> In s (names g1)) ->
    (forall t, target = Some t -> In t (names g1)) ->
    cutoff_exceeded cutoff 0 = false ->
    arm_schedule (length sources) a1 -> arm_schedule (length sources) a2 ->
    exists mm1 mm2,
      multi_source_arm teqb a1 g1 weighted sources target cutoff false true = Ok mm1 /\
      multi_source_arm teqb a2 g2 weighted sources target cutoff false true = Ok mm2 /\
      (forall s, In s sources <-> exists m, lookup teqb s mm1 = Some m) /\
      (forall s, In s sources <-> exists m, lookup teqb s mm2 = Some m) /\
      (forall s m1 m2, lookup teqb s mm1 = Some m1 -> lookup teqb s mm2 = Some m2 -> same_paths target m1 m2).
  Proof.
    intros R1 R2 Hd Hn HP S1 S2 Hw Hsrc Ht Hc A1 A2.
    destruct (reachable_pair teqb tltb teqb_spec tltb_asym tltb_total s1 s2 g1 g2 R1 R2 Hd) as [W1 [W2 _]].
    rewrite (multi_source_arm_is_model a1 1 g1 weighted sources target cutoff false true W1 S1 A1).
    rewrite (multi_source_arm_is_model a2 1 g2 weighted sources target cutoff false true W2 S2 A2).
    exact (multi_source_paths_edge_store_only s1 s2 g1 g2 weighted sources target cutoff 1 1 R1 R2 Hd Hn HP S1 S2 Hw Hsrc Ht Hc).
  Qed.

  (* ================================================================ get_all_shortest_paths_involving *)
  (* two entries are the same up to the order of the path list *)
  Definition sim_info (a b : spinfo T) : Prop :=
    sp_distance a = sp_distance b /\ NoDup (sp_paths a) /\ NoDup (sp_paths b) /\ Permutation (sp_paths a) (sp_paths b).

  Lemma contains_sim (a b : spinfo T) x :
    sim_info a b -> contains_path_through_node teqb a x = contains_path_through_node teqb b x.
  Proof.
    intros [_ [_ [_ HP]]]. apply eq_true_iff_eq. rewrite !(contains_path_through_node_spec teqb teqb_spec).
    split; intros [p [Hp Hi]]; exists p; (split; [|exact Hi]);
      [apply (Permutation_in _ HP) | apply (Permutation_in _ (Permutation_sym HP))]; exact Hp.
  Qed.

  Lemma collect_map_nodup {V} (l : list (T * V)) : NoDup (keys (collect_map teqb l)).
  Proof.
    unfold collect_map.
    assert (H : forall acc : list (T * V), NoDup (keys acc) ->
                NoDup (keys (fold_left (fun m kv => insert teqb (fst kv) (snd kv) m) l acc))).
    { induction l as [|kv l IH]; intros acc Hacc; cbn [fold_left]; [exact Hacc|].
      apply IH. apply (NoDup_keys_insert teqb teqb_spec). exact Hacc. }
    apply H. constructor.
  Qed.

  Lemma convert_nodup (g : gstate) r m : convert_shortest_path_info_vec_to_t_map teqb g r = Ok m -> NoDup (keys m).
  Proof.
    unfold convert_shortest_path_info_vec_to_t_map.
    assert (H : forall acc : tmap, NoDup (keys acc) ->
                ofold (fun m kv =>
                         do k <- name_of_index "dijkstra.rs:694" g (fst kv);
                         do v <- convert_shortest_path_info_index_to_t g (snd kv);
                         Ok (insert teqb k v m)) r acc = Ok m -> NoDup (keys m)).
    { induction r as [|kv r IH]; intros acc Hacc E; cbn [ofold] in E; [inversion E; subst; exact Hacc|].
      apply bind_ok in E. destruct E as [acc' [E1 E2]].
      apply bind_ok in E1. destruct E1 as [k [_ E1]]. apply bind_ok in E1. destruct E1 as [v [_ E1]].
      inversion E1; subst acc'. apply (IH _ (NoDup_keys_insert teqb teqb_spec k v acc Hacc) E2). }
    apply H. constructor.
  Qed.

  Lemma keys_lookup {V} (k : T) (m : list (T * V)) : In k (keys m) <-> exists v, lookup teqb k m = Some v.
  Proof.
    split.
    - intros H. destruct (lookup teqb k m) as [v|] eqn:E; [eauto|].
      apply (lookup_None_keys teqb teqb_spec) in E. contradiction.
    - intros [v H]. apply (lookup_Some_keys teqb teqb_spec k v m H).
  Qed.

  Theorem involving_edge_store_only (s1 s2 : specs) (g1 g2 : gstate) weighted (x : T) threads1 threads2 :
    reachable s1 g1 -> reachable s2 g2 -> directed s1 = directed s2 ->
    names g1 = names g2 -> Permutation (get_all_edges g1) (get_all_edges g2) ->
    small_adj g1 -> small_adj g2 ->
    (weighted = true -> weights_real_positive g1) ->
    exists pairs1 pairs2 l1 l2,
      all_pairs teqb threads1 g1 weighted None None false true = Ok pairs1 /\
      all_pairs teqb threads2 g2 weighted None None false true = Ok pairs2 /\
      get_all_shortest_paths_involving teqb threads1 g1 x weighted = Ok l1 /\
      get_all_shortest_paths_involving teqb threads2 g2 x weighted = Ok l2 /\
      (* the same collection up to order: a permutation of l2 is, entry by entry, l1 up to the
         order of the path lists *)
      (exists l2', Permutation l2 l2' /\ Forall2 sim_info l1 l2') /\
      length l1 = length l2 /\
      (forall a, In a l1 -> exists b, In b l2 /\ sim_info a b) /\
      (forall b, In b l2 -> exists a, In a l1 /\ sim_info a b) /\
      (* the entry of the pair (s, t) is kept on one graph iff it is kept on the other *)
      (forall s t m1 m2 i1 i2,
         lookup teqb s pairs1 = Some m1 -> lookup teqb t m1 = Some i1 ->
         lookup teqb s pairs2 = Some m2 -> lookup teqb t m2 = Some i2 ->
         sim_info i1 i2 /\ (In i1 l1 <-> In i2 l2)).
  Proof.
    intros R1 R2 Hd Hn HP S1 S2 Hw.
    destruct (store_only_premises s1 s2 g1 g2 weighted R1 R2 Hd HP (nonneg_real_of_real_positive g1 weighted Hw))
      as [W1 [W2 [N1 [N2 [H1 H2]]]]].
    assert (Ht : forall t : T, @None T = Some t -> In t (names g1)) by discriminate.
    assert (Ht2 : forall t : T, @None T = Some t -> In t (names g2)) by discriminate.
    destruct (all_pairs_paths_edge_store_only s1 s2 g1 g2 weighted None None threads1 threads2 R1 R2 Hd Hn HP S1 S2 Hw Ht eq_refl)
      as [mm1 [mm2 [E1 [E2 [K1 [K2 Hper]]]]]].
    destruct (wf_all_pairs teqb tltb teqb_spec tltb_total threads1 g1 weighted None None false true W1 S1 N1 H1 Ht eq_refl)
      as [mm1' [E1' L1]].
    destruct (wf_all_pairs teqb tltb teqb_spec tltb_total threads2 g2 weighted None None false true W2 S2 N2 H2 Ht2 eq_refl)
      as [mm2' [E2' L2]].
    assert (mm1' = mm1) by congruence. assert (mm2' = mm2) by congruence. subst mm1' mm2'. clear E1' E2'.
    set (F := fun kv : T * tmap => map snd (snd kv)).
    set (keep := fun i : spinfo T => contains_path_through_node teqb i x).
    exists mm1, mm2, (filter keep (flat_map F mm1)), (filter keep (flat_map F mm2)).
    split; [exact E1|]. split; [exact E2|].
    split; [unfold get_all_shortest_paths_involving; rewrite E1; reflexivity|].
    split; [unfold get_all_shortest_paths_involving; rewrite E2; reflexivity|].
    (* the maps are functional *)
    assert (D1 : NoDup (keys mm1)).
    { destruct (all_pairs_per_source teqb threads1 g1 weighted None None false true mm1 E1) as [_ [_ [l [_ [_ [_ ->]]]]]].
      apply collect_map_nodup. }
    assert (D2 : NoDup (keys mm2)).
    { destruct (all_pairs_per_source teqb threads2 g2 weighted None None false true mm2 E2) as [_ [_ [l [_ [_ [_ ->]]]]]].
      apply collect_map_nodup. }
    assert (I1 : forall s m, lookup teqb s mm1 = Some m -> NoDup (keys m)).
    { intros s m Hm. apply L1 in Hm. destruct Hm as [_ Hm].
      destruct (single_source_unfold teqb g1 weighted s None None false true m Hm) as [si [ti [r [_ [_ [_ Hcv]]]]]].
      exact (convert_nodup g1 r m Hcv). }
    assert (I2 : forall s m, lookup teqb s mm2 = Some m -> NoDup (keys m)).
    { intros s m Hm. apply L2 in Hm. destruct Hm as [_ Hm].
      destruct (single_source_unfold teqb g2 weighted s None None false true m Hm) as [si [ti [r [_ [_ [_ Hcv]]]]]].
      exact (convert_nodup g2 r m Hcv). }
    (* per pair *)
    assert (Hsim : forall s t m1 m2 i1 i2,
               lookup teqb s mm1 = Some m1 -> lookup teqb t m1 = Some i1 ->
               lookup teqb s mm2 = Some m2 -> lookup teqb t m2 = Some i2 -> sim_info i1 i2).
    { intros s t m1 m2 i1 i2 A1 B1 A2 B2. destruct (Hper s m1 m2 A1 A2) as [_ Hp].
      destruct (Hp t i1 i2 B1 B2) as [Q1 [Q2 [Q3 [_ Q4]]]]. split; [exact Q1|]. split; [exact Q2|]. split; [exact Q3 | exact Q4]. }
    assert (Hinner : forall s m1 m2, lookup teqb s mm1 = Some m1 -> lookup teqb s mm2 = Some m2 ->
               perm_sim sim_info (map snd m1) (map snd m2)).
    { intros s m1 m2 A1 A2.
      assert (PS : perm_sim (fun a b : T * spinfo T => fst a = fst b /\ sim_info (snd a) (snd b)) m1 m2).
      { apply assoc_perm_sim; [exact (I1 s m1 A1) | exact (I2 s m2 A2) | |].
        - intros t. change (In t (keys m1) <-> In t (keys m2)). rewrite !keys_lookup.
          destruct (Hper s m1 m2 A1 A2) as [Hk _]. specialize (Hk t (or_introl eq_refl)).
          destruct (lookup teqb t m1) as [i1|], (lookup teqb t m2) as [i2|]; cbn in Hk; try discriminate;
            split; intros [v Hv]; try discriminate; eauto.
        - intros t i1 i2 B1 B2. apply (Hsim s t m1 m2 i1 i2 A1); [|exact A2|].
          + apply (In_lookup teqb teqb_spec); [exact (I1 s m1 A1) | exact B1].
          + apply (In_lookup teqb teqb_spec); [exact (I2 s m2 A2) | exact B2]. }
      destruct PS as [m2' [Pm Fm]]. exists (map snd m2'). split; [apply Permutation_map; exact Pm|].
      apply Forall2_map_both. eapply Forall2_imp; [|exact Fm]. intros a b [_ H]. exact H. }
    assert (PSall : perm_sim sim_info (flat_map F mm1) (flat_map F mm2)).
    { assert (PS : perm_sim (fun a b : T * tmap => fst a = fst b /\ perm_sim sim_info (map snd (snd a)) (map snd (snd b))) mm1 mm2).
      { apply (assoc_perm_sim (fun m1 m2 : tmap => perm_sim sim_info (map snd m1) (map snd m2))); [exact D1 | exact D2 | |].
        - intros s. change (In s (keys mm1) <-> In s (keys mm2)). rewrite !keys_lookup, <- K1, <- K2. tauto.
        - intros s m1 m2 A1 A2. apply (Hinner s); apply (In_lookup teqb teqb_spec); assumption. }
      destruct PS as [mm2' [Pm Fm]]. apply (perm_sim_perm_r sim_info _ _ (flat_map F mm2')).
      - apply Permutation_flat_map. exact Pm.
      - apply perm_sim_flat_map. eapply Forall2_imp; [|exact Fm]. intros a b [_ H]. exact H. }
    assert (PSl : perm_sim sim_info (filter keep (flat_map F mm1)) (filter keep (flat_map F mm2))).
    { apply perm_sim_filter; [|exact PSall]. intros a b Hab. unfold keep. apply contains_sim. exact Hab. }
    split; [exact PSl|]. split; [exact (perm_sim_length sim_info _ _ PSl)|].
    split; [intros a Ha; exact (perm_sim_in_l sim_info _ _ a PSl Ha)|].
    split; [intros b Hb; exact (perm_sim_in_r sim_info _ _ b PSl Hb)|].
    intros s t m1 m2 i1 i2 A1 B1 A2 B2. pose proof (Hsim s t m1 m2 i1 i2 A1 B1 A2 B2) as Hs. split; [exact Hs|].
    assert (M1 : In i1 (flat_map F mm1)).
    { apply in_flat_map. exists (s, m1). split; [apply (lookup_In teqb teqb_spec); exact A1|].
      unfold F. cbn [snd]. apply in_map_iff. exists (t, i1). split; [reflexivity | apply (lookup_In teqb teqb_spec); exact B1]. }
    assert (M2 : In i2 (flat_map F mm2)).
    { apply in_flat_map. exists (s, m2). split; [apply (lookup_In teqb teqb_spec); exact A2|].
      unfold F. cbn [snd]. apply in_map_iff. exists (t, i2). split; [reflexivity | apply (lookup_In teqb teqb_spec); exact B2]. }
    rewrite !filter_In. unfold keep. rewrite (contains_sim i1 i2 x Hs). tauto.
  Qed.

  (* ... for every arm under a complete schedule *)
  Theorem involving_arm_edge_store_only (s1 s2 : specs) (g1 g2 : gstate) weighted (x : T) (a1 a2 : arm) :
    reachable s1 g1 -> reachable s2 g2 -> directed s1 = directed s2 ->
    names g1 = names g2 -> Permutation (get_all_edges g1) (get_all_edges g2) ->
    small_adj g1 -> small_adj g2 ->
    (weighted = true -> weights_real_positive g1) ->
    arm_schedule (n_of g1) a1 -> arm_schedule (n_of g2) a2 ->
    exists l1 l2,
      get_all_shortest_paths_involving_arm teqb a1 g1 x weighted = Ok l1 /\
      get_all_shortest_paths_involving_arm teqb a2 g2 x weighted = Ok l2 /\
      (exists l2', Permutation l2 l2' /\ Forall2 sim_info l1 l2') /\
      length l1 = length l2 /\
      (forall a, In a l1 -> exists b, In b l2 /\ sim_info a b) /\
      (forall b, In b l2 -> exists a, In a l1 /\ sim_info a b).
  Proof.
    intros R1 R2 Hd Hn HP S1 S2 Hw A1 A2.
    destruct (reachable_pair teqb tltb teqb_spec tltb_asym tltb_total s1 s2 g1 g2 R1 R2 Hd) as [W1 [W2 _]].
    rewrite (involving_arm_is_model a1 1 g1 x weighted W1 S1 A1), (involving_arm_is_model a2 1 g2 x weighted W2 S2 A2).
    destruct (involving_edge_store_only s1 s2 g1 g2 weighted x 1 1 R1 R2 Hd Hn HP S1 S2 Hw)
      as [_ [_ [l1 [l2 [_ [_ [E1 [E2 [Q1 [Q2 [Q3 [Q4 _]]]]]]]]]]]].
    exists l1, l2. split; [exact E1|]. split; [exact E2|]. split; [exact Q1|]. split; [exact Q2|]. split; [exact Q3 | exact Q4].
  Qed.
End EntryStoreOnly.
