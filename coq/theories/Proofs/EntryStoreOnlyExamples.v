(* Non-vacuity of the "edge store only" theorems for all_pairs / multi_source /
   get_all_shortest_paths_involving (Proofs/EntryStoreOnly.v), by evaluation of the models on the
   two-history graphs [pa_g], [pa_g'] of Proofs/PathsStoreOnlyExamples.v (reachable under different
   GraphSpecs of the same kind, same five nodes, same edge multiset — the diamond 1->2->4, 1->3->4
   and 4->5 — in a different order, different successors_vec; the premises are evaluated there:
   [paths_edge_store_only_nonvacuous]).

   Different thread counts on the two sides.  The pair (1, 5) has two shortest paths: both graphs
   report both, in a DIFFERENT order, under all_pairs and under multi_source (with a target and a
   cutoff equal to the realised distance; a listed source twice).  get_all_shortest_paths_involving(4)
   returns three entries on both graphs — the lists are NOT equal (the path list of the first entry
   is in another order) but equal up to the order of the path lists.  The rayon arm under a reversed
   schedule and the pessimistic arm under a shuffled one return what the serial model returns. *)
From Coq Require Import String List Bool ZArith QArith Arith Lia Permutation.
From GV Require Import Base.Outcome Base.AMap Model.GState Model.Creation Model.Query Model.Dijkstra Model.Par Model.ParFns.
From GV Require Import Spec.History Spec.EdgeStoreGraph Spec.EdgeStoreAdj.
From GV Require Import Proofs.WFDefs Proofs.HistoryOk Proofs.ParFnsOk Proofs.PathsStoreOnlyExamples Proofs.EntryStoreOnly.
Import ListNotations.

(* the entry (distance, path list) of the pair (s, t) in a result of all_pairs / multi_source *)
Definition entry_of (s t : Z) (r : outcome (list (Z * list (Z * spinfo Z)))) : option (Z * list (list Z)) :=
  match r with
  | Ok mm => match lookup Z.eqb s mm with
             | Some m => option_map (fun i => (sp_distance i, sp_paths i)) (lookup Z.eqb t m)
             | None => None
             end
  | _ => None
  end.

Definition source_keys (r : outcome (list (Z * list (Z * spinfo Z)))) : option (list Z) :=
  match r with Ok mm => Some (map fst mm) | _ => None end.

Definition infos (r : outcome (list (spinfo Z))) : option (list (Z * list (list Z))) :=
  match r with Ok l => Some (map (fun i => (sp_distance i, sp_paths i)) l) | _ => None end.

Example entry_points_edge_store_only_nonvacuous :
  (* all_pairs, 1 thread / 8 threads *)
  source_keys (all_pairs Z.eqb 1 pa_g true None None false true) = Some [1; 2; 3; 4; 5]%Z /\
  source_keys (all_pairs Z.eqb 8 pa_g' true None None false true) = Some [1; 2; 3; 4; 5]%Z /\
  entry_of 1 5 (all_pairs Z.eqb 1 pa_g true None None false true) = Some (4, [[1; 3; 4; 5]; [1; 2; 4; 5]])%Z /\
  entry_of 1 5 (all_pairs Z.eqb 8 pa_g' true None None false true) = Some (4, [[1; 2; 4; 5]; [1; 3; 4; 5]])%Z /\
  entry_of 2 5 (all_pairs Z.eqb 1 pa_g true None None false true) = Some (3, [[2; 4; 5]])%Z /\
  entry_of 2 5 (all_pairs Z.eqb 8 pa_g' true None None false true) = Some (3, [[2; 4; 5]])%Z /\
  (* multi_source with a target and a cutoff equal to the realised distance; a source listed twice *)
  source_keys (multi_source Z.eqb 1 pa_g true [4; 1; 1]%Z (Some 5%Z) (Some 4%Q) false true) = Some [4; 1]%Z /\
  source_keys (multi_source Z.eqb 8 pa_g' true [4; 1; 1]%Z (Some 5%Z) (Some 4%Q) false true) = Some [4; 1]%Z /\
  entry_of 1 5 (multi_source Z.eqb 1 pa_g true [4; 1; 1]%Z (Some 5%Z) (Some 4%Q) false true)
    = Some (4, [[1; 3; 4; 5]; [1; 2; 4; 5]])%Z /\
  entry_of 1 5 (multi_source Z.eqb 8 pa_g' true [4; 1; 1]%Z (Some 5%Z) (Some 4%Q) false true)
    = Some (4, [[1; 2; 4; 5]; [1; 3; 4; 5]])%Z /\
  (* get_all_shortest_paths_involving(4): not equal, equal up to the order of the path lists *)
  infos (get_all_shortest_paths_involving Z.eqb 1 pa_g 4%Z true)
    = Some [(4, [[1; 3; 4; 5]; [1; 2; 4; 5]]); (3, [[2; 4; 5]]); (3, [[3; 4; 5]])]%Z /\
  infos (get_all_shortest_paths_involving Z.eqb 8 pa_g' 4%Z true)
    = Some [(4, [[1; 2; 4; 5]; [1; 3; 4; 5]]); (3, [[2; 4; 5]]); (3, [[3; 4; 5]])]%Z /\
  get_all_shortest_paths_involving Z.eqb 1 pa_g 4%Z true <> get_all_shortest_paths_involving Z.eqb 8 pa_g' 4%Z true /\
  (* the arms under complete schedules *)
  arm_schedule (number_of_nodes pa_g) (Rayon [4; 3; 2; 1; 0]%nat) /\
  arm_schedule (number_of_nodes pa_g') (RayonAbort [2; 0; 4; 1; 3]%nat) /\
  arm_schedule (length [4; 1; 1]%Z) (Rayon [2; 0; 1]%nat) /\
  all_pairs_arm Z.eqb (Rayon [4; 3; 2; 1; 0]%nat) pa_g true None None false true
    = all_pairs Z.eqb 1 pa_g true None None false true /\
  all_pairs_arm Z.eqb (RayonAbort [2; 0; 4; 1; 3]%nat) pa_g' true None None false true
    = all_pairs Z.eqb 8 pa_g' true None None false true /\
  multi_source_arm Z.eqb (Rayon [2; 0; 1]%nat) pa_g' true [4; 1; 1]%Z (Some 5%Z) (Some 4%Q) false true
    = multi_source Z.eqb 8 pa_g' true [4; 1; 1]%Z (Some 5%Z) (Some 4%Q) false true /\
  get_all_shortest_paths_involving_arm Z.eqb (RayonAbort [2; 0; 4; 1; 3]%nat) pa_g' 4%Z true
    = get_all_shortest_paths_involving Z.eqb 8 pa_g' 4%Z true.
Proof.
  split; [vm_compute; reflexivity|]. split; [vm_compute; reflexivity|].
  split; [vm_compute; reflexivity|]. split; [vm_compute; reflexivity|].
  split; [vm_compute; reflexivity|]. split; [vm_compute; reflexivity|].
  split; [vm_compute; reflexivity|]. split; [vm_compute; reflexivity|].
  split; [vm_compute; reflexivity|]. split; [vm_compute; reflexivity|].
  split; [vm_compute; reflexivity|]. split; [vm_compute; reflexivity|].
  split; [vm_compute; discriminate|].
  split.
  { cbn [arm_schedule]. unfold schedule. vm_compute. change (Permutation (rev [0; 1; 2; 3; 4]%nat) [0; 1; 2; 3; 4]%nat).
    apply Permutation_sym. apply Permutation_rev. }
  split.
  { cbn [arm_schedule]. unfold schedule. vm_compute.
    (* [2;0;4;1;3] ~ [0;1;2;3;4] *)
    apply Permutation_sym.
    apply (Permutation_cons_app [2] [4; 1; 3] 0)%nat.
    apply (Permutation_cons_app [2; 4] [3] 1)%nat.
    apply (Permutation_cons_app [] [4; 3] 2)%nat.
    apply (Permutation_cons_app [4] [] 3)%nat.
    apply Permutation_refl. }
  split.
  { cbn [arm_schedule]. unfold schedule. vm_compute.
    apply Permutation_sym. apply (Permutation_cons_app [2] [1] 0)%nat. apply (Permutation_cons_app [2] [] 1)%nat.
    apply Permutation_refl. }
  split; [vm_compute; reflexivity|]. split; [vm_compute; reflexivity|]. split; vm_compute; reflexivity.
Qed.
