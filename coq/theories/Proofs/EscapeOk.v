(* The escape / unescape codec of quick-xml (Model/XmlEscape.v) is lossless on
   every string, and escaped text contains no markup character. *)
From Coq Require Import List NArith Bool Lia.
From GV Require Import Model.XmlEscape.
Import ListNotations.
Open Scope N_scope.

Lemma bytes_eqb_refl : forall a, bytes_eqb a a = true.
Proof. induction a as [|x a IH]; cbn; [reflexivity|]. rewrite N.eqb_refl, IH. reflexivity. Qed.

Lemma bytes_eqb_eq : forall a b, bytes_eqb a b = true <-> a = b.
Proof.
  induction a as [|x a IH]; destruct b as [|y b]; cbn; split; intro H; try reflexivity; try discriminate.
  - apply andb_true_iff in H. destruct H as [H1 H2]. apply N.eqb_eq in H1. apply IH in H2. subst. reflexivity.
  - inversion H; subst. rewrite N.eqb_refl. apply bytes_eqb_refl.
Qed.

Lemma bytes_ltb_irrefl : forall a, bytes_ltb a a = false.
Proof. induction a as [|x a IH]; cbn; [reflexivity|]. rewrite N.ltb_irrefl. exact IH. Qed.

Lemma bytes_ltb_asym : forall a b, bytes_ltb a b = true -> bytes_ltb b a = false.
Proof.
  induction a as [|x a IH]; destruct b as [|y b]; cbn; intro H; try reflexivity; try discriminate.
  destruct (N.ltb x y) eqn:Hxy.
  - apply N.ltb_lt in Hxy. assert (Hyx : N.ltb y x = false) by (apply N.ltb_ge; lia). rewrite Hyx.
    reflexivity.
  - destruct (N.ltb y x) eqn:Hyx; [discriminate|]. apply IH. exact H.
Qed.

Lemma bytes_ltb_total : forall a b, bytes_ltb a b = false -> bytes_ltb b a = false -> a = b.
Proof.
  induction a as [|x a IH]; destruct b as [|y b]; cbn; intros H1 H2; try reflexivity; try discriminate.
  destruct (N.ltb x y) eqn:Hxy; [discriminate|].
  destruct (N.ltb y x) eqn:Hyx; [discriminate|].
  apply N.ltb_ge in Hxy. apply N.ltb_ge in Hyx. assert (x = y) by lia. subst.
  f_equal. apply IH; assumption.
Qed.

(* one source byte: the scanner, started outside an entity on the escaped
   byte followed by anything, emits exactly that byte and is outside again *)
Lemma unescape_esc_byte : forall b rest,
  unescape_go None (esc_byte b ++ rest) =
  match unescape_go None rest with Some r => Some (b :: r) | None => None end.
Proof.
  intros b rest. unfold esc_byte.
  destruct (b =? 60) eqn:E1; [apply N.eqb_eq in E1; subst; reflexivity|].
  destruct (b =? 62) eqn:E2; [apply N.eqb_eq in E2; subst; reflexivity|].
  destruct (b =? 38) eqn:E3; [apply N.eqb_eq in E3; subst; reflexivity|].
  destruct (b =? 39) eqn:E4; [apply N.eqb_eq in E4; subst; reflexivity|].
  destruct (b =? 34) eqn:E5; [apply N.eqb_eq in E5; subst; reflexivity|].
  cbn [app unescape_go]. rewrite E3. reflexivity.
Qed.

Theorem escape_roundtrip : forall s, unescape (escape s) = Some s.
Proof.
  unfold unescape, escape. induction s as [|b s IH]; [reflexivity|].
  cbn [flat_map]. rewrite unescape_esc_byte, IH. reflexivity.
Qed.

(* the output alphabet: a plain byte is none of the five markup characters;
   every ampersand starts one of the five predefined entity references *)
Definition is_special (b : N) : bool :=
  (b =? 60) || (b =? 62) || (b =? 38) || (b =? 39) || (b =? 34).

Inductive escaped_form : bytes -> Prop :=
| ef_nil : escaped_form []
| ef_plain : forall b r, is_special b = false -> escaped_form r -> escaped_form (b :: r)
| ef_entity : forall e r, In e [ent_lt; ent_gt; ent_amp; ent_apos; ent_quot] ->
                          escaped_form r -> escaped_form (e ++ r).

Theorem escape_form : forall s, escaped_form (escape s).
Proof.
  unfold escape. induction s as [|b s IH]; [constructor|].
  cbn [flat_map]. unfold esc_byte.
  destruct (b =? 60) eqn:E1; [apply ef_entity; [cbn; tauto|exact IH]|].
  destruct (b =? 62) eqn:E2; [apply ef_entity; [cbn; tauto|exact IH]|].
  destruct (b =? 38) eqn:E3; [apply ef_entity; [cbn; tauto|exact IH]|].
  destruct (b =? 39) eqn:E4; [apply ef_entity; [cbn; tauto|exact IH]|].
  destruct (b =? 34) eqn:E5; [apply ef_entity; [cbn; tauto|exact IH]|].
  cbn [app]. apply ef_plain; [|exact IH]. unfold is_special. rewrite E1, E2, E3, E4, E5. reflexivity.
Qed.

(* none of lt, gt, apostrophe, double quote anywhere in escaped text *)
Theorem escape_no_markup : forall s b, In b (escape s) ->
  b <> 60 /\ b <> 62 /\ b <> 39 /\ b <> 34.
Proof.
  unfold escape. induction s as [|c s IH]; cbn [flat_map]; intros b Hin; [destruct Hin|].
  apply in_app_or in Hin. destruct Hin as [Hin|Hin]; [|apply IH; exact Hin].
  unfold esc_byte in Hin.
  destruct (c =? 60) eqn:E1;
    [cbn in Hin; repeat (destruct Hin as [Hin|Hin]; [subst; repeat split; discriminate|]); destruct Hin|].
  destruct (c =? 62) eqn:E2;
    [cbn in Hin; repeat (destruct Hin as [Hin|Hin]; [subst; repeat split; discriminate|]); destruct Hin|].
  destruct (c =? 38) eqn:E3;
    [cbn in Hin; repeat (destruct Hin as [Hin|Hin]; [subst; repeat split; discriminate|]); destruct Hin|].
  destruct (c =? 39) eqn:E4;
    [cbn in Hin; repeat (destruct Hin as [Hin|Hin]; [subst; repeat split; discriminate|]); destruct Hin|].
  destruct (c =? 34) eqn:E5;
    [cbn in Hin; repeat (destruct Hin as [Hin|Hin]; [subst; repeat split; discriminate|]); destruct Hin|].
  cbn in Hin. destruct Hin as [Hin|[]]. subst b.
  apply N.eqb_neq in E1, E2, E4, E5. repeat split; assumption.
Qed.

(* escape is injective (a consequence of the round trip) *)
Corollary escape_injective : forall s t, escape s = escape t -> s = t.
Proof.
  intros s t H. pose proof (escape_roundtrip s) as Hs. rewrite H, escape_roundtrip in Hs.
  inversion Hs. reflexivity.
Qed.
