(* C16, part 3: lifting the statements about the generators' edge-tuple vectors
   to the graph they return.  For the twelve-field creation code of
   Model/Creation.v (add_node, add_edge): adding the nodes 0..n-1 and then a
   vector of pairwise distinct, in-range, loop-free pairs to an empty simple
   graph (no self-loops, dedupe = Error, single edges) succeeds, leaves the
   node list 0..n-1, and stores exactly those pairs (in storage orientation,
   in order). *)
From Coq Require Import String List Bool ZArith Arith Lia.
From GV Require Import Base.Outcome Base.AMap Model.GState Model.Creation Model.Query Model.Classic Proofs.CreationMono.
Import ListNotations.

(* ---- association lists ---- *)
Section AMapFacts.
  Context {K V : Type} (keqb : K -> K -> bool).
  Hypothesis keqb_spec : forall x y, keqb x y = true <-> x = y.

  Lemma keqb_refl k : keqb k k = true.
  Proof. now apply keqb_spec. Qed.
  Lemma keqb_neq a b : a <> b -> keqb a b = false.
  Proof. intros H. destruct (keqb a b) eqn:E; auto. apply keqb_spec in E. contradiction. Qed.

  Lemma lookup_insert_same k (v : V) m : lookup keqb k (insert keqb k v m) = Some v.
  Proof.
    induction m as [|[k' v'] t IH]; cbn [insert lookup].
    - now rewrite keqb_refl.
    - destruct (keqb k k') eqn:E; cbn [lookup]; rewrite E; auto.
  Qed.

  Lemma lookup_insert_other k k' (v : V) m :
    k <> k' -> lookup keqb k' (insert keqb k v m) = lookup keqb k' m.
  Proof.
    intros N. induction m as [|[k0 v0] t IH]; cbn [insert lookup].
    - rewrite keqb_neq; auto.
    - destruct (keqb k k0) eqn:E; cbn [lookup].
      + apply keqb_spec in E; subst k0. rewrite keqb_neq; auto.
      + destruct (keqb k' k0); auto.
  Qed.

  Lemma insert_absent k (v : V) m : lookup keqb k m = None -> insert keqb k v m = m ++ [(k, v)].
  Proof.
    induction m as [|[k0 v0] t IH]; cbn [insert lookup app]; auto.
    destruct (keqb k k0); [discriminate|]. intros H. now rewrite IH.
  Qed.

  Lemma lookup_app_none k (m m' : list (K * V)) :
    lookup keqb k m = None -> lookup keqb k (m ++ m') = lookup keqb k m'.
  Proof.
    induction m as [|[k0 v0] t IH]; cbn [lookup app]; auto.
    destruct (keqb k k0); [discriminate | auto].
  Qed.
End AMapFacts.

Lemma Zeqb_spec x y : Z.eqb x y = true <-> x = y.
Proof. apply Z.eqb_eq. Qed.
Lemma Neqb_spec x y : Nat.eqb x y = true <-> x = y.
Proof. apply Nat.eqb_eq. Qed.

Lemma set_nth_ok {X} (l : list X) : forall i x, (i < length l)%nat ->
  exists l', set_nth i x l = Some l' /\ length l' = length l.
Proof.
  induction l as [|h t IH]; intros i x H; cbn [length] in H; [lia|].
  destruct i; cbn [set_nth].
  - eexists; split; reflexivity.
  - destruct (IH i x ltac:(lia)) as (t' & E & L). rewrite E. eexists; split; [reflexivity|].
    cbn [length]. now rewrite L.
Qed.

(* ---- the invariant ---- *)
Definition canon (dir : bool) (p : Z * Z) : Z * Z :=
  if dir then p else if (snd p <? fst p)%Z then (snd p, fst p) else p.

Definition idx_names (s k : nat) : list (Z * nat) := map (fun i => (Z.of_nat i, i)) (seq s k).

Record GI (j : nat) (s : specs) (added : list (Z * Z)) (g : ggraph) : Prop := mkGI {
  gi_nm : nodes_map g = idx_names 0 j;
  gi_nv : nodes_vec g = map (fun i => node_from_name (Z.of_nat i)) (seq 0 j);
  gi_sv : length (successors_vec g) = j;
  gi_pv : length (predecessors_vec g) = j;
  gi_sp : sp g = s;
  gi_ed : edges g = map (fun p => (p, [edge_new p])) added;
  gi_em : forall a b inner l,
      lookup Nat.eqb a (edges_map g) = Some inner -> lookup Nat.eqb b inner = Some l ->
      l <> [] /\ In (Z.of_nat a, Z.of_nat b) added
}.

Lemma lookup_idx_names x : forall k s,
  lookup Z.eqb x (idx_names s k) =
  if ((Z.of_nat s <=? x) && (x <? Z.of_nat (s + k)))%Z then Some (Z.to_nat x) else None.
Proof.
  unfold idx_names. induction k as [|k IH]; intros s; cbn [seq map lookup].
  - destruct (Z.leb_spec (Z.of_nat s) x), (Z.ltb_spec x (Z.of_nat (s + 0))); cbn; auto; lia.
  - rewrite IH. destruct (Z.eqb_spec x (Z.of_nat s)) as [-> | N].
    + destruct (Z.leb_spec (Z.of_nat s) (Z.of_nat s)), (Z.ltb_spec (Z.of_nat s) (Z.of_nat (s + S k)));
        cbn; try lia. now rewrite Nat2Z.id.
    + destruct (Z.leb_spec (Z.of_nat (S s)) x), (Z.ltb_spec x (Z.of_nat (S s + k))),
               (Z.leb_spec (Z.of_nat s) x), (Z.ltb_spec x (Z.of_nat (s + S k))); cbn; auto; lia.
Qed.

Lemma GI_lookup j s added g x : GI j s added g -> (0 <= x < Z.of_nat j)%Z ->
  lookup Z.eqb x (nodes_map g) = Some (Z.to_nat x).
Proof.
  intros G H. rewrite (gi_nm _ _ _ _ G), lookup_idx_names.
  destruct (Z.leb_spec (Z.of_nat 0) x), (Z.ltb_spec x (Z.of_nat (0 + j))); cbn; auto; lia.
Qed.

Lemma GI_new s : GI 0 s [] (new s).
Proof. constructor; cbn; auto. intros; discriminate. Qed.

Lemma GI_add_node j s added g : GI j s added g ->
  exists g', add_node Z.eqb g (node_from_name (Z.of_nat j)) = Ok g' /\ GI (S j) s added g'.
Proof.
  intros G. unfold add_node, has_name, contains_key. cbn [nname node_from_name].
  assert (L : lookup Z.eqb (Z.of_nat j) (nodes_map g) = None).
  { rewrite (gi_nm _ _ _ _ G), lookup_idx_names.
    destruct (Z.leb_spec (Z.of_nat 0) (Z.of_nat j)), (Z.ltb_spec (Z.of_nat j) (Z.of_nat (0 + j))); cbn; auto; lia. }
  rewrite L. eexists. split; [reflexivity|].
  assert (Lv : length (nodes_vec g) = j).
  { rewrite (gi_nv _ _ _ _ G), map_length, seq_length. reflexivity. }
  constructor; cbn [nodes_map nodes_vec successors_vec predecessors_vec sp edges edges_map].
  - rewrite (insert_absent Z.eqb) by exact L. rewrite Lv, (gi_nm _ _ _ _ G).
    unfold idx_names. rewrite seq_S, map_app. reflexivity.
  - rewrite (gi_nv _ _ _ _ G), seq_S, map_app. reflexivity.
  - rewrite app_length, (gi_sv _ _ _ _ G). cbn. lia.
  - rewrite app_length, (gi_pv _ _ _ _ G). cbn. lia.
  - apply (gi_sp _ _ _ _ G).
  - apply (gi_ed _ _ _ _ G).
  - apply (gi_em _ _ _ _ G).
Qed.

Lemma GI_add_nodes s added : forall k j g, GI j s added g ->
  exists g', add_nodes Z.eqb g (map node_from_name (map Z.of_nat (seq j k))) = Ok g' /\
             GI (j + k) s added g'.
Proof.
  unfold add_nodes. induction k as [|k IH]; intros j g G; cbn [seq map ofold].
  - exists g. rewrite Nat.add_0_r. auto.
  - destruct (GI_add_node _ _ _ _ G) as (g1 & E1 & G1). rewrite E1. cbn [bind].
    destruct (IH (S j) g1 G1) as (g2 & E2 & G2). exists g2. split; [exact E2|].
    now rewrite Nat.add_succ_r.
Qed.

Lemma atav_new s (av : list (list adj)) a b w : (a < length av)%nat ->
  exists av', add_to_adjacency_vec s av a b w false = Ok av' /\ length av' = length av.
Proof.
  intros H. unfold add_to_adjacency_vec. destruct (nth_error av a) as [row|] eqn:E.
  - destruct (set_nth_ok av a (row ++ [(b, w)]) H) as (av' & E' & L). rewrite E'. eauto.
  - apply nth_error_None in E. lia.
Qed.

Lemma GI_no_edge j s added g a b ou ov : GI j s added g ->
  (if negb (directed (sp g)) && Nat.ltb b a then (b, a) else (a, b)) = (ou, ov) ->
  ~ In (Z.of_nat ou, Z.of_nat ov) added ->
  get_edge_by_indexes g a b = Err EdgeNotFound.
Proof.
  intros G E N. unfold get_edge_by_indexes. rewrite E.
  destruct (lookup Nat.eqb ou (edges_map g)) as [inner|] eqn:E1; auto.
  destruct (lookup Nat.eqb ov inner) as [l|] eqn:E2; auto.
  destruct (gi_em _ _ _ _ G _ _ _ _ E1 E2) as [_ I]. contradiction.
Qed.

Lemma peqb_spec (p q : Z * Z) : peqb Z.eqb p q = true <-> p = q.
Proof.
  destruct p as [a b], q as [c d]. unfold peqb. cbn [fst snd].
  rewrite andb_true_iff, !Z.eqb_eq. split; [intros [-> ->]; reflexivity | intros [= -> ->]; auto].
Qed.

Lemma lookup_pairs_notin {V} (f : Z * Z -> V) k l :
  ~ In k l -> lookup (peqb Z.eqb) k (map (fun p => (p, f p)) l) = None.
Proof.
  induction l as [|p t IH]; cbn [map lookup In]; intros N; auto.
  rewrite (keqb_neq _ peqb_spec) by (intros ->; tauto). apply IH. tauto.
Qed.

Lemma GI_extend j s added g k ou ov sv pv su sm pr pm :
  GI j s added g -> length sv = j -> length pv = j ->
  k = (Z.of_nat ou, Z.of_nat ov) -> ~ In k added ->
  GI j s (added ++ [k])
     (mkg (nodes_map g) (nodes_map_rev g) (nodes_vec g)
          (insert (peqb Z.eqb) k [edge_new k] (edges g))
          (insert Nat.eqb ou (insert Nat.eqb ov [edge_new k] (or_default Nat.eqb ou (edges_map g)))
                  (edges_map g))
          s su sm sv pr pm pv).
Proof.
  intros G Lsv Lpv Ek Nk.
  constructor; cbn [nodes_map nodes_vec successors_vec predecessors_vec sp edges edges_map]; auto.
  - apply (gi_nm _ _ _ _ G).
  - apply (gi_nv _ _ _ _ G).
  - rewrite insert_absent.
    + rewrite (gi_ed _ _ _ _ G), map_app. reflexivity.
    + rewrite (gi_ed _ _ _ _ G). now apply lookup_pairs_notin.
  - intros a b inner l H1 H2. rewrite in_app_iff. cbn [In].
    destruct (Nat.eq_dec a ou) as [-> | Na].
    + rewrite (lookup_insert_same _ Neqb_spec) in H1. injection H1 as <-.
      destruct (Nat.eq_dec b ov) as [-> | Nb].
      * rewrite (lookup_insert_same _ Neqb_spec) in H2. injection H2 as <-.
        split; [discriminate | right; left; auto].
      * rewrite (lookup_insert_other _ Neqb_spec) in H2 by auto.
        unfold or_default in H2.
        destruct (lookup Nat.eqb ou (edges_map g)) as [inner0|] eqn:E0; [|discriminate].
        destruct (gi_em _ _ _ _ G _ _ _ _ E0 H2). tauto.
    + rewrite (lookup_insert_other _ Neqb_spec) in H1 by auto.
      destruct (gi_em _ _ _ _ G _ _ _ _ H1 H2). tauto.
Qed.

Lemma GI_add_edge j s added g u v :
  GI j s added g -> selfloops s = false -> dd s = DErr -> multi s = false ->
  (0 <= u < Z.of_nat j)%Z -> (0 <= v < Z.of_nat j)%Z -> u <> v ->
  ~ In (canon (directed s) (u, v)) added ->
  exists g', add_edge Z.eqb Z.ltb g (edge_new (u, v)) = (g', Ok tt) /\
             GI j s (added ++ [canon (directed s) (u, v)]) g'.
Proof.
  intros G Hsl Hdd Hmu Hu Hv Huv Hnew.
  pose proof (gi_sp _ _ _ _ G) as Hsp.
  rewrite <- (add_edge_mono_eq Z.eqb Z.ltb g (edge_new (u, v))). unfold add_edge_mono. cbv zeta. cbn [edge_new eu ev ew eattr fst snd].
  rewrite Hsp, Hsl, Hdd, Hmu.
  rewrite (proj2 (Z.eqb_neq u v) Huv). cbn [negb andb].
  unfold has_name, contains_key.
  rewrite !(GI_lookup _ _ _ _ _ G) by assumption.
  cbn [negb orb]. rewrite andb_false_r.
  set (ui := Z.to_nat u). set (vi := Z.to_nat v).
  assert (Hui : (ui < j)%nat) by lia. assert (Hvi : (vi < j)%nat) by lia.
  assert (Zui : Z.of_nat ui = u) by lia. assert (Zvi : Z.of_nat vi = v) by lia.
  unfold canon in *. cbn [fst snd] in *.
  destruct (directed s) eqn:Hdir; cbn [negb andb].
  - (* directed *)
    assert (E1 : get_edge_by_indexes g ui vi = Err EdgeNotFound).
    { eapply (GI_no_edge _ _ _ _ _ _ ui vi G); [rewrite Hsp, Hdir; reflexivity|].
      now rewrite Zui, Zvi. }
    rewrite E1. cbn [is_ok andb].
    destruct (atav_new s (successors_vec g) ui vi None) as (sv1 & Es & Ls);
      [rewrite (gi_sv _ _ _ _ G); lia|].
    destruct (atav_new s (predecessors_vec g) vi ui None) as (pv1 & Ep & Lp);
      [rewrite (gi_pv _ _ _ _ G); lia|].
    rewrite Es, Ep. eexists. split; [reflexivity|].
    apply GI_extend; auto.
    + now rewrite Ls, (gi_sv _ _ _ _ G).
    + now rewrite Lp, (gi_pv _ _ _ _ G).
    + now rewrite Zui, Zvi.
  - (* undirected *)
    unfold ordered, reversed. cbn [edge_new eu ev ew eattr fst snd].
    assert (Hlt : Nat.ltb vi ui = Z.ltb v u).
    { destruct (Nat.ltb_spec vi ui), (Z.ltb_spec v u); auto; lia. }
    rewrite Hlt in *.
    assert (Hne : Nat.eqb ui vi = false) by (apply Nat.eqb_neq; lia). rewrite Hne.
    destruct (Z.ltb v u) eqn:Hvu.
    + apply Z.ltb_lt in Hvu.
      assert (E1 : get_edge_by_indexes g ui vi = Err EdgeNotFound).
      { eapply (GI_no_edge _ _ _ _ _ _ vi ui G).
        - rewrite Hsp, Hdir. cbn [negb andb]. destruct (Nat.ltb_spec vi ui); [reflexivity | lia].
        - now rewrite Zui, Zvi. }
      assert (E2 : get_edge_by_indexes g vi ui = Err EdgeNotFound).
      { eapply (GI_no_edge _ _ _ _ _ _ vi ui G).
        - rewrite Hsp, Hdir. cbn [negb andb]. destruct (Nat.ltb_spec ui vi); [lia | reflexivity].
        - now rewrite Zui, Zvi. }
      rewrite E1, E2. cbn [is_ok andb].
      destruct (atav_new s (successors_vec g) vi ui None) as (sv1 & Es & Ls);
        [rewrite (gi_sv _ _ _ _ G); lia|].
      rewrite Es.
      destruct (atav_new s sv1 ui vi None) as (sv2 & Es2 & Ls2);
        [rewrite Ls, (gi_sv _ _ _ _ G); lia|].
      rewrite Es2. eexists. split; [reflexivity|].
      cbn [edge_new eu ev ew eattr fst snd].
      apply (GI_extend j s added g (v, u) vi ui); auto.
      * now rewrite Ls2, Ls, (gi_sv _ _ _ _ G).
      * apply (gi_pv _ _ _ _ G).
      * now rewrite Zui, Zvi.
    + apply Z.ltb_ge in Hvu.
      assert (E1 : get_edge_by_indexes g ui vi = Err EdgeNotFound).
      { eapply (GI_no_edge _ _ _ _ _ _ ui vi G).
        - rewrite Hsp, Hdir. cbn [negb andb]. destruct (Nat.ltb_spec vi ui); [lia | reflexivity].
        - now rewrite Zui, Zvi. }
      rewrite E1. cbn [is_ok andb].
      destruct (atav_new s (successors_vec g) ui vi None) as (sv1 & Es & Ls);
        [rewrite (gi_sv _ _ _ _ G); lia|].
      rewrite Es.
      destruct (atav_new s sv1 vi ui None) as (sv2 & Es2 & Ls2);
        [rewrite Ls, (gi_sv _ _ _ _ G); lia|].
      rewrite Es2. eexists. split; [reflexivity|].
      apply (GI_extend j s added g (u, v) ui vi); auto.
      * now rewrite Ls2, Ls, (gi_sv _ _ _ _ G).
      * apply (gi_pv _ _ _ _ G).
      * now rewrite Zui, Zvi.
Qed.

Definition good_specs (s : specs) : Prop := selfloops s = false /\ dd s = DErr /\ multi s = false.

Definition pair_ok (j : nat) (p : Z * Z) : Prop :=
  (0 <= fst p < Z.of_nat j)%Z /\ (0 <= snd p < Z.of_nat j)%Z /\ fst p <> snd p.

Lemma GI_add_edges j s : good_specs s -> forall ps added g,
  GI j s added g -> Forall (pair_ok j) ps ->
  NoDup (map (canon (directed s)) ps) ->
  (forall p, In p ps -> ~ In (canon (directed s) p) added) ->
  exists g', add_edges Z.eqb Z.ltb g (map edge_new ps) = (g', Ok tt) /\
             GI j s (added ++ map (canon (directed s)) ps) g'.
Proof.
  intros (Hsl & Hdd & Hmu). induction ps as [|[u v] t IH]; intros added g G F ND Hn; cbn [map add_edges].
  - exists g. rewrite app_nil_r. auto.
  - inversion F as [|? ? (Hu & Hv & Huv) Ft]; subst. cbn [fst snd] in *.
    inversion ND as [|? ? Hnin NDt]; subst.
    destruct (GI_add_edge j s added g u v G Hsl Hdd Hmu Hu Hv Huv) as (g1 & E1 & G1).
    { apply Hn. now left. }
    rewrite E1.
    destruct (IH (added ++ [canon (directed s) (u, v)]) g1 G1 Ft NDt) as (g2 & E2 & G2).
    { intros p Hp. rewrite in_app_iff. cbn [In]. intros [H | [H | []]].
      - apply (Hn p); auto. now right.
      - apply Hnin. rewrite H. now apply in_map. }
    exists g2. split; [exact E2|]. now rewrite <- app_assoc in G2.
Qed.

Lemma GI_all_edges j s added g : GI j s added g -> get_all_edges g = map edge_new added.
Proof.
  intros G. unfold get_all_edges. rewrite (gi_ed _ _ _ _ G).
  clear G. induction added as [|p t IH]; cbn [map flat_map app snd]; auto. now rewrite IH.
Qed.

Lemma GI_all_names j s added g : GI j s added g ->
  map nname (get_all_nodes g) = map Z.of_nat (seq 0 j).
Proof.
  intros G. unfold get_all_nodes. rewrite (gi_nv _ _ _ _ G), map_map. reflexivity.
Qed.

(* nodes 0..n-1, then a vector of distinct admissible pairs: the graph holds exactly them *)
Theorem build_graph_ok s n ps g0 :
  good_specs s ->
  add_nodes Z.eqb (new s) (map node_from_name (zrange n)) = Ok g0 ->
  Forall (pair_ok (Z.to_nat n)) ps -> NoDup (map (canon (directed s)) ps) ->
  exists g, add_edges Z.eqb Z.ltb g0 (map edge_new ps) = (g, Ok tt) /\
            map nname (get_all_nodes g) = zrange n /\
            map (fun e => (eu e, ev e)) (get_all_edges g) = map (canon (directed s)) ps /\
            Forall (fun e => ew e = None /\ eattr e = None) (get_all_edges g).
Proof.
  intros Hs E0 F ND.
  destruct (GI_add_nodes s [] (Z.to_nat n) 0 (new s) (GI_new s)) as (g0' & E0' & G0).
  unfold zrange in E0. rewrite E0' in E0. injection E0 as ->. cbn [Nat.add] in G0.
  destruct (GI_add_edges _ s Hs ps [] g0 G0 F ND) as (g & E & G); [intros p _ []|].
  cbn [app] in G. exists g. split; [exact E|]. split; [|split].
  - apply (GI_all_names _ _ _ _ G).
  - rewrite (GI_all_edges _ _ _ _ G), map_map. cbn [edge_new eu ev].
    rewrite <- (map_id (map (canon (directed s)) ps)) at 2. apply map_ext. now intros [a b].
  - rewrite (GI_all_edges _ _ _ _ G). apply Forall_forall. intros e He.
    apply in_map_iff in He as [p [<- _]]. cbn. auto.
Qed.

Lemma empty_graph_ok s n : exists g0, add_nodes Z.eqb (new s) (map node_from_name (zrange n)) = Ok g0.
Proof.
  destruct (GI_add_nodes s [] (Z.to_nat n) 0 (new s) (GI_new s)) as (g0 & E0 & _).
  exists g0. exact E0.
Qed.
