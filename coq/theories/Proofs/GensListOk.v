(* C16, part 1: the edge-tuple vector of complete_graph — itertools'
   combinations(2) / permutations(2) of 0..n — is exactly the set of unordered /
   ordered pairs of distinct nodes, each once. *)
From Coq Require Import List Bool ZArith Arith Lia Sorting.Sorted FinFun.
From GV Require Import Base.Outcome Model.GState Model.Classic.
Import ListNotations.

Lemma NoDup_app_intro {X} (l1 l2 : list X) :
  NoDup l1 -> NoDup l2 -> (forall x, In x l1 -> In x l2 -> False) -> NoDup (l1 ++ l2).
Proof.
  induction l1 as [|a l1 IH]; cbn [app]; intros H1 H2 Hd; [exact H2|].
  inversion H1; subst. constructor.
  - rewrite in_app_iff. intros [H|H]; [tauto|]. eapply Hd; [now left|exact H].
  - apply IH; auto. intros x Hx. apply Hd. now right.
Qed.

(* ---- 0..n ---- *)
Lemma zrange_In n x : In x (zrange n) <-> (0 <= x < n)%Z.
Proof.
  unfold zrange. rewrite in_map_iff. split.
  - intros [i [Hi Hin]]. apply in_seq in Hin. lia.
  - intros H. exists (Z.to_nat x). split; [lia|]. apply in_seq. lia.
Qed.

Lemma zrange_length n : length (zrange n) = Z.to_nat n.
Proof. unfold zrange. now rewrite map_length, seq_length. Qed.

Lemma zrange_NoDup n : NoDup (zrange n).
Proof.
  unfold zrange. apply FinFun.Injective_map_NoDup; [|apply seq_NoDup].
  intros a b H. lia.
Qed.

Lemma seq_ssorted k s : StronglySorted Z.lt (map Z.of_nat (seq s k)).
Proof.
  revert s. induction k as [|k IH]; intros s; cbn [seq map]; constructor.
  - apply IH.
  - apply Forall_forall. intros x Hx. apply in_map_iff in Hx as [i [<- Hi]].
    apply in_seq in Hi. lia.
Qed.

Lemma zrange_ssorted n : StronglySorted Z.lt (zrange n).
Proof. apply seq_ssorted. Qed.

(* ---- combinations(2) ---- *)
Section Comb.
  Context {X : Type}.

  Lemma comb_In_sub (l : list X) a b : In (a, b) (combinations2 l) -> In a l /\ In b l.
  Proof.
    induction l as [|x t IH]; cbn [combinations2]; [easy|].
    rewrite in_app_iff, in_map_iff. intros [[y [E Hy]] | H].
    - inversion E; subst. split; [now left | now right].
    - destruct (IH H). split; now right.
  Qed.

  Lemma comb_NoDup (l : list X) : NoDup l -> NoDup (combinations2 l).
  Proof.
    induction l as [|x t IH]; cbn [combinations2]; intros H; [constructor|].
    inversion H as [|? ? Hx Ht]; subst.
    apply NoDup_app_intro.
    - apply FinFun.Injective_map_NoDup; [|exact Ht]. intros a b E. now inversion E.
    - now apply IH.
    - intros [a b] H1 H2. apply in_map_iff in H1 as [y [E _]]. inversion E; subst.
      apply comb_In_sub in H2. tauto.
  Qed.

  Lemma comb_length (l : list X) : 2 * length (combinations2 l) + length l = length l * length l.
  Proof.
    induction l as [|x t IH]; cbn [combinations2 length]; [reflexivity|].
    rewrite app_length, map_length. nia.
  Qed.
End Comb.

Lemma comb_In_sorted (l : list Z) a b :
  StronglySorted Z.lt l -> (In (a, b) (combinations2 l) <-> In a l /\ In b l /\ (a < b)%Z).
Proof.
  induction 1 as [|x t Ht IH Hx]; cbn [combinations2]; [cbn; tauto|].
  rewrite Forall_forall in Hx.
  rewrite in_app_iff, in_map_iff, IH. cbn [In]. split.
  - intros [[y [E Hy]] | [Ha [Hb Hab]]].
    + inversion E; subst. repeat split; auto.
    + repeat split; auto.
  - intros [[Ha|Ha] [[Hb|Hb] Hab]]; subst.
    + lia.
    + left. now exists b.
    + specialize (Hx _ Ha). lia.
    + right. tauto.
Qed.

(* ---- permutations(2) ---- *)
Section Perm2.
  Context {X : Type}.

  Lemma perm_from_In (l : list X) : forall pre a b,
    NoDup (pre ++ l) ->
    (In (a, b) (permutations2_from pre l) <-> In a l /\ In b (pre ++ l) /\ a <> b).
  Proof.
    induction l as [|x t IH]; intros pre a b Hnd; cbn [permutations2_from].
    - cbn. tauto.
    - assert (Hnd' : NoDup ((pre ++ [x]) ++ t)) by (now rewrite <- app_assoc).
      rewrite in_app_iff, in_map_iff, (IH (pre ++ [x]) a b Hnd').
      apply NoDup_remove_2 in Hnd.
      rewrite <- app_assoc. cbn [app In]. rewrite !in_app_iff in *. cbn [In]. split.
      + intros [[y [E Hy]] | [Ha [Hb Hab]]].
        * inversion E; subst. rewrite in_app_iff in Hy. split; [now left|]. split; [tauto|]. intros ->. tauto.
        * tauto.
      + intros [[Ha|Ha] [Hb Hab]].
        * subst. left. exists b. split; auto. rewrite in_app_iff.
          destruct Hb as [Hb|[Hb|Hb]]; [tauto|congruence|tauto].
        * right. tauto.
  Qed.

  Lemma perm_from_NoDup (l : list X) : forall pre, NoDup (pre ++ l) -> NoDup (permutations2_from pre l).
  Proof.
    induction l as [|x t IH]; intros pre Hnd; cbn [permutations2_from]; [constructor|].
    assert (Hnd' : NoDup ((pre ++ [x]) ++ t)) by (now rewrite <- app_assoc).
    apply NoDup_app_intro.
    - apply FinFun.Injective_map_NoDup; [intros a b E; now inversion E|].
      now apply NoDup_remove_1 in Hnd.
    - now apply IH.
    - intros [a b] H1 H2. apply in_map_iff in H1 as [y [E _]]. inversion E; subst.
      apply (perm_from_In t (pre ++ [a]) a b Hnd') in H2. destruct H2 as [Ha _].
      apply NoDup_remove_2 in Hnd. apply Hnd. apply in_app_iff. now right.
  Qed.

  Lemma perm_from_length (l : list X) : forall pre,
    length (permutations2_from pre l) + length l = length l * (length pre + length l).
  Proof.
    induction l as [|x t IH]; intros pre; cbn [permutations2_from length]; [lia|].
    rewrite app_length, map_length, app_length.
    specialize (IH (pre ++ [x])). rewrite app_length in IH. cbn [length] in IH. nia.
  Qed.
End Perm2.

(* ---- the edge vector of complete_graph ---- *)
Theorem complete_pairs_directed n :
  NoDup (complete_pairs n true) /\
  (forall a b, In (a, b) (complete_pairs n true) <-> (0 <= a < n /\ 0 <= b < n /\ a <> b)%Z) /\
  (Z.of_nat (length (complete_pairs n true)) = Z.max 0 n * (Z.max 0 n - 1))%Z.
Proof.
  unfold complete_pairs, permutations2. split; [|split].
  - apply perm_from_NoDup. cbn [app]. apply zrange_NoDup.
  - intros a b. rewrite perm_from_In by (cbn [app]; apply zrange_NoDup).
    cbn [app]. now rewrite !zrange_In.
  - pose proof (perm_from_length (zrange n) []) as H. cbn [length] in H.
    rewrite zrange_length in H. nia.
Qed.

Theorem complete_pairs_undirected n :
  NoDup (complete_pairs n false) /\
  (forall a b, In (a, b) (complete_pairs n false) <-> (0 <= a /\ a < b /\ b < n)%Z) /\
  (2 * Z.of_nat (length (complete_pairs n false)) = Z.max 0 n * (Z.max 0 n - 1))%Z.
Proof.
  unfold complete_pairs. split; [|split].
  - apply comb_NoDup, zrange_NoDup.
  - intros a b. rewrite comb_In_sorted by apply zrange_ssorted. rewrite !zrange_In. lia.
  - pose proof (comb_length (zrange n)) as H. rewrite zrange_length in H. nia.
Qed.

(* every pair of the undirected vector is already in storage orientation *)
Lemma complete_pairs_undirected_lt n a b : In (a, b) (complete_pairs n false) -> (a < b)%Z.
Proof. intros H. apply complete_pairs_undirected in H. lia. Qed.
