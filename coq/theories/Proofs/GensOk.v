(* C16: the statements about the graphs the generators return, assembled from
   GensListOk (edge vector of complete_graph), GnpOk (the skipping loops) and
   GensCreationOk (the creation code stores exactly the vector it is given). *)
From Coq Require Import String List Bool ZArith QArith Arith Lia Sorting.Sorted Sorting.Permutation.
From GV Require Import Base.Outcome Base.AMap Model.GState Model.Creation Model.Query.
From GV Require Import Model.Classic Model.Gnp Spec.GnpDef.
From GV Require Import Proofs.GensListOk Proofs.GnpOk Proofs.GensCreationOk.
From GV Require Import Gen.KarateData.
Import ListNotations.
Open Scope Z_scope.

Lemma NoDup_map_inj_in {X Y} (f : X -> Y) l :
  (forall x y, In x l -> In y l -> f x = f y -> x = y) -> NoDup l -> NoDup (map f l).
Proof.
  induction l as [|a t IH]; cbn [map]; intros Hi Hn; [constructor|].
  inversion Hn; subst. constructor.
  - intros Hin. apply in_map_iff in Hin as [x [E Hx]].
    assert (x = a) by (apply Hi; auto; [now right | now left]). subst. contradiction.
  - apply IH; auto. intros x y Hx Hy. apply Hi; now right.
Qed.

Definition node_names (g : ggraph) : list Z := map nname (get_all_nodes g).
Definition edge_pairs (g : ggraph) : list (Z * Z) := map (fun e => (eu e, ev e)) (get_all_edges g).

(* ---- complete_graph ---- *)
Theorem complete_graph_ok n dir :
  exists g, complete_graph n dir = Ok g /\
            node_names g = zrange n /\ edge_pairs g = complete_pairs n dir.
Proof.
  unfold complete_graph, new_from_nodes_and_edges.
  set (s := with_create (if dir then specs_directed else specs_undirected)).
  assert (Hs : good_specs s) by (unfold s; destruct dir; cbn; repeat split).
  assert (Hd : directed s = dir) by (unfold s; destruct dir; reflexivity).
  destruct (empty_graph_ok s n) as [g0 E0]. rewrite E0. cbn [bind].
  assert (Hc : map (canon (directed s)) (complete_pairs n dir) = complete_pairs n dir).
  { rewrite Hd. rewrite <- (map_id (complete_pairs n dir)) at 2. apply map_ext_in.
    intros [a b] Hin. unfold canon. destruct dir; auto. cbn [fst snd].
    apply complete_pairs_undirected_lt in Hin. destruct (Z.ltb_spec b a); auto; lia. }
  destruct (build_graph_ok s n (complete_pairs n dir) g0 Hs E0) as (g & E & Hn & He & _).
  - apply Forall_forall. intros [a b] Hin. unfold pair_ok. cbn [fst snd].
    destruct dir.
    + apply complete_pairs_directed in Hin. lia.
    + apply complete_pairs_undirected in Hin. lia.
  - rewrite Hc. destruct dir;
      [apply (proj1 (complete_pairs_directed n)) | apply (proj1 (complete_pairs_undirected n))].
  - rewrite E. exists g. rewrite Hc in He. auto.
Qed.

(* ---- fast_gnp_random_graph ---- *)
Definition p_valid (p : f64v) : Prop :=
  exists q, p = FFin q /\ (0 < q)%Q /\ (q < 1)%Q.

Lemma p_valid_check p : p_valid p <-> f_gt0 p && f_lt1 p = true.
Proof.
  unfold p_valid. split.
  - intros (q & -> & H0 & H1). cbn.
    destruct (Qlt_le_dec 0 q) as [_|H]; [|exfalso; exact (Qlt_not_le _ _ H0 H)].
    destruct (Qlt_le_dec q 1) as [_|H]; [reflexivity|exfalso; exact (Qlt_not_le _ _ H1 H)].
  - destruct p as [|neg|q]; cbn; try discriminate.
    + destruct neg; discriminate.
    + destruct (Qlt_le_dec 0 q), (Qlt_le_dec q 1); try discriminate. intros _. now exists q.
Qed.

Theorem gnp_rejects_p n p dir gaps :
  ~ p_valid p -> fast_gnp_random_graph n p dir gaps = Err InvalidArgument.
Proof.
  intros H. unfold fast_gnp_random_graph. rewrite p_valid_check in H.
  destruct (f_gt0 p && f_lt1 p); [congruence | reflexivity].
Qed.

Lemma canon_gnp_inj n dir p q :
  gnp_pair n dir p -> gnp_pair n dir q -> canon dir p = canon dir q -> p = q.
Proof.
  destruct p as [a b], q as [c d]. unfold gnp_pair, canon, dir_pair, und_pair. destruct dir; auto.
  cbn [fst snd]. intros H1 H2.
  destruct (Z.ltb_spec b a), (Z.ltb_spec d c); try lia. now intros [= -> ->].
Qed.

Theorem gnp_graph_ok n p dir gaps l :
  0 <= n -> p_valid p -> gnp_pairs n dir gaps = Ok l -> Forall (gnp_pair n dir) l -> NoDup l ->
  exists g, fast_gnp_random_graph n p dir gaps = Ok g /\
            node_names g = zrange n /\ edge_pairs g = map (canon dir) l.
Proof.
  intros Hn Hp El Fl Nl. unfold fast_gnp_random_graph.
  apply p_valid_check in Hp. rewrite Hp. cbn [negb].
  unfold gnp_graph, gnp_empty.
  set (s := with_create (if dir then specs_directed else specs_undirected)).
  assert (Hs : good_specs s) by (unfold s; destruct dir; cbn; repeat split).
  assert (Hd : directed s = dir) by (unfold s; destruct dir; reflexivity).
  destruct (empty_graph_ok s n) as [g0 E0]. rewrite E0. cbn [bind]. rewrite El. cbn [bind].
  destruct (build_graph_ok s n l g0 Hs E0) as (g & E & Hnm & He & _).
  - eapply Forall_impl; [|exact Fl]. intros [a b]. unfold pair_ok, gnp_pair, dir_pair, und_pair.
    destruct dir; cbn [fst snd]; lia.
  - rewrite Hd. apply NoDup_map_inj_in; auto.
    intros x y Hx Hy. rewrite Forall_forall in Fl. apply (canon_gnp_inj n dir); auto.
  - unfold add_edge_tuples.
    change (map (fun p0 : Z * Z => mkedge (fst p0) (snd p0) None None) l) with (map edge_new l).
    rewrite E. exists g. rewrite Hd in He. auto.
Qed.

Lemma canon_pair_facts n dir c d a b :
  gnp_pair n dir (c, d) -> canon dir (c, d) = (a, b) ->
  0 <= a < n /\ 0 <= b < n /\ a <> b /\ (dir = false -> a < b).
Proof.
  unfold canon, gnp_pair, dir_pair, und_pair. destruct dir; cbn [fst snd]; intros H Ec.
  - injection Ec as <- <-. repeat split; try lia; discriminate.
  - destruct (Z.ltb_spec d c); injection Ec as <- <-; lia.
Qed.

(* success and structure for EVERY gap stream *)
Theorem gnp_graph_structural n p dir gaps :
  0 <= n <= i32_max -> p_valid p ->
  Forall (fun k => 0 <= k) gaps -> gnp_slots n dir < Z.of_nat (length gaps) ->
  exists g, fast_gnp_random_graph n p dir gaps = Ok g /\
    node_names g = zrange n /\
    NoDup (edge_pairs g) /\
    (forall a b, In (a, b) (edge_pairs g) ->
       0 <= a < n /\ 0 <= b < n /\ a <> b /\ (dir = false -> a < b /\ ~ In (b, a) (edge_pairs g))).
Proof.
  intros Hn Hp Hg Hl.
  destruct (gnp_pairs_structural n dir gaps Hn Hg Hl) as (l & El & Fl & Nl & _).
  destruct (gnp_graph_ok n p dir gaps l ltac:(lia) Hp El Fl Nl) as (g & E & Hnm & He).
  rewrite Forall_forall in Fl.
  exists g. split; [exact E|]. split; [exact Hnm|]. rewrite He. split.
  - apply NoDup_map_inj_in; auto.
    intros x y Hx Hy. apply (canon_gnp_inj n dir); auto.
  - intros a b H. apply in_map_iff in H as [[c d] [Ec Hin]].
    destruct (canon_pair_facts n dir c d a b (Fl _ Hin) Ec) as (Ha & Hb & Hab & Hlt).
    repeat split; try lia.
    + now apply Hlt.
    + intros Hba. apply in_map_iff in Hba as [[c' d'] [Ec' Hin']].
      destruct (canon_pair_facts n dir c' d' b a (Fl _ Hin') Ec') as (_ & _ & _ & Hlt').
      specialize (Hlt H). specialize (Hlt' H). lia.
Qed.

(* the emitted pairs are the slots of the published walk, at the level of the returned graph *)
Theorem gnp_graph_slots n p dir gaps ts :
  0 <= n <= i32_max -> p_valid p -> Forall (fun k => 0 <= k) gaps ->
  gnp_walk n dir gaps = Some ts ->
  exists g l, fast_gnp_random_graph n p dir gaps = Ok g /\ node_names g = zrange n /\
              edge_pairs g = map (canon dir) l /\
              map (gnp_index n dir) l = ts /\ Forall (gnp_pair n dir) l.
Proof.
  intros Hn Hp Hg W.
  destruct (gnp_pairs_slots n dir gaps ts Hn Hg W) as (l & El & M & Fl).
  assert (Nl : NoDup l).
  { apply (NoDup_of_map (gnp_index n dir)). rewrite M. apply ssorted_NoDup.
    unfold gnp_walk, dir_walk, und_walk in W. destruct dir.
    - eapply walk_incr; eauto. apply bump_ge.
    - eapply walk_incr; eauto. cbn. lia. }
  destruct (gnp_graph_ok n p dir gaps l ltac:(lia) Hp El Fl Nl) as (g & E & Hnm & He).
  exists g, l. auto.
Qed.

(* every admissible pair can occur *)
Theorem gnp_graph_every_pair n p dir q :
  0 <= n <= i32_max -> p_valid p -> gnp_pair n dir q ->
  exists gaps g, Forall (fun k => 0 <= k) gaps /\
                 fast_gnp_random_graph n p dir gaps = Ok g /\ edge_pairs g = [canon dir q].
Proof.
  intros Hn Hp Hq.
  destruct (gnp_every_pair_possible n dir q Hn Hq) as (gaps & Hg & El).
  destruct (gnp_graph_ok n p dir gaps [q] ltac:(lia) Hp El) as (g & E & _ & He).
  - now constructor.
  - constructor; [intros [] | constructor].
  - exists gaps, g. auto.
Qed.

(* ---- karate_club_graph: finite data regenerated from social.rs on every run ---- *)

(* Zachary's karate club as NetworkX 3.6.1 lists it: sorted(nx.karate_club_graph().edges()) *)
Definition zachary_ref : list (Z * Z) :=
  [(0,1);(0,2);(0,3);(0,4);(0,5);(0,6);(0,7);(0,8);(0,10);(0,11);(0,12);(0,13);(0,17);(0,19);(0,21);(0,31);
   (1,2);(1,3);(1,7);(1,13);(1,17);(1,19);(1,21);(1,30);(2,3);(2,7);(2,8);(2,9);(2,13);(2,27);(2,28);(2,32);
   (3,7);(3,12);(3,13);(4,6);(4,10);(5,6);(5,10);(5,16);(6,16);(8,30);(8,32);(8,33);(9,33);(13,33);(14,32);
   (14,33);(15,32);(15,33);(18,32);(18,33);(19,33);(20,32);(20,33);(22,32);(22,33);(23,25);(23,27);(23,29);
   (23,32);(23,33);(24,25);(24,27);(24,31);(25,31);(26,29);(26,33);(27,33);(28,31);(28,33);(29,32);(29,33);
   (30,32);(30,33);(31,32);(31,33);(32,33)].

Definition mat_get (m : list (list bool)) (i j : nat) : bool := nth j (nth i m []) false.
Definition all_below (k : nat) (f : nat -> bool) : bool := forallb f (seq 0 k).
Definition upper_pairs (m : list (list bool)) (k : nat) : list (Z * Z) :=
  flat_map (fun i => flat_map (fun j => if Nat.ltb i j && mat_get m i j
                                        then [(Z.of_nat i, Z.of_nat j)] else []) (seq 0 k)) (seq 0 k).
Definition count_true (m : list (list bool)) : nat :=
  length (filter (fun b => b) (concat m)).

Lemma all_below_spec k f : all_below k f = true -> forall i, (i < k)%nat -> f i = true.
Proof.
  unfold all_below. rewrite forallb_forall. intros H i Hi. apply H. apply in_seq. lia.
Qed.

(* 34 rows of 34 entries, all tokens 0/1, node range 0..34, specs as expected,
   symmetric, zero diagonal, 156 ones = 78 edges, and the edge list is Zachary's *)
Theorem karate_is_zachary :
  length karate_rows = 34%nat /\
  Forall (fun r => length r = 34%nat) karate_rows /\
  karate_tokens_clean = true /\ karate_node_bound = 34 /\
  karate_spec_keep_last = true /\ karate_spec_undirected = true /\
  (forall i j, (i < 34)%nat -> (j < 34)%nat -> mat_get karate_rows i j = mat_get karate_rows j i) /\
  (forall i, (i < 34)%nat -> mat_get karate_rows i i = false) /\
  count_true karate_rows = 156%nat /\
  length zachary_ref = 78%nat /\
  upper_pairs karate_rows 34 = zachary_ref.
Proof.
  split; [vm_compute; reflexivity|].
  split.
  { apply Forall_forall. intros r Hr.
    assert (H : forallb (fun r => Nat.eqb (length r) 34) karate_rows = true) by (vm_compute; reflexivity).
    rewrite forallb_forall in H. apply Nat.eqb_eq. now apply H. }
  split; [vm_compute; reflexivity|]. split; [vm_compute; reflexivity|].
  split; [vm_compute; reflexivity|]. split; [vm_compute; reflexivity|].
  split.
  { intros i j Hi Hj.
    assert (H : all_below 34 (fun i => all_below 34 (fun j =>
                  Bool.eqb (mat_get karate_rows i j) (mat_get karate_rows j i))) = true)
      by (vm_compute; reflexivity).
    apply Bool.eqb_prop. apply (all_below_spec _ _ (all_below_spec _ _ H i Hi) j Hj). }
  split.
  { intros i Hi.
    assert (H : all_below 34 (fun i => negb (mat_get karate_rows i i)) = true) by (vm_compute; reflexivity).
    apply negb_true_iff. apply (all_below_spec _ _ H i Hi). }
  split; [vm_compute; reflexivity|]. split; vm_compute; reflexivity.
Qed.

(* the graph the transcribed karate_club_graph builds from that data *)
Theorem karate_graph_is_zachary :
  exists g, karate_club_graph karate_rows karate_node_bound = Ok g /\
            node_names g = zrange 34 /\ directed (sp g) = false /\ multi (sp g) = false /\
            edge_pairs g = zachary_ref.
Proof.
  eexists. split; [vm_compute; reflexivity|].
  split; [vm_compute; reflexivity|]. split; [vm_compute; reflexivity|].
  split; vm_compute; reflexivity.
Qed.

(* ---- assembled statements ---- *)

(* complete_graph: exactly the nodes 0..n-1, exactly one edge per ordered /
   unordered pair of distinct nodes *)
Theorem complete_graph_exact n dir :
  exists g, complete_graph n dir = Ok g /\
    (forall x, In x (node_names g) <-> 0 <= x < n) /\ NoDup (node_names g) /\
    NoDup (edge_pairs g) /\
    (forall a b, In (a, b) (edge_pairs g) <->
                 0 <= a < n /\ 0 <= b < n /\ (if dir then a <> b else a < b)) /\
    Z.of_nat (length (edge_pairs g)) * (if dir then 1 else 2) = Z.max 0 n * (Z.max 0 n - 1).
Proof.
  destruct (complete_graph_ok n dir) as (g & E & Hn & He). exists g. rewrite Hn, He.
  split; [exact E|]. split; [apply zrange_In|]. split; [apply zrange_NoDup|].
  destruct dir.
  - destruct (complete_pairs_directed n) as (N & I & L).
    split; [exact N|]. split; [exact I | lia].
  - destruct (complete_pairs_undirected n) as (N & I & L). split; [exact N|]. split; [|lia].
    intros a b. rewrite I. lia.
Qed.

(* never a panic, for any gap stream, even a too short one *)
Theorem gnp_graph_no_panic n p dir gaps site :
  0 <= n <= i32_max -> Forall (fun k => 0 <= k) gaps ->
  fast_gnp_random_graph n p dir gaps <> Panic site.
Proof.
  intros Hn Hg. unfold fast_gnp_random_graph.
  destruct (f_gt0 p && f_lt1 p) eqn:Hp; cbn [negb]; [|discriminate].
  apply p_valid_check in Hp.
  destruct (gnp_pairs_total n dir gaps Hn Hg) as [E | (l & E & F & N)].
  - unfold gnp_graph, gnp_empty.
    destruct (empty_graph_ok (with_create (if dir then specs_directed else specs_undirected)) n) as [g0 E0].
    rewrite E0. cbn [bind]. rewrite E. discriminate.
  - destruct (gnp_graph_ok n p dir gaps l ltac:(lia) Hp E F N) as (g & Eg & _).
    unfold fast_gnp_random_graph in Eg. apply p_valid_check in Hp. rewrite Hp in Eg. cbn [negb] in Eg.
    rewrite Eg. discriminate.
Qed.

(* ---- the hypotheses are satisfiable, the statements not vacuous ---- *)
Example p_half_valid : p_valid (FFin (1 # 2)).
Proof. exists (1 # 2)%Q. split; [reflexivity|]. split; reflexivity. Qed.

Example gnp_structural_nonvacuous :
  let gaps := [1; 0; 2; 0; 0; 7; 0] in
  0 <= 4 <= i32_max /\ Forall (fun k => 0 <= k) gaps /\ gnp_slots 4 false < Z.of_nat (length gaps) /\
  exists g, fast_gnp_random_graph 4 (FFin (1 # 2)) false gaps = Ok g /\
            edge_pairs g = [(0, 2); (1, 2); (2, 3)].
Proof.
  cbv zeta. split; [unfold i32_max; lia|]. split; [repeat constructor; lia|].
  split; [vm_compute; reflexivity|]. eexists. split; vm_compute; reflexivity.
Qed.

Example gnp_directed_bump_example :
  (* the first gap lands on the diagonal slot (0,0) and is moved to (0,1) *)
  exists g, fast_gnp_random_graph 3 (FFin (1 # 2)) true [0; 3; 100] = Ok g /\
            edge_pairs g = [(0, 1); (1, 2)] /\
            dir_walk 3 [0; 3; 100] = Some [1; 5].
Proof.
  eexists. split; [vm_compute; reflexivity|]. split; vm_compute; reflexivity.
Qed.

Example gnp_slots_nonvacuous : gnp_walk 5 false [2; 0; 4; 9] = Some [2; 3; 8].
Proof. vm_compute. reflexivity. Qed.
