(* C16 link to the graph-structure core: the graph states returned by the three
   transcribed generators are states of a mutation history from the empty
   graph ([reachable]), hence satisfy the coherence invariant [WF] of all twelve
   fields, hence every structure theorem stated for WF graphs (C01, C02, C09,
   C15) applies to generator output.  The name type is Z with Z.eqb / Z.ltb,
   for which the three order hypotheses of the core are theorems. *)
From Coq Require Import String List Bool ZArith Arith Lia.
From GV Require Import Base.Outcome Base.AMap Model.GState Model.Creation Model.Query Model.Classic Model.Gnp.
From GV Require Import Spec.AGraph Spec.History.
From GV Require Import Proofs.WFDefs Proofs.HistoryOk Proofs.DegreeOk Proofs.GnpOk Proofs.GensCreationOk Proofs.GensOk.
From GV Require Import Gen.KarateData.
Import ListNotations.

Lemma Zltb_asym : forall x y : Z, Z.ltb x y = true -> Z.ltb y x = false.
Proof. intros x y H. apply Z.ltb_lt in H. apply Z.ltb_ge. lia. Qed.

Lemma Zltb_total : forall x y : Z, Z.ltb x y = false -> Z.ltb y x = false -> x = y.
Proof. intros x y H1 H2. apply Z.ltb_ge in H1. apply Z.ltb_ge in H2. lia. Qed.

Notation ZWF := (@WF Z unit Z.eqb Z.ltb).
Notation Zreachable := (@reachable Z unit Z.eqb Z.ltb).

Lemma Zreachable_WF s (g : ggraph) : Zreachable s g -> ZWF g.
Proof. exact (WF_reachable Z.eqb Z.ltb Zeqb_spec Zltb_asym Zltb_total s g). Qed.

Lemma Znew_from_reachable ns es s (g : ggraph) :
  new_from_nodes_and_edges Z.eqb Z.ltb ns es s = Ok g -> Zreachable s g.
Proof. exact (new_from_reachable Z.eqb Z.ltb Zeqb_spec ns es s g). Qed.

(* ---- complete_graph ---- *)
Theorem complete_graph_reachable n dir (g : ggraph) :
  complete_graph n dir = Ok g ->
  Zreachable (with_create (if dir then specs_directed else specs_undirected)) g.
Proof.
  unfold complete_graph. intros H.
  destruct (new_from_nodes_and_edges Z.eqb Z.ltb (map node_from_name (zrange n))
              (map edge_new (complete_pairs n dir))
              (with_create (if dir then specs_directed else specs_undirected))) as [g'| | |] eqn:E;
    try discriminate.
  inversion H; subst g'. eapply Znew_from_reachable. exact E.
Qed.

(* ---- karate_club_graph (for ANY adjacency literal and node bound) ---- *)
Theorem karate_graph_reachable dat nn (g : ggraph) :
  karate_club_graph dat nn = Ok g -> Zreachable (with_keep_last specs_undirected) g.
Proof.
  unfold karate_club_graph. intros H.
  destruct (new_from_nodes_and_edges Z.eqb Z.ltb (map node_from_name (zrange nn))
              (map edge_new (karate_pairs dat)) (with_keep_last specs_undirected)) as [g'| | |] eqn:E;
    try discriminate.
  inversion H; subst g'. eapply Znew_from_reachable. exact E.
Qed.

(* ---- fast_gnp_random_graph: add_node x n, then add_edge_tuples = new_from_nodes_and_edges ---- *)
Lemma gnp_graph_as_new_from n dir gaps (g : ggraph) :
  gnp_graph n dir gaps = Ok g ->
  exists ps, new_from_nodes_and_edges Z.eqb Z.ltb (map node_from_name (zrange n)) (map edge_new ps)
               (with_create (if dir then specs_directed else specs_undirected)) = Ok g.
Proof.
  unfold gnp_graph, gnp_empty, new_from_nodes_and_edges. intros H.
  destruct (add_nodes Z.eqb (new (with_create (if dir then specs_directed else specs_undirected)))
              (map node_from_name (zrange n))) as [g0| | |]; cbn [bind] in H |- *; try discriminate.
  destruct (gnp_pairs n dir gaps) as [ps| | |]; cbn [bind] in H; try discriminate.
  exists ps. unfold add_edge_tuples in H. unfold edge_new.
  destruct (add_edges Z.eqb Z.ltb g0 (map (fun p : Z * Z => mkedge (fst p) (snd p) None None) ps)) as [g2 r].
  destruct r; try discriminate. exact H.
Qed.

Theorem gnp_graph_reachable n p dir gaps (g : ggraph) :
  fast_gnp_random_graph n p dir gaps = Ok g ->
  Zreachable (with_create (if dir then specs_directed else specs_undirected)) g.
Proof.
  unfold fast_gnp_random_graph. intros H.
  destruct (negb (f_gt0 p && f_lt1 p)); [discriminate|].
  destruct (gnp_graph_as_new_from n dir gaps g H) as [ps E].
  eapply Znew_from_reachable. exact E.
Qed.

(* ---- the pinned statement: every generator output is WF (and carries the specs it was asked for) ---- *)
Theorem generators_wf :
  (forall n dir g, complete_graph n dir = Ok g ->
     ZWF g /\ sp g = with_create (if dir then specs_directed else specs_undirected)) /\
  (forall n p dir gaps g, fast_gnp_random_graph n p dir gaps = Ok g ->
     ZWF g /\ sp g = with_create (if dir then specs_directed else specs_undirected)) /\
  (forall dat nn g, karate_club_graph dat nn = Ok g ->
     ZWF g /\ sp g = with_keep_last specs_undirected).
Proof.
  split; [|split].
  - intros n dir g H. pose proof (complete_graph_reachable n dir g H) as R.
    split; [exact (Zreachable_WF _ g R)|].
    exact (reachable_sp Z.eqb Z.ltb Zeqb_spec Zltb_asym Zltb_total _ g R).
  - intros n p dir gaps g H. pose proof (gnp_graph_reachable n p dir gaps g H) as R.
    split; [exact (Zreachable_WF _ g R)|].
    exact (reachable_sp Z.eqb Z.ltb Zeqb_spec Zltb_asym Zltb_total _ g R).
  - intros dat nn g H. pose proof (karate_graph_reachable dat nn g H) as R.
    split; [exact (Zreachable_WF _ g R)|].
    exact (reachable_sp Z.eqb Z.ltb Zeqb_spec Zltb_asym Zltb_total _ g R).
Qed.

(* the hypotheses are inhabited: the generators DO return graphs (C16_complete,
   C16_gnp_structural, C16_karate_graph), so the statement is about actual outputs *)
Theorem generators_wf_total :
  (forall n dir, exists g, complete_graph n dir = Ok g /\ ZWF g) /\
  (forall n p dir gaps, (0 <= n <= i32_max)%Z -> p_valid p ->
     Forall (fun k => (0 <= k)%Z) gaps -> (gnp_slots n dir < Z.of_nat (length gaps))%Z ->
     exists g, fast_gnp_random_graph n p dir gaps = Ok g /\ ZWF g) /\
  (exists g, karate_club_graph karate_rows karate_node_bound = Ok g /\ ZWF g).
Proof.
  destruct generators_wf as (Hc & Hg & Hk). split; [|split].
  - intros n dir. destruct (complete_graph_exact n dir) as (g & H & _). exists g. split; [exact H|].
    apply (Hc n dir g H).
  - intros n p dir gaps Hn Hp Hgaps Hlen.
    destruct (gnp_graph_structural n p dir gaps Hn Hp Hgaps Hlen) as (g & H & _). exists g.
    split; [exact H|]. apply (Hg n p dir gaps g H).
  - destruct karate_graph_is_zachary as (g & H & _). exists g. split; [exact H|].
    apply (Hk _ _ g H).
Qed.

(* ---- a structure theorem applied to generator output: the handshake identity of C09 ---- *)
Corollary complete_graph_handshake n dir (g : ggraph) :
  complete_graph n dir = Ok g ->
  sum_over (fun x => out_deg Z.eqb g x + in_deg Z.eqb g x)%nat (names g)
  = (2 * length (flat_map snd (edges g)))%nat.
Proof.
  intros H. apply (handshake Z.eqb Z.ltb Zeqb_spec). apply (proj1 generators_wf n dir g H).
Qed.
