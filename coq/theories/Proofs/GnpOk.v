(* C16, part 2: the two skipping loops of fast_gnp_random_graph visit exactly
   the slots of the published scheme (Spec/GnpDef.v), for EVERY gap stream of
   non-negative gaps and every i32 node count; hence no self-loop, no repeated
   pair, all pairs in range, no panic, and every admissible pair is reachable. *)
From Coq Require Import String List Bool ZArith Lia Sorting.Sorted.
From GV Require Import Base.Outcome Model.GState Model.Classic Model.Gnp Spec.GnpDef.
Import ListNotations.
Open Scope Z_scope.

Definition i32_max : Z := 2147483647.

(* ---- arithmetic helpers ---- *)
Lemma tri_step v : tri (v + 1) = tri v + v.
Proof.
  unfold tri. replace ((v + 1) * (v + 1 - 1)) with (v * (v - 1) + v * 2) by ring.
  rewrite Z.div_add by lia. reflexivity.
Qed.

Lemma tri_mono a b : 0 <= a <= b -> tri a <= tri b.
Proof.
  intros H. unfold tri. apply Z.div_le_mono; [lia|].
  assert (E : a = b \/ a < b) by lia. destruct E as [-> | E]; [lia|].
  assert (0 <= (b - a) * (b + a - 1)) by (apply Z.mul_nonneg_nonneg; lia). lia.
Qed.

Lemma tri_nonneg v : 0 <= v -> 0 <= tri v.
Proof. intros H. unfold tri. apply Z.div_pos; nia. Qed.

Lemma tri_small v : 0 <= v <= i32_max + 1 -> tri v <= 4611686018427387904.
Proof.
  intros H. unfold tri, i32_max in *.
  apply Z.div_le_upper_bound; nia.
Qed.

Lemma cadd_ok s a b : i64_min <= a + b <= i64_max -> cadd s a b = Ok (a + b).
Proof.
  intros H. unfold cadd, in_i64.
  destruct (Z.leb_spec i64_min (a + b)), (Z.leb_spec (a + b) i64_max); cbn; auto; lia.
Qed.
Lemma csub_ok s a b : i64_min <= a - b <= i64_max -> csub s a b = Ok (a - b).
Proof.
  intros H. unfold csub, in_i64.
  destruct (Z.leb_spec i64_min (a - b)), (Z.leb_spec (a - b) i64_max); cbn; auto; lia.
Qed.

Lemma as_i32_small z : 0 <= z <= i32_max -> as_i32 z = z.
Proof. intros H. unfold as_i32, i32_max in *. rewrite Z.mod_small; lia. Qed.

Lemma sat_skip w k : -1 <= w <= i32_max -> 0 <= k ->
  sat_add (sat_add w 1) k = Z.min i64_max (w + 1 + k).
Proof. unfold sat_add, i64_min, i64_max, i32_max. lia. Qed.

(* ---- undirected ---------------------------------------------------------- *)

Lemma und_inner_spec : forall fuel n v w,
  1 <= v -> 0 <= w <= i64_max -> n <= i32_max -> (Z.to_nat (n - v) <= fuel)%nat ->
  exists v' w', und_inner fuel n v w = Ok (v', w') /\ v <= v' /\ 0 <= w' /\
    tri v' + w' = tri v + w /\ ((v' < n /\ w' < v') \/ n <= v').
Proof.
  induction fuel as [|f IH]; intros n v w Hv Hw Hn Hf; cbn [und_inner].
  - destruct (Z.leb_spec v w), (Z.ltb_spec v n); cbn [andb]; try lia;
      exists v, w; repeat split; auto; lia.
  - destruct (Z.leb_spec v w), (Z.ltb_spec v n); cbn [andb];
      try (exists v, w; repeat split; auto; lia).
    rewrite csub_ok by (unfold i64_min, i64_max in *; lia).
    rewrite cadd_ok by (unfold i64_min, i64_max, i32_max in *; lia).
    cbn [bind].
    destruct (IH n (v + 1) (w - v)) as (v' & w' & E & H1 & H2 & H3 & H4); try lia.
    exists v', w'. rewrite E. rewrite tri_step in H3. repeat split; auto; lia.
Qed.

Lemma und_loop_done gaps n v w : n <= v -> und_loop gaps n v w = Ok [].
Proof. intros H. destruct gaps; cbn [und_loop]; destruct (Z.ltb_spec v n); auto; lia. Qed.

Lemma und_loop_spec : forall gaps n v w,
  n <= i32_max -> 1 <= v -> -1 <= w < v -> v < n -> Forall (fun k => 0 <= k) gaps ->
  match walk (fun t => t) (tri n) (tri v + w) gaps with
  | Some ts => exists l, und_loop gaps n v w = Ok l /\ map und_index l = ts /\ Forall (und_pair n) l
  | None => und_loop gaps n v w = OutOfFuel
  end.
Proof.
  induction gaps as [|k gs IH]; intros n v w Hn Hv Hw Hvn Hg; cbn [walk und_loop].
  - destruct (Z.ltb_spec v n); [reflexivity | lia].
  - inversion Hg as [|? ? Hk Hgs]; subst.
    destruct (Z.ltb_spec v n); [|lia].
    rewrite sat_skip by (unfold i32_max in *; lia).
    set (w1 := Z.min i64_max (w + 1 + k)).
    assert (Hw1 : 0 <= w1 <= i64_max) by (unfold w1, i64_max; lia).
    destruct (und_inner_spec (Z.to_nat n + 1) n v w1) as (v' & w' & E & H1 & H2 & H3 & H4);
      try lia.
    rewrite E. cbn [bind].
    pose proof (tri_nonneg v ltac:(lia)) as Htv.
    destruct (Z.ltb_spec v' n) as [Hlt | Hge].
    + (* a pair is emitted *)
      destruct H4 as [[_ H4] | H4]; [|lia].
      assert (Hs : tri v' + w' < tri n).
      { pose proof (tri_step v'). pose proof (tri_mono (v' + 1) n ltac:(lia)). lia. }
      pose proof (tri_small n ltac:(unfold i32_max in *; lia)) as Hsm.
      assert (Ew : w1 = w + 1 + k) by (unfold w1, i64_max in *; lia).
      rewrite Ew in H3.
      replace (tri v + w + 1 + k) with (tri v' + w') by lia.
      destruct (Z.ltb_spec (tri v' + w') (tri n)); [|lia].
      specialize (IH n v' w' Hn ltac:(lia) ltac:(lia) Hlt Hgs).
      destruct (walk (fun t => t) (tri n) (tri v' + w') gs) as [ts|].
      * destruct IH as (l & El & Ml & Fl). rewrite El. cbn [bind].
        exists ((as_i32 v', as_i32 w') :: l).
        rewrite !as_i32_small by lia. repeat split.
        -- cbn [map]. now rewrite Ml.
        -- constructor; [|exact Fl]. unfold und_pair; cbn [fst snd]. lia.
      * now rewrite IH.
    + (* the walk has passed the last slot *)
      assert (Hs : tri n <= tri v' + w').
      { pose proof (tri_mono n v' ltac:(lia)). lia. }
      assert (tri n <= tri v + w + 1 + k) by (unfold w1 in *; lia).
      destruct (Z.ltb_spec (tri v + w + 1 + k) (tri n)); [lia|].
      exists []. rewrite und_loop_done by lia. repeat split; constructor.
Qed.

(* ---- directed ------------------------------------------------------------ *)

Lemma divmod_lin n v w : 0 <= w < n -> (v * n + w) / n = v /\ (v * n + w) mod n = w.
Proof.
  intros H. split.
  - rewrite Z.add_comm, Z.div_add by lia. rewrite Z.div_small by lia. lia.
  - rewrite Z.add_comm, Z.mod_add by lia. apply Z.mod_small; lia.
Qed.

Lemma bump_off_diag n v w : 0 <= w < n -> w <> v -> bump n (v * n + w) = v * n + w.
Proof.
  intros H D. unfold bump. destruct (divmod_lin n v w H) as [-> ->].
  destruct (Z.eqb_spec v w); [lia | reflexivity].
Qed.

Lemma bump_on_diag n v : 0 <= v < n -> bump n (v * n + v) = v * n + v + 1.
Proof.
  intros H. unfold bump. destruct (divmod_lin n v v H) as [-> ->].
  now rewrite Z.eqb_refl.
Qed.

Lemma bump_ge n t : t <= bump n t.
Proof. unfold bump. destruct (_ =? _); lia. Qed.

(* the row-normalising loop: from (v, w) at linear position T = v*n + w, with
   w >= 0 and not on the diagonal of its own row, it stops at the row/column of
   bump n T, or past the last row when bump n T is past the last slot *)
Lemma dir_inner_spec : forall fuel n v w,
  1 <= n <= i32_max -> 0 <= v -> 0 <= w <= i64_max -> (v < n -> w <> v) ->
  (Z.to_nat (n - v) <= fuel)%nat ->
  exists v' w', dir_inner fuel n v w = Ok (v', w') /\
    ((v' < n /\ 0 <= w' < n /\ w' <> v' /\ v' * n + w' = bump n (v * n + w) /\ v <= v') \/
     (n <= v' /\ n * n <= bump n (v * n + w))).
Proof.
  induction fuel as [|f IH]; intros n v w Hn Hv Hw Hd Hf; cbn [dir_inner].
  - destruct (Z.ltb_spec v n), (Z.leb_spec n w); cbn [andb]; try lia; exists v, w; split; auto;
      right; pose proof (bump_ge n (v * n + w)); split; nia.
  - destruct (Z.ltb_spec v n), (Z.leb_spec n w); cbn [andb].
    2:{ exists v, w; split; auto. left. rewrite bump_off_diag by lia. repeat split; lia. }
    2:{ exists v, w; split; auto. right. pose proof (bump_ge n (v * n + w)). split; nia. }
    2:{ exists v, w; split; auto. right. pose proof (bump_ge n (v * n + w)). split; nia. }
    rewrite csub_ok by (unfold i64_min, i64_max in *; lia).
    rewrite cadd_ok by (unfold i64_min, i64_max, i32_max in *; lia).
    cbn [bind].
    destruct (Z.eqb_spec (v + 1) (w - n)) as [Eq | Ne].
    + (* the subtraction lands on the diagonal of the new row *)
      rewrite cadd_ok by (unfold i64_min, i64_max, i32_max in *; lia).
      cbn [bind].
      destruct (IH n (v + 1) (w - n + 1)) as (v' & w' & E & HH); try lia.
      exists v', w'. split; [exact E|].
      replace (v * n + w) with ((v + 1) * n + (v + 1)) by lia.
      replace ((v + 1) * n + (w - n + 1)) with ((v + 1) * n + (v + 1) + 1) in HH by lia.
      destruct (Z.ltb_spec (v + 1) n) as [Hlt | Hge].
      * rewrite bump_on_diag by lia.
        (* bump is the identity on the slot after a diagonal slot *)
        assert (Eb : bump n ((v + 1) * n + (v + 1) + 1) = (v + 1) * n + (v + 1) + 1).
        { destruct (Z.ltb_spec (v + 2) n).
          - replace ((v + 1) * n + (v + 1) + 1) with ((v + 1) * n + (v + 2)) by lia.
            apply bump_off_diag; lia.
          - replace ((v + 1) * n + (v + 1) + 1) with ((v + 2) * n + 0) by lia.
            apply bump_off_diag; lia. }
        rewrite Eb in HH. destruct HH as [HH | HH]; [left | right]; lia.
      * (* v + 1 = n: past the last row *)
        destruct HH as [HH | HH]; [lia|]. right.
        pose proof (bump_ge n ((v + 1) * n + (v + 1))). split; [lia | nia].
    + cbn [bind].
      destruct (IH n (v + 1) (w - n)) as (v' & w' & E & HH); try lia.
      exists v', w'. split; [exact E|].
      replace ((v + 1) * n + (w - n)) with (v * n + w) in HH by lia.
      destruct HH as [HH | HH]; [left | right]; lia.
Qed.

Lemma dir_loop_done gaps n v w : n <= v -> dir_loop gaps n v w = Ok [].
Proof. intros H. destruct gaps; cbn [dir_loop]; destruct (Z.ltb_spec v n); auto; lia. Qed.

(* the state between two draws: the last emitted slot, or the start *)
Definition dir_state (n v w : Z) : Prop :=
  0 <= v < n /\ ((0 <= w < n /\ w <> v) \/ (v = 0 /\ w = -1)).

Lemma dir_loop_spec : forall gaps n v w,
  1 <= n <= i32_max -> dir_state n v w -> Forall (fun k => 0 <= k) gaps ->
  match walk (bump n) (n * n) (v * n + w) gaps with
  | Some ts => exists l, dir_loop gaps n v w = Ok l /\ map (dir_index n) l = ts /\ Forall (dir_pair n) l
  | None => dir_loop gaps n v w = OutOfFuel
  end.
Proof.
  induction gaps as [|k gs IH]; intros n v w Hn [Hv Hw] Hg; cbn [walk dir_loop].
  - destruct (Z.ltb_spec v n); [reflexivity | lia].
  - inversion Hg as [|? ? Hk Hgs]; subst.
    destruct (Z.ltb_spec v n); [|lia].
    rewrite sat_skip by (unfold i32_max in *; lia).
    set (w1 := Z.min i64_max (w + 1 + k)).
    assert (Hw1 : 0 <= w1 <= i64_max) by (unfold w1, i64_max; lia).
    assert (Hnn : n * n <= 4611686018427387904) by (unfold i32_max in *; nia).
    (* position of the entry state of the inner loop, and its bump *)
    assert (Hentry : exists w2,
      (if v =? w1 then cadd "random.rs:64 w += 1" w1 1 else Ok w1) = Ok w2 /\
      0 <= w2 <= i64_max /\ w2 <> v /\ bump n (v * n + w2) = bump n (v * n + w1)).
    { destruct (Z.eqb_spec v w1) as [Ev | Nv].
      - rewrite cadd_ok by (unfold i64_min, i64_max, i32_max in *; lia).
        exists (w1 + 1). repeat split; try (unfold i64_max, i32_max in *; lia).
        rewrite <- Ev. rewrite bump_on_diag by lia.
        destruct (Z.ltb_spec (v + 1) n).
        + replace (v * n + v + 1) with (v * n + (v + 1)) by lia. apply bump_off_diag; lia.
        + replace (v * n + (v + 1)) with ((v + 1) * n + 0) by lia.
          rewrite bump_off_diag by lia. lia.
      - exists w1. repeat split; auto; lia. }
    destruct Hentry as (w2 & E2 & Hw2 & Hd2 & Hb2). rewrite E2. cbn [bind].
    destruct (dir_inner_spec (Z.to_nat n + 1) n v w2) as (v' & w' & E & HH); try lia.
    rewrite E. cbn [bind]. rewrite Hb2 in HH.
    (* the model's w1 and the true position w + 1 + k agree below the end of the grid *)
    assert (Hpos : (bump n (v * n + w1) < n * n -> w1 = w + 1 + k) /\
                   (n * n <= bump n (v * n + w1) -> n * n <= bump n (v * n + (w + 1 + k)))).
    { split.
      - intros Hb. pose proof (bump_ge n (v * n + w1)). unfold w1, i64_max in *. nia.
      - intros Hb. destruct (Z.leb_spec (w + 1 + k) i64_max).
        + replace (w + 1 + k) with w1 by (unfold w1; lia). exact Hb.
        + pose proof (bump_ge n (v * n + (w + 1 + k))). unfold i64_max in *. nia. }
    destruct Hpos as [Hp1 Hp2].
    replace (v * n + w + 1 + k) with (v * n + (w + 1 + k)) by lia.
    destruct HH as [(Hlt & Hw' & Hne & Hpos & Hle) | (Hge & Hpast)].
    + (* a pair is emitted *)
      destruct (Z.ltb_spec v' n); [|lia].
      assert (Hb : bump n (v * n + w1) < n * n) by nia.
      rewrite <- (Hp1 Hb). rewrite <- Hpos.
      destruct (Z.ltb_spec (v' * n + w') (n * n)); [|lia].
      assert (Hst : dir_state n v' w') by (unfold dir_state; lia).
      specialize (IH n v' w' Hn Hst Hgs).
      destruct (walk (bump n) (n * n) (v' * n + w') gs) as [ts|].
      * destruct IH as (l & El & Ml & Fl). rewrite El. cbn [bind].
        exists ((as_i32 v', as_i32 w') :: l).
        rewrite !as_i32_small by lia. repeat split.
        -- cbn [map]. now rewrite Ml.
        -- constructor; [|exact Fl]. unfold dir_pair; cbn [fst snd]. lia.
      * now rewrite IH.
    + destruct (Z.ltb_spec v' n); [lia|].
      specialize (Hp2 Hpast).
      destruct (Z.ltb_spec (bump n (v * n + (w + 1 + k))) (n * n)); [lia|].
      exists []. rewrite dir_loop_done by lia. repeat split; constructor.
Qed.

(* ---- facts about the walk ------------------------------------------------- *)

Lemma walk_incr b N : (forall x, x <= b x) -> forall gaps t ts,
  Forall (fun k => 0 <= k) gaps -> walk b N t gaps = Some ts ->
  StronglySorted Z.lt ts /\ Forall (fun x => t < x < N) ts.
Proof.
  intros Hb. induction gaps as [|k gs IH]; intros t ts Hg; cbn [walk]; [discriminate|].
  inversion Hg as [|? ? Hk Hgs]; subst.
  destruct (Z.ltb_spec (b (t + 1 + k)) N) as [Hlt | Hge].
  - destruct (walk b N (b (t + 1 + k)) gs) as [ts'|] eqn:E; [|discriminate].
    intros [= <-]. destruct (IH _ _ Hgs E) as [S F]. pose proof (Hb (t + 1 + k)).
    split; constructor; auto.
    + eapply Forall_impl; [|exact F]. cbn. lia.
    + lia.
    + eapply Forall_impl; [|exact F]. cbn. lia.
  - intros [= <-]. split; constructor.
Qed.

Lemma walk_enough b N : (forall x, x <= b x) -> forall gaps t,
  Forall (fun k => 0 <= k) gaps -> t < N -> N - t <= Z.of_nat (length gaps) + 0 ->
  exists ts, walk b N t gaps = Some ts.
Proof.
  intros Hb. induction gaps as [|k gs IH]; intros t Hg Ht Hlen; cbn [walk length] in *; [lia|].
  inversion Hg as [|? ? Hk Hgs]; subst.
  destruct (Z.ltb_spec (b (t + 1 + k)) N) as [Hlt | Hge]; [|now exists []].
  pose proof (Hb (t + 1 + k)).
  destruct (IH (b (t + 1 + k)) Hgs Hlt ltac:(lia)) as [ts E]. rewrite E. now eexists.
Qed.

Lemma ssorted_NoDup l : StronglySorted Z.lt l -> NoDup l.
Proof.
  induction 1 as [|x t Ht IH Hx]; constructor; auto.
  intros Hin. rewrite Forall_forall in Hx. specialize (Hx _ Hin). lia.
Qed.

Lemma NoDup_of_map {X Y} (f : X -> Y) l : NoDup (map f l) -> NoDup l.
Proof.
  induction l as [|x t IH]; cbn [map]; intros H; constructor; inversion H; subst; auto.
  intros Hin. apply H2. now apply in_map.
Qed.

(* ---- the index functions are injective on admissible pairs ---------------- *)

Lemma und_index_inj p q :
  0 <= snd p < fst p -> 0 <= snd q < fst q -> und_index p = und_index q -> p = q.
Proof.
  destruct p as [v w], q as [v' w']; unfold und_index; cbn [fst snd]; intros H H' E.
  assert (Hlt : forall a c x, 0 <= x < a -> a < c -> tri a + x < tri c).
  { intros a c x Hx Hac. pose proof (tri_step a). pose proof (tri_mono (a + 1) c ltac:(lia)). lia. }
  destruct (Z.lt_trichotomy v v') as [L | [-> | L]].
  - specialize (Hlt v v' w H L). lia.
  - f_equal. lia.
  - specialize (Hlt v' v w' H' L). lia.
Qed.

Lemma dir_index_inj n p q :
  0 <= snd p < n -> 0 <= snd q < n -> dir_index n p = dir_index n q -> p = q.
Proof.
  destruct p as [v w], q as [v' w']; unfold dir_index; cbn [fst snd]; intros H H' E.
  destruct (divmod_lin n v w H) as [D1 M1]. destruct (divmod_lin n v' w' H') as [D2 M2].
  rewrite E in D1, M1. congruence.
Qed.

(* ---- theorems about the edge-tuple vector --------------------------------- *)

Definition gnp_walk (n : Z) (dir : bool) (gaps : list Z) : option (list Z) :=
  if dir then dir_walk n gaps else und_walk n gaps.
Definition gnp_index (n : Z) (dir : bool) : Z * Z -> Z := if dir then dir_index n else und_index.
Definition gnp_pair (n : Z) (dir : bool) : Z * Z -> Prop := if dir then dir_pair n else und_pair n.
Definition gnp_slots (n : Z) (dir : bool) : Z := if dir then n * n else tri n.

(* the emitted pairs are slot(t_1), slot(t_2), ... for the positions of the walk *)
Theorem gnp_pairs_slots n dir gaps ts :
  0 <= n <= i32_max -> Forall (fun k => 0 <= k) gaps -> gnp_walk n dir gaps = Some ts ->
  exists l, gnp_pairs n dir gaps = Ok l /\ map (gnp_index n dir) l = ts /\ Forall (gnp_pair n dir) l.
Proof.
  intros Hn Hg. unfold gnp_walk, gnp_pairs, gnp_index, gnp_pair. destruct dir.
  - (* directed *)
    unfold dir_walk. destruct (Z.eq_dec n 0) as [-> | Hn0].
    + destruct gaps as [|k gs]; cbn [walk]; [discriminate|].
      inversion Hg; subst. pose proof (bump_ge 0 (-1 + 1 + k)).
      destruct (Z.ltb_spec (bump 0 (-1 + 1 + k)) (0 * 0)); [lia|].
      intros [= <-]. exists []. rewrite dir_loop_done by lia. repeat split; constructor.
    + intros W. pose proof (dir_loop_spec gaps n 0 (-1) ltac:(lia)) as S.
      replace (0 * n + -1) with (-1) in S by lia. rewrite W in S. apply S; auto.
      unfold dir_state. lia.
  - (* undirected *)
    unfold und_walk. destruct (Z_le_gt_dec n 1) as [Hle | Hgt].
    + destruct gaps as [|k gs]; cbn [walk]; [discriminate|].
      inversion Hg; subst.
      assert (tri n = 0).
      { assert (E : n = 0 \/ n = 1) by lia. destruct E as [-> | ->]; reflexivity. }
      destruct (Z.ltb_spec (-1 + 1 + k) (tri n)); [lia|].
      intros [= <-]. exists []. rewrite und_loop_done by lia. repeat split; constructor.
    + intros W. pose proof (und_loop_spec gaps n 1 (-1) ltac:(lia) ltac:(lia) ltac:(lia) ltac:(lia) Hg) as S.
      change (tri 1 + -1) with (-1) in S. rewrite W in S. exact S.
Qed.

Lemma gnp_walk_enough n dir gaps :
  0 <= n -> Forall (fun k => 0 <= k) gaps -> gnp_slots n dir < Z.of_nat (length gaps) ->
  exists ts, gnp_walk n dir gaps = Some ts.
Proof.
  intros Hn Hg Hl. unfold gnp_walk, gnp_slots, dir_walk, und_walk in *.
  destruct dir.
  - destruct (Z.eq_dec n 0) as [-> | Hn0].
    + destruct gaps as [|k gs]; cbn [length walk] in *; [lia|]. inversion Hg; subst.
      pose proof (bump_ge 0 (-1 + 1 + k)).
      destruct (Z.ltb_spec (bump 0 (-1 + 1 + k)) (0 * 0)); [lia|]. now eexists.
    + apply walk_enough; auto; try nia. apply bump_ge.
  - pose proof (tri_nonneg n Hn). destruct (Z.eq_dec (tri n) 0) as [E | E].
    + destruct gaps as [|k gs]; cbn [length walk] in *; [lia|]. inversion Hg; subst.
      destruct (Z.ltb_spec (-1 + 1 + k) (tri n)); [lia|]. now eexists.
    + apply walk_enough; auto; try lia.
Qed.

(* for EVERY gap stream: success, all pairs admissible (in range, no self-loop,
   storage orientation w < v when undirected), no repeated pair *)
Theorem gnp_pairs_structural n dir gaps :
  0 <= n <= i32_max -> Forall (fun k => 0 <= k) gaps -> gnp_slots n dir < Z.of_nat (length gaps) ->
  exists l, gnp_pairs n dir gaps = Ok l /\ Forall (gnp_pair n dir) l /\ NoDup l /\
            StronglySorted Z.lt (map (gnp_index n dir) l).
Proof.
  intros Hn Hg Hl. destruct (gnp_walk_enough n dir gaps) as [ts W]; auto; try lia.
  destruct (gnp_pairs_slots n dir gaps ts Hn Hg W) as (l & E & M & F).
  exists l. repeat split; auto.
  - assert (S : StronglySorted Z.lt ts).
    { unfold gnp_walk, dir_walk, und_walk in W. destruct dir.
      - eapply walk_incr; eauto. apply bump_ge.
      - eapply walk_incr; eauto. cbn. lia. }
    apply (NoDup_of_map (gnp_index n dir)). rewrite M. now apply ssorted_NoDup.
  - rewrite M. unfold gnp_walk, dir_walk, und_walk in W. destruct dir.
    + eapply walk_incr; eauto. apply bump_ge.
    + eapply walk_incr; eauto. cbn. lia.
Qed.

(* the result is never a panic, whatever the stream (even a too short one) *)
Theorem gnp_pairs_no_panic n dir gaps s :
  0 <= n <= i32_max -> Forall (fun k => 0 <= k) gaps -> gnp_pairs n dir gaps <> Panic s.
Proof.
  intros Hn Hg. destruct (gnp_walk n dir gaps) as [ts|] eqn:W.
  - destruct (gnp_pairs_slots n dir gaps ts Hn Hg W) as (l & E & _). now rewrite E.
  - unfold gnp_walk, gnp_pairs, dir_walk, und_walk in *. destruct dir.
    + destruct (Z.eq_dec n 0) as [-> | Hn0]; [rewrite dir_loop_done by lia; discriminate|].
      pose proof (dir_loop_spec gaps n 0 (-1) ltac:(lia)) as S.
      replace (0 * n + -1) with (-1) in S by lia. rewrite W in S. rewrite S; auto; [discriminate|].
      unfold dir_state. lia.
    + destruct (Z_le_gt_dec n 1); [rewrite und_loop_done by lia; discriminate|].
      pose proof (und_loop_spec gaps n 1 (-1) ltac:(lia) ltac:(lia) ltac:(lia) ltac:(lia) Hg) as S.
      change (tri 1 + -1) with (-1) in S. rewrite W in S. now rewrite S.
Qed.

(* every admissible pair can occur: a constructive gap stream that emits it *)
Theorem gnp_every_pair_possible n dir p :
  0 <= n <= i32_max -> gnp_pair n dir p ->
  exists gaps, Forall (fun k => 0 <= k) gaps /\ gnp_pairs n dir gaps = Ok [p].
Proof.
  intros Hn Hp. destruct p as [a b].
  exists [gnp_index n dir (a, b); gnp_slots n dir].
  assert (Hi : 0 <= gnp_index n dir (a, b) < gnp_slots n dir /\
               (dir = true -> bump n (gnp_index n dir (a, b)) = gnp_index n dir (a, b))).
  { unfold gnp_index, gnp_slots, gnp_pair, dir_pair, und_pair, dir_index, und_index in *.
    destruct dir; cbn [fst snd] in *.
    - split; [nia|]. intros _. apply bump_off_diag; lia.
    - split; [|discriminate]. pose proof (tri_nonneg a ltac:(lia)).
      pose proof (tri_step a). pose proof (tri_mono (a + 1) n ltac:(lia)). lia. }
  destruct Hi as [Hi Hb].
  assert (Hs : 0 <= gnp_slots n dir).
  { unfold gnp_slots. destruct dir; [nia | apply tri_nonneg; lia]. }
  assert (Hg : Forall (fun k => 0 <= k) [gnp_index n dir (a, b); gnp_slots n dir]).
  { repeat constructor; lia. }
  assert (W : gnp_walk n dir [gnp_index n dir (a, b); gnp_slots n dir] = Some [gnp_index n dir (a, b)]).
  { unfold gnp_walk, dir_walk, und_walk. destruct dir; cbn [walk].
    - replace (-1 + 1 + gnp_index n true (a, b)) with (gnp_index n true (a, b)) by lia.
      rewrite (Hb eq_refl). unfold gnp_slots in *.
      destruct (Z.ltb_spec (gnp_index n true (a, b)) (n * n)); [|lia].
      pose proof (bump_ge n (gnp_index n true (a, b) + 1 + n * n)).
      destruct (Z.ltb_spec (bump n (gnp_index n true (a, b) + 1 + n * n)) (n * n)); [lia|]. reflexivity.
    - replace (-1 + 1 + gnp_index n false (a, b)) with (gnp_index n false (a, b)) by lia.
      unfold gnp_slots in *.
      destruct (Z.ltb_spec (gnp_index n false (a, b)) (tri n)); [|lia].
      destruct (Z.ltb_spec (gnp_index n false (a, b) + 1 + tri n) (tri n)); [lia|]. reflexivity. }
  destruct (gnp_pairs_slots n dir _ _ Hn Hg W) as (l & E & M & F).
  split; [exact Hg|].
  destruct l as [|q [|q' l']]; cbn [map] in M; try discriminate.
  injection M as M. inversion F as [|? ? Fq _]; subst.
  assert (q = (a, b)); [|now subst].
  unfold gnp_index, gnp_pair, dir_pair, und_pair in *. destruct dir.
  - apply (dir_index_inj n); cbn [fst snd] in *; auto; lia.
  - apply und_index_inj; cbn [fst snd] in *; auto; lia.
Qed.

(* whatever the stream: either it is exhausted (OutOfFuel), or the loop returns
   admissible, pairwise distinct pairs — never a panic, never anything else *)
Theorem gnp_pairs_total n dir gaps :
  0 <= n <= i32_max -> Forall (fun k => 0 <= k) gaps ->
  gnp_pairs n dir gaps = OutOfFuel \/
  exists l, gnp_pairs n dir gaps = Ok l /\ Forall (gnp_pair n dir) l /\ NoDup l.
Proof.
  intros Hn Hg. destruct (gnp_walk n dir gaps) as [ts|] eqn:W.
  - right. destruct (gnp_pairs_slots n dir gaps ts Hn Hg W) as (l & E & M & F).
    exists l. repeat split; auto.
    apply (NoDup_of_map (gnp_index n dir)). rewrite M. apply ssorted_NoDup.
    unfold gnp_walk, dir_walk, und_walk in W. destruct dir.
    + eapply walk_incr; eauto. apply bump_ge.
    + eapply walk_incr; eauto. cbn. lia.
  - unfold gnp_walk, gnp_pairs, dir_walk, und_walk in *. destruct dir.
    + destruct (Z.eq_dec n 0) as [-> | Hn0].
      * right. exists []. rewrite dir_loop_done by lia. repeat split; constructor.
      * left. pose proof (dir_loop_spec gaps n 0 (-1) ltac:(lia)) as S.
        replace (0 * n + -1) with (-1) in S by lia. rewrite W in S. apply S; auto.
        unfold dir_state. lia.
    + destruct (Z_le_gt_dec n 1).
      * right. exists []. rewrite und_loop_done by lia. repeat split; constructor.
      * left. pose proof (und_loop_spec gaps n 1 (-1) ltac:(lia) ltac:(lia) ltac:(lia) ltac:(lia) Hg) as S.
        change (tri 1 + -1) with (-1) in S. now rewrite W in S.
Qed.
