(* The GraphML reader's event loop (Model/GraphML.v) against the declarative
   content of a document (Spec/GraphMLDef.v): for EVERY event sequence and
   every parse oracle the loop ends in ReadError exactly when the document is
   refused, and otherwise in exactly the document's elements; it never reaches
   one of its Panic sites. *)
From Coq Require Import String List NArith ZArith Bool Lia.
From GV Require Import Base.Outcome Base.AMap Model.GState Model.Creation Model.XmlEscape Model.GraphML.
From GV Require Import Spec.GraphMLDef Proofs.EscapeOk.
Import ListNotations.

(* ---- attribute decoding --------------------------------------------------- *)

Lemma attrs_map_cases : forall l m, (exists m', attrs_map l m = Ok m') \/ attrs_map l m = Err ReadError.
Proof.
  induction l as [|a l IH]; intro m; cbn [attrs_map].
  - left. eexists. reflexivity.
  - destruct a as [k raw|]; [|right; reflexivity].
    destruct (unescape raw); [apply IH|right; reflexivity].
Qed.

Lemma get_attributes_cases : forall a,
  (exists m, get_attributes a = Ok m /\ attrs_of a = Some m) \/
  (get_attributes a = Err ReadError /\ attrs_of a = None).
Proof.
  intro a. unfold attrs_of. destruct (attrs_map_cases a []) as [[m Hm]|Hm]; unfold get_attributes in *; rewrite Hm.
  - left. exists m. split; reflexivity.
  - right. split; reflexivity.
Qed.

Lemma contains_key_aget : forall k (m : amap),
  contains_key bytes_eqb k m = true -> exists v, aget k m = Some v.
Proof.
  intros k m H. unfold contains_key in H. unfold aget. destruct (lookup bytes_eqb k m) as [v|]; [exists v; reflexivity|discriminate].
Qed.

Lemma contains_key_false_aget : forall k (m : amap),
  contains_key bytes_eqb k m = false -> aget k m = None.
Proof.
  intros k m H. unfold contains_key in H. unfold aget. destruct (lookup bytes_eqb k m); [discriminate|reflexivity].
Qed.

(* ---- the element handlers are the declarative classifiers ----------------- *)

Definition upd_nodes (n : gnode) (st : rstate) : rstate :=
  mkr (r_directed st) (n :: r_nodes st) (r_edges st) (r_last st) (r_wkey st).
Definition upd_edges (e : gedge) (st : rstate) : rstate :=
  mkr (r_directed st) (r_nodes st) (e :: r_edges st) (r_last st) (r_wkey st).
Definition upd_wkey (k : bytes) (st : rstate) : rstate :=
  mkr (r_directed st) (r_nodes st) (r_edges st) (r_last st) k.
Definition upd_dir (d : bool) (st : rstate) : rstate :=
  mkr d (r_nodes st) (r_edges st) (r_last st) (r_wkey st).

Lemma rd_add_node_spec : forall a st,
  rd_add_node a st = match node_id a with
                     | Some id => Ok (upd_nodes (mknode id None) st)
                     | None => Err ReadError
                     end.
Proof.
  intros a st. unfold rd_add_node, node_id.
  destruct (get_attributes_cases a) as [[m [H1 H2]]|[H1 H2]]; rewrite H1, H2; cbn [bind]; [|reflexivity].
  destruct (aget s_id m); reflexivity.
Qed.

Lemma rd_add_edge_spec : forall a st,
  rd_add_edge a st = match edge_ends a with
                     | Some (s, t) => Ok (upd_edges (mkedge s t None None) st)
                     | None => Err ReadError
                     end.
Proof.
  intros a st. unfold rd_add_edge, edge_ends.
  destruct (get_attributes_cases a) as [[m [H1 H2]]|[H1 H2]]; rewrite H1, H2; cbn [bind]; [|reflexivity].
  destruct (contains_key bytes_eqb s_source m) eqn:Hs; cbn [negb].
  - destruct (contains_key_aget _ _ Hs) as [s Hs']. rewrite Hs'.
    destruct (contains_key bytes_eqb s_target m) eqn:Ht; cbn [negb].
    + destruct (contains_key_aget _ _ Ht) as [t Ht']. rewrite Ht'. reflexivity.
    + rewrite (contains_key_false_aget _ _ Ht). reflexivity.
  - rewrite (contains_key_false_aget _ _ Hs). reflexivity.
Qed.

Lemma rd_key_spec : forall a st,
  rd_key a st = match key_decl a with
                | Some (Some id) => Ok (upd_wkey id st)
                | Some None => Ok st
                | None => Err ReadError
                end.
Proof.
  intros a st. unfold rd_key, key_decl.
  destruct (get_attributes_cases a) as [[m [H1 H2]]|[H1 H2]]; rewrite H1, H2; cbn [bind]; [|reflexivity].
  destruct (opt_is (aget s_attr_name m) s_weight && opt_is (aget s_for m) s_edge); [|reflexivity].
  destruct (aget s_id m); reflexivity.
Qed.

Lemma rd_graph_spec : forall a st,
  rd_graph a st = match graph_dir a with
                  | Some d => Ok (upd_dir d st)
                  | None => Err ReadError
                  end.
Proof.
  intros a st. unfold rd_graph, graph_dir.
  destruct (get_attributes_cases a) as [[m [H1 H2]]|[H1 H2]]; rewrite H1, H2; cbn [bind]; [|reflexivity].
  destruct (aget s_edgedefault m) as [v|]; [|reflexivity].
  destruct (bytes_eqb v s_directed); [reflexivity|].
  destruct (bytes_eqb v s_undirected); reflexivity.
Qed.

Lemma data_wants_text_spec : forall a st,
  data_wants_text a st = match data_is_weight a (r_wkey st) with
                         | Some b => Ok b
                         | None => Err ReadError
                         end.
Proof.
  intros a st. unfold data_wants_text, data_is_weight.
  destruct (get_attributes_cases a) as [[m [H1 H2]]|[H1 H2]]; rewrite H1, H2; cbn [bind]; [|reflexivity].
  destruct (contains_key bytes_eqb s_key m) eqn:Hk.
  - destruct (contains_key_aget _ _ Hk) as [k Hk']. rewrite Hk'. reflexivity.
  - rewrite (contains_key_false_aget _ _ Hk). reflexivity.
Qed.

(* ---- the loop -------------------------------------------------------------- *)

(* the reader's imperative edge accumulation (newest first; a weight datum
   overwrites the weight of the newest edge) *)
Fixpoint apply_edges (acc : list gedge) (els : list elem) : list gedge :=
  match els with
  | [] => acc
  | ElEdge s t :: r => apply_edges (mkedge s t None None :: acc) r
  | ElWeight w :: r =>
    match acc with
    | e :: rest => apply_edges (mkedge (eu e) (ev e) w (eattr e) :: rest) r
    | [] => apply_edges [] r
    end
  | _ :: r => apply_edges acc r
  end.

(* the invariant that protects edges.last_mut().unwrap() *)
Definition inv (st : rstate) : Prop := r_last st = LEdge -> r_edges st <> [].

Definition loop_post (st : rstate) (els : list elem) (st' : rstate) : Prop :=
  r_directed st' = el_directed (r_directed st) els /\
  r_nodes st' = rev (el_nodes els) ++ r_nodes st /\
  r_edges st' = apply_edges (r_edges st) els.

Definition loop_spec (parse : bytes -> option weight) (evs : list event) (st : rstate) (exp : bool) : Prop :=
  match doc_elems parse evs (r_wkey st) (r_last st) exp with
  | None => rloop parse evs st exp = Err ReadError
  | Some els => exists st', rloop parse evs st exp = Ok st' /\ loop_post st els st'
  end.

Lemma loop_post_nil : forall st, loop_post st [] st.
Proof. intro st. repeat split. Qed.

Lemma ocons_spec : forall parse rest st st1 exp1 el o r,
  (* the model continues with st1, the spec continues with the same key / marker and emits el *)
  r = rloop parse rest st1 exp1 ->
  o = ocons el (doc_elems parse rest (r_wkey st1) (r_last st1) exp1) ->
  loop_spec parse rest st1 exp1 ->
  (forall els st', loop_post st1 els st' -> loop_post st (el :: els) st') ->
  match o with
  | None => r = Err ReadError
  | Some els => exists st', r = Ok st' /\ loop_post st els st'
  end.
Proof.
  intros parse rest st st1 exp1 el o r Hr Ho Hspec Hpost. subst r o. unfold loop_spec in Hspec.
  destruct (doc_elems parse rest (r_wkey st1) (r_last st1) exp1) as [els|]; cbn [ocons].
  - destruct Hspec as [st' [H1 H2]]. exists st'. split; [exact H1|apply Hpost; exact H2].
  - exact Hspec.
Qed.

Lemma same_spec : forall parse rest st st1 exp1 o r,
  r = rloop parse rest st1 exp1 ->
  o = doc_elems parse rest (r_wkey st1) (r_last st1) exp1 ->
  loop_spec parse rest st1 exp1 ->
  (forall els st', loop_post st1 els st' -> loop_post st els st') ->
  match o with
  | None => r = Err ReadError
  | Some els => exists st', r = Ok st' /\ loop_post st els st'
  end.
Proof.
  intros parse rest st st1 exp1 o r Hr Ho Hspec Hpost. subst r o. unfold loop_spec in Hspec.
  destruct (doc_elems parse rest (r_wkey st1) (r_last st1) exp1) as [els|].
  - destruct Hspec as [st' [H1 H2]]. exists st'. split; [exact H1|apply Hpost; exact H2].
  - exact Hspec.
Qed.

Lemma rev_cons_app : forall {X} (x : X) l r, rev (x :: l) ++ r = rev l ++ x :: r.
Proof. intros X x l r. cbn [rev]. rewrite <- app_assoc. reflexivity. Qed.

Ltac skip_step IH Hinv :=
  eapply same_spec; [reflexivity|reflexivity|apply IH; exact Hinv|intros els st' H; exact H].

Theorem rloop_spec : forall parse evs st exp, inv st -> loop_spec parse evs st exp.
Proof.
  intros parse evs. induction evs as [|ev rest IH]; intros st exp Hinv.
  { unfold loop_spec. cbn. exists st. split; [reflexivity|apply loop_post_nil]. }
  unfold loop_spec.
  destruct ev as [name a|name a|name|raw| | | |].
  - (* EvStart *)
    cbn [rloop doc_elems].
    destruct (bytes_eqb name s_graph).
    { rewrite rd_graph_spec. destruct (graph_dir a) as [d|]; cbn [bind]; [|reflexivity].
      eapply ocons_spec; [reflexivity|reflexivity|apply IH; exact Hinv|].
      intros els st' [H1 [H2 H3]]. repeat split; assumption. }
    destruct (bytes_eqb name s_node).
    { rewrite rd_add_node_spec. destruct (node_id a) as [id|]; cbn [bind]; [|reflexivity].
      eapply ocons_spec; [reflexivity|reflexivity|apply IH; intro H; discriminate H|].
      intros els st' [H1 [H2 H3]]. repeat split; [exact H1| |exact H3].
      rewrite H2. cbn [el_nodes]. rewrite rev_cons_app. reflexivity. }
    destruct (bytes_eqb name s_edge).
    { rewrite rd_add_edge_spec. destruct (edge_ends a) as [[s t]|]; cbn [bind]; [|reflexivity].
      eapply ocons_spec; [reflexivity|reflexivity|apply IH; intro H; cbn; discriminate|].
      intros els st' [H1 [H2 H3]]. repeat split; assumption. }
    destruct (bytes_eqb name s_key).
    { rewrite rd_key_spec. destruct (key_decl a) as [[id|]|]; cbn [bind]; [| |reflexivity].
      - skip_step IH Hinv.
      - skip_step IH Hinv. }
    destruct (bytes_eqb name s_data).
    { rewrite data_wants_text_spec. destruct (data_is_weight a (r_wkey st)) as [b|]; cbn [bind]; [|reflexivity].
      skip_step IH Hinv. }
    skip_step IH Hinv.
  - (* EvEmpty *)
    cbn [rloop doc_elems]. unfold on_empty.
    destruct (bytes_eqb name s_node).
    { rewrite rd_add_node_spec. destruct (node_id a) as [id|]; cbn [bind]; [|reflexivity].
      eapply ocons_spec; [reflexivity|reflexivity|apply IH; exact Hinv|].
      intros els st' [H1 [H2 H3]]. repeat split; [exact H1| |exact H3].
      rewrite H2. cbn [el_nodes]. rewrite rev_cons_app. reflexivity. }
    destruct (bytes_eqb name s_edge).
    { rewrite rd_add_edge_spec. destruct (edge_ends a) as [[s t]|]; cbn [bind]; [|reflexivity].
      eapply ocons_spec; [reflexivity|reflexivity|apply IH; intro H; cbn; discriminate|].
      intros els st' [H1 [H2 H3]]. repeat split; assumption. }
    destruct (bytes_eqb name s_key).
    { rewrite rd_key_spec. destruct (key_decl a) as [[id|]|]; cbn [bind]; [| |reflexivity].
      - skip_step IH Hinv.
      - skip_step IH Hinv. }
    cbn [bind]. skip_step IH Hinv.
  - (* EvEnd *) cbn [rloop doc_elems]. skip_step IH Hinv.
  - (* EvText *)
    cbn [rloop doc_elems]. destruct exp; [|skip_step IH Hinv].
    unfold set_weight.
    destruct (r_last st) eqn:Hlast;
      try (cbn [bind]; eapply same_spec;
           [reflexivity|rewrite Hlast; reflexivity|apply IH; exact Hinv|intros els st' H; exact H]).
    destruct (r_edges st) as [|e es] eqn:Hedges; [exfalso; apply (Hinv Hlast); exact Hedges|].
    destruct (parse raw) as [w|]; cbn [bind]; [|reflexivity].
    eapply ocons_spec; [reflexivity|cbn [r_wkey r_last]; try rewrite Hlast; reflexivity| |].
    + apply IH. intro H. cbn. discriminate.
    + intros els st' [H1 [H2 H3]]. repeat split; [exact H1|exact H2|].
      rewrite H3. cbn [apply_edges r_edges]. rewrite Hedges. reflexivity.
  - (* EvComment *) cbn [rloop doc_elems]. skip_step IH Hinv.
  - (* EvOther *) cbn [rloop doc_elems]. skip_step IH Hinv.
  - (* EvEof *) cbn [rloop doc_elems]. exists st. split; [reflexivity|apply loop_post_nil].
  - (* EvErr *) cbn [rloop doc_elems]. reflexivity.
Qed.

(* ---- imperative accumulation = declarative edge list ------------------------ *)

Lemma edge_eta : forall e : gedge, mkedge (eu e) (ev e) (ew e) (eattr e) = e.
Proof. destruct e; reflexivity. Qed.

Lemma apply_edges_spec : forall els acc,
  rev (apply_edges acc els) =
  match acc with
  | [] => el_edges els
  | e :: rest => rev rest ++ mkedge (eu e) (ev e) (el_weight els (ew e)) (eattr e) :: el_edges els
  end.
Proof.
  induction els as [|el els IH]; intro acc.
  - cbn [apply_edges el_edges el_weight]. destruct acc as [|e rest]; [reflexivity|].
    cbn [rev]. rewrite edge_eta. reflexivity.
  - destruct el as [id|s t|w|d]; cbn [apply_edges el_edges el_weight].
    + rewrite IH. reflexivity.
    + rewrite IH. cbn [eu ev ew eattr]. destruct acc as [|e rest]; [reflexivity|].
      cbn [rev]. rewrite edge_eta, <- app_assoc. reflexivity.
    + destruct acc as [|e rest]; rewrite IH; reflexivity.
    + rewrite IH. reflexivity.
Qed.

(* ---- the reader's hand-over to the constructor ------------------------------ *)

Theorem read_elements_content : forall parse evs,
  read_elements parse evs =
  match doc_content parse evs with
  | Some c => Ok c
  | None => Err ReadError
  end.
Proof.
  intros parse evs. unfold read_elements, doc_content.
  assert (Hinv : inv r_init) by (intro H; discriminate H).
  pose proof (rloop_spec parse evs r_init false Hinv) as H. unfold loop_spec in H.
  cbn [r_wkey r_last r_init] in H.
  destruct (doc_elems parse evs s_weight LNone false) as [els|].
  - destruct H as [st' [H1 [H2 [H3 H4]]]]. rewrite H1. cbn [bind].
    rewrite H2, H3, H4. cbn [r_directed r_nodes r_edges r_init].
    rewrite app_nil_r, rev_involutive, apply_edges_spec. reflexivity.
  - rewrite H. reflexivity.
Qed.

Theorem read_events_content : forall parse evs s,
  read_events parse evs s =
  match doc_content parse evs with
  | Some (d, ns, es) => new_from_nodes_and_edges bytes_eqb bytes_ltb ns es (with_directed d s)
  | None => Err ReadError
  end.
Proof.
  intros parse evs s. unfold read_events. rewrite read_elements_content.
  destruct (doc_content parse evs) as [[[d ns] es]|]; reflexivity.
Qed.

(* the loop is total and panic-free for every event sequence *)
Theorem read_elements_total : forall parse evs,
  exists r, read_elements parse evs = r /\ is_panic r = false /\ is_fuel r = false.
Proof.
  intros parse evs. eexists. split; [reflexivity|]. rewrite read_elements_content.
  destruct (doc_content parse evs); split; reflexivity.
Qed.

(* the only error the loop itself produces is ReadError *)
Theorem read_elements_error_kind : forall parse evs k,
  read_elements parse evs = Err k -> k = ReadError.
Proof.
  intros parse evs k. rewrite read_elements_content.
  destruct (doc_content parse evs); intro H; inversion H; reflexivity.
Qed.

