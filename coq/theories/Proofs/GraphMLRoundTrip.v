(* C14: the reader applied to what the writer emits hands the constructor
   exactly the written node list, edge list (weights as identical tokens) and
   directedness — for every graph, every name (byte string) and every weight
   token, under the two float oracles. *)
From Coq Require Import String List NArith ZArith Bool Lia Permutation.
From GV Require Import Base.Outcome Base.AMap Model.GState Model.Creation Model.Query Model.XmlEscape Model.GraphML.
From GV Require Import Spec.GraphMLDef Proofs.EscapeOk Proofs.GraphMLOk Proofs.CreationNoPanic Proofs.CreationNodes Proofs.CreationRebuild.
Import ListNotations.

Definition bare_node (n : gnode) : gnode := mknode (nname n) None.
Definition bare_edge (e : gedge) : gedge := mkedge (eu e) (ev e) (ew e) None.

Definition elems_of_edge (e : gedge) : list elem :=
  ElEdge (eu e) (ev e) :: match ew e with Some z => [ElWeight (Some z)] | None => [] end.

Lemma get_attributes_one : forall k v,
  get_attributes [wattr k v] = Ok [(local_name k, v)].
Proof.
  intros k v. unfold get_attributes, wattr. cbn [attrs_map]. rewrite escape_roundtrip. reflexivity.
Qed.

Lemma node_id_written : forall name, node_id [wattr s_id name] = Some name.
Proof.
  intro name. unfold node_id, attrs_of. rewrite get_attributes_one. reflexivity.
Qed.

Lemma edge_ends_written : forall u v,
  edge_ends [wattr s_source u; wattr s_target v] = Some (u, v).
Proof.
  intros u v. unfold edge_ends, attrs_of, get_attributes, wattr. cbn [attrs_map].
  rewrite !escape_roundtrip. reflexivity.
Qed.

Lemma graph_dir_written : forall d : bool,
  graph_dir [wattr s_edgedefault (if d then s_directed else s_undirected)] = Some d.
Proof. destruct d; reflexivity. Qed.

Lemma key_decl_written :
  key_decl [wattr s_id s_weight; wattr s_for s_edge; wattr s_attr_name s_weight; wattr s_attr_type s_double]
  = Some (Some s_weight).
Proof. reflexivity. Qed.

Lemma data_written : data_is_weight [wattr s_key s_weight] s_weight = Some true.
Proof. reflexivity. Qed.

Section RoundTrip.
  Variable fmt : Z -> bytes.
  Variable parse : bytes -> option weight.
  (* the float oracles: Display emits no markup character, FromStr inverts Display *)
  Hypothesis fmt_clean : forall z, escape (fmt z) = fmt z.
  Hypothesis parse_fmt : forall z, parse (fmt z) = Some (Some z).

  Lemma doc_elems_edges : forall es tail wk,
    wk = s_weight ->
    forall last,
    (es = [] -> doc_elems parse tail wk last false = Some []) ->
    doc_elems parse tail wk LEdge false = Some [] ->
    doc_elems parse (flat_map (edge_events fmt) es ++ tail) wk last false = Some (flat_map elems_of_edge es).
  Proof.
    intros es tail wk Hwk. subst wk.
    induction es as [|e es IH]; intros last Hnil Htail.
    - cbn [flat_map app]. apply Hnil. reflexivity.
    - cbn [flat_map]. unfold edge_events at 1. rewrite <- !app_assoc. cbn [app].
      cbn [doc_elems]. change (bytes_eqb s_edge s_graph) with false. change (bytes_eqb s_edge s_node) with false.
      change (bytes_eqb s_edge s_edge) with true. cbn iota.
      rewrite edge_ends_written.
      assert (Hrest : doc_elems parse (EvEnd s_edge :: flat_map (edge_events fmt) es ++ tail) s_weight LEdge false
                      = Some (flat_map elems_of_edge es)).
      { cbn [doc_elems]. apply IH; [intros _; exact Htail|exact Htail]. }
      unfold elems_of_edge at 1. destruct (ew e) as [z|]; cbn [weight_events app].
      + cbn [doc_elems].
        change (bytes_eqb s_data s_graph) with false. change (bytes_eqb s_data s_node) with false.
        change (bytes_eqb s_data s_edge) with false. change (bytes_eqb s_data s_key) with false.
        change (bytes_eqb s_data s_data) with true. cbn iota.
        rewrite data_written. rewrite fmt_clean, parse_fmt.
        cbn [doc_elems] in Hrest. rewrite Hrest. reflexivity.
      + rewrite Hrest. reflexivity.
  Qed.

  Lemma doc_elems_nodes : forall (ns : list gnode) tail wk last els,
    doc_elems parse tail wk last false = Some els ->
    doc_elems parse (flat_map node_events ns ++ tail) wk last false =
    Some (map (fun n => ElNode (nname n)) ns ++ els).
  Proof.
    induction ns as [|n ns IH]; intros tail wk last els Htail.
    - exact Htail.
    - cbn [flat_map node_events app map]. cbn [doc_elems].
      change (bytes_eqb s_node s_node) with true. cbn iota.
      rewrite node_id_written. rewrite (IH _ _ _ _ Htail). reflexivity.
  Qed.

  Lemma doc_elems_written : forall d (ns : list gnode) (es : list gedge),
    doc_elems parse (write_elements fmt d ns es) s_weight LNone false =
    Some (ElDirected d :: map (fun n => ElNode (nname n)) ns ++ flat_map elems_of_edge es).
  Proof.
    intros d ns es. unfold write_elements, header_events. cbn [app].
    cbn [doc_elems].
    change (bytes_eqb s_graphml s_graph) with false. change (bytes_eqb s_graphml s_node) with false.
    change (bytes_eqb s_graphml s_edge) with false. change (bytes_eqb s_graphml s_key) with false.
    change (bytes_eqb s_graphml s_data) with false.
    change (bytes_eqb s_key s_node) with false. change (bytes_eqb s_key s_edge) with false.
    change (bytes_eqb s_key s_key) with true.
    change (bytes_eqb s_graph s_graph) with true. cbn iota.
    rewrite key_decl_written. rewrite graph_dir_written.
    rewrite (doc_elems_nodes ns _ _ _ (flat_map elems_of_edge es)); [reflexivity|].
    apply doc_elems_edges; [reflexivity| |]; intros; reflexivity.
  Qed.

  Lemma el_directed_plain : forall d (ns : list gnode) (es : list gedge),
    el_directed d (map (fun n => ElNode (nname n)) ns ++ flat_map elems_of_edge es) = d.
  Proof.
    intros d ns es. induction ns as [|n ns IH]; cbn [map app el_directed]; [|exact IH].
    induction es as [|e es IHe]; [reflexivity|].
    cbn [flat_map]. unfold elems_of_edge at 1. destruct (ew e); cbn [app el_directed]; exact IHe.
  Qed.

  Lemma el_nodes_written : forall (ns : list gnode) es,
    el_nodes (map (fun n => ElNode (nname n)) ns ++ flat_map elems_of_edge es) = map bare_node ns.
  Proof.
    intros ns es. induction ns as [|n ns IH]; cbn [map app el_nodes].
    - induction es as [|e es IHe]; [reflexivity|].
      cbn [flat_map]. unfold elems_of_edge at 1. destruct (ew e); cbn [app el_nodes]; exact IHe.
    - rewrite IH. reflexivity.
  Qed.

  Lemma el_weight_edges : forall es cur, el_weight (flat_map elems_of_edge es) cur = cur.
  Proof. intros [|e es] cur; reflexivity. Qed.

  Lemma el_edges_written : forall (ns : list gnode) es,
    el_edges (map (fun n => ElNode (nname n)) ns ++ flat_map elems_of_edge es) = map bare_edge es.
  Proof.
    intros ns es. induction ns as [|n ns IH]; cbn [map app el_edges]; [|exact IH].
    induction es as [|e es IHe]; [reflexivity|].
    cbn [flat_map map]. unfold elems_of_edge at 1. unfold bare_edge at 1.
    destruct (ew e) as [z|]; cbn [app el_edges el_weight]; rewrite el_weight_edges, IHe; reflexivity.
  Qed.

  (* the reader recovers exactly what the writer was given *)
  Theorem roundtrip_elements : forall d ns es,
    read_elements parse (write_elements fmt d ns es) = Ok (d, map bare_node ns, map bare_edge es).
  Proof.
    intros d ns es. rewrite read_elements_content. unfold doc_content.
    rewrite doc_elems_written. cbn [el_directed el_nodes el_edges].
    rewrite el_directed_plain, el_nodes_written, el_edges_written. reflexivity.
  Qed.

  Lemma with_directed_same : forall s, with_directed (directed s) s = s.
  Proof. destruct s; reflexivity. Qed.

  (* write then read = rebuild the graph from its own node list, edge list and specs *)
  Theorem roundtrip_graph : forall g : ggraph,
    read_events parse (write_events fmt g) (sp g) =
    new_from_nodes_and_edges bytes_eqb bytes_ltb
      (map bare_node (get_all_nodes g)) (map bare_edge (get_all_edges g)) (sp g).
  Proof.
    intro g. unfold read_events, write_events. rewrite roundtrip_elements. cbn [bind].
    rewrite with_directed_same. reflexivity.
  Qed.

  (* the specs the reader is given only contribute their non-directedness fields *)
  Theorem roundtrip_graph_any_specs : forall (g : ggraph) s,
    read_events parse (write_events fmt g) s =
    new_from_nodes_and_edges bytes_eqb bytes_ltb
      (map bare_node (get_all_nodes g)) (map bare_edge (get_all_edges g))
      (with_directed (directed (sp g)) s).
  Proof.
    intros g s. unfold read_events, write_events. rewrite roundtrip_elements. reflexivity.
  Qed.

  Lemma map_nname_bare : forall ns : list gnode, map nname (map bare_node ns) = map nname ns.
  Proof. intro ns. rewrite map_map. reflexivity. Qed.

  (* reading back what was written never panics *)
  Theorem roundtrip_no_panic : forall g : ggraph,
    is_panic (read_events parse (write_events fmt g) (sp g)) = false.
  Proof.
    intro g. rewrite roundtrip_graph. apply (new_from_no_panic bytes_eqb bytes_ltb bytes_eqb_eq).
  Qed.

  (* same node names in the same order, same specs (in particular same directedness),
     for a graph whose names are distinct and whose edges join its own nodes *)
  Theorem roundtrip_nodes_specs : forall g g' : ggraph,
    NoDup (map nname (get_all_nodes g)) ->
    (forall e, In e (get_all_edges g) ->
       In (eu e) (map nname (get_all_nodes g)) /\ In (ev e) (map nname (get_all_nodes g))) ->
    read_events parse (write_events fmt g) (sp g) = Ok g' ->
    map nname (get_all_nodes g') = map nname (get_all_nodes g) /\ sp g' = sp g.
  Proof.
    intros g g' Hnd Hcl H. rewrite roundtrip_graph in H. split.
    - assert (Hv : nodes_vec g' = map bare_node (get_all_nodes g)).
      { apply (new_from_nodes_closed bytes_eqb bytes_ltb bytes_eqb_eq _ _ _ _) with (3 := H).
        - rewrite map_nname_bare. exact Hnd.
        - intros e He. apply in_map_iff in He. destruct He as [e0 [<- He0]]. rewrite map_nname_bare.
          cbn [bare_edge eu ev]. apply Hcl. exact He0. }
      unfold get_all_nodes at 1. rewrite Hv. apply map_nname_bare.
    - exact (new_from_specs bytes_eqb bytes_ltb bytes_eqb_eq _ _ _ _ H).
  Qed.

  (* admissibility only looks at the endpoints *)
  Lemma admissible_bare : forall s names done e,
    admissible bytes_ltb s names done e ->
    admissible bytes_ltb s names (map bare_edge done) (bare_edge e).
  Proof.
    intros s names done e [H1 [H2 [H3 [H4 H5]]]]. unfold admissible. cbn [bare_edge eu ev].
    repeat (split; [assumption|]). intros Hm e' He'. apply in_map_iff in He'. destruct He' as [e0 [<- He0]].
    intro Hsp. apply (H5 Hm e0 He0). exact Hsp.
  Qed.

  Lemma all_admissible_bare : forall s names es done,
    all_admissible bytes_ltb s names done es ->
    all_admissible bytes_ltb s names (map bare_edge done) (map bare_edge es).
  Proof.
    intros s names es. induction es as [|e es IH]; intros done H; cbn [map all_admissible] in *; [exact I|].
    destruct H as [Ha Hr]. split; [apply admissible_bare; exact Ha|].
    specialize (IH _ Hr). rewrite map_app in IH. exact IH.
  Qed.

  (* THE ROUND TRIP, element level: whatever node list (distinct names) and whatever admissible edge
     list in whatever order is written, reading it back with the same specs succeeds and yields the
     same names in the same order, the same specs (directedness) and the same edge multiset with
     identical weight tokens *)
  Theorem roundtrip_full_elements : forall (s : specs) (ns : list gnode) (es : list gedge),
    NoDup (map nname ns) ->
    all_admissible bytes_ltb s (map nname ns) [] es ->
    exists g', read_events parse (write_elements fmt (directed s) ns es) s = Ok g' /\
               get_all_nodes g' = map bare_node ns /\ sp g' = s /\
               Permutation (get_all_edges g') (map bare_edge es).
  Proof.
    intros s ns es Hnd Hadm. unfold read_events. rewrite roundtrip_elements. cbn [bind].
    rewrite with_directed_same.
    destruct (new_from_rebuild bytes_eqb bytes_ltb bytes_eqb_eq (map bare_node ns) (map bare_edge es) s) as [g' [E [Hv [Hs Hp]]]].
    - rewrite map_nname_bare. exact Hnd.
    - rewrite map_nname_bare. apply (all_admissible_bare s (map nname ns) es []). exact Hadm.
    - exists g'. split; [exact E|]. split; [exact Hv|]. split; [exact Hs|exact Hp].
  Qed.

  (* graph level *)
  Theorem roundtrip_full : forall g : ggraph,
    NoDup (map nname (get_all_nodes g)) ->
    all_admissible bytes_ltb (sp g) (map nname (get_all_nodes g)) [] (get_all_edges g) ->
    exists g', read_events parse (write_events fmt g) (sp g) = Ok g' /\
               map nname (get_all_nodes g') = map nname (get_all_nodes g) /\
               directed (sp g') = directed (sp g) /\
               Permutation (get_all_edges g') (map bare_edge (get_all_edges g)).
  Proof.
    intros g Hnd Hadm. destruct (roundtrip_full_elements (sp g) _ _ Hnd Hadm) as [g' [E [Hn [Hs Hp]]]].
    exists g'. split; [exact E|]. split; [rewrite Hn; apply map_nname_bare|]. split; [rewrite Hs; reflexivity|exact Hp].
  Qed.
End RoundTrip.

(* ---- the executable well-formedness check is sound ------------------------------ *)
Lemma existsb_bytes_In : forall x l, existsb (bytes_eqb x) l = true -> In x l.
Proof.
  intros x l H. apply existsb_exists in H. destruct H as [y [Hy E]]. apply bytes_eqb_eq in E. subst y. exact Hy.
Qed.

Lemma nodupb_sound : forall l, nodupb l = true -> NoDup l.
Proof.
  induction l as [|x t IH]; intro H; [constructor|].
  cbn [nodupb] in H. apply andb_true_iff in H. destruct H as [H1 H2]. constructor; [|apply IH; exact H2].
  intro Hin. apply negb_true_iff in H1. assert (existsb (bytes_eqb x) t = true); [|congruence].
  apply existsb_exists. exists x. split; [exact Hin|apply bytes_eqb_refl].
Qed.

Lemma same_pairb_complete : forall s e1 e2, same_pair s e1 e2 -> same_pairb s e1 e2 = true.
Proof.
  intros s e1 e2 [[H1 H2]|[Hd [H1 H2]]]; unfold same_pairb.
  - rewrite H1, H2, !bytes_eqb_refl. reflexivity.
  - rewrite Hd, H1, H2, !bytes_eqb_refl. cbn. apply orb_true_r.
Qed.

Lemma admissibleb_sound : forall s names done e,
  admissibleb s names done e = true -> admissible bytes_ltb s names done e.
Proof.
  intros s names done e H. unfold admissibleb in H.
  repeat (apply andb_true_iff in H; destruct H as [H ?]).
  unfold admissible. split; [apply existsb_bytes_In; assumption|]. split; [apply existsb_bytes_In; assumption|].
  split; [|split].
  - intros Hs Heq. rewrite Hs in H2. cbn in H2. apply negb_true_iff in H2. rewrite Heq, bytes_eqb_refl in H2. discriminate.
  - intro Hd. rewrite Hd in H1. cbn in H1. apply negb_true_iff in H1. exact H1.
  - intros Hm e' Hin Hsp. rewrite Hm in H0. cbn in H0. rewrite forallb_forall in H0. specialize (H0 e' Hin).
    apply negb_true_iff in H0. rewrite (same_pairb_complete _ _ _ Hsp) in H0. discriminate.
Qed.

Lemma all_admissibleb_sound : forall s names es done,
  all_admissibleb s names done es = true -> all_admissible bytes_ltb s names done es.
Proof.
  intros s names es. induction es as [|e es IH]; intros done H; cbn [all_admissibleb all_admissible] in *; [exact I|].
  apply andb_true_iff in H. destruct H as [H1 H2]. split; [apply admissibleb_sound; exact H1|apply IH; exact H2].
Qed.

Theorem wf_roundtrip_b_sound : forall s ns es,
  wf_roundtrip_b s ns es = true ->
  NoDup (map nname ns) /\ all_admissible bytes_ltb s (map nname ns) [] es.
Proof.
  intros s ns es H. unfold wf_roundtrip_b in H. apply andb_true_iff in H. destruct H as [H1 H2].
  split; [apply nodupb_sound; exact H1|apply all_admissibleb_sound; exact H2].
Qed.

(* the oracle hypotheses are satisfiable: one weight token = one non-markup symbol *)
Definition ex_fmt (z : Z) : bytes :=
  [(1000 + (if Z.ltb z 0 then 2 * Z.to_N (- z) + 1 else 2 * Z.to_N z))%N].
Definition ex_parse (s : bytes) : option weight :=
  match s with
  | [n] => let m := (n - 1000)%N in
           Some (Some (if N.even m then Z.of_N (m / 2) else (- Z.of_N (m / 2))%Z))
  | _ => None
  end.

Example roundtrip_hyps_satisfiable :
  (forall z, escape (ex_fmt z) = ex_fmt z) /\ (forall z, ex_parse (ex_fmt z) = Some (Some z)).
Proof.
  split; intro z; unfold ex_fmt, ex_parse.
  - unfold escape. cbn [flat_map]. unfold esc_byte.
    set (n := (1000 + _)%N). assert (Hn : (1000 <= n)%N) by (subst n; lia).
    repeat match goal with |- context [N.eqb n ?k] =>
      let E := fresh in destruct (N.eqb n k) eqn:E; [apply N.eqb_eq in E; lia|] end.
    reflexivity.
  - destruct (Z.ltb z 0) eqn:Hz.
    + apply Z.ltb_lt in Hz.
      replace (1000 + (2 * Z.to_N (- z) + 1) - 1000)%N with (2 * Z.to_N (- z) + 1)%N by lia.
      replace (N.even (2 * Z.to_N (- z) + 1)) with false
        by (rewrite N.add_comm, N.even_add_mul_2; reflexivity).
      replace ((2 * Z.to_N (- z) + 1) / 2)%N with (Z.to_N (- z)).
      * rewrite Z2N.id by lia. do 2 f_equal. lia.
      * apply N.div_unique with (r := 1%N); lia.
    + apply Z.ltb_ge in Hz.
      replace (1000 + 2 * Z.to_N z - 1000)%N with (2 * Z.to_N z)%N by lia.
      rewrite N.even_mul. cbn [N.even orb].
      replace (2 * Z.to_N z / 2)%N with (Z.to_N z).
      * rewrite Z2N.id by lia. reflexivity.
      * apply N.div_unique with (r := 0%N); lia.
Qed.

(* the hypotheses of roundtrip_nodes_specs are met by a concrete graph whose names need escaping *)
Definition ex_graph : outcome ggraph :=
  new_from_nodes_and_edges bytes_eqb bytes_ltb
    [mknode [97%N] None; mknode [60%N; 38%N] None]
    [mkedge [97%N] [60%N; 38%N] (Some 5%Z) None; mkedge [60%N; 38%N] [60%N; 38%N] None None]
    (mkspecs true DErr MErr false true SErr).

Example roundtrip_nonvacuous : exists g g',
  ex_graph = Ok g /\
  NoDup (map nname (get_all_nodes g)) /\
  (forall e, In e (get_all_edges g) ->
     In (eu e) (map nname (get_all_nodes g)) /\ In (ev e) (map nname (get_all_nodes g))) /\
  read_events ex_parse (write_events ex_fmt g) (sp g) = Ok g' /\
  map nname (get_all_nodes g') = [[97%N]; [60%N; 38%N]] /\
  length (get_all_edges g') = 2%nat.
Proof.
  eexists. eexists. split; [vm_compute; reflexivity|].
  split; [cbn; repeat constructor; cbn; intuition discriminate|].
  split; [intros e He; cbn in He; destruct He as [<-|[<-|[]]]; cbn; auto|].
  split; [vm_compute; reflexivity|].
  split; reflexivity.
Qed.

Example roundtrip_full_nonvacuous : exists g,
  ex_graph = Ok g /\
  NoDup (map nname (get_all_nodes g)) /\
  all_admissible bytes_ltb (sp g) (map nname (get_all_nodes g)) [] (get_all_edges g).
Proof.
  eexists. split; [vm_compute; reflexivity|].
  split; [cbn; repeat constructor; cbn; intuition discriminate|].
  cbn. unfold admissible, same_pair. cbn.
  repeat split; auto; try discriminate; try (intros _ e' [<-|[]]; cbn; intuition discriminate); intros _ e' [].
Qed.
