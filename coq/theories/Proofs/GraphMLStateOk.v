(* C14 / C19, deepening (round 2): the two links that were only evaluated per case are proved.
   (1) Every state satisfying the coherence invariant WF — hence every reachable Graph — satisfies
       the writer's well-formedness predicate (distinct names; the stored edge list, in its stored
       order, is admissible for the specs): the round trip theorem applies to every reachable graph.
   (2) The constructor model refines the spec layer: new_from_nodes_and_edges and spec_new_from
       (Spec/AGraph.v) return the same error, or a state representing the abstract graph (same
       specs, same node list, the same edge multiset).  Needs the compatibility of spec_add_edge
       with permutations of the abstract edge list (existsb / filter / app are permutation
       invariant), because the concrete store groups edges by pair. *)
From Coq Require Import String List Bool Arith ZArith NArith Lia Permutation.
From GV Require Import Base.Outcome Base.AMap Model.GState Model.Creation Model.Query Model.XmlEscape Model.GraphML
     Spec.AGraph Spec.History Spec.GraphMLDef.
From GV Require Import Proofs.AMapOk Proofs.WFDefs Proofs.WFNode Proofs.WFAdj Proofs.WFEdge Proofs.Refine
     Proofs.SpecOpsOk Proofs.HistoryOk Proofs.AdjOk Proofs.QueryOk Proofs.CreationRebuild Proofs.DerivedContent
     Proofs.EscapeOk Proofs.GraphMLOk Proofs.CreationNoPanic Proofs.GraphMLRoundTrip Proofs.ReaderTotal.
Import ListNotations.

Lemma existsb_perm {X} (f : X -> bool) (l l' : list X) : Permutation l l' -> existsb f l = existsb f l'.
Proof.
  induction 1 as [|x l l' _ IH|x y l|l l' l'' _ IH1 _ IH2]; cbn [existsb].
  - reflexivity.
  - rewrite IH. reflexivity.
  - destruct (f x); destruct (f y); reflexivity.
  - congruence.
Qed.

Lemma filter_perm {X} (f : X -> bool) (l l' : list X) : Permutation l l' -> Permutation (filter f l) (filter f l').
Proof.
  induction 1 as [|x l l' _ IH|x y l|l l' l'' _ IH1 _ IH2]; cbn [filter].
  - constructor.
  - destruct (f x); [constructor|]; exact IH.
  - destruct (f x); destruct (f y); try apply Permutation_refl. constructor.
  - eapply Permutation_trans; eassumption.
Qed.

Section StateLinks.
  Context {T A : Type}.
  Variable teqb : T -> T -> bool.
  Variable tltb : T -> T -> bool.
  Hypothesis teqb_spec : forall x y, teqb x y = true <-> x = y.
  Hypothesis tltb_asym : forall x y, tltb x y = true -> tltb y x = false.
  Hypothesis tltb_total : forall x y, tltb x y = false -> tltb y x = false -> x = y.

  Notation node := (node T A).
  Notation edge := (edge T A).
  Notation gstate := (gstate T A).
  Notation agraph := (agraph T A).
  Notation WF := (@WF T A teqb tltb).
  Notation names := (@names T A).
  Notation all_edges := (fun g : gstate => flat_map snd (edges g)).
  Notation Rep := (Rep teqb tltb).

  (* ---------------- (1) WF implies the writer's well-formedness ---------------- *)
  Theorem WF_admissible (g : gstate) :
    WF g ->
    NoDup (map nname (get_all_nodes g)) /\
    all_admissible tltb (sp g) (map nname (get_all_nodes g)) [] (get_all_edges g).
  Proof.
    intros W. split; [apply (wf_nodup _ _ _ W)|].
    change (map nname (get_all_nodes g)) with (names g). unfold get_all_edges.
    apply admissible_intro.
    - intros e He. apply (stored_edge_ok teqb tltb teqb_spec g e W He).
    - intros Hm. split; [intros e e' _ []|].
      apply (distinct_from_keys tltb tltb_total).
      + apply (stored_distinct teqb tltb teqb_spec g W Hm).
      + intros Hd e He. apply (stored_edge_ok teqb tltb teqb_spec g e W He). exact Hd.
  Qed.

  (* ---------------- (2) spec_add_edge respects permutations of the edge list ---------------- *)
  Definition aequiv (a b : agraph) : Prop :=
    a_sp a = a_sp b /\ a_nodes a = a_nodes b /\ Permutation (a_edges a) (a_edges b).

  Lemma aequiv_refl a : aequiv a a.
  Proof. split; [reflexivity|]. split; [reflexivity|apply Permutation_refl]. Qed.

  Lemma a_has_equiv a b x : aequiv a b -> a_has teqb a x = a_has teqb b x.
  Proof. intros (_ & Hn & _). unfold a_has. rewrite Hn. reflexivity. Qed.

  Lemma spec_add_node_equiv a b n : aequiv a b -> aequiv (spec_add_node teqb a n) (spec_add_node teqb b n).
  Proof.
    intros H. pose proof H as (Hs & Hn & He). unfold spec_add_node. rewrite (a_has_equiv a b _ H).
    destruct (a_has teqb b (nname n)); (split; [|split]); cbn [a_sp a_nodes a_edges]; try assumption;
      rewrite Hn; reflexivity.
  Qed.

  Lemma ensure_node_equiv a b x : aequiv a b -> aequiv (ensure_node teqb a x) (ensure_node teqb b x).
  Proof.
    intros H. unfold ensure_node. rewrite (a_has_equiv a b x H).
    destruct (a_has teqb b x); [exact H|]. apply spec_add_node_equiv. exact H.
  Qed.

  Lemma spec_add_edge_equiv a b e : aequiv a b ->
    snd (spec_add_edge teqb tltb a e) = snd (spec_add_edge teqb tltb b e) /\
    aequiv (fst (spec_add_edge teqb tltb a e)) (fst (spec_add_edge teqb tltb b e)).
  Proof.
    intros H. pose proof H as (Hs & Hn & He). unfold spec_add_edge. rewrite <- Hs.
    destruct (negb (selfloops (a_sp a)) && teqb (eu e) (ev e)); [split; [reflexivity|exact H]|].
    rewrite <- !(a_has_equiv a b _ H).
    destruct ((match ms (a_sp a) with MErr => true | MCreate => false end)
              && negb (a_has teqb a (eu e) && a_has teqb a (ev e))); [split; [reflexivity|exact H]|].
    pose proof (ensure_node_equiv _ _ (ev e) (ensure_node_equiv a b (eu e) H)) as H2.
    set (a2 := ensure_node teqb (ensure_node teqb a (eu e)) (ev e)) in *.
    set (b2 := ensure_node teqb (ensure_node teqb b (eu e)) (ev e)) in *.
    destruct H2 as (Hs2 & Hn2 & He2).
    assert (Happ : forall c, aequiv (mka (a_sp a) (a_nodes a2) (a_edges a2 ++ [c]))
                                    (mka (a_sp a) (a_nodes b2) (a_edges b2 ++ [c]))).
    { intros c. split; [reflexivity|]. split; [exact Hn2|]. cbn [a_edges]. apply Permutation_app_tail. exact He2. }
    destruct (multi (a_sp a)); [split; [reflexivity|apply Happ]|].
    rewrite (existsb_perm _ _ _ He2).
    destruct (existsb (AGraph.same_pair teqb (canon tltb (a_sp a) e)) (a_edges b2)).
    - destruct (dd (a_sp a)).
      + split; [reflexivity|exact H].
      + split; [reflexivity|]. split; [exact Hs2|]. split; assumption.
      + split; [reflexivity|]. split; [reflexivity|]. split; [exact Hn2|]. cbn [a_edges].
        apply Permutation_app_tail. apply filter_perm. exact He2.
    - split; [reflexivity|apply Happ].
  Qed.

  Lemma spec_add_edge_sp (a : agraph) e : a_sp (fst (spec_add_edge teqb tltb a e)) = a_sp a.
  Proof.
    assert (Hens : forall (a : agraph) x, a_sp (ensure_node teqb a x) = a_sp a).
    { intros a0 x. unfold ensure_node, spec_add_node. destruct (a_has teqb a0 x); [reflexivity|].
      destruct (a_has teqb a0 (nname (mknode x None))); reflexivity. }
    unfold spec_add_edge.
    destruct (negb (selfloops (a_sp a)) && teqb (eu e) (ev e)); [reflexivity|].
    destruct ((match ms (a_sp a) with MErr => true | MCreate => false end)
              && negb (a_has teqb a (eu e) && a_has teqb a (ev e))); [reflexivity|].
    destruct (multi (a_sp a)); [reflexivity|].
    destruct (existsb _ _); [|reflexivity].
    destruct (dd (a_sp a)); cbn [fst a_sp]; try reflexivity. rewrite !Hens. reflexivity.
  Qed.

  Lemma Rep_equiv (g : gstate) a : Rep g a -> aequiv a (Abs g).
  Proof. intros (_ & Hs & Hn & Hp). split; [exact Hs|]. split; [exact Hn|exact Hp]. Qed.

  (* one add_edge step, against an abstract graph that is only a permutation of the store *)
  Lemma add_edge_refines_rep (g : gstate) a e : Rep g a ->
    snd (add_edge teqb tltb g e) = snd (spec_add_edge teqb tltb a e) /\
    Rep (fst (add_edge teqb tltb g e)) (fst (spec_add_edge teqb tltb a e)).
  Proof.
    intros HR. pose proof HR as (W & Hs & Hn & Hp).
    destruct (add_edge_refines teqb tltb teqb_spec tltb_asym tltb_total g e W) as (W' & Hr & Hsp & Hnv & Hpe & _).
    destruct (spec_add_edge_equiv a (Abs g) e (Rep_equiv g a HR)) as (Hsnd & (Hs' & Hn' & Hp')).
    split; [rewrite Hr, Hsnd; reflexivity|].
    split; [exact W'|]. split; [|split].
    - rewrite spec_add_edge_sp, Hsp. exact Hs.
    - rewrite Hn', Hnv. reflexivity.
    - eapply Permutation_trans; [exact Hp'|]. apply Permutation_sym. exact Hpe.
  Qed.

  Lemma add_edges_refines_rep es : forall (g : gstate) a, Rep g a ->
    snd (add_edges teqb tltb g es) = snd (spec_add_edges teqb tltb a es) /\
    Rep (fst (add_edges teqb tltb g es)) (fst (spec_add_edges teqb tltb a es)).
  Proof.
    induction es as [|e es IH]; intros g a HR; cbn [add_edges spec_add_edges].
    - split; [reflexivity|exact HR].
    - destruct (add_edge_refines_rep g a e HR) as (Hr & HR').
      destruct (add_edge teqb tltb g e) as [g' r] eqn:Eg. destruct (spec_add_edge teqb tltb a e) as [a' r'] eqn:Ea.
      cbn [fst snd] in Hr, HR'. subst r'. destruct r as [u|k|s|]; try (split; [reflexivity|exact HR']).
      apply IH. exact HR'.
  Qed.

  Lemma add_edges_no_panic es : forall (g : gstate), WF g ->
    is_panic (snd (add_edges teqb tltb g es)) = false /\ is_fuel (snd (add_edges teqb tltb g es)) = false.
  Proof.
    induction es as [|e es IH]; intros g W; cbn [add_edges]; [split; reflexivity|].
    pose proof (add_edge_no_panic teqb tltb teqb_spec tltb_asym tltb_total g e W) as Hnp.
    pose proof (add_edge_WF teqb tltb teqb_spec tltb_asym tltb_total g e W) as W'.
    destruct (add_edge teqb tltb g e) as [g' r]. cbn [fst snd] in *.
    destruct r as [u|k|x|]; try exact Hnp. apply IH. exact W'.
  Qed.

  (* the constructor refines the spec layer *)
  Theorem new_from_refines (ns : list node) (es : list edge) (s : specs) :
    match spec_new_from teqb tltb ns es s, new_from_nodes_and_edges teqb tltb ns es s with
    | Ok a, Ok g => Rep g a
    | Err k, Err k' => k = k'
    | _, _ => False
    end.
  Proof.
    unfold spec_new_from, new_from_nodes_and_edges.
    destruct (add_nodes_WF teqb tltb teqb_spec ns (new s) (WF_new teqb tltb s)) as (g1 & H1 & W1 & Ha1).
    rewrite H1. cbn [bind].
    assert (HR1 : Rep g1 (spec_add_nodes teqb (a_new s) ns)).
    { change (a_new s) with (Abs (new (T:=T) (A:=A) s)). rewrite <- Ha1. apply Rep_Abs. exact W1. }
    destruct (add_edges_refines_rep es g1 _ HR1) as (Hr & HR).
    destruct (add_edges teqb tltb g1 es) as [g2 r] eqn:Eg.
    destruct (spec_add_edges teqb tltb (spec_add_nodes teqb (a_new s) ns) es) as [a2 r'] eqn:Ea.
    cbn [fst snd] in Hr, HR. subst r'.
    destruct r as [u|k|x|]; try exact HR; try reflexivity.
    - pose proof (add_edges_no_panic es g1 W1) as Hnp. rewrite Eg in Hnp. cbn in Hnp. destruct Hnp as (Hnp & _). discriminate.
    - pose proof (add_edges_no_panic es g1 W1) as Hnp. rewrite Eg in Hnp. cbn in Hnp. destruct Hnp as (_ & Hnp). discriminate.
  Qed.
End StateLinks.

(* ---------------- the GraphML instance (names = byte strings) ---------------- *)
Notation bWF := (@WF bytes unit bytes_eqb bytes_ltb).
Notation breachable := (reachable (T:=bytes) (A:=unit) bytes_eqb bytes_ltb).

Lemma breachable_WF s (g : ggraph) : breachable s g -> bWF g.
Proof. apply (WF_reachable bytes_eqb bytes_ltb bytes_eqb_eq bytes_ltb_asym bytes_ltb_total). Qed.

(* every coherent / reachable graph satisfies the writer's well-formedness predicate *)
Theorem wf_roundtrip_of_WF (g : ggraph) :
  bWF g ->
  NoDup (map nname (get_all_nodes g)) /\
  all_admissible bytes_ltb (sp g) (map nname (get_all_nodes g)) [] (get_all_edges g).
Proof. apply (WF_admissible bytes_eqb bytes_ltb bytes_eqb_eq bytes_ltb_total). Qed.

Section RoundTripReachable.
  Variable fmt : Z -> bytes.
  Variable parse : bytes -> option weight.
  Hypothesis fmt_plain : forall z, escape (fmt z) = fmt z.
  Hypothesis parse_fmt : forall z, parse (fmt z) = Some (Some z).

  (* THE ROUND TRIP for every graph satisfying the invariant *)
  Theorem roundtrip_WF (g : ggraph) :
    bWF g ->
    exists g', read_events parse (write_events fmt g) (sp g) = Ok g' /\
               map nname (get_all_nodes g') = map nname (get_all_nodes g) /\
               directed (sp g') = directed (sp g) /\
               Permutation (get_all_edges g') (map bare_edge (get_all_edges g)).
  Proof.
    intros W. destruct (wf_roundtrip_of_WF g W) as (Hnd & Hadm).
    apply (roundtrip_full fmt parse fmt_plain parse_fmt g Hnd Hadm).
  Qed.

  (* ... hence for every graph reachable through the public mutation API; the graph read back is
     itself reachable (hence valid), so the round trip can be iterated *)
  Theorem roundtrip_reachable s (g : ggraph) :
    breachable s g ->
    exists g', read_events parse (write_events fmt g) s = Ok g' /\
               breachable s g' /\
               map nname (get_all_nodes g') = map nname (get_all_nodes g) /\
               sp g' = s /\
               Permutation (get_all_edges g') (map bare_edge (get_all_edges g)).
  Proof.
    intros Hr. pose proof (breachable_WF s g Hr) as W.
    pose proof (reachable_sp bytes_eqb bytes_ltb bytes_eqb_eq bytes_ltb_asym bytes_ltb_total s g Hr) as Hs.
    destruct (roundtrip_WF g W) as (g' & Hg' & Hn & _ & Hp). rewrite Hs in Hg'.
    exists g'. split; [exact Hg'|].
    assert (Hr' : breachable s g').
    { rewrite <- Hs in Hg'. rewrite (roundtrip_graph fmt parse fmt_plain parse_fmt g) in Hg'. rewrite Hs in Hg'.
      apply (new_from_reachable bytes_eqb bytes_ltb bytes_eqb_eq _ _ _ _ Hg'). }
    split; [exact Hr'|]. split; [exact Hn|]. split; [|exact Hp].
    apply (reachable_sp bytes_eqb bytes_ltb bytes_eqb_eq bytes_ltb_asym bytes_ltb_total s g' Hr').
  Qed.
End RoundTripReachable.

(* the reader against the spec layer: ReadError exactly when the document is refused; otherwise the
   result of the spec-layer constructor on the document's elements — the same error, or a valid state
   representing the same abstract graph *)
Theorem read_events_refines_spec (parse : bytes -> option weight) (evs : list event) (s : specs) :
  match doc_content parse evs with
  | Some (d, ns, es) =>
    match spec_new_from bytes_eqb bytes_ltb ns es (with_directed d s), read_events parse evs s with
    | Ok a, Ok g => Rep bytes_eqb bytes_ltb g a
    | Err k, Err k' => k = k'
    | _, _ => False
    end
  | None => read_events parse evs s = Err ReadError
  end.
Proof.
  rewrite read_events_content. destruct (doc_content parse evs) as [[[d ns] es]|]; [|reflexivity].
  apply (new_from_refines bytes_eqb bytes_ltb bytes_eqb_eq bytes_ltb_asym bytes_ltb_total).
Qed.

(* Ok g: g is a reachable state, hence satisfies the full coherence invariant of C01-C03 *)
Theorem read_events_ok_valid (parse : bytes -> option weight) (evs : list event) (s : specs) (g : ggraph) :
  read_events parse evs s = Ok g -> breachable (sp g) g /\ bWF g.
Proof.
  intros H. destruct (read_events_ok parse evs s g H) as (els & _ & Hnew & Hs & _).
  assert (Hr : breachable (sp g) g).
  { rewrite Hs. apply (new_from_reachable bytes_eqb bytes_ltb bytes_eqb_eq _ _ _ _ Hnew). }
  split; [exact Hr|apply (breachable_WF _ g Hr)].
Qed.

(* non-vacuity: a graph built through the public constructor is reachable; its written form reads back *)
Example roundtrip_reachable_nonvacuous :
  match new_from_nodes_and_edges bytes_eqb bytes_ltb
          [mknode [98%N] (None : option unit); mknode [97%N] None]
          [mkedge [98%N] [97%N] (Some 3%Z) None]
          (mkspecs false DErr MCreate false true SErr) with
  | Ok g => breachable (mkspecs false DErr MCreate false true SErr) g /\
            get_all_edges g = [mkedge [97%N] [98%N] (Some 3%Z) None]
  | _ => False
  end.
Proof.
  destruct (new_from_nodes_and_edges bytes_eqb bytes_ltb
              [mknode [98%N] (None : option unit); mknode [97%N] None]
              [mkedge [98%N] [97%N] (Some 3%Z) None]
              (mkspecs false DErr MCreate false true SErr)) as [g| | |] eqn:Hg;
    try (vm_compute in Hg; discriminate).
  split; [exact (new_from_reachable bytes_eqb bytes_ltb bytes_eqb_eq _ _ _ g Hg)|].
  vm_compute in Hg. inversion Hg. reflexivity.
Qed.
