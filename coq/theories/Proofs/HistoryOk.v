(* WF holds in every state reachable by any history; batch adds apply a prefix. *)
From Coq Require Import String List Bool Arith Lia Permutation.
From GV Require Import Base.Outcome Base.AMap Model.GState Model.Creation Spec.AGraph Spec.History.
From GV Require Import Proofs.AMapOk Proofs.WFDefs Proofs.WFNode Proofs.WFAdj Proofs.WFEdge Proofs.Refine
     Proofs.SpecOpsOk.
Import ListNotations.

Section HistoryOk.
  Context {T A : Type}.
  Variable teqb : T -> T -> bool.
  Variable tltb : T -> T -> bool.
  Hypothesis teqb_spec : forall x y, teqb x y = true <-> x = y.
  Hypothesis tltb_asym : forall x y, tltb x y = true -> tltb y x = false.
  Hypothesis tltb_total : forall x y, tltb x y = false -> tltb y x = false -> x = y.

  Notation node := (node T A).
  Notation edge := (edge T A).
  Notation gstate := (gstate T A).
  Notation WF := (@WF T A teqb tltb).
  Notation add_edge := (add_edge teqb tltb).
  Notation add_edges := (add_edges teqb tltb).
  Notation aer := (add_edge_refines teqb tltb teqb_spec tltb_asym tltb_total).

  Lemma add_edge_WF (g : gstate) e : WF g -> WF (fst (add_edge g e)).
  Proof. intros W. apply (aer g e W). Qed.

  Lemma add_edge_error_noop (g : gstate) e k :
    WF g -> snd (add_edge g e) = Err k -> fst (add_edge g e) = g.
  Proof. intros W. apply (aer g e W). Qed.

  Lemma add_edge_no_panic (g : gstate) e :
    WF g -> is_panic (snd (add_edge g e)) = false /\ is_fuel (snd (add_edge g e)) = false.
  Proof.
    intros W. destruct (aer g e W) as (_ & Hr & _). rewrite Hr.
    apply spec_add_edge_no_panic.
  Qed.

  Lemma add_nodes_WF ns : forall (g : gstate), WF g ->
    exists g', add_nodes teqb g ns = Ok g' /\ WF g' /\ Abs g' = spec_add_nodes teqb (Abs g) ns.
  Proof.
    induction ns as [|n ns IH]; intros g W; simpl.
    - exists g. auto.
    - destruct (add_node_refines teqb tltb teqb_spec g n W) as (g1 & H1 & W1 & Ha1).
      unfold add_nodes in *. simpl. rewrite H1. simpl.
      destruct (IH g1 W1) as (g' & H' & W' & Ha'). exists g'. split; [exact H'|]. split; [exact W'|].
      rewrite Ha', Ha1. reflexivity.
  Qed.

  Lemma add_edges_WF es : forall (g : gstate), WF g -> WF (fst (add_edges g es)).
  Proof.
    induction es as [|e es IH]; intros g W; simpl; [exact W|].
    pose proof (add_edge_WF g e W) as W1.
    destruct (add_edge g e) as [g1 r] eqn:E. simpl in W1.
    destruct r; simpl; try exact W1. apply IH. exact W1.
  Qed.

  (* model-level batch law: exactly the prefix before the first failing edge is applied *)
  Fixpoint apply_ok_m (g : gstate) (es : list edge) : gstate :=
    match es with [] => g | e :: t => apply_ok_m (fst (add_edge g e)) t end.

  Lemma add_edges_prefix es : forall (g g' : gstate) k,
    WF g -> add_edges g es = (g', Err k) ->
    exists p e rest,
      es = p ++ e :: rest /\ g' = apply_ok_m g p /\
      (forall q x q', p = q ++ x :: q' -> snd (add_edge (apply_ok_m g q) x) = Ok tt) /\
      add_edge g' e = (g', Err k).
  Proof.
    induction es as [|e es IH]; intros g g' k W H; simpl in H; [inversion H|].
    pose proof (add_edge_WF g e W) as W1. pose proof (add_edge_error_noop g e) as Hno.
    destruct (add_edge g e) as [g1 r1] eqn:E1. simpl in W1, Hno. destruct r1 as [u|k1|s1|].
    - destruct u. destruct (IH g1 g' k W1 H) as (p & e' & rest & Hes & Hg' & Hall & Hfail).
      exists (e :: p), e', rest. repeat split.
      + simpl. rewrite Hes. reflexivity.
      + simpl. rewrite E1. exact Hg'.
      + intros q x q' Hq. destruct q as [|y q]; simpl in Hq; inversion Hq; subst.
        * simpl. rewrite E1. reflexivity.
        * simpl. rewrite E1. simpl. eapply Hall. reflexivity.
      + exact Hfail.
    - inversion H; subst. rewrite (Hno k W eq_refl) in *.
      exists [], e, es. repeat split.
      + intros q x q' Hq. destruct q; inversion Hq.
      + exact E1.
    - inversion H.
    - inversion H.
  Qed.

  Lemma apply_mut_WF (g : gstate) (m : mutation T A) : WF g -> WF (fst (apply_mut teqb tltb g m)).
  Proof.
    intros W. destruct m as [n|ns|e|es]; simpl.
    - destruct (add_node_refines teqb tltb teqb_spec g n W) as (g' & H & W' & _). rewrite H. exact W'.
    - destruct (add_nodes_WF ns g W) as (g' & H & W' & _). rewrite H. exact W'.
    - apply add_edge_WF. exact W.
    - apply add_edges_WF. exact W.
  Qed.

  Lemma add_nodes_sp ns : forall (g g' : gstate), WF g -> add_nodes teqb g ns = Ok g' -> sp g' = sp g.
  Proof.
    induction ns as [|n ns IH]; intros g g' W H; unfold add_nodes in *; simpl in H.
    - inversion H. reflexivity.
    - destruct (add_node_refines teqb tltb teqb_spec g n W) as (g1 & H1 & W1 & Ha1).
      rewrite H1 in H. simpl in H. rewrite (IH g1 g' W1 H).
      assert (a_sp (Abs g1) = a_sp (spec_add_node teqb (Abs g) n)) by (rewrite Ha1; reflexivity).
      unfold spec_add_node in H0. destruct (a_has teqb (Abs g) (nname n)); exact H0.
  Qed.

  Lemma add_edges_sp es : forall (g : gstate), WF g -> sp (fst (add_edges g es)) = sp g.
  Proof.
    induction es as [|e es IH]; intros g W; simpl; [reflexivity|].
    destruct (aer g e W) as (W1 & _ & Hs & _).
    destruct (add_edge g e) as [g1 r] eqn:E. simpl in W1, Hs.
    destruct r; simpl; try exact Hs. rewrite (IH g1 W1). exact Hs.
  Qed.

  Lemma apply_mut_sp (g : gstate) (m : mutation T A) : WF g -> sp (fst (apply_mut teqb tltb g m)) = sp g.
  Proof.
    intros W. destruct m as [n|ns|e|es]; simpl.
    - destruct (add_node_refines teqb tltb teqb_spec g n W) as (g' & H & W' & Ha). rewrite H. simpl.
      assert (a_sp (Abs g') = a_sp (spec_add_node teqb (Abs g) n)) by (rewrite Ha; reflexivity).
      unfold spec_add_node in H0. destruct (a_has teqb (Abs g) (nname n)); exact H0.
    - destruct (add_nodes_WF ns g W) as (g' & H & W' & _). rewrite H. simpl. apply (add_nodes_sp ns g g' W H).
    - apply (aer g e W).
    - apply add_edges_sp. exact W.
  Qed.

  Theorem WF_reachable s (g : gstate) : reachable teqb tltb s g -> WF g.
  Proof.
    intros (ms & ->). unfold run_muts.
    assert (H : forall ms (g0 : gstate), WF g0 ->
              WF (fold_left (fun g m => fst (apply_mut teqb tltb g m)) ms g0)).
    { induction ms0 as [|m ms0 IH]; intros g0 W0; simpl; [exact W0|].
      apply IH. apply apply_mut_WF. exact W0. }
    apply H. apply WF_new.
  Qed.

  Theorem reachable_sp s (g : gstate) : reachable teqb tltb s g -> sp g = s.
  Proof.
    intros (ms & ->). unfold run_muts.
    assert (H : forall ms (g0 : gstate), WF g0 ->
              sp (fold_left (fun g m => fst (apply_mut teqb tltb g m)) ms g0) = sp g0).
    { induction ms0 as [|m ms0 IH]; intros g0 W0; simpl; [reflexivity|].
      rewrite IH by (apply apply_mut_WF; exact W0). apply apply_mut_sp. exact W0. }
    rewrite H by apply WF_new. reflexivity.
  Qed.

  (* new_from_nodes_and_edges is a history from the empty graph *)
  Lemma new_from_reachable ns es s (g : gstate) :
    new_from_nodes_and_edges teqb tltb ns es s = Ok g ->
    reachable teqb tltb s g.
  Proof.
    unfold new_from_nodes_and_edges. intros H.
    destruct (add_nodes_WF ns (new s) (WF_new teqb tltb s)) as (g1 & H1 & _ & _).
    rewrite H1 in H. simpl in H.
    exists [MutNodes ns; MutEdges es]. unfold run_muts. simpl. rewrite H1. simpl.
    destruct (add_edges g1 es) as [g2 r] eqn:E. destruct r; inversion H. reflexivity.
  Qed.
End HistoryOk.
