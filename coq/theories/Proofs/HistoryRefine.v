(* C01, whole histories: the twelve-field model and the fifteen-line policy specification run
   in lockstep.  For EVERY sequence of add_node / add_nodes / add_edge / add_edges calls, starting
   from any coherent state and any abstract graph it represents (in particular from new(specs)):
   the two produce the same list of outcomes, call by call (Ok or the same error kind; the model
   never panics), and after every prefix the model state still represents the spec state: same
   specs, same node list (names, attributes, positions), same edge multiset, WF.

   The abstract graph of the spec carries its edges in insertion order while the store groups
   them by endpoint pair; the simulation relation is therefore [Rep g a] (WF g, equal specs, equal
   node lists, edge lists equal up to permutation), and the spec steps are invariant under such
   permutations (Proofs/GraphMLStateOk: spec_add_edge_equiv). *)
From Coq Require Import String List Bool Arith Lia Permutation.
From GV Require Import Base.Outcome Base.AMap Model.GState Model.Creation Model.Query Spec.AGraph Spec.History.
From GV Require Import Proofs.AMapOk Proofs.WFDefs Proofs.WFNode Proofs.WFEdge Proofs.Refine Proofs.HistoryOk
     Proofs.SpecOpsOk Proofs.GraphMLStateOk.
Import ListNotations.

Section HistoryRefine.
  Context {T A : Type}.
  Variable teqb : T -> T -> bool.
  Variable tltb : T -> T -> bool.
  Hypothesis teqb_spec : forall x y, teqb x y = true <-> x = y.
  Hypothesis tltb_asym : forall x y, tltb x y = true -> tltb y x = false.
  Hypothesis tltb_total : forall x y, tltb x y = false -> tltb y x = false -> x = y.
  Notation gstate := (gstate T A).
  Notation agraph := (agraph T A).
  Notation node := (node T A).
  Notation edge := (edge T A).
  Notation WF := (@WF T A teqb tltb).
  Notation Rep := (@Rep T A teqb tltb).
  Notation mutation := (mutation T A).

  (* the specification of one mutation call *)
  Definition spec_apply_mut (a : agraph) (m : mutation) : agraph * outcome unit :=
    match m with
    | MutNode n => (spec_add_node teqb a n, Ok tt)
    | MutNodes ns => (spec_add_nodes teqb a ns, Ok tt)
    | MutEdge e => spec_add_edge teqb tltb a e
    | MutEdges es => spec_add_edges teqb tltb a es
    end.

  (* a history, with the outcome of every call *)
  Fixpoint run_outs (g : gstate) (ms : list mutation) : gstate * list (outcome unit) :=
    match ms with
    | [] => (g, [])
    | m :: t => let '(g1, r) := apply_mut teqb tltb g m in
                let '(g2, rs) := run_outs g1 t in (g2, r :: rs)
    end.
  Fixpoint spec_run_outs (a : agraph) (ms : list mutation) : agraph * list (outcome unit) :=
    match ms with
    | [] => (a, [])
    | m :: t => let '(a1, r) := spec_apply_mut a m in
                let '(a2, rs) := spec_run_outs a1 t in (a2, r :: rs)
    end.

  Lemma run_outs_state g ms : fst (run_outs g ms) = run_muts teqb tltb g ms.
  Proof.
    revert g. induction ms as [|m t IH]; intros g; [reflexivity|]. cbn [run_outs].
    destruct (apply_mut teqb tltb g m) as [g1 r] eqn:E. specialize (IH g1).
    destruct (run_outs g1 t) as [g2 rs]. cbn [fst] in *. unfold run_muts in *. cbn [fold_left]. rewrite E. exact IH.
  Qed.

  Lemma aequiv_sym_local (a b : agraph) : aequiv a b -> aequiv b a.
  Proof.
    intros (Hs & Hn & Hp). split; [symmetry; exact Hs|]. split; [symmetry; exact Hn|apply Permutation_sym; exact Hp].
  Qed.

  Lemma spec_add_edges_no_panic_local es : forall (a : agraph),
    is_panic (snd (spec_add_edges teqb tltb a es)) = false /\ is_fuel (snd (spec_add_edges teqb tltb a es)) = false.
  Proof.
    induction es as [|e t IH]; intros a; cbn [spec_add_edges]; [split; reflexivity|].
    pose proof (spec_add_edge_no_panic teqb tltb a e) as H.
    destruct (spec_add_edge teqb tltb a e) as [a1 r]. cbn [snd] in H.
    destruct r as [u|k|x|]; cbn [snd]; try (split; reflexivity); try apply IH; destruct H as (H1 & H2); discriminate.
  Qed.

  Lemma Rep_equiv_trans (g : gstate) a b : Rep g a -> aequiv a b -> Rep g b.
  Proof.
    intros (W & Hs & Hn & Hp) (Es & En & Ep). split; [exact W|]. split; [congruence|]. split; [congruence|].
    eapply Permutation_trans; [apply Permutation_sym; exact Ep|exact Hp].
  Qed.

  Lemma spec_add_nodes_equiv (ns : list node) : forall (a b : agraph), aequiv a b ->
    aequiv (spec_add_nodes teqb a ns) (spec_add_nodes teqb b ns).
  Proof.
    induction ns as [|n t IH]; intros a b H; [exact H|]. cbn [spec_add_nodes]. apply IH.
    apply (spec_add_node_equiv teqb). exact H.
  Qed.

  (* one call *)
  Lemma apply_mut_refines (g : gstate) a m : Rep g a ->
    snd (apply_mut teqb tltb g m) = snd (spec_apply_mut a m) /\
    Rep (fst (apply_mut teqb tltb g m)) (fst (spec_apply_mut a m)).
  Proof.
    intros HR. pose proof HR as (W & _).
    pose proof (Rep_equiv teqb tltb g a HR) as Heq.
    destruct m as [n|ns|e|es]; cbn [apply_mut spec_apply_mut].
    - destruct (add_node_refines teqb tltb teqb_spec g n W) as (g' & H & W' & Ha). rewrite H. cbn [lift fst snd].
      split; [reflexivity|]. apply (Rep_equiv_trans g' (Abs g')); [apply (Rep_Abs teqb tltb); exact W'|].
      rewrite Ha. apply aequiv_sym_local. apply (spec_add_node_equiv teqb). exact Heq.
    - destruct (add_nodes_WF teqb tltb teqb_spec ns g W) as (g' & H & W' & Ha). rewrite H. cbn [lift fst snd].
      split; [reflexivity|]. apply (Rep_equiv_trans g' (Abs g')); [apply (Rep_Abs teqb tltb); exact W'|].
      rewrite Ha. apply aequiv_sym_local. apply spec_add_nodes_equiv. exact Heq.
    - exact (add_edge_refines_rep teqb tltb teqb_spec tltb_asym tltb_total g a e HR).
    - exact (add_edges_refines_rep teqb tltb teqb_spec tltb_asym tltb_total es g a HR).
  Qed.

  (* every history *)
  Theorem history_refines ms : forall (g : gstate) a, Rep g a ->
    snd (run_outs g ms) = snd (spec_run_outs a ms) /\
    Rep (fst (run_outs g ms)) (fst (spec_run_outs a ms)).
  Proof.
    induction ms as [|m t IH]; intros g a HR; cbn [run_outs spec_run_outs].
    - split; [reflexivity|exact HR].
    - destruct (apply_mut_refines g a m HR) as (Hr & HR').
      destruct (apply_mut teqb tltb g m) as [g1 r]. destruct (spec_apply_mut a m) as [a1 r'].
      cbn [fst snd] in Hr, HR'. subst r'. destruct (IH g1 a1 HR') as (Hrs & HR'').
      destruct (run_outs g1 t) as [g2 rs]. destruct (spec_run_outs a1 t) as [a2 rs'].
      cbn [fst snd] in *. subst rs'. split; [reflexivity|exact HR''].
  Qed.

  (* from the empty graph: what every caller of the API sees *)
  Corollary history_from_new s ms :
    let g := fst (run_outs (new s) ms) in
    let a := fst (spec_run_outs (a_new s) ms) in
    snd (run_outs (new s) ms) = snd (spec_run_outs (a_new s) ms) /\
    WF g /\ sp g = s /\ nodes_vec g = a_nodes a /\
    Permutation (flat_map snd (edges g)) (a_edges a) /\
    Forall (fun r => is_panic r = false /\ is_fuel r = false) (snd (run_outs (new s) ms)).
  Proof.
    intros g a.
    assert (HR0 : Rep (new s) (a_new s)).
    { change (a_new s) with (Abs (new (T:=T) (A:=A) s)). apply (Rep_Abs teqb tltb). apply (WF_new teqb tltb). }
    destruct (history_refines ms (new s) (a_new s) HR0) as (Hr & HR).
    fold g in HR. fold a in HR. destruct HR as (W & Hs & Hn & Hp).
    split; [exact Hr|]. split; [exact W|]. split.
    - subst g. rewrite run_outs_state. apply (reachable_sp teqb tltb teqb_spec tltb_asym tltb_total). exists ms. reflexivity.
    - split; [symmetry; exact Hn|]. split; [apply Permutation_sym; exact Hp|].
      rewrite Hr. clear. generalize (a_new (T:=T) (A:=A) s) as a0. induction ms as [|m t IH]; intros a0; cbn [spec_run_outs].
      + constructor.
      + destruct (spec_apply_mut a0 m) as [a1 r] eqn:E. specialize (IH a1).
        destruct (spec_run_outs a1 t) as [a2 rs]. cbn [snd] in *. constructor; [|exact IH].
        destruct m as [n|ns|e|es]; cbn [spec_apply_mut] in E.
        * inversion E. split; reflexivity.
        * inversion E. split; reflexivity.
        * pose proof (spec_add_edge_no_panic teqb tltb a0 e) as H. rewrite E in H. exact H.
        * pose proof (spec_add_edges_no_panic_local es a0) as H. rewrite E in H. exact H.
  Qed.
End HistoryRefine.
