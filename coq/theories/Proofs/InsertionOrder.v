(* C02, "all parallel edges are retrievable, in insertion order" — over whole histories.

   QueryOk.get_edges_spec says  get_edges g u v = Ok (stored_between g u v)  where
   [stored_between] filters get_all_edges.  Nothing there ties the ORDER of that list to the
   order in which the caller ADDED the edges (the abstract graph of C01 is an edge multiset).
   This file does, on the concrete twelve-field model:

   1. one step: what every mutation of a coherent state does to [stored_between g u v], for ALL
      pairs u v ([add_edge_step], specialisations [add_edge_multi_step], [add_edge_single_step],
      [add_edge_dropped_step], [add_edge_err_step], [add_node_step], [add_nodes_step],
      [add_edges_step]);
   2. histories: [edge_log g ms] is the list of the individual add_edge calls a history performs
      (a batch contributes its edges one by one up to and including the first one that fails),
      each paired with the outcome that call returned.  [calls_between s log u v] — a function of
      the log and the specs only — keeps the calls that returned Ok, were not a dropped self-loop
      and whose endpoints are the pair {u,v} ((u,v) on a directed graph), in call order, each edge
      in storage orientation.  [inserted_between] = all of them on a multigraph, the first /
      the last one on a single-edge graph (KeepFirst, Error / KeepLast).
      [insertion_order_history]:  stored_between (state after ms from new s) u v
                                  = inserted_between s (edge_log (new s) ms) u v.
   3. when every call of the history returned Ok, the log is the history itself
      ([edge_log_all_ok]); so is new_from_nodes_and_edges ([new_from_insertion_order]). *)
From Coq Require Import String List Bool Arith ZArith Lia Permutation.
From GV Require Import Base.Outcome Base.AMap Model.GState Model.Creation Model.Query Spec.AGraph Spec.History.
From GV Require Import Proofs.AMapOk Proofs.WFDefs Proofs.WFNode Proofs.WFAdj Proofs.WFEdge Proofs.Refine
     Proofs.SpecOpsOk Proofs.HistoryOk Proofs.AdjOk Proofs.QueryOk Proofs.HistoryRefine.
Import ListNotations.

Section InsertionOrder.
  Context {T A : Type}.
  Variable teqb : T -> T -> bool.
  Variable tltb : T -> T -> bool.
  Hypothesis teqb_spec : forall x y, teqb x y = true <-> x = y.
  Hypothesis tltb_asym : forall x y, tltb x y = true -> tltb y x = false.
  Hypothesis tltb_total : forall x y, tltb x y = false -> tltb y x = false -> x = y.

  Notation node := (node T A).
  Notation edge := (edge T A).
  Notation gstate := (gstate T A).
  Notation mutation := (mutation T A).
  Notation WF := (@WF T A teqb tltb).
  Notation group := (@group T A teqb).
  Notation cn := (cn tltb).
  Notation Kof := (@Kof T A tltb).
  Notation newl_of := (@newl_of T A teqb tltb).
  Notation od_of := (@od_of T A tltb).
  Notation pspec := (peqb_spec teqb teqb_spec).
  Notation new := (@new T A).
  Notation add_edge := (add_edge teqb tltb).
  Notation add_edges := (add_edges teqb tltb).
  Notation apply_mut := (apply_mut teqb tltb).
  Notation run_outs := (run_outs teqb tltb).
  Notation stored_between := (stored_between teqb tltb).
  Notation aer := (add_edge_refines teqb tltb teqb_spec tltb_asym tltb_total).
  Notation all_edges := (fun g : gstate => flat_map snd (edges g)).

  (* ------------------------------------------------------------------ *)
  (* vocabulary                                                          *)
  (* ------------------------------------------------------------------ *)

  (* a self-loop on a graph that does not keep self-loops (Drop: Ok and nothing happens) *)
  Definition dropped (s : specs) (e : edge) : bool := negb (selfloops s) && teqb (eu e) (ev e).

  (* the endpoints of e are the pair u v (as an ordered pair when directed, unordered otherwise) *)
  Definition hits (s : specs) (e : edge) (u v : T) : bool :=
    peqb teqb (cn s u v) (cn s (eu e) (ev e)).

  (* what a successful, not dropped add_edge of e does to the list stored between u and v *)
  Definition step_between (s : specs) (e : edge) (old : list edge) (u v : T) : list edge :=
    if hits s e u v then
      if multi s then old ++ [od_of s e]
      else match old with
           | [] => [od_of s e]
           | _ => match dd s with DKeepLast => [od_of s e] | _ => old end
           end
    else old.

  Lemma hits_iff s e u v :
    hits s e u v = true <->
    ((u = eu e /\ v = ev e) \/ (directed s = false /\ u = ev e /\ v = eu e)).
  Proof.
    unfold hits. rewrite pspec. apply (cn_hit_iff tltb tltb_asym tltb_total).
  Qed.

  (* [stored_between] only reads the specs and get_all_edges *)
  Lemma stored_between_ext (g g' : gstate) u v :
    sp g' = sp g -> all_edges g' = all_edges g -> stored_between g' u v = stored_between g u v.
  Proof. intros Hs He. unfold AdjOk.stored_between. rewrite Hs, He. reflexivity. Qed.

  (* ------------------------------------------------------------------ *)
  (* 1. one step                                                         *)
  (* ------------------------------------------------------------------ *)

  (* the stored groups after a successful, not dropped add_edge: only the group of the
     canonical pair of e changes, to [newl_of g e] *)
  Lemma add_edge_group (g : gstate) (e : edge) :
    WF g -> snd (add_edge g e) = Ok tt -> dropped (sp g) e = false ->
    forall k, group (fst (add_edge g e)) k =
              if peqb teqb k (Kof g e) then Some (newl_of g e) else group g k.
  Proof.
    intros W Hok Hdr. unfold dropped in Hdr. revert Hok. unfold Creation.add_edge. rewrite Hdr.
    destruct ((match ms (sp g) with MErr => true | MCreate => false end)
              && (negb (has_name teqb g (eu e)) || negb (has_name teqb g (ev e)))) eqn:Hms.
    { cbn [snd]. discriminate. }
    destruct (ens_ok teqb tltb teqb_spec g (eu e) W) as (g1 & H1 & W1 & He1 & Hs1 & Hin1 & Hmono1 & _ & _).
    change (if has_name teqb g (eu e) then Ok g else add_node teqb g (mknode (eu e) None))
      with (ens teqb g (eu e)).
    rewrite H1.
    destruct (ens_ok teqb tltb teqb_spec g1 (ev e) W1) as (g2 & H2 & W2 & He2 & Hs2 & Hin2 & Hmono2 & _ & _).
    change (if has_name teqb g1 (ev e) then Ok g1 else add_node teqb g1 (mknode (ev e) None))
      with (ens teqb g1 (ev e)).
    rewrite H2.
    assert (Hinu : In (eu e) (names g2)) by (apply Hmono2; exact Hin1).
    apply In_nth_error in Hinu. destruct Hinu as (ui & Hui).
    apply In_nth_error in Hin2. destruct Hin2 as (vi & Hvi).
    rewrite (proj2 (wf_nmap _ _ _ W2 _ _) Hui), (proj2 (wf_nmap _ _ _ W2 _ _) Hvi).
    assert (Hsp2 : sp g2 = sp g) by (rewrite Hs2, Hs1; reflexivity).
    assert (Hsl2 : selfloops (sp g2) = false -> eu e <> ev e).
    { rewrite Hsp2. intros Hf. rewrite Hf in Hdr. simpl in Hdr. intros Heq.
      rewrite (proj2 (teqb_spec _ _) Heq) in Hdr. discriminate. }
    assert (Hgrp2 : forall k, group g2 k = group g k).
    { intros k. unfold WFDefs.group. rewrite He2, He1. reflexivity. }
    assert (HK : Kof g2 e = Kof g e) by (unfold WFEdge.Kof; rewrite Hsp2; reflexivity).
    assert (HN : newl_of g2 e = newl_of g e).
    { unfold WFEdge.newl_of. rewrite HK, Hgrp2, Hsp2. reflexivity. }
    pose proof (add_edge_known_ok teqb tltb teqb_spec tltb_asym tltb_total g2 e ui vi W2 Hui Hvi Hsl2) as Hk.
    destruct (dup_rejected teqb tltb g2 e).
    - rewrite Hk. cbn [snd]. discriminate.
    - destruct Hk as (g' & Hr & _ & _ & _ & Hgroup & _). rewrite Hr. cbn [fst snd]. intros _ k.
      rewrite Hgroup, HK, HN, Hgrp2. reflexivity.
  Qed.

  (* add_edge that returns Ok, every pair u v *)
  Theorem add_edge_step (g : gstate) (e : edge) u v :
    WF g -> snd (add_edge g e) = Ok tt ->
    stored_between (fst (add_edge g e)) u v =
    if dropped (sp g) e then stored_between g u v
    else step_between (sp g) e (stored_between g u v) u v.
  Proof.
    intros W Hok. destruct (dropped (sp g) e) eqn:Hdr.
    - unfold dropped in Hdr. unfold Creation.add_edge. rewrite Hdr.
      destruct (slf (sp g)); reflexivity.
    - destruct (aer g e W) as (W' & _ & Hsp' & _).
      rewrite (stored_between_group teqb tltb teqb_spec g u v W).
      rewrite (stored_between_group teqb tltb teqb_spec _ u v W'), Hsp'.
      rewrite (add_edge_group g e W Hok Hdr). unfold step_between, hits. fold (Kof g e).
      destruct (peqb teqb (cn (sp g) u v) (Kof g e)) eqn:Ek; [|reflexivity].
      apply pspec in Ek. rewrite Ek. unfold WFEdge.newl_of.
      destruct (group g (Kof g e)) as [l|] eqn:Eg.
      + destruct (wf_egroup _ _ _ W _ _ Eg) as (Hne & _).
        destruct (multi (sp g)); [reflexivity|]. destruct l as [|x t]; [congruence|].
        destruct (dd (sp g)); reflexivity.
      + destruct (multi (sp g)); reflexivity.
  Qed.

  (* multigraph: the edge, in storage orientation, is appended to the list of its own pair;
     every other pair keeps its list *)
  Theorem add_edge_multi_step (g : gstate) (e : edge) u v :
    WF g -> multi (sp g) = true -> snd (add_edge g e) = Ok tt -> dropped (sp g) e = false ->
    stored_between (fst (add_edge g e)) u v =
    stored_between g u v ++ (if hits (sp g) e u v then [od_of (sp g) e] else []).
  Proof.
    intros W Hm Hok Hdr. rewrite (add_edge_step g e u v W Hok), Hdr. unfold step_between. rewrite Hm.
    destruct (hits (sp g) e u v); [reflexivity|rewrite app_nil_r; reflexivity].
  Qed.

  (* single-edge graph: first insertion creates the singleton, KeepLast replaces it, KeepFirst keeps it
     (under the Error strategy the call does not return Ok when the pair is occupied) *)
  Theorem add_edge_single_step (g : gstate) (e : edge) u v :
    WF g -> multi (sp g) = false -> snd (add_edge g e) = Ok tt -> dropped (sp g) e = false ->
    stored_between (fst (add_edge g e)) u v =
    if hits (sp g) e u v then
      match stored_between g u v with
      | [] => [od_of (sp g) e]
      | old => match dd (sp g) with DKeepLast => [od_of (sp g) e] | _ => old end
      end
    else stored_between g u v.
  Proof.
    intros W Hm Hok Hdr. rewrite (add_edge_step g e u v W Hok), Hdr. unfold step_between. rewrite Hm.
    destruct (hits (sp g) e u v); [|reflexivity]. destruct (stored_between g u v); reflexivity.
  Qed.

  Theorem add_edge_single_occupied_error (g : gstate) (e : edge) :
    WF g -> multi (sp g) = false -> dd (sp g) = DErr -> dropped (sp g) e = false ->
    stored_between g (eu e) (ev e) <> [] -> snd (add_edge g e) <> Ok tt.
  Proof.
    intros W Hm Hdd Hdr Hne Hok. apply Hne.
    pose proof (add_edge_step g e (eu e) (ev e) W Hok) as Hstep. rewrite Hdr in Hstep.
    unfold step_between in Hstep. rewrite Hm, Hdd in Hstep.
    assert (Hh : hits (sp g) e (eu e) (ev e) = true) by (apply hits_iff; left; split; reflexivity).
    rewrite Hh in Hstep.
    (* the spec returns DuplicateEdge *)
    destruct (aer g e W) as (_ & Hr & _). rewrite Hr in Hok. clear Hr Hstep.
    revert Hok. unfold spec_add_edge. cbn [a_sp Abs a_edges a_nodes]. unfold dropped in Hdr. rewrite Hdr.
    destruct ((match ms (sp g) with MErr => true | MCreate => false end)
              && negb (a_has teqb (Abs g) (eu e) && a_has teqb (Abs g) (ev e))); [cbn [snd]; discriminate|].
    rewrite Hm, Hdd.
    destruct (existsb _ _) eqn:Ex; [cbn [snd]; discriminate|]. intros _.
    (* no stored edge has the canonical pair of e *)
    destruct (stored_between g (eu e) (ev e)) as [|x t] eqn:Es; [reflexivity|exfalso].
    assert (Hx : In x (stored_between g (eu e) (ev e))) by (rewrite Es; left; reflexivity).
    unfold AdjOk.stored_between in Hx. apply filter_In in Hx. destruct Hx as (Hin & Hkey).
    unfold keyb in Hkey. apply pspec in Hkey.
    assert (Hex : existsb (same_pair teqb (canon tltb (sp g) e))
                    (a_edges (ensure_node teqb (ensure_node teqb (Abs g) (eu e)) (ev e))) = true).
    { apply existsb_exists. exists x. split.
      - unfold ensure_node.
        destruct (a_has teqb (Abs g) (eu e)); [|rewrite ?spec_add_node_edges];
          match goal with |- In x (a_edges (if ?c then _ else _)) => destruct c end;
          rewrite ?spec_add_node_edges; exact Hin.
      - apply (same_pair_key teqb teqb_spec). rewrite Hkey, <- od_of_canon. symmetry. apply od_of_key. }
    rewrite Hex in Ex. discriminate.
  Qed.

  (* a dropped self-loop: Ok, nothing changes *)
  Theorem add_edge_dropped_step (g : gstate) (e : edge) :
    dropped (sp g) e = true -> fst (add_edge g e) = g.
  Proof.
    unfold dropped. intros Hdr. unfold Creation.add_edge. rewrite Hdr. destruct (slf (sp g)); reflexivity.
  Qed.

  (* an error: nothing changes (C01: the twelve fields are untouched) *)
  Theorem add_edge_err_step (g : gstate) (e : edge) k u v :
    WF g -> snd (add_edge g e) = Err k -> stored_between (fst (add_edge g e)) u v = stored_between g u v.
  Proof.
    intros W He. rewrite (add_edge_error_noop teqb tltb teqb_spec tltb_asym tltb_total g e k W He). reflexivity.
  Qed.

  (* add_node / add_nodes: no list changes *)
  Theorem add_node_step (g g' : gstate) (n : node) u v :
    WF g -> add_node teqb g n = Ok g' -> stored_between g' u v = stored_between g u v.
  Proof.
    intros W H. destruct (add_node_refines teqb tltb teqb_spec g n W) as (g1 & H1 & _ & Ha).
    rewrite H1 in H. inversion H. subst g1. apply stored_between_ext.
    - change (a_sp (Abs g') = a_sp (Abs g)). rewrite Ha. unfold spec_add_node.
      destruct (a_has teqb (Abs g) (nname n)); reflexivity.
    - change (a_edges (Abs g') = a_edges (Abs g)). rewrite Ha. apply spec_add_node_edges.
  Qed.

  Theorem add_nodes_step ns : forall (g g' : gstate) u v,
    WF g -> add_nodes teqb g ns = Ok g' -> stored_between g' u v = stored_between g u v.
  Proof.
    induction ns as [|n t IH]; intros g g' u v W H; unfold add_nodes in *; cbn [ofold] in H.
    - inversion H. reflexivity.
    - destruct (add_node_refines teqb tltb teqb_spec g n W) as (g1 & H1 & W1 & _).
      rewrite H1 in H. cbn [bind] in H. rewrite (IH g1 g' u v W1 H). apply (add_node_step g g1 n u v W H1).
  Qed.

  (* ------------------------------------------------------------------ *)
  (* 2. the log of a history and what it puts between two names          *)
  (* ------------------------------------------------------------------ *)

  (* the individual add_edge calls of a batch, each with its outcome: the batch stops after the
     first call that does not return Ok *)
  Fixpoint batch_log (g : gstate) (es : list edge) : list (edge * outcome unit) :=
    match es with
    | [] => []
    | e :: t => (e, snd (add_edge g e)) ::
                (if is_ok (snd (add_edge g e)) then batch_log (fst (add_edge g e)) t else [])
    end.

  Definition mut_log (g : gstate) (m : mutation) : list (edge * outcome unit) :=
    match m with
    | MutEdge e => [(e, snd (add_edge g e))]
    | MutEdges es => batch_log g es
    | MutNode _ | MutNodes _ => []
    end.

  (* all add_edge calls of a history (direct ones and those made by batches), in call order *)
  Fixpoint edge_log (g : gstate) (ms : list mutation) : list (edge * outcome unit) :=
    match ms with
    | [] => []
    | m :: t => mut_log g m ++ edge_log (fst (apply_mut g m)) t
    end.

  (* a logged call that stored something: returned Ok and was not a dropped self-loop *)
  Definition accepted (s : specs) (p : edge * outcome unit) : bool :=
    is_ok (snd p) && negb (dropped s (fst p)).

  (* the accepted calls between u and v, in call order, in storage orientation *)
  Definition calls_between (s : specs) (log : list (edge * outcome unit)) (u v : T) : list edge :=
    map (od_of s) (filter (fun e => hits s e u v) (map fst (filter (accepted s) log))).

  (* what the graph keeps of them: all on a multigraph; the last under KeepLast; the first
     otherwise (under Error the later ones were rejected and are not in the list) *)
  Definition kept (s : specs) (l : list edge) : list edge :=
    if multi s then l
    else match dd s with
         | DKeepLast => match rev l with [] => [] | x :: _ => [x] end
         | _ => firstn 1 l
         end.

  Definition inserted_between (s : specs) (log : list (edge * outcome unit)) (u v : T) : list edge :=
    kept s (calls_between s log u v).

  (* replaying a log on the list of one pair *)
  Definition replay (s : specs) (u v : T) (log : list (edge * outcome unit)) (old : list edge) : list edge :=
    fold_left (fun acc p => if accepted s p then step_between s (fst p) acc u v else acc) log old.

  Lemma replay_app s u v l1 l2 old : replay s u v (l1 ++ l2) old = replay s u v l2 (replay s u v l1 old).
  Proof. unfold replay. apply fold_left_app. Qed.

  Lemma calls_between_cons s p log u v :
    calls_between s (p :: log) u v =
    (if accepted s p && hits s (fst p) u v then [od_of s (fst p)] else []) ++ calls_between s log u v.
  Proof.
    unfold calls_between. cbn [filter]. destruct (accepted s p); [|reflexivity].
    cbn [map filter andb]. destruct (hits s (fst p) u v); reflexivity.
  Qed.

  Lemma replay_multi s u v log : multi s = true -> forall old,
    replay s u v log old = old ++ calls_between s log u v.
  Proof.
    intros Hm. induction log as [|p t IH]; intros old.
    - unfold calls_between. simpl. rewrite app_nil_r. reflexivity.
    - change (replay s u v (p :: t) old)
        with (replay s u v t (if accepted s p then step_between s (fst p) old u v else old)).
      rewrite IH, calls_between_cons. unfold step_between. rewrite Hm.
      destruct (accepted s p); [|reflexivity]. cbn [andb].
      destruct (hits s (fst p) u v); [rewrite <- app_assoc; reflexivity|reflexivity].
  Qed.

  Lemma replay_keeplast s u v log : multi s = false -> dd s = DKeepLast -> forall old,
    replay s u v log old =
    match rev (calls_between s log u v) with [] => old | x :: _ => [x] end.
  Proof.
    intros Hm Hdd. induction log as [|p t IH]; intros old.
    - reflexivity.
    - change (replay s u v (p :: t) old)
        with (replay s u v t (if accepted s p then step_between s (fst p) old u v else old)).
      rewrite IH, calls_between_cons. unfold step_between. rewrite Hm, Hdd.
      destruct (accepted s p); [|reflexivity]. cbn [andb].
      destruct (hits s (fst p) u v); [|reflexivity].
      cbn [app]. cbn [rev]. destruct (rev (calls_between s t u v)) as [|x r].
      + destruct old; reflexivity.
      + reflexivity.
  Qed.

  Lemma replay_keepfirst s u v log : multi s = false -> dd s <> DKeepLast -> forall old,
    replay s u v log old =
    match old with [] => firstn 1 (calls_between s log u v) | _ => old end.
  Proof.
    intros Hm Hdd. induction log as [|p t IH]; intros old.
    - destruct old; reflexivity.
    - change (replay s u v (p :: t) old)
        with (replay s u v t (if accepted s p then step_between s (fst p) old u v else old)).
      rewrite IH, calls_between_cons. unfold step_between. rewrite Hm.
      destruct (accepted s p); [|reflexivity]. cbn [andb].
      destruct (hits s (fst p) u v); [|reflexivity].
      destruct old as [|x r]; [reflexivity|].
      destruct (dd s); try reflexivity. congruence.
  Qed.

  Lemma replay_from_empty s u v log : replay s u v log [] = inserted_between s log u v.
  Proof.
    unfold inserted_between, kept. destruct (multi s) eqn:Hm.
    - rewrite (replay_multi s u v log Hm). reflexivity.
    - destruct (dd s) eqn:Hdd.
      + rewrite (replay_keepfirst s u v log Hm); [reflexivity|congruence].
      + rewrite (replay_keepfirst s u v log Hm); [reflexivity|congruence].
      + rewrite (replay_keeplast s u v log Hm Hdd). reflexivity.
  Qed.

  (* one logged call *)
  Lemma add_edge_replay (g : gstate) (e : edge) u v :
    WF g ->
    stored_between (fst (add_edge g e)) u v =
    replay (sp g) u v [(e, snd (add_edge g e))] (stored_between g u v).
  Proof.
    intros W. unfold replay, accepted. cbn [fold_left fst snd].
    destruct (add_edge_no_panic teqb tltb teqb_spec tltb_asym tltb_total g e W) as (Hp & Hf).
    destruct (snd (add_edge g e)) as [[]|k|x|] eqn:Er; cbn [is_ok andb]; try discriminate.
    - rewrite (add_edge_step g e u v W Er). destruct (dropped (sp g) e); reflexivity.
    - apply (add_edge_err_step g e k u v W Er).
  Qed.

  (* a batch is the fold of its calls, stopping at the first failure *)
  Theorem add_edges_step es : forall (g : gstate) u v,
    WF g ->
    stored_between (fst (add_edges g es)) u v =
    replay (sp g) u v (batch_log g es) (stored_between g u v).
  Proof.
    induction es as [|e t IH]; intros g u v W; [reflexivity|].
    cbn [Creation.add_edges batch_log].
    pose proof (add_edge_replay g e u v W) as H1.
    destruct (aer g e W) as (W1 & _ & Hs1 & _).
    destruct (add_edge g e) as [g1 r] eqn:E. cbn [fst snd] in *.
    change ((e, r) :: (if is_ok r then batch_log g1 t else []))
      with ([(e, r)] ++ (if is_ok r then batch_log g1 t else [])).
    rewrite replay_app, <- H1.
    destruct r as [[]|k|x|]; cbn [is_ok fst]; try reflexivity.
    rewrite (IH g1 u v W1), Hs1. reflexivity.
  Qed.

  Lemma apply_mut_replay (g : gstate) (m : mutation) u v :
    WF g ->
    stored_between (fst (apply_mut g m)) u v = replay (sp g) u v (mut_log g m) (stored_between g u v).
  Proof.
    intros W. destruct m as [n|ns|e|es]; cbn [History.apply_mut mut_log].
    - destruct (add_node_refines teqb tltb teqb_spec g n W) as (g' & H & _). rewrite H. cbn [lift fst].
      apply (add_node_step g g' n u v W H).
    - destruct (add_nodes_WF teqb tltb teqb_spec ns g W) as (g' & H & _). rewrite H. cbn [lift fst].
      apply (add_nodes_step ns g g' u v W H).
    - apply add_edge_replay. exact W.
    - apply add_edges_step. exact W.
  Qed.

  (* any history from any coherent state *)
  Theorem history_replay ms : forall (g : gstate) u v,
    WF g ->
    stored_between (fst (run_outs g ms)) u v = replay (sp g) u v (edge_log g ms) (stored_between g u v).
  Proof.
    induction ms as [|m t IH]; intros g u v W; [reflexivity|].
    cbn [HistoryRefine.run_outs edge_log]. rewrite replay_app, <- (apply_mut_replay g m u v W).
    pose proof (apply_mut_WF teqb tltb teqb_spec tltb_asym tltb_total g m W) as W1.
    pose proof (apply_mut_sp teqb tltb teqb_spec tltb_asym tltb_total g m W) as Hs1.
    destruct (apply_mut g m) as [g1 r]. cbn [fst] in *.
    specialize (IH g1 u v W1). destruct (run_outs g1 t) as [g2 rs]. cbn [fst] in *.
    rewrite IH, Hs1. reflexivity.
  Qed.

  Lemma stored_between_new s u v : stored_between (new s) u v = [].
  Proof. reflexivity. Qed.

  (* THE HISTORY THEOREM: from new(specs), after ANY history, the list stored between u and v is
     exactly what the accepted add_edge calls of the history put there, in call order *)
  Theorem insertion_order_history s ms u v :
    stored_between (fst (run_outs (new s) ms)) u v = inserted_between s (edge_log (new s) ms) u v.
  Proof.
    rewrite (history_replay ms (new s) u v (WF_new teqb tltb s)).
    cbn [sp new]. rewrite stored_between_new. apply replay_from_empty.
  Qed.

  Lemma run_outs_reachable s ms : reachable teqb tltb s (fst (run_outs (new s) ms)).
  Proof. exists ms. apply run_outs_state. Qed.

  (* ... hence what get_edges / get_edge answer after any history *)
  Theorem get_edges_history s ms u v :
    let g := fst (run_outs (new s) ms) in
    get_edges teqb g u v =
    if negb (multi s) then Err WrongMethod
    else if negb (existsb (fun n => teqb (nname n) u) (nodes_vec g))
            || negb (existsb (fun n => teqb (nname n) v) (nodes_vec g)) then Err NodeNotFound
    else match calls_between s (edge_log (new s) ms) u v with [] => Err EdgeNotFound | l => Ok l end.
  Proof.
    intros g.
    pose proof (WF_reachable teqb tltb teqb_spec tltb_asym tltb_total s g (run_outs_reachable s ms)) as W.
    pose proof (reachable_sp teqb tltb teqb_spec tltb_asym tltb_total s g (run_outs_reachable s ms)) as Hs.
    rewrite (get_edges_spec teqb tltb teqb_spec tltb_asym tltb_total g u v W), Hs.
    destruct (multi s) eqn:Hm; [|reflexivity]. cbn [negb].
    unfold g. rewrite insertion_order_history. unfold inserted_between, kept. rewrite Hm. reflexivity.
  Qed.

  Theorem get_edge_history s ms u v :
    let g := fst (run_outs (new s) ms) in
    get_edge teqb g u v =
    if multi s then Err WrongMethod
    else if negb (existsb (fun n => teqb (nname n) u) (nodes_vec g))
            || negb (existsb (fun n => teqb (nname n) v) (nodes_vec g)) then Err NodeNotFound
    else match calls_between s (edge_log (new s) ms) u v with
         | [] => Err EdgeNotFound
         | x :: t => Ok (match dd s with DKeepLast => last t x | _ => x end)
         end.
  Proof.
    intros g.
    pose proof (WF_reachable teqb tltb teqb_spec tltb_asym tltb_total s g (run_outs_reachable s ms)) as W.
    pose proof (reachable_sp teqb tltb teqb_spec tltb_asym tltb_total s g (run_outs_reachable s ms)) as Hs.
    rewrite (get_edge_spec teqb tltb teqb_spec tltb_asym tltb_total g u v W), Hs.
    destruct (multi s) eqn:Hm; [reflexivity|].
    unfold g. rewrite insertion_order_history. unfold inserted_between, kept. rewrite Hm.
    destruct (calls_between s (edge_log (new s) ms) u v) as [|x t]; [destruct (dd s); reflexivity|].
    destruct (dd s) eqn:Hdd; try reflexivity.
    (* KeepLast: the head of the reversed list is the last element *)
    assert (Hl : forall (l : list edge) d, match rev l with [] => d | y :: _ => y end = last l d).
    { intros l d. destruct l as [|a l'] using rev_ind; [reflexivity|].
      rewrite rev_unit, last_last. reflexivity. }
    change (x :: t) with ([x] ++ t). rewrite rev_app_distr. cbn [rev app].
    pose proof (Hl t x) as H. destruct (rev t) as [|y r]; cbn [app]; rewrite <- H; reflexivity.
  Qed.

  (* ------------------------------------------------------------------ *)
  (* 3. when every call returned Ok the log is the history itself        *)
  (* ------------------------------------------------------------------ *)

  (* the edges a history hands to add_edge / add_edges, in call order *)
  Definition mut_edges (m : mutation) : list edge :=
    match m with MutEdge e => [e] | MutEdges es => es | _ => [] end.
  Definition history_edges (ms : list mutation) : list edge := flat_map mut_edges ms.

  Lemma batch_log_ok es : forall (g : gstate),
    snd (add_edges g es) = Ok tt -> batch_log g es = map (fun e => (e, Ok tt)) es.
  Proof.
    induction es as [|e t IH]; intros g H; [reflexivity|]. cbn [Creation.add_edges batch_log map] in *.
    destruct (add_edge g e) as [g1 r]. cbn [fst snd] in *.
    destruct r as [[]|k|x|]; cbn [snd] in H; try discriminate. cbn [is_ok]. rewrite (IH g1 H). reflexivity.
  Qed.

  (* the outcome of a batch is the outcome of its last logged call when that is not Ok *)
  Lemma batch_log_outcome es : forall (g : gstate),
    (snd (add_edges g es) = Ok tt /\ map fst (batch_log g es) = es /\
     Forall (fun p => snd p = Ok tt) (batch_log g es)) \/
    (exists pre e rest r, es = pre ++ e :: rest /\ r <> Ok tt /\ snd (add_edges g es) = r /\
                          batch_log g es = map (fun x => (x, Ok tt)) pre ++ [(e, r)]).
  Proof.
    induction es as [|e t IH]; intros g.
    - left. split; [reflexivity|]. split; [reflexivity|constructor].
    - cbn [Creation.add_edges batch_log]. destruct (add_edge g e) as [g1 r]. cbn [fst snd].
      destruct r as [[]|k|x|]; cbn [is_ok].
      + destruct (IH g1) as [(H1 & H2 & H3)|(pre & e' & rest & r & H1 & H2 & H3 & H4)].
        * left. split; [exact H1|]. split; [cbn [map fst]; rewrite H2; reflexivity|].
          constructor; [reflexivity|exact H3].
        * right. exists (e :: pre), e', rest, r. split; [rewrite H1; reflexivity|].
          split; [exact H2|]. split; [exact H3|]. rewrite H4. reflexivity.
      + right. exists [], e, t, (Err k). split; [reflexivity|]. split; [discriminate|]. split; reflexivity.
      + right. exists [], e, t, (Panic x). split; [reflexivity|]. split; [discriminate|]. split; reflexivity.
      + right. exists [], e, t, OutOfFuel. split; [reflexivity|]. split; [discriminate|]. split; reflexivity.
  Qed.

  Theorem edge_log_all_ok ms : forall (g : gstate),
    Forall (fun r => r = Ok tt) (snd (run_outs g ms)) ->
    edge_log g ms = map (fun e => (e, Ok tt)) (history_edges ms).
  Proof.
    induction ms as [|m t IH]; intros g H; [reflexivity|].
    cbn [HistoryRefine.run_outs edge_log history_edges flat_map] in *.
    fold (history_edges t). rewrite map_app.
    destruct (apply_mut g m) as [g1 r] eqn:E. cbn [fst].
    specialize (IH g1). destruct (run_outs g1 t) as [g2 rs]. cbn [snd] in *.
    inversion H as [|? ? Hr Hrs]; subst. rewrite (IH Hrs). f_equal.
    destruct m as [n|ns|e|es]; cbn [mut_log mut_edges map]; try reflexivity.
    - cbn [History.apply_mut] in E. rewrite E. reflexivity.
    - cbn [History.apply_mut] in E. apply batch_log_ok. rewrite E. reflexivity.
  Qed.

  (* the accepted calls between u and v of a list of edges all of whose insertions succeed *)
  Definition edges_between (s : specs) (es : list edge) (u v : T) : list edge :=
    map (od_of s) (filter (fun e => hits s e u v) (filter (fun e => negb (dropped s e)) es)).

  Lemma calls_between_all_ok s es u v :
    calls_between s (map (fun e => (e, Ok tt)) es) u v = edges_between s es u v.
  Proof.
    unfold calls_between, edges_between. f_equal. f_equal.
    induction es as [|e t IH]; [reflexivity|]. cbn [map filter]. unfold accepted at 1. cbn [fst snd is_ok andb].
    destruct (negb (dropped s e)); cbn [map]; rewrite IH; reflexivity.
  Qed.

  (* model-free reading: if every call of the history returned Ok, the list stored between u and
     v is computed from the history alone *)
  Theorem insertion_order_all_ok s ms u v :
    Forall (fun r => r = Ok tt) (snd (run_outs (new s) ms)) ->
    stored_between (fst (run_outs (new s) ms)) u v = kept s (edges_between s (history_edges ms) u v).
  Proof.
    intros H. rewrite insertion_order_history, (edge_log_all_ok ms (new s) H).
    unfold inserted_between. rewrite calls_between_all_ok. reflexivity.
  Qed.

  (* new_from_nodes_and_edges that returns a graph: the edges between u and v are those of the
     argument list, in list order *)
  Theorem new_from_insertion_order ns es s (g : gstate) u v :
    new_from_nodes_and_edges teqb tltb ns es s = Ok g ->
    stored_between g u v = kept s (edges_between s es u v).
  Proof.
    unfold new_from_nodes_and_edges. intros H.
    destruct (add_nodes_WF teqb tltb teqb_spec ns (new s) (WF_new teqb tltb s)) as (g1 & H1 & W1 & _).
    rewrite H1 in H. cbn [bind] in H.
    assert (Hg : g = fst (run_outs (new s) [MutNodes ns; MutEdges es]) /\
                 Forall (fun r => r = Ok tt) (snd (run_outs (new s) [MutNodes ns; MutEdges es]))).
    { cbn [HistoryRefine.run_outs History.apply_mut]. rewrite H1. cbn [lift].
      destruct (add_edges g1 es) as [g2 r]. cbn [fst snd].
      destruct r as [[]|k|x|]; inversion H. subst g2. split; [reflexivity|]. repeat constructor. }
    destruct Hg as (-> & Hall). rewrite (insertion_order_all_ok s _ u v Hall).
    unfold history_edges. cbn [flat_map mut_edges app]. rewrite app_nil_r. reflexivity.
  Qed.

  Theorem new_from_get_edges ns es s (g : gstate) u v :
    new_from_nodes_and_edges teqb tltb ns es s = Ok g -> multi s = true ->
    get_edges teqb g u v =
    if negb (existsb (fun n => teqb (nname n) u) (nodes_vec g))
       || negb (existsb (fun n => teqb (nname n) v) (nodes_vec g)) then Err NodeNotFound
    else match edges_between s es u v with [] => Err EdgeNotFound | l => Ok l end.
  Proof.
    intros H Hm.
    pose proof (new_from_reachable teqb tltb teqb_spec ns es s g H) as Hr.
    pose proof (WF_reachable teqb tltb teqb_spec tltb_asym tltb_total s g Hr) as W.
    pose proof (reachable_sp teqb tltb teqb_spec tltb_asym tltb_total s g Hr) as Hs.
    rewrite (get_edges_spec teqb tltb teqb_spec tltb_asym tltb_total g u v W), Hs, Hm. cbn [negb].
    rewrite (new_from_insertion_order ns es s g u v H). unfold kept. rewrite Hm. reflexivity.
  Qed.
End InsertionOrder.
