(* shortest_path_info.rs contains_path_through_node: the slice test
   `path[1..len-1].contains(x)` is exactly "x occurs strictly inside some path",
   and get_all_shortest_paths_involving keeps exactly the all-pairs entries that
   pass it. *)
From Coq Require Import String List Bool ZArith QArith Arith Lia.
From GV Require Import Base.Outcome Base.AMap Model.GState Model.Creation Model.Query Model.Dijkstra.
Import ListNotations.

Section Involving.
  Context {T A : Type}.
  Variable teqb : T -> T -> bool.
  Hypothesis teqb_spec : forall a b, teqb a b = true <-> a = b.

  Definition inside (x : T) (p : list T) : Prop := exists a l b, p = a :: l ++ [b] /\ In x l.

  Lemma mem_In : forall x l, mem teqb x l = true <-> In x l.
  Proof.
    intros x l. unfold mem. rewrite existsb_exists. split.
    - intros [y [Hy He]]. apply teqb_spec in He. subst. exact Hy.
    - intros H. exists x. split; [exact H | apply teqb_spec; reflexivity].
  Qed.

  Lemma inside_iff : forall x p,
    (if Nat.leb (length p) 2 then false else mem teqb x (removelast (tl p))) = true <-> inside x p.
  Proof.
    intros x p. destruct (Nat.leb (length p) 2) eqn:E.
    - apply Nat.leb_le in E. split; [discriminate|]. intros [a [l [b [-> Hin]]]].
      destruct l as [|y l]; [destruct Hin|]. cbn in E. rewrite app_length in E. cbn in E. lia.
    - apply Nat.leb_gt in E. destruct p as [|a t]; [cbn in E; lia|]. cbn [tl].
      destruct (exists_last (l:=t)) as [l [b Ht]]; [intros ->; cbn in E; lia|]. subst t.
      rewrite removelast_last. rewrite mem_In. split.
      + intros Hin. exists a, l, b. auto.
      + intros [a' [l' [b' [Hp Hin]]]]. inversion Hp as [[Ha Hl]]. apply app_inj_tail in Hl.
        destruct Hl as [-> _]. exact Hin.
  Qed.

  Theorem contains_path_through_node_spec : forall (spi : spinfo T) (x : T),
    contains_path_through_node teqb spi x = true <-> exists p, In p (sp_paths spi) /\ inside x p.
  Proof.
    intros spi x. unfold contains_path_through_node. rewrite existsb_exists.
    split; intros [p [Hp H]]; exists p; (split; [exact Hp|]); apply inside_iff; exact H.
  Qed.

  (* the result is exactly the all-pairs entries having a path with x strictly inside *)
  Theorem involving_spec : forall threads (g : gstate T A) (x : T) (weighted : bool) l pairs,
    all_pairs teqb threads g weighted None None false true = Ok pairs ->
    get_all_shortest_paths_involving teqb threads g x weighted = Ok l ->
    forall spi, In spi l <->
      (exists s t, exists m, In (s, m) pairs /\ In (t, spi) m) /\
      exists p, In p (sp_paths spi) /\ inside x p.
  Proof.
    intros threads g x weighted l pairs Ha H spi. unfold get_all_shortest_paths_involving in H.
    rewrite Ha in H. inversion H; subst l. clear H. rewrite filter_In, in_flat_map.
    rewrite contains_path_through_node_spec. split.
    - intros [[[s m] [Hin Hm]] Hc]. cbn in Hm. apply in_map_iff in Hm. destruct Hm as [[t i] [E Hi]].
      cbn in E. subst i. split; [exists s, t, m; auto | exact Hc].
    - intros [[s [t [m [Hin Hm]]]] Hc]. split; [|exact Hc]. exists (s, m). split; [exact Hin|].
      cbn. apply in_map_iff. exists (t, spi). auto.
  Qed.
End Involving.
