(* C13, deepening (round 2): the level graphs are FAITHFUL to the first working graph: Newman's
   modularity of any family of sets of level nodes equals the modularity, on the first working
   graph, of the family of their expanded attribute sets; the total edge weight is the same on
   every level.  Base: the converted graph (attributes are the singletons).  Step: generate_graph
   (Proofs/LouvainGenGraphOk.v: its edge multiset is the aggregation of the previous level's)
   composed with C13_aggregation_preserves_Q. *)
From Coq Require Import String List Bool ZArith Arith QArith Lia Lqa Permutation Setoid Morphisms.
From GV Require Import Base.Outcome Base.AMap Model.GState Model.Creation Model.Query Model.Derived
     Model.Partition Model.Louvain Spec.AGraph Spec.PartitionDef.
From GV Require Import Proofs.AMapOk Proofs.WFDefs Proofs.WFNode Proofs.QueryOk Proofs.DegreeOk
     Proofs.PartitionOk Proofs.LouvainOk Proofs.MoveGainOk Proofs.AggregationOk
     Proofs.LouvainSets Proofs.LouvainStructOk Proofs.LouvainNumOk Proofs.LouvainTermOk
     Proofs.LouvainLevelOk Proofs.LouvainGenGraphOk.
Import ListNotations.

(* Newman's modularity looks at the membership of the communities only *)
Lemma newman_ext : forall dirb (es : list wedgeN) res X Y,
  Forall2 (fun a b => forall x, In x a <-> In x b) X Y ->
  newman Nat.eqb dirb es res X == newman Nat.eqb dirb es res Y.
Proof.
  intros dirb es res X Y H. unfold newman. induction H as [|a b X' Y' Hab _ IH]; [reflexivity|].
  cbn [map qsum]. rewrite IH.
  destruct dirb; unfold K_of; rewrite (L_ext es a b Hab), (Kout_ext es a b Hab), (Kin_ext es a b Hab); reflexivity.
Qed.

(* two edge lists with the same end-point selections have the same modularity *)
Lemma newman_of_wsel : forall dirb (A B : list wedgeN) res X,
  (forall p, ends_only p -> wsel p A == wsel p B) ->
  newman Nat.eqb dirb A res X == newman Nat.eqb dirb B res X.
Proof.
  intros dirb A B res X H. unfold newman.
  assert (Hm : total_w A == total_w B).
  { rewrite (total_w_wsel A), (total_w_wsel B). apply H. exact ends_only_true. }
  apply qsum_ext. intros c _.
  assert (HL : L_of Nat.eqb A c == L_of Nat.eqb B c) by (apply H; apply ends_only_L).
  assert (HO : Kout_of Nat.eqb A c == Kout_of Nat.eqb B c) by (apply H; apply ends_only_out).
  assert (HI : Kin_of Nat.eqb A c == Kin_of Nat.eqb B c) by (apply H; apply ends_only_in).
  destruct dirb; unfold K_of; rewrite HL, HO, HI, Hm; reflexivity.
Qed.

(* the index of the part that contains a node *)
Fixpoint pidx (x : nat) (parts : list (list nat)) (i : nat) : nat :=
  match parts with
  | [] => i
  | p :: t => if mem Nat.eqb x p then i else pidx x t (S i)
  end.

Lemma pidx_spec : forall parts i0 i l u,
  ForallOrdPairs (fun a b => forall x, In x a -> ~ In x b) parts ->
  nth_error parts i = Some l -> In u l -> pidx u parts i0 = (i0 + i)%nat.
Proof.
  induction parts as [|p t IH]; intros i0 i l u Hd Hi Hu; [destruct i; discriminate|].
  inversion Hd as [|? ? Hp Ht]. subst. cbn [pidx]. destruct i as [|i]; cbn in Hi.
  - inversion Hi. subst p. rewrite (proj2 (mem_nat_In u l) Hu). lia.
  - assert (Hn : mem Nat.eqb u p = false).
    { apply mem_nat_false. intro Hin. rewrite Forall_forall in Hp.
      apply (Hp l (nth_error_In _ _ Hi) u Hin Hu). }
    rewrite Hn. rewrite (IH (S i0) i l u Ht Hi Hu). lia.
Qed.

Definition expand (attr : nat -> list nat) (l : list nat) : list nat := flat_map attr l.

Lemma In_expand : forall attr l x, In x (expand attr l) <-> exists u, In u l /\ In x (attr u).
Proof. intros attr l x. unfold expand. apply in_flat_map. Qed.

(* faithfulness of a level graph g with n nodes w.r.t. a base edge multiset *)
Definition Faithful (es0 : list wedgeN) (g : lgraph) (n : nat) : Prop :=
  total_w (wedges g) == total_w es0 /\
  forall res X, (forall c i, In c X -> In i c -> (i < n)%nat) ->
    newman Nat.eqb (directed (sp g)) (wedges g) res X ==
    newman Nat.eqb (directed (sp g)) es0 res (map (expand (attr_of g)) X).

Lemma Faithful_base : forall (g : lgraph) n, (forall u, (u < n)%nat -> attr_of g u = [u]) ->
  Faithful (wedges g) g n.
Proof.
  intros g n Hattr. split; [reflexivity|]. intros res X HX. apply newman_ext.
  induction X as [|c t IH]; [constructor|]. cbn [map]. constructor.
  - intro x. rewrite In_expand. split.
    + intro Hx. exists x. split; [exact Hx|]. rewrite (Hattr x (HX c x (or_introl eq_refl) Hx)). left. reflexivity.
    + intros [u [Hu Hx]]. rewrite (Hattr u (HX c u (or_introl eq_refl) Hu)) in Hx. destruct Hx as [Hx|[]]. subst. exact Hu.
  - apply IH. intros c0 i Hc0 Hi. apply (HX c0 i (or_intror Hc0) Hi).
Qed.

Theorem Faithful_step : forall es0 (g : lgraph) n I g2,
  LevelGraph g n -> Faithful es0 g n ->
  ForallOrdPairs (fun a b => forall x, In x a -> ~ In x b) I ->
  (forall u, In u (seq 0 n) <-> exists l, In l I /\ In u l) ->
  generate_graph g I = Ok g2 ->
  (forall e, In e (get_all_edges g2) -> exists z, ew e = Some z) ->
  Faithful es0 g2 (length I).
Proof.
  intros es0 g n I g2 LG [Htot HF] Hdisj Hcov Hgen Hreal2.
  destruct (generate_graph_struct g I g2 Hgen) as [W2 [Hnames2 [Hsp2 Hattr2]]].
  assert (Hdir : directed (sp g2) = directed (sp g)) by (rewrite Hsp2; reflexivity).
  set (com := fun u => pidx u I 0).
  assert (Hcom : forall i l u, nth_error I i = Some l -> In u l -> com u = i).
  { intros i l u Hi Hu. unfold com. rewrite (pidx_spec I 0 i l u Hdisj Hi Hu). reflexivity. }
  pose proof (wedges_of_true_some (get_all_edges g) (LG_real g n LG)) as Hes.
  pose proof (wedges_of_true_some (get_all_edges g2) Hreal2) as Hes2.
  fold (wedges g) in Hes. fold (wedges g2) in Hes2.
  pose proof (generate_graph_aggregates_simple g I g2 com (wedges g) (wedges g2) (lg_wf g n LG) (lg_single g n LG)
                Hgen Hcom Hes Hes2) as Hagg.
  assert (Hends : forall e, In e (wedges g) -> In (wu e) (names g) /\ In (wv e) (names g)).
  { intros e He. destruct (wedge_group g (lg_wf g n LG) e He) as [_ H]. exact H. }
  split.
  - rewrite (total_w_wsel (wedges g2)), (Hagg _ ends_only_true).
    rewrite (aggregate_wsel _ (directed (sp g)) _ ends_only_true), <- total_w_wsel, total_w_canon.
    rewrite (total_w_relabel com (wedges g)). exact Htot.
  - intros res X HX. rewrite Hdir.
    rewrite (newman_of_wsel (directed (sp g)) (wedges g2) (aggregate (directed (sp g)) (map (relabel com) (wedges g))) res X Hagg).
    rewrite (aggregation_preserves_Q nat Nat.eqb Nat.eqb_eq com (names g) (wedges g) (directed (sp g)) res X Hends).
    rewrite (HF res (map (induced com (names g)) X)).
    + rewrite map_map. apply newman_ext. induction X as [|c t IH]; [constructor|]. cbn [map]. constructor.
      * intro x. rewrite !In_expand. split.
        -- intros [u [Hu Hx]]. unfold induced in Hu. apply filter_In in Hu. destruct Hu as [Hun Hcu].
           apply (memb_In Nat.eqb Nat.eqb_eq) in Hcu. exists (com u). split; [exact Hcu|].
           assert (Hl : exists l, In l I /\ In u l) by (apply Hcov; apply (LG_names g n LG); exact Hun).
           destruct Hl as [l [Hl Hul]]. apply In_nth_error in Hl. destruct Hl as [i Hi].
           rewrite (Hcom i l u Hi Hul). apply (proj2 (Hattr2 i l Hi)). exists u. split; assumption.
        -- intros [i [Hi Hx]].
           assert (Hlt : (i < length I)%nat) by (apply (HX c i (or_introl eq_refl) Hi)).
           destruct (nth_error I i) as [l|] eqn:El; [|apply nth_error_None in El; lia].
           apply (proj2 (Hattr2 i l El)) in Hx. destruct Hx as [u [Hul Hx]]. exists u. split; [|exact Hx].
           unfold induced. apply filter_In. split.
           ++ apply (LG_names g n LG). apply Hcov. exists l. split; [eapply nth_error_In; exact El | exact Hul].
           ++ apply (memb_In Nat.eqb Nat.eqb_eq). rewrite (Hcom i l u El Hul). exact Hi.
      * apply IH. intros c0 i Hc0 Hi. apply (HX c0 i (or_intror Hc0) Hi).
    + intros c i Hc Hi. apply in_map_iff in Hc. destruct Hc as [c' [<- _]]. unfold induced in Hi.
      apply filter_In in Hi. destruct Hi as [Hi _]. apply (LG_names g n LG) in Hi. apply in_seq in Hi. lia.
Qed.
