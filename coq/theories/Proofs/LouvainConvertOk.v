(* C13, deepening: the two name conversions of louvain_partitions.
   convert_graph: under WF, the integer-named working graph is coherent, its names are
   0..n-1, every node carries the singleton attribute set of its own name, the graph is
   single-edged with the direction of the input, and its weights are 1 (weighted = false)
   resp. non-negative when the input's are.
   convert_back: the reverse map is an injective renaming of 0..n-1 onto the names of g,
   hence it transports [levels_ok]. *)
From Coq Require Import String List Bool ZArith Arith Lia Permutation.
From GV Require Import Base.Outcome Base.AMap Model.GState Model.Creation Model.Query Model.Derived
     Model.Partition Model.Louvain Spec.AGraph Spec.History Spec.PartitionDef.
From GV Require Import Proofs.WFDefs Proofs.WFNode Proofs.Refine Proofs.HistoryOk Proofs.QueryOk Proofs.DegreeOk
     Proofs.DerivedContent Proofs.DerivedOk Proofs.CreationNodes Proofs.LouvainSets
     Proofs.LouvainStructOk Proofs.MoveGainOk.
Import ListNotations.

(* ---------------- the order and equality of nat ---------------- *)
Lemma nat_eqb_spec : forall x y : nat, Nat.eqb x y = true <-> x = y.
Proof. intros. apply Nat.eqb_eq. Qed.
Lemma nat_ltb_asym : forall x y : nat, Nat.ltb x y = true -> Nat.ltb y x = false.
Proof. intros x y H. apply Nat.ltb_lt in H. apply Nat.ltb_ge. lia. Qed.
Lemma nat_ltb_total : forall x y : nat, Nat.ltb x y = false -> Nat.ltb y x = false -> x = y.
Proof. intros x y H1 H2. apply Nat.ltb_ge in H1. apply Nat.ltb_ge in H2. lia. Qed.

(* ---------------- weights of a graph built by new_from_nodes_and_edges ---------------- *)
Section BuiltWeights.
  Context {T A : Type}.
  Variable teqb : T -> T -> bool.
  Variable tltb : T -> T -> bool.
  Hypothesis teqb_spec : forall x y, teqb x y = true <-> x = y.
  Hypothesis tltb_asym : forall x y, tltb x y = true -> tltb y x = false.
  Hypothesis tltb_total : forall x y, tltb x y = false -> tltb y x = false -> x = y.
  Variable P : weight -> Prop.

  Notation all_edges := (fun g : gstate T A => flat_map snd (edges g)).

  Lemma spec_add_node_edges : forall (a : agraph T A) n, a_edges (spec_add_node teqb a n) = a_edges a.
  Proof. intros a n. unfold spec_add_node. destruct (a_has teqb a (nname n)); reflexivity. Qed.

  Lemma spec_add_nodes_edges : forall ns (a : agraph T A), a_edges (spec_add_nodes teqb a ns) = a_edges a.
  Proof.
    unfold spec_add_nodes. induction ns as [|n ns IH]; intros a; cbn [fold_left]; [reflexivity|].
    rewrite IH. apply spec_add_node_edges.
  Qed.

  Lemma ensure_node_edges : forall (a : agraph T A) x, a_edges (ensure_node teqb a x) = a_edges a.
  Proof. intros a x. unfold ensure_node. destruct (a_has teqb a x); [reflexivity|apply spec_add_node_edges]. Qed.

  Lemma canon_ew : forall s (e : edge T A), ew (canon tltb s e) = ew e.
  Proof. intros s e. unfold canon. destruct (negb (directed s) && tltb (ev e) (eu e)); reflexivity. Qed.

  Lemma spec_add_edge_edges : forall (a : agraph T A) e x,
    In x (a_edges (fst (spec_add_edge teqb tltb a e))) -> In x (a_edges a) \/ x = canon tltb (a_sp a) e.
  Proof.
    intros a e x. unfold spec_add_edge.
    destruct (negb (selfloops (a_sp a)) && teqb (eu e) (ev e)); [cbn [fst]; auto|].
    destruct ((match ms (a_sp a) with MErr => true | MCreate => false end) &&
              negb (a_has teqb a (eu e) && a_has teqb a (ev e))); [cbn [fst]; auto|].
    set (a2 := ensure_node teqb (ensure_node teqb a (eu e)) (ev e)).
    assert (E2 : a_edges a2 = a_edges a) by (unfold a2; rewrite !ensure_node_edges; reflexivity).
    destruct (multi (a_sp a)).
    - cbn [fst a_edges]. rewrite in_app_iff, E2. cbn [In]. intros [H|[H|[]]]; auto.
    - destruct (existsb (same_pair teqb (canon tltb (a_sp a) e)) (a_edges a2)).
      + destruct (dd (a_sp a)); cbn [fst a_edges].
        * auto.
        * rewrite E2. auto.
        * rewrite in_app_iff, filter_In, E2. cbn [In]. intros [[H _]|[H|[]]]; auto.
      + cbn [fst a_edges]. rewrite in_app_iff, E2. cbn [In]. intros [H|[H|[]]]; auto.
  Qed.

  Lemma add_edges_weights : forall es (g : gstate T A),
    WF teqb tltb g ->
    (forall e, In e (all_edges g) -> P (ew e)) ->
    (forall e, In e es -> P (ew e)) ->
    forall e, In e (all_edges (fst (add_edges teqb tltb g es))) -> P (ew e).
  Proof.
    induction es as [|e0 es IH]; intros g W Hg Hes; cbn [add_edges]; [exact Hg|].
    destruct (add_edge_refines teqb tltb teqb_spec tltb_asym tltb_total g e0 W) as (W1 & _ & _ & _ & Hp & _).
    assert (H1 : forall e, In e (all_edges (fst (add_edge teqb tltb g e0))) -> P (ew e)).
    { intros e He. apply (Permutation_in _ Hp) in He. apply spec_add_edge_edges in He.
      destruct He as [He| ->].
      - apply Hg. exact He.
      - rewrite canon_ew. apply Hes. left. reflexivity. }
    destruct (add_edge teqb tltb g e0) as [g1 r]. cbn [fst] in W1, H1.
    destruct r; cbn [fst]; try exact H1.
    apply IH; [exact W1|exact H1|]. intros e He. apply Hes. right. exact He.
  Qed.

  Theorem new_from_weights : forall (ns : list (node T A)) (es : list (edge T A)) s g,
    (forall e, In e es -> P (ew e)) ->
    new_from_nodes_and_edges teqb tltb ns es s = Ok g ->
    forall e, In e (get_all_edges g) -> P (ew e).
  Proof.
    intros ns es s g Hes H. unfold new_from_nodes_and_edges in H.
    destruct (add_nodes_WF teqb tltb teqb_spec ns (new s) (WF_new teqb tltb s)) as (g1 & H1 & W1 & Ha).
    rewrite H1 in H. cbn [bind] in H.
    assert (E1 : a_edges (Abs g1) = []).
    { rewrite Ha, spec_add_nodes_edges. reflexivity. }
    cbn [Abs a_edges] in E1.
    pose proof (add_edges_weights es g1 W1) as Hw.
    destruct (add_edges teqb tltb g1 es) as [g2 r]. cbn [fst] in Hw.
    destruct r; inversion H. subst g2. unfold get_all_edges. apply Hw; [|exact Hes].
    intros e He. cbv beta in He. rewrite E1 in He. destruct He.
  Qed.
End BuiltWeights.

(* ---------------- enumerate / lookup ---------------- *)
Section Enum.
  Context {T : Type}.
  Variable teqb : T -> T -> bool.
  Hypothesis teqb_spec : forall x y, teqb x y = true <-> x = y.

  Lemma lookup_enum_nth : forall (l : list T) k x i,
    lookup teqb x (enumerate_from k l) = Some i -> exists j, i = k + j /\ nth_error l j = Some x.
  Proof.
    induction l as [|y t IH]; intros k x i H; cbn [enumerate_from lookup] in H; [discriminate|].
    destruct (teqb x y) eqn:E.
    - apply teqb_spec in E. inversion H. subst. exists 0. split; [lia|reflexivity].
    - apply IH in H. destruct H as (j & -> & Hj). exists (S j). split; [lia|exact Hj].
  Qed.

  Lemma nth_lookup_enum : forall (l : list T) k x j,
    NoDup l -> nth_error l j = Some x -> lookup teqb x (enumerate_from k l) = Some (k + j).
  Proof.
    induction l as [|y t IH]; intros k x j Hnd H; [destruct j; discriminate|].
    inversion Hnd as [|? ? Hni Hnd']; subst. cbn [enumerate_from lookup].
    destruct j as [|j]; cbn [nth_error] in H.
    - inversion H. subst. rewrite (proj2 (teqb_spec x x) eq_refl). f_equal. lia.
    - destruct (teqb x y) eqn:E.
      + apply teqb_spec in E. subst. exfalso. apply Hni. eapply nth_error_In. exact H.
      + rewrite (IH (S k) x j Hnd' H). f_equal. lia.
  Qed.

  Lemma lookup_rev_enum : forall (l : list T) k u x,
    lookup Nat.eqb u (map (fun kv : T * nat => (snd kv, fst kv)) (enumerate_from k l)) = Some x ->
    exists j, u = k + j /\ nth_error l j = Some x.
  Proof.
    induction l as [|y t IH]; intros k u x H; cbn [enumerate_from map lookup fst snd] in H; [discriminate|].
    destruct (Nat.eqb u k) eqn:E.
    - apply Nat.eqb_eq in E. inversion H. subst. exists 0. split; [lia|reflexivity].
    - apply IH in H. destruct H as (j & -> & Hj). exists (S j). split; [lia|exact Hj].
  Qed.
End Enum.

(* ---------------- Forall2 along a functional, injective relation ---------------- *)
Lemma F2_impl : forall {X Y} (R R' : X -> Y -> Prop) a b,
  (forall x y, R x y -> R' x y) -> Forall2 R a b -> Forall2 R' a b.
Proof. intros X Y R R' a b H F. induction F; constructor; auto. Qed.

Lemma F2_map_l : forall {X Y Z} (R : Z -> Y -> Prop) (f : X -> Z) a b,
  Forall2 (fun x y => R (f x) y) a b -> Forall2 R (map f a) b.
Proof. intros X Y Z R f a b F. induction F; cbn [map]; constructor; auto. Qed.

Lemma F2_map_r : forall {X Y Z} (R : X -> Z -> Prop) (f : Y -> Z) a b,
  Forall2 (fun x y => R x (f y)) a b -> Forall2 R a (map f b).
Proof. intros X Y Z R f a b F. induction F; cbn [map]; constructor; auto. Qed.

Lemma F2_length : forall {X Y} (R : X -> Y -> Prop) a b, Forall2 R a b -> length a = length b.
Proof. intros X Y R a b F. induction F; cbn [length]; congruence. Qed.

Lemma F2_concat : forall {X Y} (R : X -> Y -> Prop) a b,
  Forall2 (Forall2 R) a b -> Forall2 R (concat a) (concat b).
Proof.
  intros X Y R a b F. induction F as [|x y a b Hxy F IH]; cbn [concat]; [constructor|].
  apply Forall2_app; assumption.
Qed.

Lemma F2_incl : forall {X Y} (Q : X -> Y -> Prop) ds prev prev',
  Forall2 Q prev prev' -> incl ds prev -> exists ds', Forall2 Q ds ds' /\ incl ds' prev'.
Proof.
  intros X Y Q ds prev prev' F. induction ds as [|d ds IH]; intros Hi.
  - exists []. split; [constructor|intros z []].
  - destruct IH as (ds' & F' & Hi'); [intros z Hz; apply Hi; right; exact Hz|].
    destruct (Forall2_In_l Q prev prev' d F (Hi d (or_introl eq_refl))) as (d' & Hd' & Q').
    exists (d' :: ds'). split; [constructor; assumption|].
    intros z [<-|Hz]; [exact Hd'|apply Hi'; exact Hz].
Qed.

Section Rename.
  Context {X Y : Type}.
  Variable R : X -> Y -> Prop.
  Hypothesis Rfun : forall a b b', R a b -> R a b' -> b = b'.
  Hypothesis Rinj : forall a a' b, R a b -> R a' b -> a = a'.

  Lemma F2_NoDup : forall a b, Forall2 R a b -> NoDup a -> NoDup b.
  Proof.
    intros a b F. induction F as [|x y a b Hxy F IH]; intros Hnd; [constructor|].
    inversion Hnd as [|? ? Hni Hnd']; subst. constructor; [|apply IH; exact Hnd'].
    intros Hy. destruct (Forall2_In_r R a b y F Hy) as (x' & Hx' & Rx'). 
    rewrite (Rinj x x' y Hxy Rx') in Hni. contradiction.
  Qed.

  Lemma same_elements_rename : forall a b a' b',
    same_elements a b -> Forall2 R a a' -> Forall2 R b b' -> same_elements a' b'.
  Proof.
    intros a b a' b' Hs Fa Fb y. split; intros Hy.
    - destruct (Forall2_In_r R a a' y Fa Hy) as (x & Hx & Rxy).
      apply Hs in Hx. destruct (Forall2_In_l R b b' x Fb Hx) as (y' & Hy' & Rxy').
      rewrite (Rfun x y y' Rxy Rxy'). exact Hy'.
    - destruct (Forall2_In_r R b b' y Fb Hy) as (x & Hx & Rxy).
      apply Hs in Hx. destruct (Forall2_In_l R a a' x Fa Hx) as (y' & Hy' & Rxy').
      rewrite (Rfun x y y' Rxy Rxy'). exact Hy'.
  Qed.

  Lemma disjoint_rename : forall cx cy,
    Forall2 (Forall2 R) cx cy -> pairwise_disjoint cx -> pairwise_disjoint cy.
  Proof.
    unfold pairwise_disjoint. intros cx cy F. induction F as [|a b cx cy Hab F IH]; intros Hd; [constructor|].
    inversion Hd as [|? ? Hall Hd']; subst. constructor; [|apply IH; exact Hd'].
    rewrite Forall_forall in *. intros b' Hb' y Hy Hy'.
    destruct (Forall2_In_r _ cx cy b' F Hb') as (a' & Ha' & Fa').
    destruct (Forall2_In_r R a b y Hab Hy) as (x & Hx & Rxy).
    destruct (Forall2_In_r R a' b' y Fa' Hy') as (x' & Hx' & Rxy').
    rewrite (Rinj x x' y Rxy Rxy') in Hx. apply (Hall a' Ha' x' Hx Hx').
  Qed.

  Variable NX : list X.
  Variable NY : list Y.
  Hypothesis N1 : forall a, In a NX -> exists b, In b NY /\ R a b.
  Hypothesis N2 : forall b, In b NY -> exists a, In a NX /\ R a b.

  Lemma partition_rename : forall cx cy,
    Forall2 (Forall2 R) cx cy -> is_partition_spec NX cx -> is_partition_spec NY cy.
  Proof.
    intros cx cy F (Hd & Hin & Hcov). split; [apply (disjoint_rename cx cy F Hd)|]. split.
    - intros c' y Hc' Hy.
      destruct (Forall2_In_r _ cx cy c' F Hc') as (c & Hc & Fc).
      destruct (Forall2_In_r R c c' y Fc Hy) as (x & Hx & Rxy).
      destruct (N1 x (Hin c x Hc Hx)) as (y' & Hy' & Rxy').
      rewrite (Rfun x y y' Rxy Rxy'). exact Hy'.
    - intros y Hy. destruct (N2 y Hy) as (x & Hx & Rxy).
      destruct (Hcov x Hx) as (c & Hc & Hxc).
      destruct (Forall2_In_l _ cx cy c F Hc) as (c' & Hc' & Fc).
      destruct (Forall2_In_l R c c' x Fc Hxc) as (y' & Hy' & Rxy').
      exists c'. split; [exact Hc'|]. rewrite (Rfun x y y' Rxy Rxy'). exact Hy'.
  Qed.

  Lemma level_rename : forall cx cy,
    Forall2 (Forall2 R) cx cy -> level_ok NX cx -> level_ok NY cy.
  Proof.
    intros cx cy F (Hp & Hne). split; [apply (partition_rename cx cy F Hp)|].
    clear Hp. induction F as [|a b cx cy Hab F IH]; [constructor|].
    inversion Hne as [|? ? Ha Hne']; subst. constructor; [|apply IH; exact Hne'].
    destruct Hab; [congruence|discriminate].
  Qed.

  Lemma coarsening_rename : forall p n p' n',
    Forall2 (Forall2 R) p p' -> Forall2 (Forall2 R) n n' -> coarsening p n -> coarsening p' n'.
  Proof.
    intros p n p' n' Fp Fn Hc c' Hc'.
    destruct (Forall2_In_r _ n n' c' Fn Hc') as (c & Hcn & Fc).
    destruct (Hc c Hcn) as (ds & Hi & Hs).
    destruct (F2_incl _ ds p p' Fp Hi) as (ds' & Fds & Hi').
    exists ds'. split; [exact Hi'|].
    apply (same_elements_rename c (concat ds) c' (concat ds') Hs Fc). apply F2_concat. exact Fds.
  Qed.

  Lemma chain_rename : forall lx ly,
    Forall2 (Forall2 (Forall2 R)) lx ly -> chain coarsening lx -> chain coarsening ly.
  Proof.
    intros lx ly F. induction F as [|a b lx ly Hab F IH]; intros Hc; [exact I|].
    cbn [chain] in *. destruct F as [|a2 b2 lx ly Hab2 F]; [exact I|].
    destruct Hc as (H1 & H2). split; [apply (coarsening_rename a a2 b b2 Hab Hab2 H1)|].
    apply IH. exact H2.
  Qed.

  Theorem levels_rename : forall lx ly,
    Forall2 (Forall2 (Forall2 R)) lx ly -> levels_ok NX lx -> levels_ok NY ly.
  Proof.
    intros lx ly F (Hne & Hall & Hch). split; [|split].
    - destruct F; [congruence|discriminate].
    - clear Hne Hch. induction F as [|a b lx ly Hab F IH]; [constructor|].
      inversion Hall as [|? ? Ha Hall']; subst. constructor; [apply (level_rename a b Hab Ha)|apply IH; exact Hall'].
    - apply (chain_rename lx ly F Hch).
  Qed.
End Rename.

Lemma wsum_nonneg : forall {T A} (l : list (edge T A)),
  (forall e, In e l -> exists z, ew e = Some z /\ (0 <= z)%Z) ->
  exists z, wsum (map ew l) = Some z /\ (0 <= z)%Z.
Proof.
  intros T A l. induction l as [|e t IH]; intros H; cbn [map wsum].
  - exists 0%Z. split; [reflexivity|lia].
  - destruct (H e (or_introl eq_refl)) as (z & Ez & Hz).
    destruct IH as (z' & Ez' & Hz'); [intros e' He'; apply H; right; exact He'|].
    rewrite Ez, Ez'. cbn [wadd]. exists (z + z')%Z. split; [reflexivity|lia].
Qed.

(* ---------------- the two conversions ---------------- *)
Section Convert.
  Context {T A : Type}.
  Variable teqb : T -> T -> bool.
  Variable tltb : T -> T -> bool.
  Hypothesis teqb_spec : forall x y, teqb x y = true <-> x = y.
  Hypothesis tltb_asym : forall x y, tltb x y = true -> tltb y x = false.
  Hypothesis tltb_total : forall x y, tltb x y = false -> tltb y x = false -> x = y.

  Theorem convert_back_levels_ok : forall (g : gstate T A) (levels : list (list (list nat))) ls,
    NoDup (map nname (nodes_vec g)) ->
    levels_ok (seq 0 (length (nodes_vec g))) levels ->
    convert_back (node_map_of tltb g) levels = Ok ls ->
    levels_ok (map nname (nodes_vec g)) ls.
  Proof.
    intros g levels ls Hnd Hl H.
    set (l := sort_by tltb (map nname (nodes_vec g))).
    assert (Hp : Permutation l (map nname (nodes_vec g))) by apply sort_by_permutation.
    assert (Hndl : NoDup l) by (apply (Permutation_NoDup (Permutation_sym Hp) Hnd)).
    assert (Hlen : length l = length (nodes_vec g)).
    { rewrite (Permutation_length Hp), map_length. reflexivity. }
    set (R := fun (u : nat) (x : T) => nth_error l u = Some x).
    assert (Rfun : forall a b b', R a b -> R a b' -> b = b') by (unfold R; intros; congruence).
    assert (Rinj : forall a a' b, R a b -> R a' b -> a = a').
    { unfold R. intros a a' b Ha Ha'. apply (proj1 (NoDup_nth_error l) Hndl).
      - apply nth_error_Some. congruence.
      - congruence. }
    assert (N1 : forall a, In a (seq 0 (length (nodes_vec g))) ->
                           exists b, In b (map nname (nodes_vec g)) /\ R a b).
    { intros a Ha. apply in_seq in Ha. unfold R. destruct (nth_error l a) as [x|] eqn:E.
      - exists x. split; [|reflexivity]. apply (Permutation_in _ Hp). eapply nth_error_In. exact E.
      - apply nth_error_None in E. lia. }
    assert (N2 : forall b, In b (map nname (nodes_vec g)) ->
                           exists a, In a (seq 0 (length (nodes_vec g))) /\ R a b).
    { intros b Hb. apply (Permutation_in _ (Permutation_sym Hp)) in Hb. apply In_nth_error in Hb.
      destruct Hb as (i & Hi). exists i. split; [|exact Hi].
      assert (i < length l) by (apply nth_error_Some; congruence). apply in_seq. lia. }
    apply (levels_rename R Rfun Rinj _ _ N1 N2 levels ls); [|exact Hl].
    unfold convert_back, node_map_of, get_all_nodes in H. fold l in H.
    apply omapM_ok in H. eapply F2_impl; [|exact H]. intros lv lv' H1. cbv beta in H1.
    apply omapM_ok in H1. eapply F2_impl; [|exact H1]. intros c c' H2. cbv beta in H2.
    apply omapM_ok in H2. eapply F2_impl; [|exact H2]. intros u x H3. cbv beta in H3.
    apply unwrap_at_ok in H3. apply lookup_rev_enum in H3. destruct H3 as (j & -> & Hj). exact Hj.
  Qed.

  Theorem convert_graph_struct : forall (g : gstate T A) (weighted : bool) (gu : lgraph),
    WF teqb tltb g ->
    convert_graph teqb tltb g weighted (node_map_of tltb g) = Ok gu ->
    WF Nat.eqb Nat.ltb gu /\
    Permutation (gnames gu) (seq 0 (length (nodes_vec g))) /\
    (forall u, u < length (nodes_vec g) -> attr_of gu u = [u]) /\
    multi (sp gu) = false /\ directed (sp gu) = directed (sp g) /\
    (weighted = false -> forall e, In e (get_all_edges gu) -> ew e = Some 1%Z) /\
    ((forall e, In e (get_all_edges g) -> exists z, ew e = Some z /\ (0 <= z)%Z) ->
     forall e, In e (get_all_edges gu) -> exists z, ew e = Some z /\ (0 <= z)%Z).
  Proof.
    intros g weighted gu W H.
    unfold convert_graph in H.
    apply bind_ok in H. destruct H as (g1 & H1 & H).
    apply bind_ok in H. destruct H as (g2 & H2 & H).
    apply bind_ok in H. destruct H as (ns & Hns & H).
    apply bind_ok in H. destruct H as (es & Hes & H).
    apply unwrap_res_ok in H.
    (* the single-edge graph *)
    assert (G1 : WF teqb tltb g1 /\ nodes_vec g1 = nodes_vec g /\ multi (sp g1) = false /\
                 directed (sp g1) = directed (sp g) /\
                 ((forall e, In e (get_all_edges g) -> exists z, ew e = Some z /\ (0 <= z)%Z) ->
                  forall e, In e (get_all_edges g1) -> exists z, ew e = Some z /\ (0 <= z)%Z)).
    { destruct (multi (sp g)) eqn:Hm.
      - apply unwrap_res_ok in H1.
        destruct (to_single_edges_content teqb tltb teqb_spec tltb_total g W Hm) as (h & Hh & Hv & Hmh & Hdh & Hp).
        rewrite H1 in Hh. inversion Hh. subst h.
        destruct (to_single_edges_WF teqb tltb teqb_spec tltb_asym tltb_total g g1 H1) as (W1 & _).
        split; [exact W1|]. split; [exact Hv|]. split; [exact Hmh|]. split; [exact Hdh|].
        intros Hg e He. unfold get_all_edges in He. apply (Permutation_in _ Hp) in He.
        apply in_map_iff in He. destruct He as ((k & l) & <- & Hin). unfold collapse_edges. cbn [ew snd].
        apply wsum_nonneg. intros e' He'. apply Hg. unfold get_all_edges. apply in_flat_map.
        exists (k, l). split; [exact Hin|exact He'].
      - inversion H1. subst g1. split; [exact W|]. split; [reflexivity|]. split; [exact Hm|].
        split; [reflexivity|]. intros Hg. exact Hg. }
    destruct G1 as (W1 & Hv1 & Hm1 & Hd1 & Hw1).
    (* the unit-weight graph *)
    assert (G2 : WF teqb tltb g2 /\ nodes_vec g2 = nodes_vec g1 /\ sp g2 = sp g1 /\
                 (weighted = false -> forall e, In e (get_all_edges g2) -> ew e = Some 1%Z) /\
                 (weighted = true -> g2 = g1)).
    { destruct weighted.
      - inversion H2. subst g2. split; [exact W1|]. split; [reflexivity|]. split; [reflexivity|].
        split; [discriminate|reflexivity].
      - destruct (set_all_edge_weights_content teqb tltb teqb_spec tltb_total g1 (Some 1%Z) W1)
          as (h & Hh & Hv & Hs & Hp).
        rewrite H2 in Hh. inversion Hh. subst h.
        destruct (set_all_edge_weights_WF teqb tltb teqb_spec tltb_asym tltb_total g1 g2 _ H2) as (W2 & _).
        split; [exact W2|]. split; [exact Hv|]. split; [exact Hs|]. split; [|discriminate].
        intros _ e He. unfold get_all_edges in He. apply (Permutation_in _ Hp) in He.
        apply in_map_iff in He. destruct He as (e0 & <- & _). reflexivity. }
    destruct G2 as (W2 & Hv2 & Hs2 & Hw2 & Hg2).
    (* the node map *)
    unfold node_map_of, get_all_nodes in Hns, Hes.
    set (l := sort_by tltb (map nname (nodes_vec g))) in *.
    assert (Hp : Permutation l (map nname (nodes_vec g))) by apply sort_by_permutation.
    assert (Hndl : NoDup l) by (apply (Permutation_NoDup (Permutation_sym Hp) (wf_nodup _ _ _ W))).
    assert (Hlen : length l = length (nodes_vec g)).
    { rewrite (Permutation_length Hp), map_length. reflexivity. }
    assert (KL : forall x u, lookup teqb x (enumerate_from 0 l) = Some u -> nth_error l u = Some x).
    { intros x u Hl. apply (lookup_enum_nth teqb teqb_spec) in Hl. destruct Hl as (j & -> & Hj). exact Hj. }
    assert (Rl : forall x u u', nth_error l u = Some x -> nth_error l u' = Some x -> u = u').
    { intros x u u' Hu Hu'. apply (proj1 (NoDup_nth_error l) Hndl).
      - apply nth_error_Some. congruence.
      - congruence. }
    (* the node list *)
    apply omapM_ok in Hns. rewrite Hv2, Hv1 in Hns.
    assert (FN0 : Forall2 (fun (n : node T A) (y : lnode) =>
                             nth_error l (nname y) = Some (nname n) /\ y = mknode (nname y) (Some [nname y]))
                          (nodes_vec g) ns).
    { eapply F2_impl; [|exact Hns]. intros n y Hy. cbv beta in Hy.
      apply bind_ok in Hy. destruct Hy as (u & Hu & Hy). apply unwrap_at_ok in Hu. inversion Hy. subst y.
      cbn [nname]. split; [apply KL; exact Hu|reflexivity]. }
    assert (FN : Forall2 (fun (x : T) (u : nat) => nth_error l u = Some x)
                         (map nname (nodes_vec g)) (map nname ns)).
    { apply F2_map_l, F2_map_r. eapply F2_impl; [|exact FN0]. intros n y (Hy & _). exact Hy. }
    assert (HndNs : NoDup (map nname ns)).
    { apply (F2_NoDup (fun (x : T) (u : nat) => nth_error l u = Some x)) with (a := map nname (nodes_vec g)).
      - intros a a' b Ha Ha'. congruence.
      - exact FN.
      - apply (wf_nodup _ _ _ W). }
    assert (HpNs : Permutation (map nname ns) (seq 0 (length (nodes_vec g)))).
    { apply NoDup_Permutation_bis; [exact HndNs| |].
      - rewrite seq_length, <- (F2_length _ _ _ FN), map_length. lia.
      - intros u Hu. destruct (Forall2_In_r _ _ _ u FN Hu) as (x & _ & Hx).
        assert (u < length l) by (apply nth_error_Some; congruence). apply in_seq. lia. }
    assert (Hshape : forall nd, In nd ns -> nd = mknode (nname nd) (Some [nname nd])).
    { intros nd Hnd. destruct (Forall2_In_r _ _ _ nd FN0 Hnd) as (n & _ & _ & E). exact E. }
    assert (Hclose : forall x u, In x (map nname (nodes_vec g)) ->
                                 lookup teqb x (enumerate_from 0 l) = Some u -> In u (map nname ns)).
    { intros x u Hx Hu. apply KL in Hu.
      destruct (Forall2_In_l _ _ _ x FN Hx) as (u' & Hu' & Hxu').
      rewrite (Rl x u u' Hu Hxu'). exact Hu'. }
    (* the edge list *)
    apply omapM_ok in Hes.
    assert (HE : forall e', In e' es ->
               exists e, In e (get_all_edges g2) /\ ew e' = ew e /\
                         In (eu e') (map nname ns) /\ In (ev e') (map nname ns)).
    { intros e' He'. destruct (Forall2_In_r _ _ _ e' Hes He') as (e & He & Hee). cbv beta in Hee.
      apply bind_ok in Hee. destruct Hee as (u & Hu & Hee). apply unwrap_at_ok in Hu.
      apply bind_ok in Hee. destruct Hee as (v & Hv & Hee). apply unwrap_at_ok in Hv.
      inversion Hee. subst e'. cbn [eu ev ew].
      destruct (endpoints_in_names teqb tltb teqb_spec g2 e W2 He) as (Iu & Iv).
      unfold names in Iu, Iv. rewrite Hv2, Hv1 in Iu, Iv.
      exists e. split; [exact He|]. split; [reflexivity|].
      split; [apply (Hclose (eu e) u Iu Hu)|apply (Hclose (ev e) v Iv Hv)]. }
    (* the built graph *)
    assert (Hvu : nodes_vec gu = ns).
    { apply (new_from_nodes_closed Nat.eqb Nat.ltb nat_eqb_spec ns es (sp g2) gu HndNs); [|exact H].
      intros e' He'. destruct (HE e' He') as (_ & _ & _ & Iu & Iv). split; assumption. }
    pose proof (new_from_reachable Nat.eqb Nat.ltb nat_eqb_spec ns es (sp g2) gu H) as Hreach.
    pose proof (WF_reachable Nat.eqb Nat.ltb nat_eqb_spec nat_ltb_asym nat_ltb_total _ _ Hreach) as Wu.
    pose proof (reachable_sp Nat.eqb Nat.ltb nat_eqb_spec nat_ltb_asym nat_ltb_total _ _ Hreach) as Hspu.
    split; [exact Wu|].
    split; [unfold gnames, get_all_nodes; rewrite Hvu; exact HpNs|].
    split.
    { intros u Hu. unfold attr_of.
      rewrite (get_node_spec Nat.eqb Nat.ltb nat_eqb_spec gu u Wu), Hvu.
      assert (Iu : In u (map nname ns)).
      { apply (Permutation_in _ (Permutation_sym HpNs)). apply in_seq. lia. }
      destruct (find (fun n : lnode => Nat.eqb (nname n) u) ns) as [nd|] eqn:Ef.
      - apply find_some in Ef. destruct Ef as (Hnd & E). apply Nat.eqb_eq in E.
        rewrite (Hshape nd Hnd), E. reflexivity.
      - exfalso. apply in_map_iff in Iu. destruct Iu as (nd & E & Hnd).
        pose proof (find_none _ _ Ef nd Hnd) as Hf. cbv beta in Hf. rewrite E, Nat.eqb_refl in Hf. discriminate. }
    split; [rewrite Hspu, Hs2; exact Hm1|].
    split; [rewrite Hspu, Hs2; exact Hd1|].
    split.
    { intros Hwt.
      apply (new_from_weights Nat.eqb Nat.ltb nat_eqb_spec nat_ltb_asym nat_ltb_total
               (fun w => w = Some 1%Z) ns es (sp g2) gu); [|exact H].
      intros e' He'. destruct (HE e' He') as (e & He & -> & _). apply (Hw2 Hwt e He). }
    intros Hg.
    apply (new_from_weights Nat.eqb Nat.ltb nat_eqb_spec nat_ltb_asym nat_ltb_total
             (fun w => exists z, w = Some z /\ (0 <= z)%Z) ns es (sp g2) gu); [|exact H].
    intros e' He'. destruct (HE e' He') as (e & He & -> & _).
    destruct weighted.
    - rewrite (Hg2 eq_refl) in He. apply (Hw1 Hg e He).
    - rewrite (Hw2 eq_refl e He). exists 1%Z. split; [reflexivity|lia].
  Qed.
End Convert.

(* ---- the hypotheses are satisfiable: an evaluated instance (names 3, 1, 2 become 2, 0, 1) ---- *)
Example convert_graph_runs :
  match new_from_nodes_and_edges Z.eqb Z.ltb
          [mknode 3%Z (None : option Z); mknode 1%Z None; mknode 2%Z None]
          [mkedge 3%Z 1%Z (Some 5%Z) None; mkedge 1%Z 2%Z (Some 7%Z) None]
          (mkspecs false DErr MCreate false true SErr) with
  | Ok g =>
    node_map_of Z.ltb g = [(1%Z, 0); (2%Z, 1); (3%Z, 2)] /\
    match convert_graph Z.eqb Z.ltb g false (node_map_of Z.ltb g),
          convert_graph Z.eqb Z.ltb g true (node_map_of Z.ltb g) with
    | Ok gu, Ok gw =>
      gnames gu = [2; 0; 1] /\
      map (attr_of gu) [0; 1; 2] = [[0]; [1]; [2]] /\
      map ew (get_all_edges gu) = [Some 1%Z; Some 1%Z] /\
      map (fun e : ledge => (eu e, ev e, ew e)) (get_all_edges gw) = [(0, 2, Some 5%Z); (0, 1, Some 7%Z)] /\
      convert_back (node_map_of Z.ltb g) [[[0]; [1]; [2]]; [[0; 2]; [1]]] =
        Ok [[[1]; [2]; [3]]; [[1; 3]; [2]]]%Z
    | _, _ => False
    end
  | _ => False
  end.
Proof. vm_compute. repeat split; reflexivity. Qed.
