(* C13, deepening: the aggregation step of the Louvain model (generate_graph).
   Part 1: structure of the generated graph (WF, names 0..k-1, specs, attribute sets).
   Part 2: non-negative weights are preserved.
   Part 3: the edge multiset of the generated graph is the aggregation of the old one. *)
From Coq Require Import String List Bool ZArith Arith Lia Permutation QArith.
From GV Require Import Base.Outcome Base.AMap Model.GState Model.Creation Model.Query Model.Derived
     Model.Partition Model.Louvain Spec.AGraph Spec.PartitionDef
     Proofs.AMapOk Proofs.WFDefs Proofs.WFNode Proofs.Refine Proofs.CreationNodes Proofs.QueryOk
     Proofs.AdjOk Proofs.DerivedContent Proofs.HistoryOk Proofs.DegreeOk
     Proofs.LouvainOk Proofs.MoveGainOk Proofs.LouvainSets Proofs.LouvainStructOk
     Proofs.PartitionOk Proofs.AggregationOk.
Import ListNotations.
Open Scope list_scope.
Open Scope nat_scope.

(* ---------------- the three order facts at nat ---------------- *)
Lemma neqb_spec : forall x y : nat, Nat.eqb x y = true <-> x = y.
Proof. intros. apply Nat.eqb_eq. Qed.
Lemma nltb_asym : forall x y : nat, Nat.ltb x y = true -> Nat.ltb y x = false.
Proof. intros x y H. apply Nat.ltb_lt in H. apply Nat.ltb_ge. lia. Qed.
Lemma nltb_total : forall x y : nat, Nat.ltb x y = false -> Nat.ltb y x = false -> x = y.
Proof. intros x y H1 H2. apply Nat.ltb_ge in H1. apply Nat.ltb_ge in H2. lia. Qed.

Notation WFn := (@WF nat (list nat) Nat.eqb Nat.ltb).
Notation namesn := (@names nat (list nat)).

(* ---------------- the two loop bodies of generate_graph, named ---------------- *)
Definition gg_inner (g : lgraph) (i : nat) (acc2 : list (nat * nat) * list nat) (nd : nat)
  : outcome (list (nat * nat) * list nat) :=
  let '(n2c2, nodes) := acc2 in
  do no <- unwrap_res "louvain.rs:generate_graph get_node unwrap" (get_node Nat.eqb g nd);
  do nobj <- unwrap_at "louvain.rs:generate_graph get_node unwrap" no;
  let ext := match nattr nobj with Some a => a | None => [nd] end in
  Ok (insert Nat.eqb nd i n2c2, set_union nodes ext).

Definition gg_outer (g : lgraph) (acc : lgraph * list (nat * nat)) (ip : list nat * nat)
  : outcome (lgraph * list (nat * nat)) :=
  let '(ng, n2c) := acc in
  let '(part, i) := ip in
  do r2 <- ofold (gg_inner g i) part (n2c, []);
  let '(n2c', nodes) := r2 in
  do ng' <- add_node Nat.eqb ng (mknode i (Some nodes));
  Ok (ng', n2c').

Definition gg_edge (node2com : list (nat * nat)) (ng : lgraph) (e : ledge) : outcome lgraph :=
  do c1 <- unwrap_at "louvain.rs:generate_graph node2com unwrap" (lookup Nat.eqb (eu e) node2com);
  do c2 <- unwrap_at "louvain.rs:generate_graph node2com unwrap" (lookup Nat.eqb (ev e) node2com);
  do old <- (match get_edge Nat.eqb ng c1 c2 with
             | Ok x => Ok (ew x)
             | Err _ => Ok (Some 0%Z)
             | Panic st => Panic st
             | OutOfFuel => OutOfFuel
             end);
  match add_edge Nat.eqb Nat.ltb ng (mkedge c1 c2 (wadd (ew e) old) None) with
  | (ng', Ok _) => Ok ng'
  | (_, Err _) => Panic "louvain.rs:generate_graph unexpected failure to add edge"
  | (_, Panic st) => Panic st
  | (_, OutOfFuel) => OutOfFuel
  end.

Definition gg_specs (s : specs) : specs := mkspecs (directed s) DKeepLast (ms s) (multi s) true (slf s).

Lemma generate_graph_unfold : forall (g : lgraph) I,
  generate_graph g I =
  (do r <- ofold (gg_outer g) (enumerate_from 0 I) (new (gg_specs (sp g)), []);
   let '(ng0, node2com) := r in
   ofold (gg_edge node2com) (sort_by edge_ltb (get_all_edges g)) ng0).
Proof. intros. reflexivity. Qed.

(* ---------------- phase 1, inner loop: one part ---------------- *)
Lemma gg_inner_step : forall (g : lgraph) i n2c nodes nd s1,
  gg_inner g i (n2c, nodes) nd = Ok s1 ->
  s1 = (insert Nat.eqb nd i n2c, set_union nodes (attr_of g nd)).
Proof.
  intros g i n2c nodes nd s1 H. unfold gg_inner in H.
  apply bind_ok in H. destruct H as [no [Hno H]]. apply unwrap_res_ok in Hno.
  apply bind_ok in H. destruct H as [nobj [Hnobj H]]. apply unwrap_at_ok in Hnobj. subst no.
  unfold attr_of. rewrite Hno. inversion H. reflexivity.
Qed.

Lemma gg_inner_ok : forall (g : lgraph) i part n2c nodes n2c' nodes',
  ofold (gg_inner g i) part (n2c, nodes) = Ok (n2c', nodes') ->
  NoDup nodes ->
  NoDup nodes' /\
  (forall x, In x nodes' <-> In x nodes \/ exists u, In u part /\ In x (attr_of g u)) /\
  (forall u, lookup Nat.eqb u n2c' = if mem Nat.eqb u part then Some i else lookup Nat.eqb u n2c).
Proof.
  intros g i part. induction part as [|nd t IH]; intros n2c nodes n2c' nodes' H Hnd; cbn [ofold] in H.
  - inversion H. subst. split; [exact Hnd|]. split.
    + intro x. split; [intro Hx; left; exact Hx | intros [Hx|[u [[] _]]]; exact Hx].
    + intro u. reflexivity.
  - apply bind_ok in H. destruct H as [s1 [H1 H2]]. apply gg_inner_step in H1. subst s1.
    apply IH in H2; [|apply NoDup_set_union; exact Hnd]. destruct H2 as [Hnd' [Hin Hlk]].
    split; [exact Hnd'|]. split.
    + intro x. rewrite Hin, In_set_union. split.
      * intros [[Hx|Hx]|[u [Hu Hx]]].
        -- left. exact Hx.
        -- right. exists nd. split; [left; reflexivity | exact Hx].
        -- right. exists u. split; [right; exact Hu | exact Hx].
      * intros [Hx|[u [[Hu|Hu] Hx]]].
        -- left. left. exact Hx.
        -- subst u. left. right. exact Hx.
        -- right. exists u. split; assumption.
    + intro u. rewrite Hlk. cbn [mem existsb]. fold (mem Nat.eqb u t).
      rewrite (lookup_insert Nat.eqb neqb_spec).
      destruct (mem Nat.eqb u t); [rewrite orb_true_r; reflexivity|]. rewrite orb_false_r.
      destruct (Nat.eqb u nd); reflexivity.
Qed.

(* ---------------- phase 1, outer loop: the nodes of the new graph ---------------- *)
Definition attr_rel (g : lgraph) (l : list nat) (nd : lnode) : Prop :=
  exists nodes, nattr nd = Some nodes /\ NoDup nodes /\
                forall x, In x nodes <-> exists u, In u l /\ In x (attr_of g u).

Record P1 (g : lgraph) (pre : list (list nat)) (ng : lgraph) (n2c : list (nat * nat)) : Prop := mkP1 {
  p1_wf : WFn ng;
  p1_sp : sp ng = gg_specs (sp g);
  p1_names : namesn ng = seq 0 (length pre);
  p1_edges : edges ng = [];
  p1_attr : Forall2 (attr_rel g) pre (nodes_vec ng);
  p1_n2c_a : forall u c, lookup Nat.eqb u n2c = Some c -> exists l, nth_error pre c = Some l /\ In u l;
  p1_n2c_b : forall u i l, nth_error pre i = Some l -> In u l -> exists c, lookup Nat.eqb u n2c = Some c
}.

Lemma P1_start : forall g : lgraph, P1 g [] (new (gg_specs (sp g))) [].
Proof.
  intro g. constructor.
  - apply (WF_new Nat.eqb Nat.ltb).
  - reflexivity.
  - reflexivity.
  - reflexivity.
  - constructor.
  - intros u c H. discriminate.
  - intros u i l H. destruct i; discriminate.
Qed.

Lemma gg_outer_step : forall (g : lgraph) pre ng n2c part ng1 n2c1,
  P1 g pre ng n2c ->
  gg_outer g (ng, n2c) (part, length pre) = Ok (ng1, n2c1) ->
  P1 g (pre ++ [part]) ng1 n2c1.
Proof.
  intros g pre ng n2c part ng1 n2c1 HP H. destruct HP as [W Hsp Hnm Hed Hat Ha Hb].
  unfold gg_outer in H. apply bind_ok in H. destruct H as [[n2c' nodes] [Hin H]].
  apply bind_ok in H. destruct H as [ng' [Hadd H]]. inversion H. subst ng' n2c'. clear H.
  destruct (gg_inner_ok g (length pre) part n2c [] n2c1 nodes Hin (NoDup_nil _)) as [Hnd [Hmem Hlk]].
  assert (Hfresh : ~ In (nname (mknode (length pre) (Some nodes))) (namesn ng)).
  { rewrite Hnm. cbn [nname]. rewrite in_seq. lia. }
  destruct (WFNode.add_node_fresh Nat.eqb Nat.ltb neqb_spec ng _ W Hfresh)
    as [g' [E [W' [Hnm' [Hed' [Hsp' [Hv' _]]]]]]].
  rewrite E in Hadd. inversion Hadd. subst g'. clear Hadd.
  constructor.
  - exact W'.
  - rewrite Hsp'. exact Hsp.
  - rewrite Hnm', Hnm. cbn [nname]. rewrite app_length. cbn [length]. rewrite Nat.add_1_r, seq_S. reflexivity.
  - rewrite Hed'. exact Hed.
  - rewrite Hv'. apply Forall2_app; [exact Hat|]. constructor; [|constructor].
    exists nodes. split; [reflexivity|]. split; [exact Hnd|].
    intro x. rewrite Hmem. cbn [In]. tauto.
  - intros u c Hc. rewrite Hlk in Hc. destruct (mem Nat.eqb u part) eqn:Em.
    + inversion Hc. subst c. exists part. split; [apply nth_error_app_last | apply mem_nat_In; exact Em].
    + destruct (Ha u c Hc) as [l [Hl Hu]]. exists l. split; [|exact Hu].
      rewrite nth_error_app1; [exact Hl|]. apply nth_error_Some. congruence.
  - intros u i l Hi Hu. rewrite Hlk. destruct (mem Nat.eqb u part) eqn:Em; [eauto|].
    destruct (Nat.lt_ge_cases i (length pre)) as [Hlt|Hge].
    + rewrite nth_error_app1 in Hi by exact Hlt. exact (Hb u i l Hi Hu).
    + rewrite nth_error_app2 in Hi by exact Hge. destruct (i - length pre) as [|j] eqn:Ej.
      * cbn in Hi. inversion Hi. subst l. apply mem_nat_In in Hu. congruence.
      * cbn in Hi. destruct j; discriminate.
Qed.

Lemma gg_outer_ok : forall (g : lgraph) rest pre ng n2c ng' n2c',
  P1 g pre ng n2c ->
  ofold (gg_outer g) (enumerate_from (length pre) rest) (ng, n2c) = Ok (ng', n2c') ->
  P1 g (pre ++ rest) ng' n2c'.
Proof.
  intros g rest. induction rest as [|part t IH]; intros pre ng n2c ng' n2c' HP H;
    cbn [enumerate_from ofold] in H.
  - inversion H. subst. rewrite app_nil_r. exact HP.
  - apply bind_ok in H. destruct H as [[ng1 n2c1] [H1 H2]].
    pose proof (gg_outer_step g pre ng n2c part ng1 n2c1 HP H1) as HP1.
    replace (pre ++ part :: t) with ((pre ++ [part]) ++ t) by (rewrite <- app_assoc; reflexivity).
    apply (IH (pre ++ [part]) ng1 n2c1); [exact HP1|].
    rewrite app_length. cbn [length]. rewrite Nat.add_1_r. exact H2.
Qed.

(* ---------------- phase 2: one accumulated edge ---------------- *)
Lemma gg_edge_step : forall n2c (ng : lgraph) (e : ledge) ng',
  WFn ng -> (forall u c, lookup Nat.eqb u n2c = Some c -> In c (namesn ng)) ->
  gg_edge n2c ng e = Ok ng' ->
  exists c1 c2 old,
    lookup Nat.eqb (eu e) n2c = Some c1 /\ lookup Nat.eqb (ev e) n2c = Some c2 /\
    ((old = Some 0%Z /\ exists k, get_edge Nat.eqb ng c1 c2 = Err k) \/
     (exists x, get_edge Nat.eqb ng c1 c2 = Ok x /\ old = ew x)) /\
    add_edge Nat.eqb Nat.ltb ng (mkedge c1 c2 (wadd (ew e) old) None) = (ng', Ok tt) /\
    WFn ng' /\ sp ng' = sp ng /\ nodes_vec ng' = nodes_vec ng.
Proof.
  intros n2c ng e ng' W Hn2c H. unfold gg_edge in H.
  apply bind_ok in H. destruct H as [c1 [H1 H]]. apply unwrap_at_ok in H1.
  apply bind_ok in H. destruct H as [c2 [H2 H]]. apply unwrap_at_ok in H2.
  apply bind_ok in H. destruct H as [old [Hold H]].
  exists c1, c2, old. split; [exact H1|]. split; [exact H2|].
  split.
  { destruct (get_edge Nat.eqb ng c1 c2) as [x|k|st|] eqn:Eg; try discriminate.
    - right. exists x. split; [reflexivity|]. inversion Hold. reflexivity.
    - left. inversion Hold. split; [reflexivity|]. exists k. reflexivity. }
  set (e' := mkedge c1 c2 (wadd (ew e) old) (None : option (list nat))) in *.
  pose proof (add_edge_refines Nat.eqb Nat.ltb neqb_spec nltb_asym nltb_total ng e' W)
    as [W' [_ [Hsp [_ [_ _]]]]].
  assert (Hu : has_name Nat.eqb ng (eu e') = true).
  { apply (has_name_In Nat.eqb Nat.ltb ng _ W). cbn [e' eu]. exact (Hn2c _ _ H1). }
  assert (Hv : has_name Nat.eqb ng (ev e') = true).
  { apply (has_name_In Nat.eqb Nat.ltb ng _ W). cbn [e' ev]. exact (Hn2c _ _ H2). }
  destruct (add_edge_closed Nat.eqb Nat.ltb ng e' Hu Hv) as [Hvec _].
  destruct (add_edge Nat.eqb Nat.ltb ng e') as [ng'' r] eqn:Ea. cbn [fst] in *.
  destruct r as [[]|k|st|]; try discriminate. inversion H. subst ng''.
  split; [reflexivity|]. split; [exact W'|]. split; [exact Hsp | exact Hvec].
Qed.

(* the invariant of phase 2 that part 1 needs *)
Lemma gg_edges_struct : forall n2c (es : list ledge) (ng0 ng' : lgraph),
  WFn ng0 -> (forall u c, lookup Nat.eqb u n2c = Some c -> In c (namesn ng0)) ->
  ofold (gg_edge n2c) es ng0 = Ok ng' ->
  WFn ng' /\ sp ng' = sp ng0 /\ nodes_vec ng' = nodes_vec ng0.
Proof.
  intros n2c es ng0 ng' W0 Hn2c H.
  apply (ofold_inv (fun ng : lgraph => WFn ng /\ sp ng = sp ng0 /\ nodes_vec ng = nodes_vec ng0)
                   (gg_edge n2c) es) with (s := ng0); [| |exact H].
  - intros ng e ng1 _ [W [Hsp Hvec]] Hstep.
    assert (Hn : forall u c, lookup Nat.eqb u n2c = Some c -> In c (namesn ng)).
    { intros u c Hc. unfold names. rewrite Hvec. exact (Hn2c u c Hc). }
    destruct (gg_edge_step n2c ng e ng1 W Hn Hstep) as [c1 [c2 [old [_ [_ [_ [_ [W1 [Hsp1 Hvec1]]]]]]]]].
    split; [exact W1|]. split; congruence.
  - split; [exact W0|]. split; reflexivity.
Qed.

(* ---------------- reading a node back by its position ---------------- *)
Lemma find_by_name_nth : forall (l : list lnode) i nd,
  NoDup (map nname l) -> nth_error l i = Some nd ->
  find (fun n => Nat.eqb (nname n) (nname nd)) l = Some nd.
Proof.
  intro l. induction l as [|h t IH]; intros i nd Hnd Hi; [destruct i; discriminate|].
  cbn [map] in Hnd. inversion Hnd as [|? ? Hni Hnd']. subst. cbn [find]. destruct i as [|i]; cbn [nth_error] in Hi.
  - inversion Hi. subst h. rewrite Nat.eqb_refl. reflexivity.
  - destruct (Nat.eqb (nname h) (nname nd)) eqn:E.
    + exfalso. apply Nat.eqb_eq in E. apply Hni. rewrite E. apply in_map. eapply nth_error_In. exact Hi.
    + exact (IH i nd Hnd' Hi).
Qed.

Lemma Forall2_nth_l : forall {X Y} (R : X -> Y -> Prop) a b i x,
  Forall2 R a b -> nth_error a i = Some x -> exists y, nth_error b i = Some y /\ R x y.
Proof.
  intros X Y R a b i x H. revert i. induction H as [|x0 y0 t u Hxy Htu IH]; intros [|i] Hi; cbn in *; try discriminate.
  - inversion Hi. subst. eauto.
  - exact (IH i Hi).
Qed.

Lemma nth_error_seq0 : forall n i x, nth_error (seq 0 n) i = Some x -> x = i.
Proof.
  intros n i x H. assert (Hi : i < n).
  { rewrite <- (seq_length n 0). apply nth_error_Some. congruence. }
  rewrite (nth_error_nth' (seq 0 n) 0) in H by (rewrite seq_length; exact Hi).
  rewrite seq_nth in H by exact Hi. inversion H. reflexivity.
Qed.

(* ---------------- both phases together ---------------- *)
Lemma generate_graph_phases : forall (g : lgraph) I g2,
  generate_graph g I = Ok g2 ->
  exists ng0 n2c, P1 g I ng0 n2c /\
    ofold (gg_edge n2c) (sort_by edge_ltb (get_all_edges g)) ng0 = Ok g2.
Proof.
  intros g I g2 H. rewrite generate_graph_unfold in H.
  apply bind_ok in H. destruct H as [[ng0 n2c] [H1 H2]].
  exists ng0, n2c. split; [|exact H2].
  exact (gg_outer_ok g I [] _ _ ng0 n2c (P1_start g) H1).
Qed.

Lemma P1_n2c_names : forall g I ng0 n2c, P1 g I ng0 n2c ->
  forall u c, lookup Nat.eqb u n2c = Some c -> In c (namesn ng0).
Proof.
  intros g I ng0 n2c HP u c Hc. rewrite (p1_names _ _ _ _ HP). apply in_seq.
  destruct (p1_n2c_a _ _ _ _ HP u c Hc) as [l [Hl _]].
  assert (c < length I) by (apply nth_error_Some; congruence). lia.
Qed.

Theorem generate_graph_struct : forall (g : lgraph) (I : list (list nat)) (g2 : lgraph),
  generate_graph g I = Ok g2 ->
  WF Nat.eqb Nat.ltb g2 /\
  gnames g2 = seq 0 (length I) /\
  sp g2 = mkspecs (directed (sp g)) DKeepLast (ms (sp g)) (multi (sp g)) true (slf (sp g)) /\
  forall i l, nth_error I i = Some l ->
    NoDup (attr_of g2 i) /\
    forall x, In x (attr_of g2 i) <-> exists u, In u l /\ In x (attr_of g u).
Proof.
  intros g I g2 H. destruct (generate_graph_phases g I g2 H) as [ng0 [n2c [HP H2]]].
  destruct (gg_edges_struct n2c _ ng0 g2 (p1_wf _ _ _ _ HP) (P1_n2c_names _ _ _ _ HP) H2) as [W2 [Hsp2 Hvec2]].
  assert (Hnames : gnames g2 = seq 0 (length I)).
  { unfold gnames, get_all_nodes. rewrite Hvec2. exact (p1_names _ _ _ _ HP). }
  split; [exact W2|]. split; [exact Hnames|]. split.
  { rewrite Hsp2. exact (p1_sp _ _ _ _ HP). }
  intros i l Hi.
  destruct (Forall2_nth_l _ _ _ i l (p1_attr _ _ _ _ HP) Hi) as [nd [Hnd [nodes [Hattr [Hnodup Hmem]]]]].
  rewrite <- Hvec2 in Hnd.
  assert (Hname : nname nd = i).
  { apply (nth_error_seq0 (length I)). rewrite <- Hnames. unfold gnames, get_all_nodes.
    rewrite nth_error_map, Hnd. reflexivity. }
  assert (Hget : get_node Nat.eqb g2 i = Ok (Some nd)).
  { rewrite (get_node_spec Nat.eqb Nat.ltb neqb_spec g2 i W2). f_equal. rewrite <- Hname.
    apply (find_by_name_nth _ i); [|exact Hnd].
    change (map nname (nodes_vec g2)) with (gnames g2). rewrite Hnames. apply seq_NoDup. }
  unfold attr_of. rewrite Hget, Hattr. split; [exact Hnodup | exact Hmem].
Qed.

(* ================= Part 2: the edges of the generated graph ================= *)
Notation canonn := (@canon nat (list nat) Nat.ltb).
Notation same_pairn := (@same_pair nat (list nat) Nat.eqb).

Lemma filter_id : forall {X} (f : X -> bool) l, (forall x, In x l -> f x = true) -> filter f l = l.
Proof.
  intros X f l. induction l as [|h t IH]; intro H; cbn [filter]; [reflexivity|].
  rewrite (H h (or_introl eq_refl)). f_equal. apply IH. intros x Hx. apply H. right. exact Hx.
Qed.

Lemma spec_add_edge_known : forall (a : agraph nat (list nat)) (e : ledge),
  a_has Nat.eqb a (eu e) = true -> a_has Nat.eqb a (ev e) = true ->
  selfloops (a_sp a) = true -> dd (a_sp a) = DKeepLast ->
  spec_add_edge Nat.eqb Nat.ltb a e =
  (mka (a_sp a) (a_nodes a)
       ((if multi (a_sp a) then a_edges a
         else filter (fun x => negb (same_pairn (canonn (a_sp a) e) x)) (a_edges a))
        ++ [canonn (a_sp a) e]), Ok tt).
Proof.
  intros a e Hu Hv Hsl Hdd. unfold spec_add_edge. rewrite Hsl, Hu, Hv. cbn [negb andb].
  rewrite andb_false_r. unfold ensure_node. rewrite Hu, Hv.
  destruct (multi (a_sp a)); [reflexivity|].
  destruct (existsb (same_pairn (canonn (a_sp a) e)) (a_edges a)) eqn:Ex.
  - rewrite Hdd. reflexivity.
  - rewrite filter_id; [reflexivity|]. intros x Hx.
    destruct (same_pairn (canonn (a_sp a) e) x) eqn:E; [|reflexivity].
    exfalso. assert (Ht : existsb (same_pairn (canonn (a_sp a) e)) (a_edges a) = true).
    { apply existsb_exists. exists x. split; assumption. }
    congruence.
Qed.

Lemma add_edge_known_edges : forall (ng ng' : lgraph) (e' : ledge),
  WFn ng -> In (eu e') (namesn ng) -> In (ev e') (namesn ng) ->
  selfloops (sp ng) = true -> dd (sp ng) = DKeepLast ->
  add_edge Nat.eqb Nat.ltb ng e' = (ng', Ok tt) ->
  Permutation (get_all_edges ng')
    ((if multi (sp ng) then get_all_edges ng
      else filter (fun x => negb (same_pairn (canonn (sp ng) e') x)) (get_all_edges ng))
     ++ [canonn (sp ng) e']).
Proof.
  intros ng ng' e' W Hu Hv Hsl Hdd Ha.
  pose proof (add_edge_refines Nat.eqb Nat.ltb neqb_spec nltb_asym nltb_total ng e' W)
    as [_ [_ [_ [_ [HP _]]]]].
  rewrite Ha in HP. cbn [fst] in HP.
  rewrite spec_add_edge_known in HP.
  - cbn [fst a_edges a_sp Abs] in HP. exact HP.
  - apply (a_has_names Nat.eqb neqb_spec). exact Hu.
  - apply (a_has_names Nat.eqb neqb_spec). exact Hv.
  - exact Hsl.
  - exact Hdd.
Qed.

Lemma get_edge_In : forall (ng : lgraph) c1 c2 x,
  WFn ng -> get_edge Nat.eqb ng c1 c2 = Ok x -> In x (get_all_edges ng).
Proof.
  intros ng c1 c2 x W H.
  rewrite (get_edge_spec Nat.eqb Nat.ltb neqb_spec nltb_asym nltb_total ng c1 c2 W) in H.
  destruct (multi (sp ng)); [discriminate|].
  destruct (_ || _); [discriminate|].
  destruct (stored_between Nat.eqb Nat.ltb ng c1 c2) as [|h t] eqn:E; [discriminate|].
  inversion H. subst h.
  assert (Hin : In x (stored_between Nat.eqb Nat.ltb ng c1 c2)) by (rewrite E; left; reflexivity).
  unfold stored_between in Hin. apply filter_In in Hin. exact (proj1 Hin).
Qed.

Lemma canon_ew : forall s (e : ledge), ew (canonn s e) = ew e.
Proof. intros s e. unfold canon. destruct (_ && _); reflexivity. Qed.

Definition nonneg_w (e : ledge) : Prop := exists z, ew e = Some z /\ (0 <= z)%Z.

Theorem generate_graph_weights : forall (g : lgraph) I g2,
  WF Nat.eqb Nat.ltb g -> generate_graph g I = Ok g2 ->
  (forall e, In e (get_all_edges g) -> exists z, ew e = Some z /\ (0 <= z)%Z) ->
  (forall e, In e (get_all_edges g2) -> exists z, ew e = Some z /\ (0 <= z)%Z).
Proof.
  intros g I g2 _ H Hg. destruct (generate_graph_phases g I g2 H) as [ng0 [n2c [HP H2]]].
  pose proof (P1_n2c_names _ _ _ _ HP) as Hn2c.
  assert (Hinv : WFn g2 /\ sp g2 = gg_specs (sp g) /\ nodes_vec g2 = nodes_vec ng0 /\
                 forall e, In e (get_all_edges g2) -> nonneg_w e).
  { apply (ofold_inv (fun ng : lgraph => WFn ng /\ sp ng = gg_specs (sp g) /\ nodes_vec ng = nodes_vec ng0 /\
                                         forall e, In e (get_all_edges ng) -> nonneg_w e)
                     (gg_edge n2c) _) with (s := ng0) (3 := H2).
    - intros ng e ng1 He [W [Hsp [Hvec Hw]]] Hstep.
      assert (Hn : forall u c, lookup Nat.eqb u n2c = Some c -> In c (namesn ng)).
      { intros u c Hc. unfold names. rewrite Hvec. exact (Hn2c u c Hc). }
      destruct (gg_edge_step n2c ng e ng1 W Hn Hstep)
        as [c1 [c2 [old [Hc1 [Hc2 [Hold [Hadd [W1 [Hsp1 Hvec1]]]]]]]]].
      split; [exact W1|]. split; [congruence|]. split; [congruence|].
      pose proof (add_edge_known_edges ng ng1 (mkedge c1 c2 (wadd (ew e) old) None) W
                    (Hn _ _ Hc1) (Hn _ _ Hc2)) as HPm.
      rewrite Hsp in HPm. specialize (HPm eq_refl eq_refl Hadd).
      intros x Hx. apply (Permutation_in _ HPm) in Hx. apply in_app_iff in Hx. destruct Hx as [Hx|[Hx|[]]].
      + apply Hw. destruct (multi (gg_specs (sp g))); [exact Hx|]. apply filter_In in Hx. exact (proj1 Hx).
      + subst x. unfold nonneg_w. rewrite canon_ew. cbn [ew].
        apply sort_by_In in He. destruct (Hg e He) as [z [Ez Hz]]. rewrite Ez.
        destruct Hold as [[Eo _]|[y [Ey Eo]]].
        * subst old. cbn [wadd]. exists (z + 0)%Z. split; [reflexivity | lia].
        * apply get_edge_In in Ey; [|exact W]. destruct (Hw y Ey) as [z' [Ez' Hz']].
          rewrite Eo, Ez'. cbn [wadd]. exists (z + z')%Z. split; [reflexivity | lia].
    - split; [exact (p1_wf _ _ _ _ HP)|]. split; [exact (p1_sp _ _ _ _ HP)|]. split; [reflexivity|].
      intros e He. unfold get_all_edges in He. rewrite (p1_edges _ _ _ _ HP) in He. destruct He. }
  exact (proj2 (proj2 (proj2 Hinv))).
Qed.

(* ================= Part 3: the edge multiset is the aggregation ================= *)
Definition qw (e : ledge) : Q := match ew e with Some z => inject_Z z | None => 0%Q end.

(* the weight of the stored edges whose end points satisfy [q] *)
Fixpoint esel (q : nat -> nat -> bool) (E : list ledge) : Q :=
  match E with
  | [] => 0%Q
  | e :: t => ((if q (eu e) (ev e) then qw e else 0) + esel q t)%Q
  end.

Lemma esel_app : forall q a b, (esel q (a ++ b) == esel q a + esel q b)%Q.
Proof.
  intros q a b. induction a as [|e t IH]; cbn [app esel]; [ring|]. rewrite IH. ring.
Qed.

Lemma esel_perm : forall q a b, Permutation a b -> (esel q a == esel q b)%Q.
Proof.
  intros q a b HP. induction HP as [|x l l' HP IH|x y l|l l' l'' HP1 IH1 HP2 IH2]; cbn [esel].
  - reflexivity.
  - rewrite IH. reflexivity.
  - ring.
  - rewrite IH1. exact IH2.
Qed.

Lemma esel_split : forall q (f : ledge -> bool) E,
  (esel q E == esel q (filter f E) + esel q (filter (fun x => negb (f x)) E))%Q.
Proof.
  intros q f E. induction E as [|e t IH]; cbn [filter esel]; [ring|].
  destruct (f e); cbn [negb esel]; rewrite IH; ring.
Qed.

Lemma canon_cn : forall s (e : ledge),
  (eu (canonn s e), ev (canonn s e)) = cn Nat.ltb s (eu e) (ev e).
Proof. intros s e. unfold canon, cn. destruct (_ && _); reflexivity. Qed.

Definition SomeW (ng : lgraph) : Prop := forall x, In x (get_all_edges ng) -> ew x <> None.

Lemma In_names_existsb : forall (ng : lgraph) c, In c (namesn ng) ->
  existsb (fun n : lnode => Nat.eqb (nname n) c) (nodes_vec ng) = true.
Proof.
  intros ng c H. unfold names in H. apply in_map_iff in H. destruct H as [n [En Hn]].
  apply existsb_exists. exists n. split; [exact Hn | apply Nat.eqb_eq; exact En].
Qed.

Definition qo (w : weight) : Q := match w with Some z => inject_Z z | None => 0%Q end.

Lemma qw_wadd : forall (c e : ledge) old, ew c = wadd (ew e) old -> ew e <> None -> old <> None ->
  (qw c == qw e + qo old)%Q /\ ew c <> None.
Proof.
  intros c e old Hc Ha Hb. unfold qw. rewrite Hc. destruct (ew e) as [x|]; [|congruence].
  destruct old as [y|]; [|congruence]. cbn [wadd qo]. split; [rewrite inject_Z_plus; reflexivity | discriminate].
Qed.

Lemma gg_edge_esel : forall q (ng ng1 : lgraph) (e : ledge) c1 c2 old,
  WFn ng -> selfloops (sp ng) = true -> dd (sp ng) = DKeepLast ->
  In c1 (namesn ng) -> In c2 (namesn ng) -> SomeW ng -> ew e <> None ->
  ((old = Some 0%Z /\ exists k, get_edge Nat.eqb ng c1 c2 = Err k) \/
   (exists x, get_edge Nat.eqb ng c1 c2 = Ok x /\ old = ew x)) ->
  add_edge Nat.eqb Nat.ltb ng (mkedge c1 c2 (wadd (ew e) old) None) = (ng1, Ok tt) ->
  SomeW ng1 /\
  (esel q (get_all_edges ng1) ==
   (if q (fst (cn Nat.ltb (sp ng) c1 c2)) (snd (cn Nat.ltb (sp ng) c1 c2)) then qw e else 0)
   + esel q (get_all_edges ng))%Q.
Proof.
  intros q ng ng1 e c1 c2 old W Hsl Hdd Hc1 Hc2 HS Hwe Hold Hadd.
  pose proof (add_edge_known_edges ng ng1 (mkedge c1 c2 (wadd (ew e) old) None) W Hc1 Hc2 Hsl Hdd Hadd) as HPm.
  set (c := canonn (sp ng) (mkedge c1 c2 (wadd (ew e) old) None)) in *.
  assert (Hkc : (eu c, ev c) = cn Nat.ltb (sp ng) c1 c2) by (apply (canon_cn (sp ng) (mkedge c1 c2 _ None))).
  assert (Hwc : ew c = wadd (ew e) old) by (apply (canon_ew (sp ng) (mkedge c1 c2 _ None))).
  set (k := cn Nat.ltb (sp ng) c1 c2) in *.
  assert (Hu : eu c = fst k) by (rewrite <- Hkc; reflexivity).
  assert (Hv : ev c = snd k) by (rewrite <- Hkc; reflexivity).
  destruct (multi (sp ng)) eqn:Em.
  - (* multi-edge graph: get_edge fails, the edge is appended *)
    assert (Hge : get_edge Nat.eqb ng c1 c2 = Err WrongMethod) by (unfold get_edge; rewrite Em; reflexivity).
    assert (Eo : old = Some 0%Z).
    { destruct Hold as [[Eo _]|[x [Ex _]]]; [exact Eo | congruence]. }
    destruct (qw_wadd c e old Hwc Hwe) as [Hq Hn]; [rewrite Eo; discriminate|].
    split.
    + intros x Hx. apply (Permutation_in _ HPm) in Hx. apply in_app_iff in Hx.
      destruct Hx as [Hx|[Hx|[]]]; [exact (HS x Hx)|]. subst x. exact Hn.
    + rewrite (esel_perm q _ _ HPm), esel_app. cbn [esel]. rewrite Hu, Hv.
      rewrite Eo in Hq. cbn [qo] in Hq.
      destruct (q (fst k) (snd k)); [rewrite Hq|]; ring.
  - (* simple graph: the stored edge between c1 and c2, if any, is replaced *)
    pose proof (get_edge_spec Nat.eqb Nat.ltb neqb_spec nltb_asym nltb_total ng c1 c2 W) as Hge.
    rewrite Em, (In_names_existsb ng c1 Hc1), (In_names_existsb ng c2 Hc2) in Hge. cbn [negb orb] in Hge.
    assert (Hfil : filter (same_pairn c) (get_all_edges ng) = stored_between Nat.eqb Nat.ltb ng c1 c2).
    { unfold stored_between. fold k. apply filter_ext. intro x. unfold same_pair, keyb, peqb. cbn [fst snd].
      rewrite Hu, Hv, (Nat.eqb_sym (fst k)), (Nat.eqb_sym (snd k)). reflexivity. }
    pose proof (esel_split q (same_pairn c) (get_all_edges ng)) as Hsplit. rewrite Hfil in Hsplit.
    pose proof (stored_between_group Nat.eqb Nat.ltb neqb_spec ng c1 c2 W) as Hgrp. fold k in Hgrp.
    assert (Hsb_in : forall x, In x (stored_between Nat.eqb Nat.ltb ng c1 c2) ->
                               In x (get_all_edges ng) /\ eu x = fst k /\ ev x = snd k).
    { intros x Hx. unfold stored_between in Hx. fold k in Hx. apply filter_In in Hx. destruct Hx as [Hx Hk].
      split; [exact Hx|]. unfold keyb, peqb in Hk. cbn [fst snd] in Hk. apply andb_true_iff in Hk.
      destruct Hk as [K1 K2]. apply Nat.eqb_eq in K1. apply Nat.eqb_eq in K2. split; assumption. }
    destruct (stored_between Nat.eqb Nat.ltb ng c1 c2) as [|x t] eqn:Esb.
    + assert (Eo : old = Some 0%Z).
      { destruct Hold as [[Eo _]|[x [Ex _]]]; [exact Eo | congruence]. }
      destruct (qw_wadd c e old Hwc Hwe) as [Hq Hn]; [rewrite Eo; discriminate|].
      split.
      * intros x Hx. apply (Permutation_in _ HPm) in Hx. apply in_app_iff in Hx.
        destruct Hx as [Hx|[Hx|[]]]; [apply filter_In in Hx; exact (HS x (proj1 Hx))|].
        subst x. exact Hn.
      * rewrite (esel_perm q _ _ HPm), esel_app. cbn [esel]. rewrite Hu, Hv.
        rewrite Eo in Hq. cbn [qo] in Hq. rewrite Hsplit. cbn [esel].
        destruct (q (fst k) (snd k)); [rewrite Hq|]; ring.
    + assert (Et : t = []).
      { destruct (group Nat.eqb ng k) as [l|] eqn:Eg; [|discriminate].
        destruct (wf_egroup _ _ _ W _ _ Eg) as (_ & _ & _ & _ & _ & Hlen & _).
        specialize (Hlen Em). subst l. cbn [length] in Hlen. destruct t; [reflexivity | discriminate]. }
      subst t.
      destruct (Hsb_in x (or_introl eq_refl)) as [Hxin [Hxu Hxv]].
      assert (Eo : old = ew x).
      { destruct Hold as [[_ [k0 Ek]]|[y [Ey Eo]]]; [congruence|]. rewrite Hge in Ey. inversion Ey. subst y. exact Eo. }
      destruct (qw_wadd c e old Hwc Hwe) as [Hq Hn]; [rewrite Eo; exact (HS x Hxin)|].
      split.
      * intros y Hy. apply (Permutation_in _ HPm) in Hy. apply in_app_iff in Hy.
        destruct Hy as [Hy|[Hy|[]]]; [apply filter_In in Hy; exact (HS y (proj1 Hy))|].
        subst y. exact Hn.
      * rewrite (esel_perm q _ _ HPm), esel_app. cbn [esel]. rewrite Hu, Hv.
        rewrite Eo in Hq. change (qo (ew x)) with (qw x) in Hq. rewrite Hsplit. cbn [esel]. rewrite Hxu, Hxv.
        destruct (q (fst k) (snd k)); [rewrite Hq|]; ring.
Qed.

(* the relabelled edge in storage orientation *)
Definition relab_edge (s : specs) (com : nat -> nat) (e : ledge) : ledge :=
  canonn s (mkedge (com (eu e)) (com (ev e)) (ew e) None).

Lemma gg_edges_esel : forall q (g : lgraph) (com : nat -> nat) n2c (ng0 : lgraph),
  (forall u c, lookup Nat.eqb u n2c = Some c -> In c (namesn ng0)) ->
  (forall u c, lookup Nat.eqb u n2c = Some c -> com u = c) ->
  forall (es : list ledge) (ng ng' : lgraph),
  WFn ng -> sp ng = gg_specs (sp g) -> nodes_vec ng = nodes_vec ng0 -> SomeW ng ->
  (forall e, In e es -> ew e <> None) ->
  ofold (gg_edge n2c) es ng = Ok ng' ->
  SomeW ng' /\
  (esel q (get_all_edges ng') ==
   esel q (map (relab_edge (gg_specs (sp g)) com) es) + esel q (get_all_edges ng))%Q.
Proof.
  intros q g com n2c ng0 Hn2c Hcom es. induction es as [|e t IH]; intros ng ng' W Hsp Hvec HS Hw H;
    cbn [ofold] in H.
  - inversion H. subst ng'. split; [exact HS|]. cbn [map esel]. ring.
  - apply bind_ok in H. destruct H as [ng1 [Hstep H]].
    assert (Hn : forall u c, lookup Nat.eqb u n2c = Some c -> In c (namesn ng)).
    { intros u c Hc. unfold names. rewrite Hvec. exact (Hn2c u c Hc). }
    destruct (gg_edge_step n2c ng e ng1 W Hn Hstep)
      as [c1 [c2 [old [Hc1 [Hc2 [Hold [Hadd [W1 [Hsp1 Hvec1]]]]]]]]].
    assert (Hsl : selfloops (sp ng) = true) by (rewrite Hsp; reflexivity).
    assert (Hdd : dd (sp ng) = DKeepLast) by (rewrite Hsp; reflexivity).
    destruct (gg_edge_esel q ng ng1 e c1 c2 old W Hsl Hdd (Hn _ _ Hc1) (Hn _ _ Hc2) HS
                           (Hw e (or_introl eq_refl)) Hold Hadd) as [HS1 Hq1].
    destruct (IH ng1 ng' W1 (eq_trans Hsp1 Hsp) (eq_trans Hvec1 Hvec) HS1
                 (fun x Hx => Hw x (or_intror Hx)) H) as [HS' Hq'].
    split; [exact HS'|]. rewrite Hq', Hq1. cbn [map esel].
    assert (Hk : (eu (relab_edge (gg_specs (sp g)) com e), ev (relab_edge (gg_specs (sp g)) com e))
                 = cn Nat.ltb (sp ng) c1 c2).
    { unfold relab_edge. rewrite canon_cn. cbn [eu ev]. rewrite Hsp, (Hcom _ _ Hc1), (Hcom _ _ Hc2). reflexivity. }
    assert (Hu : eu (relab_edge (gg_specs (sp g)) com e) = fst (cn Nat.ltb (sp ng) c1 c2)) by (rewrite <- Hk; reflexivity).
    assert (Hv : ev (relab_edge (gg_specs (sp g)) com e) = snd (cn Nat.ltb (sp ng) c1 c2)) by (rewrite <- Hk; reflexivity).
    rewrite Hu, Hv.
    assert (Hqw : qw (relab_edge (gg_specs (sp g)) com e) = qw e).
    { unfold qw, relab_edge. rewrite canon_ew. reflexivity. }
    rewrite Hqw. ring.
Qed.

Notation wedgeN := (@wedge nat).

Lemma wedges_some_w : forall (E : list ledge) ws, wedges_of true E = Some ws ->
  forall e, In e E -> ew e <> None.
Proof.
  intro E. induction E as [|h t IH]; intros ws H e He; [destruct He|]. cbn [wedges_of wedge_of] in H.
  destruct (ew h) as [z|] eqn:Eh; [|discriminate].
  destruct (wedges_of true t) as [r|] eqn:Et; [|discriminate].
  destruct He as [He|He]; [subst h; congruence | exact (IH r eq_refl e He)].
Qed.

Lemma esel_wedges : forall (p : wedgeN -> bool) (E : list ledge) ws,
  ends_only p -> wedges_of true E = Some ws ->
  (wsel p ws == esel (fun u v => p (u, v, 0%Q)) E)%Q.
Proof.
  intros p E. induction E as [|h t IH]; intros ws Hp H; cbn [wedges_of wedge_of] in H.
  - inversion H. reflexivity.
  - destruct (ew h) as [z|] eqn:Eh; [|discriminate].
    destruct (wedges_of true t) as [r|] eqn:Et; [|discriminate]. inversion H. subst ws.
    rewrite (@wsel_cons nat). cbn [esel]. rewrite <- (IH r Hp eq_refl).
    assert (Hpe : p (eu h, ev h, inject_Z z) = p (eu h, ev h, 0%Q)) by (apply Hp; reflexivity).
    rewrite Hpe. unfold qw. rewrite Eh. cbn [ww snd]. destruct (p (eu h, ev h, 0%Q)); ring.
Qed.

Lemma esel_relab_wedges : forall (p : wedgeN -> bool) s (com : nat -> nat) (E : list ledge) ws,
  ends_only p -> wedges_of true E = Some ws ->
  (wsel p (map (canon_e (negb (directed s))) (map (relabel com) ws))
   == esel (fun u v => p (u, v, 0%Q)) (map (relab_edge s com) E))%Q.
Proof.
  intros p s com E. induction E as [|h t IH]; intros ws Hp H; cbn [wedges_of wedge_of] in H.
  - inversion H. reflexivity.
  - destruct (ew h) as [z|] eqn:Eh; [|discriminate].
    destruct (wedges_of true t) as [r|] eqn:Et; [|discriminate]. inversion H. subst ws.
    cbn [map]. rewrite (@wsel_cons nat). cbn [esel]. rewrite <- (IH r Hp eq_refl).
    unfold relab_edge, canon, canon_e, relabel, qw. cbn [wu wv ww fst snd eu ev ew].
    destruct (negb (directed s) && Nat.ltb (com (ev h)) (com (eu h)));
      cbn [a_reversed wu wv ww fst snd eu ev ew]; rewrite Eh.
    + assert (Hpe : p (com (ev h), com (eu h), inject_Z z) = p (com (ev h), com (eu h), 0%Q)) by (apply Hp; reflexivity).
      rewrite Hpe. destruct (p (com (ev h), com (eu h), 0%Q)); ring.
    + assert (Hpe : p (com (eu h), com (ev h), inject_Z z) = p (com (eu h), com (ev h), 0%Q)) by (apply Hp; reflexivity).
      rewrite Hpe. destruct (p (com (eu h), com (ev h), 0%Q)); ring.
Qed.

(* Newman's selections of the generated graph are those of the relabelled (and canonically
   oriented) edge list of the old graph: g2 carries exactly the aggregated edge weights.
   Neither WF g nor simplicity of g is needed: on a multi-edge graph get_edge fails with
   WrongMethod and every relabelled edge is appended on its own. *)
Theorem generate_graph_aggregates : forall (g : lgraph) I g2 (com : nat -> nat) es es2,
  generate_graph g I = Ok g2 ->
  (forall i l u, nth_error I i = Some l -> In u l -> com u = i) ->
  wedges_of true (get_all_edges g) = Some es ->
  wedges_of true (get_all_edges g2) = Some es2 ->
  forall p, ends_only p ->
    (wsel p es2 == wsel p (map (canon_e (negb (directed (sp g)))) (map (relabel com) es)))%Q.
Proof.
  intros g I g2 com es es2 H Hcom Hes Hes2 p Hp.
  destruct (generate_graph_phases g I g2 H) as [ng0 [n2c [HP H2]]].
  pose proof (P1_n2c_names _ _ _ _ HP) as Hn2c.
  assert (Hc : forall u c, lookup Nat.eqb u n2c = Some c -> com u = c).
  { intros u c Hl. destruct (p1_n2c_a _ _ _ _ HP u c Hl) as [l [Hl1 Hl2]]. exact (Hcom c l u Hl1 Hl2). }
  set (q := fun u v : nat => p (u, v, 0%Q)).
  assert (HS0 : SomeW ng0).
  { intros x Hx. unfold get_all_edges in Hx. rewrite (p1_edges _ _ _ _ HP) in Hx. destruct Hx. }
  destruct (gg_edges_esel q g com n2c ng0 Hn2c Hc (sort_by edge_ltb (get_all_edges g)) ng0 g2
              (p1_wf _ _ _ _ HP) (p1_sp _ _ _ _ HP) eq_refl HS0) as [_ Hq]; [|exact H2|].
  { intros e He. apply sort_by_In in He. exact (wedges_some_w _ _ Hes e He). }
  rewrite (esel_wedges p _ _ Hp Hes2). fold q. rewrite Hq.
  assert (E0 : get_all_edges ng0 = []) by (unfold get_all_edges; rewrite (p1_edges _ _ _ _ HP); reflexivity).
  rewrite E0. cbn [esel].
  rewrite (esel_perm q _ _ (Permutation_map (relab_edge (gg_specs (sp g)) com)
                              (sort_by_permutation edge_ltb (get_all_edges g)))).
  rewrite (esel_relab_wedges p (gg_specs (sp g)) com _ _ Hp Hes). fold q. cbn [gg_specs directed]. ring.
Qed.

(* the same with the hypotheses of the task statement, for reference *)
Corollary generate_graph_aggregates_simple : forall (g : lgraph) I g2 (com : nat -> nat) es es2,
  WF Nat.eqb Nat.ltb g -> multi (sp g) = false ->
  generate_graph g I = Ok g2 ->
  (forall i l u, nth_error I i = Some l -> In u l -> com u = i) ->
  wedges_of true (get_all_edges g) = Some es ->
  wedges_of true (get_all_edges g2) = Some es2 ->
  forall p, ends_only p ->
    (wsel p es2 == wsel p (aggregate (directed (sp g)) (map (relabel com) es)))%Q.
Proof.
  intros g I g2 com es es2 _ _ H Hcom Hes Hes2 p Hp.
  rewrite (aggregate_wsel p (directed (sp g)) _ Hp).
  exact (generate_graph_aggregates g I g2 com es es2 H Hcom Hes Hes2 p Hp).
Qed.

(* ---------------- non-vacuity: the path 0 - 1 - 2 with parts {0,1}, {2} ---------------- *)
Definition gg_example_graph : outcome lgraph :=
  new_from_nodes_and_edges Nat.eqb Nat.ltb
    [mknode 0 (Some [0]); mknode 1 (Some [1]); mknode 2 (Some [2])]
    [mkedge 0 1 (Some 1%Z) None; mkedge 1 2 (Some 2%Z) None]
    (mkspecs false DErr MCreate false true SErr).

Example generate_graph_example :
  match gg_example_graph with
  | Ok g =>
    match generate_graph g [[0; 1]; [2]] with
    | Ok g2 => Some (gnames g2, attr_of g2 0, attr_of g2 1, get_all_edges g2)
    | _ => None
    end
  | _ => None
  end
  = Some ([0; 1], [0; 1], [2],
          [mkedge 0 0 (Some 1%Z) None; mkedge 0 1 (Some 2%Z) None]).
Proof. vm_compute. reflexivity. Qed.

(* accumulation: the triangle 0-1 (1), 1-2 (2), 0-2 (4) with parts {0}, {1,2}: the two edges
   between the parts are merged into one edge of weight 1 + 4 *)
Example generate_graph_example_merge :
  match new_from_nodes_and_edges Nat.eqb Nat.ltb
          [mknode 0 (Some [0]); mknode 1 (Some [1]); mknode 2 (Some [2])]
          [mkedge 0 1 (Some 1%Z) None; mkedge 1 2 (Some 2%Z) None; mkedge 0 2 (Some 4%Z) None]
          (mkspecs false DErr MCreate false true SErr) with
  | Ok g =>
    match generate_graph g [[0]; [1; 2]] with
    | Ok g2 => Some (gnames g2, attr_of g2 0, attr_of g2 1, get_all_edges g2)
    | _ => None
    end
  | _ => None
  end
  = Some ([0; 1], [0], [1; 2],
          [mkedge 0 1 (Some 5%Z) None; mkedge 1 1 (Some 2%Z) None]).
Proof. vm_compute. reflexivity. Qed.

