(* C13, deepening (round 2): the per-level theorems in closed form.  A "level graph" is a coherent
   (WF) single-edge working graph whose node names are 0..n-1, whose edge weights are real and
   non-negative and whose nodes carry pairwise disjoint attribute sets — what convert_graph
   produces for the first level and generate_graph for every later one.  On a level graph, for
   every resolution >= 0, every normalising constant m >= 0, every shuffle table and every start
   partition aligned with the attributes:
     - L1, L2, L3 hold at the end of compute_one_level's local-moving phase, whatever the fuel;
     - the candidate weights of a node are the weights [between] it and the communities;
     - every visit returns; an accepted move strictly increases the potential Phi_m, which is
       Newman's modularity of the level graph when m is its total edge weight;
     - with fuel >= n^n the phase returns Ok (no OutOfFuel, no panic), and the modularity of its
       result is at least that of the all-singletons partition. *)
From Coq Require Import String List Bool ZArith Arith QArith Lia Lqa Permutation Setoid Morphisms.
From GV Require Import Base.Outcome Base.AMap Model.GState Model.Creation Model.Query Model.Derived
     Model.Partition Model.Louvain Spec.AGraph Spec.PartitionDef.
From GV Require Import Proofs.AMapOk Proofs.WFDefs Proofs.WFNode Proofs.QueryOk Proofs.DegreeOk
     Proofs.PartitionOk Proofs.LouvainOk Proofs.MoveGainOk Proofs.AggregationOk
     Proofs.LouvainSets Proofs.LouvainStructOk Proofs.LouvainNumOk Proofs.LouvainTermOk.
Import ListNotations.

Record LevelGraph (g : lgraph) (n : nat) : Prop := mkLG {
  lg_wf : WFn g;
  lg_single : multi (sp g) = false;
  lg_names : Permutation (gnames g) (seq 0 n);
  lg_real : forall e, In e (get_all_edges g) -> exists z, ew e = Some z /\ (0 <= z)%Z;
  lg_attr : forall u v x, In u (seq 0 n) -> In v (seq 0 n) ->
            In x (attr_of g u) -> In x (attr_of g v) -> u = v
}.

Lemma LG_names : forall g n, LevelGraph g n -> forall u, In u (names g) <-> In u (seq 0 n).
Proof.
  intros g n H u. pose proof (lg_names g n H) as HP. split; apply Permutation_in; [exact HP | apply Permutation_sym; exact HP].
Qed.

Lemma LG_real : forall g n, LevelGraph g n -> forall e, In e (get_all_edges g) -> exists z, ew e = Some z.
Proof. intros g n H e He. destruct (lg_real g n H e He) as [z [Hz _]]. eauto. Qed.

Lemma LG_nonneg : forall g n, LevelGraph g n -> forall w, In w (wedges g) -> 0 <= ww w.
Proof.
  intros g n H w Hw. unfold wedges in Hw. apply in_map_iff in Hw. destruct Hw as [e [<- He]].
  destruct (lg_real g n H e He) as [z [Hz Hz0]]. unfold wq, zw_. rewrite Hz. cbn [ww snd].
  change 0 with (inject_Z 0). rewrite <- Zle_Qle. exact Hz0.
Qed.

(* the potential is Newman's modularity when m is the total weight; empty communities add nothing *)
Lemma Phi_newman : forall g m res dirb I, m == total_w (wedges g) ->
  Phi g m res dirb I == newman Nat.eqb dirb (wedges g) res I.
Proof.
  intros g m res dirb I Hm. unfold Phi, newman. apply qsum_ext. intros c _. unfold term_m.
  destruct dirb; rewrite Hm; reflexivity.
Qed.

Lemma term_m_nil : forall g m res dirb, term_m g m res dirb [] == 0.
Proof.
  intros g m res dirb.
  assert (HL : L_of Nat.eqb (wedges g) [] == 0).
  { unfold L_of. rewrite <- (wsel_none (wedges g)). apply wsel_ext. intros e _. reflexivity. }
  assert (HO : Kout_of Nat.eqb (wedges g) [] == 0).
  { unfold Kout_of. rewrite <- (wsel_none (wedges g)). apply wsel_ext. intros e _. reflexivity. }
  assert (HI : Kin_of Nat.eqb (wedges g) [] == 0).
  { unfold Kin_of. rewrite <- (wsel_none (wedges g)). apply wsel_ext. intros e _. reflexivity. }
  unfold term_m, K_of. destruct dirb; rewrite HL, HO, HI; unfold Qdiv; ring.
Qed.

Lemma Phi_filter_nonempty : forall g m res dirb I,
  Phi g m res dirb (filter nonempty I) == Phi g m res dirb I.
Proof.
  intros g m res dirb I. unfold Phi. induction I as [|c t IH]; [reflexivity|]. cbn [filter].
  destruct c as [|x c']; cbn [nonempty map qsum].
  - rewrite IH, term_m_nil. ring.
  - rewrite IH. reflexivity.
Qed.

(* L1-L3 in explicit form *)
Definition L1_holds (s : lstate) : Prop :=
  forall u c, lookup Nat.eqb u (ls_node2com s) = Some c <->
              exists l, nth_error (ls_inner s) c = Some l /\ In u l.
Definition L2_holds (g : lgraph) (s : lstate) : Prop :=
  length (ls_partition s) = length (ls_inner s) /\
  forall c l p, nth_error (ls_inner s) c = Some l -> nth_error (ls_partition s) c = Some p ->
    NoDup p /\ forall x, In x p <-> exists u, In u l /\ In x (attr_of g u).
Definition L3_holds (g : lgraph) (s : lstate) : Prop :=
  if directed (sp g)
  then Forall2 (fun st l => st == Kin_of Nat.eqb (wedges g) l) (stot_in (ls_deg s)) (ls_inner s) /\
       Forall2 (fun st l => st == Kout_of Nat.eqb (wedges g) l) (stot_out (ls_deg s)) (ls_inner s)
  else Forall2 (fun st l => st == K_of Nat.eqb (wedges g) l) (stot (ls_deg s)) (ls_inner s).

Lemma tracks_Forall2 : forall F v I, tracks F v I -> Forall2 (fun st l => st == F l) v I.
Proof. intros F v I [Hlen H]. apply Forall2_nth; [exact Hlen | exact H]. Qed.

Lemma NInv_L3 : forall g n s, NInv g n (ls_inner s) (ls_deg s) -> L3_holds g s.
Proof.
  intros g n s [_ HU HD]. unfold L3_holds. destruct (directed (sp g)).
  - destruct (HD eq_refl) as [_ [_ [Ti To]]]. split; apply tracks_Forall2; assumption.
  - destruct (HU eq_refl) as [_ Ts]. apply tracks_Forall2. exact Ts.
Qed.

Section Level.
  Variable g : lgraph.
  Variable n : nat.
  Hypothesis LG : LevelGraph g n.
  Variables m res : Q.
  Hypothesis Hm : 0 <= m.
  Hypothesis Hres : 0 <= res.

  Notation es := (wedges g).
  Notation dirg := (directed (sp g)).

  (* the bookkeeping invariants at the end of the local-moving phase, whatever the fuel *)
  Theorem level_bookkeeping : forall fuel partition perms s,
    length partition = n ->
    (forall c p, nth_error partition c = Some p -> NoDup p /\ forall x, In x p <-> In x (attr_of g c)) ->
    compute_one_level_state fuel g m partition res perms = Ok s ->
    L1_holds s /\ L2_holds g s /\ L3_holds g s /\
    (forall u, In u (seq 0 n) <-> lookup Nat.eqb u (ls_node2com s) <> None) /\
    length (ls_inner s) = n.
  Proof.
    intros fuel partition perms s Hlen Hpart H.
    destruct (compute_one_level_state_inv g (lg_wf g n LG) (lg_single g n LG) (LG_real g n LG) n (LG_names g n LG)
                (LG_nonneg g n LG) m res Hm Hres (lg_attr g n LG) fuel partition perms s Hlen Hpart H) as [HS [HN _]].
    pose proof HS as [SLen SDom SL1 SNd SL2].
    split; [exact SL1|]. split; [split; [exact SLen | exact SL2]|]. split; [apply (NInv_L3 g n s HN)|].
    split; [exact SDom | apply (ni_len _ _ _ _ HN)].
  Qed.

  (* the candidate map of a node against the edge multiset *)
  Theorem neighbor_weights_between : forall P I n2c u,
    SInv (seq 0 n) (attr_of g) P I n2c -> In u (seq 0 n) ->
    exists w0 w2c,
      get_neighbor_weights g u (successors g) n2c = Ok w0 /\
      (if dirg then add_predecessor_weights g u (predecessors g) n2c w0 else Ok w0) = Ok w2c /\
      NoDup (map fst w2c) /\
      forall c l, nth_error I c = Some l ->
        (match lookup Nat.eqb c w2c with Some x => x | None => 0 end) == between Nat.eqb es u (set_remove u l).
  Proof.
    intros P I n2c u HS Hu.
    destruct (w2c_spec g (lg_wf g n LG) (lg_single g n LG) (LG_real g n LG) u n2c) as [w0 [w2c [H0 [H2 [Hnd [Hval _]]]]]].
    - apply (LG_names g n LG). exact Hu.
    - intros v Hv. apply (si_dom _ _ _ _ _ HS). apply (LG_names g n LG). exact Hv.
    - exists w0, w2c. split; [exact H0|]. split; [exact H2|]. split; [exact Hnd|].
      intros c l Hc. fold (valQ c w2c). rewrite (Hval c). symmetry. apply between_q.
      apply (memb_Pc g n P I n2c u c l HS Hc).
  Qed.

  (* one visit *)
  Theorem level_visit : forall s u,
    In u (seq 0 n) -> SInvS (seq 0 n) (attr_of g) s -> NInv g n (ls_inner s) (ls_deg s) ->
    exists s', visit g m res (successors g) (predecessors g) s u = Ok s' /\
      SInvS (seq 0 n) (attr_of g) s' /\ NInv g n (ls_inner s') (ls_deg s') /\
      ((ls_moves s' = ls_moves s /\ ls_inner s' = ls_inner s /\ ls_node2com s' = ls_node2com s) \/
       (ls_moves s' = S (ls_moves s) /\ Phi g m res dirg (ls_inner s) < Phi g m res dirg (ls_inner s'))).
  Proof.
    intros s u Hu HS HN.
    destruct (visit_num g (lg_wf g n LG) (lg_single g n LG) (LG_real g n LG) n (LG_names g n LG)
                (LG_nonneg g n LG) m res Hm Hres (lg_attr g n LG) s u Hu HS HN) as [s' [Hv [HS' [HN' Hc]]]].
    exists s'. split; [exact Hv|]. split; [exact HS'|]. split; [exact HN'|].
    destruct Hc as [[M [I1 [C1 _]]]|[M [_ [_ [P _]]]]]; [left; repeat split; assumption | right; split; assumption].
  Qed.

  Corollary level_visit_newman : forall s u, m == total_w es ->
    In u (seq 0 n) -> SInvS (seq 0 n) (attr_of g) s -> NInv g n (ls_inner s) (ls_deg s) ->
    exists s', visit g m res (successors g) (predecessors g) s u = Ok s' /\
      (ls_inner s' = ls_inner s \/
       newman Nat.eqb dirg es res (ls_inner s) < newman Nat.eqb dirg es res (ls_inner s')).
  Proof.
    intros s u Hmt Hu HS HN. destruct (level_visit s u Hu HS HN) as [s' [Hv [_ [_ Hc]]]].
    exists s'. split; [exact Hv|]. destruct Hc as [[_ [I1 _]]|[_ P]]; [left; exact I1|]. right.
    rewrite <- !(Phi_newman g m res dirg _ Hmt). exact P.
  Qed.

  (* the whole phase with enough fuel *)
  Theorem level_total : forall fuel partition perms order,
    length partition = n ->
    (forall c p, nth_error partition c = Some p -> NoDup p /\ forall x, In x p <-> In x (attr_of g c)) ->
    get_shuffled_node_names g perms = Ok order ->
    (n ^ n <= fuel)%nat ->
    exists p2 i2 imp tie,
      compute_one_level fuel g m partition res perms = Ok (p2, i2, imp, tie) /\
      Phi g m res dirg (map (fun k => [k]) (seq 0 n)) <= Phi g m res dirg i2.
  Proof.
    intros fuel partition perms order Hlen Hpart Hshuf Hfuel.
    destruct (compute_one_level_state_total g (lg_wf g n LG) (lg_single g n LG) (LG_real g n LG) n (LG_names g n LG)
                (LG_nonneg g n LG) m res Hm Hres (lg_attr g n LG) fuel partition perms order Hlen Hpart Hshuf Hfuel)
      as [s [Hs [_ [_ [HP _]]]]].
    unfold compute_one_level. rewrite Hs. cbn [bind]. do 4 eexists. split; [reflexivity|].
    rewrite Phi_filter_nonempty. exact HP.
  Qed.

  (* whatever the fuel: a returned result is at least as good as the singletons *)
  Theorem level_result_ge_singletons : forall fuel partition perms p2 i2 imp tie,
    length partition = n ->
    (forall c p, nth_error partition c = Some p -> NoDup p /\ forall x, In x p <-> In x (attr_of g c)) ->
    compute_one_level fuel g m partition res perms = Ok (p2, i2, imp, tie) ->
    Phi g m res dirg (map (fun k => [k]) (seq 0 n)) <= Phi g m res dirg i2.
  Proof.
    intros fuel partition perms p2 i2 imp tie Hlen Hpart H. unfold compute_one_level in H.
    apply bind_ok in H. destruct H as [s [Hs H]]. inversion H. subst p2 i2 imp tie.
    destruct (compute_one_level_state_inv g (lg_wf g n LG) (lg_single g n LG) (LG_real g n LG) n (LG_names g n LG)
                (LG_nonneg g n LG) m res Hm Hres (lg_attr g n LG) fuel partition perms s Hlen Hpart Hs) as [_ [_ HP]].
    rewrite Phi_filter_nonempty. exact HP.
  Qed.

  Corollary level_result_ge_singletons_newman : forall fuel partition perms p2 i2 imp tie,
    m == total_w es -> length partition = n ->
    (forall c p, nth_error partition c = Some p -> NoDup p /\ forall x, In x p <-> In x (attr_of g c)) ->
    compute_one_level fuel g m partition res perms = Ok (p2, i2, imp, tie) ->
    newman Nat.eqb dirg es res (map (fun k => [k]) (seq 0 n)) <= newman Nat.eqb dirg es res i2.
  Proof.
    intros fuel partition perms p2 i2 imp tie Hmt Hlen Hpart H.
    rewrite <- !(Phi_newman g m res dirg _ Hmt). eapply level_result_ge_singletons; eassumption.
  Qed.

  Theorem level_result_length : forall fuel partition perms p2 i2 imp tie,
    length partition = n ->
    (forall c p, nth_error partition c = Some p -> NoDup p /\ forall x, In x p <-> In x (attr_of g c)) ->
    compute_one_level fuel g m partition res perms = Ok (p2, i2, imp, tie) ->
    (length i2 <= n)%nat.
  Proof.
    intros fuel partition perms p2 i2 imp tie Hlen Hpart H. unfold compute_one_level in H.
    apply bind_ok in H. destruct H as [s [Hs H]]. inversion H. subst p2 i2 imp tie.
    destruct (level_bookkeeping fuel partition perms s Hlen Hpart Hs) as [_ [_ [_ [_ Hl]]]].
    rewrite <- Hl. clear. induction (ls_inner s) as [|x t IH]; cbn [filter length]; [lia|].
    destruct (nonempty x); cbn [length]; lia.
  Qed.
End Level.
