(* C13, deepening: the STRUCTURAL half of C13 for every input.  Whenever the Louvain model
   returns [Ok], every level it returns is a partition of the input's node set into non-empty
   sets, and every level coarsens the previous one ([levels_ok], Spec/PartitionDef.v).
   The proof composes
     - convert_graph_struct        (the integer-named working graph: names 0..n-1, singleton
                                    attribute sets),
     - compute_one_level_struct    (the local-moving phase keeps _partition / inner_partition
                                    index-aligned and yields a partition that coarsens its input),
     - generate_graph_struct       (the aggregated graph: names 0..k-1, attribute set of node i =
                                    union of the attribute sets of inner_partition[i]),
     - convert_back_levels_ok      (the reverse renaming transports levels_ok)
   along the `while improvement` loop.  The modularity calls and the gain test only steer the
   control flow; nothing is assumed about them. *)
From Coq Require Import String List Bool ZArith Arith Lia Permutation QArith.
From GV Require Import Base.Outcome Base.AMap Model.GState Model.Creation Model.Query Model.Derived
     Model.Partition Model.Louvain Spec.PartitionDef Proofs.WFDefs Proofs.LouvainOk Proofs.LouvainSets
     Proofs.LouvainStructOk Proofs.LouvainGenGraphOk Proofs.LouvainConvertOk Proofs.HistoryOk Spec.History.
Import ListNotations.

(* ---------------- small list facts ---------------- *)
Lemma chain_snoc : forall {T} (R : list (list T) -> list (list T) -> Prop) l a b,
  chain R (l ++ [a]) -> R a b -> chain R ((l ++ [a]) ++ [b]).
Proof.
  intros T R l. induction l as [|x t IH]; intros a b H Hab.
  - cbn. split; [exact Hab | exact I].
  - destruct t as [|y t'].
    + cbn in H |- *. destruct H as [Hxa _]. split; [exact Hxa|]. split; [exact Hab | exact I].
    + change (R x y /\ chain R ((y :: t') ++ [a])) in H.
      change (R x y /\ chain R (((y :: t') ++ [a]) ++ [b])).
      destruct H as [Hxy Ht]. split; [exact Hxy|]. apply IH; assumption.
Qed.

Lemma ForallOrdPairs_nth_inv : forall {X} (R : X -> X -> Prop) (l : list X),
  ForallOrdPairs R l ->
  forall i j a b, (i < j)%nat -> nth_error l i = Some a -> nth_error l j = Some b -> R a b.
Proof.
  intros X R l H. induction H as [|x t Hx Ht IH]; intros i j a b Hij Ha Hb.
  - destruct i; discriminate.
  - destruct j as [|j]; [lia|]. destruct i as [|i]; cbn [nth_error] in Ha, Hb.
    + inversion Ha. subst a. rewrite Forall_forall in Hx. apply Hx. eapply nth_error_In. exact Hb.
    + apply (IH i j); [lia | exact Ha | exact Hb].
Qed.

Lemma Forall_last : forall {X} (P : X -> Prop) (l : list X) d, Forall P l -> l <> [] -> P (last l d).
Proof.
  intros X P l d H. induction H as [|x t Hx Ht IH]; intro Hne; [congruence|].
  destruct t as [|y t']; [exact Hx|]. change (P (last (y :: t') d)). apply IH. discriminate.
Qed.

(* a partition of [orig] into non-empty sets, read index-wise, is a family of attribute sets *)
Lemma AttrOk_of_level : forall (orig : list nat) (P : list (list nat)) n (attr : nat -> list nat),
  level_ok orig P -> length P = n ->
  (forall i p, nth_error P i = Some p -> NoDup (attr i) /\ forall x, In x (attr i) <-> In x p) ->
  AttrOk orig (seq 0 n) attr.
Proof.
  intros orig P n attr [[Hdisj [Hsub Hcov]] Hne] Hlen Hat.
  assert (Hget : forall u, In u (seq 0 n) -> exists p, nth_error P u = Some p).
  { intros u Hu. apply in_seq in Hu. destruct (nth_error P u) as [p|] eqn:E; [exists p; reflexivity|].
    apply nth_error_None in E. lia. }
  constructor.
  - intros u Hu. destruct (Hget u Hu) as [p Hp]. apply (Hat u p Hp).
  - intros u Hu. destruct (Hget u Hu) as [p Hp]. destruct (Hat u p Hp) as [_ Hx].
    rewrite Forall_forall in Hne. pose proof (Hne p (nth_error_In _ _ Hp)) as Hpne.
    destruct p as [|x p']; [congruence|]. intro E.
    assert (Hin : In x (attr u)) by (apply Hx; left; reflexivity). rewrite E in Hin. contradiction.
  - intros u v x Hu Hv Hxu Hxv. destruct (Hget u Hu) as [p Hp]. destruct (Hget v Hv) as [q Hq].
    destruct (Hat u p Hp) as [_ Hup]. destruct (Hat v q Hq) as [_ Hvq].
    apply Hup in Hxu. apply Hvq in Hxv.
    destruct (Nat.lt_trichotomy u v) as [L|[E|L]]; [|exact E|]; exfalso.
    + apply (ForallOrdPairs_nth_inv _ _ Hdisj u v p q L Hp Hq x Hxu Hxv).
    + apply (ForallOrdPairs_nth_inv _ _ Hdisj v u q p L Hq Hp x Hxv Hxu).
  - intro x. split.
    + intro Hx. destruct (Hcov x Hx) as [c [Hc Hxc]]. apply In_nth_error in Hc. destruct Hc as [u Hu].
      exists u. split.
      * apply in_seq. assert (u < length P)%nat by (apply nth_error_Some; congruence). lia.
      * destruct (Hat u c Hu) as [_ Huc]. apply Huc. exact Hxc.
    + intros [u [Hu Hxu]]. destruct (Hget u Hu) as [p Hp]. destruct (Hat u p Hp) as [_ Hup].
      apply Hup in Hxu. apply (Hsub p x); [eapply nth_error_In; exact Hp | exact Hxu].
Qed.

(* ---------------- the `while improvement` loop ---------------- *)
Lemma level_loop_levels :
  forall fuel sf weighted res thr perms m (orig : list nat) (gk : lgraph) nk partition inner md acc tie
         levels tie',
    Permutation (gnames gk) (seq 0 nk) ->
    AttrOk orig (seq 0 nk) (attr_of gk) ->
    PIok (seq 0 nk) (attr_of gk) partition inner ->
    Forall (level_ok orig) acc ->
    chain coarsening (acc ++ [partition]) ->
    level_loop fuel sf weighted res thr perms m gk partition inner md acc tie = Ok (levels, tie') ->
    levels_ok orig levels.
Proof.
  induction fuel as [|f IH];
    intros sf weighted res thr perms m orig gk nk partition inner md acc tie levels tie'
           Hperm AO HPI Hacc Hch H; cbn [level_loop] in H; [discriminate|].
  assert (Hlv : level_ok orig partition) by (eapply PIok_level_ok; eassumption).
  assert (Hacc' : Forall (level_ok orig) (acc ++ [partition])).
  { apply Forall_app. split; [exact Hacc | constructor; [exact Hlv | constructor]]. }
  assert (Hne : acc ++ [partition] <> []).
  { intro E. apply app_eq_nil in E. destruct E as [_ E]. discriminate. }
  apply bind_ok in H. destruct H as [new_mod [_ H]].
  destruct (gain_small new_mod md thr) as [small close].
  destruct small.
  { inversion H. subst levels tie'. split; [exact Hne|]. split; assumption. }
  apply bind_ok in H. destruct H as [g2 [Hg2 H]].
  apply bind_ok in H. destruct H as [[[[p2 i2] imp] tie2] [Hc H]].
  destruct (generate_graph_struct gk inner g2 Hg2) as [_ [Hn2 [_ Hat2]]].
  pose proof (pi_al _ _ _ _ HPI) as Hal.
  assert (Hlen : length partition = length inner) by (eapply F2_length; exact Hal).
  assert (Hpa : forall c p, nth_error partition c = Some p ->
                  NoDup p /\ NoDup (attr_of g2 c) /\ forall x, In x p <-> In x (attr_of g2 c)).
  { intros c p Hp. destruct (nth_error inner c) as [l|] eqn:El.
    - destruct (Forall2_nth_inv _ _ _ Hal c p l Hp El) as [Hndp [_ [_ Hpx]]].
      destruct (Hat2 c l El) as [Hnda Hax]. split; [exact Hndp|]. split; [exact Hnda|].
      intro x. split; intro Hx0.
      + apply (proj2 (Hax x)). apply (proj1 (Hpx x)). exact Hx0.
      + apply (proj2 (Hpx x)). apply (proj1 (Hax x)). exact Hx0.
    - apply nth_error_None in El.
      assert (c < length partition)%nat by (apply nth_error_Some; congruence). lia. }
  assert (AO2 : AttrOk orig (seq 0 (length inner)) (attr_of g2)).
  { apply (AttrOk_of_level orig partition); [exact Hlv | exact Hlen |].
    intros i p Hp. destruct (Hpa i p Hp) as [_ [Hnd Hx]]. split; [exact Hnd|].
    intro x. split; intro Hx0; apply Hx; exact Hx0. }
  assert (HR : PIok (seq 0 (length inner)) (attr_of g2) p2 i2 /\ level_ok orig p2 /\ coarsening partition p2).
  { apply (compute_one_level_struct sf g2 m partition res perms (length inner) orig p2 i2 imp tie2).
    - rewrite Hn2. apply Permutation_refl.
    - exact AO2.
    - exact Hlen.
    - intros c p Hp. destruct (Hpa c p Hp) as [Hnd [_ Hx]]. split; assumption.
    - exact Hc. }
  destruct HR as [HPI2 [Hlv2 Hco]].
  destruct imp.
  - apply (IH sf weighted res thr perms m orig g2 (length inner) p2 i2 new_mod (acc ++ [partition])
              (tie || close || tie2)%bool levels tie').
    + rewrite Hn2. apply Permutation_refl.
    + exact AO2.
    + exact HPI2.
    + exact Hacc'.
    + apply chain_snoc; assumption.
    + exact H.
  - inversion H. subst levels tie'. split; [exact Hne|]. split; assumption.
Qed.

(* ---------------- the entry points ---------------- *)
Section Levels.
  Context {T A : Type}.
  Variable teqb tltb : T -> T -> bool.
  Hypothesis teqb_spec : forall x y, teqb x y = true <-> x = y.
  Hypothesis tltb_asym : forall x y, tltb x y = true -> tltb y x = false.
  Hypothesis tltb_total : forall x y, tltb x y = false -> tltb y x = false -> x = y.

  Theorem louvain_partitions_t_levels_ok :
    forall lf sf (g : gstate T A) weighted res thr perms ls tie,
      WF teqb tltb g ->
      louvain_partitions_t teqb tltb lf sf g weighted res thr perms = Ok (ls, tie) ->
      levels_ok (map nname (nodes_vec g)) ls.
  Proof.
    intros lf sf g weighted res thr perms ls tie W H. unfold louvain_partitions_t in H.
    destruct (negative_weight_guard g weighted); [discriminate|].
    apply bind_ok in H. destruct H as [gu [Hgu H]].
    apply bind_ok in H. destruct H as [mod0 [_ H]].
    apply bind_ok in H. destruct H as [m [_ H]].
    apply bind_ok in H. destruct H as [[[[p1 i1] imp1] tie1] [Hc H]].
    apply bind_ok in H. destruct H as [[levels tie0] [Hl H]].
    apply bind_ok in H. destruct H as [ls0 [Hcb H]]. inversion H. subst ls0 tie0. clear H.
    destruct (convert_graph_struct teqb tltb teqb_spec tltb_asym tltb_total g weighted gu W Hgu)
      as [_ [Hperm [Hattr _]]].
    set (n := length (nodes_vec g)) in *.
    unfold map_node_names_to_hashsets in Hc. fold (gnames gu) in Hc.
    rewrite (sort_by_perm_seq (gnames gu) n Hperm) in Hc.
    assert (AO : AttrOk (seq 0 n) (seq 0 n) (attr_of gu)).
    { constructor.
      - intros u Hu. apply in_seq in Hu. rewrite Hattr by lia. constructor; [intros [] | constructor].
      - intros u Hu. apply in_seq in Hu. rewrite Hattr by lia. discriminate.
      - intros u v x Hu Hv Hxu Hxv. apply in_seq in Hu. apply in_seq in Hv.
        rewrite Hattr in Hxu by lia. rewrite Hattr in Hxv by lia.
        destruct Hxu as [Hxu|[]]. destruct Hxv as [Hxv|[]]. congruence.
      - intro x. split.
        + intro Hx. exists x. split; [exact Hx|]. apply in_seq in Hx. rewrite Hattr by lia. left. reflexivity.
        + intros [u [Hu Hx]]. pose proof Hu as Hu'. apply in_seq in Hu'. rewrite Hattr in Hx by lia.
          destruct Hx as [Hx|[]]. subst x. exact Hu. }
    assert (HR : PIok (seq 0 n) (attr_of gu) p1 i1 /\ level_ok (seq 0 n) p1 /\
                 coarsening (map (fun k => [k]) (seq 0 n)) p1).
    { apply (compute_one_level_struct sf gu m (map (fun k => [k]) (seq 0 n)) res perms n (seq 0 n)
                                      p1 i1 imp1 tie1).
      - exact Hperm.
      - exact AO.
      - rewrite map_length, seq_length. reflexivity.
      - intros c p Hp. rewrite nth_error_map_seq in Hp. destruct (Nat.ltb c n) eqn:Ec; [|discriminate].
        apply Nat.ltb_lt in Ec. inversion Hp. subst p. rewrite Hattr by exact Ec.
        split; [constructor; [intros [] | constructor] | intro x; reflexivity].
      - exact Hc. }
    destruct HR as [HPI1 [Hlv1 _]].
    assert (Hlv : levels_ok (seq 0 n) levels).
    { apply (level_loop_levels lf sf weighted res thr perms m (seq 0 n) gu n p1 i1 mod0 [] tie1 levels tie).
      - exact Hperm.
      - exact AO.
      - exact HPI1.
      - constructor.
      - cbn. exact I.
      - exact Hl. }
    apply (convert_back_levels_ok tltb g levels ls); [exact (wf_nodup _ _ _ W) | exact Hlv | exact Hcb].
  Qed.

  Theorem louvain_partitions_levels_ok :
    forall lf sf (g : gstate T A) weighted res thr perms ls,
      WF teqb tltb g ->
      louvain_partitions teqb tltb lf sf g weighted res thr perms = Ok ls ->
      levels_ok (map nname (nodes_vec g)) ls.
  Proof.
    intros lf sf g weighted res thr perms ls W H. unfold louvain_partitions in H.
    apply bind_ok in H. destruct H as [[ls0 tie] [Ht H]]. inversion H. subst ls. cbn [fst].
    eapply louvain_partitions_t_levels_ok; eassumption.
  Qed.

  (* louvain_communities: whenever the levels are returned, the last one is returned (never
     Err NoPartitions), and it is a partition of the node set into non-empty sets *)
  Corollary louvain_communities_of_partitions :
    forall lf sf (g : gstate T A) weighted res thr perms ls,
      WF teqb tltb g ->
      louvain_partitions teqb tltb lf sf g weighted res thr perms = Ok ls ->
      louvain_communities teqb tltb lf sf g weighted res thr perms = Ok (last ls []) /\
      level_ok (map nname (nodes_vec g)) (last ls []).
  Proof.
    intros lf sf g weighted res thr perms ls W H.
    destruct (louvain_partitions_levels_ok lf sf g weighted res thr perms ls W H) as [Hne [Hall _]].
    split.
    - rewrite (louvain_communities_is_last T A teqb tltb lf sf g weighted res thr perms ls H).
      destruct ls; [congruence | reflexivity].
    - apply Forall_last; assumption.
  Qed.

  Corollary louvain_communities_level_ok :
    forall lf sf (g : gstate T A) weighted res thr perms c,
      WF teqb tltb g ->
      louvain_communities teqb tltb lf sf g weighted res thr perms = Ok c ->
      level_ok (map nname (nodes_vec g)) c.
  Proof.
    intros lf sf g weighted res thr perms c W H.
    pose proof H as H0. unfold louvain_communities in H0.
    apply bind_ok in H0. destruct H0 as [ls [Hls _]].
    destruct (louvain_communities_of_partitions lf sf g weighted res thr perms ls W Hls) as [E Hl].
    rewrite E in H. inversion H. subst c. exact Hl.
  Qed.
End Levels.

(* ---- the hypotheses are satisfiable: an evaluated instance with two levels (a ring of four
   pairs), so that the aggregation step and a second local-moving phase are exercised ---- *)
Local Notation lv_ex_graph :=
  (new_from_nodes_and_edges Z.eqb Z.ltb
    (map (fun z => mknode z (None : option Z)) [1; 2; 3; 4; 5; 6; 7; 8]%Z)
    [mkedge 1%Z 2%Z None None; mkedge 3%Z 4%Z None None; mkedge 5%Z 6%Z None None;
     mkedge 7%Z 8%Z None None; mkedge 2%Z 3%Z None None; mkedge 6%Z 7%Z None None;
     mkedge 1%Z 4%Z None None; mkedge 5%Z 8%Z None None; mkedge 4%Z 5%Z None None]
    (mkspecs false DErr MCreate false true SErr)) (only parsing).

Definition lv_ex_perms : list (list nat) :=
  [[0]; [1; 0]; [2; 0; 1]; [3; 1; 0; 2]; [4; 2; 0; 3; 1]; [5; 3; 1; 0; 2; 4]; [6; 0; 3; 1; 5; 2; 4];
   [0; 1; 2; 3; 4; 5; 6; 7]]%nat.

Definition lv_ex_levels : list (list (list Z)) :=
  [[[2; 1]; [4; 3]; [5; 8]; [7; 6]]; [[2; 1; 4; 3]; [5; 8; 7; 6]]]%Z.

Example louvain_levels_nonvacuous :
  exists g,
    lv_ex_graph = Ok g /\
    WF Z.eqb Z.ltb g /\
    louvain_partitions Z.eqb Z.ltb 10 50 g false 1 (1 # 10000000) lv_ex_perms = Ok lv_ex_levels /\
    louvain_communities Z.eqb Z.ltb 10 50 g false 1 (1 # 10000000) lv_ex_perms = Ok [[2; 1; 4; 3]; [5; 8; 7; 6]]%Z /\
    levels_ok (map nname (nodes_vec g)) lv_ex_levels /\
    level_ok (map nname (nodes_vec g)) [[2; 1; 4; 3]; [5; 8; 7; 6]]%Z.
Proof.
  assert (Zasym : forall x y : Z, Z.ltb x y = true -> Z.ltb y x = false).
  { intros x y H. apply Z.ltb_lt in H. apply Z.ltb_ge. lia. }
  assert (Ztot : forall x y : Z, Z.ltb x y = false -> Z.ltb y x = false -> x = y).
  { intros x y H1 H2. apply Z.ltb_ge in H1. apply Z.ltb_ge in H2. lia. }
  assert (R : match lv_ex_graph with
              | Ok g => louvain_partitions Z.eqb Z.ltb 10 50 g false 1 (1 # 10000000) lv_ex_perms = Ok lv_ex_levels
              | _ => False
              end) by (vm_compute; reflexivity).
  destruct lv_ex_graph as [g|k|s|] eqn:E; try contradiction.
  exists g. split; [reflexivity|].
  assert (W : WF Z.eqb Z.ltb g).
  { apply (WF_reachable Z.eqb Z.ltb Z.eqb_eq Zasym Ztot (mkspecs false DErr MCreate false true SErr)).
    eapply new_from_reachable; [exact Z.eqb_eq | exact E]. }
  split; [exact W|]. split; [exact R|].
  destruct (louvain_communities_of_partitions Z.eqb Z.ltb Z.eqb_eq Zasym Ztot _ _ g _ _ _ _ _ W R) as [Hc Hl].
  split; [exact Hc|]. split; [|exact Hl].
  apply (louvain_partitions_levels_ok Z.eqb Z.ltb Z.eqb_eq Zasym Ztot _ _ g _ _ _ _ _ W R).
Qed.
