(* C13, deepening (round 2): the whole model.  Every working graph that louvain_partitions builds
   (the converted graph, then each generate_graph) is a LevelGraph, faithful to the first one, and
   the constant m the model carries is the total edge weight of every level; hence for every
   input with non-negative real weights (or weighted = false) and resolution >= 0: every
   local-moving phase returns with fuel >= N^N, every accepted move strictly increases Newman's
   modularity of its level graph, the first level is at least as good as the singletons and the
   modularity (on the first working graph) never decreases from one level to the next. *)
From Coq Require Import String List Bool ZArith Arith QArith Lia Lqa Permutation Setoid Morphisms.
From GV Require Import Base.Outcome Base.AMap Model.GState Model.Creation Model.Query Model.Derived
     Model.Partition Model.Louvain Spec.AGraph Spec.PartitionDef.
From GV Require Import Proofs.AMapOk Proofs.WFDefs Proofs.WFNode Proofs.QueryOk Proofs.DegreeOk
     Proofs.PartitionOk Proofs.LouvainOk Proofs.MoveGainOk Proofs.AggregationOk
     Proofs.LouvainSets Proofs.LouvainStructOk Proofs.LouvainNumOk Proofs.LouvainTermOk
     Proofs.LouvainLevelOk Proofs.LouvainGenGraphOk Proofs.LouvainAggOk Proofs.LouvainConvertOk
     Proofs.LouvainLevelsOk Proofs.LouvainNoFuelOk Proofs.HistoryOk Spec.History.
Import ListNotations.
Open Scope Q_scope.

(* ---------------- the constant m ---------------- *)
Lemma total_w_wedges : forall (l : list ledge), total_w (map wq l) = qsum (map (fun e => inject_Z (zw_ e)) l).
Proof. intro l. unfold total_w. rewrite map_map. reflexivity. Qed.

Lemma size_q_weighted : forall (g : lgraph) m,
  (forall e, In e (get_all_edges g) -> exists z, ew e = Some z) ->
  size_q g true = Ok m -> m == total_w (wedges g).
Proof.
  intros g m Hreal H. unfold size_q, size_weighted in H.
  rewrite (wsum_real (get_all_edges g) Hreal) in H. cbn [q_of_w] in H. inversion H. subst m.
  unfold wedges. rewrite total_w_wedges. apply (zsum_q (get_all_edges g)).
Qed.

Lemma size_q_unweighted : forall (g : lgraph) m,
  (forall e, In e (get_all_edges g) -> ew e = Some 1%Z) ->
  size_q g false = Ok m -> m == total_w (wedges g).
Proof.
  intros g m Hone H. unfold size_q, size_unweighted in H. inversion H. subst m. clear H.
  unfold wedges. rewrite total_w_wedges. induction (get_all_edges g) as [|e t IH]; [reflexivity|].
  cbn [length map qsum]. rewrite Nat2Z.inj_succ, <- Z.add_1_l, inject_Z_plus.
  rewrite IH by (intros e' He'; apply Hone; right; exact He').
  unfold zw_. rewrite (Hone e (or_introl eq_refl)). reflexivity.
Qed.

Lemma total_w_nonneg : forall es : list wedgeN, (forall w, In w es -> 0 <= ww w) -> 0 <= total_w es.
Proof.
  intros es H. rewrite total_w_wsel. apply wsel_nonneg. exact H.
Qed.

(* ---------------- the invariant of the level loop ---------------- *)
Record LInv (es0 : list wedgeN) (dir0 : bool) (orig : list nat) (gk : lgraph) (nk : nat)
            (P I : list (list nat)) : Prop := mkLI {
  li_lg : LevelGraph gk nk;
  li_dir : directed (sp gk) = dir0;
  li_fa : Faithful es0 gk nk;
  li_ao : AttrOk orig (seq 0 nk) (attr_of gk);
  li_pi : PIok (seq 0 nk) (attr_of gk) P I
}.

Lemma PIok_range : forall names attr P I, PIok names attr P I -> forall c i, In c I -> In i c -> In i names.
Proof. intros names attr P I H c i Hc Hi. apply (pi_cover _ _ _ _ H). exists c. split; assumption. Qed.

(* the level partition P and the inner partition I describe the same family on the base graph *)
Lemma expand_aligned : forall attr P I, Forall2 (aligned attr) P I ->
  Forall2 (fun a b => forall x, In x a <-> In x b) (map (expand attr) I) P.
Proof.
  intros attr P I H. induction H as [|p l P' I' Hpl _ IH]; [constructor|]. cbn [map]. constructor; [|exact IH].
  destruct Hpl as [_ [_ [_ Hx]]]. intro x. rewrite In_expand. symmetry. apply Hx.
Qed.

Section Loop.
  Variable es0 : list wedgeN.
  Variable dir0 : bool.
  Variable orig : list nat.
  Variables m res : Q.
  Hypothesis Hm0 : m == total_w es0.
  Hypothesis Hmpos : 0 <= m.
  Hypothesis Hres : 0 <= res.

  Notation Qm := (newman Nat.eqb dir0 es0 res).

  Lemma LInv_Qm : forall gk nk P I, LInv es0 dir0 orig gk nk P I ->
    Qm P == newman Nat.eqb dir0 (wedges gk) res I.
  Proof.
    intros gk nk P I [LG Hd [_ HF] _ HPI]. rewrite <- Hd. rewrite (HF res I).
    - rewrite Hd. symmetry. apply newman_ext. apply expand_aligned. apply (pi_al _ _ _ _ HPI).
    - intros c i Hc Hi. pose proof (PIok_range _ _ _ _ HPI c i Hc Hi) as H. apply in_seq in H. lia.
  Qed.

  Lemma LInv_m : forall gk nk P I, LInv es0 dir0 orig gk nk P I -> m == total_w (wedges gk).
  Proof. intros gk nk P I [_ _ [Ht _] _ _]. rewrite Ht. exact Hm0. Qed.

  (* one aggregation step + one local-moving phase *)
  Lemma LInv_step : forall gk nk P I g2 sf perms p2 i2 imp tie2,
    LInv es0 dir0 orig gk nk P I ->
    generate_graph gk I = Ok g2 ->
    compute_one_level sf g2 m P res perms = Ok (p2, i2, imp, tie2) ->
    LInv es0 dir0 orig g2 (length I) p2 i2 /\ Qm P <= Qm p2 /\ (imp = true -> (length i2 < length I)%nat).
  Proof.
    intros gk nk P I g2 sf perms p2 i2 imp tie2 HL Hg2 Hc. pose proof HL as [LG Hd HF AO HPI].
    destruct (generate_graph_struct gk I g2 Hg2) as [W2 [Hn2 [Hsp2 Hat2]]].
    pose proof (pi_al _ _ _ _ HPI) as Hal.
    assert (Hlen : length P = length I) by (eapply F2_length; exact Hal).
    assert (Hlv : level_ok orig P) by (eapply PIok_level_ok; eassumption).
    assert (Hpa : forall c p, nth_error P c = Some p ->
                  NoDup p /\ NoDup (attr_of g2 c) /\ forall x, In x p <-> In x (attr_of g2 c)).
    { intros c p Hp. destruct (nth_error I c) as [l|] eqn:El.
      - destruct (Forall2_nth_inv _ _ _ Hal c p l Hp El) as [Hndp [_ [_ Hpx]]].
        destruct (Hat2 c l El) as [Hnda Hax]. split; [exact Hndp|]. split; [exact Hnda|].
        intro x. rewrite Hpx, Hax. reflexivity.
      - apply nth_error_None in El. assert ((c < length P)%nat) by (apply nth_error_Some; congruence). lia. }
    assert (AO2 : AttrOk orig (seq 0 (length I)) (attr_of g2)).
    { apply (AttrOk_of_level orig P); [exact Hlv | exact Hlen |].
      intros i p Hp. destruct (Hpa i p Hp) as [_ [Hnd Hx]]. split; [exact Hnd|]. intro x. symmetry. apply Hx. }
    assert (Hw2 : forall e, In e (get_all_edges g2) -> exists z, ew e = Some z /\ (0 <= z)%Z).
    { apply (generate_graph_weights gk I g2 (lg_wf gk nk LG) Hg2). apply (lg_real gk nk LG). }
    assert (LG2 : LevelGraph g2 (length I)).
    { constructor.
      - exact W2.
      - rewrite Hsp2. cbn [multi]. apply (lg_single gk nk LG).
      - rewrite Hn2. apply Permutation_refl.
      - exact Hw2.
      - apply (ao_disj _ _ _ AO2). }
    assert (Hd2 : directed (sp g2) = dir0) by (rewrite Hsp2; cbn [directed]; exact Hd).
    assert (HF2 : Faithful es0 g2 (length I)).
    { apply (Faithful_step es0 gk nk I g2 LG HF (pi_disj _ _ _ _ HPI) (pi_cover _ _ _ _ HPI) Hg2).
      intros e He. destruct (Hw2 e He) as [z [Hz _]]. eauto. }
    assert (Hstart : forall c p, nth_error P c = Some p -> NoDup p /\ forall x, In x p <-> In x (attr_of g2 c)).
    { intros c p Hp. destruct (Hpa c p Hp) as [Hnd [_ Hx]]. split; assumption. }
    destruct (compute_one_level_struct sf g2 m P res perms (length I) orig p2 i2 imp tie2) as [HPI2 [Hlv2 Hco]];
      try assumption.
    { rewrite Hn2. apply Permutation_refl. }
    assert (HL2 : LInv es0 dir0 orig g2 (length I) p2 i2) by (constructor; assumption).
    split; [exact HL2|]. split.
    - (* modularity does not decrease *)
      assert (Hm2 : m == total_w (wedges g2)) by (destruct HF2 as [Ht _]; rewrite Ht; exact Hm0).
      pose proof (level_result_ge_singletons_newman g2 (length I) LG2 m res Hmpos Hres sf P perms p2 i2 imp tie2
                    Hm2 Hlen Hstart Hc) as Hge.
      rewrite Hd2 in Hge. rewrite (LInv_Qm g2 (length I) p2 i2 HL2).
      eapply Qle_trans; [|exact Hge]. apply Qle_lteq. right.
      destruct HF2 as [_ HF2]. rewrite <- Hd2. rewrite (HF2 res (map (fun k => [k]) (seq 0 (length I)))).
      + rewrite Hd2. apply newman_ext. rewrite map_map. rewrite <- Hlen.
        apply Forall2_nth; [rewrite map_length, seq_length; reflexivity|].
        intros i p a Hp Ha. rewrite nth_error_map_seq in Ha. destruct (Nat.ltb i (length P)); [|discriminate].
        inversion Ha. subst a. destruct (Hpa i p Hp) as [_ [_ Hx]]. intro x. rewrite Hx.
        unfold expand. cbn [flat_map]. rewrite app_nil_r. reflexivity.
      + intros c i Hc0 Hi. apply in_map_iff in Hc0. destruct Hc0 as [k [<- Hk]]. destruct Hi as [Hi|[]]. subst i.
        apply in_seq in Hk. lia.
    - intro Hi. subst imp.
      apply (compute_one_level_shrinks g2 (lg_wf _ _ LG2) (lg_single _ _ LG2) (LG_real _ _ LG2) (length I) (LG_names _ _ LG2)
               (LG_nonneg _ _ LG2) m res Hmpos Hres (lg_attr _ _ LG2) sf P perms p2 i2 tie2 Hlen Hstart Hc).
  Qed.

  (* ---- the `while improvement` loop: modularity never decreases from level to level ---- *)
  Lemma level_loop_monotone :
    forall fuel sf weighted thr perms gk nk partition inner md acc tie levels tie',
      LInv es0 dir0 orig gk nk partition inner ->
      chain (fun a b => Qm a <= Qm b) (acc ++ [partition]) ->
      level_loop fuel sf weighted res thr perms m gk partition inner md acc tie = Ok (levels, tie') ->
      chain (fun a b => Qm a <= Qm b) levels /\ exists rest, levels = (acc ++ [partition]) ++ rest.
  Proof.
    induction fuel as [|f IH]; intros sf weighted thr perms gk nk partition inner md acc tie levels tie' HL Hch H;
      cbn [level_loop] in H; [discriminate|].
    apply bind_ok in H. destruct H as [new_mod [_ H]].
    destruct (gain_small new_mod md thr) as [small close]. destruct small.
    { inversion H. subst levels tie'. split; [exact Hch | exists []; rewrite app_nil_r; reflexivity]. }
    apply bind_ok in H. destruct H as [g2 [Hg2 H]].
    apply bind_ok in H. destruct H as [[[[p2 i2] imp] tie2] [Hc H]].
    destruct (LInv_step gk nk partition inner g2 sf perms p2 i2 imp tie2 HL Hg2 Hc) as [HL2 [Hle _]].
    destruct imp.
    - destruct (IH sf weighted thr perms g2 (length inner) p2 i2 new_mod (acc ++ [partition]) (tie || close || tie2)%bool levels tie' HL2) as [H1 [rest Hr]];
        [apply chain_snoc; assumption | exact H |].
      split; [exact H1|]. exists ([p2] ++ rest). rewrite Hr. rewrite <- !app_assoc. reflexivity.
    - inversion H. subst levels tie'. split; [exact Hch | exists []; rewrite app_nil_r; reflexivity].
  Qed.

  (* ---- the loop never runs out of fuel when every phase has fuel for its n^n sweeps and the
          loop itself has one unit of fuel per node ---- *)
  Lemma pow_self_mono : forall a b, (a <= b)%nat -> (a ^ a <= b ^ b)%nat.
  Proof.
    intros a b H. destruct a as [|a].
    { change (0 ^ 0)%nat with 1%nat. assert (Hb : (b ^ b <> 0)%nat).
      { destruct b as [|b]; [cbn; lia | apply Nat.pow_nonzero; lia]. }
      lia. }
    apply Nat.le_trans with (S a ^ b)%nat; [apply Nat.pow_le_mono_r; lia | apply Nat.pow_le_mono_l; exact H].
  Qed.

  Lemma level_loop_never_out_of_fuel :
    forall fuel sf weighted thr perms gk nk partition inner md acc tie N,
      LInv es0 dir0 orig gk nk partition inner ->
      (length inner < fuel)%nat -> (length inner <= N)%nat -> (N ^ N <= sf)%nat ->
      level_loop fuel sf weighted res thr perms m gk partition inner md acc tie <> OutOfFuel.
  Proof.
    induction fuel as [|f IH]; intros sf weighted thr perms gk nk partition inner md acc tie N HL Hf HN Hsf; [lia|].
    intro H. apply level_loop_fuel_cases in H.
    destruct H as [new_mod [g2 [_ [_ [Hg2 Hcase]]]]].
    pose proof HL as [LG Hd HF AO HPI].
    (* the phase on g2 returns *)
    assert (Hret : forall order, get_shuffled_node_names g2 perms = Ok order ->
              exists p2 i2 imp tie2, compute_one_level sf g2 m partition res perms = Ok (p2, i2, imp, tie2)).
    { intros order Hord.
      destruct (generate_graph_struct gk inner g2 Hg2) as [W2 [Hn2 [Hsp2 Hat2]]].
      (* reuse LInv_step's construction through a dummy run: rebuild the level-graph facts *)
      pose proof (pi_al _ _ _ _ HPI) as Hal.
      assert (Hlen : length partition = length inner) by (eapply F2_length; exact Hal).
      assert (Hlv : level_ok orig partition) by (eapply PIok_level_ok; eassumption).
      assert (Hpa : forall c p, nth_error partition c = Some p ->
                  NoDup p /\ NoDup (attr_of g2 c) /\ forall x, In x p <-> In x (attr_of g2 c)).
      { intros c p Hp. destruct (nth_error inner c) as [l|] eqn:El.
        - destruct (Forall2_nth_inv _ _ _ Hal c p l Hp El) as [Hndp [_ [_ Hpx]]].
          destruct (Hat2 c l El) as [Hnda Hax]. split; [exact Hndp|]. split; [exact Hnda|].
          intro x. rewrite Hpx, Hax. reflexivity.
        - apply nth_error_None in El. assert ((c < length partition)%nat) by (apply nth_error_Some; congruence). lia. }
      assert (AO2 : AttrOk orig (seq 0 (length inner)) (attr_of g2)).
      { apply (AttrOk_of_level orig partition); [exact Hlv | exact Hlen |].
        intros i p Hp. destruct (Hpa i p Hp) as [_ [Hnd Hx]]. split; [exact Hnd|]. intro x. symmetry. apply Hx. }
      assert (LG2 : LevelGraph g2 (length inner)).
      { constructor.
        - exact W2.
        - rewrite Hsp2. cbn [multi]. apply (lg_single gk nk LG).
        - rewrite Hn2. apply Permutation_refl.
        - apply (generate_graph_weights gk inner g2 (lg_wf gk nk LG) Hg2). apply (lg_real gk nk LG).
        - apply (ao_disj _ _ _ AO2). }
      destruct (level_total g2 (length inner) LG2 m res Hmpos Hres sf partition perms order Hlen) as [p2 [i2 [imp [tie2 [Hc _]]]]].
      - intros c p Hp. destruct (Hpa c p Hp) as [Hnd [_ Hx]]. split; assumption.
      - exact Hord.
      - apply Nat.le_trans with (N ^ N)%nat; [apply pow_self_mono; exact HN | exact Hsf].
      - eauto. }
    destruct Hcase as [Hoof|[p2 [i2 [tie2 [Hc Hrec]]]]].
    - destruct (compute_one_level_fuel_only_from_sweeps _ _ _ _ _ _ Hoof) as [di [order [_ [Hord _]]]].
      destruct (Hret order Hord) as [p2 [i2 [imp [tie2 Hc]]]]. congruence.
    - destruct (LInv_step gk nk partition inner g2 sf perms p2 i2 true tie2 HL Hg2 Hc) as [HL2 [_ Hshr]].
      specialize (Hshr eq_refl).
      apply (IH sf weighted thr perms g2 (length inner) p2 i2 new_mod (acc ++ [partition])
                (tie || snd (gain_small new_mod md thr) || tie2)%bool N HL2); [lia | lia | exact Hsf | exact Hrec].
  Qed.
End Loop.

(* ---------------- the entry points ---------------- *)
Section Entry.
  Context {T A : Type}.
  Variable teqb tltb : T -> T -> bool.
  Hypothesis teqb_spec : forall x y, teqb x y = true <-> x = y.
  Hypothesis tltb_asym : forall x y, tltb x y = true -> tltb y x = false.
  Hypothesis tltb_total : forall x y, tltb x y = false -> tltb y x = false -> x = y.

  (* the domain: with weighted = true every weight is a non-negative real *)
  Definition weights_ok (g : gstate T A) (weighted : bool) : Prop :=
    weighted = true -> forall e, In e (get_all_edges g) -> exists z, ew e = Some z /\ (0 <= z)%Z.

  (* the guard of louvain_partitions (repair of F23) against the domain: it is false on the domain,
     and where it is false every REAL weight is non-negative *)
  Lemma has_negative_weight_true_iff : forall (g : gstate T A),
    has_negative_weight g = true <-> exists e z, In e (get_all_edges g) /\ ew e = Some z /\ (z < 0)%Z.
  Proof.
    intro g. unfold has_negative_weight. rewrite existsb_exists. split.
    - intros [e [He Hn]]. unfold weight_negb in Hn. destruct (ew e) as [z|] eqn:Ez; [|discriminate].
      apply Z.ltb_lt in Hn. exists e, z. auto.
    - intros [e [z [He [Ez Hz]]]]. exists e. split; [exact He|]. unfold weight_negb. rewrite Ez.
      apply Z.ltb_lt. exact Hz.
  Qed.

  Lemma has_negative_weight_false : forall (g : gstate T A),
    has_negative_weight g = false -> forall e z, In e (get_all_edges g) -> ew e = Some z -> (0 <= z)%Z.
  Proof.
    intros g H e z He Ez. destruct (Z.ltb z 0) eqn:El; [|apply Z.ltb_ge in El; exact El].
    apply Z.ltb_lt in El. assert (Ht : has_negative_weight g = true).
    { apply has_negative_weight_true_iff. exists e, z. auto. }
    congruence.
  Qed.

  Lemma weights_ok_guard_false : forall (g : gstate T A) weighted,
    weights_ok g weighted -> negative_weight_guard g weighted = false.
  Proof.
    intros g weighted Hwok. unfold negative_weight_guard. destruct weighted; [|reflexivity]. cbn [andb].
    destruct (has_negative_weight g) eqn:E; [|reflexivity]. exfalso.
    apply has_negative_weight_true_iff in E. destruct E as [e [z [He [Ez Hz]]]].
    destruct (Hwok eq_refl e He) as [z' [Ez' Hz']]. rewrite Ez in Ez'. inversion Ez'. subst z'. lia.
  Qed.

  (* conversely: guard false + every edge has a weight (when weighted) = the domain *)
  Lemma guard_false_weights_ok : forall (g : gstate T A) weighted,
    negative_weight_guard g weighted = false ->
    (weighted = true -> forall e, In e (get_all_edges g) -> exists z, ew e = Some z) ->
    weights_ok g weighted.
  Proof.
    intros g weighted Hg Hreal Hw e He. subst weighted. cbn [negative_weight_guard andb] in Hg.
    destruct (Hreal eq_refl e He) as [z Ez]. exists z. split; [exact Ez|].
    exact (has_negative_weight_false g Hg e z He Ez).
  Qed.

  (* the guard answers before anything else is computed: every fuel, table, resolution, threshold *)
  Theorem louvain_negative_weights_rejected : forall lf sf (g : gstate T A) weighted res thr perms,
    weighted = true -> (exists e z, In e (get_all_edges g) /\ ew e = Some z /\ (z < 0)%Z) ->
    louvain_partitions_t teqb tltb lf sf g weighted res thr perms = Err InvalidArgument /\
    louvain_partitions teqb tltb lf sf g weighted res thr perms = Err InvalidArgument /\
    louvain_communities teqb tltb lf sf g weighted res thr perms = Err InvalidArgument.
  Proof.
    intros lf sf g weighted res thr perms Hw Hneg. apply has_negative_weight_true_iff in Hneg.
    assert (Ht : louvain_partitions_t teqb tltb lf sf g weighted res thr perms = Err InvalidArgument).
    { unfold louvain_partitions_t, negative_weight_guard. rewrite Hw, Hneg. reflexivity. }
    assert (Hp : louvain_partitions teqb tltb lf sf g weighted res thr perms = Err InvalidArgument).
    { unfold louvain_partitions. rewrite Ht. reflexivity. }
    split; [exact Ht|]. split; [exact Hp|]. unfold louvain_communities. rewrite Hp. reflexivity.
  Qed.

  (* and ONLY then: InvalidArgument is returned by nothing else in the model *)
  Lemma louvain_guard_cases : forall lf sf (g : gstate T A) weighted res thr perms,
    negative_weight_guard g weighted = true ->
    louvain_partitions_t teqb tltb lf sf g weighted res thr perms = Err InvalidArgument.
  Proof.
    intros lf sf g weighted res thr perms Hg. unfold louvain_partitions_t. rewrite Hg. reflexivity.
  Qed.

  (* what the first working graph and the constant m are *)
  Lemma first_graph : forall (g : gstate T A) weighted gu m,
    WF teqb tltb g -> weights_ok g weighted ->
    convert_graph teqb tltb g weighted (node_map_of tltb g) = Ok gu ->
    size_q gu weighted = Ok m ->
    let N := length (nodes_vec g) in
    LevelGraph gu N /\ Faithful (wedges gu) gu N /\ AttrOk (seq 0 N) (seq 0 N) (attr_of gu) /\
    m == total_w (wedges gu) /\ 0 <= m /\
    map_node_names_to_hashsets gu = map (fun k => [k]) (seq 0 N) /\
    (forall c p, nth_error (map (fun k => [k]) (seq 0 N)) c = Some p ->
       NoDup p /\ forall x, In x p <-> In x (attr_of gu c)).
  Proof.
    intros g weighted gu m W Hwok Hgu Hsz N.
    destruct (convert_graph_struct teqb tltb teqb_spec tltb_asym tltb_total g weighted gu W Hgu)
      as [Wu [Hperm [Hattr [Hmul [_ [Hone Hnn]]]]]].
    fold N in Hperm, Hattr.
    assert (Hw : forall e, In e (get_all_edges gu) -> exists z, ew e = Some z /\ (0 <= z)%Z).
    { destruct weighted.
      - apply Hnn. apply Hwok. reflexivity.
      - intros e He. exists 1%Z. split; [apply Hone; [reflexivity | exact He] | lia]. }
    assert (Hdis : forall u v x, In u (seq 0 N) -> In v (seq 0 N) -> In x (attr_of gu u) -> In x (attr_of gu v) -> u = v).
    { intros u v x Hu Hv Hxu Hxv. apply in_seq in Hu. apply in_seq in Hv.
      rewrite Hattr in Hxu by lia. rewrite Hattr in Hxv by lia.
      destruct Hxu as [Hxu|[]]. destruct Hxv as [Hxv|[]]. congruence. }
    assert (LG : LevelGraph gu N) by (constructor; assumption).
    split; [exact LG|]. split; [apply Faithful_base; exact Hattr|]. split; [|split; [|split; [|split]]].
    - constructor.
      + intros u Hu. apply in_seq in Hu. rewrite Hattr by lia. constructor; [intros [] | constructor].
      + intros u Hu. apply in_seq in Hu. rewrite Hattr by lia. discriminate.
      + exact Hdis.
      + intro x. split.
        * intro Hx. exists x. split; [exact Hx|]. apply in_seq in Hx. rewrite Hattr by lia. left. reflexivity.
        * intros [u [Hu Hx]]. apply in_seq in Hu. rewrite Hattr in Hx by lia. destruct Hx as [Hx|[]]. subst x. apply in_seq. lia.
    - destruct weighted.
      + apply size_q_weighted; [|exact Hsz]. intros e He. destruct (Hw e He) as [z [Hz _]]. eauto.
      + apply size_q_unweighted; [|exact Hsz]. intros e He. apply Hone; [reflexivity | exact He].
    - assert (Hmt : m == total_w (wedges gu)).
      { destruct weighted.
        + apply size_q_weighted; [|exact Hsz]. intros e He. destruct (Hw e He) as [z [Hz _]]. eauto.
        + apply size_q_unweighted; [|exact Hsz]. intros e He. apply Hone; [reflexivity | exact He]. }
      rewrite Hmt. apply total_w_nonneg. apply (LG_nonneg gu N LG).
    - unfold map_node_names_to_hashsets. fold (gnames gu). rewrite (sort_by_perm_seq (gnames gu) N Hperm). reflexivity.
    - intros c p Hp. rewrite nth_error_map_seq in Hp. destruct (Nat.ltb c N) eqn:E; [|discriminate].
      inversion Hp. subst p. apply Nat.ltb_lt in E. rewrite Hattr by exact E.
      split; [constructor; [intros [] | constructor] | intro x; reflexivity].
  Qed.

  (* Monotonicity: on the first working graph the modularity of the first level is at least that
     of the singletons, and it never decreases from one level to the next. *)
  Theorem louvain_levels_monotone :
    forall lf sf (g : gstate T A) weighted res thr perms ls tie,
      WF teqb tltb g -> weights_ok g weighted -> 0 <= res ->
      louvain_partitions_t teqb tltb lf sf g weighted res thr perms = Ok (ls, tie) ->
      exists gu levels first rest,
        convert_graph teqb tltb g weighted (node_map_of tltb g) = Ok gu /\
        convert_back (node_map_of tltb g) levels = Ok ls /\ levels = first :: rest /\
        levels_ok (seq 0 (length (nodes_vec g))) levels /\
        let Qm := newman Nat.eqb (directed (sp gu)) (wedges gu) res in
        Qm (map (fun k => [k]) (seq 0 (length (nodes_vec g)))) <= Qm first /\
        chain (fun a b => Qm a <= Qm b) levels.
  Proof.
    intros lf sf g weighted res thr perms ls tie W Hwok Hres H. unfold louvain_partitions_t in H.
    destruct (negative_weight_guard g weighted); [discriminate|].
    apply bind_ok in H. destruct H as [gu [Hgu H]].
    apply bind_ok in H. destruct H as [mod0 [_ H]].
    apply bind_ok in H. destruct H as [m [Hsz H]].
    apply bind_ok in H. destruct H as [[[[p1 i1] imp1] tie1] [Hc H]].
    apply bind_ok in H. destruct H as [[levels tie0] [Hl H]].
    apply bind_ok in H. destruct H as [ls0 [Hcb H]]. inversion H. subst ls0 tie0. clear H.
    destruct (first_graph g weighted gu m W Hwok Hgu Hsz) as [LG [HF [AO [Hmt [Hmp [Hsing Hstart]]]]]].
    set (N := length (nodes_vec g)) in *. rewrite Hsing in Hc.
    assert (HlenS : length (map (fun k : nat => [k]) (seq 0 N)) = N) by (rewrite map_length, seq_length; reflexivity).
    destruct (compute_one_level_struct sf gu m _ res perms N (seq 0 N) p1 i1 imp1 tie1 (lg_names gu N LG) AO HlenS Hstart Hc)
      as [HPI [Hlv _]].
    assert (HL : LInv (wedges gu) (directed (sp gu)) (seq 0 N) gu N p1 i1) by (constructor; [exact LG | reflexivity | exact HF | exact AO | exact HPI]).
    pose proof (level_result_ge_singletons_newman gu N LG m res Hmp Hres sf _ perms p1 i1 imp1 tie1 Hmt HlenS Hstart Hc) as Hge.
    rewrite <- (LInv_Qm (wedges gu) (directed (sp gu)) (seq 0 N) res gu N p1 i1 HL) in Hge.
    destruct (level_loop_monotone (wedges gu) (directed (sp gu)) (seq 0 N) m res Hmt Hmp Hres
                lf sf weighted thr perms gu N p1 i1 mod0 [] tie1 levels tie HL) as [Hch [rest Hr]];
      [cbn; exact I | exact Hl |].
    cbn [app] in Hr.
    exists gu, levels, p1, rest. split; [exact Hgu|]. split; [exact Hcb|]. split; [exact Hr|]. split.
    - apply (level_loop_levels lf sf weighted res thr perms m (seq 0 N) gu N p1 i1 mod0 [] tie1 levels tie
               (lg_names gu N LG) AO HPI); [constructor | cbn; exact I | exact Hl].
    - cbn zeta. split; [exact Hge | exact Hch].
  Qed.

  (* Termination: with one unit of level fuel per node (+1) and N^N units of sweep fuel the model
     never returns OutOfFuel. *)
  Theorem louvain_partitions_t_never_out_of_fuel :
    forall lf sf (g : gstate T A) weighted res thr perms,
      WF teqb tltb g -> weights_ok g weighted -> 0 <= res ->
      (length (nodes_vec g) < lf)%nat -> (length (nodes_vec g) ^ length (nodes_vec g) <= sf)%nat ->
      louvain_partitions_t teqb tltb lf sf g weighted res thr perms <> OutOfFuel.
  Proof.
    intros lf sf g weighted res thr perms W Hwok Hres Hlf Hsf H.
    apply louvain_partitions_t_fuel_cases in H. destruct H as [gu [mod0 [m [Hgu [_ [Hsz Hcase]]]]]].
    destruct (first_graph g weighted gu m W Hwok Hgu Hsz) as [LG [HF [AO [Hmt [Hmp [Hsing Hstart]]]]]].
    set (N := length (nodes_vec g)) in *. rewrite Hsing in Hcase.
    assert (HlenS : length (map (fun k : nat => [k]) (seq 0 N)) = N) by (rewrite map_length, seq_length; reflexivity).
    destruct Hcase as [Hoof|[p1 [i1 [b [tie1 [Hc Hloop]]]]]].
    - destruct (compute_one_level_fuel_only_from_sweeps _ _ _ _ _ _ Hoof) as [di [order [_ [Hord _]]]].
      destruct (level_total gu N LG m res Hmp Hres sf _ perms order HlenS Hstart Hord Hsf) as [p2 [i2 [imp [tie2 [Hc _]]]]].
      congruence.
    - destruct (compute_one_level_struct sf gu m _ res perms N (seq 0 N) p1 i1 b tie1 (lg_names gu N LG) AO HlenS Hstart Hc)
        as [HPI _].
      assert (HL : LInv (wedges gu) (directed (sp gu)) (seq 0 N) gu N p1 i1) by (constructor; [exact LG | reflexivity | exact HF | exact AO | exact HPI]).
      pose proof (level_result_length gu N LG m res Hmp Hres sf _ perms p1 i1 b tie1 HlenS Hstart Hc) as Hlen1.
      apply (level_loop_never_out_of_fuel (wedges gu) (directed (sp gu)) (seq 0 N) m res Hmt Hmp Hres
               lf sf weighted thr perms gu N p1 i1 mod0 [] tie1 N HL); [lia | exact Hlen1 | exact Hsf | exact Hloop].
  Qed.

  Corollary louvain_partitions_never_out_of_fuel :
    forall lf sf (g : gstate T A) weighted res thr perms,
      WF teqb tltb g -> weights_ok g weighted -> 0 <= res ->
      (length (nodes_vec g) < lf)%nat -> (length (nodes_vec g) ^ length (nodes_vec g) <= sf)%nat ->
      louvain_partitions teqb tltb lf sf g weighted res thr perms <> OutOfFuel /\
      louvain_communities teqb tltb lf sf g weighted res thr perms <> OutOfFuel.
  Proof.
    intros lf sf g weighted res thr perms W Hwok Hres Hlf Hsf.
    pose proof (louvain_partitions_t_never_out_of_fuel lf sf g weighted res thr perms W Hwok Hres Hlf Hsf) as Hn.
    split; intro H; apply Hn.
    - apply (louvain_partitions_fuel_inv teqb tltb lf sf g weighted res thr perms H).
    - apply (louvain_communities_fuel_inv teqb tltb lf sf g weighted res thr perms H).
  Qed.
End Entry.

(* ---- the hypotheses are satisfiable: an evaluated instance with two levels (a ring of four pairs) ---- *)
Local Notation mo_ex_graph :=
  (new_from_nodes_and_edges Z.eqb Z.ltb
    (map (fun z => mknode z (None : option Z)) [1; 2; 3; 4; 5; 6; 7; 8]%Z)
    [mkedge 1%Z 2%Z None None; mkedge 3%Z 4%Z None None; mkedge 5%Z 6%Z None None;
     mkedge 7%Z 8%Z None None; mkedge 2%Z 3%Z None None; mkedge 6%Z 7%Z None None;
     mkedge 1%Z 4%Z None None; mkedge 5%Z 8%Z None None; mkedge 4%Z 5%Z None None]
    (mkspecs false DErr MCreate false true SErr)) (only parsing).
Definition mo_ex_perms : list (list nat) :=
  [[0]; [1; 0]; [2; 0; 1]; [3; 1; 0; 2]; [4; 2; 0; 3; 1]; [5; 3; 1; 0; 2; 4]; [6; 0; 3; 1; 5; 2; 4];
   [0; 1; 2; 3; 4; 5; 6; 7]]%nat.
Definition mo_ex_levels : list (list (list Z)) :=
  [[[2; 1]; [4; 3]; [5; 8]; [7; 6]]; [[2; 1; 4; 3]; [5; 8; 7; 6]]]%Z.

Example louvain_model_nonvacuous :
  exists g,
    mo_ex_graph = Ok g /\ WF Z.eqb Z.ltb g /\ weights_ok g false /\ 0 <= 1 /\
    (length (nodes_vec g) < 10)%nat /\
    louvain_partitions_t Z.eqb Z.ltb 10 50 g false 1 (1 # 10000000) mo_ex_perms = Ok (mo_ex_levels, false).
Proof.
  assert (Zasym : forall x y : Z, Z.ltb x y = true -> Z.ltb y x = false).
  { intros x y H. apply Z.ltb_lt in H. apply Z.ltb_ge. lia. }
  assert (Ztot : forall x y : Z, Z.ltb x y = false -> Z.ltb y x = false -> x = y).
  { intros x y H1 H2. apply Z.ltb_ge in H1. apply Z.ltb_ge in H2. lia. }
  assert (R : match mo_ex_graph with
              | Ok g => (length (nodes_vec g) < 10)%nat /\
                        louvain_partitions_t Z.eqb Z.ltb 10 50 g false 1 (1 # 10000000) mo_ex_perms = Ok (mo_ex_levels, false)
              | _ => False
              end) by (vm_compute; split; [lia | reflexivity]).
  destruct mo_ex_graph as [g|k|s|] eqn:E; try contradiction.
  exists g. split; [reflexivity|]. split.
  - apply (WF_reachable Z.eqb Z.ltb Z.eqb_eq Zasym Ztot (mkspecs false DErr MCreate false true SErr)).
    eapply new_from_reachable; [exact Z.eqb_eq | exact E].
  - split; [intro H; discriminate|]. split; [lra | exact R].
Qed.
