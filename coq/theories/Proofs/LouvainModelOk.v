(* C13, deepening (round 2): the whole model.  Every working graph that louvain_partitions builds
   (the converted graph, then each generate_graph) is a LevelGraph, faithful to the first one, and
   the constant m the model carries is the total edge weight of every level; hence for every
   input with non-negative real weights (or weighted = false) and resolution >= 0: every
   local-moving phase returns with fuel >= N^N, every accepted move strictly increases Newman's
   modularity of its level graph, the first level is at least as good as the singletons and the
   modularity (on the first working graph) never decreases from one level to the next. *)
From Coq Require Import String List Bool ZArith Arith QArith Lia Lqa Permutation Setoid Morphisms.
From GV Require Import Base.Outcome Base.AMap Model.GState Model.Creation Model.Query Model.Derived
     Model.Partition Model.Louvain Spec.AGraph Spec.PartitionDef.
From GV Require Import Proofs.AMapOk Proofs.WFDefs Proofs.WFNode Proofs.QueryOk Proofs.DegreeOk
     Proofs.PartitionOk Proofs.LouvainOk Proofs.MoveGainOk Proofs.AggregationOk
     Proofs.LouvainSets Proofs.LouvainStructOk Proofs.LouvainNumOk Proofs.LouvainTermOk
     Proofs.LouvainLevelOk Proofs.LouvainGenGraphOk Proofs.LouvainAggOk Proofs.LouvainConvertOk.
Import ListNotations.
Open Scope Q_scope.

(* ---------------- the constant m ---------------- *)
Lemma total_w_wedges : forall (l : list ledge), total_w (map wq l) = qsum (map (fun e => inject_Z (zw_ e)) l).
Proof. intro l. unfold total_w. rewrite map_map. reflexivity. Qed.

Lemma size_q_weighted : forall (g : lgraph) m,
  (forall e, In e (get_all_edges g) -> exists z, ew e = Some z) ->
  size_q g true = Ok m -> m == total_w (wedges g).
Proof.
  intros g m Hreal H. unfold size_q, size_weighted in H.
  rewrite (wsum_real (get_all_edges g) Hreal) in H. cbn [q_of_w] in H. inversion H. subst m.
  unfold wedges. rewrite total_w_wedges. apply (zsum_q (get_all_edges g)).
Qed.

Lemma size_q_unweighted : forall (g : lgraph) m,
  (forall e, In e (get_all_edges g) -> ew e = Some 1%Z) ->
  size_q g false = Ok m -> m == total_w (wedges g).
Proof.
  intros g m Hone H. unfold size_q, size_unweighted in H. inversion H. subst m. clear H.
  unfold wedges. rewrite total_w_wedges. induction (get_all_edges g) as [|e t IH]; [reflexivity|].
  cbn [length map qsum]. rewrite Nat2Z.inj_succ, <- Z.add_1_l, inject_Z_plus.
  rewrite IH by (intros e' He'; apply Hone; right; exact He').
  unfold zw_. rewrite (Hone e (or_introl eq_refl)). reflexivity.
Qed.

Lemma total_w_nonneg : forall es : list wedgeN, (forall w, In w es -> 0 <= ww w) -> 0 <= total_w es.
Proof.
  intros es H. rewrite total_w_wsel. apply wsel_nonneg. exact H.
Qed.
