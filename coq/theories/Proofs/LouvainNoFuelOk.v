(* OutOfFuel is produced only by the explicit-fuel loops.  The fuel-free functions used by the
   Louvain model (Model/Louvain.v) never return [OutOfFuel], for ALL inputs (no well-formedness
   hypothesis on the graph state, no hypothesis on the name equality); consequently
   [compute_one_level] runs out of fuel only through [sweeps], and [level_loop] /
   [louvain_partitions_t] only through [compute_one_level] or the recursive call. *)
From Coq Require Import String List Bool ZArith NArith Arith QArith Qabs Lia.
From GV Require Import Base.Outcome Base.AMap Model.GState Model.Creation Model.Query Model.Derived
     Model.Partition Model.Louvain.
Import ListNotations.

(* ---------------- generic facts about the outcome monad ---------------- *)

Lemma is_fuel_false_iff : forall {X} (o : outcome X), is_fuel o = false <-> o <> OutOfFuel.
Proof. intros X o. destruct o; cbn; split; intro H; try reflexivity; try discriminate; congruence. Qed.

Lemma bind_fuel_inv : forall {X Y} (o : outcome X) (f : X -> outcome Y),
  bind o f = OutOfFuel -> o = OutOfFuel \/ exists a, o = Ok a /\ f a = OutOfFuel.
Proof.
  intros X Y o f H. destruct o as [a| | |]; cbn [bind] in H; try discriminate.
  - right. exists a. split; [reflexivity | exact H].
  - left. reflexivity.
Qed.

Lemma bind_nf : forall {X Y} (o : outcome X) (f : X -> outcome Y),
  o <> OutOfFuel -> (forall a, f a <> OutOfFuel) -> bind o f <> OutOfFuel.
Proof.
  intros X Y o f Ho Hf H. apply bind_fuel_inv in H. destruct H as [H|[a [_ H]]]; [exact (Ho H) | exact (Hf a H)].
Qed.

Lemma omap_nf : forall {X Y} (f : X -> Y) (o : outcome X), o <> OutOfFuel -> omap f o <> OutOfFuel.
Proof. intros X Y f o Ho. unfold omap. apply bind_nf; [exact Ho | intros a; discriminate]. Qed.

Lemma ofold_nf : forall {S X} (f : S -> X -> outcome S) (l : list X) (s : S),
  (forall s x, f s x <> OutOfFuel) -> ofold f l s <> OutOfFuel.
Proof.
  intros S X f l. induction l as [|x t IH]; intros s Hf; cbn [ofold]; [discriminate|].
  apply bind_nf; [apply Hf | intros s'; apply IH; exact Hf].
Qed.

Lemma omapM_nf : forall {X Y} (f : X -> outcome Y) (l : list X),
  (forall x, f x <> OutOfFuel) -> omapM f l <> OutOfFuel.
Proof.
  intros X Y f l Hf. induction l as [|x t IH]; cbn [omapM]; [discriminate|].
  apply bind_nf; [apply Hf | intros y]. apply bind_nf; [exact IH | intros ys; discriminate].
Qed.

Lemma unwrap_at_nf : forall {X} site (o : option X), unwrap_at site o <> OutOfFuel.
Proof. intros X site o. destruct o; cbn; discriminate. Qed.

Lemma unwrap_res_fuel_inv : forall {X} site (r : outcome X), unwrap_res site r = OutOfFuel -> r = OutOfFuel.
Proof. intros X site r H. destruct r; cbn in H; try discriminate. reflexivity. Qed.

Lemma unwrap_res_nf : forall {X} site (r : outcome X), r <> OutOfFuel -> unwrap_res site r <> OutOfFuel.
Proof. intros X site r Hr H. apply Hr. exact (unwrap_res_fuel_inv site r H). Qed.

Lemma unwrap_res_ok_inv : forall {X} site (r : outcome X) x, unwrap_res site r = Ok x -> r = Ok x.
Proof. intros X site r x H. destruct r; cbn in H; try discriminate. exact H. Qed.

Lemma unwrap_graph_fuel_inv : forall {T A} site (r : outcome (gstate T A)),
  unwrap_graph site r = OutOfFuel -> r = OutOfFuel.
Proof. intros T A site r H. destruct r; cbn in H; try discriminate. reflexivity. Qed.

Lemma unwrap_graph_nf : forall {T A} site (r : outcome (gstate T A)),
  r <> OutOfFuel -> unwrap_graph site r <> OutOfFuel.
Proof. intros T A site r Hr H. apply Hr. exact (unwrap_graph_fuel_inv site r H). Qed.

(* ---------------- the tactic ---------------- *)

Create HintDb nf.

(* a hypothesis [x = OutOfFuel] on a call known never to run out of fuel *)
Ltac nf_absurd :=
  match goal with
  | H : ?x = OutOfFuel |- _ =>
    exfalso; revert H; change (x <> OutOfFuel)
  | H : ?x = (_, OutOfFuel) |- _ =>
    exfalso; assert (snd x <> OutOfFuel) as K by (solve [auto with nf]);
    rewrite H in K; exact (K eq_refl)
  end.

Ltac nf_step :=
  match goal with
  | |- Ok _ <> OutOfFuel => discriminate
  | |- Err _ <> OutOfFuel => discriminate
  | |- Panic _ <> OutOfFuel => discriminate
  | |- OutOfFuel <> OutOfFuel => nf_absurd
  | |- snd (_, _) <> OutOfFuel => cbn [snd]
  | |- _ <> OutOfFuel => solve [auto with nf]
  | |- bind _ _ <> OutOfFuel => apply bind_nf; [|intros ?]
  | |- unwrap_at _ _ <> OutOfFuel => apply unwrap_at_nf
  | |- unwrap_res _ _ <> OutOfFuel => apply unwrap_res_nf
  | |- unwrap_graph _ _ <> OutOfFuel => apply unwrap_graph_nf
  | |- ofold _ _ _ <> OutOfFuel => apply ofold_nf; intros ? ?
  | |- omapM _ _ <> OutOfFuel => apply omapM_nf; intros ?
  | |- (if ?b then _ else _) <> OutOfFuel => destruct b eqn:?
  | |- (match ?x with _ => _ end) <> OutOfFuel => destruct x eqn:?
  | |- snd (if ?b then _ else _) <> OutOfFuel => destruct b eqn:?
  | |- snd (match ?x with _ => _ end) <> OutOfFuel => destruct x eqn:?
  end.
Ltac nf := repeat nf_step.

(* ---------------- 1. get_node, get_edge ---------------- *)
Section Generic.
  Context {T A : Type}.
  Variable teqb : T -> T -> bool.
  Variable tltb : T -> T -> bool.
  Notation node := (node T A).
  Notation edge := (edge T A).
  Notation gstate := (gstate T A).

  Lemma get_node_index_nf : forall (g : gstate) x, get_node_index teqb g x <> OutOfFuel.
  Proof. intros g x. unfold get_node_index. nf. Qed.
  Hint Resolve get_node_index_nf : nf.

  Lemma get_node_nf : forall (g : gstate) x, get_node teqb g x <> OutOfFuel.
  Proof. intros g x. unfold get_node. nf. Qed.
  Hint Resolve get_node_nf : nf.

  Lemma get_edge_by_indexes_nf : forall (g : gstate) u v, get_edge_by_indexes g u v <> OutOfFuel.
  Proof. intros g u v. unfold get_edge_by_indexes. nf. Qed.
  Hint Resolve get_edge_by_indexes_nf : nf.

  Lemma get_edge_nf : forall (g : gstate) u v, get_edge teqb g u v <> OutOfFuel.
  Proof. intros g u v. unfold get_edge. nf. Qed.
  Hint Resolve get_edge_nf : nf.

  (* ---------------- 2. creation ---------------- *)
  Lemma add_node_nf : forall (g : gstate) n, add_node teqb g n <> OutOfFuel.
  Proof. intros g n. unfold add_node. nf. Qed.
  Hint Resolve add_node_nf : nf.

  Lemma add_nodes_nf : forall (g : gstate) ns, add_nodes teqb g ns <> OutOfFuel.
  Proof. intros g ns. unfold add_nodes. nf. Qed.
  Hint Resolve add_nodes_nf : nf.

  Lemma add_to_adjacency_vec_nf : forall s av u v w ex, add_to_adjacency_vec s av u v w ex <> OutOfFuel.
  Proof. intros s av u v w ex. unfold add_to_adjacency_vec. nf. Qed.
  Hint Resolve add_to_adjacency_vec_nf : nf.

  Lemma link_adjacency_nf : forall (g2 : gstate) e ui vi ou ov ex,
    link_adjacency teqb g2 e ui vi ou ov ex <> OutOfFuel.
  Proof. intros g2 e ui vi ou ov ex. unfold link_adjacency. nf. Qed.
  Hint Resolve link_adjacency_nf : nf.

  Lemma add_edge_known_nf : forall (g2 : gstate) e ui vi,
    snd (add_edge_known teqb tltb g2 e ui vi) <> OutOfFuel.
  Proof. intros g2 e ui vi. unfold add_edge_known. nf. Qed.
  Hint Resolve add_edge_known_nf : nf.

  Lemma add_edge_nf : forall (g : gstate) e, snd (add_edge teqb tltb g e) <> OutOfFuel.
  Proof.
    intros g e. unfold add_edge. nf.
  Qed.
  Hint Resolve add_edge_nf : nf.

  Lemma add_edges_nf : forall es (g : gstate), snd (add_edges teqb tltb g es) <> OutOfFuel.
  Proof.
    induction es as [|e t IH]; intro g; cbn [add_edges]; [cbn [snd]; discriminate|].
    destruct (add_edge teqb tltb g e) as [g' r] eqn:E.
    destruct r; cbn [snd]; try discriminate; [apply IH|]. nf_absurd.
  Qed.
  Hint Resolve add_edges_nf : nf.

  Lemma new_from_nodes_and_edges_nf : forall (ns : list node) (es : list edge) s,
    new_from_nodes_and_edges teqb tltb ns es s <> OutOfFuel.
  Proof.
    intros ns es s. unfold new_from_nodes_and_edges. nf_step; [nf|].
    destruct (add_edges teqb tltb a es) as [g2 r] eqn:E. destruct r; try discriminate. nf_absurd.
  Qed.
  Hint Resolve new_from_nodes_and_edges_nf : nf.

  (* ---------------- 3. derived graphs ---------------- *)
  Lemma get_subgraph_nf : forall (g : gstate) xs, get_subgraph teqb tltb g xs <> OutOfFuel.
  Proof. intros g xs. unfold get_subgraph. nf. Qed.
  Hint Resolve get_subgraph_nf : nf.

  Lemma set_all_edge_weights_nf : forall (g : gstate) w, set_all_edge_weights teqb tltb g w <> OutOfFuel.
  Proof. intros g w. unfold set_all_edge_weights. nf. Qed.
  Hint Resolve set_all_edge_weights_nf : nf.

  Lemma to_single_edges_nf : forall (g : gstate), to_single_edges teqb tltb g <> OutOfFuel.
  Proof. intros g. unfold to_single_edges. nf. Qed.
  Hint Resolve to_single_edges_nf : nf.

  (* ---------------- 4. the degree maps ---------------- *)
  Lemma collect_groups_nf : forall (g : gstate) keyof names, collect_groups teqb g keyof names <> OutOfFuel.
  Proof.
    intros g keyof names. induction names as [|n t IH]; cbn [collect_groups]; nf.
  Qed.
  Hint Resolve collect_groups_nf : nf.

  Lemma node_is_none_nf : forall (g : gstate) x, node_is_none teqb g x <> OutOfFuel.
  Proof. intros g x. unfold node_is_none. nf. Qed.
  Hint Resolve node_is_none_nf : nf.

  Lemma get_edges_for_node_nf : forall (g : gstate) x, get_edges_for_node teqb tltb g x <> OutOfFuel.
  Proof. intros g x. unfold get_edges_for_node. nf. Qed.
  Hint Resolve get_edges_for_node_nf : nf.

  Lemma get_in_edges_for_node_nf : forall (g : gstate) x, get_in_edges_for_node teqb g x <> OutOfFuel.
  Proof. intros g x. unfold get_in_edges_for_node. nf. Qed.
  Hint Resolve get_in_edges_for_node_nf : nf.

  Lemma get_out_edges_for_node_nf : forall (g : gstate) x, get_out_edges_for_node teqb g x <> OutOfFuel.
  Proof. intros g x. unfold get_out_edges_for_node. nf. Qed.
  Hint Resolve get_out_edges_for_node_nf : nf.

  Lemma get_node_degree_nf : forall (g : gstate) x, get_node_degree teqb tltb g x <> OutOfFuel.
  Proof. intros g x. unfold get_node_degree. nf. Qed.
  Hint Resolve get_node_degree_nf : nf.

  Lemma get_node_in_degree_nf : forall (g : gstate) x, get_node_in_degree teqb g x <> OutOfFuel.
  Proof. intros g x. unfold get_node_in_degree, opt_len. nf. Qed.
  Hint Resolve get_node_in_degree_nf : nf.

  Lemma get_node_out_degree_nf : forall (g : gstate) x, get_node_out_degree teqb g x <> OutOfFuel.
  Proof. intros g x. unfold get_node_out_degree, opt_len. nf. Qed.
  Hint Resolve get_node_out_degree_nf : nf.

  Lemma get_node_weighted_degree_nf : forall (g : gstate) x, get_node_weighted_degree teqb tltb g x <> OutOfFuel.
  Proof. intros g x. unfold get_node_weighted_degree. nf. Qed.
  Hint Resolve get_node_weighted_degree_nf : nf.

  Lemma get_node_weighted_in_degree_nf : forall (g : gstate) x, get_node_weighted_in_degree teqb g x <> OutOfFuel.
  Proof. intros g x. unfold get_node_weighted_in_degree, opt_wsum. nf. Qed.
  Hint Resolve get_node_weighted_in_degree_nf : nf.

  Lemma get_node_weighted_out_degree_nf : forall (g : gstate) x, get_node_weighted_out_degree teqb g x <> OutOfFuel.
  Proof. intros g x. unfold get_node_weighted_out_degree, opt_wsum. nf. Qed.
  Hint Resolve get_node_weighted_out_degree_nf : nf.

  Lemma for_all_nodes_nf : forall {X} (g : gstate) (f : gstate -> T -> outcome (option X)),
    (forall g x, f g x <> OutOfFuel) -> for_all_nodes g f <> OutOfFuel.
  Proof. intros X g f Hf. unfold for_all_nodes. nf. Qed.

  Lemma get_degree_for_all_nodes_nf : forall (g : gstate), get_degree_for_all_nodes teqb tltb g <> OutOfFuel.
  Proof. intros g. unfold get_degree_for_all_nodes. apply for_all_nodes_nf. auto with nf. Qed.
  Lemma get_in_degree_for_all_nodes_nf : forall (g : gstate), get_in_degree_for_all_nodes teqb g <> OutOfFuel.
  Proof. intros g. unfold get_in_degree_for_all_nodes. nf. apply for_all_nodes_nf. auto with nf. Qed.
  Lemma get_out_degree_for_all_nodes_nf : forall (g : gstate), get_out_degree_for_all_nodes teqb g <> OutOfFuel.
  Proof. intros g. unfold get_out_degree_for_all_nodes. nf. apply for_all_nodes_nf. auto with nf. Qed.
  Lemma get_weighted_degree_for_all_nodes_nf : forall (g : gstate),
    get_weighted_degree_for_all_nodes teqb tltb g <> OutOfFuel.
  Proof. intros g. unfold get_weighted_degree_for_all_nodes. apply for_all_nodes_nf. auto with nf. Qed.
  Lemma get_weighted_in_degree_for_all_nodes_nf : forall (g : gstate),
    get_weighted_in_degree_for_all_nodes teqb g <> OutOfFuel.
  Proof. intros g. unfold get_weighted_in_degree_for_all_nodes. nf. apply for_all_nodes_nf. auto with nf. Qed.
  Lemma get_weighted_out_degree_for_all_nodes_nf : forall (g : gstate),
    get_weighted_out_degree_for_all_nodes teqb g <> OutOfFuel.
  Proof. intros g. unfold get_weighted_out_degree_for_all_nodes. nf. apply for_all_nodes_nf. auto with nf. Qed.
  Hint Resolve get_degree_for_all_nodes_nf get_in_degree_for_all_nodes_nf get_out_degree_for_all_nodes_nf
       get_weighted_degree_for_all_nodes_nf get_weighted_in_degree_for_all_nodes_nf
       get_weighted_out_degree_for_all_nodes_nf : nf.

  (* ---------------- 5. is_partition, modularity ---------------- *)
  Lemma is_partition_scan_nf : forall (g : gstate) names seen, is_partition_scan teqb g names seen <> OutOfFuel.
  Proof.
    intros g names. induction names as [|x t IH]; intro seen; cbn [is_partition_scan]; nf.
  Qed.
  Hint Resolve is_partition_scan_nf : nf.

  Lemma is_partition_nf : forall (g : gstate) comms, is_partition teqb g comms <> OutOfFuel.
  Proof. intros g comms. unfold is_partition. nf. Qed.
  Hint Resolve is_partition_nf : nf.

  Lemma sum_over_nf : forall site (m : list (T * oq)) c, sum_over teqb site m c <> OutOfFuel.
  Proof.
    intros site m c. induction c as [|x t IH]; cbn [sum_over]; nf.
  Qed.
  Hint Resolve sum_over_nf : nf.

  Lemma modularity_nf : forall (g : gstate) comms weighted resolution,
    modularity teqb tltb g comms weighted resolution <> OutOfFuel.
  Proof.
    intros g comms weighted resolution. unfold modularity. nf.
  Qed.
  Hint Resolve modularity_nf : nf.

End Generic.
