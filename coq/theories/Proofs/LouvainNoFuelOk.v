(* OutOfFuel is produced only by the explicit-fuel loops.  The fuel-free functions used by the
   Louvain model (Model/Louvain.v) never return [OutOfFuel], for ALL inputs (no well-formedness
   hypothesis on the graph state, no hypothesis on the name equality); consequently
   [compute_one_level] runs out of fuel only through [sweeps], and [level_loop] /
   [louvain_partitions_t] only through [compute_one_level] or the recursive call. *)
From Coq Require Import String List Bool ZArith NArith Arith QArith Qabs Lia.
From GV Require Import Base.Outcome Base.AMap Model.GState Model.Creation Model.Query Model.Derived
     Model.Partition Model.Louvain.
Import ListNotations.

(* ---------------- generic facts about the outcome monad ---------------- *)

Lemma is_fuel_false_iff : forall {X} (o : outcome X), is_fuel o = false <-> o <> OutOfFuel.
Proof. intros X o. destruct o; cbn; split; intro H; try reflexivity; try discriminate; congruence. Qed.

Lemma bind_fuel_inv : forall {X Y} (o : outcome X) (f : X -> outcome Y),
  bind o f = OutOfFuel -> o = OutOfFuel \/ exists a, o = Ok a /\ f a = OutOfFuel.
Proof.
  intros X Y o f H. destruct o as [a| | |]; cbn [bind] in H; try discriminate.
  - right. exists a. split; [reflexivity | exact H].
  - left. reflexivity.
Qed.

Lemma bind_nf : forall {X Y} (o : outcome X) (f : X -> outcome Y),
  o <> OutOfFuel -> (forall a, f a <> OutOfFuel) -> bind o f <> OutOfFuel.
Proof.
  intros X Y o f Ho Hf H. apply bind_fuel_inv in H. destruct H as [H|[a [_ H]]]; [exact (Ho H) | exact (Hf a H)].
Qed.

Lemma omap_nf : forall {X Y} (f : X -> Y) (o : outcome X), o <> OutOfFuel -> omap f o <> OutOfFuel.
Proof. intros X Y f o Ho. unfold omap. apply bind_nf; [exact Ho | intros a; discriminate]. Qed.

Lemma ofold_nf : forall {S X} (f : S -> X -> outcome S) (l : list X) (s : S),
  (forall s x, f s x <> OutOfFuel) -> ofold f l s <> OutOfFuel.
Proof.
  intros S X f l. induction l as [|x t IH]; intros s Hf; cbn [ofold]; [discriminate|].
  apply bind_nf; [apply Hf | intros s'; apply IH; exact Hf].
Qed.

Lemma omapM_nf : forall {X Y} (f : X -> outcome Y) (l : list X),
  (forall x, f x <> OutOfFuel) -> omapM f l <> OutOfFuel.
Proof.
  intros X Y f l Hf. induction l as [|x t IH]; cbn [omapM]; [discriminate|].
  apply bind_nf; [apply Hf | intros y]. apply bind_nf; [exact IH | intros ys; discriminate].
Qed.

Lemma unwrap_at_nf : forall {X} site (o : option X), unwrap_at site o <> OutOfFuel.
Proof. intros X site o. destruct o; cbn; discriminate. Qed.

Lemma unwrap_res_fuel_inv : forall {X} site (r : outcome X), unwrap_res site r = OutOfFuel -> r = OutOfFuel.
Proof. intros X site r H. destruct r; cbn in H; try discriminate. reflexivity. Qed.

Lemma unwrap_res_nf : forall {X} site (r : outcome X), r <> OutOfFuel -> unwrap_res site r <> OutOfFuel.
Proof. intros X site r Hr H. apply Hr. exact (unwrap_res_fuel_inv site r H). Qed.

Lemma unwrap_res_ok_inv : forall {X} site (r : outcome X) x, unwrap_res site r = Ok x -> r = Ok x.
Proof. intros X site r x H. destruct r; cbn in H; try discriminate. exact H. Qed.

Lemma unwrap_graph_fuel_inv : forall {T A} site (r : outcome (gstate T A)),
  unwrap_graph site r = OutOfFuel -> r = OutOfFuel.
Proof. intros T A site r H. destruct r; cbn in H; try discriminate. reflexivity. Qed.

Lemma unwrap_graph_nf : forall {T A} site (r : outcome (gstate T A)),
  r <> OutOfFuel -> unwrap_graph site r <> OutOfFuel.
Proof. intros T A site r Hr H. apply Hr. exact (unwrap_graph_fuel_inv site r H). Qed.

(* ---------------- the tactic ---------------- *)

Create HintDb nf.

(* a hypothesis [x = OutOfFuel] on a call known never to run out of fuel *)
Ltac nf_absurd :=
  match goal with
  | H : ?x = (_, OutOfFuel) |- _ =>
    exfalso; assert (snd x <> OutOfFuel) as K by (solve [auto with nf]);
    rewrite H in K; exact (K eq_refl)
  | H : ?x = OutOfFuel |- _ =>
    assert_fails (is_var x); exfalso; revert H; change (x <> OutOfFuel)
  end.

Ltac nf_step :=
  match goal with
  | |- Ok _ <> OutOfFuel => discriminate
  | |- Err _ <> OutOfFuel => discriminate
  | |- Panic _ <> OutOfFuel => discriminate
  | |- OutOfFuel <> OutOfFuel => nf_absurd
  | |- snd (_, _) <> OutOfFuel => cbn [snd]
  | |- _ <> OutOfFuel => solve [auto with nf]
  | |- bind _ _ <> OutOfFuel => apply bind_nf; [|intros ?]
  | |- unwrap_at _ _ <> OutOfFuel => apply unwrap_at_nf
  | |- unwrap_res _ _ <> OutOfFuel => apply unwrap_res_nf
  | |- unwrap_graph _ _ <> OutOfFuel => apply unwrap_graph_nf
  | |- ofold _ _ _ <> OutOfFuel => apply ofold_nf; intros ? ?
  | |- omapM _ _ <> OutOfFuel => apply omapM_nf; intros ?
  | |- (if ?b then _ else _) <> OutOfFuel => destruct b eqn:?
  | |- (match ?x with _ => _ end) <> OutOfFuel => destruct x eqn:?
  | |- snd (if ?b then _ else _) <> OutOfFuel => destruct b eqn:?
  | |- snd (match ?x with _ => _ end) <> OutOfFuel => destruct x eqn:?
  end.
Ltac nf := repeat nf_step.

(* ---------------- 1. get_node, get_edge ---------------- *)
Section Generic.
  Context {T A : Type}.
  Variable teqb : T -> T -> bool.
  Variable tltb : T -> T -> bool.
  Notation node := (node T A).
  Notation edge := (edge T A).
  Notation gstate := (gstate T A).

  Lemma get_node_index_nf : forall (g : gstate) x, get_node_index teqb g x <> OutOfFuel.
  Proof. intros g x. unfold get_node_index. nf. Qed.
  Hint Resolve get_node_index_nf : nf.

  Lemma get_node_nf : forall (g : gstate) x, get_node teqb g x <> OutOfFuel.
  Proof. intros g x. unfold get_node. nf. Qed.
  Hint Resolve get_node_nf : nf.

  Lemma get_edge_by_indexes_nf : forall (g : gstate) u v, get_edge_by_indexes g u v <> OutOfFuel.
  Proof. intros g u v. unfold get_edge_by_indexes. nf. Qed.
  Hint Resolve get_edge_by_indexes_nf : nf.

  Lemma get_edge_nf : forall (g : gstate) u v, get_edge teqb g u v <> OutOfFuel.
  Proof. intros g u v. unfold get_edge. nf. Qed.
  Hint Resolve get_edge_nf : nf.

  (* ---------------- 2. creation ---------------- *)
  Lemma add_node_nf : forall (g : gstate) n, add_node teqb g n <> OutOfFuel.
  Proof. intros g n. unfold add_node. nf. Qed.
  Hint Resolve add_node_nf : nf.

  Lemma add_nodes_nf : forall (g : gstate) ns, add_nodes teqb g ns <> OutOfFuel.
  Proof. intros g ns. unfold add_nodes. nf. Qed.
  Hint Resolve add_nodes_nf : nf.

  Lemma add_to_adjacency_vec_nf : forall s av u v w ex, add_to_adjacency_vec s av u v w ex <> OutOfFuel.
  Proof. intros s av u v w ex. unfold add_to_adjacency_vec. nf. Qed.
  Hint Resolve add_to_adjacency_vec_nf : nf.

  Lemma link_adjacency_nf : forall (g2 : gstate) e ui vi ou ov ex,
    link_adjacency teqb g2 e ui vi ou ov ex <> OutOfFuel.
  Proof. intros g2 e ui vi ou ov ex. unfold link_adjacency. nf. Qed.
  Hint Resolve link_adjacency_nf : nf.

  Lemma add_edge_known_nf : forall (g2 : gstate) e ui vi,
    snd (add_edge_known teqb tltb g2 e ui vi) <> OutOfFuel.
  Proof. intros g2 e ui vi. unfold add_edge_known. nf. Qed.
  Hint Resolve add_edge_known_nf : nf.

  Lemma add_edge_nf : forall (g : gstate) e, snd (add_edge teqb tltb g e) <> OutOfFuel.
  Proof.
    intros g e. unfold add_edge. nf.
  Qed.
  Hint Resolve add_edge_nf : nf.

  Lemma add_edges_nf : forall es (g : gstate), snd (add_edges teqb tltb g es) <> OutOfFuel.
  Proof.
    induction es as [|e t IH]; intro g; cbn [add_edges]; [cbn [snd]; discriminate|].
    destruct (add_edge teqb tltb g e) as [g' r] eqn:E.
    destruct r; cbn [snd]; try discriminate; [apply IH|]. nf_absurd.
  Qed.
  Hint Resolve add_edges_nf : nf.

  Lemma new_from_nodes_and_edges_nf : forall (ns : list node) (es : list edge) s,
    new_from_nodes_and_edges teqb tltb ns es s <> OutOfFuel.
  Proof.
    intros ns es s. unfold new_from_nodes_and_edges. nf_step; [nf|].
    destruct (add_edges teqb tltb a es) as [g2 r] eqn:E. destruct r; try discriminate. nf_absurd.
  Qed.
  Hint Resolve new_from_nodes_and_edges_nf : nf.

  (* ---------------- 3. derived graphs ---------------- *)
  Lemma get_subgraph_nf : forall (g : gstate) xs, get_subgraph teqb tltb g xs <> OutOfFuel.
  Proof. intros g xs. unfold get_subgraph. nf. Qed.
  Hint Resolve get_subgraph_nf : nf.

  Lemma set_all_edge_weights_nf : forall (g : gstate) w, set_all_edge_weights teqb tltb g w <> OutOfFuel.
  Proof. intros g w. unfold set_all_edge_weights. nf. Qed.
  Hint Resolve set_all_edge_weights_nf : nf.

  Lemma to_single_edges_nf : forall (g : gstate), to_single_edges teqb tltb g <> OutOfFuel.
  Proof. intros g. unfold to_single_edges. nf. Qed.
  Hint Resolve to_single_edges_nf : nf.

  (* ---------------- 4. the degree maps ---------------- *)
  Lemma collect_groups_nf : forall (g : gstate) keyof names, collect_groups teqb g keyof names <> OutOfFuel.
  Proof.
    intros g keyof names. induction names as [|n t IH]; cbn [collect_groups]; nf.
  Qed.
  Hint Resolve collect_groups_nf : nf.

  Lemma node_is_none_nf : forall (g : gstate) x, node_is_none teqb g x <> OutOfFuel.
  Proof. intros g x. unfold node_is_none. nf. Qed.
  Hint Resolve node_is_none_nf : nf.

  Lemma get_edges_for_node_nf : forall (g : gstate) x, get_edges_for_node teqb tltb g x <> OutOfFuel.
  Proof. intros g x. unfold get_edges_for_node. nf. Qed.
  Hint Resolve get_edges_for_node_nf : nf.

  Lemma get_in_edges_for_node_nf : forall (g : gstate) x, get_in_edges_for_node teqb g x <> OutOfFuel.
  Proof. intros g x. unfold get_in_edges_for_node. nf. Qed.
  Hint Resolve get_in_edges_for_node_nf : nf.

  Lemma get_out_edges_for_node_nf : forall (g : gstate) x, get_out_edges_for_node teqb g x <> OutOfFuel.
  Proof. intros g x. unfold get_out_edges_for_node. nf. Qed.
  Hint Resolve get_out_edges_for_node_nf : nf.

  Lemma get_node_degree_nf : forall (g : gstate) x, get_node_degree teqb tltb g x <> OutOfFuel.
  Proof. intros g x. unfold get_node_degree. nf. Qed.
  Hint Resolve get_node_degree_nf : nf.

  Lemma get_node_in_degree_nf : forall (g : gstate) x, get_node_in_degree teqb g x <> OutOfFuel.
  Proof. intros g x. unfold get_node_in_degree, opt_len. nf. Qed.
  Hint Resolve get_node_in_degree_nf : nf.

  Lemma get_node_out_degree_nf : forall (g : gstate) x, get_node_out_degree teqb g x <> OutOfFuel.
  Proof. intros g x. unfold get_node_out_degree, opt_len. nf. Qed.
  Hint Resolve get_node_out_degree_nf : nf.

  Lemma get_node_weighted_degree_nf : forall (g : gstate) x, get_node_weighted_degree teqb tltb g x <> OutOfFuel.
  Proof. intros g x. unfold get_node_weighted_degree. nf. Qed.
  Hint Resolve get_node_weighted_degree_nf : nf.

  Lemma get_node_weighted_in_degree_nf : forall (g : gstate) x, get_node_weighted_in_degree teqb g x <> OutOfFuel.
  Proof. intros g x. unfold get_node_weighted_in_degree, opt_wsum. nf. Qed.
  Hint Resolve get_node_weighted_in_degree_nf : nf.

  Lemma get_node_weighted_out_degree_nf : forall (g : gstate) x, get_node_weighted_out_degree teqb g x <> OutOfFuel.
  Proof. intros g x. unfold get_node_weighted_out_degree, opt_wsum. nf. Qed.
  Hint Resolve get_node_weighted_out_degree_nf : nf.

  Lemma for_all_nodes_nf : forall {X} (g : gstate) (f : gstate -> T -> outcome (option X)),
    (forall g x, f g x <> OutOfFuel) -> for_all_nodes g f <> OutOfFuel.
  Proof. intros X g f Hf. unfold for_all_nodes. nf. Qed.

  Lemma get_degree_for_all_nodes_nf : forall (g : gstate), get_degree_for_all_nodes teqb tltb g <> OutOfFuel.
  Proof. intros g. unfold get_degree_for_all_nodes. apply for_all_nodes_nf. auto with nf. Qed.
  Lemma get_in_degree_for_all_nodes_nf : forall (g : gstate), get_in_degree_for_all_nodes teqb g <> OutOfFuel.
  Proof. intros g. unfold get_in_degree_for_all_nodes. nf. apply for_all_nodes_nf. auto with nf. Qed.
  Lemma get_out_degree_for_all_nodes_nf : forall (g : gstate), get_out_degree_for_all_nodes teqb g <> OutOfFuel.
  Proof. intros g. unfold get_out_degree_for_all_nodes. nf. apply for_all_nodes_nf. auto with nf. Qed.
  Lemma get_weighted_degree_for_all_nodes_nf : forall (g : gstate),
    get_weighted_degree_for_all_nodes teqb tltb g <> OutOfFuel.
  Proof. intros g. unfold get_weighted_degree_for_all_nodes. apply for_all_nodes_nf. auto with nf. Qed.
  Lemma get_weighted_in_degree_for_all_nodes_nf : forall (g : gstate),
    get_weighted_in_degree_for_all_nodes teqb g <> OutOfFuel.
  Proof. intros g. unfold get_weighted_in_degree_for_all_nodes. nf. apply for_all_nodes_nf. auto with nf. Qed.
  Lemma get_weighted_out_degree_for_all_nodes_nf : forall (g : gstate),
    get_weighted_out_degree_for_all_nodes teqb g <> OutOfFuel.
  Proof. intros g. unfold get_weighted_out_degree_for_all_nodes. nf. apply for_all_nodes_nf. auto with nf. Qed.
  Hint Resolve get_degree_for_all_nodes_nf get_in_degree_for_all_nodes_nf get_out_degree_for_all_nodes_nf
       get_weighted_degree_for_all_nodes_nf get_weighted_in_degree_for_all_nodes_nf
       get_weighted_out_degree_for_all_nodes_nf : nf.

  (* ---------------- 5. is_partition, modularity ---------------- *)
  Lemma is_partition_scan_nf : forall (g : gstate) names seen, is_partition_scan teqb g names seen <> OutOfFuel.
  Proof.
    intros g names. induction names as [|x t IH]; intro seen; cbn [is_partition_scan]; nf.
  Qed.
  Hint Resolve is_partition_scan_nf : nf.

  Lemma is_partition_nf : forall (g : gstate) comms, is_partition teqb g comms <> OutOfFuel.
  Proof. intros g comms. unfold is_partition. nf. Qed.
  Hint Resolve is_partition_nf : nf.

  Lemma sum_over_nf : forall site (m : list (T * oq)) c, sum_over teqb site m c <> OutOfFuel.
  Proof.
    intros site m c. induction c as [|x t IH]; cbn [sum_over]; nf.
  Qed.
  Hint Resolve sum_over_nf : nf.

  Lemma modularity_nf : forall (g : gstate) comms weighted resolution,
    modularity teqb tltb g comms weighted resolution <> OutOfFuel.
  Proof.
    intros g comms weighted resolution. unfold modularity. nf.
  Qed.
  Hint Resolve modularity_nf : nf.

End Generic.

#[global] Hint Resolve get_node_index_nf get_node_nf get_edge_by_indexes_nf get_edge_nf add_node_nf add_nodes_nf
  add_to_adjacency_vec_nf link_adjacency_nf add_edge_known_nf add_edge_nf add_edges_nf
  new_from_nodes_and_edges_nf get_subgraph_nf set_all_edge_weights_nf to_single_edges_nf
  collect_groups_nf node_is_none_nf get_edges_for_node_nf get_in_edges_for_node_nf get_out_edges_for_node_nf
  get_node_degree_nf get_node_in_degree_nf get_node_out_degree_nf get_node_weighted_degree_nf
  get_node_weighted_in_degree_nf get_node_weighted_out_degree_nf
  get_degree_for_all_nodes_nf get_in_degree_for_all_nodes_nf get_out_degree_for_all_nodes_nf
  get_weighted_degree_for_all_nodes_nf get_weighted_in_degree_for_all_nodes_nf
  get_weighted_out_degree_for_all_nodes_nf
  is_partition_scan_nf is_partition_nf sum_over_nf modularity_nf : nf.

(* ---------------- 6. the fuel-free parts of Model/Louvain.v ---------------- *)

Lemma q_of_w_nf : forall site w, q_of_w site w <> OutOfFuel.
Proof. intros site w. unfold q_of_w. nf. Qed.
#[global] Hint Resolve q_of_w_nf : nf.

Lemma wmap_q_nf : forall m, wmap_q m <> OutOfFuel.
Proof. intros m. unfold wmap_q. nf. Qed.
#[global] Hint Resolve wmap_q_nf : nf.

Lemma get_degree_information_nf : forall g partition, get_degree_information g partition <> OutOfFuel.
Proof. intros g partition. unfold get_degree_information. nf. Qed.
#[global] Hint Resolve get_degree_information_nf : nf.

Lemma vec_get_nf : forall site v i, vec_get site v i <> OutOfFuel.
Proof. intros site v i. unfold vec_get. nf. Qed.
#[global] Hint Resolve vec_get_nf : nf.

Lemma vec_add_nf : forall site v i d, vec_add site v i d <> OutOfFuel.
Proof. intros site v i d. unfold vec_add. nf. Qed.
#[global] Hint Resolve vec_add_nf : nf.

Lemma subtract_degree_from_best_com_nf : forall best_com u di dir,
  subtract_degree_from_best_com best_com u di dir <> OutOfFuel.
Proof. intros best_com u di dir. unfold subtract_degree_from_best_com. nf. Qed.
#[global] Hint Resolve subtract_degree_from_best_com_nf : nf.

Lemma add_degree_to_best_com_nf : forall best_com di dir, add_degree_to_best_com best_com di dir <> OutOfFuel.
Proof. intros best_com di dir. unfold add_degree_to_best_com. nf. Qed.
#[global] Hint Resolve add_degree_to_best_com_nf : nf.

Lemma neighbor_weights_into_nf : forall g u nbrs node2com towards acc0,
  neighbor_weights_into g u nbrs node2com towards acc0 <> OutOfFuel.
Proof. intros g u nbrs node2com towards acc0. unfold neighbor_weights_into. nf. Qed.
#[global] Hint Resolve neighbor_weights_into_nf : nf.

Lemma get_neighbor_weights_nf : forall g u nbrs node2com, get_neighbor_weights g u nbrs node2com <> OutOfFuel.
Proof. intros g u nbrs node2com. unfold get_neighbor_weights. nf. Qed.
#[global] Hint Resolve get_neighbor_weights_nf : nf.

Lemma add_predecessor_weights_nf : forall g u preds node2com w2c,
  add_predecessor_weights g u preds node2com w2c <> OutOfFuel.
Proof. intros g u preds node2com w2c. unfold add_predecessor_weights. nf. Qed.
#[global] Hint Resolve add_predecessor_weights_nf : nf.

Lemma gain_of_nf : forall di m resolution dir c wt, gain_of di m resolution dir c wt <> OutOfFuel.
Proof. intros di m resolution dir c wt. unfold gain_of. nf. Qed.
#[global] Hint Resolve gain_of_nf : nf.

Lemma scan_candidates_nf : forall di m resolution dir cands best_com best_mod seen,
  scan_candidates di m resolution dir cands best_com best_mod seen <> OutOfFuel.
Proof.
  intros di m resolution dir cands. induction cands as [|[c wt] t IH]; intros best_com best_mod seen;
    cbn [scan_candidates]; nf.
Qed.
#[global] Hint Resolve scan_candidates_nf : nf.

Lemma update_best_com_nf : forall own w2c di m resolution dir,
  update_best_com own w2c di m resolution dir <> OutOfFuel.
Proof. intros own w2c di m resolution dir. unfold update_best_com. nf. Qed.
#[global] Hint Resolve update_best_com_nf : nf.

Lemma upd_nth_nf : forall {X} site i (f : X -> X) l, upd_nth site i f l <> OutOfFuel.
Proof. intros X site i f l. unfold upd_nth. nf. Qed.
#[global] Hint Resolve upd_nth_nf : nf.

Lemma visit_nf : forall g m res nbrs preds s u, visit g m res nbrs preds s u <> OutOfFuel.
Proof. intros g m res nbrs preds s u. unfold visit. nf. Qed.
#[global] Hint Resolve visit_nf : nf.

(* one pass of the sweep loop's body over the shuffled nodes *)
Lemma sweep_pass_nf : forall g m res nbrs preds order s,
  ofold (visit g m res nbrs preds) order s <> OutOfFuel.
Proof. intros g m res nbrs preds order s. nf. Qed.
#[global] Hint Resolve sweep_pass_nf : nf.

Lemma get_shuffled_node_names_nf : forall g perms, get_shuffled_node_names g perms <> OutOfFuel.
Proof. intros g perms. unfold get_shuffled_node_names. nf. Qed.
#[global] Hint Resolve get_shuffled_node_names_nf : nf.

Lemma generate_graph_nf : forall g I, generate_graph g I <> OutOfFuel.
Proof.
  intros g I. unfold generate_graph. nf.
Qed.
#[global] Hint Resolve generate_graph_nf : nf.

Lemma size_q_nf : forall g weighted, size_q g weighted <> OutOfFuel.
Proof. intros g weighted. unfold size_q. nf. Qed.
#[global] Hint Resolve size_q_nf : nf.

Section Entry.
  Context {T A : Type}.
  Variable teqb : T -> T -> bool.
  Variable tltb : T -> T -> bool.

  Lemma convert_graph_nf : forall (g : gstate T A) weighted node_map,
    convert_graph teqb tltb g weighted node_map <> OutOfFuel.
  Proof. intros g weighted node_map. unfold convert_graph. nf. Qed.

  Lemma convert_back_nf : forall (node_map : list (T * nat)) levels, convert_back node_map levels <> OutOfFuel.
  Proof. intros node_map levels. unfold convert_back. nf. Qed.
End Entry.
#[global] Hint Resolve convert_graph_nf convert_back_nf : nf.

(* ---------------- 7. where OutOfFuel comes from ---------------- *)

(* one round of the sweep loop: out of fuel only through the recursive call *)
Theorem sweeps_fuel_cases : forall f g m res nbrs preds order s,
  sweeps (S f) g m res nbrs preds order s = OutOfFuel ->
  exists s1,
    ofold (visit g m res nbrs preds) order
          (mkls (ls_partition s) (ls_inner s) (ls_node2com s) (ls_deg s) 0 (ls_improved s) (ls_tie s)) = Ok s1 /\
    Nat.eqb (ls_moves s1) 0 = false /\
    sweeps f g m res nbrs preds order s1 = OutOfFuel.
Proof.
  intros f g m res nbrs preds order s H. cbn [sweeps] in H.
  apply bind_fuel_inv in H. destruct H as [H|[s1 [Hs1 H]]].
  - exfalso. exact (sweep_pass_nf _ _ _ _ _ _ _ H).
  - exists s1. destruct (Nat.eqb (ls_moves s1) 0) eqn:E; [discriminate|]. auto.
Qed.

Theorem compute_one_level_state_fuel_only_from_sweeps :
  forall fuel g m partition res perms,
    compute_one_level_state fuel g m partition res perms = OutOfFuel ->
    exists di order,
      get_degree_information g partition = Ok di /\ get_shuffled_node_names g perms = Ok order /\
      sweeps fuel g m res (successors g) (predecessors g) order
        (mkls partition (map_node_names_to_hashsets g)
              (map (fun n => (n, n)) (sort_by Nat.ltb (map nname (get_all_nodes g)))) di 1 false false)
      = OutOfFuel.
Proof.
  intros fuel g m partition res perms H. unfold compute_one_level_state in H.
  apply bind_fuel_inv in H. destruct H as [H|[di [Hdi H]]].
  { exfalso. exact (get_degree_information_nf _ _ H). }
  apply bind_fuel_inv in H. destruct H as [H|[order [Hord H]]].
  { exfalso. exact (get_shuffled_node_names_nf _ _ H). }
  exists di, order. auto.
Qed.

Theorem compute_one_level_fuel_only_from_sweeps :
  forall fuel g m partition res perms,
    compute_one_level fuel g m partition res perms = OutOfFuel ->
    exists di order,
      get_degree_information g partition = Ok di /\ get_shuffled_node_names g perms = Ok order /\
      sweeps fuel g m res (successors g) (predecessors g) order
        (mkls partition (map_node_names_to_hashsets g)
              (map (fun n => (n, n)) (sort_by Nat.ltb (map nname (get_all_nodes g)))) di 1 false false)
      = OutOfFuel.
Proof.
  intros fuel g m partition res perms H. unfold compute_one_level in H.
  apply bind_fuel_inv in H. destruct H as [H|[s [_ H]]]; [|discriminate].
  exact (compute_one_level_state_fuel_only_from_sweeps _ _ _ _ _ _ H).
Qed.

(* and conversely *)
Theorem compute_one_level_fuel_iff_state : forall fuel g m partition res perms,
  compute_one_level fuel g m partition res perms = OutOfFuel <->
  compute_one_level_state fuel g m partition res perms = OutOfFuel.
Proof.
  intros fuel g m partition res perms. unfold compute_one_level. split; intro H.
  - apply bind_fuel_inv in H. destruct H as [H|[s [_ H]]]; [exact H | discriminate].
  - rewrite H. reflexivity.
Qed.

Theorem level_loop_fuel_cases :
  forall f sf weighted res thr perms m graphu partition inner mod0 acc tie,
    level_loop (S f) sf weighted res thr perms m graphu partition inner mod0 acc tie = OutOfFuel ->
    exists new_mod g2,
      modularity Nat.eqb Nat.ltb graphu inner weighted res = Ok new_mod /\
      fst (gain_small new_mod mod0 thr) = false /\
      generate_graph graphu inner = Ok g2 /\
      (compute_one_level sf g2 m partition res perms = OutOfFuel \/
       exists p2 i2 tie2,
         compute_one_level sf g2 m partition res perms = Ok (p2, i2, true, tie2) /\
         level_loop f sf weighted res thr perms m g2 p2 i2 new_mod (acc ++ [partition])
                    (tie || snd (gain_small new_mod mod0 thr) || tie2) = OutOfFuel).
Proof.
  intros f sf weighted res thr perms m graphu partition inner mod0 acc tie H.
  cbn [level_loop] in H.
  apply bind_fuel_inv in H. destruct H as [H|[new_mod [Hmod H]]].
  { exfalso. apply unwrap_res_fuel_inv in H. exact (modularity_nf _ _ _ _ _ _ H). }
  apply unwrap_res_ok_inv in Hmod.
  exists new_mod.
  destruct (gain_small new_mod mod0 thr) as [small close] eqn:G. cbn [fst snd].
  destruct small; [discriminate|].
  apply bind_fuel_inv in H. destruct H as [H|[g2 [Hg2 H]]].
  { exfalso. exact (generate_graph_nf _ _ H). }
  exists g2. split; [exact Hmod|]. split; [reflexivity|]. split; [exact Hg2|].
  apply bind_fuel_inv in H. destruct H as [H|[z [Hz H]]]; [left; exact H|].
  right. destruct z as [[[p2 i2] improvement] tie2].
  destruct improvement; [|discriminate].
  exists p2, i2, tie2. split; [exact Hz | exact H].
Qed.

Theorem level_loop_fuel_zero :
  forall sf weighted res thr perms m graphu partition inner mod0 acc tie,
    level_loop 0 sf weighted res thr perms m graphu partition inner mod0 acc tie = OutOfFuel.
Proof. reflexivity. Qed.

Section EntryFuel.
  Context {T A : Type}.
  Variable teqb : T -> T -> bool.
  Variable tltb : T -> T -> bool.

  Theorem louvain_partitions_t_fuel_cases :
    forall lf sf (g : gstate T A) weighted res thr perms,
      louvain_partitions_t teqb tltb lf sf g weighted res thr perms = OutOfFuel ->
      exists graphu modularity0 m,
        convert_graph teqb tltb g weighted (node_map_of tltb g) = Ok graphu /\
        modularity Nat.eqb Nat.ltb graphu (map_node_names_to_hashsets graphu) weighted res = Ok modularity0 /\
        size_q graphu weighted = Ok m /\
        (compute_one_level sf graphu m (map_node_names_to_hashsets graphu) res perms = OutOfFuel \/
         exists p1 i1 b tie1,
           compute_one_level sf graphu m (map_node_names_to_hashsets graphu) res perms = Ok (p1, i1, b, tie1) /\
           level_loop lf sf weighted res thr perms m graphu p1 i1 modularity0 [] tie1 = OutOfFuel).
  Proof.
    intros lf sf g weighted res thr perms H. unfold louvain_partitions_t in H.
    destruct (negative_weight_guard g weighted); [discriminate|].
    apply bind_fuel_inv in H. destruct H as [H|[graphu [Hgu H]]].
    { exfalso. exact (convert_graph_nf _ _ _ _ _ H). }
    apply bind_fuel_inv in H. destruct H as [H|[modularity0 [Hmod H]]].
    { exfalso. apply unwrap_res_fuel_inv in H. exact (modularity_nf _ _ _ _ _ _ H). }
    apply unwrap_res_ok_inv in Hmod.
    apply bind_fuel_inv in H. destruct H as [H|[m [Hm H]]].
    { exfalso. exact (size_q_nf _ _ H). }
    exists graphu, modularity0, m.
    split; [exact Hgu|]. split; [exact Hmod|]. split; [exact Hm|].
    apply bind_fuel_inv in H. destruct H as [H|[z [Hz H]]]; [left; exact H|].
    right. destruct z as [[[p1 i1] b] tie1]. exists p1, i1, b, tie1. split; [exact Hz|].
    apply bind_fuel_inv in H. destruct H as [H|[r [_ H]]]; [exact H|].
    exfalso. destruct r as [levels tie].
    apply bind_fuel_inv in H. destruct H as [H|[ls [_ H]]]; [|discriminate].
    exact (convert_back_nf _ _ H).
  Qed.

  Theorem louvain_partitions_fuel_inv : forall lf sf (g : gstate T A) weighted res thr perms,
    louvain_partitions teqb tltb lf sf g weighted res thr perms = OutOfFuel ->
    louvain_partitions_t teqb tltb lf sf g weighted res thr perms = OutOfFuel.
  Proof.
    intros lf sf g weighted res thr perms H. unfold louvain_partitions in H.
    apply bind_fuel_inv in H. destruct H as [H|[r [_ H]]]; [exact H | discriminate].
  Qed.

  Theorem louvain_communities_fuel_inv : forall lf sf (g : gstate T A) weighted res thr perms,
    louvain_communities teqb tltb lf sf g weighted res thr perms = OutOfFuel ->
    louvain_partitions_t teqb tltb lf sf g weighted res thr perms = OutOfFuel.
  Proof.
    intros lf sf g weighted res thr perms H. unfold louvain_communities in H.
    apply bind_fuel_inv in H. destruct H as [H|[ps [_ H]]].
    - exact (louvain_partitions_fuel_inv _ _ _ _ _ _ _ H).
    - destruct (pop ps); discriminate.
  Qed.
End EntryFuel.

