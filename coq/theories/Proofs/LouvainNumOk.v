(* C13, deepening (round 2): the NUMERIC bookkeeping invariants of the local-moving phase of the
   Louvain model (exact arithmetic), for a coherent single-edge working graph with real weights:
     - the weights the model accumulates from a node u to its neighbouring communities
       (get_neighbor_weights, plus add_predecessor_weights on a digraph) are, per community c,
       the weight [between] u and the members of c other than u on the edge multiset;
     - L3: Stot[c] (Stot_in / Stot_out) = the degree sums K_of (Kin_of / Kout_of) of the members
       of inner_partition[c];
   hence every move the model accepts strictly increases the modularity-shaped potential
   Phi_m = sum_c L_c/m - gamma (K_c/2m)^2 (directed: - gamma Kout_c Kin_c / m^2) of the current
   level graph — Newman's modularity when m is the graph's total weight — for every visiting
   order; a visit never panics; the number of sweeps is bounded (see LouvainTermOk.v). *)
From Coq Require Import String List Bool ZArith Arith QArith Lia Lqa Permutation Setoid Morphisms.
From GV Require Import Base.Outcome Base.AMap Model.GState Model.Creation Model.Query Model.Derived
     Model.Partition Model.Louvain Spec.AGraph Spec.PartitionDef.
From GV Require Import Proofs.AMapOk Proofs.WFDefs Proofs.WFNode Proofs.WFAdj Proofs.WFEdge Proofs.Refine
     Proofs.AdjOk Proofs.QueryOk Proofs.DegreeOk Proofs.PartitionOk Proofs.LouvainOk Proofs.MoveGainOk
     Proofs.LouvainSets Proofs.LouvainStructOk.
Import ListNotations.

(* the three order facts the graph-structure library asks for, at nat *)
Lemma nat_ltb_asym : forall x y, Nat.ltb x y = true -> Nat.ltb y x = false.
Proof. intros x y. rewrite Nat.ltb_lt, Nat.ltb_ge. lia. Qed.
Lemma nat_ltb_tot : forall x y, Nat.ltb x y = false -> Nat.ltb y x = false -> x = y.
Proof. intros x y. rewrite !Nat.ltb_ge. lia. Qed.

Notation WFn := (WF Nat.eqb Nat.ltb).
Notation wedgeN := (@wedge nat).
Notation membN := (PartitionDef.memb Nat.eqb).

(* ---------------- the weighted edge list of a working graph ---------------- *)
Definition zw_ (e : ledge) : Z := match ew e with Some z => z | None => 0%Z end.
Definition wq (e : ledge) : wedgeN := (eu e, ev e, inject_Z (zw_ e)).
Definition wedges (g : lgraph) : list wedgeN := map wq (get_all_edges g).

Lemma wedges_of_true : forall (l : list ledge) es,
  wedges_of true l = Some es -> es = map wq l /\ forall e, In e l -> exists z, ew e = Some z.
Proof.
  induction l as [|e t IH]; intros es H; cbn [wedges_of] in H.
  - inversion H. split; [reflexivity | intros e []].
  - unfold wedge_of in H. destruct (ew e) as [z|] eqn:Ez; [|discriminate].
    destruct (wedges_of true t) as [r|] eqn:Er; [|discriminate]. inversion H. subst es.
    destruct (IH r eq_refl) as [Hr Hreal]. split.
    + cbn [map]. unfold wq at 1, zw_. rewrite Ez. rewrite Hr. reflexivity.
    + intros e' [He|He]; [subst; eauto | apply Hreal; exact He].
Qed.

Lemma wedges_of_true_some : forall (l : list ledge),
  (forall e, In e l -> exists z, ew e = Some z) -> wedges_of true l = Some (map wq l).
Proof.
  induction l as [|e t IH]; intro H; [reflexivity|]. cbn [wedges_of map].
  destruct (H e (or_introl eq_refl)) as [z Hz]. unfold wedge_of. rewrite Hz.
  rewrite IH by (intros e' He'; apply H; right; exact He'). unfold wq, zw_. rewrite Hz. reflexivity.
Qed.

Lemma wsel_map_wq : forall (p : wedgeN -> bool) (l : list ledge),
  wsel p (map wq l) = qsum (map (fun e => inject_Z (zw_ e)) (filter (fun e => p (wq e)) l)).
Proof.
  intros p l. unfold wsel. induction l as [|e t IH]; [reflexivity|]. cbn [map filter].
  destruct (p (wq e)); cbn [map qsum]; rewrite IH; reflexivity.
Qed.

Definition keyw (k : nat * nat) (w : wedgeN) : bool := Nat.eqb (wu w) (fst k) && Nat.eqb (wv w) (snd k).

Lemma keyw_keyb : forall k e, keyw k (wq e) = keyb Nat.eqb k e.
Proof. intros k e. reflexivity. Qed.

Lemma qsum_app : forall a b, qsum (a ++ b) == qsum a + qsum b.
Proof. induction a as [|x t IH]; intro b; cbn [app qsum]; [ring | rewrite IH; ring]. Qed.

Lemma qsum_perm : forall a b, Permutation a b -> qsum a == qsum b.
Proof. induction 1; cbn [qsum]; lra. Qed.

Lemma qsum_zero : forall {X} (f : X -> Q) l, (forall x, In x l -> f x == 0) -> qsum (map f l) == 0.
Proof.
  intros X f l. induction l as [|x t IH]; intro H; cbn [map qsum]; [reflexivity|].
  rewrite (H x (or_introl eq_refl)), IH; [ring|]. intros y Hy. apply H. right. exact Hy.
Qed.

(* splitting a selection by a key of the edges, over a duplicate-free list of keys *)
Lemma wsel_and_filter : forall (p q : wedgeN -> bool) es,
  wsel (fun e => p e && q e) es = wsel q (filter p es).
Proof.
  intros p q es. unfold wsel. induction es as [|e t IH]; [reflexivity|]. cbn [filter].
  destruct (p e); cbn [andb filter]; [destruct (q e); cbn [map qsum]; rewrite IH; reflexivity | exact IH].
Qed.

Lemma wsel_partition : forall (p : wedgeN -> bool) (f : wedgeN -> nat) (ns : list nat) es,
  NoDup ns -> (forall e, In e es -> p e = true -> In (f e) ns) ->
  qsum (map (fun v => wsel (fun e => p e && Nat.eqb (f e) v) es) ns) == wsel p es.
Proof.
  intros p f ns es Hnd Hin.
  rewrite (qsum_ext (fun v => wsel (fun e => p e && Nat.eqb (f e) v) es)
                    (fun v => wsel (fun e => Nat.eqb (f e) v) (filter p es))).
  - rewrite (sum_over_members Nat.eqb Nat.eqb_eq f (filter p es) ns Hnd).
    rewrite <- wsel_and_filter. apply wsel_ext. intros e He.
    destruct (p e) eqn:Ep; [|reflexivity]. cbn [andb]. apply (memb_In Nat.eqb Nat.eqb_eq). apply Hin; assumption.
  - intros v _. rewrite wsel_and_filter. reflexivity.
Qed.

(* ---------------- accumulation into the HashMap<usize, f64> ---------------- *)
Definition valQ (c : nat) (m : list (nat * Q)) : Q := match lookup Nat.eqb c m with Some x => x | None => 0 end.

Lemma lookup_acc_weight : forall c w m c',
  lookup Nat.eqb c' (acc_weight c w m) = if Nat.eqb c' c then Some (Qred (valQ c m + w)) else lookup Nat.eqb c' m.
Proof. intros c w m c'. unfold acc_weight. rewrite (lookup_insert Nat.eqb Nat.eqb_eq). reflexivity. Qed.

Lemma valQ_acc_weight : forall c w m c',
  valQ c' (acc_weight c w m) == valQ c' m + (if Nat.eqb c' c then w else 0).
Proof.
  intros c w m c'. unfold valQ at 1. rewrite lookup_acc_weight. destruct (Nat.eqb c' c) eqn:E.
  - apply Nat.eqb_eq in E. subst c'. rewrite Qred_correct. reflexivity.
  - fold (valQ c' m). ring.
Qed.

Lemma keys_acc_weight : forall c w m c', In c' (keys (acc_weight c w m)) <-> c' = c \/ In c' (keys m).
Proof.
  intros c w m c'. unfold acc_weight. rewrite (In_keys_insert Nat.eqb Nat.eqb_eq). tauto.
Qed.

Lemma NoDup_keys_acc_weight : forall c w m, NoDup (keys m) -> NoDup (keys (acc_weight c w m)).
Proof. intros c w m H. unfold acc_weight. apply (NoDup_keys_insert Nat.eqb Nat.eqb_eq). exact H. Qed.

(* ---------------- neighbour-community weights on a coherent working graph ---------------- *)
Section NumGraph.
  Variable g : lgraph.
  Hypothesis W : WFn g.
  Hypothesis Hmulti : multi (sp g) = false.
  Hypothesis Hreal : forall e, In e (get_all_edges g) -> exists z, ew e = Some z.

  Notation es := (wedges g).
  Notation nms := (names g).
  Notation cng := (cn Nat.ltb (sp g)).
  Notation grp := (group Nat.eqb g).

  (* weight stored between two names (in storage orientation) *)
  Definition ewt (a b : nat) : Q := wsel (keyw (cng a b)) es.

  Lemma name_exists : forall x, In x nms -> existsb (fun n : lnode => Nat.eqb (nname n) x) (nodes_vec g) = true.
  Proof. intros x Hx. apply (a_has_names Nat.eqb Nat.eqb_eq g x). exact Hx. Qed.

  Lemma wedge_in : forall w, In w es -> exists e, In e (get_all_edges g) /\ w = wq e.
  Proof. intros w H. unfold wedges in H. apply in_map_iff in H. destruct H as [e [E He]]. eauto. Qed.

  Lemma wedge_group : forall w, In w es -> grp (wu w, wv w) <> None /\ In (wu w) nms /\ In (wv w) nms.
  Proof.
    intros w H. destruct (wedge_in w H) as [e [He ->]]. cbn [wq wu wv fst snd].
    pose proof (proj1 (in_all_edges Nat.eqb Nat.ltb Nat.eqb_eq g e W) He) as [l [Hl _]].
    split; [rewrite Hl; discriminate|]. apply (endpoints_in_names Nat.eqb Nat.ltb Nat.eqb_eq g e W He).
  Qed.

  (* on an undirected graph every stored edge is in canonical orientation *)
  Lemma wedge_canon : forall w, In w es -> cng (wu w) (wv w) = (wu w, wv w).
  Proof.
    intros w H. destruct (wedge_in w H) as [e [He ->]]. cbn [wq wu wv fst snd].
    pose proof (proj1 (in_all_edges Nat.eqb Nat.ltb Nat.eqb_eq g e W) He) as [l [Hl _]].
    destruct (wf_egroup _ _ _ W _ _ Hl) as (_ & _ & _ & _ & Hd & _). cbn [fst snd] in Hd.
    unfold cn. destruct (directed (sp g)); [reflexivity|]. rewrite (Hd eq_refl). reflexivity.
  Qed.

  Lemma get_edge_wt : forall a b, In a nms -> In b nms -> grp (cng a b) <> None ->
    exists e z, get_edge Nat.eqb g a b = Ok e /\ ew e = Some z /\ inject_Z z == ewt a b.
  Proof.
    intros a b Ha Hb Hg. destruct (grp (cng a b)) as [l|] eqn:El; [|congruence].
    destruct (wf_egroup _ _ _ W _ _ El) as (_ & _ & _ & _ & _ & Hlen & _).
    specialize (Hlen Hmulti). destruct l as [|e [|e' t]]; cbn in Hlen; try discriminate.
    assert (Hf : filter (keyb Nat.eqb (cng a b)) (get_all_edges g) = [e]).
    { unfold get_all_edges. rewrite (group_is_filter Nat.eqb Nat.ltb Nat.eqb_eq g (cng a b) W), El. reflexivity. }
    assert (He : In e (get_all_edges g)).
    { assert (H : In e (filter (keyb Nat.eqb (cng a b)) (get_all_edges g))) by (rewrite Hf; left; reflexivity).
      apply filter_In in H. apply H. }
    destruct (Hreal e He) as [z Hz]. exists e, z. split; [|split; [exact Hz|]].
    - rewrite (get_edge_spec Nat.eqb Nat.ltb Nat.eqb_eq nat_ltb_asym nat_ltb_tot g a b W).
      rewrite Hmulti, (name_exists a Ha), (name_exists b Hb). cbn [negb orb].
      rewrite (stored_between_group Nat.eqb Nat.ltb Nat.eqb_eq g a b W), El. reflexivity.
    - unfold ewt, wedges. rewrite wsel_map_wq.
      rewrite (filter_ext (fun e0 => keyw (cng a b) (wq e0)) (keyb Nat.eqb (cng a b))) by (intro; apply keyw_keyb).
      rewrite Hf. cbn [map qsum]. unfold zw_. rewrite Hz. ring.
  Qed.

  (* ---- one traversal of a neighbour set ---- *)
  Definition com_is (n2c : list (nat * nat)) (v c : nat) : bool :=
    match lookup Nat.eqb v n2c with Some c' => Nat.eqb c' c | None => false end.
  Definition Pc (n2c : list (nat * nat)) (u c v : nat) : bool := negb (Nat.eqb v u) && com_is n2c v c.
  Definition pairw (towards : bool) (u v : nat) : Q := if towards then ewt u v else ewt v u.

  Definition nw_step (u : nat) (n2c : list (nat * nat)) (towards : bool) (acc : list (nat * Q)) (v : nat)
    : outcome (list (nat * Q)) :=
    if Nat.eqb u v then Ok acc else
    do e <- unwrap_res "louvain.rs:get_edge unwrap"
              (if towards then get_edge Nat.eqb g u v else get_edge Nat.eqb g v u);
    do c <- unwrap_at "louvain.rs:node2com unwrap" (lookup Nat.eqb v n2c);
    do w <- q_of_w nan_site (ew e);
    Ok (acc_weight c w acc).

  Lemma neighbor_weights_into_step : forall u nbrs n2c towards acc0,
    neighbor_weights_into g u nbrs n2c towards acc0 =
    ofold (nw_step u n2c towards) (sort_by Nat.ltb (or_default Nat.eqb u nbrs)) acc0.
  Proof. reflexivity. Qed.

  Lemma nw_fold : forall u n2c (towards : bool) l acc0,
    (forall v, In v l -> v <> u ->
       In u nms /\ In v nms /\ grp (if towards then cng u v else cng v u) <> None /\
       lookup Nat.eqb v n2c <> None) ->
    NoDup (keys acc0) ->
    exists acc, ofold (nw_step u n2c towards) l acc0 = Ok acc /\ NoDup (keys acc) /\
      (forall c, valQ c acc == valQ c acc0 +
                 qsum (map (fun v => if Pc n2c u c v then pairw towards u v else 0) l)) /\
      (forall c, In c (keys acc) <->
                 In c (keys acc0) \/ exists v, In v l /\ v <> u /\ lookup Nat.eqb v n2c = Some c).
  Proof.
    intros u n2c towards l. induction l as [|v t IH]; intros acc0 Hl Hnd.
    - exists acc0. split; [reflexivity|]. split; [exact Hnd|]. split.
      + intro c. cbn [map qsum]. ring.
      + intro c. split; [intro H; left; exact H | intros [H|[v [[] _]]]; exact H].
    - cbn [ofold]. unfold nw_step at 1. destruct (Nat.eqb u v) eqn:Euv.
      + apply Nat.eqb_eq in Euv. subst v. cbn [bind].
        destruct (IH acc0 (fun v Hv => Hl v (or_intror Hv)) Hnd) as [acc [Ha [Hn [Hv Hk]]]].
        exists acc. split; [exact Ha|]. split; [exact Hn|]. split.
        * intro c. rewrite (Hv c). cbn [map qsum]. unfold Pc at 2. rewrite Nat.eqb_refl. cbn [negb andb]. ring.
        * intro c. rewrite (Hk c). split.
          -- intros [H|[x [Hx Hr]]]; [left; exact H | right; exists x; split; [right; exact Hx | exact Hr]].
          -- intros [H|[x [[Hx|Hx] [Hne Hr]]]]; [left; exact H | subst x; contradiction | right; exists x; split; [exact Hx | split; assumption]].
      + apply Nat.eqb_neq in Euv. assert (Hvu : v <> u) by congruence.
        destruct (Hl v (or_introl eq_refl) Hvu) as [Hu [Hvn [Hg Hc]]].
        assert (Hedge : exists e z, (if towards then get_edge Nat.eqb g u v else get_edge Nat.eqb g v u) = Ok e /\
                                    ew e = Some z /\ inject_Z z == pairw towards u v).
        { unfold pairw. destruct towards; [apply get_edge_wt | apply get_edge_wt]; assumption. }
        destruct Hedge as [e [z [He [Hz Hw]]]]. rewrite He. cbn [unwrap_res bind].
        destruct (lookup Nat.eqb v n2c) as [c0|] eqn:Ec; [|congruence]. cbn [unwrap_at bind].
        rewrite Hz. cbn [q_of_w bind].
        destruct (IH (acc_weight c0 (inject_Z z) acc0) (fun x Hx => Hl x (or_intror Hx))
                     (NoDup_keys_acc_weight _ _ _ Hnd)) as [acc [Ha [Hn [Hv Hk]]]].
        exists acc. split; [exact Ha|]. split; [exact Hn|]. split.
        * intro c. rewrite (Hv c), valQ_acc_weight. cbn [map qsum].
          unfold Pc at 2, com_is. rewrite Ec. rewrite (proj2 (Nat.eqb_neq v u) Hvu). cbn [negb andb].
          rewrite (Nat.eqb_sym c c0). destruct (Nat.eqb c0 c); rewrite <- ?Hw; ring.
        * intro c. rewrite (Hk c), keys_acc_weight. split.
          -- intros [[H|H]|[x [Hx Hr]]].
             ++ subst c. right. exists v. split; [left; reflexivity | split; assumption].
             ++ left. exact H.
             ++ right. exists x. split; [right; exact Hx | exact Hr].
          -- intros [H|[x [[Hx|Hx] [Hne Hr]]]].
             ++ left. right. exact H.
             ++ subst x. left. left. congruence.
             ++ right. exists x. split; [exact Hx | split; assumption].
  Qed.

  (* ---- the per-community weights as selections of the edge multiset ---- *)
  Definition q_out (n2c : list (nat * nat)) (u c : nat) (e : wedgeN) : bool := Nat.eqb (wu e) u && Pc n2c u c (wv e).
  Definition q_in (n2c : list (nat * nat)) (u c : nat) (e : wedgeN) : bool := Nat.eqb (wv e) u && Pc n2c u c (wu e).

  Lemma Pc_neq : forall n2c u c v, Pc n2c u c v = true -> v <> u.
  Proof. intros n2c u c v H. unfold Pc in H. apply andb_true_iff in H. destruct H as [H _]. apply negb_true_iff in H. apply Nat.eqb_neq. exact H. Qed.

  Lemma bool_eq_iff : forall a b : bool, (a = true <-> b = true) -> a = b.
  Proof. intros [|] [|] H; try reflexivity; [symmetry; apply H; reflexivity | apply H; reflexivity]. Qed.

  (* directed, successors *)
  Lemma succ_sum_directed : forall u n2c c, directed (sp g) = true -> In u nms ->
    qsum (map (fun v => if Pc n2c u c v then pairw true u v else 0) (or_default Nat.eqb u (successors g)))
    == wsel (q_out n2c u c) es.
  Proof.
    intros u n2c c Hd Hu. destruct (wf_su _ _ _ W u) as [Hnd Hmem].
    rewrite <- (wsel_partition (q_out n2c u c) (@wv nat) _ es Hnd).
    - apply qsum_ext. intros v Hv. destruct (Pc n2c u c v) eqn:EP.
      + unfold pairw, ewt. rewrite (cn_directed Nat.ltb (sp g) u v Hd). apply wsel_ext. intros e _.
        unfold keyw, q_out. cbn [fst snd]. destruct (Nat.eqb (wv e) v) eqn:Ev.
        * apply Nat.eqb_eq in Ev. rewrite Ev, EP. rewrite !andb_true_r. reflexivity.
        * rewrite !andb_false_r. reflexivity.
      + rewrite <- (wsel_none es). apply wsel_ext. intros e _. unfold q_out.
        destruct (Nat.eqb (wv e) v) eqn:Ev; [|rewrite andb_false_r; reflexivity].
        apply Nat.eqb_eq in Ev. rewrite Ev, EP. rewrite andb_false_r. reflexivity.
    - intros e He Hq. unfold q_out in Hq. apply andb_true_iff in Hq. destruct Hq as [Hq _]. apply Nat.eqb_eq in Hq.
      destruct (wedge_group e He) as [Hg [_ Hvn]]. apply Hmem. split; [exact Hu|]. split; [exact Hvn|].
      rewrite (cn_directed Nat.ltb (sp g) _ _ Hd). rewrite <- Hq. exact Hg.
  Qed.

  (* directed, predecessors *)
  Lemma pred_sum_directed : forall u n2c c, directed (sp g) = true ->
    qsum (map (fun v => if Pc n2c u c v then pairw false u v else 0) (or_default Nat.eqb u (predecessors g)))
    == wsel (q_in n2c u c) es.
  Proof.
    intros u n2c c Hd. destruct (wf_pr _ _ _ W u) as [Hnd Hmem].
    rewrite <- (wsel_partition (q_in n2c u c) (@wu nat) _ es Hnd).
    - apply qsum_ext. intros v Hv. destruct (Pc n2c u c v) eqn:EP.
      + unfold pairw, ewt. rewrite (cn_directed Nat.ltb (sp g) v u Hd). apply wsel_ext. intros e _.
        unfold keyw, q_in. cbn [fst snd]. destruct (Nat.eqb (wu e) v) eqn:Ev.
        * apply Nat.eqb_eq in Ev. rewrite Ev, EP. rewrite !andb_true_r. reflexivity.
        * rewrite !andb_false_r. cbn [andb]. reflexivity.
      + rewrite <- (wsel_none es). apply wsel_ext. intros e _. unfold q_in.
        destruct (Nat.eqb (wu e) v) eqn:Ev; [|rewrite andb_false_r; reflexivity].
        apply Nat.eqb_eq in Ev. rewrite Ev, EP. rewrite andb_false_r. reflexivity.
    - intros e He Hq. unfold q_in in Hq. apply andb_true_iff in Hq. destruct Hq as [Hq _]. apply Nat.eqb_eq in Hq.
      destruct (wedge_group e He) as [Hg _]. apply Hmem. split; [exact Hd|]. rewrite <- Hq. exact Hg.
  Qed.

  (* undirected: the successor sets hold the neighbours in both storage orientations *)
  Lemma succ_sum_undirected : forall u n2c c, directed (sp g) = false -> In u nms ->
    qsum (map (fun v => if Pc n2c u c v then pairw true u v else 0) (or_default Nat.eqb u (successors g)))
    == wsel (fun e => q_out n2c u c e || q_in n2c u c e) es.
  Proof.
    intros u n2c c Hd Hu. destruct (wf_su _ _ _ W u) as [Hnd Hmem].
    set (other := fun e : wedgeN => if Nat.eqb (wu e) u then wv e else wu e).
    rewrite <- (wsel_partition (fun e => q_out n2c u c e || q_in n2c u c e) other _ es Hnd).
    - apply qsum_ext. intros v Hv. destruct (Pc n2c u c v) eqn:EP.
      + pose proof (Pc_neq _ _ _ _ EP) as Hvu.
        unfold pairw, ewt. apply wsel_ext. intros e He. apply bool_eq_iff.
        pose proof (wedge_canon e He) as Hcan.
        unfold keyw, q_out, q_in, other. rewrite !andb_true_iff, orb_true_iff, !andb_true_iff, !Nat.eqb_eq.
        split.
        * intros [Ha Hb].
          destruct (cn_cases Nat.ltb (sp g) u v) as [C|C]; rewrite C in Ha, Hb; cbn [fst snd] in Ha, Hb.
          -- split; [left; split; [exact Ha | rewrite Hb; exact EP]|].
             rewrite (proj2 (Nat.eqb_eq _ _) Ha). exact Hb.
          -- split; [right; split; [exact Hb | rewrite Ha; exact EP]|].
             rewrite (proj2 (Nat.eqb_neq (wu e) u)) by congruence. exact Ha.
        * intros [[[Ha Hp]|[Hb Hp]] Ho].
          -- rewrite (proj2 (Nat.eqb_eq _ _) Ha) in Ho. rewrite <- Ha, <- Ho, Hcan. cbn [fst snd]. split; reflexivity.
          -- assert (Hne : wu e <> u) by (apply (Pc_neq _ _ _ _ Hp)).
             rewrite (proj2 (Nat.eqb_neq _ _) Hne) in Ho.
             rewrite (cn_sym Nat.ltb nat_ltb_asym nat_ltb_tot (sp g) u v Hd). rewrite <- Hb, <- Ho, Hcan. cbn [fst snd].
             split; reflexivity.
      + rewrite <- (wsel_none es). apply wsel_ext. intros e _.
        destruct (Nat.eqb (other e) v) eqn:Ev; [|rewrite andb_false_r; reflexivity]. rewrite andb_true_r.
        apply Nat.eqb_eq in Ev. unfold other in Ev. unfold q_out, q_in.
        destruct (Nat.eqb (wu e) u) eqn:Eu.
        * apply Nat.eqb_eq in Eu. rewrite Ev, EP, Eu.
          assert (Hpu : Pc n2c u c u = false) by (unfold Pc; rewrite Nat.eqb_refl; reflexivity).
          rewrite Hpu, !andb_false_r. reflexivity.
        * cbn [andb orb]. rewrite Ev, EP, andb_false_r. reflexivity.
    - intros e He Hq. destruct (wedge_group e He) as [Hg [Hun Hvn]]. pose proof (wedge_canon e He) as Hcan.
      apply orb_true_iff in Hq. unfold q_out, q_in, other in *. destruct Hq as [Hq|Hq]; apply andb_true_iff in Hq; destruct Hq as [Ha Hp].
      + rewrite Ha. apply Nat.eqb_eq in Ha. apply Hmem. split; [exact Hu|]. split; [exact Hvn|].
        rewrite <- Ha, Hcan. exact Hg.
      + assert (Hne : wu e <> u) by (apply (Pc_neq _ _ _ _ Hp)).
        rewrite (proj2 (Nat.eqb_neq _ _) Hne). apply Nat.eqb_eq in Ha. apply Hmem. split; [exact Hu|]. split; [exact Hun|].
        rewrite (cn_sym Nat.ltb nat_ltb_asym nat_ltb_tot (sp g) u (wu e) Hd). rewrite <- Ha, Hcan. exact Hg.
  Qed.
End NumGraph.

(* ---------------- degree sums of a set depend on membership only; removing / adding a node ---------------- *)
Section SetSums.
  Variable es : list wedgeN.

  Lemma memb_nat_In : forall x l, membN x l = true <-> In x l.
  Proof. intros. apply (memb_In Nat.eqb Nat.eqb_eq). Qed.

  Lemma memb_ext_of_In : forall X Y, (forall x, In x X <-> In x Y) -> forall x, membN x X = membN x Y.
  Proof. intros X Y H x. apply bool_eq_iff. rewrite !memb_nat_In. apply H. Qed.

  Lemma Kout_ext : forall X Y, (forall x, In x X <-> In x Y) -> Kout_of Nat.eqb es X == Kout_of Nat.eqb es Y.
  Proof. intros X Y H. unfold Kout_of. apply wsel_ext. intros e _. apply memb_ext_of_In. exact H. Qed.
  Lemma Kin_ext : forall X Y, (forall x, In x X <-> In x Y) -> Kin_of Nat.eqb es X == Kin_of Nat.eqb es Y.
  Proof. intros X Y H. unfold Kin_of. apply wsel_ext. intros e _. apply memb_ext_of_In. exact H. Qed.
  Lemma K_ext : forall X Y, (forall x, In x X <-> In x Y) -> K_of Nat.eqb es X == K_of Nat.eqb es Y.
  Proof. intros X Y H. unfold K_of. rewrite (Kout_ext X Y H), (Kin_ext X Y H). reflexivity. Qed.
  Lemma L_ext : forall X Y, (forall x, In x X <-> In x Y) -> L_of Nat.eqb es X == L_of Nat.eqb es Y.
  Proof.
    intros X Y H. unfold L_of. apply wsel_ext. intros e _.
    rewrite (memb_ext_of_In X Y H (wu e)), (memb_ext_of_In X Y H (wv e)). reflexivity.
  Qed.
  Lemma between_ext : forall u X Y, (forall x, In x X <-> In x Y) ->
    between Nat.eqb es u X == between Nat.eqb es u Y.
  Proof.
    intros u X Y H. unfold between. apply wsel_ext. intros e _.
    rewrite (memb_ext_of_In X Y H (wu e)), (memb_ext_of_In X Y H (wv e)). reflexivity.
  Qed.

  (* an additive set function: F (u :: X) = F [u] + F X for u not in X, and F respects membership *)
  Definition additive (F : list nat -> Q) : Prop :=
    (forall X Y, (forall x, In x X <-> In x Y) -> F X == F Y) /\
    (forall u X, ~ In u X -> F (u :: X) == F [u] + F X).

  Lemma additive_Kout : additive (Kout_of Nat.eqb es).
  Proof. split; [exact Kout_ext | intros u X H; apply (Kout_of_cons Nat.eqb Nat.eqb_eq); exact H]. Qed.
  Lemma additive_Kin : additive (Kin_of Nat.eqb es).
  Proof. split; [exact Kin_ext | intros u X H; apply (Kin_of_cons Nat.eqb Nat.eqb_eq); exact H]. Qed.
  Lemma additive_K : additive (K_of Nat.eqb es).
  Proof.
    split; [exact K_ext | intros u X H]. rewrite (K_of_cons Nat.eqb Nat.eqb_eq es u X H). ring.
  Qed.

  Lemma additive_remove : forall F u l, additive F -> In u l ->
    F l == F [u] + F (set_remove u l).
  Proof.
    intros F u l [Hext Hcons] Hin. rewrite <- Hcons by (rewrite In_set_remove; intuition).
    apply Hext. intro x. cbn [In]. rewrite In_set_remove. destruct (Nat.eq_dec x u); intuition congruence.
  Qed.

  Lemma additive_add : forall F u l, additive F -> ~ In u l ->
    F (set_add Nat.eqb u l) == F [u] + F l.
  Proof.
    intros F u l [Hext Hcons] Hin. rewrite <- Hcons by exact Hin.
    apply Hext. intro x. rewrite In_set_add_nat. cbn [In]. intuition.
  Qed.
End SetSums.

(* ---------------- Vec<f64> updates ---------------- *)
Lemma vec_add_ok : forall site v i d x, nth_error v i = Some x ->
  exists v', vec_add site v i d = Ok v' /\ length v' = length v /\
             forall j, nth_error v' j = if Nat.eqb j i then Some (Qred (x + d)) else nth_error v j.
Proof.
  intros site v i d x H. unfold vec_add, vec_get. rewrite H. cbn [unwrap_at bind].
  assert (Hi : (i < length v)%nat) by (apply nth_error_Some; congruence).
  destruct (set_nth_Some i (Qred (x + d)) v Hi) as [v' E]. exists v'. rewrite E. cbn [unwrap_at].
  split; [reflexivity|]. split; [eapply set_nth_length; exact E | intro j; eapply set_nth_nth; exact E].
Qed.

(* a vector of numbers tracks a set function along a family of sets *)
Definition tracks (F : list nat -> Q) (v : list Q) (I : list (list nat)) : Prop :=
  length v = length I /\ forall c st l, nth_error v c = Some st -> nth_error I c = Some l -> st == F l.

Lemma tracks_get : forall F v I c l, tracks F v I -> nth_error I c = Some l ->
  exists st, nth_error v c = Some st /\ st == F l.
Proof.
  intros F v I c l [Hlen H] Hc. destruct (nth_error v c) as [st|] eqn:E.
  - exists st. split; [reflexivity | apply (H c st l E Hc)].
  - apply nth_error_None in E. assert ((c < length I)%nat) by (apply nth_error_Some; congruence). lia.
Qed.

Lemma tracks_update : forall F v I v' I' i x y l l',
  tracks F v I -> nth_error v i = Some x -> nth_error I i = Some l -> x == F l ->
  length v' = length v -> length I' = length I ->
  (forall j, nth_error v' j = if Nat.eqb j i then Some y else nth_error v j) ->
  (forall j, nth_error I' j = if Nat.eqb j i then Some l' else nth_error I j) ->
  y == F l' -> tracks F v' I'.
Proof.
  intros F v I v' I' i x y l l' [Hlen H] Hx Hl Hxl Lv LI Nv NI Hy. split; [lia|].
  intros c st l0 Hc Hc'. rewrite Nv in Hc. rewrite NI in Hc'. destruct (Nat.eqb c i).
  - inversion Hc. inversion Hc'. subst. exact Hy.
  - apply (H c st l0 Hc Hc').
Qed.

Section NumGraph2.
  Variable g : lgraph.
  Hypothesis W : WFn g.
  Hypothesis Hmulti : multi (sp g) = false.
  Hypothesis Hreal : forall e, In e (get_all_edges g) -> exists z, ew e = Some z.

  Notation es := (wedges g).
  Notation nms := (names g).
  Notation cng := (cn Nat.ltb (sp g)).
  Notation grp := (group Nat.eqb g).

  Lemma q_out_in_disjoint : forall n2c u c e, q_out n2c u c e = true -> q_in n2c u c e = false.
  Proof.
    intros n2c u c e H. unfold q_out in H. apply andb_true_iff in H. destruct H as [H _]. apply Nat.eqb_eq in H.
    unfold q_in, Pc. rewrite H, Nat.eqb_refl. cbn [negb andb]. apply andb_false_r.
  Qed.

  (* the candidate map the model builds for node u: per community c, the weight between u and the
     members of c other than u *)
  Lemma w2c_spec : forall u n2c, In u nms -> (forall v, In v nms -> lookup Nat.eqb v n2c <> None) ->
    exists w0 w2c,
      get_neighbor_weights g u (successors g) n2c = Ok w0 /\
      (if directed (sp g) then add_predecessor_weights g u (predecessors g) n2c w0 else Ok w0) = Ok w2c /\
      NoDup (keys w2c) /\
      (forall c, valQ c w2c == wsel (fun e => q_out n2c u c e || q_in n2c u c e) es) /\
      (forall c, In c (keys w2c) -> exists v, In v nms /\ lookup Nat.eqb v n2c = Some c).
  Proof.
    intros u n2c Hu Hdom. unfold get_neighbor_weights, add_predecessor_weights.
    rewrite (neighbor_weights_into_step g u (successors g) n2c true []).
    destruct (wf_su _ _ _ W u) as [Hnd Hmem].
    destruct (nw_fold g W Hmulti Hreal u n2c true (sort_by Nat.ltb (or_default Nat.eqb u (successors g))) [])
      as [w0 [Hw0 [Hn0 [Hv0 Hk0]]]].
    { intros v Hv Hvu. apply sort_by_In in Hv. apply Hmem in Hv. destruct Hv as [_ [Hvn Hg]].
      split; [exact Hu|]. split; [exact Hvn|]. split; [exact Hg | apply Hdom; exact Hvn]. }
    { constructor. }
    assert (Hs0 : forall c, valQ c w0 ==
              qsum (map (fun v => if Pc n2c u c v then pairw g true u v else 0) (or_default Nat.eqb u (successors g)))).
    { intro c. rewrite (Hv0 c). unfold valQ at 1. cbn [lookup].
      rewrite (qsum_perm _ _ (Permutation_map _ (sort_by_permutation Nat.ltb (or_default Nat.eqb u (successors g))))). ring. }
    assert (Hr0 : forall c, In c (keys w0) -> exists v, In v nms /\ lookup Nat.eqb v n2c = Some c).
    { intros c Hc. apply Hk0 in Hc. destruct Hc as [[]|[v [Hv [_ Hl]]]]. apply sort_by_In in Hv. apply Hmem in Hv.
      exists v. split; [apply Hv | exact Hl]. }
    exists w0. destruct (directed (sp g)) eqn:Hd.
    - rewrite (neighbor_weights_into_step g u (predecessors g) n2c false w0).
      destruct (wf_pr _ _ _ W u) as [Hndp Hmemp].
      assert (Hpn : forall v, In v (or_default Nat.eqb u (predecessors g)) -> In v nms /\ grp (v, u) <> None).
      { intros v Hv. apply Hmemp in Hv. destruct Hv as [_ Hg]. split; [|exact Hg].
        destruct (grp (v, u)) as [l|] eqn:El; [|congruence].
        destruct (wf_egroup _ _ _ W _ _ El) as (_ & _ & Hf & _). exact Hf. }
      destruct (nw_fold g W Hmulti Hreal u n2c false (sort_by Nat.ltb (or_default Nat.eqb u (predecessors g))) w0)
        as [w2c [Hw2 [Hn2 [Hv2 Hk2]]]].
      { intros v Hv Hvu. apply sort_by_In in Hv. destruct (Hpn v Hv) as [Hvn Hg].
        split; [exact Hu|]. split; [exact Hvn|]. split; [|apply Hdom; exact Hvn].
        rewrite (cn_directed Nat.ltb (sp g) v u Hd). exact Hg. }
      { exact Hn0. }
      exists w2c. split; [exact Hw0|]. split; [exact Hw2|]. split; [exact Hn2|]. split.
      + intro c. rewrite (Hv2 c), (Hs0 c).
        rewrite (qsum_perm _ _ (Permutation_map _ (sort_by_permutation Nat.ltb (or_default Nat.eqb u (predecessors g))))).
        rewrite (succ_sum_directed g W u n2c c Hd Hu), (pred_sum_directed g W u n2c c Hd).
        symmetry. apply wsel_or_disjoint. intros e _. apply q_out_in_disjoint.
      + intros c Hc. apply Hk2 in Hc. destruct Hc as [Hc|[v [Hv [_ Hl]]]]; [apply Hr0; exact Hc|].
        apply sort_by_In in Hv. exists v. split; [apply (Hpn v Hv) | exact Hl].
    - exists w0. split; [exact Hw0|]. split; [reflexivity|]. split; [exact Hn0|]. split; [|exact Hr0].
      intro c. rewrite (Hs0 c). apply (succ_sum_undirected g W u n2c c Hd Hu).
  Qed.

  Lemma between_q : forall u n2c c X, (forall v, membN v X = Pc n2c u c v) ->
    between Nat.eqb es u X == wsel (fun e => q_out n2c u c e || q_in n2c u c e) es.
  Proof.
    intros u n2c c X H. unfold between. apply wsel_ext. intros e _. unfold q_out, q_in.
    rewrite !H. rewrite (andb_comm (Pc n2c u c (wu e))). reflexivity.
  Qed.
End NumGraph2.

(* ---------------- small general facts ---------------- *)
Lemma omapM_map : forall {X Y} (f : X -> outcome Y) (h : X -> Y) l,
  (forall x, In x l -> f x = Ok (h x)) -> omapM f l = Ok (map h l).
Proof.
  intros X Y f h l. induction l as [|x t IH]; intro H; [reflexivity|]. cbn [omapM map].
  rewrite (H x (or_introl eq_refl)). cbn [bind]. rewrite IH by (intros y Hy; apply H; right; exact Hy). reflexivity.
Qed.

Lemma lookup_map_key : forall {X} (k : X -> nat) (h : nat -> Q) (l : list X) u,
  lookup Nat.eqb u (map (fun n => (k n, h (k n))) l) =
  if existsb (fun n => Nat.eqb (k n) u) l then Some (h u) else None.
Proof.
  intros X k h l u. induction l as [|x t IH]; [reflexivity|]. cbn [map lookup existsb].
  rewrite (Nat.eqb_sym u (k x)). destruct (Nat.eqb (k x) u) eqn:E; [|exact IH].
  apply Nat.eqb_eq in E. rewrite E. reflexivity.
Qed.

Lemma nth_error_ext_eq : forall {X} (a b : list X), (forall j, nth_error a j = nth_error b j) -> a = b.
Proof.
  intros X a. induction a as [|x t IH]; intros [|y u] H.
  - reflexivity.
  - specialize (H 0%nat). discriminate.
  - specialize (H 0%nat). discriminate.
  - pose proof (H 0%nat) as H0. cbn in H0. inversion H0. subst y. f_equal. apply IH. intro j. apply (H (S j)).
Qed.

Lemma qsum_map_upd : forall {X} (f : X -> Q) l l' i x y,
  nth_error l i = Some x ->
  (forall j, nth_error l' j = if Nat.eqb j i then Some y else nth_error l j) ->
  qsum (map f l') == qsum (map f l) - f x + f y.
Proof.
  intros X f l. induction l as [|h t IH]; intros l' i x y Hx Hn; [destruct i; discriminate|].
  destruct i as [|i].
  - cbn in Hx. inversion Hx. subst h.
    assert (E : l' = y :: t).
    { apply nth_error_ext_eq. intros [|j]; rewrite Hn; reflexivity. }
    subst l'. cbn [map qsum]. ring.
  - cbn in Hx. destruct l' as [|h' t'].
    + specialize (Hn 0%nat). cbn in Hn. discriminate.
    + pose proof (Hn 0%nat) as H0. cbn in H0. inversion H0. subst h'. cbn [map qsum].
      rewrite (IH t' i x y Hx); [ring|]. intro j. apply (Hn (S j)).
Qed.

Lemma wsel_nonneg : forall (p : wedgeN -> bool) (es : list wedgeN),
  (forall e, In e es -> 0 <= ww e) -> 0 <= wsel p es.
Proof.
  intros p es. induction es as [|e t IH]; intro H; [unfold wsel; cbn; lra|].
  rewrite (@wsel_cons nat). specialize (IH (fun x Hx => H x (or_intror Hx))).
  pose proof (H e (or_introl eq_refl)). destruct (p e); lra.
Qed.

(* gain_of, directed: inversion and existence *)
Lemma gain_of_directed_inv : forall di m res c wt gq,
  gain_of di m res true c wt = Ok (Some gq) ->
  exists si so, nth_error (stot_in di) c = Some si /\ nth_error (stot_out di) c = Some so /\ ~ m == 0 /\
                gq == wt - res * (out_degree di * si + in_degree di * so) / m.
Proof.
  intros di m res c wt gq H. unfold gain_of, vec_get, unwrap_at in H.
  destruct (nth_error (stot_in di) c) as [si|] eqn:E1; cbn [bind] in H; [|discriminate].
  destruct (nth_error (stot_out di) c) as [so|] eqn:E2; cbn [bind] in H; [|discriminate].
  destruct (Qeq_bool m 0) eqn:Em; [discriminate|]. apply ok_some_inj in H.
  exists si, so. split; [reflexivity|]. split; [reflexivity|]. split.
  - intro Hm. apply Qeq_bool_iff in Hm. congruence.
  - rewrite <- H. apply Qred_correct.
Qed.

Lemma gain_of_directed_some : forall di m res c wt si so,
  nth_error (stot_in di) c = Some si -> nth_error (stot_out di) c = Some so -> ~ m == 0 ->
  exists gq, gain_of di m res true c wt = Ok (Some gq) /\
             gq == wt - res * (out_degree di * si + in_degree di * so) / m.
Proof.
  intros di m res c wt si so E1 E2 Hm. unfold gain_of, vec_get, unwrap_at. rewrite E1, E2. cbn [bind].
  destruct (Qeq_bool m 0) eqn:Em; [apply Qeq_bool_iff in Em; contradiction|].
  eexists. split; [reflexivity | apply Qred_correct].
Qed.

Lemma gain_of_total : forall di m res dir c wt,
  (dir = false -> nth_error (stot di) c <> None) ->
  (dir = true -> nth_error (stot_in di) c <> None /\ nth_error (stot_out di) c <> None) ->
  exists r, gain_of di m res dir c wt = Ok r.
Proof.
  intros di m res dir c wt Hu Hd. unfold gain_of, vec_get. destruct dir.
  - destruct (Hd eq_refl) as [H1 H2].
    destruct (nth_error (stot_in di) c); [|congruence]. destruct (nth_error (stot_out di) c); [|congruence].
    cbn [unwrap_at bind]. eauto.
  - specialize (Hu eq_refl). destruct (nth_error (stot di) c); [|congruence]. cbn [unwrap_at bind]. eauto.
Qed.

Lemma scan_candidates_total : forall di m res dir cands bc bm seen,
  (forall c w, In (c, w) cands -> exists r, gain_of di m res dir c w = Ok r) ->
  exists r, scan_candidates di m res dir cands bc bm seen = Ok r.
Proof.
  intros di m res dir cands. induction cands as [|[c w] t IH]; intros bc bm seen H; cbn [scan_candidates]; [eauto|].
  destruct (H c w (or_introl eq_refl)) as [r Hr]. rewrite Hr. cbn [bind].
  assert (Ht : forall c0 w0, In (c0, w0) t -> exists r0, gain_of di m res dir c0 w0 = Ok r0)
    by (intros c0 w0 H0; apply H; right; exact H0).
  destruct r as [gq|]; [destruct (Qlt_le_dec bm gq)|]; apply IH; exact Ht.
Qed.

Lemma update_best_com_total : forall own w2c di m res dir,
  (forall c w, In (c, w) w2c -> exists r, gain_of di m res dir c w = Ok r) ->
  exists bc tie, update_best_com own w2c di m res dir = Ok (bc, tie) /\ (bc = own \/ In bc (keys w2c)).
Proof.
  intros own w2c di m res dir H. unfold update_best_com.
  destruct (scan_candidates_total di m res dir (sort_candidates own w2c) own 0 []) as [[[bc bm] seen] Hr].
  { intros c w Hin. apply H. apply sort_candidates_In in Hin. exact Hin. }
  rewrite Hr. cbn [bind]. exists bc, (risky_tie bm seen). split; [reflexivity|].
  destruct (scan_candidates_inv di m res dir _ _ _ _ _ _ _ Hr) as [_ [_ [[Hb _]|[w [Hin _]]]]].
  - left. exact Hb.
  - right. apply sort_candidates_In in Hin. unfold keys. apply in_map_iff. exists (bc, w). split; [reflexivity | exact Hin].
Qed.

(* ---------------- the degree information ---------------- *)
Section Degrees.
  Variable g : lgraph.
  Hypothesis W : WFn g.
  Hypothesis Hreal : forall e, In e (get_all_edges g) -> exists z, ew e = Some z.

  Notation es := (wedges g).
  Notation nms := (names g).

  Lemma zsum_q : forall l : list ledge, inject_Z (zsum l) == qsum (map (fun e => inject_Z (zw_ e)) l).
  Proof.
    induction l as [|e t IH]; [reflexivity|]. cbn [zsum fold_right map qsum].
    rewrite inject_Z_plus. fold (zsum t). rewrite IH. reflexivity.
  Qed.

  Lemma Kout_single : forall u, Kout_of Nat.eqb es [u] == inject_Z (w_out Nat.eqb g u).
  Proof.
    intro u. unfold Kout_of, wedges. rewrite wsel_map_wq. unfold w_out, out_edges_of. rewrite zsum_q.
    unfold get_all_edges.
    rewrite (filter_ext (fun e : ledge => membN (wu (wq e)) [u]) (fun e => Nat.eqb (eu e) u)); [reflexivity|].
    intro e. cbn. apply orb_false_r.
  Qed.

  Lemma Kin_single : forall u, Kin_of Nat.eqb es [u] == inject_Z (w_in Nat.eqb g u).
  Proof.
    intro u. unfold Kin_of, wedges. rewrite wsel_map_wq. unfold w_in, in_edges_of. rewrite zsum_q.
    unfold get_all_edges.
    rewrite (filter_ext (fun e : ledge => membN (wv (wq e)) [u]) (fun e => Nat.eqb (ev e) u)); [reflexivity|].
    intro e. cbn. apply orb_false_r.
  Qed.

  Lemma wmap_q_real : forall (l : list lnode) (h : nat -> Z),
    wmap_q (map (fun n => @pair nat weight (nname n) (Some (h (nname n)))) l) =
    Ok (map (fun n => (nname n, inject_Z (h (nname n)))) l).
  Proof.
    intros l h. unfold wmap_q. induction l as [|x t IH]; [reflexivity|]. cbn [map omapM].
    cbn [snd fst q_of_w bind]. rewrite IH. reflexivity.
  Qed.

  Lemma for_all_nodes_map : forall {X} (f : lgraph -> nat -> outcome (option X)) (h : nat -> X),
    (forall x, In x nms -> f g x = Ok (Some (h x))) ->
    for_all_nodes g f = Ok (map (fun n : lnode => (nname n, h (nname n))) (nodes_vec g)).
  Proof.
    intros X f h H. unfold for_all_nodes. apply omapM_map. intros n Hn.
    rewrite (H (nname n)) by (unfold names; apply in_map; exact Hn). reflexivity.
  Qed.

  Lemma lookup_deg_map : forall (h : nat -> Q) u, In u nms ->
    lookup Nat.eqb u (map (fun n : lnode => (nname n, h (nname n))) (nodes_vec g)) = Some (h u).
  Proof.
    intros h u Hu. rewrite (lookup_map_key (fun n : lnode => nname n) h).
    rewrite (name_exists g u Hu). reflexivity.
  Qed.

  (* undirected *)
  Lemma degrees_undirected :
    exists dg, (do d0 <- get_weighted_degree_for_all_nodes Nat.eqb Nat.ltb g; wmap_q d0) = Ok dg /\
      forall u, In u nms -> exists q, lookup Nat.eqb u dg = Some q /\ q == K_of Nat.eqb es [u].
  Proof.
    unfold get_weighted_degree_for_all_nodes.
    rewrite (for_all_nodes_map (get_node_weighted_degree Nat.eqb Nat.ltb)
               (fun x => Some (w_out Nat.eqb g x + w_in Nat.eqb g x)%Z)).
    - cbn [bind]. pose proof (wmap_q_real (nodes_vec g) (fun x => (w_out Nat.eqb g x + w_in Nat.eqb g x)%Z)) as E.
      cbn beta in E. rewrite E. clear E.
      eexists. split; [reflexivity|]. intros u Hu.
      pose proof (lookup_deg_map (fun x => inject_Z (w_out Nat.eqb g x + w_in Nat.eqb g x)) u Hu) as E.
      cbn beta in E. rewrite E. clear E.
      eexists. split; [reflexivity|]. unfold K_of. rewrite Kout_single, Kin_single, inject_Z_plus. reflexivity.
    - intros x Hx. apply (get_node_weighted_degree_spec Nat.eqb Nat.ltb Nat.eqb_eq nat_ltb_tot g x W Hx). exact Hreal.
  Qed.

  Lemma all_real_sub_perm : forall l l' : list ledge, Permutation l l' ->
    (forall e, In e l' -> In e (get_all_edges g)) -> wsum (map ew l) = Some (zsum l').
  Proof.
    intros l l' HP Hsub. rewrite (wsum_real l).
    - f_equal. apply zsum_perm. exact HP.
    - intros e He. apply Hreal. apply Hsub. eapply Permutation_in; [exact HP | exact He].
  Qed.

  Lemma degrees_directed : directed (sp g) = true ->
    exists ind outd,
      (do i0 <- unwrap_res "louvain.rs:get_degree_information in unwrap"
                  (get_weighted_in_degree_for_all_nodes Nat.eqb g); wmap_q i0) = Ok ind /\
      (do o0 <- unwrap_res "louvain.rs:get_degree_information out unwrap"
                  (get_weighted_out_degree_for_all_nodes Nat.eqb g); wmap_q o0) = Ok outd /\
      (forall u, In u nms -> exists q, lookup Nat.eqb u ind = Some q /\ q == Kin_of Nat.eqb es [u]) /\
      (forall u, In u nms -> exists q, lookup Nat.eqb u outd = Some q /\ q == Kout_of Nat.eqb es [u]).
  Proof.
    intro Hd. unfold get_weighted_in_degree_for_all_nodes, get_weighted_out_degree_for_all_nodes. rewrite Hd. cbn [negb].
    rewrite (for_all_nodes_map (get_node_weighted_in_degree Nat.eqb) (fun x => Some (w_in Nat.eqb g x))).
    2:{ intros x Hx. unfold get_node_weighted_in_degree.
        destruct (get_in_edges_for_node_spec Nat.eqb Nat.ltb Nat.eqb_eq g x W Hd Hx) as [l [Hl HP]]. rewrite Hl.
        cbn [opt_wsum]. rewrite (all_real_sub_perm l _ HP); [reflexivity|].
        intros e He. unfold in_edges_of in He. apply filter_In in He. apply He. }
    rewrite (for_all_nodes_map (get_node_weighted_out_degree Nat.eqb) (fun x => Some (w_out Nat.eqb g x))).
    2:{ intros x Hx. unfold get_node_weighted_out_degree.
        destruct (get_out_edges_for_node_spec Nat.eqb Nat.ltb Nat.eqb_eq g x W Hd Hx) as [l [Hl HP]]. rewrite Hl.
        cbn [opt_wsum]. rewrite (all_real_sub_perm l _ HP); [reflexivity|].
        intros e He. unfold out_edges_of in He. apply filter_In in He. apply He. }
    cbn [unwrap_res bind].
    rewrite (wmap_q_real (nodes_vec g) (w_in Nat.eqb g)), (wmap_q_real (nodes_vec g) (w_out Nat.eqb g)).
    eexists. eexists. split; [reflexivity|]. split; [reflexivity|]. split; intros u Hu.
    - rewrite (lookup_deg_map (fun x => inject_Z (w_in Nat.eqb g x)) u Hu). eexists. split; [reflexivity|].
      rewrite Kin_single. reflexivity.
    - rewrite (lookup_deg_map (fun x => inject_Z (w_out Nat.eqb g x)) u Hu). eexists. split; [reflexivity|].
      rewrite Kout_single. reflexivity.
  Qed.
End Degrees.

(* ---------------- the numeric invariant L3 and the potential ---------------- *)
Lemma upd_nth_set_nth : forall {X} site i (f : X -> X) l l' x,
  nth_error l i = Some x -> upd_nth site i f l = Ok l' -> set_nth i (f x) l = Some l'.
Proof.
  intros X site i f l l' x Hx H. unfold upd_nth in H. rewrite Hx in H. cbn [unwrap_at bind] in H.
  apply unwrap_at_ok in H. exact H.
Qed.

Lemma set_nth_upd_nth : forall {X} site i (f : X -> X) l l' x,
  nth_error l i = Some x -> set_nth i (f x) l = Some l' -> upd_nth site i f l = Ok l'.
Proof. intros X site i f l l' x Hx H. unfold upd_nth. rewrite Hx. cbn [unwrap_at bind]. rewrite H. reflexivity. Qed.

Section NumVisit.
  Variable g : lgraph.
  Hypothesis W : WFn g.
  Hypothesis Hmulti : multi (sp g) = false.
  Hypothesis Hreal : forall e, In e (get_all_edges g) -> exists z, ew e = Some z.
  Variable n : nat.
  Hypothesis Hnames : forall u, In u (names g) <-> In u (seq 0 n).
  Hypothesis Hnn : forall w, In w (wedges g) -> 0 <= ww w.
  Variables m res : Q.
  Hypothesis Hm : 0 <= m.
  Hypothesis Hres : 0 <= res.

  Notation es := (wedges g).
  Notation nms := (names g).
  Notation Kf := (K_of Nat.eqb es).
  Notation Kinf := (Kin_of Nat.eqb es).
  Notation Koutf := (Kout_of Nat.eqb es).
  Notation btw := (between Nat.eqb es).

  Record NInv (I : list (list nat)) (di : deginfo) : Prop := mkNI {
    ni_len : length I = n;
    ni_u : directed (sp g) = false ->
           (forall u, In u nms -> exists q, lookup Nat.eqb u (degrees di) = Some q /\ q == Kf [u]) /\
           tracks Kf (stot di) I;
    ni_d : directed (sp g) = true ->
           (forall u, In u nms -> exists q, lookup Nat.eqb u (in_degrees di) = Some q /\ q == Kinf [u]) /\
           (forall u, In u nms -> exists q, lookup Nat.eqb u (out_degrees di) = Some q /\ q == Koutf [u]) /\
           tracks Kinf (stot_in di) I /\ tracks Koutf (stot_out di) I
  }.

  (* the modularity-shaped potential with an arbitrary normalising constant m *)
  Definition term_m (dirb : bool) (c : list nat) : Q :=
    if dirb then L_of Nat.eqb es c / m - res * (Koutf c * Kinf c) / (m * m)
    else L_of Nat.eqb es c / m - res * ((Kf c / (2 * m)) * (Kf c / (2 * m))).
  Definition Phi (dirb : bool) (I : list (list nat)) : Q := qsum (map (term_m dirb) I).

  Lemma term_m_ext : forall dirb X Y, (forall x, In x X <-> In x Y) -> term_m dirb X == term_m dirb Y.
  Proof.
    intros dirb X Y H. unfold term_m. destruct dirb.
    - rewrite (L_ext es X Y H), (Kout_ext es X Y H), (Kin_ext es X Y H). reflexivity.
    - rewrite (L_ext es X Y H), (K_ext es X Y H). reflexivity.
  Qed.

  (* the numbers the code compares, on the edge multiset *)
  Definition gU (u : nat) (X : list nat) : Q := 2 * btw u X - res * (Kf X * Kf [u]) / m.
  Definition gD (u : nat) (X : list nat) : Q := btw u X - res * (Koutf [u] * Kinf X + Kinf [u] * Koutf X) / m.

  Lemma move_terms_u : forall u C D, ~ m == 0 -> ~ In u C -> ~ In u D ->
    (term_m false (u :: C) + term_m false D) - (term_m false C + term_m false (u :: D))
    == (gU u C - gU u D) / (2 * m).
  Proof.
    intros u C D Hm0 HC HD. unfold term_m, gU.
    rewrite (L_of_cons Nat.eqb Nat.eqb_eq es u C HC), (L_of_cons Nat.eqb Nat.eqb_eq es u D HD).
    rewrite (K_of_cons Nat.eqb Nat.eqb_eq es u C HC), (K_of_cons Nat.eqb Nat.eqb_eq es u D HD).
    field. exact Hm0.
  Qed.

  Lemma move_terms_d : forall u C D, ~ m == 0 -> ~ In u C -> ~ In u D ->
    (term_m true (u :: C) + term_m true D) - (term_m true C + term_m true (u :: D))
    == (gD u C - gD u D) / m.
  Proof.
    intros u C D Hm0 HC HD. unfold term_m, gD.
    rewrite (L_of_cons Nat.eqb Nat.eqb_eq es u C HC), (L_of_cons Nat.eqb Nat.eqb_eq es u D HD).
    rewrite (Kout_of_cons Nat.eqb Nat.eqb_eq es u C HC), (Kout_of_cons Nat.eqb Nat.eqb_eq es u D HD).
    rewrite (Kin_of_cons Nat.eqb Nat.eqb_eq es u C HC), (Kin_of_cons Nat.eqb Nat.eqb_eq es u D HD).
    field. exact Hm0.
  Qed.

  Lemma Phi_move : forall dirb I i1 i2 own bc iO iB u, bc <> own ->
    nth_error I own = Some iO -> nth_error I bc = Some iB -> In u iO -> ~ In u iB ->
    (forall j, nth_error i1 j = if Nat.eqb j own then Some (set_remove u iO) else nth_error I j) ->
    (forall j, nth_error i2 j = if Nat.eqb j bc then Some (set_add Nat.eqb u iB) else nth_error i1 j) ->
    Phi dirb i2 - Phi dirb I ==
    (term_m dirb (u :: iB) + term_m dirb (set_remove u iO)) - (term_m dirb iB + term_m dirb (u :: set_remove u iO)).
  Proof.
    intros dirb I i1 i2 own bc iO iB u Hne HO HB HuO HuB N1 N2. unfold Phi.
    assert (HB1 : nth_error i1 bc = Some iB).
    { rewrite N1. rewrite (proj2 (Nat.eqb_neq bc own) Hne). exact HB. }
    rewrite (qsum_map_upd (term_m dirb) i1 i2 bc iB (set_add Nat.eqb u iB) HB1 N2).
    rewrite (qsum_map_upd (term_m dirb) I i1 own iO (set_remove u iO) HO N1).
    assert (E1 : term_m dirb (set_add Nat.eqb u iB) == term_m dirb (u :: iB)).
    { apply term_m_ext. intro x. rewrite In_set_add_nat. cbn [In]. intuition. }
    assert (E2 : term_m dirb iO == term_m dirb (u :: set_remove u iO)).
    { apply term_m_ext. intro x. cbn [In]. rewrite In_set_remove. destruct (Nat.eq_dec x u); intuition congruence. }
    rewrite E1, E2. ring.
  Qed.

  Lemma K_nonneg : forall X, 0 <= Kf X.
  Proof. intro X. unfold K_of, Kout_of, Kin_of. pose proof (wsel_nonneg (fun e => membN (wu e) X) es Hnn).
         pose proof (wsel_nonneg (fun e => membN (wv e) X) es Hnn). lra. Qed.
  Lemma Kout_nonneg : forall X, 0 <= Koutf X.
  Proof. intro X. apply (wsel_nonneg _ es Hnn). Qed.
  Lemma Kin_nonneg : forall X, 0 <= Kinf X.
  Proof. intro X. apply (wsel_nonneg _ es Hnn). Qed.

  (* ---- subtracting / adding the degree of the visited node ---- *)
  Lemma subtract_ok : forall I di own u iO I1,
    NInv I di -> nth_error I own = Some iO -> In u iO -> In u nms ->
    set_nth own (set_remove u iO) I = Some I1 ->
    exists di1, subtract_degree_from_best_com own u di (directed (sp g)) = Ok di1 /\ NInv I1 di1 /\
      (directed (sp g) = false -> degree di1 == Kf [u]) /\
      (directed (sp g) = true -> in_degree di1 == Kinf [u] /\ out_degree di1 == Koutf [u]).
  Proof.
    intros I di own u iO I1 [Hlen HU HD] HO Hu Hun HI1.
    assert (LI1 : length I1 = length I) by (eapply set_nth_length; exact HI1).
    assert (NI1 : forall j, nth_error I1 j = if Nat.eqb j own then Some (set_remove u iO) else nth_error I j)
      by (intro j; eapply set_nth_nth; exact HI1).
    unfold subtract_degree_from_best_com. destruct (directed (sp g)) eqn:Hd.
    - destruct (HD eq_refl) as [Hin [Hout [Tin Tout]]].
      destruct (Hin u Hun) as [di_ [Ei Hi]]. destruct (Hout u Hun) as [do_ [Eo Ho]].
      rewrite Ei, Eo. cbn [unwrap_at bind].
      destruct (tracks_get _ _ _ _ _ Tin HO) as [si [Esi Hsi]]. destruct (tracks_get _ _ _ _ _ Tout HO) as [so [Eso Hso]].
      destruct (vec_add_ok "louvain.rs:stot_in index" (stot_in di) own (- di_) si Esi) as [vi [Evi [Lvi Nvi]]].
      destruct (vec_add_ok "louvain.rs:stot_out index" (stot_out di) own (- do_) so Eso) as [vo [Evo [Lvo Nvo]]].
      rewrite Evi, Evo. cbn [bind]. eexists. split; [reflexivity|]. split; [|split; [intro HH; congruence|]].
      + constructor; cbn [degrees stot in_degrees out_degrees stot_in stot_out]; [lia | intro HH; congruence|].
        intros _. split; [exact Hin|]. split; [exact Hout|]. split.
        * eapply (tracks_update Kinf (stot_in di) I vi I1 own si); try eassumption.
          rewrite Qred_correct. rewrite (additive_remove Kinf u iO (additive_Kin es) Hu) in Hsi. lra.
        * eapply (tracks_update Koutf (stot_out di) I vo I1 own so); try eassumption.
          rewrite Qred_correct. rewrite (additive_remove Koutf u iO (additive_Kout es) Hu) in Hso. lra.
      + intros _. cbn [in_degree out_degree]. split; assumption.
    - destruct (HU eq_refl) as [Hdeg Tst]. destruct (Hdeg u Hun) as [d [Ed Hdq]]. rewrite Ed. cbn [unwrap_at bind].
      destruct (tracks_get _ _ _ _ _ Tst HO) as [so [Eso Hso]].
      destruct (vec_add_ok "louvain.rs:stot index" (stot di) own (- d) so Eso) as [vs [Evs [Lvs Nvs]]].
      rewrite Evs. cbn [bind]. eexists. split; [reflexivity|]. split; [|split; [|intro HH; congruence]].
      + constructor; cbn [degrees stot in_degrees out_degrees stot_in stot_out]; [lia | | intro HH; congruence].
        intros _. split; [exact Hdeg|].
        eapply (tracks_update Kf (stot di) I vs I1 own so); try eassumption.
        rewrite Qred_correct. rewrite (additive_remove Kf u iO (additive_K es) Hu) in Hso. lra.
      + intros _. cbn [degree]. exact Hdq.
  Qed.

  Lemma add_ok : forall I1 di1 bc u l I2,
    NInv I1 di1 -> nth_error I1 bc = Some l -> ~ In u l ->
    set_nth bc (set_add Nat.eqb u l) I1 = Some I2 ->
    (directed (sp g) = false -> degree di1 == Kf [u]) ->
    (directed (sp g) = true -> in_degree di1 == Kinf [u] /\ out_degree di1 == Koutf [u]) ->
    exists di2, add_degree_to_best_com bc di1 (directed (sp g)) = Ok di2 /\ NInv I2 di2.
  Proof.
    intros I1 di1 bc u l I2 [Hlen HU HD] HB Hu HI2 Hdu Hdd.
    assert (LI2 : length I2 = length I1) by (eapply set_nth_length; exact HI2).
    assert (NI2 : forall j, nth_error I2 j = if Nat.eqb j bc then Some (set_add Nat.eqb u l) else nth_error I1 j)
      by (intro j; eapply set_nth_nth; exact HI2).
    unfold add_degree_to_best_com. destruct (directed (sp g)) eqn:Hd.
    - destruct (HD eq_refl) as [Hin [Hout [Tin Tout]]]. destruct (Hdd eq_refl) as [Hi Ho].
      destruct (tracks_get _ _ _ _ _ Tin HB) as [si [Esi Hsi]]. destruct (tracks_get _ _ _ _ _ Tout HB) as [so [Eso Hso]].
      destruct (vec_add_ok "louvain.rs:stot_in index" (stot_in di1) bc (in_degree di1) si Esi) as [vi [Evi [Lvi Nvi]]].
      destruct (vec_add_ok "louvain.rs:stot_out index" (stot_out di1) bc (out_degree di1) so Eso) as [vo [Evo [Lvo Nvo]]].
      rewrite Evi, Evo. cbn [bind]. eexists. split; [reflexivity|].
      constructor; cbn [degrees stot in_degrees out_degrees stot_in stot_out]; [lia | intro HH; congruence|].
      intros _. split; [exact Hin|]. split; [exact Hout|]. split.
      + eapply (tracks_update Kinf (stot_in di1) I1 vi I2 bc si); try eassumption.
        rewrite Qred_correct, (additive_add Kinf u l (additive_Kin es) Hu). lra.
      + eapply (tracks_update Koutf (stot_out di1) I1 vo I2 bc so); try eassumption.
        rewrite Qred_correct, (additive_add Koutf u l (additive_Kout es) Hu). lra.
    - destruct (HU eq_refl) as [Hdeg Tst]. specialize (Hdu eq_refl).
      destruct (tracks_get _ _ _ _ _ Tst HB) as [so [Eso Hso]].
      destruct (vec_add_ok "louvain.rs:stot index" (stot di1) bc (degree di1) so Eso) as [vs [Evs [Lvs Nvs]]].
      rewrite Evs. cbn [bind]. eexists. split; [reflexivity|].
      constructor; cbn [degrees stot in_degrees out_degrees stot_in stot_out]; [lia | | intro HH; congruence].
      intros _. split; [exact Hdeg|].
      eapply (tracks_update Kf (stot di1) I1 vs I2 bc so); try eassumption.
      rewrite Qred_correct, (additive_add Kf u l (additive_K es) Hu). lra.
  Qed.

  (* NInv only looks at the membership of the communities *)
  Lemma tracks_ext : forall F v I I', additive F -> tracks F v I -> length I' = length I ->
    (forall c l l', nth_error I c = Some l -> nth_error I' c = Some l' -> forall x, In x l <-> In x l') ->
    tracks F v I'.
  Proof.
    intros F v I I' [Hext _] [Hlen H] HL Hmem. split; [lia|].
    intros c st l' Hc Hl'. destruct (nth_error I c) as [l|] eqn:El.
    - rewrite (H c st l Hc El). apply Hext. apply (Hmem c l l' El Hl').
    - apply nth_error_None in El. assert ((c < length I')%nat) by (apply nth_error_Some; congruence). lia.
  Qed.

  Lemma NInv_ext : forall I I' di, NInv I di -> length I' = length I ->
    (forall c l l', nth_error I c = Some l -> nth_error I' c = Some l' -> forall x, In x l <-> In x l') ->
    NInv I' di.
  Proof.
    intros I I' di [Hlen HU HD] HL Hmem. constructor; [lia | |].
    - intro Hd. destruct (HU Hd) as [H1 H2]. split; [exact H1|].
      apply (tracks_ext Kf _ I I' (additive_K es) H2 HL Hmem).
    - intro Hd. destruct (HD Hd) as [H1 [H2 [H3 H4]]]. split; [exact H1|]. split; [exact H2|]. split.
      + apply (tracks_ext Kinf _ I I' (additive_Kin es) H3 HL Hmem).
      + apply (tracks_ext Koutf _ I I' (additive_Kout es) H4 HL Hmem).
  Qed.

  (* ---- the candidate map against the (virtual) inner partition without u ---- *)
  Hypothesis attr_disj : forall u v x, In u (seq 0 n) -> In v (seq 0 n) ->
    In x (attr_of g u) -> In x (attr_of g v) -> u = v.
  Notation SI := (SInvS (seq 0 n) (attr_of g)).

  Lemma memb_Pc : forall P I n2c u c l, SInv (seq 0 n) (attr_of g) P I n2c -> nth_error I c = Some l ->
    forall v, membN v (set_remove u l) = Pc n2c u c v.
  Proof.
    intros P I n2c u c l HS Hc v. apply bool_eq_iff. rewrite memb_nat_In, In_set_remove.
    unfold Pc, com_is. rewrite andb_true_iff, negb_true_iff, Nat.eqb_neq. split.
    - intros [Hv Hne]. split; [exact Hne|].
      assert (E : lookup Nat.eqb v n2c = Some c) by (apply (si_L1 _ _ _ _ _ HS); exists l; split; assumption).
      rewrite E. apply Nat.eqb_refl.
    - intros [Hne Hc']. split; [|exact Hne]. destruct (lookup Nat.eqb v n2c) as [c'|] eqn:E; [|discriminate].
      apply Nat.eqb_eq in Hc'. subst c'. apply (si_L1 _ _ _ _ _ HS) in E. destruct E as [l' [Hl' Hin]].
      rewrite Hc in Hl'. inversion Hl'. subst. exact Hin.
  Qed.

  Lemma candidates_spec : forall P I n2c u own iO I1,
    SInv (seq 0 n) (attr_of g) P I n2c -> In u (seq 0 n) ->
    lookup Nat.eqb u n2c = Some own -> nth_error I own = Some iO ->
    set_nth own (set_remove u iO) I = Some I1 ->
    exists w0 w2c,
      get_neighbor_weights g u (successors g) n2c = Ok w0 /\
      (if directed (sp g) then add_predecessor_weights g u (predecessors g) n2c w0 else Ok w0) = Ok w2c /\
      NoDup (keys w2c) /\
      (forall c, In c (keys w2c) -> exists l v, nth_error I c = Some l /\ In v l) /\
      (forall c l1, nth_error I1 c = Some l1 -> ~ In u l1 /\ valQ c w2c == btw u l1).
  Proof.
    intros P I n2c u own iO I1 HS Hu Hown HO HI1.
    assert (NI1 : forall j, nth_error I1 j = if Nat.eqb j own then Some (set_remove u iO) else nth_error I j)
      by (intro j; eapply set_nth_nth; exact HI1).
    destruct (w2c_spec g W Hmulti Hreal u n2c) as [w0 [w2c [Hw0 [Hw2 [Hnd [Hval Hrange]]]]]].
    { apply Hnames. exact Hu. }
    { intros v Hv. apply (si_dom _ _ _ _ _ HS). apply Hnames. exact Hv. }
    exists w0, w2c. split; [exact Hw0|]. split; [exact Hw2|]. split; [exact Hnd|]. split.
    - intros c Hc. destruct (Hrange c Hc) as [v [_ Hl]]. apply (si_L1 _ _ _ _ _ HS) in Hl. destruct Hl as [l [Hl Hv]].
      exists l, v. split; assumption.
    - intros c l1 Hc. rewrite NI1 in Hc. destruct (Nat.eqb c own) eqn:Eco.
      + apply Nat.eqb_eq in Eco. subst c. inversion Hc. subst l1. split; [rewrite In_set_remove; intuition|].
        rewrite (Hval own). symmetry. rewrite <- (between_q g u n2c own (set_remove u (set_remove u iO))).
        * apply between_ext. intro x. rewrite !In_set_remove. tauto.
        * intro v. rewrite <- (memb_Pc P I n2c u own iO HS HO v). apply memb_ext_of_In. intro x. rewrite !In_set_remove. tauto.
      + apply Nat.eqb_neq in Eco.
        assert (Hnu : ~ In u l1).
        { intro Hin. assert (E : lookup Nat.eqb u n2c = Some c) by (apply (si_L1 _ _ _ _ _ HS); exists l1; split; assumption).
          congruence. }
        split; [exact Hnu|]. rewrite (Hval c). symmetry. rewrite <- (between_q g u n2c c (set_remove u l1)).
        * apply between_ext. intro x. rewrite In_set_remove. split; [intro H; split; [exact H | intro E; subst; contradiction] | tauto].
        * apply (memb_Pc P I n2c u c l1 HS Hc).
  Qed.

  Lemma in_keys_lookup : forall (w2c : list (nat * Q)) c wt, NoDup (keys w2c) -> In (c, wt) w2c -> valQ c w2c = wt.
  Proof. intros w2c c wt Hnd Hin. unfold valQ. rewrite (In_lookup Nat.eqb Nat.eqb_eq c wt w2c Hnd Hin). reflexivity. Qed.

  (* the gain the model computes for a candidate is the gain on the edge multiset *)
  Lemma gain_sem : forall I1 di1 u w2c c wt l1 gq,
    NInv I1 di1 -> NoDup (keys w2c) -> In (c, wt) w2c -> nth_error I1 c = Some l1 -> valQ c w2c == btw u l1 ->
    (directed (sp g) = false -> degree di1 == Kf [u]) ->
    (directed (sp g) = true -> in_degree di1 == Kinf [u] /\ out_degree di1 == Koutf [u]) ->
    gain_of di1 m res (directed (sp g)) c wt = Ok (Some gq) ->
    ~ m == 0 /\ gq == (if directed (sp g) then gD u l1 else gU u l1).
  Proof.
    intros I1 di1 u w2c c wt l1 gq [_ HU HD] Hnd Hin Hc Hv Hdu Hdd Hg.
    rewrite (in_keys_lookup w2c c wt Hnd Hin) in Hv.
    destruct (directed (sp g)) eqn:Hd.
    - destruct (HD eq_refl) as [_ [_ [Tin Tout]]]. destruct (Hdd eq_refl) as [Hi Ho].
      apply gain_of_directed_inv in Hg. destruct Hg as [si [so [Esi [Eso [Hm0 Hgq]]]]].
      destruct Tin as [_ Tin]. destruct Tout as [_ Tout].
      pose proof (Tin c si l1 Esi Hc) as Hsi. pose proof (Tout c so l1 Eso Hc) as Hso.
      split; [exact Hm0|]. unfold gD. rewrite Hgq, Hv, Hsi, Hso, Hi, Ho. reflexivity.
    - destruct (HU eq_refl) as [_ [_ Tst]]. specialize (Hdu eq_refl).
      apply gain_of_undirected_inv in Hg. destruct Hg as [st [Est [Hm0 Hgq]]].
      pose proof (Tst c st l1 Est Hc) as Hst.
      split; [exact Hm0|]. unfold gU. rewrite Hgq, Hv, Hst, Hdu. reflexivity.
  Qed.

  Lemma gain_exists : forall I1 di1 c wt l1, NInv I1 di1 -> nth_error I1 c = Some l1 -> ~ m == 0 ->
    exists gq, gain_of di1 m res (directed (sp g)) c wt = Ok (Some gq).
  Proof.
    intros I1 di1 c wt l1 [_ HU HD] Hc Hm0. destruct (directed (sp g)) eqn:Hd.
    - destruct (HD eq_refl) as [_ [_ [Tin Tout]]].
      destruct (tracks_get _ _ _ _ _ Tin Hc) as [si [Esi _]]. destruct (tracks_get _ _ _ _ _ Tout Hc) as [so [Eso _]].
      destruct (gain_of_directed_some di1 m res c wt si so Esi Eso Hm0) as [gq [Hg _]]. eauto.
    - destruct (HU eq_refl) as [_ Tst]. destruct (tracks_get _ _ _ _ _ Tst Hc) as [st [Est _]].
      destruct (gain_of_undirected_some di1 m res c wt st Est Hm0) as [gq [Hg _]]. eauto.
  Qed.

  Lemma gain_total_cands : forall I1 di1 (w2c : list (nat * Q)),
    NInv I1 di1 -> (forall c, In c (keys w2c) -> exists l1, nth_error I1 c = Some l1) ->
    forall c w, In (c, w) w2c -> exists r, gain_of di1 m res (directed (sp g)) c w = Ok r.
  Proof.
    intros I1 di1 w2c [_ HU HD] Hrange c w Hin.
    assert (Hk : In c (keys w2c)) by (unfold keys; apply in_map_iff; exists (c, w); split; [reflexivity | exact Hin]).
    destruct (Hrange c Hk) as [l1 Hc]. apply gain_of_total.
    - intro Hd. destruct (HU Hd) as [_ Tst]. destruct (tracks_get _ _ _ _ _ Tst Hc) as [st [Est _]]. congruence.
    - intro Hd. destruct (HD Hd) as [_ [_ [Tin Tout]]].
      destruct (tracks_get _ _ _ _ _ Tin Hc) as [si [Esi _]]. destruct (tracks_get _ _ _ _ _ Tout Hc) as [so [Eso _]].
      split; congruence.
  Qed.

  (* the decision: a move happens only towards a community with a strictly larger gain *)
  Lemma decision : forall I1 di1 u w2c own bc tie C D,
    NInv I1 di1 -> NoDup (keys w2c) ->
    (forall c l1, nth_error I1 c = Some l1 -> ~ In u l1 /\ valQ c w2c == btw u l1) ->
    (directed (sp g) = false -> degree di1 == Kf [u]) ->
    (directed (sp g) = true -> in_degree di1 == Kinf [u] /\ out_degree di1 == Koutf [u]) ->
    update_best_com own w2c di1 m res (directed (sp g)) = Ok (bc, tie) -> bc <> own ->
    nth_error I1 bc = Some C -> nth_error I1 own = Some D ->
    0 < m /\ (if directed (sp g) then gD u D < gD u C else gU u D < gU u C).
  Proof.
    intros I1 di1 u w2c own bc tie C D HN Hnd Hval Hdu Hdd Hupd Hne HC HD.
    destruct (move_only_if_strictly_better di1 m res (directed (sp g)) own w2c bc tie Hnd Hupd Hne)
      as [wt [gq [Hin [Hg [Hg0 [_ Hown]]]]]].
    destruct (Hval bc C HC) as [_ HvC]. destruct (Hval own D HD) as [_ HvD].
    destruct (gain_sem I1 di1 u w2c bc wt C gq HN Hnd Hin HC HvC Hdu Hdd Hg) as [Hm0 HgC].
    assert (Hmpos : 0 < m) by (destruct (Qlt_le_dec 0 m) as [H|H]; [exact H | exfalso; apply Hm0; lra]).
    split; [exact Hmpos|].
    destruct (in_dec Nat.eq_dec own (keys w2c)) as [Hmem|Hnmem].
    - unfold keys in Hmem. apply in_map_iff in Hmem. destruct Hmem as [[o wo] [Ho Hino]]. cbn [fst] in Ho. subst o.
      destruct (gain_exists I1 di1 own wo D HN HD Hm0) as [go Hgo].
      pose proof (Hown wo go Hino Hgo) as Hlt.
      destruct (gain_sem I1 di1 u w2c own wo D go HN Hnd Hino HD HvD Hdu Hdd Hgo) as [_ HgD].
      destruct (directed (sp g)); rewrite <- HgC, <- HgD; exact Hlt.
    - assert (Hz : btw u D == 0).
      { rewrite <- HvD. unfold valQ. apply (lookup_None_keys Nat.eqb Nat.eqb_eq) in Hnmem. rewrite Hnmem. reflexivity. }
      destruct (directed (sp g)).
      + rewrite <- HgC. unfold gD. rewrite Hz.
        pose proof (Kout_nonneg [u]). pose proof (Kin_nonneg [u]). pose proof (Kout_nonneg D). pose proof (Kin_nonneg D).
        assert (Hdiv : 0 <= res * (Koutf [u] * Kinf D + Kinf [u] * Koutf D) / m).
        { apply Qle_shift_div_l; [exact Hmpos|]. rewrite Qmult_0_l. apply Qmult_le_0_compat; [exact Hres|].
          pose proof (Qmult_le_0_compat _ _ H H2). pose proof (Qmult_le_0_compat _ _ H0 H1). lra. }
        lra.
      + rewrite <- HgC. unfold gU. rewrite Hz.
        pose proof (K_nonneg [u]). pose proof (K_nonneg D).
        assert (Hdiv : 0 <= res * (Kf D * Kf [u]) / m).
        { apply Qle_shift_div_l; [exact Hmpos|]. rewrite Qmult_0_l. apply Qmult_le_0_compat; [exact Hres|].
          apply Qmult_le_0_compat; assumption. }
        lra.
  Qed.

  Notation dirg := (directed (sp g)).

  (* ---- one visit: never panics, keeps L1-L3, and a move strictly increases the potential ---- *)
  Lemma visit_num : forall s u, In u (seq 0 n) -> SI s -> NInv (ls_inner s) (ls_deg s) ->
    exists s', visit g m res (successors g) (predecessors g) s u = Ok s' /\
      SI s' /\ NInv (ls_inner s') (ls_deg s') /\
      ((ls_moves s' = ls_moves s /\ ls_inner s' = ls_inner s /\ ls_node2com s' = ls_node2com s /\
        ls_improved s' = ls_improved s) \/
       (ls_moves s' = S (ls_moves s) /\ ls_improved s' = true /\ 0 < m /\
        Phi dirg (ls_inner s) < Phi dirg (ls_inner s') /\
        exists own bc iO C v,
          lookup Nat.eqb u (ls_node2com s) = Some own /\ bc <> own /\
          nth_error (ls_inner s) own = Some iO /\ nth_error (ls_inner s) bc = Some C /\ In v C /\
          forall j, nth_error (ls_inner s') j =
                    if Nat.eqb j bc then Some (set_add Nat.eqb u C)
                    else if Nat.eqb j own then Some (set_remove u iO) else nth_error (ls_inner s) j)).
  Proof.
    intros s u Hu HS HN. pose proof HS as [SLen SDom SL1 SNd SL2].
    destruct (lookup Nat.eqb u (ls_node2com s)) as [own|] eqn:Hown;
      [|exfalso; apply (proj1 (SDom u) Hu); exact Hown].
    destruct (proj1 (SL1 u own) Hown) as [iO [HO HuO]].
    assert (Hlt : (own < length (ls_inner s))%nat) by (apply nth_error_Some; congruence).
    destruct (set_nth_Some own (set_remove u iO) (ls_inner s) Hlt) as [I1 HI1].
    assert (NI1 : forall j, nth_error I1 j = if Nat.eqb j own then Some (set_remove u iO) else nth_error (ls_inner s) j)
      by (intro j; eapply set_nth_nth; exact HI1).
    assert (LI1 : length I1 = length (ls_inner s)) by (eapply set_nth_length; exact HI1).
    destruct (candidates_spec _ _ _ u own iO I1 HS Hu Hown HO HI1) as [w0 [w2c [Hw0 [Hw2 [Hnd [Hrange Hval]]]]]].
    assert (Hun : In u nms) by (apply Hnames; exact Hu).
    destruct (subtract_ok _ _ own u iO I1 HN HO HuO Hun HI1) as [di1 [Hsub [HN1 [Hdu Hdd]]]].
    assert (Hrange1 : forall c, In c (keys w2c) -> exists l1, nth_error I1 c = Some l1).
    { intros c Hc. destruct (Hrange c Hc) as [l [_ [Hl _]]]. rewrite NI1. destruct (Nat.eqb c own); eauto. }
    destruct (update_best_com_total own w2c di1 m res dirg (gain_total_cands I1 di1 w2c HN1 Hrange1))
      as [bc [tie [Hupd Hbc]]].
    assert (HD1 : nth_error I1 own = Some (set_remove u iO)) by (rewrite NI1, Nat.eqb_refl; reflexivity).
    assert (HbcR : exists C, nth_error I1 bc = Some C).
    { destruct Hbc as [Hbc|Hbc]; [subst bc; eauto | apply Hrange1; exact Hbc]. }
    destruct HbcR as [C HC]. destruct (Hval bc C HC) as [HuC _].
    assert (Hltb : (bc < length I1)%nat) by (apply nth_error_Some; congruence).
    destruct (set_nth_Some bc (set_add Nat.eqb u C) I1 Hltb) as [I2 HI2].
    assert (NI2 : forall j, nth_error I2 j = if Nat.eqb j bc then Some (set_add Nat.eqb u C) else nth_error I1 j)
      by (intro j; eapply set_nth_nth; exact HI2).
    assert (LI2 : length I2 = length I1) by (eapply set_nth_length; exact HI2).
    destruct (add_ok I1 di1 bc u C I2 HN1 HC HuC HI2 Hdu Hdd) as [di2 [Hadd HN2]].
    unfold visit. rewrite Hown. cbn [unwrap_at bind]. rewrite Hw0. cbn [bind]. rewrite Hw2. cbn [bind].
    rewrite Hsub. cbn [bind]. rewrite Hupd. cbn [bind]. rewrite Hadd. cbn [bind].
    destruct (Nat.eqb bc own) eqn:Ebo.
    - (* the node stays *)
      apply Nat.eqb_eq in Ebo. subst bc. eexists. split; [reflexivity|]. cbn [ls_partition ls_inner ls_node2com ls_deg ls_moves ls_improved].
      split; [exact HS|]. split; [|left; repeat split; reflexivity].
      apply (NInv_ext I2 (ls_inner s) di2 HN2); [lia|].
      intros c l l' Hc Hc' x. rewrite NI2, NI1 in Hc. destruct (Nat.eqb c own) eqn:Eco.
      + apply Nat.eqb_eq in Eco. subst c. rewrite HO in Hc'. inversion Hc'. subst l'.
        rewrite HD1 in HC. inversion HC. subst C. inversion Hc. subst l.
        rewrite In_set_add_nat, In_set_remove. destruct (Nat.eq_dec x u); [subst; tauto | tauto].
      + rewrite Hc in Hc'. inversion Hc'. reflexivity.
    - (* the node moves *)
      apply Nat.eqb_neq in Ebo.
      assert (HCs : nth_error (ls_inner s) bc = Some C).
      { rewrite NI1 in HC. rewrite (proj2 (Nat.eqb_neq bc own) Ebo) in HC. exact HC. }
      rewrite (get_node_spec Nat.eqb Nat.ltb Nat.eqb_eq g u W).
      destruct (find (fun nd : lnode => Nat.eqb (nname nd) u) (nodes_vec g)) as [nd'|] eqn:Efind.
      2:{ exfalso. pose proof (name_exists g u Hun) as Hex. apply existsb_exists in Hex. destruct Hex as [x [Hx Hxe]].
          pose proof (find_none _ _ Efind x Hx) as Hn. cbn beta in Hn. congruence. }
      cbn [unwrap_res unwrap_at bind].
      assert (Hcom : match nattr nd' with Some a => a | None => [u] end = attr_of g u).
      { unfold attr_of. rewrite (get_node_spec Nat.eqb Nat.ltb Nat.eqb_eq g u W), Efind. reflexivity. }
      rewrite Hcom.
      assert (HpO : exists pO, nth_error (ls_partition s) own = Some pO).
      { destruct (nth_error (ls_partition s) own) eqn:E; [eauto|]. apply nth_error_None in E. lia. }
      destruct HpO as [pO HpO].
      destruct (upd_nth_some "louvain.rs:_partition index" own (fun c => set_diff c (attr_of g u)) (ls_partition s) pO HpO)
        as [p1 Hp1].
      rewrite Hp1. cbn [bind].
      pose proof (set_nth_upd_nth "louvain.rs:inner_partition index" own (set_remove u) (ls_inner s) I1 iO HO HI1) as Hi1.
      rewrite Hi1. cbn [bind].
      destruct (upd_nth_ok _ _ _ _ _ Hp1) as [_ [_ [Lp1 _]]].
      assert (HpB : exists pB, nth_error p1 bc = Some pB).
      { destruct (nth_error p1 bc) eqn:E; [eauto|]. apply nth_error_None in E. lia. }
      destruct HpB as [pB HpB].
      destruct (upd_nth_some "louvain.rs:_partition index" bc (fun c => set_union c (attr_of g u)) p1 pB HpB) as [p2 Hp2].
      rewrite Hp2. cbn [bind].
      pose proof (set_nth_upd_nth "louvain.rs:inner_partition index" bc (set_add Nat.eqb u) I1 I2 C HC HI2) as Hi2.
      rewrite Hi2. cbn [bind].
      eexists. split; [reflexivity|]. cbn [ls_partition ls_inner ls_node2com ls_deg ls_moves ls_improved].
      split; [|split; [exact HN2|]].
      + unfold SInvS. cbn [ls_partition ls_inner ls_node2com].
        eapply (move_SInv (seq 0 n) (attr_of g) attr_disj); eassumption.
      + right. split; [reflexivity|]. split; [reflexivity|].
        destruct (decision I1 di1 u w2c own bc tie C (set_remove u iO) HN1 Hnd Hval Hdu Hdd Hupd Ebo HC HD1) as [Hmpos Hdec].
        split; [exact Hmpos|].
        assert (Hm0 : ~ m == 0) by (intro E; rewrite E in Hmpos; discriminate).
        assert (Hwit : exists v, In v C).
        { destruct Hbc as [Hbc|Hbc]; [contradiction|]. destruct (Hrange bc Hbc) as [l [v [Hl Hv]]].
          rewrite HCs in Hl. inversion Hl. subst l. eauto. }
        destruct Hwit as [v Hv].
        split; [|exists own, bc, iO, C, v; split; [reflexivity|]; split; [exact Ebo|]; split; [exact HO|];
                 split; [exact HCs|]; split; [exact Hv|]; intro j; rewrite NI2, NI1; reflexivity].
        assert (HuD : ~ In u (set_remove u iO)) by (rewrite In_set_remove; intuition).
        pose proof (Phi_move dirg (ls_inner s) I1 I2 own bc iO C u Ebo HO HCs HuO HuC NI1 NI2) as HPhi.
        destruct dirg.
        * rewrite (move_terms_d u C (set_remove u iO) Hm0 HuC HuD) in HPhi.
          assert (Hpos : 0 < (gD u C - gD u (set_remove u iO)) / m) by (apply Qlt_shift_div_l; lra).
          lra.
        * rewrite (move_terms_u u C (set_remove u iO) Hm0 HuC HuD) in HPhi.
          assert (Hpos : 0 < (gU u C - gU u (set_remove u iO)) / (2 * m)) by (apply Qlt_shift_div_l; lra).
          lra.
  Qed.
End NumVisit.
