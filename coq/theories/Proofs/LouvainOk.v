(* Proofs about the Louvain model (C13, C17):
   - louvain_communities returns the last level of louvain_partitions;
   - hash-order independence: the repaired candidate scan and the sorted
     neighbour / edge traversals give the same result for every iteration
     order of the underlying hash containers (insertion sort of two
     permutations of a list with distinct keys is the same list);
   - the move-gain algebra: moving a node u from community D to community C
     changes Newman's modularity by exactly (gain C - gain D) / (2m)
     (undirected) resp. / m (directed), with the gains the code computes. *)
From Coq Require Import String List Bool ZArith NArith Arith QArith Lia Lqa Permutation Setoid Morphisms.
From GV Require Import Base.Outcome Base.AMap Model.GState Model.Creation Model.Query Model.Derived
     Model.Partition Model.Louvain Spec.PartitionDef Proofs.PartitionOk.
Import ListNotations.

(* ------------------------------------------------------------------ *)
(* louvain_communities = last level                                    *)
(* ------------------------------------------------------------------ *)

Lemma pop_last : forall {X} (l : list X) (d : X),
  pop l = match l with [] => None | _ => Some (last l d) end.
Proof.
  intros X l d. induction l as [|x t IH]; [reflexivity|].
  cbn [pop last]. destruct t as [|y t']; [reflexivity|]. rewrite IH. reflexivity.
Qed.

Theorem louvain_communities_is_last :
  forall (T A : Type) (teqb tltb : T -> T -> bool) lf sf (g : gstate T A) weighted res thr perms ls,
    louvain_partitions teqb tltb lf sf g weighted res thr perms = Ok ls ->
    louvain_communities teqb tltb lf sf g weighted res thr perms =
    match ls with [] => Err NoPartitions | _ => Ok (last ls []) end.
Proof.
  intros T A teqb tltb lf sf g weighted res thr perms ls H.
  unfold louvain_communities. rewrite H. cbn [bind].
  rewrite (pop_last ls []). destruct ls; reflexivity.
Qed.

(* ------------------------------------------------------------------ *)
(* insertion sort is canonical on lists with distinct keys             *)
(* ------------------------------------------------------------------ *)

Section SortCanonical.
  Context {X K : Type}.
  Variable ltb : X -> X -> bool.
  Variable key : X -> K.
  Hypothesis ltb_trans : forall a b c, ltb a b = true -> ltb b c = true -> ltb a c = true.
  Hypothesis ltb_asym : forall a b, ltb a b = true -> ltb b a = false.
  Hypothesis ltb_total : forall a b, key a <> key b -> ltb a b = true \/ ltb b a = true.

  Lemma ins_sorted_comm : forall x y l, key x <> key y ->
    ins_sorted ltb x (ins_sorted ltb y l) = ins_sorted ltb y (ins_sorted ltb x l).
  Proof.
    intros x y l Hk. induction l as [|z t IH]; cbn.
    - destruct (ltb_total x y Hk) as [H|H].
      + rewrite H. rewrite (ltb_asym _ _ H). reflexivity.
      + rewrite H. rewrite (ltb_asym _ _ H). reflexivity.
    - destruct (ltb z y) eqn:Hzy; destruct (ltb z x) eqn:Hzx; cbn; rewrite ?Hzy, ?Hzx.
      + rewrite IH. reflexivity.
      + (* z < y, not z < x: x goes before z, and x < y *)
        assert (Hxy : ltb x y = true).
        { destruct (ltb_total x y Hk) as [H|H]; [exact H|].
          (* y < x and z < y give z < x: contradiction *)
          rewrite (ltb_trans _ _ _ Hzy H) in Hzx. discriminate. }
        rewrite Hxy. reflexivity.
      + assert (Hyx : ltb y x = true).
        { destruct (ltb_total x y Hk) as [H|H]; [|exact H].
          rewrite (ltb_trans _ _ _ Hzx H) in Hzy. discriminate. }
        rewrite Hyx. reflexivity.
      + destruct (ltb_total x y Hk) as [H|H].
        * rewrite H. rewrite (ltb_asym _ _ H). reflexivity.
        * rewrite H. rewrite (ltb_asym _ _ H). reflexivity.
  Qed.

  Theorem sort_by_perm : forall l1 l2,
    Permutation l1 l2 -> NoDup (map key l1) -> sort_by ltb l1 = sort_by ltb l2.
  Proof.
    intros l1 l2 HP. induction HP as [|x l l' HP IH|x y l|l l' l'' HP1 IH1 HP2 IH2]; intro Hnd.
    - reflexivity.
    - unfold sort_by in *. cbn [fold_right map] in *. inversion Hnd. subst.
      rewrite IH; [reflexivity | assumption].
    - unfold sort_by. cbn [fold_right map] in *. inversion Hnd as [|? ? Hy Hnd']. subst.
      apply ins_sorted_comm. intro He. apply Hy. left. symmetry. exact He.
    - rewrite IH1 by exact Hnd. apply IH2.
      eapply Permutation_NoDup; [|exact Hnd]. apply Permutation_map. exact HP1.
  Qed.
End SortCanonical.

(* the candidate order of the repaired update_best_com *)
Lemma cand_ltb_trans : forall own a b c,
  cand_ltb own a b = true -> cand_ltb own b c = true -> cand_ltb own a c = true.
Proof.
  intros own [a wa] [b wb] [c wc]. unfold cand_ltb. cbn [fst].
  destruct (Nat.eqb a own) eqn:Ea, (Nat.eqb b own) eqn:Eb, (Nat.eqb c own) eqn:Ec; cbn [negb Bool.eqb];
    rewrite ?Nat.eqb_eq, ?Nat.eqb_neq in *; rewrite ?Nat.ltb_lt;
    intros; try discriminate; try reflexivity; try lia.
Qed.

Lemma cand_ltb_asym : forall own a b, cand_ltb own a b = true -> cand_ltb own b a = false.
Proof.
  intros own [a wa] [b wb]. unfold cand_ltb. cbn [fst].
  destruct (Nat.eqb a own) eqn:Ea, (Nat.eqb b own) eqn:Eb; cbn [negb Bool.eqb];
    rewrite ?Nat.eqb_eq, ?Nat.eqb_neq in *; rewrite ?Nat.ltb_lt, ?Nat.ltb_ge;
    intros; try discriminate; try reflexivity; try lia.
Qed.

Lemma cand_ltb_total : forall own (a b : nat * Q), fst a <> fst b ->
  cand_ltb own a b = true \/ cand_ltb own b a = true.
Proof.
  intros own [a wa] [b wb]. unfold cand_ltb. cbn [fst]. intro Hne.
  destruct (Nat.eqb a own) eqn:Ea, (Nat.eqb b own) eqn:Eb; cbn [negb Bool.eqb]; rewrite ?Nat.ltb_lt.
  - apply Nat.eqb_eq in Ea. apply Nat.eqb_eq in Eb. lia.
  - left. reflexivity.
  - right. reflexivity.
  - lia.
Qed.

Theorem sort_candidates_perm : forall own l1 l2,
  Permutation l1 l2 -> NoDup (map fst l1) -> sort_candidates own l1 = sort_candidates own l2.
Proof.
  intros own l1 l2 HP Hnd. unfold sort_candidates.
  apply (sort_by_perm (cand_ltb own) fst (cand_ltb_trans own) (cand_ltb_asym own)
                      (cand_ltb_total own)); assumption.
Qed.

(* the community chosen for a node does not depend on the order in which the
   candidate communities are produced (HashMap iteration order) *)
Theorem update_best_com_order_independent : forall own l1 l2 di m res dir,
  Permutation l1 l2 -> NoDup (map fst l1) ->
  update_best_com own l1 di m res dir = update_best_com own l2 di m res dir.
Proof.
  intros own l1 l2 di m res dir HP Hnd. unfold update_best_com.
  rewrite (sort_candidates_perm own l1 l2 HP Hnd). reflexivity.
Qed.

(* sorted neighbour traversal: the per-community weights do not depend on the
   iteration order of the neighbour HashSet *)
Lemma nat_ltb_total : forall a b : nat, a <> b -> Nat.ltb a b = true \/ Nat.ltb b a = true.
Proof. intros a b H. rewrite !Nat.ltb_lt. lia. Qed.

Theorem sort_nat_perm : forall l1 l2 : list nat,
  Permutation l1 l2 -> NoDup l1 -> sort_by Nat.ltb l1 = sort_by Nat.ltb l2.
Proof.
  intros l1 l2 HP Hnd.
  apply (sort_by_perm Nat.ltb (fun x => x)).
  - intros a b c. rewrite !Nat.ltb_lt. lia.
  - intros a b. rewrite Nat.ltb_lt, Nat.ltb_ge. lia.
  - exact nat_ltb_total.
  - exact HP.
  - rewrite map_id. exact Hnd.
Qed.

Theorem neighbor_weights_order_independent :
  forall (g : lgraph) u nbrs1 nbrs2 node2com towards acc h1 h2,
    lookup Nat.eqb u nbrs1 = Some h1 -> lookup Nat.eqb u nbrs2 = Some h2 ->
    Permutation h1 h2 -> NoDup h1 ->
    neighbor_weights_into g u nbrs1 node2com towards acc =
    neighbor_weights_into g u nbrs2 node2com towards acc.
Proof.
  intros g u nbrs1 nbrs2 node2com towards acc h1 h2 H1 H2 HP Hnd.
  unfold neighbor_weights_into. rewrite H1, H2. rewrite (sort_nat_perm h1 h2 HP Hnd). reflexivity.
Qed.

(* ------------------------------------------------------------------ *)
(* move-gain algebra                                                   *)
(* ------------------------------------------------------------------ *)

(* Undirected.  L_X, K_X: internal weight and degree sum of community X (C the
   target, D the source without u); k: degree of u; kuC, kuD: weight between u
   and C resp. D; s: weight of u's self-loops (it moves with u).  The code's
   gain of X is 2*k_uX - gamma*Stot_X*k/m with Stot_D taken after u's degree
   has been subtracted. *)
Theorem move_gain_undirected : forall LC LD KC KD k kuC kuD s m gamma : Q,
  ~ m == 0 ->
  let contrib := fun L K => L / m - gamma * ((K / (2 * m)) * (K / (2 * m))) in
  let gain := fun kuX stotX => 2 * kuX - gamma * (stotX * k) / m in
  (contrib (LC + kuC + s) (KC + k) + contrib LD KD)
  - (contrib LC KC + contrib (LD + kuD + s) (KD + k))
  == (gain kuC KC - gain kuD KD) / (2 * m).
Proof. intros. unfold contrib, gain. field. assumption. Qed.

(* Directed.  kout, kin: out- and in-degree of u; wuC = k(u->C) + k(C->u). *)
Theorem move_gain_directed : forall LC LD KoC KiC KoD KiD kout kin wuC wuD s m gamma : Q,
  ~ m == 0 ->
  let contrib := fun L Ko Ki => L / m - gamma * (Ko * Ki) / (m * m) in
  let gain := fun wuX stot_inX stot_outX => wuX - gamma * (kout * stot_inX + kin * stot_outX) / m in
  (contrib (LC + wuC + s) (KoC + kout) (KiC + kin) + contrib LD KoD KiD)
  - (contrib LC KoC KiC + contrib (LD + wuD + s) (KoD + kout) (KiD + kin))
  == (gain wuC KiC KoC - gain wuD KiD KoD) / m.
Proof. intros. unfold contrib, gain. field. assumption. Qed.

(* sorted edge traversal of generate_graph: canonical for edge lists with distinct end-point pairs
   (the working graphs are single-edge), whatever the iteration order of the edge HashMap *)
Lemma edge_ltb_trans : forall a b c : ledge, edge_ltb a b = true -> edge_ltb b c = true -> edge_ltb a c = true.
Proof.
  intros a b c. unfold edge_ltb.
  rewrite !orb_true_iff, !andb_true_iff, !Nat.ltb_lt, !Nat.eqb_eq. lia.
Qed.

Lemma edge_ltb_asym : forall a b : ledge, edge_ltb a b = true -> edge_ltb b a = false.
Proof.
  intros a b. unfold edge_ltb. intro H. apply not_true_iff_false. revert H.
  rewrite !orb_true_iff, !andb_true_iff, !Nat.ltb_lt, !Nat.eqb_eq. lia.
Qed.

Lemma edge_ltb_total : forall a b : ledge, (eu a, ev a) <> (eu b, ev b) ->
  edge_ltb a b = true \/ edge_ltb b a = true.
Proof.
  intros a b H. unfold edge_ltb.
  rewrite !orb_true_iff, !andb_true_iff, !Nat.ltb_lt, !Nat.eqb_eq.
  assert (eu a <> eu b \/ ev a <> ev b).
  { destruct (Nat.eq_dec (eu a) (eu b)) as [E1|E1]; [|left; exact E1].
    destruct (Nat.eq_dec (ev a) (ev b)) as [E2|E2]; [|right; exact E2].
    exfalso. apply H. rewrite E1, E2. reflexivity. }
  lia.
Qed.

Theorem sort_edges_perm : forall l1 l2 : list ledge,
  Permutation l1 l2 -> NoDup (map (fun e => (eu e, ev e)) l1) ->
  sort_by edge_ltb l1 = sort_by edge_ltb l2.
Proof.
  intros l1 l2 HP Hnd.
  apply (sort_by_perm edge_ltb (fun e => (eu e, ev e)) edge_ltb_trans edge_ltb_asym edge_ltb_total); assumption.
Qed.

(* ---- the hypotheses are satisfiable: small evaluated instances ---- *)
Example louvain_model_runs :
  match new_from_nodes_and_edges Z.eqb Z.ltb
          [mknode 3%Z (None : option Z); mknode 1%Z None; mknode 2%Z None]
          [mkedge 3%Z 1%Z None None; mkedge 1%Z 2%Z None None]
          (mkspecs false DErr MCreate false true SErr) with
  | Ok g =>
    louvain_partitions Z.eqb Z.ltb 10 50 g false 1 (1 # 10000000) [[0]; [1; 0]; [2; 0; 1]]%nat
    = Ok [[[1; 2; 3]]]%Z /\
    louvain_communities Z.eqb Z.ltb 10 50 g false 1 (1 # 10000000) [[0]; [1; 0]; [2; 0; 1]]%nat
    = Ok [[1; 2; 3]]%Z
  | _ => False
  end.
Proof. vm_compute. split; reflexivity. Qed.

Example sort_candidates_nonvacuous :
  Permutation [(2%nat, 1%Q); (1%nat, 1%Q); (0%nat, 1%Q)] [(0%nat, 1%Q); (2%nat, 1%Q); (1%nat, 1%Q)] /\
  NoDup (map fst [(2%nat, 1%Q); (1%nat, 1%Q); (0%nat, 1%Q)]) /\
  sort_candidates 1 [(2%nat, 1%Q); (1%nat, 1%Q); (0%nat, 1%Q)] = [(1%nat, 1%Q); (0%nat, 1%Q); (2%nat, 1%Q)] /\
  sort_candidates 1 [(0%nat, 1%Q); (2%nat, 1%Q); (1%nat, 1%Q)] = [(1%nat, 1%Q); (0%nat, 1%Q); (2%nat, 1%Q)].
Proof.
  split.
  { apply Permutation_trans with [(2%nat, 1%Q); (0%nat, 1%Q); (1%nat, 1%Q)].
    - constructor. apply perm_swap.
    - apply perm_swap. }
  split; [repeat constructor; cbn; intuition discriminate|].
  split; vm_compute; reflexivity.
Qed.
