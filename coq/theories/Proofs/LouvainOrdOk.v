(* C17, deepening: the iteration order of the hash containers is unobservable END TO END.

   Model/LouvainOrd.v is the Louvain pipeline with an order oracle at every site where louvain.rs
   hands the elements of a HashMap / HashSet to order-sensitive code.  Here: for EVERY oracle whose
   answers are permutations of the container's content (the section hypothesis [oracle_perm];
   nothing else is assumed, in particular the oracle may answer differently each time, and may
   look at the elements), every oracle state, every graph, seed table, resolution, threshold and
   fuel, each function of LouvainOrd.v - with the final oracle state dropped - EQUALS its
   counterpart of Model/Louvain.v, the model the correspondence executes: same Ok value, same Err,
   same panic site, same OutOfFuel.

   Composition of the four local lemmas of Proofs/LouvainOk.v.  The side conditions they need are
   discharged, not assumed:
     - candidate communities: the keys of weights2com are distinct because the map is built from
       the empty map by `*entry(c).or_insert(0.0) += w` (acc_weight = AMap.insert, which replaces in
       place) - [neighbor_weights_keys];
     - neighbour sets: none needed - insertion sort of naturals is canonical with or without
       repetitions ([sort_nat_perm_any] strengthens sort_nat_perm);
     - edge list of generate_graph: the (u, v) pairs of the stored edges are distinct on a coherent
       single-edge state (DerivedContent.stored_distinct); every working graph is one: the first by
       [convert_graph_level] for EVERY input state, coherent or not (it is built from scratch by
       new_from_nodes_and_edges, hence reachable, hence WF, with multi_edges = false inherited from
       the to_single_edges'd input), the later ones by generate_graph_struct of the C13 work (WF is
       re-established by add_node / add_edge, multi_edges is inherited).  So the entry theorems
       have no hypothesis on the graph; the three order hypotheses on the name type are the
       framework's standing ones (teqb decides equality, tltb is asymmetric and total). *)
From Coq Require Import String List Bool ZArith NArith Arith QArith Lia Permutation.
From GV Require Import Base.Outcome Base.AMap Model.GState Model.Creation Model.Query Model.Derived
     Model.Partition Model.Louvain Model.LouvainOrd.
From GV Require Import Proofs.AMapOk Proofs.WFDefs Proofs.HistoryOk Proofs.DerivedOk Proofs.DerivedContent
     Proofs.QueryOk Proofs.LouvainOk Proofs.LouvainSets Proofs.LouvainStructOk Proofs.LouvainGenGraphOk Proofs.LouvainConvertOk.
Import ListNotations.

(* ---------------- dropping the oracle state ---------------- *)
Lemma ofold_drop : forall {S X OS} (F : S * OS -> X -> outcome (S * OS)) (f : S -> X -> outcome S),
  (forall s o x, omap fst (F (s, o) x) = f s x) ->
  forall l s o, omap fst (ofold F l (s, o)) = ofold f l s.
Proof.
  intros S X OS F f HF l. induction l as [|x t IH]; intros s o; cbn [ofold]; [reflexivity|].
  pose proof (HF s o x) as E.
  destruct (F (s, o) x) as [[s1 o1]|k|st|]; cbn [omap bind fst] in E; rewrite <- E; cbn [omap bind];
    try reflexivity.
  apply IH.
Qed.

Lemma omap_bind_same : forall {A B C} (f : B -> C) (x : outcome A) (F : A -> outcome B) (G : A -> outcome C),
  (forall a, omap f (F a) = G a) -> omap f (bind x F) = bind x G.
Proof. intros A B C f x F G H. destruct x; cbn [omap bind]; try reflexivity. apply H. Qed.

(* ---------------- naturals: insertion sort is canonical, repetitions or not ---------------- *)
Lemma ins_sorted_nat_comm : forall x y l,
  ins_sorted Nat.ltb x (ins_sorted Nat.ltb y l) = ins_sorted Nat.ltb y (ins_sorted Nat.ltb x l).
Proof.
  intros x y l. destruct (Nat.eq_dec x y) as [->|Hne]; [reflexivity|].
  apply (ins_sorted_comm Nat.ltb (fun z : nat => z)).
  - intros a b c. rewrite !Nat.ltb_lt. lia.
  - intros a b. rewrite Nat.ltb_lt, Nat.ltb_ge. lia.
  - intros a b Hab. rewrite !Nat.ltb_lt. lia.
  - exact Hne.
Qed.

Theorem sort_nat_perm_any : forall l1 l2 : list nat,
  Permutation l1 l2 -> sort_by Nat.ltb l1 = sort_by Nat.ltb l2.
Proof.
  intros l1 l2 HP. induction HP as [|x l l' HP IH|x y l|l l' l'' HP1 IH1 HP2 IH2].
  - reflexivity.
  - unfold sort_by in *. cbn [fold_right]. rewrite IH. reflexivity.
  - unfold sort_by. cbn [fold_right]. apply ins_sorted_nat_comm.
  - rewrite IH1. exact IH2.
Qed.

(* ---------------- the keys of weights2com are distinct ---------------- *)
Lemma acc_weight_keys : forall c w (m : list (nat * Q)),
  NoDup (map fst m) -> NoDup (map fst (acc_weight c w m)).
Proof. intros c w m H. unfold acc_weight. apply (NoDup_keys_insert Nat.eqb Nat.eqb_eq). exact H. Qed.

Lemma neighbor_weights_keys : forall (g : lgraph) u nbrs node2com towards acc0 r,
  NoDup (map fst acc0) ->
  neighbor_weights_into g u nbrs node2com towards acc0 = Ok r -> NoDup (map fst r).
Proof.
  intros g u nbrs node2com towards acc0 r H0 H. unfold neighbor_weights_into in H.
  refine (ofold_inv (fun a : list (nat * Q) => NoDup (map fst a)) _ _ _ acc0 r H0 H).
  intros acc v acc' _ Hacc Hstep. cbv beta in Hstep.
  destruct (Nat.eqb u v); [inversion Hstep; subst; exact Hacc|].
  apply bind_ok in Hstep. destruct Hstep as [e [_ Hstep]].
  apply bind_ok in Hstep. destruct Hstep as [c [_ Hstep]].
  apply bind_ok in Hstep. destruct Hstep as [w [_ Hstep]].
  inversion Hstep. subst. apply acc_weight_keys. exact Hacc.
Qed.

(* ---------------- the stored edges of a coherent single-edge state have distinct (u, v) ---------------- *)
Lemma level_graph_keys : forall g : lgraph,
  WF Nat.eqb Nat.ltb g -> multi (sp g) = false ->
  NoDup (map (fun e : ledge => (eu e, ev e)) (get_all_edges g)).
Proof. intros g W Hm. exact (stored_distinct Nat.eqb Nat.ltb Nat.eqb_eq g W Hm). Qed.

Record oracle_perm {OS : Type} (h : hash_oracle OS) : Prop := mkOP {
  op_cand : forall o l, Permutation (fst (ho_cand h o l)) l;
  op_nbr : forall o l, Permutation (fst (ho_nbr h o l)) l;
  op_edge : forall o l, Permutation (fst (ho_edge h o l)) l
}.

Section OrdOk.
  Context {OS : Type}.
  Variable h : hash_oracle OS.
  Hypothesis HP : oracle_perm h.

  (* ---------------- neighbour sets (successors and predecessors) ---------------- *)
  Lemma neighbor_weights_into_ord_eq : forall o (g : lgraph) u nbrs node2com towards acc0,
    omap fst (neighbor_weights_into_ord h o g u nbrs node2com towards acc0) =
    neighbor_weights_into g u nbrs node2com towards acc0.
  Proof.
    intros o g u nbrs node2com towards acc0. unfold neighbor_weights_into_ord, neighbor_weights_into.
    set (hs := match lookup Nat.eqb u nbrs with Some l => l | None => [] end).
    pose proof (op_nbr h HP o hs) as P. destruct (ho_nbr h o hs) as [it o1]. cbn [fst] in P.
    rewrite (sort_nat_perm_any it hs P).
    match goal with |- context [ofold ?f ?l ?a] => destruct (ofold f l a) end; reflexivity.
  Qed.

  (* ---------------- candidate communities ---------------- *)
  Lemma update_best_com_ord_eq : forall o own w2c di m res dir,
    NoDup (map fst w2c) ->
    omap fst (update_best_com_ord h o own w2c di m res dir) = update_best_com own w2c di m res dir.
  Proof.
    intros o own w2c di m res dir Hnd. unfold update_best_com_ord, update_best_com.
    pose proof (op_cand h HP o w2c) as P. destruct (ho_cand h o w2c) as [it o1]. cbn [fst] in P.
    rewrite (sort_candidates_perm own w2c it (Permutation_sym P) Hnd).
    destruct (scan_candidates di m res dir (sort_candidates own it) own 0%Q []) as [[[bc bm] seen]|k|st|];
      reflexivity.
  Qed.

  (* ---------------- one visit ---------------- *)
  Lemma visit_ord_eq : forall (g : lgraph) m res nbrs preds s o u,
    omap fst (visit_ord h g m res nbrs preds (s, o) u) = visit g m res nbrs preds s u.
  Proof.
    intros g m res nbrs preds s o u. unfold visit_ord, visit.
    destruct (unwrap_at "louvain.rs:node2com unwrap" (lookup Nat.eqb u (ls_node2com s))) as [own|k|st|];
      cbn [omap bind]; try reflexivity.
    (* successors *)
    unfold get_neighbor_weights_ord, get_neighbor_weights.
    pose proof (neighbor_weights_into_ord_eq o g u nbrs (ls_node2com s) true []) as E1.
    destruct (neighbor_weights_into_ord h o g u nbrs (ls_node2com s) true []) as [[w0 o1]|k|st|];
      cbn [omap bind fst] in E1; rewrite <- E1; cbn [omap bind]; try reflexivity.
    assert (N0 : NoDup (map fst w0)).
    { apply (neighbor_weights_keys g u nbrs (ls_node2com s) true [] w0); [constructor | symmetry; exact E1]. }
    (* predecessors *)
    assert (E2 : exists x : outcome (list (nat * Q) * OS),
               x = (if directed (sp g)
                    then add_predecessor_weights_ord h o1 g u preds (ls_node2com s) w0 else Ok (w0, o1)) /\
               omap fst x = (if directed (sp g)
                             then add_predecessor_weights g u preds (ls_node2com s) w0 else Ok w0) /\
               forall w2c o2, x = Ok (w2c, o2) -> NoDup (map fst w2c)).
    { eexists. split; [reflexivity|]. destruct (directed (sp g)).
      - unfold add_predecessor_weights_ord, add_predecessor_weights.
        pose proof (neighbor_weights_into_ord_eq o1 g u preds (ls_node2com s) false w0) as E.
        split; [exact E|]. intros w2c o2 Hx. rewrite Hx in E. cbn [omap bind fst] in E.
        apply (neighbor_weights_keys g u preds (ls_node2com s) false w0 w2c N0). symmetry. exact E.
      - split; [reflexivity|]. intros w2c o2 Hx. inversion Hx. subst. exact N0. }
    destruct E2 as [x [<- [E2 N1]]].
    destruct x as [[w2c o2]|k|st|]; cbn [omap bind fst] in E2; rewrite <- E2; cbn [omap bind]; try reflexivity.
    specialize (N1 w2c o2 eq_refl).
    destruct (subtract_degree_from_best_com own u (ls_deg s) (directed (sp g))) as [di1|k|st|];
      cbn [omap bind]; try reflexivity.
    (* candidates *)
    pose proof (update_best_com_ord_eq o2 own w2c di1 m res (directed (sp g)) N1) as E3.
    destruct (update_best_com_ord h o2 own w2c di1 m res (directed (sp g))) as [[[bc tie] o3]|k|st|];
      cbn [omap bind fst] in E3; rewrite <- E3; cbn [omap bind]; try reflexivity.
    destruct (add_degree_to_best_com bc di1 (directed (sp g))) as [di2|k|st|]; cbn [omap bind]; try reflexivity.
    destruct (Nat.eqb bc own); [reflexivity|].
    repeat (apply omap_bind_same; intro). reflexivity.
  Qed.

  (* ---------------- the local-moving phase ---------------- *)
  Lemma sweeps_ord_eq : forall fuel (g : lgraph) m res nbrs preds order s o,
    omap fst (sweeps_ord h fuel g m res nbrs preds order (s, o)) = sweeps fuel g m res nbrs preds order s.
  Proof.
    induction fuel as [|f IH]; intros g m res nbrs preds order s o; cbn [sweeps_ord sweeps]; [reflexivity|].
    pose proof (ofold_drop (visit_ord h g m res nbrs preds) (visit g m res nbrs preds)
                           (fun s0 o0 x => visit_ord_eq g m res nbrs preds s0 o0 x) order
                           (mkls (ls_partition s) (ls_inner s) (ls_node2com s) (ls_deg s) 0
                                 (ls_improved s) (ls_tie s)) o) as E.
    destruct (ofold (visit_ord h g m res nbrs preds) order
                    (mkls (ls_partition s) (ls_inner s) (ls_node2com s) (ls_deg s) 0 (ls_improved s) (ls_tie s), o))
      as [[s1 o1]|k|st|]; cbn [omap bind fst] in E; rewrite <- E; cbn [omap bind fst]; try reflexivity.
    destruct (Nat.eqb (ls_moves s1) 0); [reflexivity|]. apply IH.
  Qed.

  Lemma compute_one_level_state_ord_eq : forall o fuel (g : lgraph) m partition res perms,
    omap fst (compute_one_level_state_ord h o fuel g m partition res perms) =
    compute_one_level_state fuel g m partition res perms.
  Proof.
    intros o fuel g m partition res perms. unfold compute_one_level_state_ord, compute_one_level_state.
    apply omap_bind_same. intro di. apply omap_bind_same. intro order. apply sweeps_ord_eq.
  Qed.

  Lemma compute_one_level_ord_eq : forall o fuel (g : lgraph) m partition res perms,
    omap fst (compute_one_level_ord h o fuel g m partition res perms) =
    compute_one_level fuel g m partition res perms.
  Proof.
    intros o fuel g m partition res perms. unfold compute_one_level_ord, compute_one_level.
    pose proof (compute_one_level_state_ord_eq o fuel g m partition res perms) as E.
    destruct (compute_one_level_state_ord h o fuel g m partition res perms) as [[s o1]|k|st|];
      cbn [omap bind fst] in E; rewrite <- E; reflexivity.
  Qed.

  (* ---------------- aggregation ---------------- *)
  Lemma generate_graph_ord_eq : forall o (g : lgraph) partition,
    NoDup (map (fun e : ledge => (eu e, ev e)) (get_all_edges g)) ->
    omap fst (generate_graph_ord h o g partition) = generate_graph g partition.
  Proof.
    intros o g partition Hnd. unfold generate_graph_ord, generate_graph.
    match goal with |- omap fst (bind ?x _) = _ => destruct x as [[ng0 n2c]|k|st|] end;
      cbn [omap bind]; try reflexivity.
    pose proof (op_edge h HP o (get_all_edges g)) as P.
    destruct (ho_edge h o (get_all_edges g)) as [it o1]. cbn [fst] in P.
    rewrite (sort_edges_perm (get_all_edges g) it (Permutation_sym P) Hnd).
    match goal with |- context [ofold ?f ?l ?a] => destruct (ofold f l a) end; reflexivity.
  Qed.

  (* ---------------- the level loop ---------------- *)
  Lemma level_loop_ord_eq : forall fuel o sf weighted res thr perms m (gk : lgraph) partition inner md acc tie,
    WF Nat.eqb Nat.ltb gk -> multi (sp gk) = false ->
    omap fst (level_loop_ord h o fuel sf weighted res thr perms m gk partition inner md acc tie) =
    level_loop fuel sf weighted res thr perms m gk partition inner md acc tie.
  Proof.
    induction fuel as [|f IH]; intros o sf weighted res thr perms m gk partition inner md acc tie W Hm;
      cbn [level_loop_ord level_loop]; [reflexivity|].
    destruct (unwrap_res "louvain.rs:105 modularity unwrap"
                (modularity Nat.eqb Nat.ltb gk inner weighted res)) as [new_mod|k|st|];
      cbn [omap bind]; try reflexivity.
    destruct (gain_small new_mod md thr) as [small close]. destruct small; [reflexivity|].
    pose proof (generate_graph_ord_eq o gk inner (level_graph_keys gk W Hm)) as E.
    destruct (generate_graph_ord h o gk inner) as [[g2 o1]|k|st|];
      cbn [omap bind fst] in E; rewrite <- E; cbn [omap bind]; try reflexivity.
    destruct (generate_graph_struct gk inner g2 (eq_sym E)) as [W2 [_ [Hsp2 _]]].
    assert (Hm2 : multi (sp g2) = false) by (rewrite Hsp2; exact Hm).
    pose proof (compute_one_level_ord_eq o1 sf g2 m partition res perms) as E2.
    destruct (compute_one_level_ord h o1 sf g2 m partition res perms) as [[[[[p2 i2] imp] tie2] o2]|k|st|];
      cbn [omap bind fst] in E2; rewrite <- E2; cbn [omap bind]; try reflexivity.
    destruct imp; [|reflexivity].
    apply IH; assumption.
  Qed.

  (* ---------------- the entry points ---------------- *)
  Section EntryOk.
    Context {T A : Type}.
    Variable teqb tltb : T -> T -> bool.
    Hypothesis teqb_spec : forall x y, teqb x y = true <-> x = y.
    Hypothesis tltb_asym : forall x y, tltb x y = true -> tltb y x = false.
    Hypothesis tltb_total : forall x y, tltb x y = false -> tltb y x = false -> x = y.

    (* the first working graph is coherent and single-edge, whatever the input state: it is built
       from scratch by new_from_nodes_and_edges, with the specs of the to_single_edges'd input *)
    Lemma convert_graph_level : forall (g : gstate T A) weighted node_map (gu : lgraph),
      convert_graph teqb tltb g weighted node_map = Ok gu ->
      WF Nat.eqb Nat.ltb gu /\ multi (sp gu) = false.
    Proof.
      intros g weighted node_map gu H. unfold convert_graph in H.
      apply bind_ok in H. destruct H as (g1 & H1 & H).
      apply bind_ok in H. destruct H as (g2 & H2 & H).
      apply bind_ok in H. destruct H as (ns & _ & H).
      apply bind_ok in H. destruct H as (es & _ & H).
      apply unwrap_res_ok in H.
      assert (M1 : multi (sp g1) = false).
      { destruct (multi (sp g)) eqn:Hm.
        - apply unwrap_res_ok in H1. unfold to_single_edges in H1. rewrite Hm in H1. cbn [negb] in H1.
          apply (new_from_reachable teqb tltb teqb_spec) in H1.
          rewrite (reachable_sp teqb tltb teqb_spec tltb_asym tltb_total _ _ H1). reflexivity.
        - inversion H1. subst g1. exact Hm. }
      assert (M2 : multi (sp g2) = false).
      { destruct weighted.
        - inversion H2. subst g2. exact M1.
        - unfold set_all_edge_weights in H2. apply unwrap_graph_ok in H2.
          apply (new_from_reachable teqb tltb teqb_spec) in H2.
          rewrite (reachable_sp teqb tltb teqb_spec tltb_asym tltb_total _ _ H2). exact M1. }
      pose proof (new_from_reachable Nat.eqb Nat.ltb nat_eqb_spec ns es (sp g2) gu H) as R.
      split.
      - exact (WF_reachable Nat.eqb Nat.ltb nat_eqb_spec nat_ltb_asym nat_ltb_total _ _ R).
      - rewrite (reachable_sp Nat.eqb Nat.ltb nat_eqb_spec nat_ltb_asym nat_ltb_total _ _ R). exact M2.
    Qed.

    Lemma louvain_partitions_t_ord_eq : forall o lf sf (g : gstate T A) weighted res thr perms,
      omap fst (louvain_partitions_t_ord h teqb tltb o lf sf g weighted res thr perms) =
      louvain_partitions_t teqb tltb lf sf g weighted res thr perms.
    Proof.
      intros o lf sf g weighted res thr perms. unfold louvain_partitions_t_ord, louvain_partitions_t.
      destruct (negative_weight_guard g weighted); [reflexivity|].
      destruct (convert_graph teqb tltb g weighted (node_map_of tltb g)) as [gu|k|st|] eqn:Hgu;
        cbn [omap bind]; try reflexivity.
      destruct (convert_graph_level g weighted (node_map_of tltb g) gu Hgu) as [Wu Hmu].
      apply omap_bind_same. intro md0. apply omap_bind_same. intro m.
      pose proof (compute_one_level_ord_eq o sf gu m (map_node_names_to_hashsets gu) res perms) as E.
      destruct (compute_one_level_ord h o sf gu m (map_node_names_to_hashsets gu) res perms)
        as [[[[[p1 i1] imp] tie1] o1]|k|st|];
        cbn [omap bind fst] in E; rewrite <- E; cbn [omap bind]; try reflexivity.
      pose proof (level_loop_ord_eq lf o1 sf weighted res thr perms m gu p1 i1 md0 [] tie1 Wu Hmu) as E2.
      destruct (level_loop_ord h o1 lf sf weighted res thr perms m gu p1 i1 md0 [] tie1)
        as [[[levels tie] o2]|k|st|];
        cbn [omap bind fst] in E2; rewrite <- E2; cbn [omap bind]; try reflexivity.
      destruct (convert_back (node_map_of tltb g) levels); reflexivity.
    Qed.

    Theorem louvain_partitions_ord_eq : forall o lf sf (g : gstate T A) weighted res thr perms,
      louvain_partitions_ord h teqb tltb o lf sf g weighted res thr perms =
      louvain_partitions teqb tltb lf sf g weighted res thr perms.
    Proof.
      intros o lf sf g weighted res thr perms. unfold louvain_partitions_ord, louvain_partitions.
      pose proof (louvain_partitions_t_ord_eq o lf sf g weighted res thr perms) as E.
      destruct (louvain_partitions_t_ord h teqb tltb o lf sf g weighted res thr perms) as [[[ls tie] o2]|k|st|];
        cbn [omap bind fst] in E; rewrite <- E; reflexivity.
    Qed.

    Theorem louvain_communities_ord_eq : forall o lf sf (g : gstate T A) weighted res thr perms,
      louvain_communities_ord h teqb tltb o lf sf g weighted res thr perms =
      louvain_communities teqb tltb lf sf g weighted res thr perms.
    Proof.
      intros o lf sf g weighted res thr perms. unfold louvain_communities_ord, louvain_communities.
      rewrite (louvain_partitions_ord_eq o lf sf g weighted res thr perms). reflexivity.
    Qed.
  End EntryOk.
End OrdOk.

(* ================================================================================== *)
(* The content-only iteration sites of louvain.rs (kind S of DESIGN.md 0.10.8), locally *)
(* ================================================================================== *)
(* Where the elements of a hash container only flow into another hash container, the model keeps
   its list representation and no oracle is applied (permuting the iteration would permute the
   representing list, not the set).  What can be said without a set-quotient of the whole
   pipeline is said here, site by site: the CONTENT of the produced container - membership for a
   set, lookup for a map - and the outcome class do not depend on the iteration order. *)
Definition same_set (a b : list nat) : Prop := forall x, In x a <-> In x b.

Definition outcome_rel {X} (R : X -> X -> Prop) (a b : outcome X) : Prop :=
  match a, b with
  | Ok x, Ok y => R x y
  | Err k, Err k' => k = k'
  | Panic s, Panic s' => s = s'
  | OutOfFuel, OutOfFuel => True
  | _, _ => False
  end.

Lemma outcome_rel_trans : forall {X} (R : X -> X -> Prop),
  (forall x y z, R x y -> R y z -> R x z) ->
  forall a b c, outcome_rel R a b -> outcome_rel R b c -> outcome_rel R a c.
Proof.
  intros X R HR a b c H1 H2. destruct a, b, c; cbn [outcome_rel] in *; try contradiction; try congruence.
  eapply HR; eassumption.
Qed.

(* compute_one_level :192/:194 - HashSet::difference / union: content of the result from the
   contents of the operands, whatever their iteration orders *)
Theorem set_ops_content_only : forall a a' b b', same_set a a' -> same_set b b' ->
  same_set (set_diff a b) (set_diff a' b') /\ same_set (set_union a b) (set_union a' b').
Proof.
  intros a a' b b' Ha Hb. split; intro x.
  - rewrite !In_set_diff. specialize (Ha x). specialize (Hb x). tauto.
  - rewrite !In_set_union. specialize (Ha x). specialize (Hb x). tauto.
Qed.

(* an element-wise fallible map whose failures all look alike yields a permuted result, or the
   same failure, on a permuted list *)
Lemma omapM_uniform_perm : forall {X Y} (f : X -> outcome Y) site,
  (forall x, (exists y, f x = Ok y) \/ f x = Panic site) ->
  forall l l', Permutation l l' -> outcome_rel (@Permutation Y) (omapM f l) (omapM f l').
Proof.
  intros X Y f site Hf l l' HPm.
  induction HPm as [|x l l' HPm IH|x y l|l l' l'' HP1 IH1 HP2 IH2].
  - cbn. constructor.
  - cbn [omapM]. destruct (Hf x) as [[y ->]| ->]; cbn [bind outcome_rel]; [|reflexivity].
    destruct (omapM f l), (omapM f l'); cbn [bind outcome_rel] in *; try assumption.
    apply perm_skip. exact IH.
  - cbn [omapM].
    destruct (Hf x) as [[a ->]| ->], (Hf y) as [[b ->]| ->]; cbn [bind outcome_rel]; try reflexivity.
    destruct (omapM f l); cbn [bind outcome_rel]; try reflexivity; try exact I. apply perm_swap.
  - eapply outcome_rel_trans; [|exact IH1|exact IH2]. intros a b c. apply Permutation_trans.
Qed.

(* convert_usize_partitons_to_t :137-139 - `hs.into_iter().map(..).collect::<HashSet<T>>()`:
   the renamed community is the same set (the same list up to order), or the same panic *)
Theorem convert_back_community_order_free :
  forall {T : Type} (rev_map : list (nat * T)) (hs hs' : list nat), Permutation hs hs' ->
    outcome_rel (@Permutation T)
      (omapM (fun u => unwrap_at "louvain.rs:reverse_node_map unwrap" (lookup Nat.eqb u rev_map)) hs)
      (omapM (fun u => unwrap_at "louvain.rs:reverse_node_map unwrap" (lookup Nat.eqb u rev_map)) hs').
Proof.
  intros T rev_map hs hs' HPm.
  apply (omapM_uniform_perm _ "louvain.rs:reverse_node_map unwrap"); [|exact HPm].
  intro u. destruct (lookup Nat.eqb u rev_map) as [t|]; cbn [unwrap_at]; [left; eauto | right; reflexivity].
Qed.

(* generate_graph :425-431 - `for node in part { node2com.insert(node, i); nodes.extend(attr) }`:
   on a coherent graph the map node2com (as a lookup function) and the set `nodes` (as
   membership) are the same for every iteration order of the part, and so is the failure *)
Section PartOrder.
  Variable g : lgraph.
  Hypothesis W : WF Nat.eqb Nat.ltb g.
  Variable i : nat.

  Let found (nd : nat) : bool :=
    match find (fun n : lnode => Nat.eqb (nname n) nd) (nodes_vec g) with Some _ => true | None => false end.

  Lemma gg_inner_cases : forall n2c nodes nd,
    gg_inner g i (n2c, nodes) nd =
    if found nd then Ok (insert Nat.eqb nd i n2c, set_union nodes (attr_of g nd))
    else Panic "louvain.rs:generate_graph get_node unwrap".
  Proof.
    intros n2c nodes nd. unfold gg_inner, attr_of, found.
    rewrite (get_node_spec Nat.eqb Nat.ltb neqb_spec g nd W).
    destruct (find (fun n : lnode => Nat.eqb (nname n) nd) (nodes_vec g)); reflexivity.
  Qed.

  Lemma gg_inner_all_found : forall part acc,
    forallb found part = true -> exists r, ofold (gg_inner g i) part acc = Ok r.
  Proof.
    induction part as [|nd t IH]; intros [n2c nodes] H; cbn [ofold]; [eauto|].
    cbn [forallb] in H. apply andb_true_iff in H. destruct H as [H1 H2].
    rewrite gg_inner_cases, H1. cbn [bind]. apply IH. exact H2.
  Qed.

  Lemma gg_inner_some_missing : forall part acc,
    forallb found part = false ->
    ofold (gg_inner g i) part acc = Panic "louvain.rs:generate_graph get_node unwrap".
  Proof.
    induction part as [|nd t IH]; intros [n2c nodes] H; cbn [ofold forallb] in *; [discriminate|].
    rewrite gg_inner_cases. destruct (found nd); cbn [bind]; [|reflexivity].
    apply IH. exact H.
  Qed.

  Lemma forallb_perm : forall {X} (p : X -> bool) l l', Permutation l l' -> forallb p l = forallb p l'.
  Proof.
    intros X p l l' HPm. induction HPm; cbn [forallb]; try congruence.
    - destruct (p x), (p y); reflexivity.
  Qed.

  Theorem generate_graph_part_order_free : forall part part' n2c,
    Permutation part part' ->
    outcome_rel (fun r r' : list (nat * nat) * list nat =>
                   (forall u, lookup Nat.eqb u (fst r) = lookup Nat.eqb u (fst r')) /\ same_set (snd r) (snd r'))
                (ofold (gg_inner g i) part (n2c, [])) (ofold (gg_inner g i) part' (n2c, [])).
  Proof.
    intros part part' n2c HPm. pose proof (forallb_perm found part part' HPm) as Ef.
    destruct (forallb found part) eqn:E.
    - destruct (gg_inner_all_found part (n2c, []) E) as [[m1 s1] H1].
      destruct (gg_inner_all_found part' (n2c, []) (eq_sym Ef)) as [[m2 s2] H2].
      rewrite H1, H2. cbn [outcome_rel fst snd].
      destruct (gg_inner_ok g i part n2c [] m1 s1 H1 (NoDup_nil _)) as [_ [I1 L1]].
      destruct (gg_inner_ok g i part' n2c [] m2 s2 H2 (NoDup_nil _)) as [_ [I2 L2]].
      assert (Hmem : forall u, mem Nat.eqb u part = mem Nat.eqb u part').
      { intro u. destruct (mem Nat.eqb u part) eqn:M1, (mem Nat.eqb u part') eqn:M2; try reflexivity.
        - apply mem_nat_In in M1. apply (Permutation_in _ HPm) in M1. apply mem_nat_In in M1. congruence.
        - apply mem_nat_In in M2. apply (Permutation_in _ (Permutation_sym HPm)) in M2.
          apply mem_nat_In in M2. congruence. }
      split.
      + intro u. rewrite L1, L2, Hmem. reflexivity.
      + intro x. rewrite I1, I2. split; (intros [[]|[u [Hu Hx]]]; right; exists u; split; [|exact Hx]).
        * apply (Permutation_in _ HPm). exact Hu.
        * apply (Permutation_in _ (Permutation_sym HPm)). exact Hu.
    - rewrite (gg_inner_some_missing part (n2c, []) E).
      rewrite (gg_inner_some_missing part' (n2c, []) (eq_sym Ef)). reflexivity.
  Qed.
End PartOrder.

(* ---------------- non-vacuity: concrete non-identity oracles ---------------- *)

(* every table is iterated backwards *)
Definition rev_oracle : hash_oracle unit :=
  mkHO unit (fun o l => (rev l, o)) (fun o l => (rev l, o)) (fun o l => (rev l, o)).

Lemma rev_oracle_perm : oracle_perm rev_oracle.
Proof. split; intros o l; cbn [rev_oracle ho_cand ho_nbr ho_edge fst]; apply Permutation_sym, Permutation_rev. Qed.

(* a stateful oracle: the k-th iteration of the run starts at offset k (rotation), so equal
   containers are iterated in different orders at different times *)
Definition rot {X} (k : nat) (l : list X) : list X :=
  skipn (k mod S (length l)) l ++ firstn (k mod S (length l)) l.

Definition rot_oracle : hash_oracle nat :=
  mkHO nat (fun o l => (rot o l, S o)) (fun o l => (rot o l, S o)) (fun o l => (rot o l, S o)).

Lemma rot_perm : forall {X} k (l : list X), Permutation (rot k l) l.
Proof.
  intros X k l. unfold rot. eapply Permutation_trans; [apply Permutation_app_comm|].
  rewrite firstn_skipn. apply Permutation_refl.
Qed.

Lemma rot_oracle_perm : oracle_perm rot_oracle.
Proof. split; intros o l; cbn [rot_oracle ho_cand ho_nbr ho_edge fst]; apply rot_perm. Qed.

(* the undirected unweighted cycle 0 - 1 - ... - (n-1) - 0: every node sees two equally good
   neighbouring communities at its first visit *)
Definition ord_ex_ring (n : nat) : outcome (gstate Z Z) :=
  new_from_nodes_and_edges Z.eqb Z.ltb
    (map (fun i => mknode (Z.of_nat i) (None : option Z)) (seq 0 n))
    (map (fun i => mkedge (Z.of_nat i) (Z.of_nat ((i + 1) mod n)) None None) (seq 0 n))
    (mkspecs false DErr MCreate false true SErr).
Definition ord_ex_perms (n : nat) : list (list nat) := map (fun k => seq 0 (S k)) (seq 0 n).

(* the 4-cycle: one level, two communities; the 12-cycle: two levels (six pairs, then three
   quadruples), so the aggregated graph and its edge oracle are exercised too.  Both oracles
   really permute (first line), and all three runs return the same non-trivial levels. *)
Example ord_oracles_nonvacuous :
  fst (ho_cand rev_oracle tt [(1%nat, 1%Q); (3%nat, 1%Q)]) = [(3%nat, 1%Q); (1%nat, 1%Q)] /\
  fst (ho_nbr rot_oracle 1%nat [1; 3; 5]%nat) = [3; 5; 1]%nat /\
  match ord_ex_ring 4, ord_ex_ring 12 with
  | Ok g4, Ok g12 =>
    let expect4 := Ok [[[1; 0]; [3; 2]]]%Z in
    let expect12 := Ok [[[1; 0]; [3; 2]; [5; 4]; [7; 6]; [9; 8]; [11; 10]];
                        [[3; 2; 1; 0]; [7; 6; 5; 4]; [11; 10; 9; 8]]]%Z in
    louvain_partitions Z.eqb Z.ltb 10 50 g4 false 1%Q (1 # 10000000)%Q (ord_ex_perms 4) = expect4 /\
    louvain_partitions_ord rev_oracle Z.eqb Z.ltb tt 10 50 g4 false 1%Q (1 # 10000000)%Q (ord_ex_perms 4) = expect4 /\
    louvain_partitions_ord rot_oracle Z.eqb Z.ltb 1%nat 10 50 g4 false 1%Q (1 # 10000000)%Q (ord_ex_perms 4) = expect4 /\
    louvain_partitions Z.eqb Z.ltb 10 50 g12 false 1%Q (1 # 10000000)%Q (ord_ex_perms 12) = expect12 /\
    louvain_partitions_ord rev_oracle Z.eqb Z.ltb tt 10 50 g12 false 1%Q (1 # 10000000)%Q (ord_ex_perms 12) = expect12 /\
    louvain_partitions_ord rot_oracle Z.eqb Z.ltb 1%nat 10 50 g12 false 1%Q (1 # 10000000)%Q (ord_ex_perms 12) = expect12 /\
    louvain_communities_ord rev_oracle Z.eqb Z.ltb tt 10 50 g12 false 1%Q (1 # 10000000)%Q (ord_ex_perms 12) =
      Ok [[3; 2; 1; 0]; [7; 6; 5; 4]; [11; 10; 9; 8]]%Z
  | _, _ => False
  end.
Proof. vm_compute. repeat split; reflexivity. Qed.

(* control: the canonicalisation is what makes the oracle unobservable.  The raw first-wins scan
   of update_best_com on two tied candidates (the situation of a node of a cycle) picks a
   different community when the candidates arrive in the opposite order - the pre-F17 behaviour. *)
Example ord_raw_scan_is_order_sensitive :
  let di := mkdi [] [] [] [] [] [2%Q; 2%Q; 2%Q; 2%Q] 2%Q 0%Q 0%Q in
  let cands := [(1%nat, 1%Q); (3%nat, 1%Q)] in
  (do r <- scan_candidates di 4%Q 1%Q false cands 0%nat 0%Q []; Ok (fst (fst r))) = Ok 1%nat /\
  (do r <- scan_candidates di 4%Q 1%Q false (rev cands) 0%nat 0%Q []; Ok (fst (fst r))) = Ok 3%nat /\
  update_best_com 0 cands di 4%Q 1%Q false = update_best_com 0 (rev cands) di 4%Q 1%Q false.
Proof. vm_compute. repeat split; reflexivity. Qed.
