(* C13, deepening (round 2): list-level facts used by the bookkeeping invariants of the Louvain
   model: the HashSet operations of Model/Louvain.v on duplicate-free lists (set_remove,
   set_diff, set_union), Vec read-modify-write (upd_nth), outcome inversion, insertion sort of a
   permutation of 0..n-1, index-wise vs. pairwise disjointness. *)
From Coq Require Import String List Bool Arith Lia Permutation.
From GV Require Import Base.Outcome Base.AMap Model.GState Model.Louvain Proofs.AMapOk Proofs.LouvainOk
     Proofs.MoveGainOk.
Import ListNotations.

(* ---------------- outcomes ---------------- *)
Lemma bind_ok : forall {A B} (o : outcome A) (f : A -> outcome B) b,
  bind o f = Ok b -> exists a, o = Ok a /\ f a = Ok b.
Proof. intros A B o f b H. destruct o; cbn in H; try discriminate. eauto. Qed.

Lemma unwrap_at_ok : forall {A} site (o : option A) a, unwrap_at site o = Ok a -> o = Some a.
Proof. intros A site o a H. destruct o; cbn in H; [inversion H; reflexivity | discriminate]. Qed.

Lemma ofold_inv : forall {S X} (Inv : S -> Prop) (f : S -> X -> outcome S) (l : list X),
  (forall s x s', In x l -> Inv s -> f s x = Ok s' -> Inv s') ->
  forall s s', Inv s -> ofold f l s = Ok s' -> Inv s'.
Proof.
  intros S X Inv f l. induction l as [|x t IH]; intros Hstep s s' Hs H; cbn [ofold] in H.
  - inversion H. subst. exact Hs.
  - apply bind_ok in H. destruct H as [s1 [H1 H2]].
    apply (IH (fun s0 x0 s0' Hin => Hstep s0 x0 s0' (or_intror Hin)) s1 s'); [|exact H2].
    apply (Hstep s x s1); [left; reflexivity | exact Hs | exact H1].
Qed.

Lemma omapM_ok : forall {X Y} (f : X -> outcome Y) (l : list X) r,
  omapM f l = Ok r -> Forall2 (fun x y => f x = Ok y) l r.
Proof.
  intros X Y f l. induction l as [|x t IH]; intros r H; cbn [omapM] in H.
  - inversion H. constructor.
  - apply bind_ok in H. destruct H as [y [Hy H]]. apply bind_ok in H. destruct H as [ys [Hys H]].
    inversion H. subst. constructor; [exact Hy | apply IH; exact Hys].
Qed.

(* ---------------- sets of naturals ---------------- *)
Lemma mem_nat_In : forall x l, mem Nat.eqb x l = true <-> In x l.
Proof. intros. apply (mem_In Nat.eqb Nat.eqb_eq). Qed.

Lemma mem_nat_false : forall x l, mem Nat.eqb x l = false <-> ~ In x l.
Proof.
  intros x l. split.
  - intros H Hin. apply mem_nat_In in Hin. congruence.
  - intro H. destruct (mem Nat.eqb x l) eqn:E; [|reflexivity]. apply mem_nat_In in E. contradiction.
Qed.

Lemma In_set_remove : forall x y l, In y (set_remove x l) <-> In y l /\ y <> x.
Proof.
  intros x y l. unfold set_remove. rewrite filter_In, negb_true_iff, Nat.eqb_neq. reflexivity.
Qed.

Lemma NoDup_set_remove : forall x l, NoDup l -> NoDup (set_remove x l).
Proof. intros x l H. unfold set_remove. apply NoDup_filter. exact H. Qed.

Lemma In_set_diff : forall a b y, In y (set_diff a b) <-> In y a /\ ~ In y b.
Proof.
  intros a b y. unfold set_diff. rewrite filter_In, negb_true_iff, mem_nat_false. reflexivity.
Qed.

Lemma NoDup_set_diff : forall a b, NoDup a -> NoDup (set_diff a b).
Proof. intros a b H. unfold set_diff. apply NoDup_filter. exact H. Qed.

Lemma In_set_add_nat : forall x y l, In y (set_add Nat.eqb x l) <-> y = x \/ In y l.
Proof. intros. apply (In_set_add Nat.eqb Nat.eqb_eq). Qed.

Lemma NoDup_set_add_nat : forall x l, NoDup l -> NoDup (set_add Nat.eqb x l).
Proof. intros. apply (NoDup_set_add Nat.eqb Nat.eqb_eq). assumption. Qed.

Lemma In_set_union : forall b a y, In y (set_union a b) <-> In y a \/ In y b.
Proof.
  unfold set_union. induction b as [|x t IH]; intros a y; cbn [fold_left].
  - cbn [In]. tauto.
  - rewrite IH, In_set_add_nat. cbn [In]. intuition congruence.
Qed.

Lemma NoDup_set_union : forall b a, NoDup a -> NoDup (set_union a b).
Proof.
  unfold set_union. induction b as [|x t IH]; intros a H; cbn [fold_left]; [exact H|].
  apply IH. apply NoDup_set_add_nat. exact H.
Qed.

(* ---------------- Vec read-modify-write ---------------- *)
Lemma upd_nth_ok : forall {X} site i (f : X -> X) l l',
  upd_nth site i f l = Ok l' ->
  exists x, nth_error l i = Some x /\ length l' = length l /\
            forall j, nth_error l' j = if Nat.eqb j i then Some (f x) else nth_error l j.
Proof.
  intros X site i f l l' H. unfold upd_nth in H.
  apply bind_ok in H. destruct H as [x [Hx H]]. apply unwrap_at_ok in Hx. apply unwrap_at_ok in H.
  exists x. split; [exact Hx|]. split; [eapply set_nth_length; exact H|].
  intro j. eapply set_nth_nth. exact H.
Qed.

Lemma upd_nth_some : forall {X} site i (f : X -> X) l x,
  nth_error l i = Some x -> exists l', upd_nth site i f l = Ok l'.
Proof.
  intros X site i f l x H. unfold upd_nth. rewrite H. cbn [unwrap_at bind].
  assert (Hi : i < length l) by (apply nth_error_Some; congruence).
  destruct (set_nth_Some i (f x) l Hi) as [l' E]. exists l'. rewrite E. reflexivity.
Qed.

(* ---------------- sorting a permutation of 0..n-1 ---------------- *)
Lemma ins_sorted_ge_all : forall x l, (forall y, In y l -> y < x) -> ins_sorted Nat.ltb x l = l ++ [x].
Proof.
  intros x l. induction l as [|y t IH]; intro H; cbn [ins_sorted app]; [reflexivity|].
  assert (Hy : Nat.ltb y x = true) by (apply Nat.ltb_lt; apply H; left; reflexivity).
  rewrite Hy. rewrite IH; [reflexivity|]. intros z Hz. apply H. right. exact Hz.
Qed.

Lemma sort_by_rev_seq : forall n, sort_by Nat.ltb (rev (seq 0 n)) = seq 0 n.
Proof.
  induction n as [|n IH]; [reflexivity|].
  rewrite seq_S, rev_app_distr. cbn [rev app plus]. unfold sort_by in *. cbn [fold_right].
  rewrite IH. apply ins_sorted_ge_all. intros y Hy. apply in_seq in Hy. lia.
Qed.

Lemma sort_by_perm_seq : forall l n, Permutation l (seq 0 n) -> sort_by Nat.ltb l = seq 0 n.
Proof.
  intros l n HP. rewrite <- (sort_by_rev_seq n). apply sort_nat_perm.
  - apply Permutation_trans with (seq 0 n); [exact HP | apply Permutation_rev].
  - eapply Permutation_NoDup; [apply Permutation_sym; exact HP | apply seq_NoDup].
Qed.

Lemma sort_by_In : forall {X} (ltb : X -> X -> bool) l x, In x (sort_by ltb l) <-> In x l.
Proof.
  intros X ltb l x. split; apply Permutation_in.
  - apply sort_by_permutation.
  - apply Permutation_sym, sort_by_permutation.
Qed.

(* ---------------- index-wise and pair-wise relations ---------------- *)
Lemma ForallOrdPairs_nth : forall {X} (R : X -> X -> Prop) (l : list X),
  (forall i j a b, i < j -> nth_error l i = Some a -> nth_error l j = Some b -> R a b) ->
  ForallOrdPairs R l.
Proof.
  intros X R l. induction l as [|x t IH]; intro H; constructor.
  - rewrite Forall_forall. intros b Hb. apply In_nth_error in Hb. destruct Hb as [j Hj].
    apply (H 0 (S j) x b); [lia | reflexivity | exact Hj].
  - apply IH. intros i j a b Hij Ha Hb. apply (H (S i) (S j) a b); [lia | exact Ha | exact Hb].
Qed.

Lemma ForallOrdPairs_filter : forall {X} (R : X -> X -> Prop) (p : X -> bool) (l : list X),
  ForallOrdPairs R l -> ForallOrdPairs R (filter p l).
Proof.
  intros X R p l H. induction H as [|x t Hx Ht IH]; cbn [filter]; [constructor|].
  destruct (p x); [|exact IH]. constructor; [|exact IH].
  rewrite Forall_forall in *. intros b Hb. apply filter_In in Hb. apply Hx. apply Hb.
Qed.

Lemma Forall2_nth : forall {X Y} (R : X -> Y -> Prop) (a : list X) (b : list Y),
  length a = length b ->
  (forall i x y, nth_error a i = Some x -> nth_error b i = Some y -> R x y) ->
  Forall2 R a b.
Proof.
  intros X Y R a. induction a as [|x t IH]; intros [|y u] Hlen H; cbn in Hlen; try discriminate; constructor.
  - apply (H 0); reflexivity.
  - apply IH; [lia|]. intros i x' y' Hx Hy. apply (H (S i)); assumption.
Qed.

Lemma Forall2_nth_inv : forall {X Y} (R : X -> Y -> Prop) (a : list X) (b : list Y),
  Forall2 R a b -> forall i x y, nth_error a i = Some x -> nth_error b i = Some y -> R x y.
Proof.
  intros X Y R a b H. induction H as [|x y t u Hxy Htu IH]; intros [|i] x' y' Hx Hy; cbn in *; try discriminate.
  - inversion Hx. inversion Hy. subst. exact Hxy.
  - eapply IH; eassumption.
Qed.

Lemma Forall2_filter : forall {X Y} (R : X -> Y -> Prop) (p : X -> bool) (q : Y -> bool) a b,
  Forall2 R a b -> (forall x y, R x y -> p x = q y) -> Forall2 R (filter p a) (filter q b).
Proof.
  intros X Y R p q a b H Hpq. induction H as [|x y t u Hxy Htu IH]; cbn [filter]; [constructor|].
  rewrite (Hpq x y Hxy). destruct (q y); [constructor; assumption | exact IH].
Qed.

Lemma nth_error_map_seq : forall {X} (f : nat -> X) n i,
  nth_error (map f (seq 0 n)) i = if Nat.ltb i n then Some (f i) else None.
Proof.
  intros X f n i. destruct (Nat.ltb i n) eqn:E.
  - apply Nat.ltb_lt in E. rewrite nth_error_map.
    assert (H : nth_error (seq 0 n) i = Some i).
    { rewrite (nth_error_nth' (seq 0 n) 0) by (rewrite seq_length; exact E). rewrite seq_nth by exact E. reflexivity. }
    rewrite H. reflexivity.
  - apply Nat.ltb_ge in E. apply nth_error_None. rewrite map_length, seq_length. exact E.
Qed.

Lemma lookup_map_diag : forall l u, lookup Nat.eqb u (map (fun k : nat => (k, k)) l) = if mem Nat.eqb u l then Some u else None.
Proof.
  intros l u. induction l as [|x t IH]; [reflexivity|]. cbn [map lookup mem existsb].
  destruct (Nat.eqb u x) eqn:E; [apply Nat.eqb_eq in E; subst; reflexivity|]. exact IH.
Qed.

Lemma Forall2_imp : forall {X Y} (R S : X -> Y -> Prop) a b,
  (forall x y, R x y -> S x y) -> Forall2 R a b -> Forall2 S a b.
Proof. intros X Y R S a b H F. induction F; constructor; auto. Qed.
