(* C13, deepening (round 2): the STRUCTURAL bookkeeping invariants of the local-moving phase of
   the Louvain model (compute_one_level), for every visiting order, every gain function and every
   working graph:
     L1  node2com u = c  <->  u in inner_partition[c]           (so the communities are disjoint
                                                                   and cover the node set)
     L2  _partition[c]   =   union of the attribute sets of the members of inner_partition[c]
   They are preserved by every visit (whatever community is chosen), hence by every sweep and by
   the repeat-until-no-move loop, whenever these return.  Consequence: the filtered result of
   compute_one_level is a partition of the original node set into non-empty sets which coarsens
   the partition it was started from, and it stays index-aligned with the filtered
   inner_partition (L5). *)
From Coq Require Import String List Bool Arith Lia Permutation QArith.
From GV Require Import Base.Outcome Base.AMap Model.GState Model.Creation Model.Query Model.Derived
     Model.Partition Model.Louvain Spec.PartitionDef Proofs.AMapOk Proofs.LouvainOk Proofs.MoveGainOk
     Proofs.LouvainSets.
Import ListNotations.

(* the attribute set of a node of a working graph, as compute_one_level / generate_graph read it *)
Definition attr_of (g : lgraph) (u : nat) : list nat :=
  match get_node Nat.eqb g u with
  | Ok (Some nd) => match nattr nd with Some a => a | None => [u] end
  | _ => [u]
  end.

Definition gnames (g : lgraph) : list nat := map nname (get_all_nodes g).

Lemma unwrap_res_ok : forall {X} site (r : outcome X) x, unwrap_res site r = Ok x -> r = Ok x.
Proof. intros X site r x H. destruct r; cbn in H; try discriminate. exact H. Qed.

(* L4: the attribute sets of the level's nodes partition the original node set *)
Record AttrOk (orig names : list nat) (attr : nat -> list nat) : Prop := mkAO {
  ao_nodup : forall u, In u names -> NoDup (attr u);
  ao_ne : forall u, In u names -> attr u <> [];
  ao_disj : forall u v x, In u names -> In v names -> In x (attr u) -> In x (attr v) -> u = v;
  ao_cover : forall x, In x orig <-> exists u, In u names /\ In x (attr u)
}.

Section Struct.
  Variable names : list nat.
  Variable attr : nat -> list nat.
  Hypothesis attr_disj : forall u v x, In u names -> In v names -> In x (attr u) -> In x (attr v) -> u = v.

  Record SInv (P I : list (list nat)) (n2c : list (nat * nat)) : Prop := mkSI {
    si_len : length P = length I;
    si_dom : forall u, In u names <-> lookup Nat.eqb u n2c <> None;
    si_L1 : forall u c, lookup Nat.eqb u n2c = Some c <-> exists l, nth_error I c = Some l /\ In u l;
    si_nd : forall c l, nth_error I c = Some l -> NoDup l;
    si_L2 : forall c l p, nth_error I c = Some l -> nth_error P c = Some p ->
            NoDup p /\ forall x, In x p <-> exists u, In u l /\ In x (attr u)
  }.

  Definition SInvS (s : lstate) : Prop := SInv (ls_partition s) (ls_inner s) (ls_node2com s).

  Lemma SInv_member_names : forall P I n2c c l u, SInv P I n2c -> nth_error I c = Some l -> In u l -> In u names.
  Proof.
    intros P I n2c c l u H Hc Hu. apply (si_dom _ _ _ H).
    assert (E : lookup Nat.eqb u n2c = Some c) by (apply (si_L1 _ _ _ H); exists l; split; assumption).
    rewrite E. discriminate.
  Qed.

  (* moving u from its community [own] to another community [bc], as the model's visit does it *)
  Lemma move_SInv : forall P I n2c u own bc p1 i1 p2 i2 s1 s2 s3 s4,
    SInv P I n2c -> lookup Nat.eqb u n2c = Some own -> bc <> own ->
    upd_nth s1 own (fun c => set_diff c (attr u)) P = Ok p1 ->
    upd_nth s2 own (set_remove u) I = Ok i1 ->
    upd_nth s3 bc (fun c => set_union c (attr u)) p1 = Ok p2 ->
    upd_nth s4 bc (set_add Nat.eqb u) i1 = Ok i2 ->
    SInv p2 i2 (insert Nat.eqb u bc n2c).
  Proof.
    intros P I n2c u own bc p1 i1 p2 i2 s1 s2 s3 s4 Hinv Hown Hne H1 H2 H3 H4.
    pose proof Hinv as [Hlen Hdom HL1 Hnd HL2].
    destruct (upd_nth_ok _ _ _ _ _ H1) as [pO [EpO [Lp1 Np1]]].
    destruct (upd_nth_ok _ _ _ _ _ H2) as [iO [EiO [Li1 Ni1]]].
    destruct (upd_nth_ok _ _ _ _ _ H3) as [pB [EpB [Lp2 Np2]]].
    destruct (upd_nth_ok _ _ _ _ _ H4) as [iB [EiB [Li2 Ni2]]].
    assert (Hbo : Nat.eqb bc own = false) by (apply Nat.eqb_neq; exact Hne).
    rewrite Np1, Hbo in EpB. rewrite Ni1, Hbo in EiB.
    assert (HI2 : forall j, nth_error i2 j =
              if Nat.eqb j bc then Some (set_add Nat.eqb u iB)
              else if Nat.eqb j own then Some (set_remove u iO) else nth_error I j).
    { intro j. rewrite Ni2, Ni1. reflexivity. }
    assert (HP2 : forall j, nth_error p2 j =
              if Nat.eqb j bc then Some (set_union pB (attr u))
              else if Nat.eqb j own then Some (set_diff pO (attr u)) else nth_error P j).
    { intro j. rewrite Np2, Np1. reflexivity. }
    assert (Hu_in : In u iO).
    { apply HL1 in Hown. destruct Hown as [l [E Hin]]. rewrite EiO in E. inversion E. subst. exact Hin. }
    assert (Hu_names : In u names) by (apply Hdom; rewrite Hown; discriminate).
    assert (Hu_only : forall c l, nth_error I c = Some l -> In u l -> c = own).
    { intros c l Hc Hin. assert (E : lookup Nat.eqb u n2c = Some c) by (apply HL1; exists l; split; assumption).
      congruence. }
    (* membership in the new inner partition *)
    assert (Hmem : forall c l2, nth_error i2 c = Some l2 ->
              exists l, nth_error I c = Some l /\ (forall v, v <> u -> (In v l2 <-> In v l)) /\
                        (In u l2 <-> c = bc)).
    { intros c l2 Hc. rewrite HI2 in Hc. destruct (Nat.eqb c bc) eqn:Ecb.
      - apply Nat.eqb_eq in Ecb. subst c. inversion Hc. subst l2. exists iB. split; [exact EiB|]. split.
        + intros v Hv. rewrite In_set_add_nat. intuition congruence.
        + rewrite In_set_add_nat. intuition.
      - apply Nat.eqb_neq in Ecb. destruct (Nat.eqb c own) eqn:Eco.
        + apply Nat.eqb_eq in Eco. subst c. inversion Hc. subst l2. exists iO. split; [exact EiO|]. split.
          * intros v Hv. rewrite In_set_remove. intuition.
          * rewrite In_set_remove. intuition.
        + apply Nat.eqb_neq in Eco. exists l2. split; [exact Hc|]. split; [intros; reflexivity|].
          split; [intro Hin; exfalso; apply Eco; apply (Hu_only c l2 Hc Hin) | intro; contradiction]. }
    assert (Hex : forall c l, nth_error I c = Some l -> exists l2, nth_error i2 c = Some l2).
    { intros c l Hc. rewrite HI2. destruct (Nat.eqb c bc); [eauto|]. destruct (Nat.eqb c own); eauto. }
    constructor.
    - rewrite Lp2, Lp1, Li2, Li1. exact Hlen.
    - intro v. rewrite (lookup_insert Nat.eqb Nat.eqb_eq). destruct (Nat.eqb v u) eqn:E.
      + apply Nat.eqb_eq in E. subst. split; [discriminate | intros _; exact Hu_names].
      + apply Hdom.
    - intros v c. rewrite (lookup_insert Nat.eqb Nat.eqb_eq). destruct (Nat.eqb v u) eqn:E.
      + apply Nat.eqb_eq in E. subst v. split.
        * intro H. inversion H. subst c. exists (set_add Nat.eqb u iB). split.
          -- rewrite HI2, Nat.eqb_refl. reflexivity.
          -- apply In_set_add_nat. left. reflexivity.
        * intros [l2 [Hc Hin]]. destruct (Hmem c l2 Hc) as [_ [_ [_ Hb]]]. f_equal. symmetry. apply Hb. exact Hin.
      + apply Nat.eqb_neq in E. rewrite HL1. split.
        * intros [l [Hc Hin]]. destruct (Hex c l Hc) as [l2 Hc2]. exists l2. split; [exact Hc2|].
          destruct (Hmem c l2 Hc2) as [l' [Hc' [Hv _]]]. rewrite Hc in Hc'. inversion Hc'. subst l'.
          apply Hv; assumption.
        * intros [l2 [Hc2 Hin]]. destruct (Hmem c l2 Hc2) as [l [Hc [Hv _]]]. exists l. split; [exact Hc|].
          apply Hv; assumption.
    - intros c l2 Hc. rewrite HI2 in Hc. destruct (Nat.eqb c bc).
      + inversion Hc. apply NoDup_set_add_nat. apply (Hnd bc). exact EiB.
      + destruct (Nat.eqb c own).
        * inversion Hc. apply NoDup_set_remove. apply (Hnd own). exact EiO.
        * apply (Hnd c). exact Hc.
    - intros c l2 q2 Hc Hq. rewrite HI2 in Hc. rewrite HP2 in Hq. destruct (Nat.eqb c bc) eqn:Ecb.
      + inversion Hc. inversion Hq. subst l2 q2. clear Hc Hq.
        destruct (HL2 bc iB pB EiB EpB) as [Hndp Hp]. split; [apply NoDup_set_union; exact Hndp|].
        intro x. rewrite In_set_union, Hp. split.
        * intros [[w [Hw Hx]]|Hx].
          -- exists w. split; [apply In_set_add_nat; right; exact Hw | exact Hx].
          -- exists u. split; [apply In_set_add_nat; left; reflexivity | exact Hx].
        * intros [w [Hw Hx]]. apply In_set_add_nat in Hw. destruct Hw as [Hw|Hw].
          -- subst w. right. exact Hx.
          -- left. exists w. split; assumption.
      + destruct (Nat.eqb c own) eqn:Eco.
        * inversion Hc. inversion Hq. subst l2 q2. clear Hc Hq.
          destruct (HL2 own iO pO EiO EpO) as [Hndp Hp]. split; [apply NoDup_set_diff; exact Hndp|].
          intro x. rewrite In_set_diff, Hp. split.
          -- intros [[w [Hw Hx]] Hnx]. exists w. split; [|exact Hx]. apply In_set_remove. split; [exact Hw|].
             intro E. subst w. contradiction.
          -- intros [w [Hw Hx]]. apply In_set_remove in Hw. destruct Hw as [Hw Hwu]. split.
             ++ exists w. split; assumption.
             ++ intro Hxu. apply Hwu. apply (attr_disj w u x); try assumption.
                apply (SInv_member_names P I n2c own iO w Hinv EiO Hw).
        * apply (HL2 c l2 q2 Hc Hq).
  Qed.

  (* ---- one visit, one sweep, the repeat-until-no-move loop ---- *)
  Section WithGraph.
    Variable g : lgraph.
    Hypothesis attr_is : forall u, attr_of g u = attr u.

    Lemma visit_SInv : forall m res nbrs preds s u s',
      visit g m res nbrs preds s u = Ok s' -> SInvS s -> SInvS s'.
    Proof.
      intros m res nbrs preds s u s' H Hinv. unfold visit in H.
      apply bind_ok in H. destruct H as [own [Hown H]]. apply unwrap_at_ok in Hown.
      apply bind_ok in H. destruct H as [w0 [_ H]].
      apply bind_ok in H. destruct H as [w2c [_ H]].
      apply bind_ok in H. destruct H as [di1 [_ H]].
      apply bind_ok in H. destruct H as [[bc tie] [_ H]].
      apply bind_ok in H. destruct H as [di2 [_ H]].
      destruct (Nat.eqb bc own) eqn:E.
      - inversion H. subst s'. exact Hinv.
      - apply Nat.eqb_neq in E.
        apply bind_ok in H. destruct H as [nd [Hnd H]]. apply unwrap_res_ok in Hnd.
        apply bind_ok in H. destruct H as [nd' [Hnd' H]]. apply unwrap_at_ok in Hnd'. subst nd.
        assert (Hcom : match nattr nd' with Some a => a | None => [u] end = attr u).
        { rewrite <- attr_is. unfold attr_of. rewrite Hnd. reflexivity. }
        rewrite Hcom in H.
        apply bind_ok in H. destruct H as [p1 [Hp1 H]].
        apply bind_ok in H. destruct H as [i1 [Hi1 H]].
        apply bind_ok in H. destruct H as [p2 [Hp2 H]].
        apply bind_ok in H. destruct H as [i2 [Hi2 H]].
        inversion H. subst s'. unfold SInvS. cbn [ls_partition ls_inner ls_node2com].
        eapply move_SInv; eassumption.
    Qed.

    Lemma sweep_SInv : forall m res nbrs preds order s s',
      ofold (visit g m res nbrs preds) order s = Ok s' -> SInvS s -> SInvS s'.
    Proof.
      intros m res nbrs preds order s s' H Hs.
      apply (ofold_inv SInvS (visit g m res nbrs preds) order) with (s := s); [|exact Hs|exact H].
      intros s0 x s0' _ H0 Hv. eapply visit_SInv; eassumption.
    Qed.

    Lemma sweeps_SInv : forall fuel m res nbrs preds order s s',
      sweeps fuel g m res nbrs preds order s = Ok s' -> SInvS s -> SInvS s'.
    Proof.
      induction fuel as [|f IH]; intros m res nbrs preds order s s' H Hs; cbn [sweeps] in H; [discriminate|].
      apply bind_ok in H. destruct H as [s1 [H1 H]].
      assert (Hs1 : SInvS s1) by (eapply sweep_SInv; [exact H1 | exact Hs]).
      destruct (Nat.eqb (ls_moves s1) 0); [inversion H; subst; exact Hs1|].
      eapply IH; eassumption.
    Qed.
  End WithGraph.
End Struct.

(* ---- the start state of compute_one_level ---- *)
Section Start.
  Variable n : nat.
  Variable attr : nat -> list nat.

  Lemma SInv_start : forall partition,
    length partition = n ->
    (forall c p, nth_error partition c = Some p -> NoDup p /\ forall x, In x p <-> In x (attr c)) ->
    SInv (seq 0 n) attr partition (map (fun k => [k]) (seq 0 n)) (map (fun k => (k, k)) (seq 0 n)).
  Proof.
    intros partition Hlen Hp. constructor.
    - rewrite map_length, seq_length. exact Hlen.
    - intro u. rewrite lookup_map_diag. destruct (mem Nat.eqb u (seq 0 n)) eqn:E.
      + apply mem_nat_In in E. split; [discriminate | intros _; exact E].
      + apply mem_nat_false in E. split; [contradiction | intro H; exfalso; apply H; reflexivity].
    - intros u c. rewrite lookup_map_diag, nth_error_map_seq. destruct (mem Nat.eqb u (seq 0 n)) eqn:E.
      + apply mem_nat_In in E. apply in_seq in E. split.
        * intro H. inversion H. subst c. exists [u].
          assert (Hlt : Nat.ltb u n = true) by (apply Nat.ltb_lt; lia). rewrite Hlt.
          split; [reflexivity | left; reflexivity].
        * intros [l [Hc Hin]]. destruct (Nat.ltb c n); [|discriminate]. inversion Hc. subst l.
          destruct Hin as [Hin|[]]. subst. reflexivity.
      + apply mem_nat_false in E. split; [discriminate|].
        intros [l [Hc Hin]]. destruct (Nat.ltb c n) eqn:Ec; [|discriminate]. inversion Hc. subst l.
        destruct Hin as [Hin|[]]. subst c. exfalso. apply E. apply in_seq. apply Nat.ltb_lt in Ec. lia.
    - intros c l Hc. rewrite nth_error_map_seq in Hc. destruct (Nat.ltb c n); [|discriminate].
      inversion Hc. constructor; [intros []|constructor].
    - intros c l p Hc Hpc. rewrite nth_error_map_seq in Hc. destruct (Nat.ltb c n); [|discriminate].
      inversion Hc. subst l. destruct (Hp c p Hpc) as [Hnd Hx]. split; [exact Hnd|].
      intro x. rewrite Hx. split.
      + intro H. exists c. split; [left; reflexivity | exact H].
      + intros [u [[Hu|[]] H]]. subst u. exact H.
  Qed.
End Start.

(* ---- what the filtered result of a local-moving phase is ---- *)
Section Result.
  Variable orig names : list nat.
  Variable attr : nat -> list nat.
  Hypothesis AO : AttrOk orig names attr.

  (* a family [P] of sets of original nodes and a family [I] of sets of level nodes, index-aligned *)
  Definition aligned (p l : list nat) : Prop :=
    NoDup p /\ NoDup l /\ l <> [] /\ forall x, In x p <-> exists u, In u l /\ In x (attr u).

  Record PIok (P I : list (list nat)) : Prop := mkPI {
    pi_al : Forall2 aligned P I;
    pi_cover : forall u, In u names <-> exists l, In l I /\ In u l;
    pi_disj : ForallOrdPairs (fun a b => forall x, In x a -> ~ In x b) I
  }.

  Lemma Forall2_filter_strong : forall {X Y} (R : X -> Y -> Prop) (p : X -> bool) (q : Y -> bool) a b,
    Forall2 R a b -> (forall x y, R x y -> p x = q y) ->
    Forall2 (fun x y => R x y /\ q y = true) (filter p a) (filter q b).
  Proof.
    intros X Y R p q a b H Hpq. induction H as [|x y t u Hxy Htu IH]; cbn [filter]; [constructor|].
    rewrite (Hpq x y Hxy). destruct (q y) eqn:E; [constructor; [split; assumption | exact IH] | exact IH].
  Qed.

  Lemma nonempty_true : forall l, nonempty l = true <-> l <> [].
  Proof. intros [|x t]; cbn; split; intro H; try discriminate; try reflexivity; congruence. Qed.

  Lemma SInv_PIok : forall P I n2c, SInv names attr P I n2c ->
    PIok (filter nonempty P) (filter nonempty I).
  Proof.
    intros P I n2c H. pose proof H as [Hlen Hdom HL1 Hnd HL2]. constructor.
    - assert (HF : Forall2 (fun p l => NoDup p /\ NoDup l /\ (forall u, In u l -> In u names) /\
                                      forall x, In x p <-> exists u, In u l /\ In x (attr u)) P I).
      { apply Forall2_nth; [exact Hlen|]. intros i p l Hp Hl. destruct (HL2 i l p Hl Hp) as [Hn Hx].
        split; [exact Hn|]. split; [apply (Hnd i); exact Hl|]. split; [|exact Hx].
        intros u Hu. apply (SInv_member_names names attr P I n2c i l u H Hl Hu). }
      apply (Forall2_filter_strong _ nonempty nonempty) in HF.
      + eapply Forall2_imp; [|exact HF]. intros p l [[Hn [Hn' [_ Hx]]] Hne]. cbn beta.
        split; [exact Hn|]. split; [exact Hn'|]. split; [apply nonempty_true; exact Hne | exact Hx].
      + intros p l [_ [_ [Hnm Hx]]]. destruct l as [|u t].
        * destruct p as [|x p']; [reflexivity|]. exfalso.
          destruct (proj1 (Hx x) (or_introl eq_refl)) as [u [[] _]].
        * destruct p as [|x p']; [|reflexivity]. exfalso.
          assert (Hu : In u names) by (apply Hnm; left; reflexivity).
          pose proof (ao_ne _ _ _ AO u Hu) as Hne. destruct (attr u) as [|x a] eqn:Ea; [congruence|].
          apply (proj2 (Hx x)). exists u. split; [left; reflexivity | rewrite Ea; left; reflexivity].
    - intro u. split.
      + intro Hu. apply Hdom in Hu. destruct (lookup Nat.eqb u n2c) as [c|] eqn:E; [|congruence].
        apply HL1 in E. destruct E as [l [Hc Hin]]. exists l. split; [|exact Hin].
        apply filter_In. split; [eapply nth_error_In; exact Hc|]. destruct l; [contradiction | reflexivity].
      + intros [l [Hl Hin]]. apply filter_In in Hl. destruct Hl as [Hl _]. apply In_nth_error in Hl.
        destruct Hl as [c Hc]. apply (SInv_member_names names attr P I n2c c l u H Hc Hin).
    - apply ForallOrdPairs_filter. apply ForallOrdPairs_nth. intros i j a b Hij Ha Hb x Hxa Hxb.
      assert (E1 : lookup Nat.eqb x n2c = Some i) by (apply HL1; exists a; split; assumption).
      assert (E2 : lookup Nat.eqb x n2c = Some j) by (apply HL1; exists b; split; assumption).
      rewrite E1 in E2. inversion E2. lia.
  Qed.

  Lemma Forall2_In_l : forall {X Y} (R : X -> Y -> Prop) a b x, Forall2 R a b -> In x a -> exists y, In y b /\ R x y.
  Proof.
    intros X Y R a b x H. induction H as [|x0 y0 t u Hxy Htu IH]; intro Hin; [contradiction|].
    destruct Hin as [Hin|Hin]; [subst; exists y0; split; [left; reflexivity | exact Hxy]|].
    destruct (IH Hin) as [y [Hy Hr]]. exists y. split; [right; exact Hy | exact Hr].
  Qed.

  Lemma Forall2_In_r : forall {X Y} (R : X -> Y -> Prop) a b y, Forall2 R a b -> In y b -> exists x, In x a /\ R x y.
  Proof.
    intros X Y R a b y H. induction H as [|x0 y0 t u Hxy Htu IH]; intro Hin; [contradiction|].
    destruct Hin as [Hin|Hin]; [subst; exists x0; split; [left; reflexivity | exact Hxy]|].
    destruct (IH Hin) as [x [Hx Hr]]. exists x. split; [right; exact Hx | exact Hr].
  Qed.

  (* an aligned pair of families describes a partition of the original nodes into non-empty sets *)
  Lemma PIok_level_ok : forall P I, PIok P I -> level_ok orig P.
  Proof.
    intros P I [Hal Hcov Hdisj].
    assert (Hmn : forall l u, In l I -> In u l -> In u names) by (intros l u Hl Hu; apply Hcov; exists l; split; assumption).
    split; [split; [|split]|].
    - unfold pairwise_disjoint. revert Hdisj Hmn. clear Hcov. induction Hal as [|p l P' I' Hpl Hal IH]; intros Hdisj Hmn; [constructor|].
      inversion Hdisj as [|? ? Hl HI']. subst. constructor.
      + rewrite Forall_forall. intros q Hq x Hxp Hxq.
        destruct (Forall2_In_l _ _ _ _ Hal Hq) as [l' [Hl' [_ [_ [_ Hq']]]]].
        destruct Hpl as [_ [_ [_ Hp']]].
        apply Hp' in Hxp. destruct Hxp as [u [Hu Hxu]]. apply Hq' in Hxq. destruct Hxq as [v [Hv Hxv]].
        assert (u = v).
        { apply (ao_disj _ _ _ AO u v x); try assumption.
          - apply (Hmn l u); [left; reflexivity | exact Hu].
          - apply (Hmn l' v); [right; exact Hl' | exact Hv]. }
        subst v. rewrite Forall_forall in Hl. apply (Hl l' Hl' u Hu Hv).
      + apply IH; [exact HI'|]. intros l0 u0 H0 Hu0. apply (Hmn l0 u0); [right; exact H0 | exact Hu0].
    - intros c x Hc Hx. destruct (Forall2_In_l _ _ _ _ Hal Hc) as [l [Hl [_ [_ [_ Hp]]]]].
      apply Hp in Hx. destruct Hx as [u [Hu Hxu]]. apply (ao_cover _ _ _ AO). exists u. split; [|exact Hxu].
      apply (Hmn l u Hl Hu).
    - intros x Hx. apply (ao_cover _ _ _ AO) in Hx. destruct Hx as [u [Hu Hxu]].
      apply Hcov in Hu. destruct Hu as [l [Hl Hul]].
      destruct (Forall2_In_r _ _ _ _ Hal Hl) as [p [Hp [_ [_ [_ Hpx]]]]].
      exists p. split; [exact Hp|]. apply Hpx. exists u. split; assumption.
    - rewrite Forall_forall. intros p Hp. destruct (Forall2_In_l _ _ _ _ Hal Hp) as [l [Hl [_ [_ [Hne Hpx]]]]].
      destruct l as [|u t]; [congruence|].
      assert (Hu : In u names) by (apply (Hmn (u :: t) u Hl); left; reflexivity).
      pose proof (ao_ne _ _ _ AO u Hu) as Hau. destruct (attr u) as [|x a] eqn:Ea; [congruence|].
      intro E. subst p. apply (proj2 (Hpx x)). exists u. split; [left; reflexivity | rewrite Ea; left; reflexivity].
  Qed.

  (* ... which coarsens every family [prev] whose c-th set is the attribute set of level node c *)
  Lemma PIok_coarsens : forall prev P I,
    PIok P I ->
    (forall u, In u names -> exists p, nth_error prev u = Some p /\ forall x, In x p <-> In x (attr u)) ->
    coarsening prev P.
  Proof.
    intros prev P I [Hal Hcov _] Hprev c Hc.
    destruct (Forall2_In_l _ _ _ _ Hal Hc) as [l [Hl [_ [_ [_ Hpx]]]]].
    exists (map (fun u => nth u prev []) l). split.
    - intros d Hd. apply in_map_iff in Hd. destruct Hd as [u [<- Hu]].
      assert (Hun : In u names) by (apply Hcov; exists l; split; assumption).
      destruct (Hprev u Hun) as [p [Hp _]]. rewrite (nth_error_nth _ _ _ Hp). eapply nth_error_In. exact Hp.
    - intro x. rewrite Hpx, in_concat. split.
      + intros [u [Hu Hx]]. assert (Hun : In u names) by (apply Hcov; exists l; split; assumption).
        destruct (Hprev u Hun) as [p [Hp Hpa]]. exists p. split; [|apply Hpa; exact Hx].
        apply in_map_iff. exists u. split; [apply (nth_error_nth _ _ _ Hp) | exact Hu].
      + intros [d [Hd Hx]]. apply in_map_iff in Hd. destruct Hd as [u [<- Hu]]. exists u. split; [exact Hu|].
        assert (Hun : In u names) by (apply Hcov; exists l; split; assumption).
        destruct (Hprev u Hun) as [p [Hp Hpa]]. rewrite (nth_error_nth _ _ _ Hp) in Hx. apply Hpa. exact Hx.
  Qed.
End Result.

(* ---- compute_one_level as a whole ---- *)
Theorem compute_one_level_struct :
  forall fuel (g : lgraph) m partition res perms n orig p2 i2 imp tie,
    Permutation (gnames g) (seq 0 n) ->
    AttrOk orig (seq 0 n) (attr_of g) ->
    length partition = n ->
    (forall c p, nth_error partition c = Some p -> NoDup p /\ forall x, In x p <-> In x (attr_of g c)) ->
    compute_one_level fuel g m partition res perms = Ok (p2, i2, imp, tie) ->
    PIok (seq 0 n) (attr_of g) p2 i2 /\ level_ok orig p2 /\ coarsening partition p2.
Proof.
  intros fuel g m partition res perms n orig p2 i2 imp tie Hperm AO Hlen Hpart H.
  unfold compute_one_level in H. apply bind_ok in H. destruct H as [s [Hs H]]. inversion H. subst p2 i2 imp tie. clear H.
  unfold compute_one_level_state in Hs.
  apply bind_ok in Hs. destruct Hs as [di [_ Hs]]. apply bind_ok in Hs. destruct Hs as [order [_ Hs]].
  unfold map_node_names_to_hashsets in Hs. fold (gnames g) in Hs.
  rewrite (sort_by_perm_seq (gnames g) n Hperm) in Hs.
  assert (Hinv : SInvS (seq 0 n) (attr_of g) s).
  { eapply (sweeps_SInv (seq 0 n) (attr_of g) (ao_disj _ _ _ AO) g (fun u => eq_refl)); [exact Hs|].
    unfold SInvS. cbn [ls_partition ls_inner ls_node2com]. apply SInv_start; assumption. }
  pose proof (SInv_PIok orig (seq 0 n) (attr_of g) AO _ _ _ Hinv) as HPI.
  split; [exact HPI|]. split; [eapply PIok_level_ok; eassumption|].
  eapply PIok_coarsens; [exact HPI|].
  intros u Hu. apply in_seq in Hu. destruct (nth_error partition u) as [p|] eqn:E.
  - exists p. split; [reflexivity|]. apply (Hpart u p E).
  - apply nth_error_None in E. lia.
Qed.
