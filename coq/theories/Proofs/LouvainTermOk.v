(* C13, deepening (round 2): sweeps, the repeat-until-no-move loop and its termination.
   On a coherent single-edge working graph with non-negative real weights, resolution >= 0 and
   m >= 0:
     - a sweep (one pass over the shuffled nodes, any order) never panics, keeps L1-L3, never
       decreases the potential Phi_m and strictly increases it when at least one node moved;
     - the assignments node -> community visited by consecutive sweeps are pairwise different
       (strictly increasing potential), and they all lie in the finite set of the n^n maps from the
       n nodes to the n community slots; hence (C13_strict_chain_bounded) the loop
       `while nb_moves > 0` stops after at most n^n sweeps: with fuel >= n^n the model's
       compute_one_level returns Ok, never OutOfFuel and never a panic;
     - the potential of the result is at least that of the all-singletons start.
   With m = the total edge weight the potential is Newman's modularity of the level graph. *)
From Coq Require Import String List Bool ZArith Arith QArith Lia Lqa Permutation Setoid Morphisms.
From GV Require Import Base.Outcome Base.AMap Model.GState Model.Creation Model.Query Model.Derived
     Model.Partition Model.Louvain Spec.AGraph Spec.PartitionDef.
From GV Require Import Proofs.AMapOk Proofs.WFDefs Proofs.WFNode Proofs.QueryOk Proofs.DegreeOk
     Proofs.PartitionOk Proofs.LouvainOk Proofs.MoveGainOk Proofs.AggregationOk
     Proofs.LouvainSets Proofs.LouvainStructOk Proofs.LouvainNumOk.
Import ListNotations.

(* ---------------- all maps from k positions into a finite set ---------------- *)
Fixpoint all_lists (A : list nat) (k : nat) : list (list nat) :=
  match k with
  | O => [[]]
  | S k' => flat_map (fun x => map (cons x) (all_lists A k')) A
  end.

Lemma all_lists_In : forall A k l, In l (all_lists A k) <-> length l = k /\ forall x, In x l -> In x A.
Proof.
  intros A k. induction k as [|k IH]; intro l; cbn [all_lists].
  - split.
    + intros [H|[]]. subst l. split; [reflexivity | intros x []].
    + intros [H _]. destruct l; [left; reflexivity | discriminate].
  - rewrite in_flat_map. split.
    + intros [x [Hx Hl]]. apply in_map_iff in Hl. destruct Hl as [t [<- Ht]]. apply IH in Ht. destruct Ht as [Hlen Hall].
      split; [cbn; lia|]. intros y [Hy|Hy]; [subst; exact Hx | apply Hall; exact Hy].
    + intros [Hlen Hall]. destruct l as [|x t]; [discriminate|]. exists x. split; [apply Hall; left; reflexivity|].
      apply in_map. apply IH. split; [cbn in Hlen; lia | intros y Hy; apply Hall; right; exact Hy].
Qed.

Lemma flat_map_length_const : forall {X Y} (f : X -> list Y) (l : list X) c,
  (forall x, In x l -> length (f x) = c) -> length (flat_map f l) = (length l * c)%nat.
Proof.
  intros X Y f l c. induction l as [|x t IH]; intro H; [reflexivity|]. cbn [flat_map length].
  rewrite app_length, (H x (or_introl eq_refl)), IH by (intros y Hy; apply H; right; exact Hy). lia.
Qed.

Lemma all_lists_length : forall A k, length (all_lists A k) = (length A ^ k)%nat.
Proof.
  intros A k. induction k as [|k IH]; [reflexivity|]. cbn [all_lists Nat.pow].
  rewrite (flat_map_length_const _ A (length A ^ k)%nat); [reflexivity|].
  intros x _. rewrite map_length. exact IH.
Qed.

Lemma map_nth_seq : forall {X} (l : list X) d, map (fun c => nth c l d) (seq 0 (length l)) = l.
Proof.
  intros X l d. apply nth_error_ext_eq. intro j. rewrite nth_error_map_seq.
  destruct (Nat.ltb j (length l)) eqn:E.
  - apply Nat.ltb_lt in E. symmetry. apply nth_error_nth'. exact E.
  - apply Nat.ltb_ge in E. symmetry. apply nth_error_None. exact E.
Qed.

Lemma strictly_increasing_cons : forall a b l, a < b -> strictly_increasing (b :: l) -> strictly_increasing (a :: b :: l).
Proof. intros a b l H1 H2. cbn. split; assumption. Qed.

(* the shuffled order only contains nodes of the graph *)
Lemma shuffled_in_names : forall (g : lgraph) perms order,
  get_shuffled_node_names g perms = Ok order -> forall u, In u order -> In u (gnames g).
Proof.
  intros g perms order H u Hu. unfold get_shuffled_node_names in H. fold (gnames g) in H.
  destruct (gnames g) as [|x t] eqn:En; [inversion H; subst; contradiction|].
  apply bind_ok in H. destruct H as [row [_ H]].
  destruct (negb (Nat.eqb (length row) (length (x :: t)))); [discriminate|].
  apply omapM_ok in H. clear En.
  induction H as [|i y rt ot Hiy Hrest IH]; [contradiction|].
  destruct Hu as [Hu|Hu]; [|apply IH; exact Hu]. subst y. apply unwrap_at_ok in Hiy. eapply nth_error_In. exact Hiy.
Qed.

Section Term.
  Variable g : lgraph.
  Hypothesis W : WFn g.
  Hypothesis Hmulti : multi (sp g) = false.
  Hypothesis Hreal : forall e, In e (get_all_edges g) -> exists z, ew e = Some z.
  Variable n : nat.
  Hypothesis Hnames : forall u, In u (names g) <-> In u (seq 0 n).
  Hypothesis Hnn : forall w, In w (wedges g) -> 0 <= ww w.
  Variables m res : Q.
  Hypothesis Hm : 0 <= m.
  Hypothesis Hres : 0 <= res.
  Hypothesis attr_disj : forall u v x, In u (seq 0 n) -> In v (seq 0 n) ->
    In x (attr_of g u) -> In x (attr_of g v) -> u = v.

  Notation es := (wedges g).
  Notation dirg := (directed (sp g)).
  Notation SI := (SInvS (seq 0 n) (attr_of g)).
  Notation NI := (fun s => NInv g n (ls_inner s) (ls_deg s)).
  Notation PhiS := (fun s => Phi g m res dirg (ls_inner s)).
  Notation vis := (visit g m res (successors g) (predecessors g)).

  (* ---- one sweep ---- *)
  Lemma sweep_num : forall order s, (forall u, In u order -> In u (seq 0 n)) -> SI s -> NI s ->
    exists s1, ofold vis order s = Ok s1 /\ SI s1 /\ NI s1 /\
      ((ls_moves s1 = ls_moves s /\ ls_inner s1 = ls_inner s /\ ls_node2com s1 = ls_node2com s /\
        ls_improved s1 = ls_improved s) \/
       ((ls_moves s < ls_moves s1)%nat /\ ls_improved s1 = true /\ 0 < m /\ PhiS s < PhiS s1)).
  Proof.
    induction order as [|u t IH]; intros s Hord HS HN.
    - exists s. split; [reflexivity|]. split; [exact HS|]. split; [exact HN|]. left. repeat split; reflexivity.
    - cbn [ofold].
      destruct (visit_num g W Hmulti Hreal n Hnames Hnn m res Hm Hres attr_disj s u (Hord u (or_introl eq_refl)) HS HN)
        as [s' [Hv [HS' [HN' Hcase]]]].
      rewrite Hv. cbn [bind].
      destruct (IH s' (fun x Hx => Hord x (or_intror Hx)) HS' HN') as [s1 [Hf [HS1 [HN1 Hcase1]]]].
      exists s1. split; [exact Hf|]. split; [exact HS1|]. split; [exact HN1|].
      destruct Hcase as [[M1 [I1 [C1 B1]]]|[M1 [B1 [Hmp [P1 _]]]]]; destruct Hcase1 as [[M2 [I2 [C2 B2]]]|[M2 [B2 [Hmp2 P2]]]].
      + left. repeat split; congruence.
      + right. split; [lia|]. split; [exact B2|]. split; [exact Hmp2|]. rewrite <- I1. exact P2.
      + right. split; [lia|]. split; [congruence|]. split; [exact Hmp|]. rewrite I2. exact P1.
      + right. split; [lia|]. split; [exact B2|]. split; [exact Hmp|]. lra.
  Qed.

  (* ---- the assignment node -> community slot, and the potential as a function of it ---- *)
  Definition cfg_of (n2c : list (nat * nat)) : list nat :=
    map (fun u => match lookup Nat.eqb u n2c with Some c => c | None => 0%nat end) (seq 0 n).
  Definition comm_of (cfg : list nat) (c : nat) : list nat :=
    filter (fun u => Nat.eqb (nth u cfg 0%nat) c) (seq 0 n).
  Definition PhiC (cfg : list nat) : Q :=
    qsum (map (fun c => term_m g m res dirg (comm_of cfg c)) (seq 0 n)).
  Definition universe : list (list nat) := all_lists (seq 0 n) n.

  Lemma universe_length : length universe = (n ^ n)%nat.
  Proof. unfold universe. rewrite all_lists_length, seq_length. reflexivity. Qed.

  Lemma nth_cfg_of : forall n2c u, (u < n)%nat ->
    nth u (cfg_of n2c) 0%nat = match lookup Nat.eqb u n2c with Some c => c | None => 0%nat end.
  Proof.
    intros n2c u Hu. unfold cfg_of.
    assert (H : nth_error (map (fun u0 => match lookup Nat.eqb u0 n2c with Some c => c | None => 0%nat end) (seq 0 n)) u
                = Some (match lookup Nat.eqb u n2c with Some c => c | None => 0%nat end)).
    { rewrite nth_error_map_seq. rewrite (proj2 (Nat.ltb_lt u n) Hu). reflexivity. }
    apply nth_error_nth. exact H.
  Qed.

  Lemma comm_of_inner : forall s c l, SI s -> nth_error (ls_inner s) c = Some l ->
    forall u, In u l <-> In u (comm_of (cfg_of (ls_node2com s)) c).
  Proof.
    intros s c l HS Hc u. unfold comm_of. rewrite filter_In, in_seq, Nat.eqb_eq. split.
    - intro Hu. assert (E : lookup Nat.eqb u (ls_node2com s) = Some c) by (apply (si_L1 _ _ _ _ _ HS); exists l; split; assumption).
      assert (Hlt : In u (seq 0 n)) by (apply (si_dom _ _ _ _ _ HS); rewrite E; discriminate).
      apply in_seq in Hlt. split; [lia|]. rewrite nth_cfg_of by lia. rewrite E. reflexivity.
    - intros [Hlt Hn]. rewrite nth_cfg_of in Hn by lia.
      assert (Hd : lookup Nat.eqb u (ls_node2com s) <> None) by (apply (si_dom _ _ _ _ _ HS); apply in_seq; lia).
      destruct (lookup Nat.eqb u (ls_node2com s)) as [c'|] eqn:E; [|congruence]. subst c'.
      apply (si_L1 _ _ _ _ _ HS) in E. destruct E as [l' [Hl' Hin]]. rewrite Hc in Hl'. inversion Hl'. subst. exact Hin.
  Qed.

  Lemma PhiC_inner : forall s, SI s -> NI s -> PhiC (cfg_of (ls_node2com s)) == PhiS s.
  Proof.
    intros s HS HN. cbn beta. unfold PhiC, Phi.
    pose proof (ni_len _ _ _ _ HN) as Hlen.
    transitivity (qsum (map (term_m g m res dirg) (map (fun c => nth c (ls_inner s) []) (seq 0 n))));
      [|rewrite <- Hlen, map_nth_seq; reflexivity].
    rewrite map_map. apply qsum_ext. intros c Hc. apply term_m_ext. intro x. symmetry.
    apply in_seq in Hc.
    assert (Hnth : nth_error (ls_inner s) c = Some (nth c (ls_inner s) [])) by (apply nth_error_nth'; lia).
    apply (comm_of_inner s c _ HS Hnth).
  Qed.

  Lemma cfg_in_universe : forall s, SI s -> NI s -> In (cfg_of (ls_node2com s)) universe.
  Proof.
    intros s HS HN. unfold universe. apply all_lists_In. split.
    - unfold cfg_of. rewrite map_length, seq_length. reflexivity.
    - intros x Hx. unfold cfg_of in Hx. apply in_map_iff in Hx. destruct Hx as [u [Hx Hu]]. apply in_seq in Hu.
      apply in_seq. destruct (lookup Nat.eqb u (ls_node2com s)) as [c|] eqn:E.
      + subst x. apply (si_L1 _ _ _ _ _ HS) in E. destruct E as [l [Hl _]].
        assert ((c < length (ls_inner s))%nat) by (apply nth_error_Some; congruence).
        rewrite (ni_len _ _ _ _ HN) in H. lia.
      + subst x. lia.
  Qed.

  (* ---- the repeat-until-no-move loop ---- *)
  Definition reset (s : lstate) : lstate :=
    mkls (ls_partition s) (ls_inner s) (ls_node2com s) (ls_deg s) 0 (ls_improved s) (ls_tie s).

  Lemma sweeps_total : forall fuel order s chain,
    (forall u, In u order -> In u (seq 0 n)) -> SI s -> NI s ->
    incl (cfg_of (ls_node2com s) :: chain) universe ->
    strictly_increasing (map (fun c => - PhiC c) (cfg_of (ls_node2com s) :: chain)) ->
    (length universe < fuel + length (cfg_of (ls_node2com s) :: chain))%nat ->
    exists s', sweeps fuel g m res (successors g) (predecessors g) order s = Ok s' /\ SI s' /\ NI s' /\
               PhiS s <= PhiS s' /\ ls_moves s' = 0%nat /\
               (ls_improved s' = ls_improved s \/ ls_improved s' = true).
  Proof.
    induction fuel as [|f IH]; intros order s chain Hord HS HN Hincl Hinc Hfuel.
    - exfalso. pose proof (strict_chain_bounded (fun c => - PhiC c) universe _ Hincl Hinc) as Hb.
      cbn [plus] in Hfuel. lia.
    - cbn [sweeps]. fold (reset s).
      assert (HSr : SI (reset s)) by exact HS. assert (HNr : NI (reset s)) by exact HN.
      destruct (sweep_num order (reset s) Hord HSr HNr) as [s1 [Hf [HS1 [HN1 Hcase]]]].
      rewrite Hf. cbn [bind]. cbn [reset ls_moves ls_inner ls_node2com ls_improved] in Hcase.
      destruct Hcase as [[M1 [I1 [C1 B1]]]|[M1 [B1 [Hmp P1]]]].
      + rewrite M1. cbn [Nat.eqb]. exists s1. split; [reflexivity|]. split; [exact HS1|]. split; [exact HN1|].
        split; [cbn beta; rewrite I1; apply Qle_refl|]. split; [exact M1|]. left. exact B1.
      + destruct (Nat.eqb (ls_moves s1) 0) eqn:E0; [apply Nat.eqb_eq in E0; lia|].
        destruct (IH order s1 (cfg_of (ls_node2com s) :: chain) Hord HS1 HN1) as [s' [Hs' [HS' [HN' [HP [HM HB]]]]]].
        * intros x [Hx|Hx]; [subst x; apply cfg_in_universe; assumption | apply Hincl; exact Hx].
        * cbn [map]. apply strictly_increasing_cons; [|exact Hinc].
          rewrite (PhiC_inner s1 HS1 HN1), (PhiC_inner s HS HN). cbn beta in P1 |- *. lra.
        * cbn [length] in Hfuel |- *. lia.
        * exists s'. split; [exact Hs'|]. split; [exact HS'|]. split; [exact HN'|].
          split; [cbn beta in P1, HP |- *; lra|]. split; [exact HM|]. right. destruct HB as [HB|HB]; congruence.
  Qed.

  (* ---- the start state: L3 holds for the singletons ---- *)
  Definition singletons : list (list nat) := map (fun k => [k]) (seq 0 n).

  Lemma tracks_start : forall (F : list nat -> Q) (dg : list (nat * Q)),
    (forall u, In u (names g) -> exists q, lookup Nat.eqb u dg = Some q /\ q == F [u]) ->
    exists v, omapM (fun i => unwrap_at "x" (lookup Nat.eqb i dg)) (seq 0 n) = Ok v /\ tracks F v singletons.
  Proof.
    intros F dg H.
    set (h := fun i => match lookup Nat.eqb i dg with Some q => q | None => 0 end).
    exists (map h (seq 0 n)). split.
    - apply omapM_map. intros i Hi. apply Hnames in Hi. destruct (H i Hi) as [q [E _]]. unfold h. rewrite E. reflexivity.
    - split; [unfold singletons; rewrite !map_length; reflexivity|].
      intros c st l Hc Hl. unfold singletons in Hl. rewrite nth_error_map_seq in Hc. rewrite nth_error_map_seq in Hl.
      destruct (Nat.ltb c n) eqn:E; [|discriminate]. inversion Hc. inversion Hl. subst st l.
      apply Nat.ltb_lt in E. assert (Hi : In c (names g)) by (apply Hnames; apply in_seq; lia).
      destruct (H c Hi) as [q [Eq Hq]]. unfold h. rewrite Eq. exact Hq.
  Qed.

  Lemma omapM_site_irrelevant : forall (dg : list (nat * Q)) s1 s2 l v,
    omapM (fun i => unwrap_at s1 (lookup Nat.eqb i dg)) l = Ok v ->
    omapM (fun i => unwrap_at s2 (lookup Nat.eqb i dg)) l = Ok v.
  Proof.
    intros dg s1 s2 l. induction l as [|x t IH]; intros v H; cbn [omapM] in *; [exact H|].
    apply bind_ok in H. destruct H as [y [Hy H]]. apply bind_ok in H. destruct H as [ys [Hys H]].
    apply unwrap_at_ok in Hy. rewrite Hy. cbn [unwrap_at bind]. rewrite (IH ys Hys). exact H.
  Qed.

  Lemma degree_info_start : forall partition, length partition = n ->
    exists di, get_degree_information g partition = Ok di /\ NInv g n singletons di.
  Proof.
    intros partition Hlen. unfold get_degree_information. rewrite Hlen. destruct dirg eqn:Hd.
    - destruct (degrees_directed g W Hreal Hd) as [ind [outd [H1 [H2 [Hin Hout]]]]].
      apply bind_ok in H1. destruct H1 as [i0 [Hi0 Hwi]]. apply bind_ok in H2. destruct H2 as [o0 [Ho0 Hwo]].
      rewrite Hi0. cbn [bind]. rewrite Ho0. cbn [bind]. rewrite Hwi. cbn [bind]. rewrite Hwo. cbn [bind].
      destruct (tracks_start (Kin_of Nat.eqb es) ind Hin) as [vi [Evi Ti]].
      destruct (tracks_start (Kout_of Nat.eqb es) outd Hout) as [vo [Evo To]].
      rewrite (omapM_site_irrelevant ind "x" "louvain.rs:stot_in unwrap" _ _ Evi). cbn [bind].
      rewrite (omapM_site_irrelevant outd "x" "louvain.rs:stot_out unwrap" _ _ Evo). cbn [bind].
      eexists. split; [reflexivity|]. constructor; cbn [degrees stot in_degrees out_degrees stot_in stot_out].
      + unfold singletons. rewrite map_length, seq_length. reflexivity.
      + intro HH. congruence.
      + intros _. split; [exact Hin|]. split; [exact Hout|]. split; assumption.
    - destruct (degrees_undirected g W Hreal) as [dg [H1 Hdeg]].
      apply bind_ok in H1. destruct H1 as [d0 [Hd0 Hwd]]. rewrite Hd0. cbn [bind]. rewrite Hwd. cbn [bind].
      destruct (tracks_start (K_of Nat.eqb es) dg Hdeg) as [vs [Evs Ts]].
      rewrite (omapM_site_irrelevant dg "x" "louvain.rs:stot unwrap" _ _ Evs). cbn [bind].
      eexists. split; [reflexivity|]. constructor; cbn [degrees stot in_degrees out_degrees stot_in stot_out].
      + unfold singletons. rewrite map_length, seq_length. reflexivity.
      + intros _. split; assumption.
      + intro HH. congruence.
  Qed.

  Lemma names_perm : Permutation (gnames g) (seq 0 n).
  Proof. apply NoDup_Permutation; [apply (wf_nodup _ _ _ W) | apply seq_NoDup | exact Hnames]. Qed.

  (* ---- compute_one_level: total with fuel >= n^n; L1-L3 hold of its final state; the potential
          of the final inner partition is at least that of the singletons ---- *)
  Theorem compute_one_level_state_total : forall fuel partition perms order,
    length partition = n ->
    (forall c p, nth_error partition c = Some p -> NoDup p /\ forall x, In x p <-> In x (attr_of g c)) ->
    get_shuffled_node_names g perms = Ok order ->
    (n ^ n <= fuel)%nat ->
    exists s, compute_one_level_state fuel g m partition res perms = Ok s /\ SI s /\ NI s /\
              Phi g m res dirg singletons <= PhiS s /\ ls_moves s = 0%nat.
  Proof.
    intros fuel partition perms order Hlen Hpart Hshuf Hfuel. unfold compute_one_level_state.
    destruct (degree_info_start partition Hlen) as [di [Hdi HNI]]. rewrite Hdi. cbn [bind].
    rewrite Hshuf. cbn [bind]. unfold map_node_names_to_hashsets. fold (gnames g).
    rewrite (sort_by_perm_seq (gnames g) n names_perm).
    set (s0 := mkls partition (map (fun k => [k]) (seq 0 n)) (map (fun k => (k, k)) (seq 0 n)) di 1 false false).
    assert (HS0 : SI s0) by (unfold SInvS, s0; cbn [ls_partition ls_inner ls_node2com]; apply SInv_start; assumption).
    assert (HN0 : NI s0) by exact HNI.
    destruct (sweeps_total fuel order s0 []) as [s [Hs [HS [HN [HP [HM _]]]]]]; try assumption.
    - intros u Hu. apply Hnames. apply (shuffled_in_names g perms order Hshuf u Hu).
    - intros x [Hx|[]]. subst x. apply cfg_in_universe; assumption.
    - cbn. exact I.
    - rewrite universe_length. cbn [length]. lia.
    - exists s. split; [exact Hs|]. split; [exact HS|]. split; [exact HN|]. split; [exact HP | exact HM].
  Qed.

  (* whatever the fuel: if the loop returns, the invariants hold of its final state *)
  Lemma sweeps_inv : forall fuel order s s',
    (forall u, In u order -> In u (seq 0 n)) -> SI s -> NI s ->
    sweeps fuel g m res (successors g) (predecessors g) order s = Ok s' ->
    SI s' /\ NI s' /\ PhiS s <= PhiS s'.
  Proof.
    induction fuel as [|f IH]; intros order s s' Hord HS HN H; cbn [sweeps] in H; [discriminate|].
    fold (reset s) in H.
    assert (HSr : SI (reset s)) by exact HS. assert (HNr : NI (reset s)) by exact HN.
    destruct (sweep_num order (reset s) Hord HSr HNr) as [s1 [Hf [HS1 [HN1 Hcase]]]].
    rewrite Hf in H. cbn [bind] in H. cbn [reset ls_moves ls_inner ls_node2com ls_improved] in Hcase.
    assert (HP1 : PhiS s <= PhiS s1).
    { destruct Hcase as [[_ [I1 _]]|[_ [_ [_ P1]]]]; cbn beta in *; [rewrite I1; apply Qle_refl | lra]. }
    destruct (Nat.eqb (ls_moves s1) 0).
    - inversion H. subst s'. split; [exact HS1|]. split; [exact HN1 | exact HP1].
    - destruct (IH order s1 s' Hord HS1 HN1 H) as [HS' [HN' HP']]. split; [exact HS'|]. split; [exact HN'|].
      cbn beta in *. lra.
  Qed.

  Theorem compute_one_level_state_inv : forall fuel partition perms s,
    length partition = n ->
    (forall c p, nth_error partition c = Some p -> NoDup p /\ forall x, In x p <-> In x (attr_of g c)) ->
    compute_one_level_state fuel g m partition res perms = Ok s ->
    SI s /\ NI s /\ Phi g m res dirg singletons <= PhiS s.
  Proof.
    intros fuel partition perms s Hlen Hpart H. unfold compute_one_level_state in H.
    destruct (degree_info_start partition Hlen) as [di [Hdi HNI]]. rewrite Hdi in H. cbn [bind] in H.
    apply bind_ok in H. destruct H as [order [Hshuf H]].
    unfold map_node_names_to_hashsets in H. fold (gnames g) in H.
    rewrite (sort_by_perm_seq (gnames g) n names_perm) in H.
    apply (sweeps_inv fuel order _ s) in H.
    - exact H.
    - intros u Hu. apply Hnames. apply (shuffled_in_names g perms order Hshuf u Hu).
    - unfold SInvS. cbn [ls_partition ls_inner ls_node2com]. apply SInv_start; assumption.
    - exact HNI.
  Qed.

  (* ---- an improving phase leaves an empty community slot: the next level has fewer nodes ---- *)
  Definition EInv (s : lstate) : Prop :=
    (ls_improved s = false /\ ls_inner s = singletons /\ ls_node2com s = map (fun k => (k, k)) (seq 0 n)) \/
    (ls_improved s = true /\ exists c, nth_error (ls_inner s) c = Some []).

  Lemma visit_E : forall s u s', In u (seq 0 n) -> SI s -> NI s -> EInv s -> vis s u = Ok s' ->
    SI s' /\ NI s' /\ EInv s'.
  Proof.
    intros s u s' Hu HS HN HE Hv.
    destruct (visit_num g W Hmulti Hreal n Hnames Hnn m res Hm Hres attr_disj s u Hu HS HN)
      as [s2 [Hv2 [HS2 [HN2 Hcase]]]].
    rewrite Hv in Hv2. inversion Hv2. subst s2. split; [exact HS2|]. split; [exact HN2|].
    destruct Hcase as [[_ [I1 [C1 B1]]]|[_ [B1 [_ [_ [own [bc [iO [C [v [Hown [Hne [HO [HC [Hv' HN']]]]]]]]]]]]]]].
    - destruct HE as [[E1 [E2 E3]]|[E1 E2]]; [left | right]; rewrite ?B1, ?I1, ?C1; auto.
    - right. split; [exact B1|]. destruct HE as [[E1 [E2 E3]]|[E1 [c0 Hc0]]].
      + exists own. rewrite HN'. rewrite (proj2 (Nat.eqb_neq own bc)) by congruence. rewrite Nat.eqb_refl.
        rewrite E3, lookup_map_diag in Hown. destruct (mem Nat.eqb u (seq 0 n)); [|discriminate].
        inversion Hown. subst own. rewrite E2 in HO. unfold singletons in HO. rewrite nth_error_map_seq in HO.
        destruct (Nat.ltb u n); [|discriminate]. inversion HO. subst iO. cbn. rewrite Nat.eqb_refl. reflexivity.
      + exists c0. rewrite HN'.
        assert (Hb : c0 <> bc) by (intro E; subst c0; rewrite HC in Hc0; inversion Hc0; subst C; contradiction).
        assert (Ho : c0 <> own).
        { intro E. subst c0. rewrite HO in Hc0. inversion Hc0. subst iO.
          apply (si_L1 _ _ _ _ _ HS) in Hown. destruct Hown as [l [Hl Hin]]. rewrite HO in Hl. inversion Hl. subst l. contradiction. }
        rewrite (proj2 (Nat.eqb_neq c0 bc) Hb), (proj2 (Nat.eqb_neq c0 own) Ho). exact Hc0.
  Qed.

  Lemma sweep_E : forall order s s', (forall u, In u order -> In u (seq 0 n)) -> SI s -> NI s -> EInv s ->
    ofold vis order s = Ok s' -> SI s' /\ NI s' /\ EInv s'.
  Proof.
    induction order as [|u t IH]; intros s s' Hord HS HN HE H; cbn [ofold] in H.
    - inversion H. subst. auto.
    - apply bind_ok in H. destruct H as [s1 [H1 H]].
      destruct (visit_E s u s1 (Hord u (or_introl eq_refl)) HS HN HE H1) as [HS1 [HN1 HE1]].
      apply (IH s1 s' (fun x Hx => Hord x (or_intror Hx)) HS1 HN1 HE1 H).
  Qed.

  Lemma sweeps_E : forall fuel order s s', (forall u, In u order -> In u (seq 0 n)) -> SI s -> NI s -> EInv s ->
    sweeps fuel g m res (successors g) (predecessors g) order s = Ok s' -> EInv s'.
  Proof.
    induction fuel as [|f IH]; intros order s s' Hord HS HN HE H; cbn [sweeps] in H; [discriminate|].
    apply bind_ok in H. destruct H as [s1 [H1 H]]. fold (reset s) in H1.
    assert (HSr : SI (reset s)) by exact HS. assert (HNr : NI (reset s)) by exact HN.
    assert (HEr : EInv (reset s)) by exact HE.
    destruct (sweep_E order (reset s) s1 Hord HSr HNr HEr H1) as [HS1 [HN1 HE1]].
    destruct (Nat.eqb (ls_moves s1) 0); [inversion H; subst; exact HE1|].
    apply (IH order s1 s' Hord HS1 HN1 HE1 H).
  Qed.

  Lemma filter_len_le : forall {X} (p : X -> bool) l, (length (filter p l) <= length l)%nat.
  Proof. intros X p l. induction l as [|x t IH]; cbn; [lia|]. destruct (p x); cbn; lia. Qed.

  Lemma filter_nonempty_shorter : forall (I : list (list nat)) c, nth_error I c = Some [] ->
    (length (filter nonempty I) < length I)%nat.
  Proof.
    induction I as [|x t IH]; intros c Hc; [destruct c; discriminate|]. destruct c as [|c]; cbn in Hc.
    - inversion Hc. subst x. cbn [filter nonempty length]. pose proof (filter_len_le nonempty t). lia.
    - cbn [filter length]. specialize (IH c Hc). destruct (nonempty x); cbn [length]; lia.
  Qed.

  Theorem compute_one_level_shrinks : forall fuel partition perms p2 i2 tie,
    length partition = n ->
    (forall c p, nth_error partition c = Some p -> NoDup p /\ forall x, In x p <-> In x (attr_of g c)) ->
    compute_one_level fuel g m partition res perms = Ok (p2, i2, true, tie) ->
    (length i2 < n)%nat.
  Proof.
    intros fuel partition perms p2 i2 tie Hlen Hpart H. unfold compute_one_level in H.
    apply bind_ok in H. destruct H as [s [Hs H]]. inversion H as [[E1 E2 E3 E4]]. clear H.
    destruct (compute_one_level_state_inv fuel partition perms s Hlen Hpart Hs) as [_ [HN _]].
    unfold compute_one_level_state in Hs.
    destruct (degree_info_start partition Hlen) as [di [Hdi HNI]]. rewrite Hdi in Hs. cbn [bind] in Hs.
    apply bind_ok in Hs. destruct Hs as [order [Hshuf Hs]].
    unfold map_node_names_to_hashsets in Hs. fold (gnames g) in Hs.
    rewrite (sort_by_perm_seq (gnames g) n names_perm) in Hs.
    apply sweeps_E in Hs.
    - destruct Hs as [[Hf _]|[_ [c Hc]]]; [congruence|].
      rewrite <- (ni_len _ _ _ _ HN). apply (filter_nonempty_shorter _ c Hc).
    - intros u Hu. apply Hnames. apply (shuffled_in_names g perms order Hshuf u Hu).
    - unfold SInvS. cbn [ls_partition ls_inner ls_node2com]. apply SInv_start; assumption.
    - exact HNI.
    - left. cbn [ls_improved ls_inner ls_node2com]. repeat split; reflexivity.
  Qed.
End Term.
