(* C20 / C13: the Louvain model reaches NO Panic site.  The C13 development proves what a returned
   value is and that the fuel suffices; every structural lemma there starts from "the step returned
   Ok".  This file proves that each step DOES return Ok on the states the invariants describe:
   generate_graph (get_node / node2com unwraps, add_node, get_edge, add_edge), modularity on a level
   graph, size, the level loop, convert_graph (to_single_edges / set_all_edge_weights / node_map
   unwraps, the constructor's Result), convert_back.  The one hypothesis that is not about the graph
   is on the model's shuffle oracle [perms] (the table standing for the seeded `shuffle`): it has,
   for every node count k that can occur, a row of k indexes below k. *)
From Coq Require Import String List Bool ZArith Arith Lia Permutation QArith.
From GV Require Import Base.Outcome Base.AMap Model.GState Model.Creation Model.Query Model.Derived
     Model.Partition Model.Louvain Spec.AGraph Spec.PartitionDef Spec.History
     Proofs.AMapOk Proofs.WFDefs Proofs.WFNode Proofs.Refine Proofs.CreationNodes Proofs.QueryOk
     Proofs.AdjOk Proofs.DerivedContent Proofs.HistoryOk Proofs.DegreeOk Proofs.QueryTotal
     Proofs.LouvainOk Proofs.MoveGainOk Proofs.LouvainSets Proofs.LouvainStructOk
     Proofs.PartitionOk Proofs.AggregationOk Proofs.LouvainGenGraphOk.
Import ListNotations.
Open Scope list_scope.
Open Scope nat_scope.

Lemma ofold_total_inv : forall {S X} (Inv : S -> Prop) (f : S -> X -> outcome S) (l : list X) (P : X -> Prop),
  (forall s x, Inv s -> P x -> exists s', f s x = Ok s' /\ Inv s') ->
  (forall x, In x l -> P x) ->
  forall s, Inv s -> exists s', ofold f l s = Ok s' /\ Inv s'.
Proof.
  intros S X Inv f l P Hstep. induction l as [|x t IH]; intros HP s Hs; cbn [ofold]; [eauto|].
  destruct (Hstep s x Hs (HP x (or_introl eq_refl))) as (s1 & -> & Hs1). cbn [bind].
  apply IH; [intros y Hy; apply HP; right; exact Hy | exact Hs1].
Qed.

(* ---------------------------------------------------------------- generate_graph *)
Section GenGraphTotal.
  Variable g : lgraph.
  Hypothesis W : WFn g.

  Lemma gg_inner_total i nd acc : In nd (namesn g) -> exists r, gg_inner g i acc nd = Ok r.
  Proof.
    intros Hnd. destruct acc as [n2c nodes]. unfold gg_inner.
    rewrite (get_node_spec Nat.eqb Nat.ltb neqb_spec g nd W). cbn [unwrap_res bind].
    destruct (find (fun n : lnode => Nat.eqb (nname n) nd) (nodes_vec g)) as [nobj|] eqn:Ef.
    - cbn [unwrap_at bind]. eauto.
    - exfalso. exact (find_in_names Nat.eqb neqb_spec g nd Hnd Ef).
  Qed.

  Lemma gg_inner_fold_total i part : (forall u, In u part -> In u (namesn g)) ->
    forall acc, exists r, ofold (gg_inner g i) part acc = Ok r.
  Proof.
    intros Hp acc.
    destruct (ofold_total_inv (fun _ => True) (gg_inner g i) part (fun u => In u (namesn g))) with (s := acc)
      as (r & Hr & _); [|exact Hp|exact I|eauto].
    intros s x _ Hx. destruct (gg_inner_total i x s Hx) as (r & Hr). eauto.
  Qed.

  Lemma gg_outer_total pre ng n2c part :
    P1 g pre ng n2c -> (forall u, In u part -> In u (namesn g)) ->
    exists r, gg_outer g (ng, n2c) (part, length pre) = Ok r.
  Proof.
    intros HP Hpart. unfold gg_outer.
    destruct (gg_inner_fold_total (length pre) part Hpart (n2c, [])) as ((n2c' & nodes) & ->). cbn [bind].
    assert (Hfresh : ~ In (nname (mknode (length pre) (Some nodes))) (namesn ng)).
    { rewrite (p1_names _ _ _ _ HP). cbn [nname]. rewrite in_seq. lia. }
    destruct (WFNode.add_node_fresh Nat.eqb Nat.ltb neqb_spec ng _ (p1_wf _ _ _ _ HP) Hfresh) as (g' & -> & _).
    cbn [bind]. eauto.
  Qed.

  Lemma gg_outer_fold_total : forall rest pre ng n2c,
    P1 g pre ng n2c -> (forall l u, In l rest -> In u l -> In u (namesn g)) ->
    exists ng' n2c', ofold (gg_outer g) (enumerate_from (length pre) rest) (ng, n2c) = Ok (ng', n2c') /\
                     P1 g (pre ++ rest) ng' n2c'.
  Proof.
    induction rest as [|part t IH]; intros pre ng n2c HP Hr; cbn [enumerate_from ofold].
    - exists ng, n2c. split; [reflexivity|]. rewrite app_nil_r. exact HP.
    - destruct (gg_outer_total pre ng n2c part HP (fun u Hu => Hr part u (or_introl eq_refl) Hu)) as ((ng1 & n2c1) & H1).
      rewrite H1. cbn [bind].
      pose proof (gg_outer_step g pre ng n2c part ng1 n2c1 HP H1) as HP1.
      destruct (IH (pre ++ [part]) ng1 n2c1 HP1 (fun l u Hl Hu => Hr l u (or_intror Hl) Hu)) as (ng' & n2c' & H2 & HP2).
      rewrite app_length in H2. cbn [length] in H2. rewrite Nat.add_1_r in H2.
      exists ng', n2c'. split; [exact H2|]. rewrite <- app_assoc in HP2. exact HP2.
  Qed.

  (* phase 2: one edge.  The new graph allows self-loops and keeps the last of two edges on a
     pair, so add_edge cannot refuse an edge between two existing nodes *)
  Lemma gg_edge_total n2c (ng : lgraph) (e : ledge) :
    WFn ng -> selfloops (sp ng) = true -> dd (sp ng) = DKeepLast ->
    (forall u c, lookup Nat.eqb u n2c = Some c -> In c (namesn ng)) ->
    (exists c, lookup Nat.eqb (eu e) n2c = Some c) -> (exists c, lookup Nat.eqb (ev e) n2c = Some c) ->
    exists ng', gg_edge n2c ng e = Ok ng'.
  Proof.
    intros Wn Hsl Hdd Hn2c (c1 & H1) (c2 & H2). unfold gg_edge. rewrite H1, H2. cbn [unwrap_at bind].
    pose proof (get_edge_total Nat.eqb Nat.ltb neqb_spec nltb_asym nltb_total ng c1 c2 Wn) as Hge.
    set (old := match get_edge Nat.eqb ng c1 c2 with
                | Ok x => Ok (ew x) | Err _ => Ok (Some 0%Z) | Panic st => Panic st | OutOfFuel => OutOfFuel end).
    assert (Hold : exists o, old = Ok o).
    { unfold old. destruct (get_edge Nat.eqb ng c1 c2); try discriminate; eauto. }
    destruct Hold as (o & ->). cbn [bind].
    set (e' := mkedge c1 c2 (wadd (ew e) o) (None : option (list nat))).
    pose proof (add_edge_refines Nat.eqb Nat.ltb neqb_spec nltb_asym nltb_total ng e' Wn) as (_ & Hout & _).
    rewrite spec_add_edge_known in Hout.
    - cbn [snd] in Hout. destruct (add_edge Nat.eqb Nat.ltb ng e') as [ng' r]. cbn [snd] in Hout. subst r. eauto.
    - apply (a_has_names Nat.eqb neqb_spec). cbn [e' eu]. exact (Hn2c _ _ H1).
    - apply (a_has_names Nat.eqb neqb_spec). cbn [e' ev]. exact (Hn2c _ _ H2).
    - exact Hsl.
    - exact Hdd.
  Qed.

  Theorem generate_graph_total (I : list (list nat)) :
    (forall l u, In l I -> In u l -> In u (namesn g)) ->
    (forall u, In u (namesn g) -> exists l, In l I /\ In u l) ->
    exists g2, generate_graph g I = Ok g2.
  Proof.
    intros Hin Hcov. rewrite generate_graph_unfold.
    destruct (gg_outer_fold_total I [] (new (gg_specs (sp g))) [] (P1_start g) Hin) as (ng0 & n2c & H1 & HP).
    cbn [length app] in H1, HP. rewrite H1. cbn [bind].
    assert (Hlk : forall u, In u (namesn g) -> exists c, lookup Nat.eqb u n2c = Some c).
    { intros u Hu. destruct (Hcov u Hu) as (l & Hl & Hul). apply In_nth_error in Hl. destruct Hl as (i & Hi).
      exact (p1_n2c_b _ _ _ _ HP u i l Hi Hul). }
    destruct (ofold_total_inv
                (fun ng : lgraph => WFn ng /\ sp ng = sp ng0 /\ nodes_vec ng = nodes_vec ng0)
                (gg_edge n2c) (sort_by edge_ltb (get_all_edges g))
                (fun e : ledge => In e (get_all_edges g))) with (s := ng0) as (g2 & Hg2 & _).
    - intros ng e (Wn & Hsp & Hvec) He.
      assert (Hn : forall u c, lookup Nat.eqb u n2c = Some c -> In c (namesn ng)).
      { intros u c Hc. unfold names. rewrite Hvec. exact (P1_n2c_names _ _ _ _ HP u c Hc). }
      destruct (endpoints_in_names Nat.eqb Nat.ltb neqb_spec g e W He) as (Iu & Iv).
      destruct (gg_edge_total n2c ng e Wn) as (ng' & Hstep).
      + rewrite Hsp, (p1_sp _ _ _ _ HP). reflexivity.
      + rewrite Hsp, (p1_sp _ _ _ _ HP). reflexivity.
      + exact Hn.
      + exact (Hlk _ Iu).
      + exact (Hlk _ Iv).
      + exists ng'. split; [exact Hstep|].
        destruct (gg_edge_step n2c ng e ng' Wn Hn Hstep) as (_ & _ & _ & _ & _ & _ & _ & W1 & Hsp1 & Hvec1).
        split; [exact W1|]. split; congruence.
    - intros e He. apply (Permutation_in _ (sort_by_permutation edge_ltb (get_all_edges g))). exact He.
    - split; [exact (p1_wf _ _ _ _ HP)|]. split; reflexivity.
    - eauto.
  Qed.
End GenGraphTotal.

(* ---------------------------------------------------------------- the shuffle oracle *)
(* [perms] stands for the seeded `shuffle` of the node list: row k-1 is the permutation applied to
   a list of k nodes.  Well formed up to N: for 1 <= k <= N there is a row of k indexes below k. *)
Definition shuffle_ok (perms : list (list nat)) (N : nat) : Prop :=
  forall k, 1 <= k <= N ->
  exists row, nth_error perms (k - 1) = Some row /\ length row = k /\ forall i, In i row -> i < k.

Lemma omapM_total_l : forall {X Y} (f : X -> outcome Y) l,
  (forall x, In x l -> exists y, f x = Ok y) -> exists r, omapM f l = Ok r.
Proof.
  intros X Y f. induction l as [ | x t IH ]; intros H; [eexists; reflexivity | ]. cbn [omapM].
  destruct (H x (or_introl eq_refl)) as (y & Hy). rewrite Hy. cbn [bind].
  destruct (IH (fun z Hz => H z (or_intror Hz))) as (r & Hr). rewrite Hr. cbn [bind]. eauto.
Qed.

Lemma shuffled_total (g : lgraph) perms N :
  shuffle_ok perms N -> length (get_all_nodes g) <= N ->
  exists order, get_shuffled_node_names g perms = Ok order.
Proof.
  intros Hs Hn. unfold get_shuffled_node_names.
  remember (map nname (get_all_nodes g)) as nm eqn:E.
  assert (Hl : length nm <= N) by (subst nm; rewrite map_length; exact Hn).
  destruct nm as [|x t]; [eauto|]. cbv zeta.
  destruct (Hs (length (x :: t))) as (row & Hrow & Hlen & Hlt); [cbn [length] in *; lia|].
  rewrite Hrow. cbn [unwrap_at bind]. rewrite Hlen, Nat.eqb_refl. cbn [negb].
  apply omapM_total_l. intros i Hi. specialize (Hlt i Hi).
  destruct (nth_error (x :: t) i) as [y|] eqn:Ey; [cbn; eauto|]. apply nth_error_None in Ey. lia.
Qed.

(* ---------------------------------------------------------------- modularity on a level graph *)
From GV Require Import Proofs.LouvainNumOk Proofs.LouvainTermOk Proofs.LouvainLevelOk Proofs.LouvainAggOk
     Proofs.LouvainConvertOk Proofs.LouvainLevelsOk Proofs.LouvainNoFuelOk Proofs.LouvainModelOk Proofs.TotalAll.

Lemma level_modularity_ok (gk : lgraph) nk (I : list (list nat)) weighted res :
  LevelGraph gk nk ->
  Forall (@NoDup nat) I ->
  (forall u, In u (seq 0 nk) <-> exists l, In l I /\ In u l) ->
  ForallOrdPairs (fun a b => forall x, In x a -> ~ In x b) I ->
  exists q, modularity Nat.eqb Nat.ltb gk I weighted res = Ok q.
Proof.
  intros LG Hnd Hcov Hdis.
  pose proof (total_modularity Nat.eqb Nat.ltb neqb_spec nltb_total gk I weighted res (lg_wf gk nk LG)) as H.
  assert (Hip : is_partition_model Nat.eqb (get_all_node_names gk) I = true).
  { apply (is_partition_model_correct Nat.eqb neqb_spec).
    - exact (wf_nodup _ _ _ (lg_wf gk nk LG)).
    - exact Hnd.
    - split; [exact Hdis|]. split.
      + intros c x Hc Hx. apply (LG_names gk nk LG). apply Hcov. exists c. split; assumption.
      + intros x Hx. apply (LG_names gk nk LG) in Hx. apply Hcov in Hx. exact Hx. }
  rewrite Hip in H. apply H. intros _ e z He Hz.
  destruct (lg_real gk nk LG e He) as (z' & Hz' & Hpos). congruence.
Qed.

Lemma PIok_modularity_ok (gk : lgraph) nk P I weighted res :
  LevelGraph gk nk -> PIok (seq 0 nk) (attr_of gk) P I ->
  exists q, modularity Nat.eqb Nat.ltb gk I weighted res = Ok q.
Proof.
  intros LG HPI. apply (level_modularity_ok gk nk I weighted res LG).
  - pose proof (pi_al _ _ _ _ HPI) as Hal. clear -Hal. induction Hal as [|p l P' I' Hpl _ IH]; constructor; [|exact IH].
    destruct Hpl as (_ & Hl & _). exact Hl.
  - exact (pi_cover _ _ _ _ HPI).
  - exact (pi_disj _ _ _ _ HPI).
Qed.

Lemma singletons_modularity_ok (gk : lgraph) nk weighted res :
  LevelGraph gk nk ->
  exists q, modularity Nat.eqb Nat.ltb gk (map (fun k => [k]) (seq 0 nk)) weighted res = Ok q.
Proof.
  intros LG. apply (level_modularity_ok gk nk _ weighted res LG).
  - apply Forall_forall. intros l Hl. apply in_map_iff in Hl. destruct Hl as (k & <- & _).
    constructor; [intros []|constructor].
  - intros u. split.
    + intros Hu. exists [u]. split; [apply in_map_iff; exists u; split; [reflexivity|exact Hu]|left; reflexivity].
    + intros (l & Hl & Hu). apply in_map_iff in Hl. destruct Hl as (k & <- & Hk). destruct Hu as [<-|[]]. exact Hk.
  - generalize (seq_NoDup nk 0). generalize (seq 0 nk). induction l as [|k t IH]; intros Hnd; cbn [map]; [constructor|].
    inversion Hnd as [|? ? Hni Hnd']. subst. constructor; [|apply IH; exact Hnd'].
    apply Forall_forall. intros b Hb x [<-|[]] Hx. apply in_map_iff in Hb. destruct Hb as (j & <- & Hj).
    destruct Hx as [<-|[]]. exact (Hni Hj).
Qed.

(* ---------------------------------------------------------------- the level loop *)
Section LoopTotal.
  Open Scope Q_scope.
  Variable es0 : list wedgeN.
  Variable dir0 : bool.
  Variable orig : list nat.
  Variables m res : Q.
  Hypothesis Hm0 : m == total_w es0.
  Hypothesis Hmpos : 0 <= m.
  Hypothesis Hres : 0 <= res.

  (* the local-moving phase on the aggregated graph returns *)
  Lemma phase_total : forall gk nk partition inner g2 sf perms N,
    LInv es0 dir0 orig gk nk partition inner ->
    generate_graph gk inner = Ok g2 ->
    (length inner <= N)%nat -> (N ^ N <= sf)%nat -> shuffle_ok perms N ->
    exists p2 i2 imp tie2, compute_one_level sf g2 m partition res perms = Ok (p2, i2, imp, tie2).
  Proof.
    intros gk nk partition inner g2 sf perms N HL Hg2 HN Hsf Hsh.
    pose proof HL as [LG Hd HF AO HPI].
    destruct (generate_graph_struct gk inner g2 Hg2) as [W2 [Hn2 [Hsp2 Hat2]]].
    pose proof (pi_al _ _ _ _ HPI) as Hal.
    assert (Hlen : length partition = length inner) by (eapply F2_length; exact Hal).
    assert (Hlv : level_ok orig partition) by (eapply PIok_level_ok; eassumption).
    assert (Hpa : forall c p, nth_error partition c = Some p ->
                NoDup p /\ NoDup (attr_of g2 c) /\ forall x, In x p <-> In x (attr_of g2 c)).
    { intros c p Hp. destruct (nth_error inner c) as [l|] eqn:El.
      - destruct (Forall2_nth_inv _ _ _ Hal c p l Hp El) as [Hndp [_ [_ Hpx]]].
        destruct (Hat2 c l El) as [Hnda Hax]. split; [exact Hndp|]. split; [exact Hnda|].
        intro x. rewrite Hpx, Hax. reflexivity.
      - apply nth_error_None in El. assert ((c < length partition)%nat) by (apply nth_error_Some; congruence). lia. }
    assert (AO2 : AttrOk orig (seq 0 (length inner)) (attr_of g2)).
    { apply (AttrOk_of_level orig partition); [exact Hlv | exact Hlen |].
      intros i p Hp. destruct (Hpa i p Hp) as [_ [Hnd Hx]]. split; [exact Hnd|]. intro x. symmetry. apply Hx. }
    assert (LG2 : LevelGraph g2 (length inner)).
    { constructor.
      - exact W2.
      - rewrite Hsp2. cbn [multi]. apply (lg_single gk nk LG).
      - rewrite Hn2. apply Permutation_refl.
      - apply (generate_graph_weights gk inner g2 (lg_wf gk nk LG) Hg2). apply (lg_real gk nk LG).
      - apply (ao_disj _ _ _ AO2). }
    destruct (shuffled_total g2 perms N Hsh) as (order & Hord).
    { change (length (get_all_nodes g2)) with (length (nodes_vec g2)).
      rewrite <- (map_length nname (nodes_vec g2)). change (map nname (nodes_vec g2)) with (gnames g2).
      rewrite Hn2, seq_length. exact HN. }
    destruct (level_total g2 (length inner) LG2 m res Hmpos Hres sf partition perms order Hlen) as [p2 [i2 [imp [tie2 [Hc _]]]]].
    - intros c p Hp. destruct (Hpa c p Hp) as [Hnd [_ Hx]]. split; assumption.
    - exact Hord.
    - apply Nat.le_trans with (N ^ N)%nat; [apply pow_self_mono; exact HN | exact Hsf].
    - eauto.
  Qed.

  Lemma level_loop_total :
    forall fuel sf weighted thr perms gk nk partition inner md acc tie N,
      LInv es0 dir0 orig gk nk partition inner ->
      (length inner < fuel)%nat -> (length inner <= N)%nat -> (N ^ N <= sf)%nat -> shuffle_ok perms N ->
      exists r, level_loop fuel sf weighted res thr perms m gk partition inner md acc tie = Ok r.
  Proof.
    induction fuel as [|f IH]; intros sf weighted thr perms gk nk partition inner md acc tie N HL Hf HN Hsf Hsh; [lia|].
    cbn [level_loop]. pose proof HL as [LG Hd HF AO HPI].
    destruct (PIok_modularity_ok gk nk partition inner weighted res LG HPI) as (new_mod & ->). cbn [unwrap_res bind].
    destruct (gain_small new_mod md thr) as [small close]. destruct small; [eauto|].
    destruct (generate_graph_total gk (lg_wf gk nk LG) inner) as (g2 & Hg2).
    { intros l u Hl Hu. apply (LG_names gk nk LG). apply (pi_cover _ _ _ _ HPI). exists l. split; assumption. }
    { intros u Hu. apply (LG_names gk nk LG) in Hu. apply (pi_cover _ _ _ _ HPI). exact Hu. }
    rewrite Hg2. cbn [bind].
    destruct (phase_total gk nk partition inner g2 sf perms N HL Hg2 HN Hsf Hsh) as (p2 & i2 & imp & tie2 & Hc).
    rewrite Hc. cbn [bind]. destruct imp; [|eauto].
    destruct (LInv_step es0 dir0 orig m res Hm0 Hmpos Hres gk nk partition inner g2 sf perms p2 i2 true tie2 HL Hg2 Hc)
      as [HL2 [_ Hshr]].
    specialize (Hshr eq_refl).
    apply (IH sf weighted thr perms g2 (length inner) p2 i2 new_mod (acc ++ [partition]) _ N HL2); [lia | lia | exact Hsf | exact Hsh].
  Qed.
End LoopTotal.
